import Aiortc.Lemmas.C01.SctpTsn
/-!
# `_send`: the fragments of a message and of a whole sequence of `_send` calls

`fragOf t0 ms j i` is fragment `i` of the `j`-th message of `ms` when the association's initial TSN is
`t0`; `sendAll_spec` shows that these are exactly the chunks `Tx.sendAll` appends to the outbound
queue, in order.
-/
namespace Aiortc.Sctp
open Aiortc.Gen

theorem USERDATA_MAX_eq : USERDATA_MAX = 1200 := by decide

/-! ## one message -/

def fragFlags (ordered : Bool) (n i : Nat) : Nat :=
  let f0 := if ordered then 0 else SCTP_DATA_UNORDERED
  let f1 := if i = 0 then f0 + SCTP_DATA_FIRST_FRAG else f0
  if i = n - 1 then f1 + SCTP_DATA_LAST_FRAG else f1

def fragAt (tsn : Int) (sid : Nat) (ssn : Int) (ppid : Nat) (ordered : Bool) (n : Nat) (data : Bytes)
    (i : Nat) : RChunk :=
  { tsn := (tsn + i) % 4294967296, sid := sid, ssn := ssn, ppid := ppid, flags := fragFlags ordered n i,
    data := (data.drop (i * USERDATA_MAX)).take USERDATA_MAX }

theorem fragments_toR (tsn : Int) (sid : Nat) (ssn : Int) (ppid : Nat) (ordered : Bool)
    (e r : Option Int) (n : Nat) (data : Bytes) : ∀ k, k ≤ n →
    (fragments tsn sid ssn ppid ordered e r n data k).map SChunk.toR
      = (List.range' (n - k) k).map (fragAt tsn sid ssn ppid ordered n data) := by
  intro k
  induction k with
  | zero => intro _; simp [fragments]
  | succ k ih =>
    intro hk
    have h1 : n - (k + 1) + 1 = n - k := by omega
    simp only [fragments, List.map_cons, List.range'_succ, h1]
    rw [ih (by omega)]
    rfl

theorem flagB_fragFlags (o : Bool) (n i : Nat) : flagB (fragFlags o n i) = decide (i = 0) := by
  unfold fragFlags flagB
  simp only [SCTP_DATA_UNORDERED, SCTP_DATA_FIRST_FRAG, SCTP_DATA_LAST_FRAG]
  have e0 : (i = 0) = True ∨ (i = 0) = False := by by_cases h : i = 0 <;> simp [h]
  have en : (i = n - 1) = True ∨ (i = n - 1) = False := by by_cases h : i = n - 1 <;> simp [h]
  cases o <;> rcases e0 with e0 | e0 <;> rcases en with en | en <;> simp [e0, en]

theorem flagE_fragFlags (o : Bool) (n i : Nat) : flagE (fragFlags o n i) = decide (i = n - 1) := by
  unfold fragFlags flagE
  simp only [SCTP_DATA_UNORDERED, SCTP_DATA_FIRST_FRAG, SCTP_DATA_LAST_FRAG]
  have e0 : (i = 0) = True ∨ (i = 0) = False := by by_cases h : i = 0 <;> simp [h]
  have en : (i = n - 1) = True ∨ (i = n - 1) = False := by by_cases h : i = n - 1 <;> simp [h]
  cases o <;> rcases e0 with e0 | e0 <;> rcases en with en | en <;> simp [e0, en]

theorem flagU_fragFlags (o : Bool) (n i : Nat) : flagU (fragFlags o n i) = !o := by
  unfold fragFlags flagU
  simp only [SCTP_DATA_UNORDERED, SCTP_DATA_FIRST_FRAG, SCTP_DATA_LAST_FRAG]
  have e0 : (i = 0) = True ∨ (i = 0) = False := by by_cases h : i = 0 <;> simp [h]
  have en : (i = n - 1) = True ∨ (i = n - 1) = False := by by_cases h : i = n - 1 <;> simp [h]
  cases o <;> rcases e0 with e0 | e0 <;> rcases en with en | en <;> simp [e0, en]

/-- Cutting a byte string into pieces of `L` bytes and joining them again gives the string back. -/
theorem chunks_join (L : Nat) : ∀ (n : Nat) (d : Bytes), d.length ≤ n * L →
    (List.range n).flatMap (fun i => (d.drop (i * L)).take L) = d := by
  intro n
  induction n with
  | zero =>
    intro d h
    have : d = [] := List.eq_nil_of_length_eq_zero (by omega)
    simp [this]
  | succ n ih =>
    intro d h
    rw [List.range_succ_eq_map, List.flatMap_cons, List.flatMap_map]
    have h2 : (List.range n).flatMap (fun a => (d.drop (Nat.succ a * L)).take L) = d.drop L := by
      have := ih (d.drop L) (by rw [List.length_drop, Nat.succ_mul] at *; omega)
      rw [← this]
      congr 1
      funext a
      rw [List.drop_drop]
      congr 2
      rw [Nat.succ_mul]; omega
    rw [h2]
    simp

theorem fragCount_cover (len : Nat) : len ≤ fragCount len * 1200 := by
  unfold fragCount; rw [USERDATA_MAX_eq]; omega

theorem fragAt_join (tsn : Int) (sid : Nat) (ssn : Int) (ppid : Nat) (o : Bool) (data : Bytes) :
    ((List.range (fragCount data.length)).map (fragAt tsn sid ssn ppid o (fragCount data.length) data)).flatMap
      (·.data) = data := by
  rw [List.flatMap_map]
  simp only [fragAt, USERDATA_MAX_eq]
  exact chunks_join 1200 _ _ (fragCount_cover _)

/-! ## a sequence of messages -/

def nfr (m : SMsg) : Nat := fragCount m.data.length
def msgAt (ms : List SMsg) (j : Nat) : SMsg := ms[j]?.getD default
/-- Index (in sending order over the whole association) of the first fragment of message `j`. -/
def startOf (ms : List SMsg) (j : Nat) : Nat := ((ms.take j).map nfr).sum
/-- Number of ordered messages on `sid` among the first `j` messages. -/
def ordBefore (ms : List SMsg) (j : Nat) (sid : Nat) : Nat :=
  ((ms.take j).filter (fun m => m.ordered && m.sid == sid)).length

def ssnFor (ms : List SMsg) (j : Nat) : Int :=
  if (msgAt ms j).ordered then ssnOf (ordBefore ms j (msgAt ms j).sid) else 0

/-- Fragment `i` of message `j`. -/
def fragOf (t0 : Int) (ms : List SMsg) (j i : Nat) : RChunk :=
  fragAt (tsnOf t0 (startOf ms j)) (msgAt ms j).sid (ssnFor ms j) (msgAt ms j).ppid (msgAt ms j).ordered
    (nfr (msgAt ms j)) (msgAt ms j).data i

/-- All chunks of the association in sending order. -/
def allFrags (t0 : Int) (ms : List SMsg) : List RChunk :=
  (List.range ms.length).flatMap (fun j => (List.range (nfr (msgAt ms j))).map (fragOf t0 ms j))

theorem fragOf_tsn (t0 : Int) (ms : List SMsg) (j i : Nat) :
    (fragOf t0 ms j i).tsn = tsnOf t0 ((startOf ms j + i : Nat) : Int) := by
  simp only [fragOf, fragAt]
  have : ((startOf ms j + i : Nat) : Int) = (startOf ms j : Int) + i := by omega
  rw [this, tsnOf_add_mod]

theorem msgAt_append_left (ms : List SMsg) (m : SMsg) (j : Nat) (h : j < ms.length) :
    msgAt (ms ++ [m]) j = msgAt ms j := by
  unfold msgAt; rw [List.getElem?_append_left h]

theorem msgAt_append_right (ms : List SMsg) (m : SMsg) : msgAt (ms ++ [m]) ms.length = m := by
  unfold msgAt; simp

theorem startOf_append (ms : List SMsg) (m : SMsg) (j : Nat) (h : j ≤ ms.length) :
    startOf (ms ++ [m]) j = startOf ms j := by
  unfold startOf; rw [List.take_append_of_le_length h]

theorem ordBefore_append (ms : List SMsg) (m : SMsg) (j sid : Nat) (h : j ≤ ms.length) :
    ordBefore (ms ++ [m]) j sid = ordBefore ms j sid := by
  unfold ordBefore; rw [List.take_append_of_le_length h]

theorem fragOf_append (t0 : Int) (ms : List SMsg) (m : SMsg) (j i : Nat) (h : j < ms.length) :
    fragOf t0 (ms ++ [m]) j i = fragOf t0 ms j i := by
  unfold fragOf ssnFor
  rw [msgAt_append_left ms m j h, startOf_append ms m j (Nat.le_of_lt h),
    ordBefore_append ms m j _ (Nat.le_of_lt h)]

theorem startOf_succ (ms : List SMsg) (j : Nat) (h : j < ms.length) :
    startOf ms (j + 1) = startOf ms j + nfr (msgAt ms j) := by
  unfold startOf msgAt
  rw [List.take_add_one, List.getElem?_eq_getElem h, List.map_append, List.sum_append]
  simp

theorem startOf_mono (ms : List SMsg) (a b : Nat) (h : a ≤ b) : startOf ms a ≤ startOf ms b := by
  induction b with
  | zero => have : a = 0 := by omega
            subst this; exact Nat.le_refl _
  | succ b ih =>
    by_cases hab : a = b + 1
    · subst hab; exact Nat.le_refl _
    · have h1 := ih (by omega)
      by_cases hb : b < ms.length
      · rw [startOf_succ ms b hb]; omega
      · have : startOf ms (b + 1) = startOf ms b := by
          unfold startOf
          rw [List.take_of_length_le (by omega), List.take_of_length_le (by omega)]
        omega

/-- A valid (message, fragment) pair. -/
def ValidFrag (ms : List SMsg) (p : Nat × Nat) : Prop := p.1 < ms.length ∧ p.2 < nfr (msgAt ms p.1)

/-- Position of a fragment in the association-wide sending order. -/
def flat (ms : List SMsg) (p : Nat × Nat) : Nat := startOf ms p.1 + p.2

theorem flat_lt_total (ms : List SMsg) (p : Nat × Nat) (h : ValidFrag ms p) :
    flat ms p < startOf ms ms.length := by
  have h1 := startOf_succ ms p.1 h.1
  have h2 := startOf_mono ms (p.1 + 1) ms.length h.1
  unfold flat; have := h.2; omega

theorem flat_inj (ms : List SMsg) (p q : Nat × Nat) (hp : ValidFrag ms p) (hq : ValidFrag ms q)
    (h : flat ms p = flat ms q) : p = q := by
  have key : ∀ (a b : Nat × Nat), ValidFrag ms a → ValidFrag ms b → flat ms a = flat ms b → ¬ a.1 < b.1 := by
    intro a b ha _ hab hlt
    have h1 := startOf_succ ms a.1 ha.1
    have h2 := startOf_mono ms (a.1 + 1) b.1 hlt
    unfold flat at hab; have := ha.2; omega
  have h1 := key p q hp hq h
  have h2 := key q p hq hp h.symm
  have e1 : p.1 = q.1 := by omega
  unfold flat at h
  rw [e1] at h
  exact Prod.ext e1 (by omega)

/-! ## `Tx.sendAll` produces exactly `allFrags` -/

theorem dictGet_dictSet_same {β} (d : List (Nat × β)) (k : Nat) (v : β) :
    dictGet (dictSet d k v) k = some v := by
  unfold dictSet
  split
  · rename_i hany
    unfold dictGet
    induction d with
    | nil => simp at hany
    | cons e es ih =>
      rw [List.map_cons, List.find?_cons]
      cases he : (e.1 == k) with
      | true => simp
      | false =>
        simp only [Bool.false_eq_true, if_false, he]
        rw [List.any_cons, he, Bool.false_or] at hany
        exact ih hany
  · rename_i hany
    have hnone : d.find? (·.1 == k) = none := by
      rw [List.find?_eq_none]
      intro x hx hxk
      exact hany (List.any_eq_true.2 ⟨x, hx, hxk⟩)
    simp [dictGet, List.find?_append, hnone]

theorem dictGet_dictSet_other {β} (d : List (Nat × β)) (k k' : Nat) (v : β) (h : k' ≠ k) :
    dictGet (dictSet d k v) k' = dictGet d k' := by
  unfold dictSet
  have hk : (k == k') = false := by simpa using fun e => h e.symm
  split
  · rename_i hany
    clear hany
    unfold dictGet
    congr 1
    induction d with
    | nil => rfl
    | cons e es ih =>
      rw [List.map_cons, List.find?_cons, List.find?_cons]
      cases he : (e.1 == k) with
      | true =>
        have hek : e.1 = k := by simpa using he
        have : (e.1 == k') = false := by rw [hek]; exact hk
        simp only [if_true, hk, this]
        exact ih
      | false =>
        simp only [Bool.false_eq_true, if_false]
        cases he' : (e.1 == k') with
        | true => rfl
        | false => dsimp only; exact ih
  · simp only [dictGet, List.find?_append]
    cases hf : d.find? (·.1 == k') with
    | some x => simp
    | none => simp [List.find?, hk]

/-- What the sender's counters are after `_send` was called for `ms`. -/
structure TxOk (t0 : Int) (ms : List SMsg) (t : Tx) : Prop where
  tsn : t.localTsn = tsnOf t0 (startOf ms ms.length)
  seq : ∀ sid, (dictGet t.streamSeq sid).getD 0 = ssnOf (ordBefore ms ms.length sid)

theorem TxOk.init (t0 : Int) (h : 0 ≤ t0 ∧ t0 < 4294967296) (t : Tx) (h1 : t.localTsn = t0)
    (h2 : t.streamSeq = []) : TxOk t0 [] t :=
  ⟨by rw [h1]; simp [startOf, tsnOf_zero t0 h], by intro sid; simp [h2, dictGet, ordBefore, ssnOf]⟩

theorem send_spec (t0 : Int) (ms : List SMsg) (m : SMsg) (t : Tx) (h : TxOk t0 ms t) :
    TxOk t0 (ms ++ [m]) (t.send m) ∧
    (t.send m).outQ.map SChunk.toR
      = t.outQ.map SChunk.toR ++ (List.range (nfr m)).map (fragOf t0 (ms ++ [m]) ms.length) := by
  have hlen : (ms ++ [m]).length = ms.length + 1 := by simp
  have hst : startOf (ms ++ [m]) (ms.length + 1) = startOf ms ms.length + nfr m := by
    rw [startOf_succ _ _ (by simp), msgAt_append_right, startOf_append _ _ _ (Nat.le_refl _)]
  have hob : ∀ sid, ordBefore (ms ++ [m]) (ms.length + 1) sid
      = ordBefore ms ms.length sid + (if (m.ordered && m.sid == sid) = true then 1 else 0) := by
    intro sid
    unfold ordBefore
    rw [List.take_of_length_le (by simp), List.take_of_length_le (Nat.le_refl _), List.filter_append]
    by_cases hc : (m.ordered && m.sid == sid) = true <;> simp [hc]
  constructor
  · constructor
    · rw [hlen, hst]
      simp only [Tx.send, Tx.enqueue, h.tsn]
      rw [tsnOf_add_mod]; unfold nfr; congr 1
    · intro sid
      rw [hlen, hob sid]
      simp only [Tx.send, Tx.enqueue]
      cases hord : m.ordered with
      | false => simp [h.seq sid]
      | true =>
        simp only [if_true, Bool.true_and]
        by_cases hs : m.sid = sid
        · subst hs
          rw [dictGet_dictSet_same]
          simp only [Option.getD_some, beq_self_eq_true, if_true]
          rw [h.seq m.sid, uint16_add_ssnOf]
        · rw [dictGet_dictSet_other _ _ _ _ (fun e => hs e.symm)]
          have : (m.sid == sid) = false := by simpa using hs
          simp [this, h.seq sid]
  · simp only [Tx.send, Tx.enqueue, List.map_append]
    congr 1
    rw [fragments_toR _ _ _ _ _ _ _ _ _ _ (Nat.le_refl _)]
    simp only [Nat.sub_self, ← List.range_eq_range']
    apply List.map_congr_left
    intro i _
    unfold fragOf ssnFor
    rw [msgAt_append_right, startOf_append _ _ _ (Nat.le_refl _), ordBefore_append _ _ _ _ (Nat.le_refl _),
      h.tsn]
    unfold nfr
    cases hord : m.ordered with
    | false => simp
    | true => simp [h.seq m.sid]

theorem allFrags_append (t0 : Int) (ms : List SMsg) (m : SMsg) :
    allFrags t0 (ms ++ [m]) = allFrags t0 ms ++ (List.range (nfr m)).map (fragOf t0 (ms ++ [m]) ms.length) := by
  unfold allFrags
  rw [show (ms ++ [m]).length = ms.length + 1 by simp, List.range_succ, List.flatMap_append]
  congr 1
  · rw [List.flatMap_def, List.flatMap_def]
    congr 1
    apply List.map_congr_left
    intro j hj
    have hj' : j < ms.length := List.mem_range.1 hj
    rw [msgAt_append_left ms m j hj']
    apply List.map_congr_left
    intro i _
    exact fragOf_append t0 ms m j i hj'
  · simp [msgAt_append_right]

theorem sendAll_spec_aux (t0 : Int) : ∀ (ms2 ms1 : List SMsg) (t : Tx), TxOk t0 ms1 t →
    TxOk t0 (ms1 ++ ms2) (t.sendAll ms2) ∧
    ∀ pre, t.outQ.map SChunk.toR = pre ++ allFrags t0 ms1 →
      (t.sendAll ms2).outQ.map SChunk.toR = pre ++ allFrags t0 (ms1 ++ ms2) := by
  intro ms2
  induction ms2 with
  | nil => intro ms1 t h; simp only [List.append_nil, Tx.sendAll, List.foldl_nil]; exact ⟨h, fun _ hp => hp⟩
  | cons m rest ih =>
    intro ms1 t h
    obtain ⟨h1, h2⟩ := send_spec t0 ms1 m t h
    have := ih (ms1 ++ [m]) (t.send m) h1
    have e : ms1 ++ [m] ++ rest = ms1 ++ m :: rest := by simp
    rw [e] at this
    refine ⟨this.1, ?_⟩
    intro pre hp
    apply this.2 pre
    rw [h2, hp, allFrags_append, List.append_assoc]

/-- The chunks a fresh sender (initial TSN `t0`, no stream sequence numbers yet, empty queue) appends
for the `_send` calls `ms` are `allFrags t0 ms`, in order. -/
theorem sendAll_spec (t0 : Int) (ht0 : 0 ≤ t0 ∧ t0 < 4294967296) (t : Tx) (h1 : t.localTsn = t0)
    (h2 : t.streamSeq = []) (h3 : t.outQ = []) (ms : List SMsg) :
    (t.sendAll ms).outQ.map SChunk.toR = allFrags t0 ms := by
  have := (sendAll_spec_aux t0 ms [] t (TxOk.init t0 ht0 t h1 h2)).2 [] (by simp [h3, allFrags])
  simpa using this

theorem mem_allFrags (t0 : Int) (ms : List SMsg) (c : RChunk) :
    c ∈ allFrags t0 ms ↔ ∃ p, ValidFrag ms p ∧ c = fragOf t0 ms p.1 p.2 := by
  unfold allFrags ValidFrag
  simp only [List.mem_flatMap, List.mem_range, List.mem_map]
  constructor
  · rintro ⟨j, hj, i, hi, e⟩; exact ⟨(j, i), ⟨hj, hi⟩, e.symm⟩
  · rintro ⟨p, ⟨hj, hi⟩, e⟩; exact ⟨p.1, hj, p.2, hi, e.symm⟩

end Aiortc.Sctp
