import Aiortc.Lemmas.C01.SctpTsn
/-!
# `InboundStream.pop_messages`: termination and soundness

Every message yielded is the concatenation of a contiguous run of the reassembly queue whose TSNs are
consecutive, which starts with a B (FIRST_FRAG) chunk and ends at its first E (LAST_FRAG) chunk; the
run leaves the queue, the rest is unchanged (`PopStep`).  The loop never hangs (`popMessages_ok`).
-/
namespace Aiortc.Sctp
open Aiortc.Gen

/-- Adjacent chunks have consecutive TSNs and none but the last carries the E flag. -/
def Linked : List RChunk → Prop
  | [] => True
  | [_] => True
  | c :: d :: rest => flagE c.flags = false ∧ d.tsn = tsn_plus_one c.tsn ∧ Linked (d :: rest)

theorem Linked.snoc {l : List RChunk} {x c : RChunk} (h : Linked l) (hl : l.getLast? = some x)
    (hx : flagE x.flags = false) (hc : c.tsn = tsn_plus_one x.tsn) : Linked (l ++ [c]) := by
  induction l with
  | nil => simp at hl
  | cons a t ih =>
    cases t with
    | nil =>
      simp only [List.getLast?_singleton, Option.some.injEq] at hl
      subst hl
      exact ⟨hx, hc, trivial⟩
    | cons b rest =>
      have hl' : (b :: rest).getLast? = some x := by
        rw [List.getLast?_cons_cons] at hl; exact hl
      exact ⟨h.1, h.2.1, ih h.2.2 hl'⟩

/-- One `yield` of `pop_messages`. -/
structure PopStep (reasm : List RChunk) (seq : Int) (m : Msg) (reasm' : List RChunk) (seq' : Int) : Prop where
  ex : ∃ (pre run post : List RChunk) (hd lst : RChunk),
    reasm = pre ++ run ++ post ∧ reasm' = pre ++ post ∧ run.head? = some hd ∧ run.getLast? = some lst
    ∧ flagB hd.flags = true ∧ Linked run ∧ flagE lst.flags = true
    ∧ (flagU hd.flags = false → uint16_gt hd.ssn seq = false)
    ∧ m = { sid := lst.sid, ppid := lst.ppid, data := run.flatMap (·.data) }
    ∧ seq' = if (!flagU hd.flags && decide (lst.ssn = seq)) = true then uint16_add seq 1 else seq

inductive PopSteps : List RChunk → Int → List Msg → List RChunk → Int → Prop
  | nil (r : List RChunk) (s : Int) : PopSteps r s [] r s
  | cons {r s m r1 s1 ms r2 s2} : PopStep r s m r1 s1 → PopSteps r1 s1 ms r2 s2 → PopSteps r s (m :: ms) r2 s2

/-- Loop invariant of `pop_messages`. -/
structure LoopInv (st : PopSt) : Prop where
  pos_le : st.pos ≤ st.reasm.length
  run : ∀ sp, st.start = some sp → sp < st.pos ∧
    ∃ hd x, st.reasm[sp]? = some hd ∧ flagB hd.flags = true ∧ st.ordered = !flagU hd.flags
      ∧ (st.ordered = true → uint16_gt hd.ssn st.seq = false)
      ∧ Linked ((st.reasm.take st.pos).drop sp)
      ∧ ((st.reasm.take st.pos).drop sp).getLast? = some x
      ∧ flagE x.flags = false ∧ st.expected = tsn_plus_one x.tsn

theorem take_succ_drop (l : List RChunk) (sp pos : Nat) (c : RChunk) (h : l[pos]? = some c)
    (hsp : sp ≤ pos) : (l.take (pos + 1)).drop sp = (l.take pos).drop sp ++ [c] := by
  have hlen : pos < l.length := by
    rcases Nat.lt_or_ge pos l.length with h' | h'
    · exact h'
    · rw [List.getElem?_eq_none h'] at h; cases h
  rw [List.take_add_one, h]
  simp only [Option.toList_some]
  rw [List.drop_append_of_le_length]
  rw [List.length_take]; omega

theorem split_at_run (l : List RChunk) (sp pos : Nat) (hsp : sp ≤ pos) :
    l = l.take sp ++ (l.take (pos + 1)).drop sp ++ l.drop (pos + 1) := by
  have h1 : l.take sp = (l.take (pos + 1)).take sp := by
    rw [List.take_take]; congr 1; omega
  rw [h1, List.take_append_drop, List.take_append_drop]

/-- The delivery branch of `popTail`. -/
theorem deliver_step (st : PopSt) (chunk hd : RChunk) (sp : Nat) (o : Bool)
    (hpos : st.reasm[st.pos]? = some chunk) (hsp : sp ≤ st.pos)
    (hhd : st.reasm[sp]? = some hd) (hB : flagB hd.flags = true) (ho : o = !flagU hd.flags)
    (hss : o = true → uint16_gt hd.ssn st.seq = false)
    (hlink : Linked ((st.reasm.take (st.pos + 1)).drop sp)) (hE : flagE chunk.flags = true) :
    PopStep st.reasm st.seq
      { sid := chunk.sid, ppid := chunk.ppid, data := ((st.reasm.take (st.pos + 1)).drop sp).flatMap (·.data) }
      (st.reasm.take sp ++ st.reasm.drop (st.pos + 1))
      (if (o && decide (chunk.ssn = st.seq)) = true then uint16_add st.seq 1 else st.seq) := by
  have hlen : st.pos < st.reasm.length := by
    rcases Nat.lt_or_ge st.pos st.reasm.length with h' | h'
    · exact h'
    · rw [List.getElem?_eq_none h'] at hpos; cases hpos
  refine ⟨st.reasm.take sp, (st.reasm.take (st.pos + 1)).drop sp, st.reasm.drop (st.pos + 1), hd, chunk,
    split_at_run _ _ _ hsp, rfl, ?_, ?_, hB, hlink, hE, ?_, rfl, ?_⟩
  · rw [List.head?_drop, List.getElem?_take]
    simp only [show sp < st.pos + 1 by omega, if_true]; exact hhd
  · rw [take_succ_drop _ _ _ _ hpos hsp]; simp
  · intro hu; apply hss; rw [ho, hu]; rfl
  · rw [ho]

theorem getElem?_lt {l : List RChunk} {i : Nat} {c : RChunk} (h : l[i]? = some c) : i < l.length := by
  rcases Nat.lt_or_ge i l.length with h' | h'
  · exact h'
  · rw [List.getElem?_eq_none h'] at h; cases h

/-- One loop iteration: the invariant is kept, the measure decreases, and either nothing is yielded and
the queue is unchanged or one `PopStep` happened. -/
theorem popIter_step (st st1 : PopSt) (hinv : LoopInv st) (h : popIter st = some st1) :
    LoopInv st1 ∧ 2 * st1.reasm.length + st.pos + 1 ≤ 2 * st.reasm.length + st1.pos ∧
    ((st1.out = st.out ∧ st1.reasm = st.reasm ∧ st1.seq = st.seq) ∨
     (∃ m, st1.out = st.out ++ [m] ∧ PopStep st.reasm st.seq m st1.reasm st1.seq)) := by
  unfold popIter at h
  split at h
  · cases h
  · rename_i chunk hchunk
    have hlen := getElem?_lt hchunk
    split at h
    · -- start = none
      rename_i hstart
      dsimp only at h
      split at h
      · -- not B
        split at h
        · cases h
        · cases h
          refine ⟨⟨by simp only []; omega, ?_⟩, by simp only []; omega, Or.inl ⟨rfl, rfl, rfl⟩⟩
          intro sp hsp; simp [hstart] at hsp
      · rename_i hB
        split at h
        · cases h
        · rename_i hss
          cases h
          have hB' : flagB chunk.flags = true := by simpa using hB
          unfold popTail
          split
          · -- E: single-chunk message
            rename_i hE
            have hstep := deliver_step st chunk chunk st.pos (!flagU chunk.flags) hchunk (Nat.le_refl _)
              hchunk hB' rfl (by
                intro ho
                simp only [ho, Bool.true_and, Bool.not_eq_true] at hss
                exact hss)
              (by rw [take_succ_drop _ _ _ _ hchunk (Nat.le_refl _)]; simp [Linked]) hE
            refine ⟨⟨?_, ?_⟩, ?_, Or.inr ⟨_, rfl, hstep⟩⟩
            · simp only [List.length_append, List.length_take, List.length_drop]; omega
            · intro sp hsp; simp at hsp
            · simp only [List.length_append, List.length_take, List.length_drop]; omega
          · rename_i hE
            have hE' : flagE chunk.flags = false := by simpa using hE
            refine ⟨⟨by simp only []; omega, ?_⟩, by simp only []; omega, Or.inl ⟨rfl, rfl, rfl⟩⟩
            intro sp hsp
            simp only [Option.some.injEq] at hsp
            subst hsp
            refine ⟨by simp, chunk, chunk, hchunk, hB', rfl, ?_, ?_, ?_, hE', rfl⟩
            · intro ho
              have ho' : (!flagU chunk.flags) = true := ho
              rw [ho'] at hss
              simpa using hss
            · simp only []; rw [take_succ_drop _ _ _ _ hchunk (Nat.le_refl _)]; simp [Linked]
            · simp only []; rw [take_succ_drop _ _ _ _ hchunk (Nat.le_refl _)]; simp
    · -- start = some sp
      rename_i sp hstart
      obtain ⟨hsplt, hd, x, hhd, hB, hord, hss, hlink, hlast, hxE, hexp⟩ := hinv.run sp hstart
      split at h
      · split at h
        · cases h
        · cases h
          refine ⟨⟨by simp only []; omega, ?_⟩, by simp only []; omega, Or.inl ⟨rfl, rfl, rfl⟩⟩
          intro sp' hsp'; simp at hsp'
      · rename_i htsn
        have htsn' : chunk.tsn = st.expected := by simpa using htsn
        cases h
        have hlink' : Linked ((st.reasm.take (st.pos + 1)).drop sp) := by
          rw [take_succ_drop _ _ _ _ hchunk (Nat.le_of_lt hsplt)]
          exact hlink.snoc hlast hxE (by rw [htsn', hexp])
        unfold popTail
        split
        · rename_i hE
          have hstep := deliver_step st chunk hd sp st.ordered hchunk (Nat.le_of_lt hsplt) hhd hB hord hss
            hlink' hE
          refine ⟨⟨?_, ?_⟩, ?_, Or.inr ⟨_, rfl, hstep⟩⟩
          · simp only [List.length_append, List.length_take, List.length_drop]; omega
          · intro sp' hsp'; simp at hsp'
          · simp only [List.length_append, List.length_take, List.length_drop]; omega
        · rename_i hE
          have hE' : flagE chunk.flags = false := by simpa using hE
          refine ⟨⟨by simp only []; omega, ?_⟩, by simp only []; omega, Or.inl ⟨rfl, rfl, rfl⟩⟩
          intro sp' hsp'
          simp only [hstart, Option.some.injEq] at hsp'
          subst hsp'
          refine ⟨by simp; omega, hd, chunk, hhd, hB, hord, hss, hlink', ?_, hE', by simp [htsn']⟩
          simp only []; rw [take_succ_drop _ _ _ _ hchunk (Nat.le_of_lt hsplt)]; simp

theorem popRun_sound : ∀ (fuel : Nat) (st st' : PopSt), LoopInv st → popRun fuel st = some st' →
    ∃ ms, st'.out = st.out ++ ms ∧ PopSteps st.reasm st.seq ms st'.reasm st'.seq := by
  intro fuel
  induction fuel with
  | zero => intro st st' _ h; simp [popRun] at h
  | succ f ih =>
    intro st st' hinv h
    unfold popRun at h
    split at h
    · cases h; exact ⟨[], by simp, PopSteps.nil _ _⟩
    · rename_i st1 hit
      obtain ⟨hinv1, _, hcase⟩ := popIter_step st st1 hinv hit
      obtain ⟨ms, hout, hsteps⟩ := ih st1 st' hinv1 h
      rcases hcase with ⟨ho, hr, hs⟩ | ⟨m, ho, hstep⟩
      · exact ⟨ms, by rw [hout, ho], by rw [← hr, ← hs]; exact hsteps⟩
      · exact ⟨m :: ms, by rw [hout, ho]; simp, PopSteps.cons hstep hsteps⟩

theorem popRun_total : ∀ (fuel : Nat) (st : PopSt), LoopInv st →
    2 * st.reasm.length + 1 ≤ fuel + st.pos → ∃ st', popRun fuel st = some st' := by
  intro fuel
  induction fuel with
  | zero => intro st hinv h; have := hinv.pos_le; omega
  | succ f ih =>
    intro st hinv h
    unfold popRun
    split
    · exact ⟨st, rfl⟩
    · rename_i st1 hit
      obtain ⟨hinv1, hdec, _⟩ := popIter_step st st1 hinv hit
      exact ih st1 hinv1 (by omega)

/-- `pop_messages` terminates (never `hang`) and every yield is a `PopStep`. -/
theorem popMessages_ok (s : InStream) :
    ∃ out s', s.popMessages = .ok (out, s') ∧ PopSteps s.reasm s.seq out s'.reasm s'.seq := by
  have hinv : LoopInv { reasm := s.reasm, seq := s.seq, pos := 0, start := none, expected := 0,
                        ordered := true, out := [] } :=
    ⟨by simp, by intro sp h; simp at h⟩
  obtain ⟨st', hrun⟩ := popRun_total (2 * s.reasm.length + 2) _ hinv (by simp)
  obtain ⟨ms, hout, hsteps⟩ := popRun_sound _ _ st' hinv hrun
  refine ⟨st'.out, { reasm := st'.reasm, seq := st'.seq }, ?_, ?_⟩
  · unfold InStream.popMessages; simp only []; rw [hrun]
  · simp only [List.nil_append] at hout; rw [hout]; exact hsteps

end Aiortc.Sctp
