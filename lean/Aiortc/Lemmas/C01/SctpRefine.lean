import Aiortc.Lemmas.C01.SctpInv
/-!
# `Recv.step` (pure) is what the monadic `receiveData` of `Model/Sctp/Endpoint.lean` computes

One call of `receiveData c` on an endpoint state whose receive fields are `(rx, inStreams)` ends — when the
pure `Recv.step` returns `ok (r', msgs)` — by running `deliver msgs` on a state whose receive fields are `r'`.
(`dcReceive_user`: `_data_channel_receive` of a user message — even with an application handler that re-enters
`send()` — does not touch `rx` / `inStreams`; for DCEP control messages this is not proved here.)
-/
set_option linter.unusedSimpArgs false
namespace Aiortc.Sctp
open Aiortc.Gen

theorem dictSet_append_absent (d : List (Nat × InStream)) (k : Nat) (v w : InStream)
    (h : dictGet d k = none) : dictSet (d ++ [(k, w)]) k v = dictSet d k v := by
  have hnone : d.find? (·.1 == k) = none := by
    unfold dictGet at h
    cases hf : d.find? (·.1 == k) with
    | none => rfl
    | some x => rw [hf] at h; simp at h
  have hall : ∀ x ∈ d, (x.1 == k) = false := by
    intro x hx
    have := List.find?_eq_none.1 hnone x hx
    simpa using this
  have hany : d.any (·.1 == k) = false := by
    rw [List.any_eq_false]; intro x hx; simpa using hall x hx
  unfold dictSet
  simp only [List.any_append, hany, List.any_cons, beq_self_eq_true, List.any_nil, Bool.or_false, Bool.false_or,
    if_true, Bool.false_eq_true, if_false, List.map_append, List.map_cons, List.map_nil]
  congr 1
  rw [List.map_congr_left (g := id)]
  · simp
  · intro x hx; simp [hall x hx]

theorem receiveData_dup (c : RChunk) (e : Ep) (l : List Out) (rx : Rx) (hrx : e.rx = some rx)
    (hdup : (markReceived rx c.tsn).1 = true) :
    (receiveData c).run.run (e, l)
      = (.ok (), ({ e with sackNeeded := true, rx := some (markReceived rx c.tsn).2 }, l)) := by
  unfold receiveData
  simp only [bind, ExceptT.bind, ExceptT.mk, ExceptT.run, ExceptT.bindCont, StateT.bind, StateT.run, modE, getE, setE,
    modify, modifyGet, MonadStateOf.modifyGet, StateT.modifyGet, pure, ExceptT.pure, StateT.pure, get, getThe, MonadStateOf.get, StateT.get, liftM, monadLift, MonadLift.monadLift, ExceptT.lift, Functor.map, StateT.map, hrx, hdup, if_true]

theorem receiveData_fresh (c : RChunk) (e : Ep) (l : List Out) (rx : Rx) (s1 s2 : InStream) (msgs : List Msg)
    (hrx : e.rx = some rx) (hdup : (markReceived rx c.tsn).1 = false)
    (hnd : (((dictGet e.inStreams c.sid).getD {}).reasm.any fun r => r.tsn == c.tsn) = false)
    (hadd : ((dictGet e.inStreams c.sid).getD {}).addChunk c = .ok s1)
    (hpop : s1.popMessages = .ok (msgs, s2)) :
    ∃ e', (receiveData c).run.run (e, l) = (deliver msgs).run.run (e', l)
      ∧ e'.rx = some (markReceived rx c.tsn).2 ∧ e'.inStreams = dictSet e.inStreams c.sid s2 := by
  unfold receiveData
  simp only [bind, ExceptT.bind, ExceptT.mk, ExceptT.run, ExceptT.bindCont, StateT.bind, StateT.run, modE, getE, setE,
    modify, modifyGet, MonadStateOf.modifyGet, StateT.modifyGet, pure, ExceptT.pure, StateT.pure, get, getThe,
    MonadStateOf.get, StateT.get, liftM, monadLift, MonadLift.monadLift, ExceptT.lift, Functor.map, StateT.map, hrx,
    hdup, Bool.false_eq_true, if_false, getInStream, setInStream]
  cases hget : dictGet e.inStreams c.sid with
  | some s =>
    rw [hget] at hadd hnd
    simp only [Option.getD_some] at hadd hnd
    try dsimp only
    simp only [hnd, Bool.false_eq_true, if_false, hadd, bind, ExceptT.bind, ExceptT.mk, ExceptT.run, ExceptT.bindCont, StateT.bind, StateT.run, modE, modify, modifyGet, MonadStateOf.modifyGet, StateT.modifyGet, pure, ExceptT.pure, StateT.pure, Functor.map, StateT.map, liftO]
    try dsimp only
    simp only [hpop, bind, ExceptT.bind, ExceptT.mk, ExceptT.run, ExceptT.bindCont, StateT.bind, StateT.run, modE, modify, modifyGet, MonadStateOf.modifyGet, StateT.modifyGet, pure, ExceptT.pure, StateT.pure, Functor.map, StateT.map, liftO]
    try dsimp only
    exact ⟨_, rfl, rfl, rfl⟩
  | none =>
    rw [hget] at hadd
    simp only [Option.getD_none] at hadd
    have hnil : ((({} : InStream).reasm).any fun r => r.tsn == c.tsn) = false := rfl
    try dsimp only
    try simp only [hnil, Bool.false_eq_true, if_false, bind, ExceptT.bind, ExceptT.mk, ExceptT.run, ExceptT.bindCont, StateT.bind, StateT.run, modE, modify, modifyGet, MonadStateOf.modifyGet, StateT.modifyGet, pure, ExceptT.pure, StateT.pure, Functor.map, StateT.map, liftO]
    try dsimp only
    try simp only [hnil, Bool.false_eq_true, if_false, hadd, bind, ExceptT.bind, ExceptT.mk, ExceptT.run, ExceptT.bindCont, StateT.bind, StateT.run, modE, modify, modifyGet, MonadStateOf.modifyGet, StateT.modifyGet, pure, ExceptT.pure, StateT.pure, Functor.map, StateT.map, liftO]
    try dsimp only
    try simp only [hnil, Bool.false_eq_true, if_false, hpop, bind, ExceptT.bind, ExceptT.mk, ExceptT.run, ExceptT.bindCont, StateT.bind, StateT.run, modE, modify, modifyGet, MonadStateOf.modifyGet, StateT.modifyGet, pure, ExceptT.pure, StateT.pure, Functor.map, StateT.map, liftO]
    try dsimp only
    refine ⟨_, rfl, rfl, ?_⟩
    exact dictSet_append_absent _ _ _ _ hget

theorem receiveData_waiting (c : RChunk) (e : Ep) (l : List Out) (rx : Rx) (hrx : e.rx = some rx)
    (hdup : (markReceived rx c.tsn).1 = false)
    (hg : (((dictGet e.inStreams c.sid).getD {}).reasm.any fun r => r.tsn == c.tsn) = true) :
    (receiveData c).run.run (e, l)
      = (.ok (), ({ e with sackNeeded := true, rx := some (markReceived rx c.tsn).2 }, l)) := by
  unfold receiveData
  cases hget : dictGet e.inStreams c.sid with
  | none => rw [hget] at hg; simp at hg
  | some s =>
    rw [hget] at hg
    simp only [Option.getD_some] at hg
    simp only [bind, ExceptT.bind, ExceptT.mk, ExceptT.run, ExceptT.bindCont, StateT.bind, StateT.run, modE, getE, setE,
      modify, modifyGet, MonadStateOf.modifyGet, StateT.modifyGet, pure, ExceptT.pure, StateT.pure, get, getThe,
      MonadStateOf.get, StateT.get, liftM, monadLift, MonadLift.monadLift, ExceptT.lift, Functor.map, StateT.map, hrx,
      hdup, Bool.false_eq_true, if_false, getInStream, hget, hg, if_true]

theorem deliver_nil (e : Ep) (l : List Out) : (deliver []).run.run (e, l) = (.ok (), (e, l)) := rfl

/-- One `_receive_data_chunk` call of the endpoint automaton refines the pure receiver step. -/
theorem receiveData_refines (c : RChunk) (e : Ep) (l : List Out) (rx : Rx) (r' : Recv) (msgs : List Msg)
    (hrx : e.rx = some rx) (hstep : Recv.step { rx := rx, streams := e.inStreams } c = .ok (r', msgs)) :
    ∃ e', (receiveData c).run.run (e, l) = (deliver msgs).run.run (e', l)
      ∧ e'.rx = some r'.rx ∧ e'.inStreams = r'.streams := by
  unfold Recv.step at hstep
  simp only at hstep
  cases hm : markReceived rx c.tsn with
  | mk dup rx' =>
    rw [hm] at hstep
    simp only at hstep
    cases dup with
    | true =>
      simp only [if_true, Outcome.ok.injEq, Prod.mk.injEq] at hstep
      obtain ⟨rfl, rfl⟩ := hstep
      have := receiveData_dup c e l rx hrx (by rw [hm])
      rw [hm] at this
      refine ⟨{ e with sackNeeded := true, rx := some rx' }, ?_, rfl, rfl⟩
      rw [deliver_nil]; exact this
    | false =>
      simp only [Bool.false_eq_true, if_false] at hstep
      by_cases hnd : (((dictGet e.inStreams c.sid).getD {}).reasm.any fun r => r.tsn == c.tsn) = true
      · rw [if_pos hnd] at hstep
        simp only [Outcome.ok.injEq, Prod.mk.injEq] at hstep
        obtain ⟨rfl, rfl⟩ := hstep
        have := receiveData_waiting c e l rx hrx (by rw [hm]) hnd
        rw [hm] at this
        refine ⟨{ e with sackNeeded := true, rx := some rx' }, ?_, rfl, rfl⟩
        rw [deliver_nil]; exact this
      rw [if_neg hnd] at hstep
      have hnd : (((dictGet e.inStreams c.sid).getD {}).reasm.any fun r => r.tsn == c.tsn) = false := by
        simpa using hnd
      cases hadd : ((dictGet e.inStreams c.sid).getD {}).addChunk c with
      | ok s1 =>
        rw [hadd] at hstep
        simp only at hstep
        cases hpop : s1.popMessages with
        | ok v =>
          obtain ⟨ms', s2⟩ := v
          rw [hpop] at hstep
          simp only [Outcome.ok.injEq, Prod.mk.injEq] at hstep
          obtain ⟨rfl, rfl⟩ := hstep
          obtain ⟨e', h1, h2, h3⟩ := receiveData_fresh c e l rx s1 s2 ms' hrx (by rw [hm]) hnd hadd hpop
          exact ⟨e', h1, by rw [h2, hm], h3⟩
        | valueError => rw [hpop] at hstep; cases hstep
        | crash k => rw [hpop] at hstep; cases hstep
        | hang => rw [hpop] at hstep; cases hstep
      | valueError => rw [hadd] at hstep; cases hstep
      | crash k => rw [hadd] at hstep; cases hstep
      | hang => rw [hadd] at hstep; cases hstep

/-! ## application handlers that re-enter `send()` -/

/-- The reaction an event of kind `k` on channel `i` would consume. -/
def reactPick (k i : Nat) (e : Ep) : Option (Nat × Nat × Bool × Bytes) :=
  e.reactions.find? (fun r => r.1 == k && (k == 4 || r.2.1 == i))

theorem react_none (k i : Nat) (e : Ep) (l : List Out) (h : reactPick k i e = none) :
    (react k i).run.run (e, l) = (.ok (), (e, l)) := by
  unfold reactPick at h
  unfold react
  simp only [bind, ExceptT.bind, ExceptT.mk, ExceptT.run, ExceptT.bindCont, StateT.bind, StateT.run, modE, getE, setE,
    modify, modifyGet, MonadStateOf.modifyGet, StateT.modifyGet, pure, ExceptT.pure, StateT.pure, get, getThe,
    MonadStateOf.get, StateT.get, liftM, monadLift, MonadLift.monadLift, ExceptT.lift, Functor.map, StateT.map, h]

theorem react_nochan (k i : Nat) (e : Ep) (l : List Out) (r : Nat × Nat × Bool × Bytes)
    (h : reactPick k i e = some r) (hc : e.chans[i]? = none) :
    (react k i).run.run (e, l) = (.error "IndexError", ({ e with reactions := e.reactions.erase r }, l)) := by
  unfold reactPick at h
  unfold react
  simp only [bind, ExceptT.bind, ExceptT.mk, ExceptT.run, ExceptT.bindCont, StateT.bind, StateT.run, modE, getE, setE,
    modify, modifyGet, MonadStateOf.modifyGet, StateT.modifyGet, pure, ExceptT.pure, StateT.pure, get, getThe,
    MonadStateOf.get, StateT.get, liftM, monadLift, MonadLift.monadLift, ExceptT.lift, Functor.map, StateT.map, h,
    chanGet, emit, crash, throw, throwThe, MonadExceptOf.throw, hc]

theorem react_closed (k i : Nat) (e : Ep) (l : List Out) (r : Nat × Nat × Bool × Bytes) (c : Chan)
    (h : reactPick k i e = some r) (hc : e.chans[i]? = some c) (hr : c.ready ≠ 1) :
    (react k i).run.run (e, l)
      = (.ok (), ({ e with reactions := e.reactions.erase r }, l ++ [.rexc i "InvalidStateError"])) := by
  unfold reactPick at h
  unfold react
  simp only [bind, ExceptT.bind, ExceptT.mk, ExceptT.run, ExceptT.bindCont, StateT.bind, StateT.run, modE, getE, setE,
    modify, modifyGet, MonadStateOf.modifyGet, StateT.modifyGet, pure, ExceptT.pure, StateT.pure, get, getThe,
    MonadStateOf.get, StateT.get, liftM, monadLift, MonadLift.monadLift, ExceptT.lift, Functor.map, StateT.map, h,
    chanGet, emit, crash, throw, throwThe, MonadExceptOf.throw, hc, hr, ne_eq, not_false_eq_true, if_true]

theorem userData_len (isStr : Bool) (d : Bytes) : 1 ≤ (userData isStr d).2.length := by
  unfold userData
  cases d with
  | nil => simp
  | cons a t => simp

theorem react_send (k i : Nat) (e : Ep) (l : List Out) (r : Nat × Nat × Bool × Bytes) (c : Chan)
    (h : reactPick k i e = some r) (hc : e.chans[i]? = some c) (hr : c.ready = 1) :
    (react k i).run.run (e, l)
      = (.ok (), ({ e with reactions := e.reactions.erase r
                           chans := e.chans.set i { c with buffered := c.buffered + ((userData r.2.2.1 r.2.2.2).2.length : Int) }
                           dcQueue := e.dcQueue ++ [(i, (userData r.2.2.1 r.2.2.2).1, (userData r.2.2.1 r.2.2.2).2)]
                           tasks := e.tasks ++ [Task.flush] },
                  l ++ [.task "data_channel_flush"])) := by
  have hlen := userData_len r.2.2.1 r.2.2.2
  have hcross : (decide (c.buffered > (c.threshold : Int))
      && decide (c.buffered + ((userData r.2.2.1 r.2.2.2).2.length : Int) ≤ (c.threshold : Int))) = false := by
    rw [Bool.and_eq_false_iff]
    by_cases hb : c.buffered > (c.threshold : Int)
    · right; simp only [decide_eq_false_iff_not]; omega
    · left; simp [hb]
  unfold reactPick at h
  unfold react dcSend addBuffered0 addBufferedCore queueTask
  simp only [bind, ExceptT.bind, ExceptT.mk, ExceptT.run, ExceptT.bindCont, StateT.bind, StateT.run, modE, getE, setE,
    modify, modifyGet, MonadStateOf.modifyGet, StateT.modifyGet, pure, ExceptT.pure, StateT.pure, get, getThe,
    MonadStateOf.get, StateT.get, liftM, monadLift, MonadLift.monadLift, ExceptT.lift, Functor.map, StateT.map, h,
    chanGet, chanSet, emit, crash, throw, throwThe, MonadExceptOf.throw, hc, hr, ne_eq, not_true_eq_false, if_false,
    hcross, Bool.false_and, Bool.false_eq_true]

theorem dcReceive_user_fire (sid ppid : Nat) (data : Bytes) (e : Ep) (l : List Out) (i : Nat) (ch : Chan)
    (b : Bool) (d : Bytes)
    (h : (ppid = WEBRTC_DCEP && !data.isEmpty) = false) (hch : dictGet e.dataChannels sid = some i)
    (hc : e.chans[i]? = some ch) (hlive : (!ch.silent && decide (ch.ready ≠ 3)) = true)
    (hdec : decodeUser ppid data = some (b, d)) :
    (dcReceive sid ppid data).run.run (e, l) = (react 3 i).run.run (e, l ++ [Out.evMessage i b d]) := by
  unfold dcReceive
  simp only [bind, ExceptT.bind, ExceptT.mk, ExceptT.run, ExceptT.bindCont, StateT.bind, StateT.run, modE, getE, setE,
    modify, modifyGet, MonadStateOf.modifyGet, StateT.modifyGet, pure, ExceptT.pure, StateT.pure, get, getThe,
    MonadStateOf.get, StateT.get, liftM, monadLift, MonadLift.monadLift, ExceptT.lift, Functor.map, StateT.map,
    h, Bool.false_eq_true, if_false, chanGet, emit, crash, throw, throwThe, MonadExceptOf.throw, hch, hc, hlive, if_true]
  unfold decodeUser at hdec
  rw [h] at hdec
  simp only [Bool.false_eq_true, if_false] at hdec
  by_cases hu : utf8Valid data = true
  all_goals (repeat' split)
  all_goals (first | (simp_all; done) | (simp_all <;> rfl))

theorem dcReceive_user_quiet (sid ppid : Nat) (data : Bytes) (e : Ep) (l : List Out)
    (h : (ppid = WEBRTC_DCEP && !data.isEmpty) = false)
    (hq : ∀ i ch, dictGet e.dataChannels sid = some i → e.chans[i]? = some ch →
      (!ch.silent && decide (ch.ready ≠ 3)) = true → decodeUser ppid data = none) :
    ∃ res, (dcReceive sid ppid data).run.run (e, l) = (res, (e, l)) := by
  unfold dcReceive
  cases hch : dictGet e.dataChannels sid with
  | none =>
    simp only [bind, ExceptT.bind, ExceptT.mk, ExceptT.run, ExceptT.bindCont, StateT.bind, StateT.run, modE, getE, setE,
      modify, modifyGet, MonadStateOf.modifyGet, StateT.modifyGet, pure, ExceptT.pure, StateT.pure, get, getThe,
      MonadStateOf.get, StateT.get, liftM, monadLift, MonadLift.monadLift, ExceptT.lift, Functor.map, StateT.map,
      h, Bool.false_eq_true, if_false, hch]
    exact ⟨_, rfl⟩
  | some i =>
    cases hc : e.chans[i]? with
    | none =>
      simp only [bind, ExceptT.bind, ExceptT.mk, ExceptT.run, ExceptT.bindCont, StateT.bind, StateT.run, modE, getE, setE,
        modify, modifyGet, MonadStateOf.modifyGet, StateT.modifyGet, pure, ExceptT.pure, StateT.pure, get, getThe,
        MonadStateOf.get, StateT.get, liftM, monadLift, MonadLift.monadLift, ExceptT.lift, Functor.map, StateT.map,
        h, Bool.false_eq_true, if_false, chanGet, emit, crash, throw, throwThe, MonadExceptOf.throw, hch, hc]
      exact ⟨_, rfl⟩
    | some ch =>
      cases hlive : (!ch.silent && decide (ch.ready ≠ 3)) with
      | false =>
        simp only [bind, ExceptT.bind, ExceptT.mk, ExceptT.run, ExceptT.bindCont, StateT.bind, StateT.run, modE, getE, setE,
          modify, modifyGet, MonadStateOf.modifyGet, StateT.modifyGet, pure, ExceptT.pure, StateT.pure, get, getThe,
          MonadStateOf.get, StateT.get, liftM, monadLift, MonadLift.monadLift, ExceptT.lift, Functor.map, StateT.map,
          h, Bool.false_eq_true, if_false, chanGet, emit, crash, throw, throwThe, MonadExceptOf.throw, hch, hc, hlive]
        repeat' split
        all_goals exact ⟨_, rfl⟩
      | true =>
        have hdec := hq i ch hch hc hlive
        unfold decodeUser at hdec
        rw [h] at hdec
        simp only [Bool.false_eq_true, if_false] at hdec
        simp only [bind, ExceptT.bind, ExceptT.mk, ExceptT.run, ExceptT.bindCont, StateT.bind, StateT.run, modE, getE, setE,
          modify, modifyGet, MonadStateOf.modifyGet, StateT.modifyGet, pure, ExceptT.pure, StateT.pure, get, getThe,
          MonadStateOf.get, StateT.get, liftM, monadLift, MonadLift.monadLift, ExceptT.lift, Functor.map, StateT.map,
          h, Bool.false_eq_true, if_false, chanGet, emit, crash, throw, throwThe, MonadExceptOf.throw, hch, hc, hlive, if_true]
        by_cases hu : utf8Valid data = true
        all_goals (repeat' split)
        all_goals (first | exact ⟨_, rfl⟩ | (exfalso; simp_all))

/-- What one run of an application handler (a one-shot reaction sending on channel `i`) may change: nothing but
`reactions` (one consumed), `chans[i].buffered` (increased), `dcQueue` (one user-data entry for channel `i` appended)
and `tasks` (one `flush` appended). -/
structure ReactFrame (i : Nat) (e e' : Ep) : Prop where
  rest : e' = { e with reactions := e'.reactions, chans := e'.chans, dcQueue := e'.dcQueue, tasks := e'.tasks }
  reactions : e'.reactions = e.reactions ∨ ∃ r ∈ e.reactions, e'.reactions = e.reactions.erase r
  chans : e'.chans = e.chans ∨ ∃ (c : Chan) (a : Int), e.chans[i]? = some c ∧ 0 < a
    ∧ e'.chans = e.chans.set i { c with buffered := c.buffered + a }
  dcQueue : e'.dcQueue = e.dcQueue
    ∨ ∃ isStr d, e'.dcQueue = e.dcQueue ++ [(i, (userData isStr d).1, (userData isStr d).2)]
  tasks : e'.tasks = e.tasks ∨ e'.tasks = e.tasks ++ [Task.flush]

theorem ReactFrame.refl (i : Nat) (e : Ep) : ReactFrame i e e :=
  ⟨rfl, Or.inl rfl, Or.inl rfl, Or.inl rfl, Or.inl rfl⟩

/-- In particular the receive side, the SACK flag, the stream table and the sender are untouched. -/
theorem ReactFrame.fields {i : Nat} {e e' : Ep} (h : ReactFrame i e e') :
    e'.rx = e.rx ∧ e'.inStreams = e.inStreams ∧ e'.sackNeeded = e.sackNeeded ∧ e'.dataChannels = e.dataChannels
      ∧ e'.tx = e.tx ∧ e'.rwnd = e.rwnd ∧ e'.assoc = e.assoc := by
  have h1 := congrArg Ep.rx h.rest
  have h2 := congrArg Ep.inStreams h.rest
  have h3 := congrArg Ep.sackNeeded h.rest
  have h4 := congrArg Ep.dataChannels h.rest
  have h5 := congrArg Ep.tx h.rest
  have h6 := congrArg Ep.rwnd h.rest
  have h7 := congrArg Ep.assoc h.rest
  exact ⟨h1, h2, h3, h4, h5, h6, h7⟩

/-- Outputs of a handler: queued tasks and exceptions that stay inside the handler. -/
def IsHandlerOut (o : Out) : Prop := (∃ n, o = Out.task n) ∨ ∃ j k, o = Out.rexc j k

theorem react_frame (k i : Nat) (e : Ep) (l : List Out) :
    ∃ res e' outs, (react k i).run.run (e, l) = (res, (e', l ++ outs)) ∧ ReactFrame i e e'
      ∧ ∀ o ∈ outs, IsHandlerOut o := by
  cases hp : reactPick k i e with
  | none => exact ⟨_, e, [], by rw [react_none k i e l hp, List.append_nil], ReactFrame.refl i e, by simp⟩
  | some r =>
    have hr : r ∈ e.reactions := List.mem_of_find?_eq_some hp
    cases hc : e.chans[i]? with
    | none =>
      exact ⟨_, { e with reactions := e.reactions.erase r }, [], by rw [react_nochan k i e l r hp hc, List.append_nil],
        ⟨rfl, Or.inr ⟨r, hr, rfl⟩, Or.inl rfl, Or.inl rfl, Or.inl rfl⟩, by simp⟩
    | some c =>
      by_cases hrd : c.ready = 1
      · refine ⟨_, _, [Out.task "data_channel_flush"], react_send k i e l r c hp hc hrd,
          ⟨rfl, Or.inr ⟨r, hr, rfl⟩, Or.inr ⟨c, _, hc, ?_, rfl⟩, Or.inr ⟨r.2.2.1, r.2.2.2, rfl⟩, Or.inr rfl⟩, ?_⟩
        · have := userData_len r.2.2.1 r.2.2.2; omega
        · intro o ho; rw [List.mem_singleton] at ho; exact Or.inl ⟨_, ho⟩
      · refine ⟨_, _, [Out.rexc i "InvalidStateError"], react_closed k i e l r c hp hc hrd,
          ⟨rfl, Or.inr ⟨r, hr, rfl⟩, Or.inl rfl, Or.inl rfl, Or.inl rfl⟩, ?_⟩
        intro o ho; rw [List.mem_singleton] at ho; exact Or.inr ⟨_, _, ho⟩

/-- `_data_channel_receive` of the endpoint automaton on anything but a non-empty DCEP message, with application
handlers that may re-enter `send()`: either nothing happens at all, or exactly ONE `message` event is emitted, on the
channel registered for the stream, carrying what `decodeUser` says (value and str/bytes type), followed only by
handler outputs (`task` / `rexc`); the state changes at most as a handler may change it (`ReactFrame`: one reaction
consumed, `chans[i].buffered`, one `dcQueue` entry, one `flush` task) — `rx`, `inStreams`, `sackNeeded`,
`dataChannels`, `tx` are unchanged (`ReactFrame.fields`). -/
theorem dcReceive_user (sid ppid : Nat) (data : Bytes) (e : Ep) (l : List Out)
    (h : (ppid = WEBRTC_DCEP && !data.isEmpty) = false) :
    ∃ res e' evs, (dcReceive sid ppid data).run.run (e, l) = (res, (e', l ++ evs))
      ∧ ((evs = [] ∧ e' = e) ∨
         ∃ i b d tail, evs = Out.evMessage i b d :: tail ∧ decodeUser ppid data = some (b, d)
           ∧ dictGet e.dataChannels sid = some i ∧ ReactFrame i e e' ∧ ∀ o ∈ tail, IsHandlerOut o) := by
  by_cases hfire : ∃ i ch b d, dictGet e.dataChannels sid = some i ∧ e.chans[i]? = some ch
      ∧ (!ch.silent && decide (ch.ready ≠ 3)) = true ∧ decodeUser ppid data = some (b, d)
  · obtain ⟨i, ch, b, d, hch, hc, hlive, hdec⟩ := hfire
    obtain ⟨res, e', outs, hrun, hfr, houts⟩ := react_frame 3 i e (l ++ [Out.evMessage i b d])
    refine ⟨res, e', Out.evMessage i b d :: outs, ?_, Or.inr ⟨i, b, d, outs, rfl, hdec, hch, hfr, houts⟩⟩
    rw [dcReceive_user_fire sid ppid data e l i ch b d h hch hc hlive hdec, hrun, List.append_assoc]
    rfl
  · obtain ⟨res, hrun⟩ := dcReceive_user_quiet sid ppid data e l h (by
      intro i ch hch hc hlive
      cases hdec : decodeUser ppid data with
      | none => rfl
      | some v => exact absurd ⟨i, ch, v.1, v.2, hch, hc, hlive, hdec⟩ hfire)
    exact ⟨res, e, [], by rw [hrun, List.append_nil], Or.inl ⟨rfl, rfl⟩⟩
/-! ## `deliver` with echo handlers -/

/-- one iteration of the `for` loop of `deliver` -/
def deliver1 (m : Msg) : M Unit := do
  modE fun e => { e with rwnd := e.rwnd + m.data.length }
  dcReceive m.sid m.ppid m.data

theorem deliver_cons (m : Msg) (ms : List Msg) (s : Ep × List Out) :
    (deliver (m :: ms)).run.run s =
      match (deliver1 m).run.run s with
      | (.ok _, s') => (deliver ms).run.run s'
      | (.error k, s') => (.error k, s') := by
  unfold deliver deliver1
  simp only [List.forIn_cons, bind, ExceptT.bind, ExceptT.mk, ExceptT.run, ExceptT.bindCont, StateT.bind, StateT.run,
    modE, modify, modifyGet, MonadStateOf.modifyGet, StateT.modifyGet, pure, ExceptT.pure, StateT.pure, liftM, monadLift,
    MonadLift.monadLift, ExceptT.lift, Functor.map, StateT.map]
  cases h : dcReceive m.sid m.ppid m.data ({ s.1 with rwnd := s.1.rwnd + m.data.length }, s.2) with
  | mk res s' =>
    cases res with
    | ok u => simp only [h]; rfl
    | error k => simp only [h]; rfl

theorem deliver1_run (m : Msg) (e : Ep) (l : List Out) :
    (deliver1 m).run.run (e, l)
      = (dcReceive m.sid m.ppid m.data).run.run ({ e with rwnd := e.rwnd + m.data.length }, l) := rfl

theorem filter_erase_find {α : Type} [BEq α] [LawfulBEq α] (p : α → Bool) : ∀ (l : List α) (r : α),
    l.find? p = some r → (l.erase r).filter p = (l.filter p).tail := by
  intro l
  induction l with
  | nil => intro r h; simp at h
  | cons a t ih =>
    intro r h
    rw [List.find?_cons] at h
    cases hp : p a with
    | true =>
      rw [hp] at h
      simp only [Option.some.injEq] at h
      subst h
      simp [List.filter_cons, hp]
    | false =>
      rw [hp] at h
      simp only at h
      have hne : (a == r) = false := by
        have hr : p r = true := List.find?_some h
        cases hbe : (a == r) with
        | false => rfl
        | true => have := eq_of_beq hbe; subst this; rw [hp] at hr; cases hr
      rw [List.erase_cons, hne]
      simp only [Bool.false_eq_true, if_false, List.filter_cons, hp]
      exact ih r h

/-- The armed `message` handlers of channel `i`, in arming order. -/
def echoes (i : Nat) (e : Ep) : List (Nat × Nat × Bool × Bytes) :=
  e.reactions.filter (fun r => r.1 == 3 && ((3 : Nat) == 4 || r.2.1 == i))

/-- The `dcQueue` entry a reaction's `send()` appends. -/
def echoEntry (i : Nat) (r : Nat × Nat × Bool × Bytes) : Nat × Nat × Bytes :=
  (i, (userData r.2.2.1 r.2.2.2).1, (userData r.2.2.1 r.2.2.2).2)

/-- Stream `sid` belongs to an open channel `i` whose application handlers are attached. -/
def EchoReady (sid i : Nat) (e : Ep) : Prop :=
  dictGet e.dataChannels sid = some i ∧ ∃ c, e.chans[i]? = some c ∧ c.silent = false ∧ c.ready = 1

/-- The `message` events among the outputs, in order. -/
def msgEvents : List Out → List (Nat × Bool × Bytes)
  | [] => []
  | Out.evMessage i b d :: t => (i, b, d) :: msgEvents t
  | _ :: t => msgEvents t

theorem msgEvents_append (a b : List Out) : msgEvents (a ++ b) = msgEvents a ++ msgEvents b := by
  induction a with
  | nil => rfl
  | cons x t ih =>
    cases x <;> simp [msgEvents, ih]

/-- One delivered user message on a ready channel with an armed echo handler. -/
theorem deliver1_echo (sid i : Nat) (m : Msg) (e : Ep) (l : List Out) (b : Bool) (d : Bytes)
    (r : Nat × Nat × Bool × Bytes) (rs : List (Nat × Nat × Bool × Bytes))
    (hready : EchoReady sid i e) (hsid : m.sid = sid)
    (hnd : (m.ppid = WEBRTC_DCEP && !m.data.isEmpty) = false) (hdec : decodeUser m.ppid m.data = some (b, d))
    (hech : echoes i e = r :: rs) :
    ∃ e', (deliver1 m).run.run (e, l)
        = (.ok (), (e', l ++ [Out.evMessage i b d, Out.task "data_channel_flush"]))
      ∧ e'.dcQueue = e.dcQueue ++ [echoEntry i r] ∧ echoes i e' = rs ∧ EchoReady sid i e'
      ∧ e'.rx = e.rx ∧ e'.inStreams = e.inStreams := by
  obtain ⟨hch, c, hc, hsil, hrd⟩ := hready
  have hlive : (!c.silent && decide (c.ready ≠ 3)) = true := by simp [hsil, hrd]
  have hpick : reactPick 3 i { e with rwnd := e.rwnd + m.data.length } = some r := by
    unfold reactPick
    have := List.head?_filter (p := fun r : Nat × Nat × Bool × Bytes => r.1 == 3 && ((3 : Nat) == 4 || r.2.1 == i))
      (l := e.reactions)
    unfold echoes at hech
    rw [hech] at this
    exact this.symm
  rw [deliver1_run, ← hsid] at *
  rw [dcReceive_user_fire m.sid m.ppid m.data { e with rwnd := e.rwnd + m.data.length } l i c b d hnd hch hc hlive hdec,
    react_send 3 i { e with rwnd := e.rwnd + m.data.length } (l ++ [Out.evMessage i b d]) r c hpick hc hrd]
  refine ⟨{ e with rwnd := e.rwnd + m.data.length, reactions := e.reactions.erase r
                   chans := e.chans.set i { c with buffered := c.buffered + ((userData r.2.2.1 r.2.2.2).2.length : Int) }
                   dcQueue := e.dcQueue ++ [echoEntry i r], tasks := e.tasks ++ [Task.flush] },
    by rw [List.append_assoc]; rfl, rfl, ?_,
    ⟨hch, { c with buffered := c.buffered + ((userData r.2.2.1 r.2.2.2).2.length : Int) }, ?_, hsil, hrd⟩, rfl, rfl⟩
  · unfold echoes
    have := filter_erase_find _ _ r hpick
    unfold reactPick at hpick
    simp only at this ⊢
    unfold echoes at hech
    rw [this, hech]; rfl
  · simp only []
    have hi : i < e.chans.length := by
      rcases Nat.lt_or_ge i e.chans.length with h | h
      · exact h
      · rw [List.getElem?_eq_none h] at hc; cases hc
    rw [List.getElem?_set_self hi]

/-- Echo handlers preserve order: a list of user messages delivered on one ready channel, with at least as many
`message` handlers armed as there are messages. Every message is delivered (one `message` event each, in order), the
`k`-th delivery runs the `k`-th armed handler, and the handlers' re-entrant `send()`s are appended to `dcQueue` in
exactly that order; the receive side is untouched. -/
theorem deliver_echo_order (sid i : Nat) : ∀ (msgs : List Msg) (e : Ep) (l : List Out), EchoReady sid i e →
    (∀ m ∈ msgs, m.sid = sid ∧ (m.ppid = WEBRTC_DCEP && !m.data.isEmpty) = false
      ∧ (decodeUser m.ppid m.data).isSome = true) →
    msgs.length ≤ (echoes i e).length →
    ∃ e' outs, (deliver msgs).run.run (e, l) = (.ok (), (e', l ++ outs))
      ∧ e'.dcQueue = e.dcQueue ++ ((echoes i e).take msgs.length).map (echoEntry i)
      ∧ echoes i e' = (echoes i e).drop msgs.length ∧ EchoReady sid i e'
      ∧ e'.rx = e.rx ∧ e'.inStreams = e.inStreams
      ∧ msgEvents outs = msgs.filterMap (fun m => (decodeUser m.ppid m.data).map fun v => (i, v.1, v.2)) := by
  intro msgs
  induction msgs with
  | nil =>
    intro e l hr _ _
    exact ⟨e, [], by rw [deliver_nil, List.append_nil], by simp, by simp, hr, rfl, rfl, rfl⟩
  | cons m ms ih =>
    intro e l hr hall hlen
    obtain ⟨hsid, hnd, hsome⟩ := hall m (by simp)
    cases hdec : decodeUser m.ppid m.data with
    | none => rw [hdec] at hsome; cases hsome
    | some v =>
      obtain ⟨b, d⟩ := v
      cases hech : echoes i e with
      | nil => rw [hech] at hlen; simp at hlen
      | cons r rs =>
        obtain ⟨e1, hrun1, hq1, hech1, hr1, hrx1, hin1⟩ := deliver1_echo sid i m e l b d r rs hr hsid hnd hdec hech
        have hlen' : ms.length ≤ (echoes i e1).length := by
          rw [hech1]; rw [hech] at hlen; simpa using hlen
        obtain ⟨e', outs, hrun, hq, hech', hr', hrx', hin', hev⟩ :=
          ih e1 (l ++ [Out.evMessage i b d, Out.task "data_channel_flush"]) hr1
            (fun x hx => hall x (by simp [hx])) hlen'
        refine ⟨e', [Out.evMessage i b d, Out.task "data_channel_flush"] ++ outs, ?_, ?_, ?_, hr', ?_, ?_, ?_⟩
        · rw [deliver_cons, hrun1]
          simp only []
          rw [hrun, List.append_assoc]
        · rw [hq, hq1, hech1]
          simp [List.append_assoc]
        · rw [hech', hech1]; simp
        · rw [hrx', hrx1]
        · rw [hin', hin1]
        · rw [msgEvents_append, hev]
          simp [msgEvents, hdec]
end Aiortc.Sctp
