import Aiortc.Lemmas.C01.SctpInv
/-!
# `Recv.step` (pure) is what the monadic `receiveData` of `Model/Sctp/Endpoint.lean` computes

One call of `receiveData c` on an endpoint state whose receive fields are `(rx, inStreams)` ends — when the
pure `Recv.step` returns `ok (r', msgs)` — by running `deliver msgs` on a state whose receive fields are `r'`.
(That `deliver`, i.e. `_data_channel_receive`, does not touch `rx` / `inStreams` is not proved here.)
-/
set_option linter.unusedSimpArgs false
namespace Aiortc.Sctp
open Aiortc.Gen

theorem dictSet_append_absent (d : List (Nat × InStream)) (k : Nat) (v w : InStream)
    (h : dictGet d k = none) : dictSet (d ++ [(k, w)]) k v = dictSet d k v := by
  have hnone : d.find? (·.1 == k) = none := by
    unfold dictGet at h
    cases hf : d.find? (·.1 == k) with
    | none => rfl
    | some x => rw [hf] at h; simp at h
  have hall : ∀ x ∈ d, (x.1 == k) = false := by
    intro x hx
    have := List.find?_eq_none.1 hnone x hx
    simpa using this
  have hany : d.any (·.1 == k) = false := by
    rw [List.any_eq_false]; intro x hx; simpa using hall x hx
  unfold dictSet
  simp only [List.any_append, hany, List.any_cons, beq_self_eq_true, List.any_nil, Bool.or_false, Bool.false_or,
    if_true, Bool.false_eq_true, if_false, List.map_append, List.map_cons, List.map_nil]
  congr 1
  rw [List.map_congr_left (g := id)]
  · simp
  · intro x hx; simp [hall x hx]

theorem receiveData_dup (c : RChunk) (e : Ep) (l : List Out) (rx : Rx) (hrx : e.rx = some rx)
    (hdup : (markReceived rx c.tsn).1 = true) :
    (receiveData c).run.run (e, l)
      = (.ok (), ({ e with sackNeeded := true, rx := some (markReceived rx c.tsn).2 }, l)) := by
  unfold receiveData
  simp only [bind, ExceptT.bind, ExceptT.mk, ExceptT.run, ExceptT.bindCont, StateT.bind, StateT.run, modE, getE, setE,
    modify, modifyGet, MonadStateOf.modifyGet, StateT.modifyGet, pure, ExceptT.pure, StateT.pure, get, getThe, MonadStateOf.get, StateT.get, liftM, monadLift, MonadLift.monadLift, ExceptT.lift, Functor.map, StateT.map, hrx, hdup, if_true]

theorem receiveData_fresh (c : RChunk) (e : Ep) (l : List Out) (rx : Rx) (s1 s2 : InStream) (msgs : List Msg)
    (hrx : e.rx = some rx) (hdup : (markReceived rx c.tsn).1 = false)
    (hnd : (((dictGet e.inStreams c.sid).getD {}).reasm.any fun r => r.tsn == c.tsn) = false)
    (hadd : ((dictGet e.inStreams c.sid).getD {}).addChunk c = .ok s1)
    (hpop : s1.popMessages = .ok (msgs, s2)) :
    ∃ e', (receiveData c).run.run (e, l) = (deliver msgs).run.run (e', l)
      ∧ e'.rx = some (markReceived rx c.tsn).2 ∧ e'.inStreams = dictSet e.inStreams c.sid s2 := by
  unfold receiveData
  simp only [bind, ExceptT.bind, ExceptT.mk, ExceptT.run, ExceptT.bindCont, StateT.bind, StateT.run, modE, getE, setE,
    modify, modifyGet, MonadStateOf.modifyGet, StateT.modifyGet, pure, ExceptT.pure, StateT.pure, get, getThe,
    MonadStateOf.get, StateT.get, liftM, monadLift, MonadLift.monadLift, ExceptT.lift, Functor.map, StateT.map, hrx,
    hdup, Bool.false_eq_true, if_false, getInStream, setInStream]
  cases hget : dictGet e.inStreams c.sid with
  | some s =>
    rw [hget] at hadd hnd
    simp only [Option.getD_some] at hadd hnd
    try dsimp only
    simp only [hnd, Bool.false_eq_true, if_false, hadd, bind, ExceptT.bind, ExceptT.mk, ExceptT.run, ExceptT.bindCont, StateT.bind, StateT.run, modE, modify, modifyGet, MonadStateOf.modifyGet, StateT.modifyGet, pure, ExceptT.pure, StateT.pure, Functor.map, StateT.map, liftO]
    try dsimp only
    simp only [hpop, bind, ExceptT.bind, ExceptT.mk, ExceptT.run, ExceptT.bindCont, StateT.bind, StateT.run, modE, modify, modifyGet, MonadStateOf.modifyGet, StateT.modifyGet, pure, ExceptT.pure, StateT.pure, Functor.map, StateT.map, liftO]
    try dsimp only
    exact ⟨_, rfl, rfl, rfl⟩
  | none =>
    rw [hget] at hadd
    simp only [Option.getD_none] at hadd
    have hnil : ((({} : InStream).reasm).any fun r => r.tsn == c.tsn) = false := rfl
    try dsimp only
    try simp only [hnil, Bool.false_eq_true, if_false, bind, ExceptT.bind, ExceptT.mk, ExceptT.run, ExceptT.bindCont, StateT.bind, StateT.run, modE, modify, modifyGet, MonadStateOf.modifyGet, StateT.modifyGet, pure, ExceptT.pure, StateT.pure, Functor.map, StateT.map, liftO]
    try dsimp only
    try simp only [hnil, Bool.false_eq_true, if_false, hadd, bind, ExceptT.bind, ExceptT.mk, ExceptT.run, ExceptT.bindCont, StateT.bind, StateT.run, modE, modify, modifyGet, MonadStateOf.modifyGet, StateT.modifyGet, pure, ExceptT.pure, StateT.pure, Functor.map, StateT.map, liftO]
    try dsimp only
    try simp only [hnil, Bool.false_eq_true, if_false, hpop, bind, ExceptT.bind, ExceptT.mk, ExceptT.run, ExceptT.bindCont, StateT.bind, StateT.run, modE, modify, modifyGet, MonadStateOf.modifyGet, StateT.modifyGet, pure, ExceptT.pure, StateT.pure, Functor.map, StateT.map, liftO]
    try dsimp only
    refine ⟨_, rfl, rfl, ?_⟩
    exact dictSet_append_absent _ _ _ _ hget

theorem receiveData_waiting (c : RChunk) (e : Ep) (l : List Out) (rx : Rx) (hrx : e.rx = some rx)
    (hdup : (markReceived rx c.tsn).1 = false)
    (hg : (((dictGet e.inStreams c.sid).getD {}).reasm.any fun r => r.tsn == c.tsn) = true) :
    (receiveData c).run.run (e, l)
      = (.ok (), ({ e with sackNeeded := true, rx := some (markReceived rx c.tsn).2 }, l)) := by
  unfold receiveData
  cases hget : dictGet e.inStreams c.sid with
  | none => rw [hget] at hg; simp at hg
  | some s =>
    rw [hget] at hg
    simp only [Option.getD_some] at hg
    simp only [bind, ExceptT.bind, ExceptT.mk, ExceptT.run, ExceptT.bindCont, StateT.bind, StateT.run, modE, getE, setE,
      modify, modifyGet, MonadStateOf.modifyGet, StateT.modifyGet, pure, ExceptT.pure, StateT.pure, get, getThe,
      MonadStateOf.get, StateT.get, liftM, monadLift, MonadLift.monadLift, ExceptT.lift, Functor.map, StateT.map, hrx,
      hdup, Bool.false_eq_true, if_false, getInStream, hget, hg, if_true]

theorem deliver_nil (e : Ep) (l : List Out) : (deliver []).run.run (e, l) = (.ok (), (e, l)) := rfl

/-- One `_receive_data_chunk` call of the endpoint automaton refines the pure receiver step. -/
theorem receiveData_refines (c : RChunk) (e : Ep) (l : List Out) (rx : Rx) (r' : Recv) (msgs : List Msg)
    (hrx : e.rx = some rx) (hstep : Recv.step { rx := rx, streams := e.inStreams } c = .ok (r', msgs)) :
    ∃ e', (receiveData c).run.run (e, l) = (deliver msgs).run.run (e', l)
      ∧ e'.rx = some r'.rx ∧ e'.inStreams = r'.streams := by
  unfold Recv.step at hstep
  simp only at hstep
  cases hm : markReceived rx c.tsn with
  | mk dup rx' =>
    rw [hm] at hstep
    simp only at hstep
    cases dup with
    | true =>
      simp only [if_true, Outcome.ok.injEq, Prod.mk.injEq] at hstep
      obtain ⟨rfl, rfl⟩ := hstep
      have := receiveData_dup c e l rx hrx (by rw [hm])
      rw [hm] at this
      refine ⟨{ e with sackNeeded := true, rx := some rx' }, ?_, rfl, rfl⟩
      rw [deliver_nil]; exact this
    | false =>
      simp only [Bool.false_eq_true, if_false] at hstep
      by_cases hnd : (((dictGet e.inStreams c.sid).getD {}).reasm.any fun r => r.tsn == c.tsn) = true
      · rw [if_pos hnd] at hstep
        simp only [Outcome.ok.injEq, Prod.mk.injEq] at hstep
        obtain ⟨rfl, rfl⟩ := hstep
        have := receiveData_waiting c e l rx hrx (by rw [hm]) hnd
        rw [hm] at this
        refine ⟨{ e with sackNeeded := true, rx := some rx' }, ?_, rfl, rfl⟩
        rw [deliver_nil]; exact this
      rw [if_neg hnd] at hstep
      have hnd : (((dictGet e.inStreams c.sid).getD {}).reasm.any fun r => r.tsn == c.tsn) = false := by
        simpa using hnd
      cases hadd : ((dictGet e.inStreams c.sid).getD {}).addChunk c with
      | ok s1 =>
        rw [hadd] at hstep
        simp only at hstep
        cases hpop : s1.popMessages with
        | ok v =>
          obtain ⟨ms', s2⟩ := v
          rw [hpop] at hstep
          simp only [Outcome.ok.injEq, Prod.mk.injEq] at hstep
          obtain ⟨rfl, rfl⟩ := hstep
          obtain ⟨e', h1, h2, h3⟩ := receiveData_fresh c e l rx s1 s2 ms' hrx (by rw [hm]) hnd hadd hpop
          exact ⟨e', h1, by rw [h2, hm], h3⟩
        | valueError => rw [hpop] at hstep; cases hstep
        | crash k => rw [hpop] at hstep; cases hstep
        | hang => rw [hpop] at hstep; cases hstep
      | valueError => rw [hadd] at hstep; cases hstep
      | crash k => rw [hadd] at hstep; cases hstep
      | hang => rw [hadd] at hstep; cases hstep

/-- `_data_channel_receive` of the endpoint automaton on anything but a non-empty DCEP message: the endpoint state
is unchanged and the only possible output is one `message` event, on the channel registered for the stream,
carrying exactly what `decodeUser` says (value and str/bytes type). -/
theorem dcReceive_user (sid ppid : Nat) (data : Bytes) (e : Ep) (l : List Out)
    (h : (ppid = WEBRTC_DCEP && !data.isEmpty) = false) :
    ∃ res evs, (dcReceive sid ppid data).run.run (e, l) = (res, (e, l ++ evs))
      ∧ ∀ ev ∈ evs, ∃ i b d, ev = Out.evMessage i b d ∧ decodeUser ppid data = some (b, d)
          ∧ dictGet e.dataChannels sid = some i := by
  unfold dcReceive
  cases hch : dictGet e.dataChannels sid with
  | none =>
    simp only [bind, ExceptT.bind, ExceptT.mk, ExceptT.run, ExceptT.bindCont, StateT.bind, StateT.run, modE, getE, setE,
      modify, modifyGet, MonadStateOf.modifyGet, StateT.modifyGet, pure, ExceptT.pure, StateT.pure, get, getThe,
      MonadStateOf.get, StateT.get, liftM, monadLift, MonadLift.monadLift, ExceptT.lift, Functor.map, StateT.map,
      h, Bool.false_eq_true, if_false, hch]
    exact ⟨_, [], by first | (rw [List.append_nil]; rfl) | rw [List.append_nil], by simp⟩
  | some i =>
    cases hc : e.chans[i]? with
    | none =>
      simp only [bind, ExceptT.bind, ExceptT.mk, ExceptT.run, ExceptT.bindCont, StateT.bind, StateT.run, modE, getE, setE,
        modify, modifyGet, MonadStateOf.modifyGet, StateT.modifyGet, pure, ExceptT.pure, StateT.pure, get, getThe,
        MonadStateOf.get, StateT.get, liftM, monadLift, MonadLift.monadLift, ExceptT.lift, Functor.map, StateT.map,
        h, Bool.false_eq_true, if_false, chanGet, emit, crash, throw, throwThe, MonadExceptOf.throw, hch, hc]
      exact ⟨_, [], by first | (rw [List.append_nil]; rfl) | rw [List.append_nil], by simp⟩
    | some ch =>
      simp only [bind, ExceptT.bind, ExceptT.mk, ExceptT.run, ExceptT.bindCont, StateT.bind, StateT.run, modE, getE, setE,
        modify, modifyGet, MonadStateOf.modifyGet, StateT.modifyGet, pure, ExceptT.pure, StateT.pure, get, getThe,
        MonadStateOf.get, StateT.get, liftM, monadLift, MonadLift.monadLift, ExceptT.lift, Functor.map, StateT.map,
        h, Bool.false_eq_true, if_false, chanGet, emit, crash, throw, throwThe, MonadExceptOf.throw, hch, hc]
      repeat' split
      all_goals first
        | exact ⟨_, [], by first | (rw [List.append_nil]; rfl) | rw [List.append_nil], by simp⟩
        | exact ⟨_, [_], rfl, by
            intro ev hev
            rw [List.mem_singleton] at hev
            exact ⟨_, _, _, hev, by simp_all [decodeUser], by first | exact hch | rfl⟩⟩

end Aiortc.Sctp
