import Aiortc.Lemmas.C01.SctpMark
import Aiortc.Lemmas.C01.SctpPop
import Aiortc.Lemmas.C01.SctpPlan
/-!
# Facts about the sender's fragments used by the end-to-end proof

* field/flag values of `fragOf`;
* `run_is_message`: a TSN-linked run of sender fragments that starts with a B chunk and ends at its first E
  chunk is exactly the list of fragments of one message;
* position of a message among the messages of its stream (`sentOn_get`, `ordBefore_strict`).
-/
namespace Aiortc.Sctp
open Aiortc.Gen

theorem fragOf_sid (t0 : Int) (ms : List SMsg) (j i : Nat) : (fragOf t0 ms j i).sid = (msgAt ms j).sid := rfl
theorem fragOf_ppid (t0 : Int) (ms : List SMsg) (j i : Nat) : (fragOf t0 ms j i).ppid = (msgAt ms j).ppid := rfl
theorem fragOf_ssn (t0 : Int) (ms : List SMsg) (j i : Nat) : (fragOf t0 ms j i).ssn = ssnFor ms j := rfl

theorem fragOf_flagB (t0 : Int) (ms : List SMsg) (j i : Nat) :
    flagB (fragOf t0 ms j i).flags = decide (i = 0) := flagB_fragFlags _ _ _
theorem fragOf_flagE (t0 : Int) (ms : List SMsg) (j i : Nat) :
    flagE (fragOf t0 ms j i).flags = decide (i = nfr (msgAt ms j) - 1) := flagE_fragFlags _ _ _
theorem fragOf_flagU (t0 : Int) (ms : List SMsg) (j i : Nat) :
    flagU (fragOf t0 ms j i).flags = !(msgAt ms j).ordered := flagU_fragFlags _ _ _

theorem fragOf_tsnN (t0 : Int) (ms : List SMsg) (p : Nat × Nat) :
    (fragOf t0 ms p.1 p.2).tsn = tsnN t0 (flat ms p) := fragOf_tsn t0 ms p.1 p.2

theorem fragOf_data_len (t0 : Int) (ms : List SMsg) (j i : Nat) : (fragOf t0 ms j i).data.length ≤ 1200 := by
  simp only [fragOf, fragAt, USERDATA_MAX_eq, List.length_take]; omega

/-- Joining the fragments of message `j` gives its payload back. -/
theorem fragOf_join (t0 : Int) (ms : List SMsg) (j : Nat) :
    ((List.range (nfr (msgAt ms j))).map (fragOf t0 ms j)).flatMap (·.data) = (msgAt ms j).data :=
  fragAt_join _ _ _ _ _ _

/-- Two valid fragments with the same TSN are the same fragment, when fewer than 2^32 chunks are sent. -/
theorem frag_tsn_inj (t0 : Int) (ms : List SMsg) (hN : startOf ms ms.length < 4294967296)
    (p q : Nat × Nat) (hp : ValidFrag ms p) (hq : ValidFrag ms q)
    (h : (fragOf t0 ms p.1 p.2).tsn = (fragOf t0 ms q.1 q.2).tsn) : p = q := by
  rw [fragOf_tsnN, fragOf_tsnN] at h
  have h1 := flat_lt_total ms p hp
  have h2 := flat_lt_total ms q hq
  have := tsnOf_inj t0 (flat ms p : Int) (flat ms q : Int) (by omega) h
  exact flat_inj ms p q hp hq (by omega)

/-- A linked run of sender fragments starting at fragment `q` of message `j` and ending at its first E
chunk consists of the fragments `q, q+1, …, n-1` of message `j`. -/
theorem run_from (t0 : Int) (ms : List SMsg) (hN : startOf ms ms.length < 4294967296) (j : Nat) :
    ∀ (l : List RChunk) (q : Nat) (lst : RChunk), Linked l →
    (∀ c ∈ l, ∃ p, ValidFrag ms p ∧ c = fragOf t0 ms p.1 p.2) →
    l.head? = some (fragOf t0 ms j q) → ValidFrag ms (j, q) →
    l.getLast? = some lst → flagE lst.flags = true →
    l = (List.range' q (nfr (msgAt ms j) - q)).map (fragOf t0 ms j) := by
  intro l
  induction l with
  | nil => intro q lst _ _ hh; simp at hh
  | cons c t ih =>
    intro q lst hlink hall hhead hv hlast hE
    simp only [List.head?_cons, Option.some.injEq] at hhead
    subst hhead
    have hq : q < nfr (msgAt ms j) := hv.2
    cases t with
    | nil =>
      simp only [List.getLast?_singleton, Option.some.injEq] at hlast
      subst hlast
      rw [fragOf_flagE] at hE
      have : q = nfr (msgAt ms j) - 1 := by simpa using hE
      have h1 : nfr (msgAt ms j) - q = 1 := by omega
      rw [h1]; simp [List.range']
    | cons d rest =>
      obtain ⟨hcE, hdt, hlink'⟩ := hlink
      rw [fragOf_flagE] at hcE
      have hq1 : q ≠ nfr (msgAt ms j) - 1 := by simpa using hcE
      have hv' : ValidFrag ms (j, q + 1) := ⟨hv.1, by show q + 1 < nfr (msgAt ms j); omega⟩
      obtain ⟨p', hp'v, hp'⟩ := hall d (by simp)
      -- the next chunk is fragment q+1 of the same message
      have hd : d = fragOf t0 ms j (q + 1) := by
        have htsn : (fragOf t0 ms p'.1 p'.2).tsn = (fragOf t0 ms j (q + 1)).tsn := by
          rw [← hp', hdt, fragOf_tsn, fragOf_tsn, tsn_plus_one_tsnOf]
          congr 1
        have := frag_tsn_inj t0 ms hN p' (j, q + 1) hp'v hv' htsn
        rw [hp', this]
      have hlast' : (d :: rest).getLast? = some lst := by
        rw [List.getLast?_cons_cons] at hlast; exact hlast
      have := ih (q + 1) lst hlink' (fun x hx => hall x (by simp [hx])) (by rw [hd]; rfl) hv' hlast' hE
      have h1 : nfr (msgAt ms j) - q = (nfr (msgAt ms j) - (q + 1)) + 1 := by omega
      rw [h1, List.range'_succ, List.map_cons, ← this]

/-- A linked run of sender fragments that starts with a B chunk and ends at its first E chunk is exactly
the fragment list of one message. -/
theorem run_is_message (t0 : Int) (ms : List SMsg) (hN : startOf ms ms.length < 4294967296)
    (run : List RChunk) (hd lst : RChunk) (p0 : Nat × Nat)
    (hlink : Linked run) (hall : ∀ c ∈ run, ∃ p, ValidFrag ms p ∧ c = fragOf t0 ms p.1 p.2)
    (hhead : run.head? = some hd) (hp0 : ValidFrag ms p0) (hhd : hd = fragOf t0 ms p0.1 p0.2)
    (hB : flagB hd.flags = true) (hlast : run.getLast? = some lst) (hE : flagE lst.flags = true) :
    p0.2 = 0 ∧ run = (List.range (nfr (msgAt ms p0.1))).map (fragOf t0 ms p0.1) := by
  rw [hhd, fragOf_flagB] at hB
  have h0 : p0.2 = 0 := by simpa using hB
  refine ⟨h0, ?_⟩
  have hv : ValidFrag ms (p0.1, 0) := by rw [← h0]; exact hp0
  have := run_from t0 ms hN p0.1 run 0 lst hlink hall (by rw [hhead, hhd, h0]) hv hlast hE
  rw [this, List.range_eq_range']; simp

/-! ## messages of one stream -/

/-- The `_send` calls made on stream `s`, as the receiver would see them. -/
def sentOn (ms : List SMsg) (s : Nat) : List Msg := (ms.filter (fun m => m.sid == s)).map SMsg.toMsg

/-- Every message sent on `s` is ordered (an ordered data channel). -/
def OrdOnly (ms : List SMsg) (s : Nat) : Prop := ∀ m ∈ ms, m.sid = s → m.ordered = true

theorem msgAt_mem (ms : List SMsg) (j : Nat) (h : j < ms.length) : msgAt ms j ∈ ms := by
  unfold msgAt; rw [List.getElem?_eq_getElem h]; simp

theorem split_at (ms : List SMsg) (j : Nat) (h : j < ms.length) :
    ms = ms.take j ++ msgAt ms j :: ms.drop (j + 1) := by
  unfold msgAt; rw [List.getElem?_eq_getElem h]; simp

theorem ordBefore_eq (ms : List SMsg) (s : Nat) (ho : OrdOnly ms s) (j : Nat) :
    ordBefore ms j s = ((ms.take j).filter (fun m => m.sid == s)).length := by
  unfold ordBefore
  congr 1
  apply List.filter_congr
  intro m hm
  have hm' : m ∈ ms := List.mem_of_mem_take hm
  by_cases h : m.sid = s
  · simp [ho m hm' h, h]
  · simp [h]

/-- On an ordered stream, the message with `ordBefore = d` is the `d`-th message sent on the stream. -/
theorem sentOn_get (ms : List SMsg) (s : Nat) (ho : OrdOnly ms s) (j : Nat) (h : j < ms.length)
    (hs : (msgAt ms j).sid = s) : (sentOn ms s)[ordBefore ms j s]? = some (msgAt ms j).toMsg := by
  rw [ordBefore_eq ms s ho j]
  unfold sentOn
  have hsid : ((msgAt ms j).sid == s) = true := by simpa using hs
  have hf : ms.filter (fun m => m.sid == s)
      = (ms.take j).filter (fun m => m.sid == s)
        ++ msgAt ms j :: (ms.drop (j + 1)).filter (fun m => m.sid == s) := by
    conv => lhs; rw [split_at ms j h]
    rw [List.filter_append, List.filter_cons]
    simp only [hsid, if_true]
  rw [hf, List.map_append, List.getElem?_append_right (by simp)]
  simp

theorem ordBefore_strict (ms : List SMsg) (s : Nat) (j1 j2 : Nat) (h12 : j1 < j2) (h2 : j2 ≤ ms.length)
    (ho : (msgAt ms j1).ordered = true) (hs : (msgAt ms j1).sid = s) :
    ordBefore ms j1 s < ordBefore ms j2 s := by
  unfold ordBefore
  have hj1 : j1 < ms.length := by omega
  have e : ms.take j2 = ms.take j1 ++ msgAt ms j1 :: (ms.take j2).drop (j1 + 1) := by
    have := split_at (ms.take j2) j1 (by rw [List.length_take]; omega)
    rw [List.take_take, show min j1 j2 = j1 by omega] at this
    have hm : msgAt (ms.take j2) j1 = msgAt ms j1 := by
      unfold msgAt; rw [List.getElem?_take]; simp [h12]
    rw [hm] at this; exact this
  rw [e, List.filter_append, List.filter_cons]
  have : ((msgAt ms j1).ordered && (msgAt ms j1).sid == s) = true := by simp [ho, hs]
  simp only [this, if_true, List.length_append, List.length_cons]
  omega

end Aiortc.Sctp
