import Aiortc.Model.Sctp.Recv
/-!
# TSN / SSN index arithmetic for C01

The sender's `i`-th DATA chunk carries TSN `tsnOf t0 i = (t0 + i) mod 2^32`.  Inside a window of
fewer than 2^31 indices the serial comparisons of `aiortc.utils` coincide with the plain order of the
indices, whatever the origin `t0` (this is the shift-invariance of C17 in the form needed here).
-/
namespace Aiortc.Sctp
open Aiortc.Gen

/-- TSN of the chunk with (signed) index `i` when the initial TSN is `t0`. -/
def tsnOf (t0 : Int) (i : Int) : Int := (t0 + i) % 4294967296

theorem tsnOf_range (t0 i : Int) : 0 ≤ tsnOf t0 i ∧ tsnOf t0 i < 4294967296 := by
  unfold tsnOf; omega

theorem tsnOf_zero (t0 : Int) (h : 0 ≤ t0 ∧ t0 < 4294967296) : tsnOf t0 0 = t0 := by
  unfold tsnOf; omega

theorem tsn_minus_one_eq (t0 : Int) : tsn_minus_one t0 = tsnOf t0 (-1) := by
  unfold tsn_minus_one tsnOf; omega

theorem tsn_plus_one_tsnOf (t0 i : Int) : tsn_plus_one (tsnOf t0 i) = tsnOf t0 (i + 1) := by
  unfold tsn_plus_one tsnOf; omega

theorem tsnOf_add_mod (t0 : Int) (i n : Int) : (tsnOf t0 i + n) % 4294967296 = tsnOf t0 (i + n) := by
  unfold tsnOf; omega

theorem tsnOf_inj (t0 a b : Int) (hw : -4294967296 < a - b ∧ a - b < 4294967296)
    (h : tsnOf t0 a = tsnOf t0 b) : a = b := by
  unfold tsnOf at h; omega

theorem uint32_gt_tsnOf (t0 a b : Int) (hw : -2147483648 < a - b ∧ a - b < 2147483648) :
    uint32_gt (tsnOf t0 a) (tsnOf t0 b) = decide (b < a) := by
  unfold uint32_gt tsnOf
  by_cases h : b < a
  · simp only [h, decide_true]
    simp only [Bool.or_eq_true, Bool.and_eq_true, decide_eq_true_eq]
    omega
  · simp only [h, decide_false]
    simp only [Bool.or_eq_false_iff, Bool.and_eq_false_iff, decide_eq_false_iff_not]
    omega

theorem uint32_gte_tsnOf (t0 a b : Int) (hw : -2147483648 < a - b ∧ a - b < 2147483648) :
    uint32_gte (tsnOf t0 a) (tsnOf t0 b) = decide (b ≤ a) := by
  unfold uint32_gte
  rw [uint32_gt_tsnOf t0 a b hw]
  by_cases h : a = b
  · subst h; simp
  · have : tsnOf t0 a ≠ tsnOf t0 b := fun e => h (tsnOf_inj t0 a b (by omega) e)
    simp only [this, decide_false, Bool.false_or]
    by_cases h2 : b < a
    · simp [h2]; omega
    · simp [h2]; omega

theorem serialKey_tsnOf (t0 c k : Int) (h : 0 ≤ k - c ∧ k - c < 4294967296) :
    serialKey (tsnOf t0 c) (tsnOf t0 k) = k - c := by
  unfold serialKey tsnOf; omega

/-- Stream sequence number of the `m`-th ordered message of a stream. -/
def ssnOf (m : Nat) : Int := ((m : Int)) % 65536

theorem uint16_add_ssnOf (m : Nat) : uint16_add (ssnOf m) 1 = ssnOf (m + 1) := by
  unfold uint16_add ssnOf; omega

theorem uint16_gt_ssnOf (a b : Nat) (hw : (a : Int) - b < 32768 ∧ (b : Int) - a < 32768) :
    uint16_gt (ssnOf a) (ssnOf b) = decide (b < a) := by
  unfold uint16_gt ssnOf
  by_cases h : b < a
  · simp only [h, decide_true]
    simp only [Bool.or_eq_true, Bool.and_eq_true, decide_eq_true_eq]
    omega
  · simp only [h, decide_false]
    simp only [Bool.or_eq_false_iff, Bool.and_eq_false_iff, decide_eq_false_iff_not]
    omega

theorem ssnOf_inj (a b : Nat) (hw : (a : Int) - b < 65536 ∧ (b : Int) - a < 65536)
    (h : ssnOf a = ssnOf b) : a = b := by
  unfold ssnOf at h; omega

end Aiortc.Sctp
