import Aiortc.Lemmas.C02.DrainSend
/-!
# The two-sided system with an adversarial network, and its coherence invariant (C02 drain)

State: `Link` (sender `Tx`, receiver `Rx`, DATA chunks in flight, SACKs in flight).  `Link.fault` lets the network
deliver ANY datagram in flight (so: reorder), drop or duplicate it; T3 may fire at any time; the application may send
reliable messages at any time; a queued `_transmit` may run at any time.  `Coh b a r s`:

* the sender invariants `SndInv` and "reliable traffic only";
* TSN structure (`TxSeq`): `lastSacked = T b a`, `sentQ ++ outQ` carry `T b (a+1) …`, `localTsn` follows;
* the receiver's cumulative TSN is `T b r` with `a ≤ r ≤ a + |sentQ|` (never behind the sender's cumulative ack,
  never ahead of what was transmitted), its misordered TSNs lie in `(r, a + |sentQ|]`;
* every DATA chunk in flight carries a TSN that was transmitted (`≤ a + |sentQ|`), every SACK in flight a cumulative
  TSN the receiver has reached (`≤ r`).

`Coh.fault`: every move preserves it (as long as fewer than 2³¹ chunks were ever queued).
-/
namespace Aiortc.Sctp
open Aiortc.Gen

structure Core (b : Int) (a r : Nat) (s : Link) : Prop where
  rel : RelTx s.tx
  seq : TxSeq b a s.tx
  rxok : RxOk s.rx
  rlast : s.rx.last = T b r
  rlo : a ≤ r
  rhi : r ≤ a + s.tx.sentQ.length
  mis : ∀ x ∈ s.rx.mis, ∃ k, r < k ∧ k ≤ a + s.tx.sentQ.length ∧ x = T b k
  toRx : ∀ d ∈ s.toRx, ∃ k, k ≤ a + s.tx.sentQ.length ∧ d.tsn = T b k
  toTx : ∀ p ∈ s.toTx, ∃ k, k ≤ r ∧ p.1 = T b k

structure Coh (b : Int) (a r : Nat) (s : Link) : Prop where
  core : Core b a r s
  snd : SndInv { tx := s.tx, pending := s.pending }

/-- the sender state changed without popping anything (enqueue, `_transmit`, T3), the receiver did not -/
theorem Core.grow {b : Int} {a r : Nat} {s s' : Link} (h : Core b a r s) (hrel : RelTx s'.tx) (hseq : TxSeq b a s'.tx)
    (hlen : s.tx.sentQ.length ≤ s'.tx.sentQ.length) (hrx : s'.rx = s.rx)
    (h1 : ∀ d ∈ s'.toRx, d ∈ s.toRx ∨ ∃ k, k ≤ a + s'.tx.sentQ.length ∧ d.tsn = T b k)
    (h2 : ∀ p ∈ s'.toTx, p ∈ s.toTx) : Core b a r s' := by
  refine ⟨hrel, hseq, by rw [hrx]; exact h.rxok, by rw [hrx]; exact h.rlast, h.rlo, by have := h.rhi; omega, ?_, ?_, ?_⟩
  · intro x hx
    rw [hrx] at hx
    obtain ⟨k, k1, k2, k3⟩ := h.mis x hx
    exact ⟨k, k1, by omega, k3⟩
  · intro d hd
    rcases h1 d hd with hd | hd
    · obtain ⟨k, k1, k2⟩ := h.toRx d hd
      exact ⟨k, by omega, k2⟩
    · exact hd
  · intro p hp
    exact h.toTx p (h2 p hp)

theorem Core.net {b : Int} {a r : Nat} {s s' : Link} (h : Core b a r s) (htx : s'.tx = s.tx) (hrx : s'.rx = s.rx)
    (h1 : ∀ d ∈ s'.toRx, d ∈ s.toRx) (h2 : ∀ p ∈ s'.toTx, p ∈ s.toTx) : Core b a r s' :=
  h.grow (by rw [htx]; exact h.rel) (by rw [htx]; exact h.seq) (by rw [htx]; exact Nat.le_refl _) hrx
    (fun d hd => Or.inl (h1 d hd)) h2

/-- `_transmit`: the emitted DATA chunks join the datagrams in flight -/
theorem Core.transmit {b : Int} {a r : Nat} {s s' : Link} (h : Core b a r s) (htx : s'.tx = s.tx.transmit.1)
    (hrx : s'.rx = s.rx) (h1 : ∀ d ∈ s'.toRx, d ∈ s.toRx ∨ d ∈ dataOf s.tx.transmit.2) (h2 : ∀ p ∈ s'.toTx, p ∈ s.toTx) :
    Core b a r s' := by
  obtain ⟨_, hl, _⟩ := transmit_pw s.tx h.rel.fwd
  refine h.grow (by rw [htx]; exact h.rel.transmit) (by rw [htx]; exact h.seq.transmit h.rel.fwd) (by rw [htx]; exact hl)
    hrx ?_ h2
  intro d hd
  rcases h1 d hd with hd | hd
  · exact Or.inl hd
  · obtain ⟨j, _, j2, j3⟩ := transmit_emitted h.seq h.rel.fwd d hd
    exact Or.inr ⟨j, by rw [htx]; exact j2, j3⟩

/-- a SACK with cumulative TSN `T b k`, `a ≤ k ≤ r`, is processed: `k - a` chunks leave the sent queue -/
theorem Core.sack {b : Int} {a r : Nat} {s s' : Link} (h : Core b a r s) (k : Nat) (hk1 : a ≤ k) (hk2 : k ≤ r)
    (gaps : List (Nat × Nat)) (hs : SackShape s.tx s'.tx (T b k) gaps) (hrx : s'.rx = s.rx)
    (h1 : ∀ d ∈ s'.toRx, d ∈ s.toRx) (h2 : ∀ p ∈ s'.toTx, p ∈ s.toTx) :
    Core b k r s' ∧ k + s'.tx.nOut = a + s.tx.nOut := by
  have hrhi := h.rhi
  obtain ⟨hseq, hlen⟩ := h.seq.sack k hk1 (by omega) gaps hs
  refine ⟨⟨hs.rel, hseq, by rw [hrx]; exact h.rxok, by rw [hrx]; exact h.rlast, hk2, by omega, ?_, ?_, ?_⟩, ?_⟩
  · intro x hx
    rw [hrx] at hx
    obtain ⟨j, j1, j2, j3⟩ := h.mis x hx
    exact ⟨j, j1, by omega, j3⟩
  · intro d hd
    obtain ⟨j, j1, j2⟩ := h.toRx d (h1 d hd)
    exact ⟨j, by omega, j2⟩
  · intro p hp
    exact h.toTx p (h2 p hp)
  · unfold Tx.nOut; rw [hs.outQ]; omega

/-- a DATA chunk arrives at the receiver -/
theorem Core.deliver {b : Int} {a r : Nat} {s : Link} (h : Core b a r s) (d : RChunk) (hd : d ∈ s.toRx) :
    ∃ r' k, r ≤ r' ∧ k ≤ a + s.tx.sentQ.length ∧ d.tsn = T b k ∧ (k = r + 1 → r < r')
      ∧ (markReceived s.rx (d.tsn % 4294967296)).2.last = T b r'
      ∧ ∀ s' : Link, s'.tx = s.tx → s'.rx = { (markReceived s.rx (d.tsn % 4294967296)).2 with dups := [] } →
          (∀ e ∈ s'.toRx, e ∈ s.toRx) → (∀ p ∈ s'.toTx, p ∈ s.toTx ∨ p.1 = T b r') → Core b a r' s' := by
  obtain ⟨k, k1, k2⟩ := h.toRx d hd
  have hb := h.seq.bound
  have hmod : d.tsn % 4294967296 = T b k := by rw [k2, T_mod]
  rw [hmod]
  obtain ⟨r', r1, r2, r3, r4, r5⟩ := rx_deliver b s.rx r (a + s.tx.sentQ.length) k h.rxok h.rlast h.rhi (by omega) h.mis k1
  refine ⟨r', k, r1, k1, k2, r5, r3, ?_⟩
  intro s' htx hrx h1 h2
  have hok := h.rxok.markReceived (T b k) (T_r32 b k)
  refine ⟨by rw [htx]; exact h.rel, by rw [htx]; exact h.seq, ?_, by rw [hrx]; exact r3, by have := h.rlo; omega,
    by rw [htx]; exact r2, ?_, ?_, ?_⟩
  · rw [hrx]; exact ⟨hok.last, hok.mis, hok.nodup, hok.next⟩
  · intro x hx
    rw [hrx] at hx
    rw [htx]; exact r4 x hx
  · intro e he
    rw [htx]; exact h.toRx e (h1 e he)
  · intro p hp
    rcases h2 p hp with hp | hp
    · obtain ⟨j, j1, j2⟩ := h.toTx p hp
      exact ⟨j, by omega, j2⟩
    · exact ⟨r', Nat.le_refl _, hp⟩

/-! ## the adversary -/

inductive Fault where
  /-- the application sends a message (`_send`: fragment, queue, `_transmit`) -/
  | send (m : SendArgs)
  /-- a queued `_transmit` task runs -/
  | task
  /-- T3 fires -/
  | fireT3
  /-- the network delivers the `i`-th DATA chunk / SACK in flight (any order) -/
  | deliverData (i : Nat)
  | deliverSack (i : Nat)
  | dropData (i : Nat)
  | dropSack (i : Nat)
  | dupData (i : Nat)
  | dupSack (i : Nat)
  /-- time passes -/
  | tick (now : Int)

/-- number of chunks a move adds to the outbound queue -/
def Fault.sent : Fault → Nat
  | .send m => fragCount m.data.length
  | _ => 0

/-- reliable traffic only -/
def Fault.Reliable : Fault → Prop
  | .send m => m.expiry = none ∧ m.maxRtx = none
  | _ => True

def Link.sendMsg (s : Link) (m : SendArgs) : Link :=
  { s with tx := (s.tx.enqueue m.sid m.ppid m.data m.expiry m.maxRtx m.ordered).transmit.1
           toRx := s.toRx ++ dataOf (s.tx.enqueue m.sid m.ppid m.data m.expiry m.maxRtx m.ordered).transmit.2 }

def Link.fault (s : Link) : Fault → Link
  | .send m => s.sendMsg m
  | .task => s.runTask
  | .fireT3 => s.fireT3
  | .deliverData i => match s.toRx[i]? with
    | some d => s.deliverData d (s.toRx.eraseIdx i)
    | none => s
  | .deliverSack i => match s.toTx[i]? with
    | some p => s.deliverSack p.1 p.2 (s.toTx.eraseIdx i)
    | none => s
  | .dropData i => { s with toRx := s.toRx.eraseIdx i }
  | .dropSack i => { s with toTx := s.toTx.eraseIdx i }
  | .dupData i => match s.toRx[i]? with
    | some d => { s with toRx := s.toRx ++ [d] }
    | none => s
  | .dupSack i => match s.toTx[i]? with
    | some p => { s with toTx := s.toTx ++ [p] }
    | none => s
  | .tick now => { s with now1000 := now }

/-- what `Link.deliverSack` does in a coherent state: a stale SACK is dropped, any other is processed -/
theorem deliverSack_cases {b : Int} {a r : Nat} {s : Link} (h : Coh b a r s) (k : Nat) (hk : k ≤ r) (gaps : List (Nat × Nat))
    (rest : List (Int × List (Nat × Nat))) :
    (k < a ∧ s.deliverSack (T b k) gaps rest = { s with toTx := rest })
    ∨ (a ≤ k ∧ ∃ t' evs, s.tx.receiveSack (T b k) gaps s.now1000 = .ok (some (t', evs))
        ∧ SackShape s.tx t' (T b k) gaps
        ∧ s.deliverSack (T b k) gaps rest
            = { s with tx := t'.transmit.1, toRx := s.toRx ++ dataOf t'.transmit.2, toTx := rest }) := by
  rcases Nat.lt_or_ge k a with hlt | hge
  · left
    refine ⟨hlt, ?_⟩
    unfold Link.deliverSack
    rw [receiveSack_stale h.core.seq k hlt]
  · right
    have hb := h.core.seq.bound
    have hrhi := h.core.rhi
    obtain ⟨t', evs, hrs⟩ := receiveSack_some s.tx (T b k) gaps s.now1000 h.snd.flight.outQ
      (not_stale h.core.seq k hge (by omega))
    refine ⟨hge, t', evs, hrs, receiveSack_shape s.tx h.core.rel h.snd.flight.outQ _ _ _ t' evs hrs, ?_⟩
    unfold Link.deliverSack
    rw [hrs]

theorem Coh.deliverSack {b : Int} {a r : Nat} {s : Link} (h : Coh b a r s) (p : Int × List (Nat × Nat)) (hp : p ∈ s.toTx)
    (rest : List (Int × List (Nat × Nat))) (hrest : ∀ q ∈ rest, q ∈ s.toTx) :
    ∃ a', a ≤ a' ∧ Coh b a' r (s.deliverSack p.1 p.2 rest) ∧ a' + (s.deliverSack p.1 p.2 rest).tx.nOut = a + s.tx.nOut := by
  obtain ⟨k, hk, hpk⟩ := h.core.toTx p hp
  rw [hpk]
  rcases deliverSack_cases h k hk p.2 rest with ⟨_, he⟩ | ⟨hge, t', evs, hrs, hsh, he⟩
  · rw [he]
    exact ⟨a, Nat.le_refl _, ⟨h.core.net rfl rfl (fun d hd => hd) hrest, h.snd⟩, rfl⟩
  · rw [he]
    have hsnd : SndInv { tx := t'.transmit.1, pending := s.pending } := by
      have := h.snd.step (.sack (T b k) p.2 s.now1000 [])
      simpa [Snd.step, hrs] using this
    obtain ⟨hc1, hn1⟩ := h.core.sack (s' := { s with tx := t', toTx := rest }) k hge hk p.2 hsh rfl (fun d hd => hd) hrest
    have hc2 : Core b k r { s with tx := t'.transmit.1, toRx := s.toRx ++ dataOf t'.transmit.2, toTx := rest } :=
      hc1.transmit rfl rfl (fun d hd => List.mem_append.mp hd) (fun q hq => hq)
    refine ⟨k, hge, ⟨hc2, hsnd⟩, ?_⟩
    have := (transmit_pw t' hsh.rel.fwd).2.2
    simp only [Tx.nOut] at hn1 ⊢
    omega

theorem Coh.deliverData {b : Int} {a r : Nat} {s : Link} (h : Coh b a r s) (d : RChunk) (hd : d ∈ s.toRx)
    (rest : List RChunk) (hrest : ∀ e ∈ rest, e ∈ s.toRx) :
    ∃ r' k, r ≤ r' ∧ k ≤ a + s.tx.sentQ.length ∧ d.tsn = T b k ∧ (k = r + 1 → r < r') ∧ Coh b a r' (s.deliverData d rest)
      ∧ (s.deliverData d rest).toTx = s.toTx ++ [(T b r', sackGapBlocks (markReceived s.rx (d.tsn % 4294967296)).2)] := by
  obtain ⟨r', k, r1, r0, r2, r3, r4, r5⟩ := h.core.deliver d hd
  refine ⟨r', k, r1, r0, r2, r3, ⟨r5 _ rfl rfl hrest ?_, h.snd⟩, ?_⟩
  · intro p hp
    simp only [Link.deliverData, List.mem_append, List.mem_singleton] at hp
    rcases hp with hp | hp
    · exact Or.inl hp
    · right; rw [hp]; exact r4
  · simp only [Link.deliverData]; rw [r4]

theorem Coh.runTask {b : Int} {a r : Nat} {s : Link} (h : Coh b a r s) : Coh b a r s.runTask :=
  ⟨h.core.transmit rfl rfl (fun _ hd => List.mem_append.mp hd) (fun _ hp => hp), h.snd.step .task⟩

theorem Coh.fireT3 {b : Int} {a r : Nat} {s : Link} (h : Coh b a r s) : Coh b a r s.fireT3 := by
  have sh := t3Expired_shape s.tx h.core.rel s.now1000
  refine ⟨h.core.grow sh.rel (h.core.seq.t3 sh) ?_ rfl (fun d hd => Or.inl hd) (fun p hp => hp), h.snd.step (.t3 s.now1000)⟩
  simp only [Link.fireT3]; rw [sh.sentQ]; simp

theorem mem_of_getElem?' {α} {l : List α} {i : Nat} {x : α} (h : l[i]? = some x) : x ∈ l := List.mem_of_getElem? h

/-- **every move of the adversarial system preserves coherence** -/
theorem Coh.fault {b : Int} {a r : Nat} {s : Link} (h : Coh b a r s) (f : Fault) (hrel : f.Reliable)
    (hb : a + s.tx.nOut + f.sent + 1 < 2147483648) :
    ∃ a' r', Coh b a' r' (s.fault f) ∧ a' + (s.fault f).tx.nOut = a + s.tx.nOut + f.sent := by
  cases f with
  | send m =>
    obtain ⟨he, hm⟩ := hrel
    have hn := enqueue_nOut s.tx m.sid m.ppid m.data m.expiry m.maxRtx m.ordered
    have hrelq : RelTx (s.tx.enqueue m.sid m.ppid m.data m.expiry m.maxRtx m.ordered) := by
      rw [he, hm]; exact h.core.rel.enqueue _ _ _ _
    have hc1 : Core b a r { s with tx := s.tx.enqueue m.sid m.ppid m.data m.expiry m.maxRtx m.ordered } :=
      h.core.grow hrelq (h.core.seq.enqueue _ _ _ _ _ _ hb) (by simp only; rw [hn.2]; exact Nat.le_refl _) rfl
        (fun d hd => Or.inl hd) (fun p hp => hp)
    refine ⟨a, r, ⟨hc1.transmit rfl rfl (fun d hd => List.mem_append.mp hd) (fun p hp => hp), h.snd.step (.send m)⟩, ?_⟩
    have := (transmit_pw _ hrelq.fwd).2.2
    simp only [Link.fault, Link.sendMsg, Tx.nOut, Fault.sent] at hn ⊢
    omega
  | task =>
    refine ⟨a, r, h.runTask, ?_⟩
    have := (transmit_pw s.tx h.core.rel.fwd).2.2
    simp only [Link.fault, Link.runTask, Tx.nOut, Fault.sent]; omega
  | fireT3 =>
    refine ⟨a, r, h.fireT3, ?_⟩
    have sh := t3Expired_shape s.tx h.core.rel s.now1000
    simp only [Link.fault, Link.fireT3, Tx.nOut, Fault.sent]; rw [sh.sentQ, sh.outQ]; simp
  | deliverData i =>
    simp only [Link.fault]
    cases hi : s.toRx[i]? with
    | none => exact ⟨a, r, h, by simp [Fault.sent]⟩
    | some d =>
      obtain ⟨r', k, _, _, _, _, hc, _⟩ := h.deliverData d (List.mem_of_getElem? hi) (s.toRx.eraseIdx i)
        (fun e he => List.mem_of_mem_eraseIdx he)
      exact ⟨a, r', hc, by simp [Fault.sent, Link.deliverData]⟩
  | deliverSack i =>
    simp only [Link.fault]
    cases hi : s.toTx[i]? with
    | none => exact ⟨a, r, h, by simp [Fault.sent]⟩
    | some p =>
      obtain ⟨a', _, hc, hn⟩ := h.deliverSack p (List.mem_of_getElem? hi) (s.toTx.eraseIdx i)
        (fun e he => List.mem_of_mem_eraseIdx he)
      exact ⟨a', r, hc, by simp only [Fault.sent]; omega⟩
  | dropData i =>
    exact ⟨a, r, ⟨h.core.net rfl rfl (fun e he => List.mem_of_mem_eraseIdx he) (fun p hp => hp), h.snd⟩,
      by simp [Fault.sent, Link.fault]⟩
  | dropSack i =>
    exact ⟨a, r, ⟨h.core.net rfl rfl (fun e he => he) (fun p hp => List.mem_of_mem_eraseIdx hp), h.snd⟩,
      by simp [Fault.sent, Link.fault]⟩
  | dupData i =>
    simp only [Link.fault]
    cases hi : s.toRx[i]? with
    | none => exact ⟨a, r, h, by simp [Fault.sent]⟩
    | some d =>
      refine ⟨a, r, ⟨h.core.net rfl rfl ?_ (fun p hp => hp), h.snd⟩, by simp [Fault.sent]⟩
      intro e he
      simp only [List.mem_append, List.mem_singleton] at he
      rcases he with he | rfl
      · exact he
      · exact List.mem_of_getElem? hi
  | dupSack i =>
    simp only [Link.fault]
    cases hi : s.toTx[i]? with
    | none => exact ⟨a, r, h, by simp [Fault.sent]⟩
    | some p =>
      refine ⟨a, r, ⟨h.core.net rfl rfl (fun e he => he) ?_, h.snd⟩, by simp [Fault.sent]⟩
      intro e he
      simp only [List.mem_append, List.mem_singleton] at he
      rcases he with he | rfl
      · exact he
      · exact List.mem_of_getElem? hi
  | tick now =>
    exact ⟨a, r, ⟨h.core.net rfl rfl (fun e he => he) (fun p hp => hp), h.snd⟩, by simp [Fault.sent, Link.fault]⟩

end Aiortc.Sctp
