import Aiortc.Lemmas.C02.DrainReach
/-!
# Honest SACKs (C02 drain, polynomial bound): what the receiver has, and what its SACKs say

`RxHas rx t`: the receiver has TSN `t` (cumulatively or misordered).  It is monotone under arrivals (`rxHas_mono`), and as
long as at most 296 TSNs lie between the receiver's cumulative TSN and the highest transmitted one, the gap blocks
`_send_sack` writes describe it exactly (`sack_exact_idx`; beyond that `_send_sack` truncates by design).
-/
namespace Aiortc.Sctp
open Aiortc.Gen

/-- pigeonhole: a duplicate-free list of TSNs with indices in `(lo, lo + d]` has at most `d` elements -/
theorem nodup_range_length (b : Int) : ∀ (d lo : Nat) (l : List Int), l.Nodup → lo + d < 4294967296 →
    (∀ x ∈ l, ∃ k, lo < k ∧ k ≤ lo + d ∧ x = T b k) → l.length ≤ d := by
  intro d
  induction d with
  | zero =>
    intro lo l _ _ h
    cases l with
    | nil => simp
    | cons x xs => obtain ⟨k, k1, k2, _⟩ := h x (by simp); omega
  | succ d ih =>
    intro lo l hnd hb h
    by_cases hm : T b (lo + d + 1) ∈ l
    · have h1 := ih lo (l.erase (T b (lo + d + 1))) (hnd.erase _) (by omega) (by
        intro x hx
        rw [hnd.mem_erase_iff] at hx
        obtain ⟨k, k1, k2, k3⟩ := h x hx.2
        refine ⟨k, k1, ?_, k3⟩
        rcases Nat.lt_or_ge k (lo + d + 1) with hlt | hge
        · omega
        · exfalso; apply hx.1; rw [k3]; congr 1; omega)
      rw [List.length_erase_of_mem hm] at h1
      omega
    · have h1 := ih lo l hnd (by omega) (by
        intro x hx
        obtain ⟨k, k1, k2, k3⟩ := h x hx
        refine ⟨k, k1, ?_, k3⟩
        rcases Nat.lt_or_ge k (lo + d + 1) with hlt | hge
        · omega
        · exfalso; apply hm; rw [show lo + d + 1 = k by omega, ← k3]; exact hx)
      omega

theorem newRuns_le : ∀ (l : List Nat) (p : Option Nat), newRuns p l ≤ l.length
  | [], _ => Nat.le_refl _
  | x :: xs, p => by
    have := newRuns_le xs (some x)
    simp only [newRuns, List.length_cons]; split <;> omega

theorem insertByKey_length (b t : Int) : ∀ l : List Int, (insertByKey b t l).length = l.length + 1
  | [] => rfl
  | x :: xs => by unfold insertByKey; split <;> simp [insertByKey_length b t xs]

theorem sortByKey_length (b : Int) : ∀ l : List Int, (sortByKey b l).length = l.length
  | [] => rfl
  | x :: xs => by
    have e : sortByKey b (x :: xs) = insertByKey b x (sortByKey b xs) := rfl
    rw [e, insertByKey_length, sortByKey_length b xs]; rfl

theorem off_T (b : Int) (rx : Rx) (r j : Nat) (hl : rx.last = T b r) (h1 : r ≤ j) (h2 : j < 4294967296) :
    rx.off (T b j) = j - r := by
  unfold Rx.off; rw [hl]; unfold T; omega

/-- **the gap blocks are exact** while at most 296 TSNs lie between the cumulative and the highest transmitted TSN -/
theorem sack_exact_idx (b : Int) (rx : Rx) (r hi : Nat) (hok : RxOk rx) (hl : rx.last = T b r) (hr : r ≤ hi)
    (hhi : hi < 2147483648) (hsmall : hi - r ≤ 296) (hmis : ∀ x ∈ rx.mis, ∃ j, r < j ∧ j ≤ hi ∧ x = T b j) (k : Nat) :
    Covered (sackGapBlocks rx) k ↔ ∃ j, r < j ∧ j ≤ hi ∧ T b j ∈ rx.mis ∧ j - r = k := by
  have hlen : rx.mis.length ≤ hi - r :=
    nodup_range_length b (hi - r) r rx.mis hok.nodup (by omega) (by
      intro x hx; obtain ⟨j, j1, j2, j3⟩ := hmis x hx; exact ⟨j, j1, by omega, j3⟩)
  have h1 : ∀ t ∈ rx.mis, R32 t ∧ 1 ≤ rx.off t ∧ rx.off t ≤ 65535 := by
    intro t ht
    obtain ⟨j, j1, j2, j3⟩ := hmis t ht
    rw [j3, off_T b rx r j hl (by omega) (by omega)]
    exact ⟨T_r32 b j, by omega, by omega⟩
  have h2 : newRuns none ((sortByKey rx.last rx.mis).map rx.off) ≤ 296 := by
    have := newRuns_le ((sortByKey rx.last rx.mis).map rx.off) none
    rw [List.length_map, sortByKey_length] at this
    omega
  rw [sack_gaps_exact rx h1 hok.nodup h2 k]
  constructor
  · rintro ⟨t, ht, hk⟩
    obtain ⟨j, j1, j2, j3⟩ := hmis t ht
    rw [j3, off_T b rx r j hl (by omega) (by omega)] at hk
    exact ⟨j, j1, j2, by rw [← j3]; exact ht, hk⟩
  · rintro ⟨j, j1, j2, j3, j4⟩
    exact ⟨T b j, j3, by rw [off_T b rx r j hl (by omega) (by omega)]; exact j4⟩

/-- the receiver has TSN `t` -/
def RxHas (rx : Rx) (t : Int) : Prop := uint32_gte rx.last t = true ∨ t ∈ rx.mis

/-- **the receiver never forgets** -/
theorem rxHas_mono (b : Int) (rx : Rx) (r hi k : Nat) (hok : RxOk rx) (hl : rx.last = T b r) (hr : r ≤ hi)
    (hhi : hi < 2147483648) (hmis : ∀ x ∈ rx.mis, ∃ j, r < j ∧ j ≤ hi ∧ x = T b j) (hk : k ≤ hi)
    (j : Nat) (hj : j < 2147483648) (h : RxHas rx (T b j)) : RxHas (markReceived rx (T b k)).2 (T b j) := by
  obtain ⟨r', r1, r2, r3, _, _⟩ := rx_deliver b rx r hi k hok hl hr hhi hmis hk
  by_cases hdup : (uint32_gte rx.last (T b k) || rx.mis.contains (T b k)) = true
  · obtain ⟨e1, e2⟩ := markReceived_old rx (T b k) hdup
    unfold RxHas; rw [e1, e2]; exact h
  · have hnd : (uint32_gte rx.last (T b k) || rx.mis.contains (T b k)) = false := by simpa using hdup
    obtain ⟨e1, e2⟩ := markReceived_new rx (T b k) hnd
    rcases h with h | h
    · left
      rw [hl, gte_T b r j (by omega) hj] at h
      rw [r3, gte_T b r' j (by omega) hj]
      simp only [decide_eq_true_eq] at h ⊢; omega
    · rcases Nat.lt_or_ge r' j with hlt | hge
      · right
        rw [e2, ← e1, r3, List.mem_filter]
        exact ⟨List.mem_append.mpr (Or.inl h), by rw [gt_T b j r' hj (by omega)]; simpa using hlt⟩
      · left
        rw [r3, gte_T b r' j (by omega) hj]; simpa using hge

end Aiortc.Sctp
