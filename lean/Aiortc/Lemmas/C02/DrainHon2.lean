import Aiortc.Lemmas.C02.DrainHon1
/-!
# Weights of outstanding chunks (C02 drain, polynomial bound)

A chunk weighs 1 while it is not gap-acked, 0 when it is gap-acked and *safe* (the receiver has it and every SACK still
to come says so), 2 when it is gap-acked without being safe.  A SACK that newly gap-acks a chunk it covers makes it safe
(1 → 0); a chunk that loses its gap-ack in the strike loop was not covered by that SACK, hence was not safe (2 → 1).
-/
namespace Aiortc.Sctp
open Aiortc.Gen

/-- the SACK `(cum, gaps)` reports TSN `t` as received -/
def Cov (σ : Int × List (Nat × Nat)) (t : Int) : Prop :=
  uint32_gte σ.1 t = true ∨ ∃ g ∈ σ.2, ∃ k, g.1 ≤ k ∧ k ≤ g.2 ∧ k < 2147483648 ∧ t = (σ.1 + (k : Int)) % 4294967296

open Classical in
noncomputable def wt (P : Int → Prop) (c : SChunk) : Nat := if c.acked then (if P c.tsn then 0 else 2) else 1

noncomputable def usum (P : Int → Prop) : List SChunk → Nat
  | [] => 0
  | c :: cs => wt P c + usum P cs

theorem wt_le_two (P : Int → Prop) (c : SChunk) : wt P c ≤ 2 := by
  unfold wt; split
  · split <;> omega
  · omega

theorem usum_le (P : Int → Prop) : ∀ l : List SChunk, usum P l ≤ 2 * l.length
  | [] => Nat.le_refl _
  | c :: cs => by have := usum_le P cs; have := wt_le_two P c; simp only [usum, List.length_cons]; omega

theorem usum_append (P : Int → Prop) : ∀ a b : List SChunk, usum P (a ++ b) = usum P a + usum P b
  | [], _ => by simp [usum]
  | c :: cs, b => by simp only [List.cons_append, usum, usum_append P cs b]; omega

theorem usum_drop (P : Int → Prop) (l : List SChunk) (k : Nat) : usum P (l.drop k) ≤ usum P l := by
  conv => rhs; rw [← List.take_append_drop k l, usum_append]
  omega

/-- how the weight of one chunk may change -/
def WRel (P Q : Int → Prop) (c d : SChunk) : Prop :=
  d.tsn = c.tsn ∧ (P c.tsn → Q c.tsn) ∧ (c.acked = false → d.acked = true → Q c.tsn)
    ∧ (c.acked = true → d.acked = false → ¬ P c.tsn)

theorem wt_step {P Q : Int → Prop} {c d : SChunk} (h : WRel P Q c d) : wt Q d ≤ wt P c := by
  obtain ⟨h1, h2, h3, h4⟩ := h
  unfold wt
  rw [h1]
  cases hc : c.acked <;> cases hd : d.acked <;> simp only [Bool.false_eq_true, if_false, if_true]
  · omega
  · simp [h3 hc hd]
  · simp [h4 hc hd]
  · by_cases hp : P c.tsn
    · simp [h2 hp]
    · simp only [hp, if_false]; split <;> omega

theorem wt_step_lt {P Q : Int → Prop} {c d : SChunk} (h : WRel P Q c d) (hc : c.acked = false) (hd : d.acked = true) :
    wt Q d < wt P c := by
  obtain ⟨h1, _, h3, _⟩ := h
  unfold wt
  rw [h1]
  simp [hc, hd, h3 hc hd]

theorem usum_pw {P Q : Int → Prop} : ∀ {l l' : List SChunk}, PW (WRel P Q) l l' → usum Q l' ≤ usum P l
  | [], [], _ => Nat.le_refl _
  | c :: cs, d :: ds, h => by
    have := wt_step h.1
    have := usum_pw (l := cs) (l' := ds) h.2
    simp only [usum]; omega
  | [], _ :: _, h => h.elim
  | _ :: _, [], h => h.elim

theorem usum_lt {P Q : Int → Prop} {l l' : List SChunk} (hl : LexLt l l') (h : PW (WRel P Q) l l') :
    usum Q l' < usum P l := by
  induction hl with
  | here hc hd _ =>
    have := wt_step_lt h.1 hc hd
    have := usum_pw h.2
    simp only [usum]; omega
  | there _ ih =>
    have := wt_step h.1
    have := ih h.2
    simp only [usum]; omega

/-! ## what one SACK does to the flags, chunk by chunk -/

/-- a chunk is newly gap-acked only if the SACK covers it; it loses its gap-ack only if the SACK does not cover it
although it covers a TSN at or beyond it -/
def AckRel (seen : List Int) (c d : SChunk) : Prop :=
  d.tsn = c.tsn ∧ (c.acked = false → d.acked = true → c.tsn ∈ seen) ∧ (c.acked = true → d.acked = false → c.tsn ∉ seen)
  ∧ (c.acked = true → d.acked = false → ∃ t' ∈ seen, uint32_gte t' c.tsn = true)

theorem AckRel.refl (seen : List Int) (c : SChunk) : AckRel seen c c :=
  ⟨rfl, fun h1 h2 => (by rw [h1] at h2; cases h2), fun h1 h2 => (by rw [h1] at h2; cases h2),
   fun h1 h2 => (by rw [h1] at h2; cases h2)⟩

theorem AckRel.trans {seen : List Int} {c d e : SChunk} (h1 : AckRel seen c d) (h2 : AckRel seen d e) : AckRel seen c e := by
  obtain ⟨a1, a2, a3, a4⟩ := h1
  obtain ⟨b1, b2, b3, b4⟩ := h2
  refine ⟨b1.trans a1, ?_, ?_, ?_⟩
  · intro hc he
    cases hd : d.acked with
    | true => exact a2 hc hd
    | false => rw [← a1]; exact b2 hd he
  · intro hc he
    cases hd : d.acked with
    | true => rw [← a1]; exact b3 hd he
    | false => exact a3 hc hd
  · intro hc he
    cases hd : d.acked with
    | true => rw [← a1]; exact b4 hd he
    | false => exact a4 hc hd

theorem htnaChunk_ackRel (seen : List Int) (c : SChunk) : AckRel seen c (htnaChunk seen c) := by
  unfold htnaChunk
  split
  · rename_i h
    simp only [Bool.and_eq_true, Bool.not_eq_true', List.contains_iff_mem] at h
    exact ⟨rfl, fun _ _ => h.1, fun hc _ => (by rw [h.2] at hc; cases hc), fun hc _ => (by rw [h.2] at hc; cases hc)⟩
  · exact AckRel.refl seen c

theorem strikeChunk_ackRel (seen : List Int) (c : SChunk) (hb : ∃ t' ∈ seen, uint32_gte t' c.tsn = true) :
    AckRel seen c (strikeChunk seen c) := by
  unfold strikeChunk
  split
  · exact AckRel.refl seen c
  · rename_i h
    have hn : c.tsn ∉ seen := by simpa using h
    split
    · exact ⟨rfl, fun _ hd => (by cases hd), fun _ _ => hn, fun _ _ => hb⟩
    · exact ⟨rfl, fun h1 h2 => (by simp only at h2; rw [h1] at h2; cases h2),
        fun h1 h2 => (by simp only at h2; rw [h1] at h2; cases h2),
        fun h1 h2 => (by simp only at h2; rw [h1] at h2; cases h2)⟩

theorem htnaList_ackRel (seen : List Int) (hs : Int) : ∀ l, PW (AckRel seen) l (htnaList seen hs l)
  | [] => trivial
  | c :: cs => by
    unfold htnaList; split
    · exact PW.refl (AckRel.refl seen) _
    · exact ⟨htnaChunk_ackRel seen c, htnaList_ackRel seen hs cs⟩

theorem strikeList_ackRel (b : Int) (seen : List Int) (q : Nat) (hq : q < 2147483648) (hmem : T b q ∈ seen) :
    ∀ (l : List SChunk) (a : Nat), Seq b a l → a + l.length < 2147483648 → PW (AckRel seen) l (strikeList seen (T b q) l)
  | [], _, _, _ => trivial
  | c :: cs, a, hs, hb => by
    simp only [List.length_cons] at hb
    unfold strikeList; split
    · exact PW.refl (AckRel.refl seen) _
    · rename_i hgt
      refine ⟨strikeChunk_ackRel seen c ⟨T b q, hmem, ?_⟩, strikeList_ackRel b seen q hq hmem cs (a + 1) hs.2 (by omega)⟩
      rw [hs.1, gt_T b (a + 1) q (by omega) hq] at hgt
      rw [hs.1, gte_T b q (a + 1) hq (by omega)]
      simpa using hgt

theorem htnaHna_mem (seen : List Int) (hs : Int) : ∀ (l : List SChunk) (hna0 : Int),
    htnaHna seen hs hna0 l = hna0 ∨ htnaHna seen hs hna0 l ∈ seen
  | [], _ => Or.inl rfl
  | c :: cs, hna0 => by
    unfold htnaHna
    split
    · exact Or.inl rfl
    · by_cases hc : (seen.contains c.tsn && !c.acked) = true
      · simp only [hc, if_true]
        rcases htnaHna_mem seen hs cs c.tsn with h | h
        · right; rw [h]
          simp only [Bool.and_eq_true, List.contains_iff_mem] at hc
          exact hc.1
        · exact Or.inr h
      · simp only [hc]
        exact htnaHna_mem seen hs cs hna0

/-- the limit `_receive_sack_chunk` clips gap blocks to -/
def gapLimitOf (cum : Int) (l : List SChunk) : Nat :=
  match l.getLast? with
  | some x => if uint32_gt x.tsn cum then ((x.tsn - cum) % 4294967296).toNat else 0
  | none => 0

theorem seq_getLast {b : Int} : ∀ {l : List SChunk} {k : Nat} (c : SChunk), Seq b k (c :: l) →
    ∃ x, (c :: l).getLast? = some x ∧ x.tsn = T b (k + (c :: l).length)
  | [], k, c, h => ⟨c, rfl, by simpa using h.1⟩
  | d :: ds, k, c, h => by
    obtain ⟨x, hx, ht⟩ := seq_getLast (l := ds) (k := k + 1) d h.2
    refine ⟨x, by rw [List.getLast?_cons_cons]; exact hx, ?_⟩
    rw [ht]; congr 1; simp only [List.length_cons]; omega

theorem gapLimit_seq {b : Int} {l : List SChunk} {k : Nat} (h : Seq b k l) (hb : k + l.length < 2147483648) :
    gapLimitOf (T b k) l = l.length := by
  unfold gapLimitOf
  cases l with
  | nil => rfl
  | cons c cs =>
    obtain ⟨x, hx, ht⟩ := seq_getLast c h
    rw [hx]; simp only
    rw [ht]
    have hgt : uint32_gt (T b (k + (c :: cs).length)) (T b k) = true := by
      unfold uint32_gt T
      simp only [List.length_cons, Bool.or_eq_true, Bool.and_eq_true, decide_eq_true_eq] at hb ⊢
      omega
    rw [if_pos hgt]; unfold T; simp only [List.length_cons] at hb ⊢; omega


theorem sackList_eq (cum : Int) (gaps : List (Nat × Nat)) (l : List SChunk) :
    sackList cum gaps l = if gaps.isEmpty then l else
      strikeList (gapSeen cum (gapLimitOf cum l) gaps).1
        (htnaHna (gapSeen cum (gapLimitOf cum l) gaps).1 (gapSeen cum (gapLimitOf cum l) gaps).2 cum l)
        (htnaList (gapSeen cum (gapLimitOf cum l) gaps).1 (gapSeen cum (gapLimitOf cum l) gaps).2 l) := rfl

theorem sackList_ackRel {b : Int} {k : Nat} {l : List SChunk} (hs : Seq b k l) (hb : k + l.length < 2147483648)
    (gaps : List (Nat × Nat)) :
    PW (AckRel (gapSeen (T b k) (gapLimitOf (T b k) l) gaps).1) l (sackList (T b k) gaps l) := by
  rw [sackList_eq]
  split
  · exact PW.refl (AckRel.refl _) l
  · rcases sack_lex b (gapSeen (T b k) (gapLimitOf (T b k) l) gaps).1 (gapSeen (T b k) (gapLimitOf (T b k) l) gaps).2
        l k k hs hb (Nat.le_refl _) with ⟨_, e2, e3⟩ | ⟨q, q1, q2, q3, _⟩
    · rw [e2, e3]; exact PW.refl (AckRel.refl _) l
    · have hmem : T b q ∈ (gapSeen (T b k) (gapLimitOf (T b k) l) gaps).1 := by
        rcases htnaHna_mem (gapSeen (T b k) (gapLimitOf (T b k) l) gaps).1
          (gapSeen (T b k) (gapLimitOf (T b k) l) gaps).2 l (T b k) with h | h
        · rw [q3] at h
          have := T_inj (i := q) (j := k) (by omega) (by omega) h
          omega
        · rw [q3] at h; exact h
      have h1 := htnaList_ackRel (gapSeen (T b k) (gapLimitOf (T b k) l) gaps).1
        (gapSeen (T b k) (gapLimitOf (T b k) l) gaps).2 l
      have hs' := Seq.pw (htnaList_sameId (gapSeen (T b k) (gapLimitOf (T b k) l) gaps).1
        (gapSeen (T b k) (gapLimitOf (T b k) l) gaps).2 l) hs
      have hl' := PW.length h1
      have h2 := strikeList_ackRel b _ q (by omega) hmem _ k hs' (by omega)
      rw [q3]
      exact PW.trans (R := AckRel _) (S := AckRel _) (T := AckRel _) (fun _ _ _ x y => AckRel.trans x y) h1 h2

end Aiortc.Sctp
