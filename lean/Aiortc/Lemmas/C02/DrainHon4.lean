import Aiortc.Lemmas.C02.DrainHon3
/-!
# One step of the continuation with the polynomial potential (C02 drain)

`step_hon`: every non-T3 step of `Link.step` keeps `Hon` (consuming one old SACK if the step handled a SACK) and strictly
decreases `phi2`.
-/
namespace Aiortc.Sctp
open Aiortc.Gen

theorem safe_runTask (s : Link) (h : Nat) : Safe s.runTask h = Safe s h := rfl

theorem hon_pot_mono {f f' n n' s s' : Nat} (hf : f' ≤ f) (hn : n' ≤ n) (hs : s' ≤ s) : f' + n' * s' ≤ f + n * s := by
  have := Nat.mul_le_mul hn hs; omega

theorem hon_pot_strict {f f' n n' s s' : Nat} (hf : f' ≤ n') (hn : n' ≤ n) (hs : s' + 1 ≤ s) : f' + n' * s' ≤ f + n * s := by
  have h1 : n' * (s' + 1) ≤ n * s := Nat.mul_le_mul hn hs
  rw [Nat.mul_add, Nat.mul_one] at h1
  omega

theorem step_hon_task {b : Int} {a r h : Nat} {s : Link} (hc : Coh b a r s) (hh : Hon b h s) :
    Hon b h s.runTask ∧ (dataOf s.tx.transmit.2).length + s.runTask.pot2 h ≤ s.pot2 h := by
  obtain ⟨hfl, hn, hu⟩ := transmit_weights s.tx hc.core.rel.fwd hc.snd.flight.outQ (Safe s 0)
  refine ⟨⟨hh.hle, hh.chain⟩, ?_⟩
  have hS : s.runTask.S2 h ≤ s.S2 h := by
    unfold Link.S2
    split
    · exact hu
    · show h + 2 * s.tx.transmit.1.nOut ≤ _
      rw [hn]; exact Nat.le_refl _
  unfold Link.pot2
  show _ + (s.tx.transmit.1.flags + s.tx.transmit.1.nOut * _) ≤ _
  rw [hn]
  have := Nat.mul_le_mul_left s.tx.nOut hS
  omega

theorem step_hon_data {b : Int} {a r h : Nat} {s : Link} (hc : Coh b a r s) (hh : Hon b h s) (d : RChunk)
    (rest : List RChunk) (hd : d ∈ s.toRx) :
    Hon b h (s.deliverData d rest) ∧ (s.deliverData d rest).pot2 h ≤ s.pot2 h := by
  have hb := hc.core.seq.bound
  have hrhi := hc.core.rhi
  have hrlo := hc.core.rlo
  obtain ⟨k, k1, k2⟩ := hc.core.toRx d hd
  have hmod : d.tsn % 4294967296 = T b k := by rw [k2, T_mod]
  obtain ⟨r', r1, r2, r3, r4, _⟩ := rx_deliver b s.rx r (a + s.tx.sentQ.length) k hc.core.rxok hc.core.rlast hrhi
    (by omega) hc.core.mis k1
  have hok' := hc.core.rxok.markReceived (T b k) (T_r32 b k)
  have hmono : ∀ j, j < 2147483648 → RxHas s.rx (T b j) → RxHas (s.deliverData d rest).rx (T b j) := by
    intro j hj hx
    have := rxHas_mono b s.rx r (a + s.tx.sentQ.length) k hc.core.rxok hc.core.rlast hrhi (by omega) hc.core.mis k1 j hj hx
    simp only [Link.deliverData, hmod]
    exact this
  have hsc : ∀ j, j < 2147483648 →
      (Cov ((markReceived s.rx (T b k)).2.last, sackGapBlocks (markReceived s.rx (T b k)).2) (T b j)
        → RxHas (s.deliverData d rest).rx (T b j))
      ∧ (RxHas (s.deliverData d rest).rx (T b j) →
          Below ((markReceived s.rx (T b k)).2.last, sackGapBlocks (markReceived s.rx (T b k)).2) (T b j) →
          Cov ((markReceived s.rx (T b k)).2.last, sackGapBlocks (markReceived s.rx (T b k)).2) (T b j)) := by
    intro j hj
    have := sack_sound_below b (markReceived s.rx (T b k)).2 r' (a + s.tx.sentQ.length) hok' r3 r2 (by omega)
      r4 j hj
    simp only [Link.deliverData, hmod]
    exact this
  have htx : (s.deliverData d rest).toTx
      = s.toTx ++ [((markReceived s.rx (T b k)).2.last, sackGapBlocks (markReceived s.rx (T b k)).2)] := by
    simp only [Link.deliverData, hmod]
  have hdrop : (s.deliverData d rest).toTx.drop h
      = s.toTx.drop h ++ [((markReceived s.rx (T b k)).2.last, sackGapBlocks (markReceived s.rx (T b k)).2)] := by
    rw [htx, List.drop_append_of_le_length hh.hle]
  refine ⟨⟨by rw [htx]; simp; have := hh.hle; omega, ?_⟩, ?_⟩
  · rw [hdrop]
    exact chain_append b s.rx _ _ hmono (fun j hj hx => (hsc j hj).2 hx) (fun j hj hx => (hsc j hj).1 hx) _ hh.chain
  · have hS : (s.deliverData d rest).S2 h ≤ s.S2 h := by
      unfold Link.S2
      split
      · rename_i h0
        subst h0
        unfold Link.U
        show usum (Safe (s.deliverData d rest) 0) s.tx.sentQ + _ ≤ _
        have : usum (Safe (s.deliverData d rest) 0) s.tx.sentQ ≤ usum (Safe s 0) s.tx.sentQ := by
          apply usum_mono_mem
          intro c hcm hsafe
          obtain ⟨j, _, j2, j3⟩ := Seq.mem hc.core.seq.sent hcm
          rw [j3] at hsafe ⊢
          have hx := hmono j (by omega) hsafe.1
          refine ⟨hx, ?_⟩
          intro σ hσ
          rw [hdrop] at hσ
          rcases List.mem_append.mp hσ with hσ | hσ
          · exact hsafe.2 σ hσ
          · simp only [List.mem_singleton] at hσ
            rw [hσ]; exact (hsc j (by omega)).2 hx
        show _ + 2 * s.tx.outQ.length ≤ _
        omega
      · exact Nat.le_refl _
    unfold Link.pot2
    show s.tx.flags + s.tx.nOut * _ ≤ _
    have := Nat.mul_le_mul_left s.tx.nOut hS
    omega

/-- the head SACK is consumed -/
theorem step_hon_sack {b : Int} {a r h : Nat} {s : Link} (hc : Coh b a r s) (hh : Hon b h s) (cum : Int)
    (gaps : List (Nat × Nat)) (rest : List (Int × List (Nat × Nat))) (ht : s.toTx = (cum, gaps) :: rest) :
    Hon b (h - 1) (s.deliverSack cum gaps rest)
    ∧ ((s.deliverSack cum gaps rest).toRx.length - s.toRx.length) + (s.deliverSack cum gaps rest).pot2 (h - 1) ≤ s.pot2 h
    ∧ s.toRx.length ≤ (s.deliverSack cum gaps rest).toRx.length := by
  have hb := hc.core.seq.bound
  have hrhi := hc.core.rhi
  have hpm : (cum, gaps) ∈ s.toTx := by rw [ht]; simp
  obtain ⟨k, hk, hpk⟩ := hc.core.toTx _ hpm
  simp only at hpk
  subst hpk
  have hdrop : rest.drop (h - 1) = if h = 0 then rest else s.toTx.drop h := by
    split
    · rename_i h0; subst h0; rfl
    · rename_i h0
      rw [ht, show h = (h - 1) + 1 by omega, List.drop_succ_cons]; simp
  have hchain : Chain b s.rx (rest.drop (h - 1)) := by
    rw [hdrop]
    split
    · rename_i h0; subst h0
      have := hh.chain
      rw [ht] at this
      exact this.2
    · exact hh.chain
  have hle : h - 1 ≤ rest.length := by have := hh.hle; rw [ht] at this; simp at this; omega
  -- the budget after consuming an old SACK
  have hold : ∀ s' : Link, s'.tx.nOut ≤ s.tx.nOut → h ≠ 0 → s'.S2 (h - 1) + 1 ≤ s.S2 h := by
    intro s' hn h0
    have h1 := U_le s' 0
    unfold Link.S2
    simp only [h0, if_false]
    split <;> omega
  rcases deliverSack_cases hc k hk gaps rest with ⟨hlt, he⟩ | ⟨hge, t', evs, hrs, hsh, he⟩
  · -- stale: dropped
    rw [he]
    refine ⟨⟨hle, hchain⟩, ?_, Nat.le_refl _⟩
    simp only [Nat.sub_self, Nat.zero_add]
    have hS : ({ s with toTx := rest } : Link).S2 (h - 1) ≤ s.S2 h := by
      by_cases h0 : h = 0
      · subst h0
        unfold Link.S2 Link.U
        simp only [if_true]
        have : usum (Safe { s with toTx := rest } 0) s.tx.sentQ ≤ usum (Safe s 0) s.tx.sentQ := by
          apply usum_mono_mem
          intro c _ hsafe
          refine ⟨hsafe.1, ?_⟩
          intro σ hσ
          apply hsafe.2
          rw [ht]
          simp only [List.drop_zero] at hσ ⊢
          exact List.mem_cons_of_mem _ hσ
        show usum (Safe { s with toTx := rest } 0) s.tx.sentQ + 2 * s.tx.outQ.length ≤ _
        omega
      · have := hold { s with toTx := rest } (Nat.le_refl _) h0; omega
    unfold Link.pot2
    show s.tx.flags + s.tx.nOut * _ ≤ _
    have := Nat.mul_le_mul_left s.tx.nOut hS
    omega
  · -- processed
    obtain ⟨hseq1, hlen1⟩ := hc.core.seq.sack k hge (by omega) gaps hsh
    have hn1 : t'.nOut ≤ s.tx.nOut := by unfold Tx.nOut; rw [hsh.outQ]; omega
    obtain ⟨hfl, hn2, hu2⟩ := transmit_weights t' hsh.rel.fwd (by rw [hsh.outQ]; exact hc.snd.flight.outQ)
      (Safe { s with tx := t', toTx := rest } 0)
    rw [he]
    refine ⟨⟨hle, hchain⟩, ?_, by simp⟩
    simp only [List.length_append, Nat.add_sub_cancel_left]
    have hq := ackedQ_seq hc.core.seq k hge (by omega)
    have hsq := hsh.sentQ
    rw [hq] at hsq
    have hseq : Seq b k (s.tx.sentQ.drop (k - a)) := by
      have := Seq.drop (k - a) hc.core.seq.sent (by omega)
      rwa [show a + (k - a) = k by omega] at this
    have hlenl : k + (s.tx.sentQ.drop (k - a)).length < 2147483648 := by simp; omega
    have hfl1 : t'.flags ≤ t'.nOut := flags_le t'
    by_cases h0 : h = 0
    · subst h0
      -- an honest SACK
      have hch := hh.chain
      rw [ht] at hch
      simp only [List.drop_zero] at hch
      obtain ⟨hu1, hcase⟩ := usum_sack hseq hlenl gaps (Safe s 0)
        (Safe { s with tx := t', toTx := rest } 0)
        (by
          intro c _ hsafe
          refine ⟨hsafe.1, ?_⟩
          intro σ hσ
          apply hsafe.2
          rw [ht]
          simp only [List.drop_zero] at hσ ⊢
          exact List.mem_cons_of_mem _ hσ)
        (by
          intro c _ hsafe
          apply hsafe.2
          rw [ht]; simp)
        (by
          intro c hcm hcov
          obtain ⟨j, _, j2, j3⟩ := Seq.mem hseq hcm
          rw [j3] at hcov ⊢
          obtain ⟨x1, x2⟩ := hch.1 j (by simp at j2; omega) hcov
          exact ⟨x1, fun σ hσ => x2 σ (by simpa using hσ)⟩)
      have hdropU := usum_drop (Safe s 0) s.tx.sentQ (k - a)
      have hU2 : ({ s with tx := t'.transmit.1, toRx := s.toRx ++ dataOf t'.transmit.2, toTx := rest } : Link).U 0
          ≤ usum (Safe { s with tx := t', toTx := rest } 0) t'.sentQ + 2 * t'.outQ.length := hu2
      unfold Link.pot2 Link.S2
      simp only [if_true]
      show _ + (t'.transmit.1.flags + t'.transmit.1.nOut * _) ≤ s.tx.flags + s.tx.nOut * s.U 0
      rw [hn2]
      have hU0 : s.U 0 = usum (Safe s 0) s.tx.sentQ + 2 * s.tx.outQ.length := rfl
      rw [hsq, hsh.outQ] at hU2
      rcases hcase with heq | hlt
      · -- nothing changed: flags did not grow
        have hflag : t'.flags ≤ s.tx.flags := by
          unfold Tx.flags
          rw [hsh.sentQ, hq, heq, hsh.outQ]
          have := flagCount_drop s.tx.sentQ (k - a); omega
        have hUle : ({ s with tx := t'.transmit.1, toRx := s.toRx ++ dataOf t'.transmit.2, toTx := rest } : Link).U 0
            ≤ s.U 0 := by omega
        have := hon_pot_mono (f := s.tx.flags) (f' := t'.flags) hflag hn1 hUle
        omega
      · have hUlt : ({ s with tx := t'.transmit.1, toRx := s.toRx ++ dataOf t'.transmit.2, toTx := rest } : Link).U 0 + 1
            ≤ s.U 0 := by omega
        have := hon_pot_strict (f := s.tx.flags) hfl1 hn1 hUlt
        omega
    · -- an old SACK: the budget pays
      have hS := hold { s with tx := t'.transmit.1, toRx := s.toRx ++ dataOf t'.transmit.2, toTx := rest }
        (by show t'.transmit.1.nOut ≤ _; omega) h0
      unfold Link.pot2
      show _ + (t'.transmit.1.flags + t'.transmit.1.nOut * _) ≤ s.tx.flags + s.tx.nOut * s.S2 h
      rw [hn2]
      have := hon_pot_strict (f := s.tx.flags) hfl1 hn1 hS
      omega

theorem step_hon {b : Int} {a r h : Nat} {s : Link} (hc : Coh b a r s) (hh : Hon b h s) (hq : ¬ s.Quiet) :
    ∃ h', h' ≤ h ∧ Hon b h' s.step ∧ s.step.phi2 h' + 1 ≤ s.phi2 h := by
  cases hp : s.pending with
  | true =>
    rw [s.step_task hp]
    obtain ⟨h1, h2⟩ := step_hon_task hc hh
    refine ⟨h, Nat.le_refl _, h1, ?_⟩
    have e1 : s.runTask.toRx.length = s.toRx.length + (dataOf s.tx.transmit.2).length := by simp [Link.runTask]
    have e2 : s.runTask.toTx.length = s.toTx.length := rfl
    have e3 : s.runTask.pending = false := rfl
    unfold Link.phi2
    rw [e1, e2, e3, hp]
    simp only [if_true, Bool.false_eq_true, if_false]
    omega
  | false =>
    cases hr : s.toRx with
    | cons d rest =>
      rw [s.step_data d rest hp hr]
      obtain ⟨h1, h2⟩ := step_hon_data hc hh d rest (by rw [hr]; simp)
      refine ⟨h, Nat.le_refl _, h1, ?_⟩
      have e1 : (s.deliverData d rest).toRx.length = rest.length := rfl
      have e2 : (s.deliverData d rest).toTx.length = s.toTx.length + 1 := by simp [Link.deliverData]
      have e3 : (s.deliverData d rest).pending = s.pending := rfl
      unfold Link.phi2
      rw [e1, e2, e3, hp, hr]
      simp only [Bool.false_eq_true, if_false, List.length_cons]
      omega
    | nil =>
      cases ht : s.toTx with
      | nil => exact absurd ⟨hr, ht, hp⟩ hq
      | cons p rest =>
        obtain ⟨cum, gaps⟩ := p
        rw [s.step_sack cum gaps rest hp hr ht]
        obtain ⟨h1, h2, h3⟩ := step_hon_sack hc hh cum gaps rest ht
        refine ⟨h - 1, by omega, h1, ?_⟩
        have e2 : (s.deliverSack cum gaps rest).toTx.length = rest.length := by
          unfold Link.deliverSack; split <;> rfl
        have e3 : (s.deliverSack cum gaps rest).pending = s.pending := by
          unfold Link.deliverSack; split <;> rfl
        unfold Link.phi2
        rw [e2, e3, hp, ht]
        rw [hr] at h2 h3
        simp only [Bool.false_eq_true, if_false, List.length_cons, List.length_nil] at h2 h3 ⊢
        omega

end Aiortc.Sctp
