import Aiortc.Lemmas.C02.DrainHon4
/-!
# Full drain with a polynomial bound (C02 drain)

Same induction as `DrainRun.lean`, with the potential `phi2` (`S2` instead of the binary order `psi`).
-/
namespace Aiortc.Sctp
open Aiortc.Gen

theorem quiesce2 : ∀ (n : Nat) {b : Int} {a r h : Nat} {s : Link}, Coh b a r s → Hon b h s → s.phi2 h ≤ n →
    ∃ j a' r' h', j ≤ n ∧ Coh b a' r' (Link.run j s) ∧ Hon b h' (Link.run j s) ∧ (Link.run j s).Quiet ∧ a ≤ a'
      ∧ a' + (Link.run j s).tx.nOut = a + s.tx.nOut ∧ (Ahead b a r s → a < a') := by
  intro n
  induction n with
  | zero =>
    intro b a r h s hc hh hn
    by_cases hq : s.Quiet
    · exact ⟨0, a, r, h, Nat.le_refl _, hc, hh, hq, Nat.le_refl _, rfl, fun ha => absurd ha (not_ahead_of_quiet hq)⟩
    · obtain ⟨_, _, _, hphi⟩ := step_hon hc hh hq
      omega
  | succ n ih =>
    intro b a r h s hc hh hn
    by_cases hq : s.Quiet
    · exact ⟨0, a, r, h, Nat.zero_le _, hc, hh, hq, Nat.le_refl _, rfl, fun ha => absurd ha (not_ahead_of_quiet hq)⟩
    · obtain ⟨a1, r1, hc1, _, ha1, hn1, hah1⟩ := step_progress hc hq
      obtain ⟨h1, _, hh1, hphi⟩ := step_hon hc hh hq
      obtain ⟨j, a2, r2, h2, hj, hc2, hh2, hq2, ha2, hn2, hah2⟩ := ih hc1 hh1 (by omega)
      refine ⟨j + 1, a2, r2, h2, by omega, hc2, hh2, hq2, by omega, by simp only [Link.run]; omega, ?_⟩
      intro ha
      rcases hah1 ha with h' | h'
      · omega
      · have := hah2 h'; omega

/-- a quiet state has no old SACKs left -/
theorem Hon.quiet {b : Int} {h : Nat} {s : Link} (hh : Hon b h s) (hq : s.Quiet) : h = 0 := by
  have := hh.hle; rw [hq.2.1] at this; simpa using this

theorem epoch2 {b : Int} {a r h : Nat} {s : Link} (hc : Coh b a r s) (hh : Hon b h s) (hq : s.Quiet)
    (hne : s.tx.sentQ ≠ []) :
    Coh b a r s.fireT3.runTask ∧ Hon b 0 s.fireT3.runTask ∧ s.fireT3.runTask.tx.nOut = s.tx.nOut
    ∧ s.fireT3.runTask.phi2 0 ≤ 2 * (s.tx.nOut + s.tx.nOut * (2 * s.tx.nOut)) ∧ Ahead b a r s.fireT3.runTask := by
  obtain ⟨hc2, hn2, _, hah2⟩ := epoch hc hq hne
  have h0 := hh.quiet hq
  subst h0
  have sh := t3Expired_shape s.tx hc.core.rel s.now1000
  have hn1 : s.fireT3.tx.nOut = s.tx.nOut := by
    show (s.tx.t3Expired s.now1000).nOut = _
    unfold Tx.nOut; rw [sh.sentQ, sh.outQ]; simp
  have hh1 : Hon b 0 s.fireT3 := ⟨Nat.zero_le _, hh.chain⟩
  obtain ⟨hh2, hpot⟩ := step_hon_task hc.fireT3 hh1
  have hple : s.fireT3.pot2 0 ≤ s.tx.nOut + s.tx.nOut * (2 * s.tx.nOut) := by
    have := pot2_le s.fireT3 0
    rw [hn1, Nat.zero_add] at this
    exact this
  refine ⟨hc2, hh2, hn2, ?_, hah2⟩
  have e1 : s.fireT3.runTask.toRx.length = (dataOf s.fireT3.tx.transmit.2).length := by
    simp [Link.runTask, Link.fireT3, hq.1]
  have e2 : s.fireT3.runTask.toTx.length = 0 := by
    show s.toTx.length = 0; rw [hq.2.1]; rfl
  have e3 : s.fireT3.runTask.pending = false := rfl
  unfold Link.phi2
  rw [e1, e2, e3]
  simp only [Bool.false_eq_true, if_false]
  omega

def epochCost2 (m : Nat) : Nat := 2 + 2 * (m + m * (2 * m))
def quietBound2 (m : Nat) : Nat := m * epochCost2 m + 2

theorem epochCost2_mono {m n : Nat} (h : m ≤ n) : epochCost2 m ≤ epochCost2 n := by
  have := Nat.mul_le_mul h (Nat.mul_le_mul_left 2 h)
  unfold epochCost2; omega

theorem quietBound2_step (m k : Nat) (hk : k ≤ m + 1) : epochCost2 k + quietBound2 m ≤ quietBound2 (m + 1) := by
  have h1 : epochCost2 k ≤ epochCost2 (m + 1) := epochCost2_mono hk
  have h2 : m * epochCost2 m ≤ m * epochCost2 (m + 1) := Nat.mul_le_mul_left _ (epochCost2_mono (by omega))
  have h3 : (m + 1) * epochCost2 (m + 1) = m * epochCost2 (m + 1) + epochCost2 (m + 1) := Nat.succ_mul _ _
  unfold quietBound2
  omega

theorem drain_quiet2 : ∀ (m : Nat) {b : Int} {a r h : Nat} {s : Link}, Coh b a r s → Hon b h s → s.Quiet → s.tx.nOut ≤ m →
    ∃ j a' r', j ≤ quietBound2 m ∧ Coh b a' r' (Link.run j s) ∧ (Link.run j s).Drained
      ∧ a' + (Link.run j s).tx.nOut = a + s.tx.nOut := by
  intro m
  induction m with
  | zero =>
    intro b a r h s hc _ hq hm
    obtain ⟨j, a', r', hj, h1, h2, h3⟩ := drain_quiet 0 hc hq hm
    exact ⟨j, a', r', by unfold quietBound at hj; unfold quietBound2; omega, h1, h2, h3⟩
  | succ m ih =>
    intro b a r h s hc hh hq hm
    cases h3 : s.tx.t3 with
    | false =>
      exact ⟨0, a, r, Nat.zero_le _, hc, Link.stuck_drained s hc.snd (s.step_rest hq h3), rfl⟩
    | true =>
      by_cases hsq : s.tx.sentQ = []
      · have hoq : s.tx.outQ = [] := by
          cases ho : s.tx.outQ with
          | nil => rfl
          | cons c cs =>
            rcases hc.snd.queued (by simp [ho]) with h' | h'
            · exact absurd hsq h'
            · have := hq.2.2; simp only at h'; rw [this] at h'; cases h'
        obtain ⟨j, a', r', hj, h1, h2, h3'⟩ := drain_quiet 0 hc hq (by unfold Tx.nOut; rw [hsq, hoq]; simp)
        exact ⟨j, a', r', by unfold quietBound at hj; unfold quietBound2; omega, h1, h2, h3'⟩
      · obtain ⟨hc2, hh2, hn2, hphi2, hah2⟩ := epoch2 hc hh hq hsq
        have hrun : Link.run 2 s = s.fireT3.runTask := by
          rw [Link.run_two, s.step_t3 hq h3, Link.step_task _ rfl]
        obtain ⟨j1, a3, r3, h3', hj1, hc3, hh3, hq3, ha3, hn3, hah3⟩ := quiesce2 _ hc2 hh2 (Nat.le_refl _)
        have hlt := hah3 hah2
        obtain ⟨j2, a4, r4, hj2, hc4, hd4, hn4⟩ := ih hc3 hh3 hq3 (by omega)
        refine ⟨2 + j1 + j2, a4, r4, ?_, ?_, ?_, ?_⟩
        · have := quietBound2_step m s.tx.nOut hm
          have e : epochCost2 s.tx.nOut = 2 + 2 * (s.tx.nOut + s.tx.nOut * (2 * s.tx.nOut)) := rfl
          omega
        · rw [Link.run_add, Link.run_add, hrun]; exact hc4
        · rw [Link.run_add, Link.run_add, hrun]; exact hd4
        · rw [Link.run_add, Link.run_add, hrun]; omega

/-- the polynomial bound -/
def Link.drainBound2 (s : Link) : Nat :=
  2 * s.toRx.length + s.toTx.length + 1 + 2 * (s.tx.nOut + s.tx.nOut * (s.toTx.length + 2 * s.tx.nOut))
    + quietBound2 s.tx.nOut

theorem Hon.start (b : Int) (s : Link) : Hon b s.toTx.length s :=
  ⟨Nat.le_refl _, by rw [List.drop_length]; trivial⟩

/-- **Full drain from every coherent state, polynomial bound.** -/
theorem Coh.drains2 {b : Int} {a r : Nat} {s : Link} (h : Coh b a r s) :
    ∃ j, j ≤ s.drainBound2 ∧ (Link.run j s).Drained
      ∧ (Link.run j s).rx.last = T b (a + s.tx.nOut) ∧ (Link.run j s).tx.lastSacked = T b (a + s.tx.nOut)
      ∧ (Link.run j s).tx.localTsn = T b (a + s.tx.nOut + 1) := by
  have hh := Hon.start b s
  have hphi : s.phi2 s.toTx.length
      ≤ 2 * s.toRx.length + s.toTx.length + 1 + 2 * (s.tx.nOut + s.tx.nOut * (s.toTx.length + 2 * s.tx.nOut)) := by
    have := pot2_le s s.toTx.length
    unfold Link.phi2
    split <;> omega
  obtain ⟨j1, a1, r1, h1, hj1, hc1, hh1, hq1, _, hn1, _⟩ := quiesce2 _ h hh (Nat.le_refl _)
  obtain ⟨j2, a2, r2, hj2, hc2, hd2, hn2⟩ := drain_quiet2 s.tx.nOut hc1 hh1 hq1 (by omega)
  have hz : (Link.run j2 (Link.run j1 s)).tx.nOut = 0 := by
    unfold Tx.nOut; rw [hd2.sentQ, hd2.outQ]; rfl
  have ha2 : a2 = a + s.tx.nOut := by omega
  have hr2 : r2 = a2 := by
    have := hc2.core.rlo; have := hc2.core.rhi; rw [hd2.sentQ] at this; simp at this; omega
  refine ⟨j1 + j2, by unfold Link.drainBound2; omega, ?_, ?_, ?_, ?_⟩
  · rw [Link.run_add]; exact hd2
  · rw [Link.run_add, hc2.core.rlast, hr2, ha2]
  · rw [Link.run_add, hc2.core.seq.ls, ha2]
  · rw [Link.run_add, hc2.core.seq.localTsn, hd2.sentQ, hd2.outQ, ha2]; rfl

end Aiortc.Sctp
