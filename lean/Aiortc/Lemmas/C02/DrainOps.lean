import Aiortc.Lemmas.C02.DrainRel
/-!
# Shapes of the sender operations on reliable traffic (C02 drain)

`receiveSack_shape`, `t3Expired_shape`, `transmit_shape`: what each operation of the sender does to the two
queues, to `lastSacked` / `localTsn`, and which DATA chunks `_transmit` emits, for a sender that carries only
reliable traffic (`RelTx`).
-/
namespace Aiortc.Sctp
open Aiortc.Gen

/-! ## `_receive_sack_chunk` -/

/-- what `_receive_sack_chunk` does to the part of the sent queue that the cumulative TSN does not cover -/
def sackList (cum : Int) (gaps : List (Nat × Nat)) (l : List SChunk) : List SChunk :=
  if gaps.isEmpty then l
  else
    let limit : Nat := match l.getLast? with
      | some x => if uint32_gt x.tsn cum then ((x.tsn - cum) % 4294967296).toNat else 0
      | none => 0
    let gs := gapSeen cum limit gaps
    strikeList gs.1 (htnaHna gs.1 gs.2 cum l) (htnaList gs.1 gs.2 l)

/-- the sent queue after the cumulative-ack loop -/
def Tx.ackedQ (t : Tx) (cum : Int) : List SChunk := (ackLoop cum t.flight 0 0 t.sentQ).2.2.2

theorem sackList_sameId (cum : Int) (gaps : List (Nat × Nat)) (l : List SChunk) : PW SameId l (sackList cum gaps l) := by
  unfold sackList
  split
  · exact PW.refl SameId.refl l
  · exact PW.sameId_trans (htnaList_sameId _ _ l) (strikeList_sameId _ _ _)

theorem sackGaps_rel (t : Tx) (cum : Int) (gaps : List (Nat × Nat)) (now : Int) (db : Nat)
    (hrel : ∀ c ∈ t.sentQ, c.Rel) (ho : ∀ c ∈ t.outQ, Idle c) :
    ∃ fl, (t.sackGaps cum gaps now db).1 = { t with flight := fl, sentQ := sackList cum gaps t.sentQ } := by
  cases hg : gaps.isEmpty with
  | true => exact ⟨t.flight, by simp [Tx.sackGaps, sackList, hg]⟩
  | false =>
    have hs := sackGaps_strike t cum gaps now db ho hg
    have hfr := hs.frame
    simp only at hfr
    have hq : (t.sackHtna cum gaps db).sentQ
        = htnaList (gapSeen cum (t.gapLimit cum) gaps).1 (gapSeen cum (t.gapLimit cum) gaps).2 t.sentQ := by
      have := (htnaLoop_eq (gapSeen cum (t.gapLimit cum) gaps).1 (gapSeen cum (t.gapLimit cum) gaps).2 t.sentQ []
        t.flight db cum).1
      simpa [Tx.sackHtna] using this
    have hrel1 : ∀ c ∈ (t.sackHtna cum gaps db).sentQ, c.Rel := by
      rw [hq]; exact PW.sameId_rel (htnaList_sameId _ _ _) hrel
    have hst := strikeLoop_rel (gapSeen cum (t.gapLimit cum) gaps).1
      (htnaLoop (gapSeen cum (t.gapLimit cum) gaps).1 (gapSeen cum (t.gapLimit cum) gaps).2 t.flight db cum [] t.sentQ).2.2.1
      now (t.sackHtna cum gaps db).sentQ.length [] (t.sackHtna cum gaps db).sentQ (t.sackHtna cum gaps db) false
      (by simp) (Nat.le_refl _) hrel1
    have hsg : (t.sackGaps cum gaps now db).1 = (strikeLoop (gapSeen cum (t.gapLimit cum) gaps).1
        (htnaLoop (gapSeen cum (t.gapLimit cum) gaps).1 (gapSeen cum (t.gapLimit cum) gaps).2 t.flight db cum [] t.sentQ).2.2.1
        now (t.sackHtna cum gaps db).sentQ.length 0 (t.sackHtna cum gaps db) false).1 := by
      simp only [Tx.sackGaps, hg, Bool.false_eq_true, if_false]
    simp only [List.length_nil, List.nil_append] at hst
    rw [← hsg] at hst
    refine ⟨(t.sackGaps cum gaps now db).1.flight, ?_⟩
    rw [hfr]
    rw [hst.1, hst.2, hq]
    have hh := (htnaLoop_eq (gapSeen cum (t.gapLimit cum) gaps).1 (gapSeen cum (t.gapLimit cum) gaps).2 t.sentQ []
        t.flight db cum).2
    rw [hh]
    simp only [Tx.sackHtna, sackList, hg, Bool.false_eq_true, if_false, Tx.gapLimit]
    rfl

structure SackShape (t t' : Tx) (cum : Int) (gaps : List (Nat × Nat)) : Prop where
  sentQ : t'.sentQ = sackList cum gaps (t.ackedQ cum)
  outQ : t'.outQ = t.outQ
  lastSacked : t'.lastSacked = cum
  localTsn : t'.localTsn = t.localTsn
  rel : RelTx t'

theorem ackedQ_drop (t : Tx) (cum : Int) : ∃ k, t.ackedQ cum = t.sentQ.drop k := by
  obtain ⟨_, ⟨k, hk, _⟩, _⟩ := ackLoop_spec cum t.sentQ t.flight 0 0
  exact ⟨k, hk⟩

theorem receiveSack_shape (t : Tx) (hrel : RelTx t) (ho : ∀ c ∈ t.outQ, Idle c) (cum : Int) (gaps : List (Nat × Nat))
    (now : Int) (t' : Tx) (evs : List TxEv) (hr : t.receiveSack cum gaps now = .ok (some (t', evs))) :
    SackShape t t' cum gaps := by
  rw [receiveSack_eq] at hr
  split at hr
  · cases hr
  · have hrel1 : ∀ c ∈ (t.sackAck cum).sentQ, c.Rel := by
      obtain ⟨k, hk⟩ := ackedQ_drop t cum
      intro c hc
      have : c ∈ t.sentQ.drop k := by rw [← hk]; exact hc
      exact hrel.sentQ c (List.mem_of_mem_drop this)
    obtain ⟨fl, hg⟩ := sackGaps_rel (t.sackAck cum) cum gaps now (t.sackDoneBytes cum) hrel1
      (by simpa [Tx.sackAck] using ho)
    generalize ((t.sackAck cum).sackGaps cum gaps now (t.sackDoneBytes cum)) = g at hr hg
    split at hr
    · rename_i t3 ht3
      have hfr := sackCwnd_frame _ _ _ _ _ _ _ ht3
      have hT3 := sackT3_frame t3 (t.sackDone cum)
      generalize (t3.sackT3 (t.sackDone cum)).1 = t4 at hr hT3
      have e1 : t4.sentQ = sackList cum gaps (t.ackedQ cum) := by rw [hT3, hfr, hg]; rfl
      have e2 : t4.outQ = t.outQ := by rw [hT3, hfr, hg]; rfl
      have e3 : t4.lastSacked = cum := by rw [hT3, hfr, hg]; rfl
      have e4 : t4.localTsn = t.localTsn := by rw [hT3, hfr, hg]; rfl
      have e5 : t4.forwardTsn = none := by rw [hT3, hfr, hg]; exact hrel.fwd
      have e6 : t4.forwardNeeded = false := by rw [hT3, hfr, hg]; exact hrel.needed
      have hrel4 : RelTx t4 := by
        refine ⟨?_, by rw [e2]; exact hrel.outQ, e5, e6⟩
        rw [e1]
        exact PW.sameId_rel (sackList_sameId cum gaps _) hrel1
      obtain ⟨adv, fs, hu⟩ := updateAdvAck_rel t4 hrel4
      simp only [Outcome.ok.injEq, Option.some.injEq, Prod.mk.injEq] at hr
      rw [← hr.1, hu]
      exact ⟨e1, e2, e3, e4, ⟨hrel4.sentQ, hrel4.outQ, e5, e6⟩⟩
    all_goals cases hr

/-! ## `_t3_expired` -/

structure T3Shape (t t' : Tx) : Prop where
  sentQ : t'.sentQ = t.sentQ.map (hitMark false)
  outQ : t'.outQ = t.outQ
  lastSacked : t'.lastSacked = t.lastSacked
  localTsn : t'.localTsn = t.localTsn
  t3 : t'.t3 = false
  rel : RelTx t'

theorem t3Expired_shape (t : Tx) (hrel : RelTx t) (now : Int) : T3Shape t (t.t3Expired now) := by
  have hm : t.t3Marked now = { t with t3 := false, sentQ := t.sentQ.map (hitMark false) } := by
    have := t3Mark_rel now t.sentQ [] { t with t3 := false } rfl hrel.sentQ
    simpa [Tx.t3Marked] using this
  have hrelm : RelTx (t.t3Marked now) := by
    rw [hm]
    refine ⟨?_, hrel.outQ, hrel.fwd, hrel.needed⟩
    intro d hd
    simp only [List.mem_map] at hd
    obtain ⟨c, hc, rfl⟩ := hd
    exact SameId.rel (hitMark_sameId c) (hrel.sentQ c hc)
  obtain ⟨adv, fs, hu⟩ := updateAdvAck_rel _ hrelm
  rw [t3Expired_eq, hu, hm]
  refine ⟨rfl, rfl, rfl, rfl, rfl, ?_⟩
  rw [hm] at hrelm
  exact ⟨hrelm.sentQ, hrelm.outQ, hrelm.fwd, hrelm.needed⟩

/-! ## `_transmit` -/

/-- retransmission pass: which chunks are re-marked and which DATA chunks go out -/
inductive RtxPW : List SChunk → List SChunk → List RChunk → Prop
  | nil : RtxPW [] [] []
  | keep (c : SChunk) {cs ds : List SChunk} {es : List RChunk} : RtxPW cs ds es → RtxPW (c :: cs) (c :: ds) es
  | send (c : SChunk) {cs ds : List SChunk} {es : List RChunk} : c.retransmit = true → RtxPW cs ds es →
      RtxPW (c :: cs) (rtxChunk c :: ds) ((rtxChunk c).toR :: es)

theorem RtxPW.refl : ∀ l : List SChunk, RtxPW l l []
  | [] => .nil
  | c :: cs => .keep c (RtxPW.refl cs)

theorem dataOf_reverse (l : List TxEv) : dataOf l.reverse = (dataOf l).reverse := by
  induction l with
  | nil => rfl
  | cons e es ih =>
    rw [List.reverse_cons, dataOf_append, ih]
    cases e <;> simp [dataOf]

theorem rtxLoop_emit (cwnd : Nat) : ∀ (l : List SChunk) (st : RtxSt),
    ∃ l'' es, (rtxLoop cwnd st l).1.done.reverse ++ (rtxLoop cwnd st l).2 = st.done.reverse ++ l''
      ∧ RtxPW l l'' es ∧ dataOf (rtxLoop cwnd st l).1.evs.reverse = dataOf st.evs.reverse ++ es := by
  intro l
  induction l with
  | nil => intro st; exact ⟨[], [], by simp [rtxLoop], .nil, by simp [rtxLoop]⟩
  | cons c cs ih =>
    intro st
    rw [rtxLoop_cons]
    split
    · rename_i hr
      split
      · exact ⟨c :: cs, [], rfl, RtxPW.refl _, by simp⟩
      · obtain ⟨l'', es, h1, h2, h3⟩ := ih (rtxSend st c)
        refine ⟨rtxChunk c :: l'', (rtxChunk c).toR :: es, ?_, .send c hr h2, ?_⟩
        · rw [h1]; simp [rtxSend]
        · rw [h3]
          simp only [rtxSend]
          split
          · rw [List.reverse_append, List.reverse_cons, dataOf_append, dataOf_append, List.reverse_reverse]
            simp [dataOf, dataOf_t3Restart]
          · rw [List.reverse_cons, dataOf_append]
            simp [dataOf]
    · obtain ⟨l'', es, h1, h2, h3⟩ := ih { st with earliest := false, done := c :: st.done }
      exact ⟨c :: l'', es, by rw [h1]; simp, .keep c h2, h3⟩

theorem newLoop_emit (cwnd : Nat) : ∀ (fuel fl : Nat) (t3 : Bool) (outQ sent : List SChunk) (evs : List TxEv),
    ∃ k, (newLoop cwnd fuel fl t3 outQ sent evs).2.2.2.1 = sent ++ (outQ.take k).map newChunk
      ∧ (newLoop cwnd fuel fl t3 outQ sent evs).2.2.1 = outQ.drop k
      ∧ dataOf (newLoop cwnd fuel fl t3 outQ sent evs).2.2.2.2
          = dataOf evs ++ (outQ.take k).map (fun c => (newChunk c).toR) := by
  intro fuel
  induction fuel with
  | zero => intro fl t3 outQ sent evs; exact ⟨0, by simp [newLoop], rfl, by simp [newLoop]⟩
  | succ fuel ih =>
    intro fl t3 outQ sent evs
    cases outQ with
    | nil => exact ⟨0, by simp [newLoop], rfl, by simp [newLoop]⟩
    | cons c outQ =>
      rw [newLoop_cons]
      split
      · obtain ⟨k, h1, h2, h3⟩ := ih (if c.inFlight then fl else fl + c.bookSize) true outQ (sent ++ [newChunk c])
          (evs ++ [TxEv.data (newChunk c).toR] ++ (if t3 then [] else [TxEv.t3start]))
        refine ⟨k + 1, by rw [h1]; simp, by rw [h2]; simp, ?_⟩
        rw [h3, dataOf_append, dataOf_append]
        have : dataOf (if t3 = true then [] else [TxEv.t3start]) = [] := by split <;> rfl
        rw [this]
        simp [dataOf]
      · exact ⟨0, by simp, rfl, by simp⟩

structure TransmitShape (t : Tx) : Prop where
  shape : ∃ mid es k, RtxPW t.sentQ mid es ∧ t.transmit.1.sentQ = mid ++ (t.outQ.take k).map newChunk
      ∧ t.transmit.1.outQ = t.outQ.drop k
      ∧ dataOf t.transmit.2 = es ++ (t.outQ.take k).map (fun c => (newChunk c).toR)
  lastSacked : t.transmit.1.lastSacked = t.lastSacked
  localTsn : t.transmit.1.localTsn = t.localTsn
  fwd : t.transmit.1.forwardTsn = none
  needed : t.transmit.1.forwardNeeded = t.forwardNeeded

theorem fwd_none (t : Tx) (h : t.forwardTsn = none) : t.fwd = (t, []) := by
  unfold Tx.fwd; rw [h]

theorem transmit_shape (t : Tx) (hf : t.forwardTsn = none) : TransmitShape t := by
  have tf := transmit_facts t
  have hfwd := fwd_none t hf
  have hctl : ∀ {x y : Tx}, x.ctl = y.ctl → x.lastSacked = y.lastSacked ∧ x.localTsn = y.localTsn
      ∧ x.forwardNeeded = y.forwardNeeded := by
    intro x y h
    have a := congrArg Tx.lastSacked h
    have b := congrArg Tx.localTsn h
    have c := congrArg Tx.forwardNeeded h
    exact ⟨a, b, c⟩
  obtain ⟨c1, c2, c3⟩ := hctl tf.frame
  refine ⟨?_, c1, c2, tf.fwdNone, c3⟩
  obtain ⟨l'', es, h1, h2, h3⟩ := rtxLoop_emit t.burstCwnd t.sentQ t.rtxInit
  simp only [Tx.rtxInit, List.reverse_nil, List.nil_append, dataOf] at h1 h3
  rw [transmit_eq]
  simp only [hfwd]
  split
  · refine ⟨l'', es, 0, h2, ?_, by simp [Tx.afterRtx], ?_⟩
    · simp only [Tx.afterRtx, Tx.rtxInit, List.take_zero, List.map_nil, List.append_nil]; exact h1
    · simp only [Tx.rtxInit, List.nil_append, List.take_zero, List.map_nil, List.append_nil]; exact h3
  · obtain ⟨k, n1, n2, n3⟩ := newLoop_emit t.burstCwnd (t.afterRtx.outQ.length + 1) t.afterRtx.flight t.afterRtx.t3
      t.afterRtx.outQ t.afterRtx.sentQ ([] ++ (rtxLoop t.burstCwnd t.rtxInit t.sentQ).1.evs.reverse)
    refine ⟨l'', es, k, h2, ?_, ?_, ?_⟩
    · simp only; rw [n1]
      simp only [Tx.afterRtx, Tx.rtxInit]; rw [h1]
    · simp only; rw [n2]; rfl
    · simp only; rw [n3]
      simp only [Tx.rtxInit, List.nil_append]; rw [h3]; rfl

end Aiortc.Sctp
