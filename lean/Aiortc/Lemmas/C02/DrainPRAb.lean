import Aiortc.Lemmas.C02.DrainHon5
/-!
# The sender loops with abandonment, relationally (C02 drain, partial reliability)

With partially reliable traffic `_maybe_abandon` marks whole messages as abandoned (backwards to the FIRST fragment,
forwards to the LAST one, moving unsent fragments from `_outbound_queue` to the end of `_sent_queue`).  `Parts R t t'`:
the new sent queue is the old one chunk by chunk related by `R`, followed by chunks moved in from the front of the old
outbound queue (marked abandoned); the new outbound queue is the rest.  `maybeAbandon_parts`, `strikeLoop_parts`,
`t3Mark_parts`: `_maybe_abandon`, the strike loop and the T3 marking loop in this form, for ANY sender state.
-/
namespace Aiortc.Sctp
open Aiortc.Gen

/-- same TSN, same reliability parameters, same fragment flags -/
def SameT (c d : SChunk) : Prop :=
  d.tsn = c.tsn ∧ d.maxRetransmits = c.maxRetransmits ∧ d.expiry = c.expiry ∧ d.flags = c.flags

theorem SameT.refl (c : SChunk) : SameT c c := ⟨rfl, rfl, rfl, rfl⟩
theorem SameT.trans {c d e : SChunk} (h1 : SameT c d) (h2 : SameT d e) : SameT c e :=
  ⟨h2.1.trans h1.1, h2.2.1.trans h1.2.1, h2.2.2.1.trans h1.2.2.1, h2.2.2.2.trans h1.2.2.2⟩

/-- an unsent chunk moved into the sent queue by `_maybe_abandon` -/
def MV (c d : SChunk) : Prop := SameT c d ∧ d.abandoned = true

def abU (c : SChunk) : SChunk := { c with abandoned := true }

theorem abandonUnsent_take : ∀ l : List SChunk,
    ∃ m, (abandonUnsent l).1 = (l.take m).map abU ∧ (abandonUnsent l).2 = l.drop m
  | [] => ⟨0, rfl, rfl⟩
  | c :: cs => by
    obtain ⟨m, h1, h2⟩ := abandonUnsent_take cs
    unfold abandonUnsent
    split
    · exact ⟨1, by simp [abU], by simp⟩
    · exact ⟨m + 1, by simp [h1, abU], by simp [h2]⟩

theorem PW.append_inv {α} {R : α → α → Prop} : ∀ {a b l : List α}, PW R (a ++ b) l →
    ∃ a' b', l = a' ++ b' ∧ PW R a a' ∧ PW R b b'
  | [], b, l, h => ⟨[], l, rfl, trivial, h⟩
  | x :: xs, b, [], h => h.elim
  | x :: xs, b, y :: ys, h => by
    obtain ⟨a', b', e, h1, h2⟩ := PW.append_inv (a := xs) (b := b) (l := ys) h.2
    exact ⟨y :: a', b', by rw [e]; rfl, ⟨h.1, h1⟩, h2⟩

theorem PW.modify_at {α} {R : α → α → Prop} (hR : ∀ c, R c c) (f : α → α) :
    ∀ (l : List α) (i : Nat) (c : α), l[i]? = some c → R c (f c) → PW R l (l.modify i f)
  | [], _, _, h, _ => by simp at h
  | x :: xs, 0, c, h, hf => by
    simp at h; subst h; simp; exact ⟨hf, PW.refl hR xs⟩
  | x :: xs, i + 1, c, h, hf => by
    simp at h; simp; exact ⟨hR x, PW.modify_at hR f xs i c h hf⟩

/-! ## `_maybe_abandon` -/

theorem abandonBack_length (l : List SChunk) (fl : Nat) : (abandonBack fl l).2.length = l.length :=
  (PW.length (abandonBack_spec l fl).1).symm

theorem abandonFwd_length (l : List SChunk) (fl : Nat) : (abandonFwd fl l).2.1.length = l.length :=
  (PW.length (abandonFwd_spec l fl).1).symm

/-- what `_maybe_abandon` appends to the sent queue comes from the front of the outbound queue -/
theorem maybeAbandon_tail (t : Tx) (pos : Nat) (now : Int) :
    ((t.maybeAbandon pos now).2.sentQ.drop t.sentQ.length = [] ∧ (t.maybeAbandon pos now).2.outQ = t.outQ)
    ∨ ((t.maybeAbandon pos now).2.sentQ.drop t.sentQ.length = (abandonUnsent t.outQ).1
        ∧ (t.maybeAbandon pos now).2.outQ = (abandonUnsent t.outQ).2) := by
  unfold Tx.maybeAbandon
  cases hp : t.sentQ[pos]? with
  | none => exact Or.inl ⟨by simp, rfl⟩
  | some chunk =>
    simp only
    split
    · exact Or.inl ⟨by simp, rfl⟩
    · split
      · exact Or.inl ⟨by simp, rfl⟩
      · have hlt : pos < t.sentQ.length := by
          rcases Nat.lt_or_ge pos t.sentQ.length with h | h
          · exact h
          · have := List.getElem?_eq_none h; rw [hp] at this; cases this
        have hB := abandonBack_length (t.sentQ.take (pos + 1)).reverse t.flight
        generalize abandonBack t.flight (t.sentQ.take (pos + 1)).reverse = B at hB
        have hF := abandonFwd_length ((B.2.reverse.getLast?.getD chunk) :: t.sentQ.drop (pos + 1)) B.1
        generalize abandonFwd B.1 ((B.2.reverse.getLast?.getD chunk) :: t.sentQ.drop (pos + 1)) = F at hF
        have hX : (B.2.reverse.dropLast ++ F.2.1).length = t.sentQ.length := by
          simp only [List.length_append, List.length_dropLast, List.length_reverse, hB, hF, List.length_cons,
            List.length_take, List.length_drop]
          omega
        split
        · left
          refine ⟨?_, rfl⟩
          rw [← hX]; exact List.drop_length
        · right
          refine ⟨?_, rfl⟩
          rw [← hX]; exact List.drop_left

/-- the new sent queue = the old one related chunk by chunk ++ chunks moved in from the outbound queue -/
def Parts (R : SChunk → SChunk → Prop) (t t' : Tx) : Prop :=
  ∃ front moved m, t'.sentQ = front ++ moved ∧ t'.outQ = t.outQ.drop m ∧ PW R t.sentQ front
    ∧ PW MV (t.outQ.take m) moved

theorem Parts.of_sent {R : SChunk → SChunk → Prop} {t t' : Tx} (h : PW R t.sentQ t'.sentQ) (ho : t'.outQ = t.outQ) :
    Parts R t t' :=
  ⟨t'.sentQ, [], 0, by simp, by simp [ho], h, trivial⟩

theorem Parts.refl {R : SChunk → SChunk → Prop} (hR : ∀ c, R c c) (t : Tx) : Parts R t t :=
  Parts.of_sent (PW.refl hR _) rfl

theorem Parts.mono {R S : SChunk → SChunk → Prop} (hRS : ∀ c d, R c d → S c d) {t t' : Tx} (h : Parts R t t') :
    Parts S t t' := by
  obtain ⟨front, moved, m, h1, h2, h3, h4⟩ := h
  exact ⟨front, moved, m, h1, h2, PW.mono hRS h3, h4⟩

theorem Parts.trans {R : SChunk → SChunk → Prop} (hT : ∀ c d e, R c d → R d e → R c e)
    (hM : ∀ c d e, MV c d → R d e → MV c e) {t t' t'' : Tx} (h1 : Parts R t t') (h2 : Parts R t' t'') :
    Parts R t t'' := by
  obtain ⟨f1, mv1, m1, a1, a2, a3, a4⟩ := h1
  obtain ⟨f2, mv2, m2, b1, b2, b3, b4⟩ := h2
  rw [a1] at b3
  obtain ⟨f', mv', e, c1, c2⟩ := PW.append_inv b3
  refine ⟨f', mv' ++ mv2, m1 + m2, by rw [b1, e, List.append_assoc], by rw [b2, a2, List.drop_drop], ?_, ?_⟩
  · exact PW.trans (R := R) (S := R) (T := R) hT a3 c1
  · rw [List.take_add]
    refine PW.append (PW.trans (R := MV) (S := R) (T := MV) hM a4 c2) ?_
    rw [a2] at b4; exact b4

theorem AbRel.sameT {c d : SChunk} (h : AbRel c d) : SameT c d := by
  rcases h with rfl | rfl
  · exact SameT.refl _
  · exact ⟨rfl, rfl, rfl, rfl⟩

theorem maybeAbandon_parts (t : Tx) (pos : Nat) (now : Int) : Parts AbRel t (t.maybeAbandon pos now).2 := by
  obtain ⟨front, moved, he, hpw, _, _⟩ := (maybeAbandon_spec t pos now).shape
  have hl := PW.length hpw
  have hd : (t.maybeAbandon pos now).2.sentQ.drop t.sentQ.length = moved := by
    rw [he, hl]; simp
  obtain ⟨m, u1, u2⟩ := abandonUnsent_take t.outQ
  have hmv : PW MV (t.outQ.take m) ((t.outQ.take m).map abU) := by
    generalize t.outQ.take m = l
    induction l with
    | nil => trivial
    | cons c cs ih => exact ⟨⟨⟨rfl, rfl, rfl, rfl⟩, rfl⟩, ih⟩
  rcases maybeAbandon_tail t pos now with ⟨h1, h2⟩ | ⟨h1, h2⟩
  · rw [hd] at h1
    exact ⟨front, [], 0, by rw [he, h1], by simp [h2], hpw, trivial⟩
  · rw [hd] at h1
    exact ⟨front, moved, m, he, by rw [h2, u2], hpw, by rw [h1, u1]; exact hmv⟩

/-! ## the strike loop -/

/-- what the HTNA loop and the strike loop may do to a chunk: its identity is kept, `abandoned` only grows, it is
newly gap-acked only if the SACK covers it, it loses its gap-ack only if the SACK does not cover it and its TSN is not
beyond the highest newly acked TSN -/
def SR (seen : List Int) (hna : Int) (c d : SChunk) : Prop :=
  SameT c d ∧ (c.abandoned = true → d.abandoned = true)
  ∧ (c.acked = false → d.acked = true → c.tsn ∈ seen)
  ∧ (c.acked = true → d.acked = false → c.tsn ∉ seen ∧ uint32_gt c.tsn hna = false)

theorem SR.refl (seen : List Int) (hna : Int) (c : SChunk) : SR seen hna c c :=
  ⟨SameT.refl c, id, fun h1 h2 => (by rw [h1] at h2; cases h2), fun h1 h2 => (by rw [h1] at h2; cases h2)⟩

theorem SR.trans {seen : List Int} {hna : Int} {c d e : SChunk} (h1 : SR seen hna c d) (h2 : SR seen hna d e) :
    SR seen hna c e := by
  obtain ⟨a1, a2, a3, a4⟩ := h1
  obtain ⟨b1, b2, b3, b4⟩ := h2
  refine ⟨a1.trans b1, fun h => b2 (a2 h), ?_, ?_⟩
  · intro hc he
    cases hd : d.acked with
    | true => exact a3 hc hd
    | false => rw [← a1.1]; exact b3 hd he
  · intro hc he
    cases hd : d.acked with
    | true => rw [← a1.1]; exact b4 hd he
    | false => exact a4 hc hd

theorem SR.of_abRel {seen : List Int} {hna : Int} {c d : SChunk} (h : AbRel c d) : SR seen hna c d := by
  rcases h with rfl | rfl
  · exact SR.refl seen hna _
  · exact ⟨⟨rfl, rfl, rfl, rfl⟩, fun _ => rfl, fun h1 h2 => (by simp only [abMark] at h2; rw [h1] at h2; cases h2),
      fun h1 h2 => (by simp only [abMark] at h2; rw [h1] at h2; cases h2)⟩

theorem MV.sr {seen : List Int} {hna : Int} {c d e : SChunk} (h1 : MV c d) (h2 : SR seen hna d e) : MV c e :=
  ⟨h1.1.trans h2.1, h2.2.1 h1.2⟩

theorem Parts.sr_trans {seen : List Int} {hna : Int} {t t' t'' : Tx} (h1 : Parts (SR seen hna) t t')
    (h2 : Parts (SR seen hna) t' t'') : Parts (SR seen hna) t t'' :=
  Parts.trans (R := SR seen hna) (fun _ _ _ a b => SR.trans a b) (fun _ _ _ a b => MV.sr a b) h1 h2

theorem strikeHit_parts (seen : List Int) (hna : Int) (t : Tx) (pos : Nat) (c : SChunk) (now : Int)
    (hp : t.sentQ[pos]? = some c) (hs : c.tsn ∉ seen) (hg : uint32_gt c.tsn hna = false) :
    Parts (SR seen hna) t (strikeHit t pos c now) := by
  -- misses := 0
  generalize ht1 : ({ t with sentQ := t.sentQ.modify pos fun d => { d with misses := 0 } } : Tx) = t1
  have h1 : Parts (SR seen hna) t t1 := by
    refine Parts.of_sent ?_ (by rw [← ht1])
    rw [← ht1]
    exact PW.modify_at (SR.refl seen hna) _ _ pos c hp
      ⟨⟨rfl, rfl, rfl, rfl⟩, id, fun a b => (by simp only at b; rw [a] at b; cases b),
        fun a b => (by simp only at b; rw [a] at b; cases b)⟩
  -- `_maybe_abandon`
  have h2 : Parts (SR seen hna) t1 (t1.maybeAbandon pos now).2 :=
    (maybeAbandon_parts t1 pos now).mono (fun _ _ h => SR.of_abRel h)
  -- the mark
  have hc1 : t1.sentQ[pos]? = some { c with misses := 0 } := by
    rw [← ht1]; simp only
    rw [List.getElem?_modify_eq, hp]; rfl
  have h3 : Parts (SR seen hna) (t1.maybeAbandon pos now).2 (strikeHit t pos c now) := by
    have hs3 : (strikeHit t pos c now).sentQ
        = (t1.maybeAbandon pos now).2.sentQ.modify pos (hitMark (t1.maybeAbandon pos now).1) := by
      unfold strikeHit hitBody; rw [ht1]
    have ho3 : (strikeHit t pos c now).outQ = (t1.maybeAbandon pos now).2.outQ := by
      unfold strikeHit hitBody; rw [ht1]
    refine Parts.of_sent ?_ ho3
    rw [hs3]
    cases hd : (t1.maybeAbandon pos now).2.sentQ[pos]? with
    | none => rw [modify_none _ _ _ hd]; exact PW.refl (SR.refl seen hna) _
    | some d =>
      obtain ⟨front, moved, m, e1, _, e3, _⟩ := maybeAbandon_parts t1 pos now
      have hlt : pos < front.length := by
        rw [← PW.length e3]
        rcases Nat.lt_or_ge pos t1.sentQ.length with h | h
        · exact h
        · have := List.getElem?_eq_none h; rw [hc1] at this; cases this
      have hdf : front[pos]? = some d := by
        rw [e1, List.getElem?_append_left hlt] at hd; exact hd
      obtain ⟨c0, hc0, hr⟩ := PW.getElem? e3 pos d hdf
      rw [hc1] at hc0
      have hc0' : c0 = { c with misses := 0 } := by cases hc0; rfl
      have htsn : d.tsn = c.tsn := by rw [hr.sameT.1, hc0']
      refine PW.modify_at (SR.refl seen hna) _ _ pos d hd ?_
      refine ⟨?_, ?_, ?_, ?_⟩
      · unfold hitMark; split <;> exact ⟨rfl, rfl, rfl, rfl⟩
      · intro ha; unfold hitMark; split <;> exact ha
      · intro _ hb; unfold hitMark at hb; split at hb <;> cases hb
      · intro _ _; rw [htsn]; exact ⟨hs, hg⟩
  exact (h1.sr_trans h2).sr_trans h3

theorem strikeLoop_parts (seen : List Int) (hna now : Int) : ∀ (fuel pos : Nat) (t : Tx) (loss : Bool),
    Parts (SR seen hna) t (strikeLoop seen hna now fuel pos t loss).1 := by
  intro fuel
  induction fuel with
  | zero => intro pos t loss; exact Parts.refl (SR.refl seen hna) t
  | succ fuel ih =>
    intro pos t loss
    rw [strikeLoop_succ]
    cases hp : t.sentQ[pos]? with
    | none => exact Parts.refl (SR.refl seen hna) t
    | some c =>
      simp only
      split
      · exact Parts.refl (SR.refl seen hna) t
      · rename_i hgt
        have hg : uint32_gt c.tsn hna = false := by simpa using hgt
        split
        · rename_i hns
          have hs : c.tsn ∉ seen := by simpa using hns
          split
          · exact (strikeHit_parts seen hna t pos c now hp hs hg).sr_trans (ih (pos + 1) _ true)
          · have h1 : Parts (SR seen hna) t
                { t with sentQ := t.sentQ.modify pos fun d => { d with misses := c.misses + 1 } } :=
              Parts.of_sent (PW.modify_at (SR.refl seen hna) _ _ pos c hp
                ⟨⟨rfl, rfl, rfl, rfl⟩, id, fun a b => (by simp only at b; rw [a] at b; cases b),
                  fun a b => (by simp only at b; rw [a] at b; cases b)⟩) rfl
            exact h1.sr_trans (ih (pos + 1) _ loss)
        · exact ih (pos + 1) t loss

/-! ## the T3 marking loop -/

theorem MV.sameT {c d e : SChunk} (h1 : MV c d) (h2 : SameT d e ∧ (d.abandoned = true → e.abandoned = true)) : MV c e :=
  ⟨h1.1.trans h2.1, h2.2 h1.2⟩

/-- identity kept, `abandoned` only grows -/
def TR (c d : SChunk) : Prop := SameT c d ∧ (c.abandoned = true → d.abandoned = true)

theorem TR.refl (c : SChunk) : TR c c := ⟨SameT.refl c, id⟩
theorem TR.trans {c d e : SChunk} (h1 : TR c d) (h2 : TR d e) : TR c e := ⟨h1.1.trans h2.1, fun h => h2.2 (h1.2 h)⟩

theorem Parts.tr_trans {t t' t'' : Tx} (h1 : Parts TR t t') (h2 : Parts TR t' t'') : Parts TR t t'' :=
  Parts.trans (R := TR) (fun _ _ _ a b => TR.trans a b) (fun _ _ _ a b => MV.sameT a b) h1 h2

theorem hitBody_parts (t : Tx) (pos : Nat) (now : Int) : Parts TR t (hitBody t pos now) := by
  have h1 : Parts TR t (t.maybeAbandon pos now).2 :=
    (maybeAbandon_parts t pos now).mono (fun _ _ h => ⟨h.sameT, by rcases h with rfl | rfl <;> simp [abMark]⟩)
  have h2 : Parts TR (t.maybeAbandon pos now).2 (hitBody t pos now) := by
    refine Parts.of_sent ?_ rfl
    simp only [hitBody]
    refine PW.modify (R := TR) TR.refl _ ?_ _ _
    intro c
    unfold hitMark
    split <;> exact ⟨⟨rfl, rfl, rfl, rfl⟩, id⟩
  exact h1.tr_trans h2

theorem t3Mark_parts (now : Int) : ∀ (fuel pos : Nat) (t : Tx), Parts TR t (t3Mark now fuel pos t) := by
  intro fuel
  induction fuel with
  | zero => intro pos t; exact Parts.refl TR.refl t
  | succ fuel ih =>
    intro pos t
    rw [t3Mark_succ]
    exact (hitBody_parts t pos now).tr_trans (ih (pos + 1) _)

end Aiortc.Sctp
