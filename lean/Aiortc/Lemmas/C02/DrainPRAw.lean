import Aiortc.Lemmas.C02.DrainPRWf2
/-!
# `AW` and the identity of the queued chunks through the sender operations (C02 drain)
-/
namespace Aiortc.Sctp
open Aiortc.Gen

/-! ## `_send` -/

theorem AdjChain.append : ∀ (a b : List SChunk), AdjChain a → AdjChain b →
    (∀ x y, a.getLast? = some x → b.head? = some y → Adj x y) → AdjChain (a ++ b)
  | [], _, _, hb, _ => hb
  | [c], [], _, _, _ => trivial
  | [c], d :: ds, _, hb, h => ⟨h c d rfl rfl, hb⟩
  | c :: c2 :: cs, b, ha, hb, h => by
    refine ⟨ha.1, AdjChain.append (c2 :: cs) b ha.2 hb ?_⟩
    intro x y hx hy
    exact h x y (by rw [List.getLast?_cons_cons]; exact hx) hy

theorem adjChain_of_lim : ∀ (l : List SChunk) (e m : Option Int),
    (∀ c ∈ l, c.maxRetransmits = m ∧ c.expiry = e) → AdjChain l
  | [], _, _, _ => trivial
  | [_], _, _, _ => trivial
  | c :: d :: rest, e, m, h => by
    refine ⟨fun _ => ?_, adjChain_of_lim (d :: rest) e m (fun x hx => h x (by simp [hx]))⟩
    have hc := h c (by simp); have hd := h d (by simp)
    exact ⟨by rw [hd.1, hc.1], by rw [hd.2, hc.2]⟩

theorem flag_first (ordered : Bool) (x : Nat) (hx : x = 0 ∨ x = SCTP_DATA_LAST_FRAG) :
    flagB ((if ordered then 0 else SCTP_DATA_UNORDERED) + SCTP_DATA_FIRST_FRAG + x) = true := by
  cases ordered <;> rcases hx with rfl | rfl <;> decide

theorem fragments_lim (tsn : Int) (sid : Nat) (ssn : Int) (ppid : Nat) (o : Bool) (e m : Option Int) (n : Nat)
    (data : Bytes) : ∀ k, ∀ c ∈ fragments tsn sid ssn ppid o e m n data k, c.maxRetransmits = m ∧ c.expiry = e
  | 0, c, hc => by simp [fragments] at hc
  | k + 1, c, hc => by
    simp only [fragments, List.mem_cons] at hc
    rcases hc with rfl | hc
    · exact ⟨rfl, rfl⟩
    · exact fragments_lim tsn sid ssn ppid o e m n data k c hc

theorem fragments_last (tsn : Int) (sid : Nat) (ssn : Int) (ppid : Nat) (o : Bool) (e m : Option Int) (n : Nat)
    (data : Bytes) : ∀ k, k ≤ n → ∀ c, (fragments tsn sid ssn ppid o e m n data k).getLast? = some c → flagE c.flags = true
  | 0, _, c, hc => by simp [fragments] at hc
  | 1, hk, c, hc => by
    simp only [fragments, List.getLast?_singleton, Option.some.injEq] at hc
    subst hc
    simp only
    have : n - 1 = n - 1 := rfl
    simp only [this, if_true]
    cases o <;> split <;> decide
  | k + 2, hk, c, hc => by
    have : fragments tsn sid ssn ppid o e m n data (k + 2)
        = _ :: fragments tsn sid ssn ppid o e m n data (k + 1) := rfl
    rw [this] at hc
    have hne : fragments tsn sid ssn ppid o e m n data (k + 1) ≠ [] := by simp [fragments]
    rw [List.getLast?_cons_of_ne_nil hne] at hc
    exact fragments_last tsn sid ssn ppid o e m n data (k + 1) (by omega) c hc

theorem fragments_first (tsn : Int) (sid : Nat) (ssn : Int) (ppid : Nat) (o : Bool) (e m : Option Int) (n : Nat)
    (data : Bytes) (c : SChunk) (hc : (fragments tsn sid ssn ppid o e m n data n).head? = some c) : flagB c.flags = true := by
  cases n with
  | zero => simp [fragments] at hc
  | succ k =>
    simp only [fragments, List.head?_cons, Option.some.injEq] at hc
    subst hc
    simp only [Nat.sub_self, ↓reduceIte]
    split
    · exact flag_first o SCTP_DATA_LAST_FRAG (Or.inr rfl)
    · exact flag_first o 0 (Or.inl rfl)

theorem Wf.enqueue {t : Tx} (h : Wf (t.sentQ ++ t.outQ)) (sid ppid : Nat) (data : Bytes) (e m : Option Int) (o : Bool) :
    Wf ((t.enqueue sid ppid data e m o).sentQ ++ (t.enqueue sid ppid data e m o).outQ) := by
  simp only [Tx.enqueue]
  rw [← List.append_assoc]
  generalize hfr : fragments t.localTsn sid (if o then (dictGet t.streamSeq sid).getD 0 else 0) ppid o e m
    (fragCount data.length) data (fragCount data.length) = fr
  have hlim : ∀ c ∈ fr, c.maxRetransmits = m ∧ c.expiry = e := by rw [← hfr]; exact fragments_lim _ _ _ _ _ _ _ _ _ _
  cases hfr0 : fr with
  | nil => simpa using h
  | cons x xs =>
    refine ⟨AdjChain.append _ _ h.1 (adjChain_of_lim _ e m (by rw [← hfr0]; exact hlim)) ?_, ?_⟩
    · intro a y ha hy
      have hE := h.2 a ha
      have hB : flagB y.flags = true := by
        rw [← hfr0, ← hfr] at hy
        exact fragments_first _ _ _ _ _ _ _ _ _ _ hy
      intro hp
      rcases hp with hp | hp
      · rw [hE] at hp; cases hp
      · rw [hB] at hp; cases hp
    · intro c hc
      rw [List.getLast?_append] at hc
      cases hl : (x :: xs).getLast? with
      | none => simp at hl
      | some y =>
        rw [hl] at hc
        simp only [Option.some_or, Option.some.injEq] at hc
        subst hc
        rw [← hfr0, ← hfr] at hl
        exact fragments_last _ _ _ _ _ _ _ _ _ _ (Nat.le_refl _) _ hl

theorem AW.enqueue {t : Tx} (h : AW t) (sid ppid : Nat) (data : Bytes) (e m : Option Int) (o : Bool) :
    AW (t.enqueue sid ppid data e m o) := ⟨h.abu, h.wf.enqueue sid ppid data e m o⟩

/-! ## `_transmit` -/

theorem RtxPW.sameT : ∀ {l l' : List SChunk} {es : List RChunk}, RtxPW l l' es →
    PW (fun c d => SameT c d ∧ d.abandoned = c.abandoned) l l'
  | _, _, _, .nil => trivial
  | _, _, _, .keep c h => ⟨⟨SameT.refl c, rfl⟩, RtxPW.sameT h⟩
  | _, _, _, .send c _ h => ⟨⟨⟨rfl, rfl, rfl, rfl⟩, rfl⟩, RtxPW.sameT h⟩

/-- `_transmit` keeps the identity of the queued chunks and `AW` -/
theorem transmit_sameT (t : Tx) (ho : ∀ c ∈ t.outQ, Idle c) (h : AW t) :
    PW SameT (t.sentQ ++ t.outQ) (t.transmit.1.sentQ ++ t.transmit.1.outQ) ∧ AW t.transmit.1 := by
  rw [(transmit_events t).2.2]
  obtain ⟨q1, q2, q3⟩ := fwd_same_queues t
  have hf : t.fwd.1.forwardTsn = none := by rw [(fwd_fields t).1]
  obtain ⟨mid, es, k, h1, h2, h3, _⟩ := (transmit_shape t.fwd.1 hf).shape
  rw [q2] at h1
  rw [q3] at h2 h3
  have hpw := RtxPW.sameT h1
  have hpwT : PW SameT (t.sentQ ++ t.outQ) (t.fwd.1.transmit.1.sentQ ++ t.fwd.1.transmit.1.outQ) := by
    rw [h2, h3, List.append_assoc]
    refine PW.append (PW.mono (fun _ _ x => x.1) hpw) ?_
    have hn : PW SameT (t.outQ.take k) ((t.outQ.take k).map newChunk) := by
      generalize t.outQ.take k = l
      induction l with
      | nil => trivial
      | cons c cs ih => exact ⟨⟨rfl, rfl, rfl, rfl⟩, ih⟩
    have := PW.append hn (PW.refl SameT.refl (t.outQ.drop k))
    rwa [List.take_append_drop] at this
  refine ⟨hpwT, ?_, Wf.pwT hpwT h.wf⟩
  intro d hd hab
  rw [h2] at hd
  rcases List.mem_append.mp hd with hd | hd
  · obtain ⟨i, hi⟩ := List.getElem?_of_mem hd
    obtain ⟨c, hc, hr⟩ := PW.getElem? hpw i d hi
    rw [hr.2] at hab
    exact hr.1.lim.unrel (h.abu c (List.mem_of_getElem? hc) hab)
  · simp only [List.mem_map] at hd
    obtain ⟨c, hc, rfl⟩ := hd
    have := (ho c (List.mem_of_mem_take hc)).2.2
    simp only [newChunk] at hab
    rw [this] at hab; cases hab

/-! ## `_receive_sack_chunk`, `_t3_expired` -/

theorem htnaList_keeps (seen : List Int) (hs : Int) : ∀ l : List SChunk,
    PW (fun c d => SameT c d ∧ d.abandoned = c.abandoned) l (htnaList seen hs l)
  | [] => trivial
  | c :: cs => by
    unfold htnaList; split
    · exact PW.refl (fun c => ⟨SameT.refl c, rfl⟩) _
    · refine ⟨?_, htnaList_keeps seen hs cs⟩
      unfold htnaChunk; split <;> exact ⟨⟨rfl, rfl, rfl, rfl⟩, rfl⟩

theorem AW.of_keeps {t t' : Tx} (h : AW t) (hpw : PW (fun c d => SameT c d ∧ d.abandoned = c.abandoned) t.sentQ t'.sentQ)
    (ho : t'.outQ = t.outQ) : AW t' := by
  refine ⟨?_, ?_⟩
  · intro d hd hab
    obtain ⟨i, hi⟩ := List.getElem?_of_mem hd
    obtain ⟨c, hc, hr⟩ := PW.getElem? hpw i d hi
    rw [hr.2] at hab
    exact hr.1.lim.unrel (h.abu c (List.mem_of_getElem? hc) hab)
  · rw [ho]
    exact Wf.pwT (PW.append (PW.mono (fun _ _ x => x.1) hpw) (PW.refl SameT.refl _)) h.wf

theorem AW.dropSent {t t' : Tx} (h : AW t) (k : Nat) (hk : k ≤ t.sentQ.length) (hs : t'.sentQ = t.sentQ.drop k)
    (ho : t'.outQ = t.outQ) : AW t' := by
  refine ⟨fun d hd => h.abu d (by rw [hs] at hd; exact List.mem_of_mem_drop hd), ?_⟩
  rw [hs, ho, ← List.drop_append_of_le_length hk]
  exact h.wf.drop k

theorem pw_drop {α} {R : α → α → Prop} : ∀ (k : Nat) {A B : List α}, PW R A B → PW R (A.drop k) (B.drop k)
  | 0, _, _, h => by simpa using h
  | _ + 1, [], [], _ => by simp; trivial
  | k + 1, _ :: xs, _ :: ys, h => by simpa using pw_drop k (A := xs) (B := ys) h.2
  | _ + 1, [], _ :: _, h => h.elim
  | _ + 1, _ :: _, [], h => h.elim

/-- one SACK: `AW` is kept; the new queue is the old one minus the `f' - f` chunks that left it, each of which was
cumulatively acknowledged (the first `max κ f - f`) or abandoned, hence partially reliable -/
theorem sack_queue {b : Int} {κ0 f f' : Nat} {t t' : Tx} (h : TxSeqP b κ0 f t) (haw : AW t) (κ : Nat) (h1 : κ0 ≤ κ)
    (h2 : κ ≤ f + t.sentQ.length) (gaps : List (Nat × Nat)) (now : Int) (hs : SackShapeP t t' (T b κ) gaps now)
    (hidx : SackIdx b κ f t t' gaps f') :
    AW t' ∧ PW SameT ((t.sentQ ++ t.outQ).drop (f' - f)) (t'.sentQ ++ t'.outQ)
    ∧ ∀ i c, (t.sentQ ++ t.outQ)[i]? = some c → max κ f - f ≤ i → i < f' - f → c.Unrel := by
  have hb := h.bound
  obtain ⟨s1, s2⟩ := Seq.append.mp h.seq
  have hq : t.ackedQ (T b κ) = t.sentQ.drop (κ - f) := ackLoop_seqP b κ t.sentQ f _ _ _ s1 h2 (by omega)
  obtain ⟨t4, tH, e1, e2, e3, e4, e5, e6, eHo, ecase⟩ := hs.ex
  rw [hq] at ecase
  -- the state after the cumulative-ack loop
  have hawA : AW { t with sentQ := t.sentQ.drop (κ - f) } :=
    haw.dropSent (t' := { t with sentQ := t.sentQ.drop (κ - f) }) (κ - f) (by omega) rfl rfl
  -- the state after the gap phase
  have h4 : AW t4 ∧ PW SameT (t.sentQ.drop (κ - f) ++ t.outQ) (t4.sentQ ++ t4.outQ) ∧ (t.sentQ.drop (κ - f)).length ≤ t4.sentQ.length := by
    rcases ecase with ⟨_, g2, g3⟩ | ⟨_, g2, g3, g4⟩
    · refine ⟨⟨by rw [g2]; exact hawA.abu, by rw [g2, g3]; exact hawA.wf⟩, by rw [g2, g3]; exact PW.refl SameT.refl _, by rw [g2]; exact Nat.le_refl _⟩
    · have hawH : AW tH := hawA.of_keeps (t' := tH) (by rw [g2]; exact htnaList_keeps _ _ _) eHo
      have hawS := strikeLoop_aw (seenOf (T b κ) gaps (t.sentQ.drop (κ - f))) (hnaOf (T b κ) gaps (t.sentQ.drop (κ - f))) now
        tH.sentQ.length 0 tH false hawH
      obtain ⟨c1, c2, _⟩ := (strikeLoop_parts (seenOf (T b κ) gaps (t.sentQ.drop (κ - f)))
        (hnaOf (T b κ) gaps (t.sentQ.drop (κ - f))) now tH.sentQ.length 0 tH false).concat (fun _ _ x => x.1)
      rw [← g3, ← g4] at c1
      rw [← g3] at c2
      refine ⟨⟨by rw [g3]; exact hawS.abu, by rw [g3, g4]; exact hawS.wf⟩, ?_, ?_⟩
      · have hH : PW SameT (t.sentQ.drop (κ - f) ++ t.outQ) (tH.sentQ ++ tH.outQ) := by
          rw [g2, eHo]
          exact PW.append (PW.mono (fun _ _ x => x.1) (htnaList_keeps _ _ _)) (PW.refl SameT.refl _)
        exact PW.trans (R := SameT) (S := SameT) (T := SameT) (fun _ _ _ a b => SameT.trans a b) hH c1
      · have : tH.sentQ.length = (t.sentQ.drop (κ - f)).length := by
          rw [g2]; exact (PW.length (htnaList_keeps _ _ _)).symm
        omega
  obtain ⟨haw4, hpw4, hlen4⟩ := h4
  -- the ack-point update
  have hseq4 : Seq b (max κ f) t4.sentQ := by
    have hF : max κ f = f + (κ - f) := by omega
    have : Seq b (max κ f) (t.sentQ.drop (κ - f) ++ t.outQ) := by
      rw [hF, ← List.drop_append_of_le_length (by omega)]
      exact Seq.drop (κ - f) h.seq (by simp; omega)
    exact (Seq.append.mp (Seq.pwT hpw4 this)).1
  obtain ⟨k2, u1, u2, u3, _, u5, _, _, _⟩ := updateAdvAck_idx b t4 κ f (by omega) (by omega) e2 (by rw [e3]; exact h.adv)
    hseq4 (fun hlt => by rw [e4]; exact h.needed.mpr (by omega))
  obtain ⟨w1, _, _, _, _⟩ := updateAdvAck_frame t4
  rw [← e1] at u2 u5 w1
  have hf' : f' = max κ f + k2 := by
    have hb' := hidx.seq.bound
    have := hidx.seq.adv
    rw [u5] at this
    have hl4 := PW.length hpw4
    simp only [List.length_append, List.length_drop] at hl4
    exact (T_inj (by omega) (by omega) this).symm
  have hawT : AW t' := haw4.dropSent k2 u1 u2 w1
  refine ⟨hawT, ?_, ?_⟩
  · rw [show f' - f = (κ - f) + k2 by omega, ← List.drop_drop, List.drop_append_of_le_length (by omega : κ - f ≤ t.sentQ.length)]
    have : t'.sentQ ++ t'.outQ = (t4.sentQ ++ t4.outQ).drop k2 := by
      rw [u2, w1, List.drop_append_of_le_length u1]
    rw [this]
    exact pw_drop k2 hpw4
  · intro i c hc hlo hhi
    -- the chunk is one of the abandoned chunks at the head of `t4.sentQ`
    have hi4 : i - (κ - f) < k2 := by omega
    have hcA : (t.sentQ.drop (κ - f) ++ t.outQ)[i - (κ - f)]? = some c := by
      rw [← List.drop_append_of_le_length (by omega : κ - f ≤ t.sentQ.length), List.getElem?_drop]
      rw [show κ - f + (i - (κ - f)) = i by omega]; exact hc
    obtain ⟨d, hd, hr⟩ := PW.getElem?' hpw4 _ c hcA
    have hd4 : t4.sentQ[i - (κ - f)]? = some d := by
      rw [List.getElem?_append_left (by omega)] at hd; exact hd
    have hdab : d.abandoned = true := u3 d (by
      rw [List.mem_iff_getElem?]; exact ⟨i - (κ - f), by rw [List.getElem?_take_of_lt hi4]; exact hd4⟩)
    exact hr.lim.symm.unrel (haw4.abu d (List.mem_of_getElem? hd4) hdab)

/-- one T3 expiry: as `sack_queue`, nothing is cumulatively acknowledged -/
theorem t3_queue {b : Int} {κ f f' : Nat} {t : Tx} (h : TxSeqP b κ f t) (haw : AW t) (hw : WInv t) (now : Int)
    (hidx : T3Idx b κ f t (t.t3Expired now) f') :
    AW (t.t3Expired now) ∧ PW SameT ((t.sentQ ++ t.outQ).drop (f' - f)) ((t.t3Expired now).sentQ ++ (t.t3Expired now).outQ)
    ∧ ∀ i c, (t.sentQ ++ t.outQ)[i]? = some c → i < f' - f → c.Unrel := by
  have hb := h.bound
  have hle := h.le
  have hm := (t3Marked_spec t now hw).frame
  have hp : Parts TR t (t.t3Marked now) := t3Mark_parts now t.sentQ.length 0 { t with t3 := false }
  have hawM : AW (t.t3Marked now) := t3Mark_aw now t.sentQ.length 0 { t with t3 := false } ⟨haw.abu, haw.wf⟩
  generalize htM : t.t3Marked now = tM at hm hp hawM
  have e2 : tM.lastSacked = t.lastSacked := by rw [hm]
  have e3 : tM.advAck = t.advAck := by rw [hm]
  have e4 : tM.forwardNeeded = t.forwardNeeded := by rw [hm]
  have q1 : (t.t3Expired now).sentQ = tM.updateAdvAck.sentQ := by rw [t3Expired_eq, htM]
  have q2 : (t.t3Expired now).outQ = tM.updateAdvAck.outQ := by rw [t3Expired_eq, htM]
  have q3 : (t.t3Expired now).advAck = tM.updateAdvAck.advAck := by rw [t3Expired_eq, htM]
  generalize t.t3Expired now = t' at hidx q1 q2 q3 ⊢
  obtain ⟨hpwM, hl1, hl2⟩ := hp.concat (fun _ _ (x : TR _ _) => x.1)
  have hseqM : Seq b f (tM.sentQ ++ tM.outQ) := Seq.pwT hpwM h.seq
  have hmax : max κ f = f := by omega
  obtain ⟨k2, u1, u2, u3, _, u5, _, _, _⟩ := updateAdvAck_idx b tM κ f (by omega) (by omega) (by rw [e2]; exact h.ls)
    (by rw [e3]; exact h.adv) (by rw [hmax]; exact (Seq.append.mp hseqM).1) (fun hlt => by rw [e4]; exact h.needed.mpr hlt)
  obtain ⟨w1, _, _, _, _⟩ := updateAdvAck_frame tM
  rw [hmax] at u5
  rw [← q1] at u2
  rw [← q3] at u5
  rw [← q2] at w1
  have hf' : f' = f + k2 := by
    have hb' := hidx.seq.bound
    have := hidx.seq.adv
    rw [u5] at this
    exact (T_inj (by omega) (by omega) this).symm
  have hawT : AW t' := hawM.dropSent k2 u1 u2 w1
  refine ⟨hawT, ?_, ?_⟩
  · rw [show f' - f = k2 by omega]
    have : t'.sentQ ++ t'.outQ = (tM.sentQ ++ tM.outQ).drop k2 := by
      rw [u2, w1, List.drop_append_of_le_length u1]
    rw [this]
    exact pw_drop k2 hpwM
  · intro i c hc hhi
    obtain ⟨d, hd, hr⟩ := PW.getElem?' hpwM i c hc
    have hdM : tM.sentQ[i]? = some d := by
      rw [List.getElem?_append_left (by omega)] at hd; exact hd
    have hdab : d.abandoned = true := u3 d (by
      rw [List.mem_iff_getElem?]; exact ⟨i, by rw [List.getElem?_take_of_lt (by omega)]; exact hdM⟩)
    exact hr.lim.symm.unrel (hawM.abu d (List.mem_of_getElem? hdM) hdab)

end Aiortc.Sctp
