import Aiortc.Lemmas.C02.DrainPRReach
/-!
# Both directions of one association (C02 drain)

The model's endpoints put every chunk into a datagram of its own (`Endpoint.sendChunk`: one `packetFor` per chunk; a SACK is
never bundled with DATA), and in this abstraction the sender half of an endpoint (`Tx`) and its receiver half (`Rx`) share no
state.  So an association is the product of two links: `ab` (A's `Tx`, B's `Rx`; the datagrams A → B are `ab.toRx` and
`ba.toTx`) and `ba`.  The adversary acts on either; the canonical continuation steps both.
-/
namespace Aiortc.Sctp
open Aiortc.Gen

theorem PLink.step_drained {s : PLink} (h : s.Drained) : s.step = s := by
  unfold PLink.step
  simp [h.pending, h.toRx, h.toTx, h.t3]

theorem PLink.run_drained {s : PLink} (h : s.Drained) : ∀ n, PLink.run n s = s
  | 0 => rfl
  | n + 1 => by simp only [PLink.run]; rw [PLink.step_drained h]; exact PLink.run_drained h n

/-- a move on the association: on the link A → B (`true`) or on the link B → A (`false`) -/
def fault2 (s : PLink × PLink) (m : Bool × Fault) : PLink × PLink :=
  if m.1 then (s.1.fault m.2, s.2) else (s.1, s.2.fault m.2)

/-- one step of the canonical continuation of the association: both links step -/
def step2 (s : PLink × PLink) : PLink × PLink := (s.1.step, s.2.step)

def run2 : Nat → PLink × PLink → PLink × PLink
  | 0, s => s
  | n + 1, s => run2 n (step2 s)

theorem run2_eq : ∀ (n : Nat) (s : PLink × PLink), run2 n s = (PLink.run n s.1, PLink.run n s.2)
  | 0, _ => rfl
  | n + 1, s => by simp only [run2, PLink.run]; rw [run2_eq n (step2 s)]; rfl

/-- the moves on one of the two links -/
def movesOf (d : Bool) (fs : List (Bool × Fault)) : List Fault := (fs.filter (fun m => m.1 == d)).map (·.2)

theorem foldl_fault2 : ∀ (fs : List (Bool × Fault)) (s : PLink × PLink),
    fs.foldl fault2 s = ((movesOf true fs).foldl PLink.fault s.1, (movesOf false fs).foldl PLink.fault s.2)
  | [], _ => rfl
  | (d, f) :: fs, s => by
    simp only [List.foldl_cons]
    rw [foldl_fault2 fs (fault2 s (d, f))]
    cases d <;> simp [fault2, movesOf]

/-- **both directions drain**: each link within its own bound, hence both within the larger one -/
theorem drains_both {b1 b2 : Int} {κ1 f1 r1 κ2 f2 r2 : Nat} {s : PLink × PLink} (h1 : CohP b1 κ1 f1 r1 s.1)
    (h2 : CohP b2 κ2 f2 r2 s.2) :
    ∃ j, j ≤ max s.1.drainBound s.2.drainBound ∧ (run2 j s).1.Drained ∧ (run2 j s).2.Drained
      ∧ (run2 j s).1.rx.last = T b1 (f1 + s.1.tx.nOut) ∧ (run2 j s).1.tx.lastSacked = T b1 (f1 + s.1.tx.nOut)
      ∧ (run2 j s).1.tx.advAck = T b1 (f1 + s.1.tx.nOut)
      ∧ (run2 j s).2.rx.last = T b2 (f2 + s.2.tx.nOut) ∧ (run2 j s).2.tx.lastSacked = T b2 (f2 + s.2.tx.nOut)
      ∧ (run2 j s).2.tx.advAck = T b2 (f2 + s.2.tx.nOut) := by
  obtain ⟨j1, hj1, hd1, a1, a2, a3, _⟩ := h1.drains
  obtain ⟨j2, hj2, hd2, c1, c2, c3, _⟩ := h2.drains
  have e1 : PLink.run (max j1 j2) s.1 = PLink.run j1 s.1 := by
    rw [show max j1 j2 = j1 + (max j1 j2 - j1) by omega, PLink.run_add, PLink.run_drained hd1]
  have e2 : PLink.run (max j1 j2) s.2 = PLink.run j2 s.2 := by
    rw [show max j1 j2 = j2 + (max j1 j2 - j2) by omega, PLink.run_add, PLink.run_drained hd2]
  refine ⟨max j1 j2, by omega, ?_⟩
  rw [run2_eq]
  simp only [e1, e2]
  exact ⟨hd1, hd2, a3, a1, a2, c3, c1, c2⟩

end Aiortc.Sctp
