import Aiortc.Lemmas.C02.DrainPRRx
/-!
# The two-sided system with partially reliable traffic, and its coherence invariant (C02 drain)

`PLink`: sender `Tx`, receiver `Rx`, DATA and FORWARD TSN chunks in flight (`toRx : List Arrival`), SACKs in flight, the
pending `_transmit` task, the clock (which expires lifetimes), and the list `got` of the TSNs that reached the receiver
as DATA.  `PLink.fault`: the adversary (any message parameters).  `CohP b κ f r s`: `lastSacked = T b κ`, advanced peer ack
point `T b f` (`κ ≤ f`, FORWARD TSN needed iff `κ < f`), `sentQ ++ outQ` carry `T b (f+1) …`, receiver's cumulative TSN `T b r`
with `κ ≤ r ≤ f + |sentQ|`, every DATA chunk in flight was transmitted, every FORWARD TSN in flight is at most `T b f`, every
SACK in flight at most `T b r`; and a FORWARD TSN that is needed is scheduled or covered by T3.
-/
namespace Aiortc.Sctp
open Aiortc.Gen

structure PLink where
  tx : Tx
  rx : Rx
  toRx : List Arrival := []
  toTx : List (Int × List (Nat × Nat)) := []
  pending : Bool := false
  now1000 : Int := 0
  /-- TSNs of the DATA chunks that reached the receiver (ghost) -/
  got : List Int := []

/-- what a `_transmit` puts on the wire, in order: the FORWARD TSN (always first), then the DATA chunks -/
def arrOf (evs : List TxEv) : List Arrival :=
  (fwdOf evs).map (fun p => Arrival.fwd p.1 p.2) ++ (dataOf evs).map Arrival.data

def PLink.runTask (s : PLink) : PLink :=
  { s with tx := s.tx.transmit.1, toRx := s.toRx ++ arrOf s.tx.transmit.2, pending := false }

/-- the receiver handles one chunk (`_receive_data_chunk` / `_receive_forward_tsn_chunk`, cumulative-TSN part) -/
def rxArr (rx : Rx) : Arrival → Rx
  | .data d => (markReceived rx (d.tsn % 4294967296)).2
  | .fwd cum _ => rxFwdTsn rx (cum % 4294967296)

def gotArr (got : List Int) : Arrival → List Int
  | .data d => got ++ [d.tsn % 4294967296]
  | .fwd _ _ => got

/-- … and answers with a SACK (`_sack_needed` is set by both handlers) -/
def PLink.deliver (s : PLink) (a : Arrival) (rest : List Arrival) : PLink :=
  { s with rx := { rxArr s.rx a with dups := [] }, toRx := rest, got := gotArr s.got a,
           toTx := s.toTx ++ [((rxArr s.rx a).last, sackGapBlocks (rxArr s.rx a))] }

def PLink.deliverSack (s : PLink) (cum : Int) (gaps : List (Nat × Nat)) (rest : List (Int × List (Nat × Nat))) : PLink :=
  match s.tx.receiveSack cum gaps s.now1000 with
  | .ok (some (t', _)) => { s with tx := t'.transmit.1, toRx := s.toRx ++ arrOf t'.transmit.2, toTx := rest }
  | _ => { s with toTx := rest }

def PLink.fireT3 (s : PLink) : PLink := { s with tx := s.tx.t3Expired s.now1000, pending := true }

/-- one step of the canonical fault-free continuation -/
def PLink.step (s : PLink) : PLink :=
  if s.pending then s.runTask
  else match s.toRx with
    | a :: rest => s.deliver a rest
    | [] => match s.toTx with
      | (cum, gaps) :: rest => s.deliverSack cum gaps rest
      | [] => if s.tx.t3 then s.fireT3 else s

def PLink.run : Nat → PLink → PLink
  | 0, s => s
  | n + 1, s => PLink.run n s.step

theorem PLink.run_add (m n : Nat) (s : PLink) : PLink.run (m + n) s = PLink.run n (PLink.run m s) := by
  induction m generalizing s with
  | zero => simp [PLink.run]
  | succ m ih => rw [Nat.succ_add]; exact ih s.step

def PLink.sendMsg (s : PLink) (m : SendArgs) : PLink :=
  { s with tx := (s.tx.enqueue m.sid m.ppid m.data m.expiry m.maxRtx m.ordered).transmit.1
           toRx := s.toRx ++ arrOf (s.tx.enqueue m.sid m.ppid m.data m.expiry m.maxRtx m.ordered).transmit.2 }

def PLink.fault (s : PLink) : Fault → PLink
  | .send m => s.sendMsg m
  | .task => s.runTask
  | .fireT3 => s.fireT3
  | .deliverData i => match s.toRx[i]? with
    | some a => s.deliver a (s.toRx.eraseIdx i)
    | none => s
  | .deliverSack i => match s.toTx[i]? with
    | some p => s.deliverSack p.1 p.2 (s.toTx.eraseIdx i)
    | none => s
  | .dropData i => { s with toRx := s.toRx.eraseIdx i }
  | .dropSack i => { s with toTx := s.toTx.eraseIdx i }
  | .dupData i => match s.toRx[i]? with
    | some a => { s with toRx := s.toRx ++ [a] }
    | none => s
  | .dupSack i => match s.toTx[i]? with
    | some p => { s with toTx := s.toTx ++ [p] }
    | none => s
  | .tick now => { s with now1000 := now }

/-! ## the invariant -/

/-- a chunk in flight towards the receiver is in range -/
def ArrOk (b : Int) (f hi : Nat) : Arrival → Prop
  | .data d => ∃ k, k ≤ hi ∧ d.tsn = T b k
  | .fwd c _ => ∃ k, k ≤ f ∧ c = T b k

theorem ArrOk.mono {b : Int} {f hi f' hi' : Nat} (h1 : f ≤ f') (h2 : hi ≤ hi') : ∀ {a : Arrival}, ArrOk b f hi a → ArrOk b f' hi' a
  | .data _, ⟨k, k1, k2⟩ => ⟨k, by omega, k2⟩
  | .fwd _ _, ⟨k, k1, k2⟩ => ⟨k, by omega, k2⟩

structure CoreP (b : Int) (κ f r : Nat) (s : PLink) : Prop where
  seq : TxSeqP b κ f s.tx
  rxok : RxOk s.rx
  rlast : s.rx.last = T b r
  rlo : κ ≤ r
  rhi : r ≤ f + s.tx.sentQ.length
  mis : ∀ x ∈ s.rx.mis, ∃ k, r < k ∧ k ≤ f + s.tx.sentQ.length ∧ x = T b k
  toRx : ∀ a ∈ s.toRx, ArrOk b f (f + s.tx.sentQ.length) a
  toTx : ∀ p ∈ s.toTx, ∃ k, k ≤ r ∧ p.1 = T b k

/-- a FORWARD TSN that is needed is on its way out or covered by T3 -/
def NeedT3 (t : Tx) : Prop := t.forwardNeeded = true → t.t3 = true ∨ t.forwardTsn.isSome = true

structure CohP (b : Int) (κ f r : Nat) (s : PLink) : Prop where
  core : CoreP b κ f r s
  snd : SndInv { tx := s.tx, pending := s.pending }
  need : NeedT3 s.tx

theorem CoreP.grow {b : Int} {κ f r κ' f' : Nat} {s s' : PLink} (h : CoreP b κ f r s) (hseq : TxSeqP b κ' f' s'.tx)
    (hκ : κ' ≤ r) (hf : f ≤ f') (hhi : f + s.tx.sentQ.length ≤ f' + s'.tx.sentQ.length) (hrx : s'.rx = s.rx)
    (h1 : ∀ a ∈ s'.toRx, a ∈ s.toRx ∨ ArrOk b f' (f' + s'.tx.sentQ.length) a)
    (h2 : ∀ p ∈ s'.toTx, p ∈ s.toTx) : CoreP b κ' f' r s' := by
  refine ⟨hseq, by rw [hrx]; exact h.rxok, by rw [hrx]; exact h.rlast, hκ, by have := h.rhi; omega, ?_, ?_, ?_⟩
  · intro x hx
    rw [hrx] at hx
    obtain ⟨k, k1, k2, k3⟩ := h.mis x hx
    exact ⟨k, k1, by omega, k3⟩
  · intro a ha
    rcases h1 a ha with ha | ha
    · exact (h.toRx a ha).mono hf hhi
    · exact ha
  · intro p hp
    exact h.toTx p (h2 p hp)

/-- every DATA chunk `_transmit` emits carries the TSN of an outstanding chunk -/
theorem transmit_emitted_seq (b : Int) (f : Nat) (t0 : Tx) (hf : t0.forwardTsn = none) (hseq : Seq b f (t0.sentQ ++ t0.outQ)) :
    ∀ d ∈ dataOf t0.transmit.2, ∃ j, f < j ∧ j ≤ f + t0.transmit.1.sentQ.length ∧ d.tsn = T b j := by
  obtain ⟨mid, es, k, h1, h2, h3, h4⟩ := (transmit_shape t0 hf).shape
  have hlen := PW.length h1.sameId
  have hseq' : Seq b f t0.transmit.1.sentQ := (Seq.append.mp (Seq.pw (transmit_pw t0 hf).1 hseq)).1
  intro d hd
  rw [h4, List.mem_append] at hd
  rcases hd with hd | hd
  · obtain ⟨c, hc, he⟩ := h1.tsn d hd
    obtain ⟨j, j1, j2, j3⟩ := Seq.mem (Seq.append.mp hseq).1 hc
    exact ⟨j, j1, by rw [h2]; simp; omega, by rw [he, j3]⟩
  · simp only [List.mem_map] at hd
    obtain ⟨c, hc, rfl⟩ := hd
    have hmem : newChunk c ∈ t0.transmit.1.sentQ := by
      rw [h2]; exact List.mem_append.mpr (Or.inr (List.mem_map.mpr ⟨c, hc, rfl⟩))
    obtain ⟨j, j1, j2, j3⟩ := Seq.mem hseq' hmem
    exact ⟨j, j1, j2, j3⟩

/-- the pending FORWARD TSN as a chunk on the wire -/
def fwdArr : Option (Int × List (Nat × Int)) → List Arrival
  | some p => [Arrival.fwd p.1 p.2]
  | none => []

theorem arrOf_transmit (t : Tx) :
    arrOf t.transmit.2 = fwdArr t.forwardTsn ++ (dataOf t.fwd.1.transmit.2).map Arrival.data := by
  obtain ⟨e1, e2, _⟩ := transmit_events t
  unfold arrOf
  rw [e1, e2]
  cases t.forwardTsn <;> rfl

theorem transmit_arrOk {b : Int} {κ f : Nat} {t : Tx} (h : TxSeqP b κ f t) :
    ∀ a ∈ arrOf t.transmit.2, ArrOk b f (f + t.transmit.1.sentQ.length) a := by
  intro a ha
  rw [arrOf_transmit, List.mem_append] at ha
  rcases ha with ha | ha
  · cases hp : t.forwardTsn with
    | none => rw [hp] at ha; cases ha
    | some p =>
      rw [hp] at ha
      simp only [fwdArr, List.mem_singleton] at ha
      subst ha
      obtain ⟨c, c1, c2⟩ := h.fwdv p hp
      exact ⟨c, c1, c2⟩
  · simp only [List.mem_map] at ha
    obtain ⟨d, hd, rfl⟩ := ha
    have h0 := h.fwd
    obtain ⟨j, _, j2, j3⟩ := transmit_emitted_seq b f t.fwd.1 (by rw [(fwd_fields t).1]) h0.seq d hd
    rw [← (transmit_events t).2.2] at j2
    exact ⟨j, j2, j3⟩

theorem CoreP.transmit {b : Int} {κ f r : Nat} {s s' : PLink} (h : CoreP b κ f r s) (htx : s'.tx = s.tx.transmit.1)
    (hrx : s'.rx = s.rx) (h1 : ∀ a ∈ s'.toRx, a ∈ s.toRx ∨ a ∈ arrOf s.tx.transmit.2) (h2 : ∀ p ∈ s'.toTx, p ∈ s.toTx) :
    CoreP b κ f r s' := by
  have hl := (transmit_queues s.tx).1
  refine h.grow (by rw [htx]; exact h.seq.transmit) h.rlo (Nat.le_refl _) (by rw [htx]; omega) hrx ?_ h2
  intro a ha
  rcases h1 a ha with ha | ha
  · exact Or.inl ha
  · right; rw [htx]; exact transmit_arrOk h.seq a ha

theorem NeedT3.transmit {t : Tx} (h : NeedT3 t) : NeedT3 t.transmit.1 := by
  intro hn
  have tf := transmit_facts t
  have hnn : t.forwardNeeded = true := by
    have := congrArg Tx.forwardNeeded tf.frame
    have e : t.transmit.1.forwardNeeded = t.forwardNeeded := this
    rw [← e]; exact hn
  left
  exact tf.mono (tf.mono0 (h hnn))

theorem NeedT3.enqueue {t : Tx} (h : NeedT3 t) (sid ppid : Nat) (data : Bytes) (e m : Option Int) (o : Bool) :
    NeedT3 (t.enqueue sid ppid data e m o) := h

/-! ## the receiver side -/

theorem CoreP.deliver {b : Int} {κ f r : Nat} {s : PLink} (h : CoreP b κ f r s) (a : Arrival) (ha : a ∈ s.toRx) :
    ∃ r', r ≤ r' ∧ (rxArr s.rx a).last = T b r' ∧ r' ≤ f + s.tx.sentQ.length ∧ RxOk (rxArr s.rx a)
      ∧ (∀ x ∈ (rxArr s.rx a).mis, ∃ j, r' < j ∧ j ≤ f + s.tx.sentQ.length ∧ x = T b j)
      ∧ (∀ j, j < 2147483648 → RxHas s.rx (T b j) → RxHas (rxArr s.rx a) (T b j))
      ∧ (match a with
          | .data d => ∃ k, k ≤ f + s.tx.sentQ.length ∧ d.tsn = T b k ∧ (k = r + 1 → r < r')
          | .fwd c _ => ∃ k, k ≤ f ∧ c = T b k ∧ k ≤ r')
      ∧ ∀ s' : PLink, s'.tx = s.tx → s'.rx = { rxArr s.rx a with dups := [] } →
          (∀ e ∈ s'.toRx, e ∈ s.toRx) → (∀ p ∈ s'.toTx, p ∈ s.toTx ∨ p.1 = T b r') → CoreP b κ f r' s' := by
  have hb := h.seq.bound
  have hrhi := h.rhi
  have hok := h.toRx a ha
  have key : ∀ (rx' : Rx) (r' : Nat), r ≤ r' → rx'.last = T b r' → r' ≤ f + s.tx.sentQ.length → RxOk rx' →
      (∀ x ∈ rx'.mis, ∃ j, r' < j ∧ j ≤ f + s.tx.sentQ.length ∧ x = T b j) →
      ∀ s' : PLink, s'.tx = s.tx → s'.rx = { rx' with dups := [] } →
          (∀ e ∈ s'.toRx, e ∈ s.toRx) → (∀ p ∈ s'.toTx, p ∈ s.toTx ∨ p.1 = T b r') → CoreP b κ f r' s' := by
    intro rx' r' r1 r3 r2 hok' r4 s' htx hrx h1 h2
    refine ⟨by rw [htx]; exact h.seq, ?_, by rw [hrx]; exact r3, by have := h.rlo; omega,
      by rw [htx]; exact r2, ?_, ?_, ?_⟩
    · rw [hrx]; exact ⟨hok'.last, hok'.mis, hok'.nodup, hok'.next⟩
    · intro x hx
      rw [hrx] at hx
      rw [htx]; exact r4 x hx
    · intro e he
      rw [htx]; exact h.toRx e (h1 e he)
    · intro p hp
      rcases h2 p hp with hp | hp
      · obtain ⟨j, j1, j2⟩ := h.toTx p hp
        exact ⟨j, by omega, j2⟩
      · exact ⟨r', Nat.le_refl _, hp⟩
  cases a with
  | data d =>
    obtain ⟨k, k1, k2⟩ := hok
    have hmod : d.tsn % 4294967296 = T b k := by rw [k2, T_mod]
    simp only [rxArr, hmod]
    obtain ⟨r', r1, r2, r3, r4, r5⟩ := rx_deliver b s.rx r (f + s.tx.sentQ.length) k h.rxok h.rlast hrhi (by omega) h.mis k1
    have hok' := h.rxok.markReceived (T b k) (T_r32 b k)
    exact ⟨r', r1, r3, r2, hok', r4,
      fun j hj hx => rxHas_mono b s.rx r (f + s.tx.sentQ.length) k h.rxok h.rlast hrhi (by omega) h.mis k1 j hj hx,
      ⟨k, k1, k2, r5⟩, key _ r' r1 r3 r2 hok' r4⟩
  | fwd c st =>
    obtain ⟨k, k1, k2⟩ := hok
    have hmod : c % 4294967296 = T b k := by rw [k2, T_mod]
    simp only [rxArr, hmod]
    obtain ⟨r', r1, r2, r3, r4, r5, r6, r7⟩ := rx_fwd b s.rx r (f + s.tx.sentQ.length) k h.rxok h.rlast hrhi (by omega)
      h.mis (by omega)
    exact ⟨r', r1, r4, r3, r6, r5, r7, ⟨k, k1, k2, r2⟩, key _ r' r1 r4 r3 r6 r5⟩

end Aiortc.Sctp
