import Aiortc.Lemmas.C02.DrainPRCoh
/-!
# Every move of the adversarial system with partially reliable traffic preserves coherence (C02 drain)
-/
namespace Aiortc.Sctp
open Aiortc.Gen

/-- the guard of `_receive_sack_chunk` by index -/
theorem sackStale_TP {b : Int} {κ f : Nat} {t : Tx} (h : TxSeqP b κ f t) (k : Nat) (hk : k < 2147483648) :
    t.sackStale (T b k) = (decide (k < κ) || decide (f + (t.sentQ.length + t.outQ.length) < k)) := by
  unfold Tx.sackStale
  have hb := h.bound; have hle := h.le
  have hm : tsn_minus_one t.localTsn = T b (f + (t.sentQ.length + t.outQ.length)) := by
    rw [h.localTsn]; unfold tsn_minus_one T; push_cast; omega
  rw [hm, h.ls, gte_T b k κ hk (by omega), gt_T b k _ hk (by omega)]
  by_cases h1 : κ ≤ k <;> simp [h1] <;> omega

theorem receiveSack_staleP {b : Int} {κ f : Nat} {t : Tx} (h : TxSeqP b κ f t) (k : Nat) (hk : k < κ) (gaps : List (Nat × Nat))
    (now : Int) : t.receiveSack (T b k) gaps now = .ok none := by
  unfold Tx.receiveSack
  have := h.bound; have := h.le
  rw [sackStale_TP h k (by omega)]
  simp [hk]

theorem not_staleP {b : Int} {κ f : Nat} {t : Tx} (h : TxSeqP b κ f t) (k : Nat) (hk : κ ≤ k)
    (hk2 : k ≤ f + (t.sentQ.length + t.outQ.length)) : t.sackStale (T b k) = false := by
  have := h.bound; have := h.le
  rw [sackStale_TP h k (by omega)]
  simp; omega

/-- what `PLink.deliverSack` does in a coherent state -/
theorem deliverSack_casesP {b : Int} {κ f r : Nat} {s : PLink} (h : CohP b κ f r s) (k : Nat) (hk : k ≤ r)
    (gaps : List (Nat × Nat)) (rest : List (Int × List (Nat × Nat))) :
    (k < κ ∧ s.deliverSack (T b k) gaps rest = { s with toTx := rest })
    ∨ (κ ≤ k ∧ ∃ t' evs f', s.tx.receiveSack (T b k) gaps s.now1000 = .ok (some (t', evs))
        ∧ SackIdx b k f s.tx t' gaps f'
        ∧ s.deliverSack (T b k) gaps rest
            = { s with tx := t'.transmit.1, toRx := s.toRx ++ arrOf t'.transmit.2, toTx := rest }) := by
  rcases Nat.lt_or_ge k κ with hlt | hge
  · left
    refine ⟨hlt, ?_⟩
    unfold PLink.deliverSack
    rw [receiveSack_staleP h.core.seq k hlt]
  · right
    have hb := h.core.seq.bound
    have hrhi := h.core.rhi
    obtain ⟨t', evs, hrs⟩ := receiveSack_some s.tx (T b k) gaps s.now1000 h.snd.flight.outQ
      (not_staleP h.core.seq k hge (by omega))
    have hsh := receiveSack_shapeP s.tx h.snd.flight.outQ _ _ _ t' evs hrs
    obtain ⟨f', hidx⟩ := sack_idx h.core.seq k hge (by omega) gaps s.now1000 hsh
    refine ⟨hge, t', evs, f', hrs, hidx, ?_⟩
    unfold PLink.deliverSack
    rw [hrs]

theorem needT3_of_seq {b : Int} {κ f : Nat} {t : Tx} (h : TxSeqP b κ f t)
    (hf : κ < f → ∃ st, t.forwardTsn = some (T b f, st)) : NeedT3 t := by
  intro hn
  obtain ⟨st, hst⟩ := hf (h.needed.mp hn)
  right; rw [hst]; rfl

theorem CohP.deliverSack {b : Int} {κ f r : Nat} {s : PLink} (h : CohP b κ f r s) (p : Int × List (Nat × Nat))
    (hp : p ∈ s.toTx) (rest : List (Int × List (Nat × Nat))) (hrest : ∀ q ∈ rest, q ∈ s.toTx) :
    ∃ κ' f' k, κ ≤ κ' ∧ p.1 = T b k ∧ k ≤ r ∧ ((κ' = κ ∧ k < κ) ∨ (κ' = k ∧ κ ≤ k))
      ∧ CohP b κ' f' r (s.deliverSack p.1 p.2 rest)
      ∧ f' + (s.deliverSack p.1 p.2 rest).tx.nOut = f + s.tx.nOut := by
  obtain ⟨k, hk, hpk⟩ := h.core.toTx p hp
  rw [hpk]
  rcases deliverSack_casesP h k hk p.2 rest with ⟨hlt, he⟩ | ⟨hge, t', evs, f', hrs, hidx, he⟩
  · rw [he]
    exact ⟨κ, f, k, Nat.le_refl _, rfl, hk, Or.inl ⟨rfl, hlt⟩, ⟨h.core.grow h.core.seq h.core.rlo (Nat.le_refl _) (Nat.le_refl _) rfl
      (fun a ha => Or.inl ha) hrest, h.snd, h.need⟩, rfl⟩
  · rw [he]
    have hsnd : SndInv { tx := t'.transmit.1, pending := s.pending } := by
      have := h.snd.step (.sack (T b k) p.2 s.now1000 [])
      simpa [Snd.step, hrs] using this
    have hc1 : CoreP b k f' r { s with tx := t', toTx := rest } :=
      h.core.grow (s' := { s with tx := t', toTx := rest }) hidx.seq hk (by have := hidx.fge; omega) hidx.hi rfl
        (fun a ha => Or.inl ha) hrest
    have hc2 : CoreP b k f' r { s with tx := t'.transmit.1, toRx := s.toRx ++ arrOf t'.transmit.2, toTx := rest } :=
      hc1.transmit rfl rfl (fun a ha => List.mem_append.mp ha) (fun q hq => hq)
    have hneed : NeedT3 t'.transmit.1 := (needT3_of_seq hidx.seq hidx.fwdNew).transmit
    refine ⟨k, f', k, hge, rfl, hk, Or.inr ⟨rfl, hge⟩, ⟨hc2, hsnd, hneed⟩, ?_⟩
    have := (transmit_queues t').2
    have := hidx.cons
    show f' + t'.transmit.1.nOut = f + s.tx.nOut
    omega

theorem CohP.deliver {b : Int} {κ f r : Nat} {s : PLink} (h : CohP b κ f r s) (a : Arrival) (ha : a ∈ s.toRx)
    (rest : List Arrival) (hrest : ∀ e ∈ rest, e ∈ s.toRx) :
    ∃ r', r ≤ r' ∧ CohP b κ f r' (s.deliver a rest) ∧ (rxArr s.rx a).last = T b r' := by
  obtain ⟨r', r1, r2, _, _, _, _, _, r8⟩ := h.core.deliver a ha
  refine ⟨r', r1, ⟨r8 _ rfl rfl hrest ?_, h.snd, h.need⟩, r2⟩
  intro p hp
  simp only [PLink.deliver, List.mem_append, List.mem_singleton] at hp
  rcases hp with hp | hp
  · exact Or.inl hp
  · right; rw [hp]; exact r2

theorem CohP.runTask {b : Int} {κ f r : Nat} {s : PLink} (h : CohP b κ f r s) : CohP b κ f r s.runTask :=
  ⟨h.core.transmit rfl rfl (fun _ ha => List.mem_append.mp ha) (fun _ hp => hp), h.snd.step .task, h.need.transmit⟩

theorem CohP.fireT3 {b : Int} {κ f r : Nat} {s : PLink} (h : CohP b κ f r s) :
    ∃ f', T3Idx b κ f s.tx (s.tx.t3Expired s.now1000) f' ∧ CohP b κ f' r s.fireT3 := by
  have sh := t3Expired_shapeP s.tx h.snd.flight.winv s.now1000
  obtain ⟨f', hidx⟩ := t3_idx h.core.seq sh
  exact ⟨f', hidx, ⟨h.core.grow (s' := s.fireT3) hidx.seq h.core.rlo hidx.fge hidx.hi rfl (fun a ha => Or.inl ha)
    (fun p hp => hp), h.snd.step (.t3 s.now1000), needT3_of_seq hidx.seq hidx.fwdNew⟩⟩

/-- **every move of the adversarial system preserves coherence** — reliable and partially reliable sends alike -/
theorem CohP.fault {b : Int} {κ f r : Nat} {s : PLink} (h : CohP b κ f r s) (ft : Fault)
    (hb : f + s.tx.nOut + ft.sent + 1 < 2147483648) :
    ∃ κ' f' r', CohP b κ' f' r' (s.fault ft) ∧ f' + (s.fault ft).tx.nOut = f + s.tx.nOut + ft.sent := by
  cases ft with
  | send m =>
    have hn := enqueue_nOut s.tx m.sid m.ppid m.data m.expiry m.maxRtx m.ordered
    have hc1 : CoreP b κ f r { s with tx := s.tx.enqueue m.sid m.ppid m.data m.expiry m.maxRtx m.ordered } :=
      h.core.grow (s' := { s with tx := s.tx.enqueue m.sid m.ppid m.data m.expiry m.maxRtx m.ordered })
        (h.core.seq.enqueue _ _ _ _ _ _ hb) h.core.rlo (Nat.le_refl _) (by simp only; rw [hn.2]; exact Nat.le_refl _) rfl
        (fun a ha => Or.inl ha) (fun p hp => hp)
    refine ⟨κ, f, r, ⟨hc1.transmit rfl rfl (fun a ha => List.mem_append.mp ha) (fun p hp => hp), h.snd.step (.send m),
      (h.need.enqueue _ _ _ _ _ _).transmit⟩, ?_⟩
    have := (transmit_queues (s.tx.enqueue m.sid m.ppid m.data m.expiry m.maxRtx m.ordered)).2
    simp only [PLink.fault, PLink.sendMsg, Fault.sent] at hn ⊢
    omega
  | task =>
    refine ⟨κ, f, r, h.runTask, ?_⟩
    have := (transmit_queues s.tx).2
    simp only [PLink.fault, PLink.runTask, Fault.sent]; omega
  | fireT3 =>
    obtain ⟨f', hidx, hc⟩ := h.fireT3
    refine ⟨κ, f', r, hc, ?_⟩
    have := hidx.cons
    simp only [PLink.fault, PLink.fireT3, Fault.sent]; omega
  | deliverData i =>
    simp only [PLink.fault]
    cases hi : s.toRx[i]? with
    | none => exact ⟨κ, f, r, h, by simp [Fault.sent]⟩
    | some a =>
      obtain ⟨r', _, hc, _⟩ := h.deliver a (List.mem_of_getElem? hi) (s.toRx.eraseIdx i)
        (fun e he => List.mem_of_mem_eraseIdx he)
      exact ⟨κ, f, r', hc, by simp [Fault.sent, PLink.deliver]⟩
  | deliverSack i =>
    simp only [PLink.fault]
    cases hi : s.toTx[i]? with
    | none => exact ⟨κ, f, r, h, by simp [Fault.sent]⟩
    | some p =>
      obtain ⟨κ', f', _, _, _, _, _, hc, hn⟩ := h.deliverSack p (List.mem_of_getElem? hi) (s.toTx.eraseIdx i)
        (fun e he => List.mem_of_mem_eraseIdx he)
      exact ⟨κ', f', r, hc, by simp only [Fault.sent]; omega⟩
  | dropData i =>
    exact ⟨κ, f, r, ⟨h.core.grow (s' := { s with toRx := s.toRx.eraseIdx i }) h.core.seq h.core.rlo (Nat.le_refl _)
      (Nat.le_refl _) rfl (fun e he => Or.inl (List.mem_of_mem_eraseIdx he)) (fun p hp => hp), h.snd, h.need⟩,
      by simp [Fault.sent, PLink.fault]⟩
  | dropSack i =>
    exact ⟨κ, f, r, ⟨h.core.grow (s' := { s with toTx := s.toTx.eraseIdx i }) h.core.seq h.core.rlo (Nat.le_refl _)
      (Nat.le_refl _) rfl (fun e he => Or.inl he) (fun p hp => List.mem_of_mem_eraseIdx hp), h.snd, h.need⟩,
      by simp [Fault.sent, PLink.fault]⟩
  | dupData i =>
    simp only [PLink.fault]
    cases hi : s.toRx[i]? with
    | none => exact ⟨κ, f, r, h, by simp [Fault.sent]⟩
    | some a =>
      refine ⟨κ, f, r, ⟨h.core.grow (s' := { s with toRx := s.toRx ++ [a] }) h.core.seq h.core.rlo (Nat.le_refl _)
        (Nat.le_refl _) rfl ?_ (fun p hp => hp), h.snd, h.need⟩, by simp [Fault.sent]⟩
      intro e he
      simp only [List.mem_append, List.mem_singleton] at he
      rcases he with he | rfl
      · exact Or.inl he
      · exact Or.inl (List.mem_of_getElem? hi)
  | dupSack i =>
    simp only [PLink.fault]
    cases hi : s.toTx[i]? with
    | none => exact ⟨κ, f, r, h, by simp [Fault.sent]⟩
    | some p =>
      refine ⟨κ, f, r, ⟨h.core.grow (s' := { s with toTx := s.toTx ++ [p] }) h.core.seq h.core.rlo (Nat.le_refl _)
        (Nat.le_refl _) rfl (fun e he => Or.inl he) ?_, h.snd, h.need⟩, by simp [Fault.sent]⟩
      intro e he
      simp only [List.mem_append, List.mem_singleton] at he
      rcases he with he | rfl
      · exact he
      · exact List.mem_of_getElem? hi
  | tick now =>
    exact ⟨κ, f, r, ⟨h.core.grow (s' := { s with now1000 := now }) h.core.seq h.core.rlo (Nat.le_refl _)
      (Nat.le_refl _) rfl (fun e he => Or.inl he) (fun p hp => hp), h.snd, h.need⟩, by simp [Fault.sent, PLink.fault]⟩

end Aiortc.Sctp
