import Aiortc.Lemmas.C02.DrainPRAw
/-!
# Every reliable chunk reaches the receiver (C02 drain, partial reliability)

`GotInv b f r H s`: `H` lists every chunk ever queued (`H[j]` has TSN `T b (j+1)`); the chunks still in `sentQ ++ outQ` are
`H.drop f` (same parameters and fragment flags); every chunk that left the queues (`j < f`) and every chunk up to the
receiver's cumulative TSN (`j < r`) was received as DATA (`∈ got`) or is partially reliable; only partially reliable chunks
are marked abandoned (`AW`).  Preserved by every move; at the end `f = |H|`.
-/
namespace Aiortc.Sctp
open Aiortc.Gen

theorem consolidate_between : ∀ (S : List Int) (a : Int), R32 a →
    ∃ j : Nat, consolidate a S = (a + (j : Int)) % 4294967296 ∧ ∀ i : Nat, 1 ≤ i → i ≤ j → (a + (i : Int)) % 4294967296 ∈ S := by
  intro S
  induction S with
  | nil => intro a ha; exact ⟨0, by unfold R32 at ha; simp [consolidate]; omega, fun i h1 h2 => by omega⟩
  | cons t ts ih =>
    intro a ha
    unfold consolidate
    split
    · rename_i ht
      have ht32 : R32 t := by rw [ht]; unfold tsn_plus_one R32; omega
      obtain ⟨j, he, hm⟩ := ih t ht32
      refine ⟨j + 1, by rw [he, ht]; unfold tsn_plus_one; push_cast; omega, ?_⟩
      intro i h1 h2
      rcases Nat.eq_or_lt_of_le h1 with h | h
      · rw [← h, ht]; unfold tsn_plus_one; simp
      · have := hm (i - 1) (by omega) (by omega)
        rw [ht] at this
        unfold tsn_plus_one at this
        have e : ((a + 1) % 4294967296 + ((i - 1 : Nat) : Int)) % 4294967296 = (a + (i : Int)) % 4294967296 := by omega
        rw [e] at this; exact List.mem_cons_of_mem _ this
    · exact ⟨0, by unfold R32 at ha; simp; omega, fun i h1 h2 => by omega⟩

/-- after a DATA chunk: every TSN the cumulative TSN moved over was misordered or is the chunk itself -/
theorem rx_deliver_got (b : Int) (rx : Rx) (r hi k r' : Nat) (hok : RxOk rx) (hl : rx.last = T b r) (hhi : hi < 2147483648)
    (hr : r ≤ hi) (hr' : r' ≤ hi) (hl' : (markReceived rx (T b k)).2.last = T b r') :
    (∀ m, r < m → m ≤ r' → T b m ∈ rx.mis ∨ T b m = T b k)
    ∧ (∀ x ∈ (markReceived rx (T b k)).2.mis, x ∈ rx.mis ∨ x = T b k) := by
  by_cases hdup : (uint32_gte rx.last (T b k) || rx.mis.contains (T b k)) = true
  · obtain ⟨e1, e2⟩ := markReceived_old rx (T b k) hdup
    rw [e1, hl] at hl'
    have : r = r' := T_inj (by omega) (by omega) hl'
    exact ⟨fun m h1 h2 => by omega, fun x hx => by rw [e2] at hx; exact Or.inl hx⟩
  · have hnd : (uint32_gte rx.last (T b k) || rx.mis.contains (T b k)) = false := by simpa using hdup
    obtain ⟨e1, e2⟩ := markReceived_new rx (T b k) hnd
    refine ⟨?_, ?_⟩
    · intro m h1 h2
      obtain ⟨j, hj, hm⟩ := consolidate_between (sortByKey rx.last (rx.mis ++ [T b k])) rx.last hok.last
      rw [e1, hj, hl, T_add] at hl'
      have hjr : m - r ≤ j := by
        rcases Nat.lt_or_ge j (m - r) with hlt | hge
        · have := T_inj (i := r + j) (j := r') (by omega) (by omega) hl'
          omega
        · exact hge
      have := hm (m - r) (by omega) hjr
      rw [hl, T_add, show r + (m - r) = m by omega, mem_sortByKey] at this
      simpa using this
    · intro x hx
      rw [e2, List.mem_filter] at hx
      simpa using hx.1

/-- after a FORWARD TSN that is ahead: every TSN beyond it that the cumulative TSN moved over was misordered -/
theorem rx_fwd_got (b : Int) (rx : Rx) (r hi c r' : Nat) (hl : rx.last = T b r) (hhi : hi < 2147483648) (hrc : r < c)
    (hc : c ≤ hi) (hr' : r' ≤ hi) (hl' : (rxFwdTsn rx (T b c)).last = T b r') :
    (∀ m, c < m → m ≤ r' → T b m ∈ rx.mis) ∧ (∀ x ∈ (rxFwdTsn rx (T b c)).mis, x ∈ rx.mis) := by
  unfold rxFwdTsn at hl' ⊢
  have hg : uint32_gte rx.last (T b c) = false := by
    rw [hl, gte_T b r c (by omega) (by omega)]; simp; omega
  simp only [hg, Bool.false_eq_true, if_false] at hl' ⊢
  refine ⟨?_, ?_⟩
  · intro m h1 h2
    obtain ⟨j, hj, hm⟩ := consolidate_between (sortByKey (T b c) (rx.mis.filter (fun x => uint32_gt x (T b c)))) (T b c)
      (T_r32 b c)
    have hl'' : consolidate (T b c) (sortByKey (T b c) (rx.mis.filter (fun x => uint32_gt x (T b c)))) = T b r' := hl'
    rw [hj, T_add] at hl''
    have hjr : m - c ≤ j := by
      rcases Nat.lt_or_ge j (m - c) with hlt | hge
      · have := T_inj (i := c + j) (j := r') (by omega) (by omega) hl''
        omega
      · exact hge
    have := hm (m - c) (by omega) hjr
    rw [T_add, show c + (m - c) = m by omega, mem_sortByKey, List.mem_filter] at this
    exact this.1
  · intro x hx
    have hx' : x ∈ (rx.mis.filter (fun x => uint32_gt x (T b c))).filter (fun x => uint32_gt x (fwdRx rx (T b c)).last) := hx
    rw [List.mem_filter, List.mem_filter] at hx'
    exact hx'.1.1

structure GotInv (b : Int) (f r : Nat) (H : List SChunk) (s : PLink) : Prop where
  aw : AW s.tx
  len : H.length = f + s.tx.nOut
  idq : PW SameT (H.drop f) (s.tx.sentQ ++ s.tx.outQ)
  tsn : ∀ j c0, H[j]? = some c0 → c0.tsn = T b (j + 1)
  left : ∀ j c0, H[j]? = some c0 → j < f → c0.tsn ∈ s.got ∨ c0.Unrel
  rcv : ∀ j c0, H[j]? = some c0 → j < r → c0.tsn ∈ s.got ∨ c0.Unrel
  mis : ∀ x ∈ s.rx.mis, x ∈ s.got

/-- the network changes, sender and receiver do not -/
theorem GotInv.net {b : Int} {f r : Nat} {H : List SChunk} {s s' : PLink} (h : GotInv b f r H s) (htx : s'.tx = s.tx)
    (hrx : s'.rx = s.rx) (hg : s'.got = s.got) : GotInv b f r H s' :=
  ⟨by rw [htx]; exact h.aw, by rw [htx]; exact h.len, by rw [htx]; exact h.idq, h.tsn, by rw [hg]; exact h.left,
   by rw [hg]; exact h.rcv, by rw [hrx, hg]; exact h.mis⟩

/-- the sender's queues change: `k` chunks leave at the head (each acknowledged or partially reliable), the rest keeps
its identity -/
theorem GotInv.advance {b : Int} {f r : Nat} {H : List SChunk} {s s' : PLink} (h : GotInv b f r H s) (k : Nat)
    (haw : AW s'.tx) (hn : f + k + s'.tx.nOut = f + s.tx.nOut)
    (hpw : PW SameT ((s.tx.sentQ ++ s.tx.outQ).drop k) (s'.tx.sentQ ++ s'.tx.outQ))
    (hleft : ∀ i c, (s.tx.sentQ ++ s.tx.outQ)[i]? = some c → i < k → f + i < r ∨ c.Unrel)
    (hrx : s'.rx = s.rx) (hg : s'.got = s.got) : GotInv b (f + k) r H s' := by
  refine ⟨haw, by rw [h.len]; omega, ?_, h.tsn, ?_, by rw [hg]; exact h.rcv, by rw [hrx, hg]; exact h.mis⟩
  · rw [← List.drop_drop]
    exact PW.trans (R := SameT) (S := SameT) (T := SameT) (fun _ _ _ a b => SameT.trans a b) (pw_drop k h.idq) hpw
  · intro j c0 hj hlt
    rw [hg]
    rcases Nat.lt_or_ge j f with h1 | h1
    · exact h.left j c0 hj h1
    · have hd : (H.drop f)[j - f]? = some c0 := by rw [List.getElem?_drop, show f + (j - f) = j by omega]; exact hj
      obtain ⟨c, hc, hr⟩ := PW.getElem?' h.idq (j - f) c0 hd
      rcases hleft (j - f) c hc (by omega) with h2 | h2
      · exact h.rcv j c0 hj (by omega)
      · exact Or.inr (hr.lim.symm.unrel h2)

end Aiortc.Sctp
