import Aiortc.Lemmas.C02.DrainPRGot
/-!
# `GotInv` is preserved by every move and along the continuation (C02 drain)
-/
namespace Aiortc.Sctp
open Aiortc.Gen

theorem Seq.getElem {b : Int} : ∀ {l : List SChunk} {a i : Nat} {c : SChunk}, Seq b a l → l[i]? = some c → c.tsn = T b (a + i + 1)
  | d :: ds, a, 0, c, h, hc => by simp at hc; subst hc; exact h.1
  | d :: ds, a, i + 1, c, h, hc => by
    have := Seq.getElem (l := ds) (a := a + 1) (i := i) h.2 (by simpa using hc)
    rw [this]; congr 1; omega

theorem CohP.unique {b : Int} {κ f r κ2 f2 r2 : Nat} {s : PLink} (h1 : CohP b κ f r s) (h2 : CohP b κ2 f2 r2 s) :
    f = f2 ∧ r = r2 := by
  have b1 := h1.core.seq.bound; have b2 := h2.core.seq.bound
  have r1 := h1.core.rhi; have r2' := h2.core.rhi
  exact ⟨T_inj (by omega) (by omega) (h1.core.seq.adv.symm.trans h2.core.seq.adv),
    T_inj (by omega) (by omega) (h1.core.rlast.symm.trans h2.core.rlast)⟩

/-- chunks a move adds to the outbound queue -/
def newChunks (s : PLink) : Fault → List SChunk
  | .send m => (s.tx.enqueue m.sid m.ppid m.data m.expiry m.maxRtx m.ordered).outQ.drop s.tx.outQ.length
  | _ => []

theorem enqueue_outQ (t : Tx) (sid ppid : Nat) (data : Bytes) (e m : Option Int) (o : Bool) :
    (t.enqueue sid ppid data e m o).outQ = t.outQ ++ (t.enqueue sid ppid data e m o).outQ.drop t.outQ.length := by
  simp [Tx.enqueue]

theorem GotInv.deliver {b : Int} {κ f r r' : Nat} {H : List SChunk} {s : PLink} (hc : CohP b κ f r s) (hg : GotInv b f r H s)
    (a : Arrival) (ha : a ∈ s.toRx) (rest : List Arrival) (hc' : CohP b κ f r' (s.deliver a rest)) (hrr : r ≤ r') :
    GotInv b f r' H (s.deliver a rest) := by
  have hb := hc.core.seq.bound
  have hrhi := hc.core.rhi
  have hrhi' : r' ≤ f + s.tx.sentQ.length := hc'.core.rhi
  have hlast' : (rxArr s.rx a).last = T b r' := hc'.core.rlast
  have hok := hc.core.toRx a ha
  cases a with
  | data d =>
    obtain ⟨k, k1, k2⟩ := hok
    have hmod : d.tsn % 4294967296 = T b k := by rw [k2, T_mod]
    have hgot : (s.deliver (.data d) rest).got = s.got ++ [T b k] := by simp only [PLink.deliver, gotArr, hmod]
    simp only [rxArr, hmod] at hlast'
    obtain ⟨g1, g2⟩ := rx_deliver_got b s.rx r (f + s.tx.sentQ.length) k r' hc.core.rxok hc.core.rlast (by omega) hrhi hrhi'
      hlast'
    refine ⟨hg.aw, hg.len, hg.idq, hg.tsn, ?_, ?_, ?_⟩
    · intro j c0 hj hlt
      rw [hgot]
      rcases hg.left j c0 hj hlt with h | h
      · exact Or.inl (List.mem_append.mpr (Or.inl h))
      · exact Or.inr h
    · intro j c0 hj hlt
      rw [hgot]
      rcases Nat.lt_or_ge j r with h1 | h1
      · rcases hg.rcv j c0 hj h1 with h | h
        · exact Or.inl (List.mem_append.mpr (Or.inl h))
        · exact Or.inr h
      · left
        rw [hg.tsn j c0 hj]
        rcases g1 (j + 1) (by omega) (by omega) with h | h
        · exact List.mem_append.mpr (Or.inl (hg.mis _ h))
        · rw [h]; simp
    · intro x hx
      rw [hgot]
      have hx' : x ∈ (markReceived s.rx (T b k)).2.mis := by
        simp only [PLink.deliver, rxArr, hmod] at hx; exact hx
      rcases g2 x hx' with h | h
      · exact List.mem_append.mpr (Or.inl (hg.mis _ h))
      · rw [h]; simp
  | fwd c st =>
    obtain ⟨k, k1, k2⟩ := hok
    have hmod : c % 4294967296 = T b k := by rw [k2, T_mod]
    have hgot : (s.deliver (.fwd c st) rest).got = s.got := rfl
    simp only [rxArr, hmod] at hlast'
    rcases Nat.lt_or_ge r k with hrk | hkr
    · obtain ⟨g1, g2⟩ := rx_fwd_got b s.rx r (f + s.tx.sentQ.length) k r' hc.core.rlast (by omega) hrk (by omega) hrhi' hlast'
      refine ⟨hg.aw, hg.len, hg.idq, hg.tsn, by rw [hgot]; exact hg.left, ?_, ?_⟩
      · intro j c0 hj hlt
        rw [hgot]
        rcases Nat.lt_or_ge j r with h1 | h1
        · exact hg.rcv j c0 hj h1
        · rcases Nat.lt_or_ge j k with h2 | h2
          · exact hg.left j c0 hj (by omega)
          · left
            rw [hg.tsn j c0 hj]
            exact hg.mis _ (g1 (j + 1) (by omega) (by omega))
      · intro x hx
        rw [hgot]
        have hx' : x ∈ (rxFwdTsn s.rx (T b k)).mis := by
          simp only [PLink.deliver, rxArr, hmod] at hx; exact hx
        exact hg.mis _ (g2 x hx')
    · have hsame : rxFwdTsn s.rx (T b k) = s.rx := by
        unfold rxFwdTsn
        rw [hc.core.rlast, gte_T b r k (by omega) (by omega)]
        simp [hkr]
      rw [hsame, hc.core.rlast] at hlast'
      have : r = r' := T_inj (by omega) (by omega) hlast'
      subst this
      refine ⟨hg.aw, hg.len, hg.idq, hg.tsn, by rw [hgot]; exact hg.left, by rw [hgot]; exact hg.rcv, ?_⟩
      intro x hx
      rw [hgot]
      have hx' : x ∈ (rxFwdTsn s.rx (T b k)).mis := by
        simp only [PLink.deliver, rxArr, hmod] at hx; exact hx
      rw [hsame] at hx'
      exact hg.mis _ hx'

/-- `_transmit` -/
theorem GotInv.transmit {b : Int} {f r : Nat} {H : List SChunk} {s s' : PLink} (ho : ∀ c ∈ s.tx.outQ, Idle c)
    (hg : GotInv b f r H s) (htx : s'.tx = s.tx.transmit.1) (hrx : s'.rx = s.rx) (hgot : s'.got = s.got) :
    GotInv b f r H s' := by
  obtain ⟨hpw, haw⟩ := transmit_sameT s.tx ho hg.aw
  have := hg.advance (s' := s') 0 (by rw [htx]; exact haw) (by rw [htx, (transmit_queues s.tx).2]; omega)
    (by rw [htx]; simpa using hpw) (fun i c _ hi => by omega) hrx hgot
  simpa using this

theorem GotInv.enqueue {b : Int} {κ f r : Nat} {H : List SChunk} {s : PLink} (hc : CohP b κ f r s) (hg : GotInv b f r H s)
    (m : SendArgs) (hb : f + s.tx.nOut + fragCount m.data.length + 1 < 2147483648) :
    GotInv b f r (H ++ newChunks s (.send m)) { s with tx := s.tx.enqueue m.sid m.ppid m.data m.expiry m.maxRtx m.ordered } := by
  have hn := enqueue_nOut s.tx m.sid m.ppid m.data m.expiry m.maxRtx m.ordered
  have ho := enqueue_outQ s.tx m.sid m.ppid m.data m.expiry m.maxRtx m.ordered
  have hseq' := (hc.core.seq.enqueue m.sid m.ppid m.data m.expiry m.maxRtx m.ordered hb).seq
  have hrhi := hc.core.rhi
  simp only [newChunks]
  generalize (s.tx.enqueue m.sid m.ppid m.data m.expiry m.maxRtx m.ordered).outQ.drop s.tx.outQ.length = fr at ho
  have hfl : f ≤ H.length := by rw [hg.len]; omega
  refine ⟨hg.aw.enqueue _ _ _ _ _ _, ?_, ?_, ?_, ?_, ?_, hg.mis⟩
  · simp only [List.length_append]
    have := congrArg List.length ho
    simp only [List.length_append] at this
    have h1 := hn.1; have h2 := hn.2
    unfold Tx.nOut at h1 ⊢
    rw [h2] at h1 ⊢
    have := hg.len; unfold Tx.nOut at this
    omega
  · show PW SameT ((H ++ fr).drop f) (_ ++ _)
    rw [List.drop_append_of_le_length hfl, hn.2, ho, ← List.append_assoc]
    exact PW.append hg.idq (PW.refl SameT.refl fr)
  · intro j c0 hj
    rcases Nat.lt_or_ge j H.length with h1 | h1
    · rw [List.getElem?_append_left h1] at hj; exact hg.tsn j c0 hj
    · rw [List.getElem?_append_right h1] at hj
      have hq : ((s.tx.enqueue m.sid m.ppid m.data m.expiry m.maxRtx m.ordered).sentQ
          ++ (s.tx.enqueue m.sid m.ppid m.data m.expiry m.maxRtx m.ordered).outQ)[s.tx.sentQ.length + s.tx.outQ.length + (j - H.length)]?
          = some c0 := by
        rw [hn.2, ho, ← List.append_assoc, List.getElem?_append_right (by simp)]
        simp only [List.length_append, Nat.add_sub_cancel_left]
        exact hj
      rw [Seq.getElem hseq' hq]
      congr 1
      have := hg.len; unfold Tx.nOut at this; omega
  · intro j c0 hj hlt
    rw [List.getElem?_append_left (by omega)] at hj
    exact hg.left j c0 hj hlt
  · intro j c0 hj hlt
    have hjl : j < H.length := by rw [hg.len]; unfold Tx.nOut; omega
    rw [List.getElem?_append_left hjl] at hj
    exact hg.rcv j c0 hj hlt

theorem idx_of {b : Int} {κ f r f2 r2 : Nat} {s : PLink} (h : CohP b κ f r s) (ha : s.tx.advAck = T b f2) (hf2 : f2 < 2147483648)
    (hr : s.rx.last = T b r2) (hr2 : r2 < 2147483648) : f = f2 ∧ r = r2 := by
  have b1 := h.core.seq.bound
  have r1 := h.core.rhi
  exact ⟨T_inj (by omega) (by omega) (h.core.seq.adv.symm.trans ha), T_inj (by omega) (by omega) (h.core.rlast.symm.trans hr)⟩

/-- **every move preserves `GotInv`** (together with coherence) -/
theorem GotInv.fault {b : Int} {κ f r : Nat} {H : List SChunk} {s : PLink} (hc : CohP b κ f r s) (hg : GotInv b f r H s)
    (ft : Fault) (hb : f + s.tx.nOut + ft.sent + 1 < 2147483648) :
    ∃ κ' f' r', CohP b κ' f' r' (s.fault ft) ∧ GotInv b f' r' (H ++ newChunks s ft) (s.fault ft)
      ∧ f' + (s.fault ft).tx.nOut = f + s.tx.nOut + ft.sent := by
  obtain ⟨κ', f', r', hc', hn'⟩ := hc.fault ft hb
  refine ⟨κ', f', r', hc', ?_, hn'⟩
  have hbnd := hc.core.seq.bound
  have hrhi := hc.core.rhi
  -- identify the indices of the new state
  have key : ∀ (f2 r2 : Nat) (X : List SChunk), X = H ++ newChunks s ft → GotInv b f2 r2 X (s.fault ft) →
      (s.fault ft).tx.advAck = T b f2 → f2 < 2147483648 → (s.fault ft).rx.last = T b r2 → r2 < 2147483648 →
      GotInv b f' r' (H ++ newChunks s ft) (s.fault ft) := by
    intro f2 r2 X hX hG h1 h2 h3 h4
    obtain ⟨e1, e2⟩ := idx_of hc' h1 h2 h3 h4
    rw [e1, e2, ← hX]; exact hG
  cases ft with
  | send m =>
    have hg1 := hg.enqueue hc m hb
    have hg2 : GotInv b f r (H ++ newChunks s (.send m)) (s.fault (.send m)) :=
      GotInv.transmit (s := { s with tx := s.tx.enqueue m.sid m.ppid m.data m.expiry m.maxRtx m.ordered })
        (hc.snd.flight.enqueue _ _ _ _ _ _).outQ hg1 rfl rfl rfl
    refine key f r _ rfl hg2 ?_ (by omega) hc.core.rlast (by omega)
    show (s.tx.enqueue m.sid m.ppid m.data m.expiry m.maxRtx m.ordered).transmit.1.advAck = T b f
    rw [transmit_advAck]; exact hc.core.seq.adv
  | task =>
    have hg2 : GotInv b f r H (s.fault .task) := GotInv.transmit hc.snd.flight.outQ hg rfl rfl rfl
    refine key f r H (by simp [newChunks]) hg2 ?_ (by omega) hc.core.rlast (by omega)
    show s.tx.transmit.1.advAck = T b f
    rw [transmit_advAck]; exact hc.core.seq.adv
  | fireT3 =>
    obtain ⟨f2, hidx, hc2⟩ := hc.fireT3
    obtain ⟨q1, q2, q3⟩ := t3_queue hc.core.seq hg.aw hc.snd.flight.winv s.now1000 hidx
    have hfge := hidx.fge
    have hcons := hidx.cons
    have hb2 := hidx.seq.bound
    have hg2 := hg.advance (s' := s.fireT3) (f2 - f) q1 (by show f + (f2 - f) + (s.tx.t3Expired s.now1000).nOut = _; omega)
      q2 (fun i c hci hi => Or.inr (q3 i c hci hi)) rfl rfl
    rw [show f + (f2 - f) = f2 by omega] at hg2
    exact key f2 r H (by simp [newChunks]) hg2 hidx.seq.adv (by omega) hc.core.rlast (by omega)
  | deliverData i =>
    cases hi : s.toRx[i]? with
    | none =>
      simp only [PLink.fault, hi] at hc' ⊢
      obtain ⟨e1, e2⟩ := hc'.unique hc
      simp only [newChunks, List.append_nil]
      rw [e1, e2]; exact hg
    | some a =>
      simp only [PLink.fault, hi] at hc' ⊢
      have ha := List.mem_of_getElem? hi
      obtain ⟨r2, hrr, hc2, hlast⟩ := hc.deliver a ha (s.toRx.eraseIdx i) (fun e he => List.mem_of_mem_eraseIdx he)
      have hg2 := hg.deliver hc a ha (s.toRx.eraseIdx i) hc2 hrr
      obtain ⟨e1, e2⟩ := hc'.unique hc2
      simp only [newChunks, List.append_nil]
      rw [e1, e2]; exact hg2
  | deliverSack i =>
    cases hi : s.toTx[i]? with
    | none =>
      simp only [PLink.fault, hi] at hc' ⊢
      obtain ⟨e1, e2⟩ := hc'.unique hc
      simp only [newChunks, List.append_nil]
      rw [e1, e2]; exact hg
    | some p =>
      simp only [PLink.fault, hi] at hc' ⊢
      simp only [newChunks, List.append_nil]
      obtain ⟨k, hk, hpk⟩ := hc.core.toTx p (List.mem_of_getElem? hi)
      rw [hpk] at hc' ⊢
      rcases deliverSack_casesP hc k hk p.2 (s.toTx.eraseIdx i) with ⟨_, he⟩ | ⟨hge, t', evs, f2, hrs, hidx, he⟩
      · rw [he] at hc' ⊢
        obtain ⟨e1, e2⟩ := idx_of hc' hc.core.seq.adv (by omega) hc.core.rlast (by omega)
        rw [e1, e2]
        exact hg.net rfl rfl rfl
      · rw [he] at hc' ⊢
        have hsh := receiveSack_shapeP s.tx hc.snd.flight.outQ _ _ _ t' evs hrs
        obtain ⟨q1, q2, q3⟩ := sack_queue hc.core.seq hg.aw k hge (by omega) p.2 s.now1000 hsh hidx
        have hfge := hidx.fge
        have hcons := hidx.cons
        have hb2 := hidx.seq.bound
        have hg1 := hg.advance (s' := { s with tx := t', toTx := s.toTx.eraseIdx i }) (f2 - f) q1
          (by show f + (f2 - f) + t'.nOut = _; omega) q2
          (fun j c hcj hj => by
            rcases Nat.lt_or_ge j (max k f - f) with h' | h'
            · left; omega
            · exact Or.inr (q3 j c hcj h' hj)) rfl rfl
        rw [show f + (f2 - f) = f2 by omega] at hg1
        have hg2 : GotInv b f2 r H { s with tx := t'.transmit.1, toRx := s.toRx ++ arrOf t'.transmit.2, toTx := s.toTx.eraseIdx i } :=
          GotInv.transmit (s := { s with tx := t', toTx := s.toTx.eraseIdx i })
            (hc.snd.flight.receiveSack _ _ _ t' evs hrs).outQ hg1 rfl rfl rfl
        obtain ⟨e1, e2⟩ := idx_of hc' (by show t'.transmit.1.advAck = T b f2; rw [transmit_advAck]; exact hidx.seq.adv)
          (by omega) hc.core.rlast (by omega)
        rw [e1, e2]; exact hg2
  | dropData i =>
    refine key f r H (by simp [newChunks]) (hg.net rfl rfl rfl) hc.core.seq.adv (by omega) hc.core.rlast (by omega)
  | dropSack i =>
    refine key f r H (by simp [newChunks]) (hg.net rfl rfl rfl) hc.core.seq.adv (by omega) hc.core.rlast (by omega)
  | dupData i =>
    simp only [newChunks, List.append_nil]
    cases hi : s.toRx[i]? with
    | none => simp only [PLink.fault, hi] at hc' ⊢; obtain ⟨e1, e2⟩ := hc'.unique hc; rw [e1, e2]; exact hg
    | some a =>
      simp only [PLink.fault, hi] at hc' ⊢
      obtain ⟨e1, e2⟩ := idx_of hc' hc.core.seq.adv (by omega) hc.core.rlast (by omega)
      rw [e1, e2]; exact hg.net rfl rfl rfl
  | dupSack i =>
    simp only [newChunks, List.append_nil]
    cases hi : s.toTx[i]? with
    | none => simp only [PLink.fault, hi] at hc' ⊢; obtain ⟨e1, e2⟩ := hc'.unique hc; rw [e1, e2]; exact hg
    | some a =>
      simp only [PLink.fault, hi] at hc' ⊢
      obtain ⟨e1, e2⟩ := idx_of hc' hc.core.seq.adv (by omega) hc.core.rlast (by omega)
      rw [e1, e2]; exact hg.net rfl rfl rfl
  | tick now =>
    refine key f r H (by simp [newChunks]) (hg.net rfl rfl rfl) hc.core.seq.adv (by omega) hc.core.rlast (by omega)

end Aiortc.Sctp
