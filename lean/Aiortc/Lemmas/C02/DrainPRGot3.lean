import Aiortc.Lemmas.C02.DrainPRGot2
/-!
# After any history and the continuation, every reliable chunk has reached the receiver (C02 drain)
-/
namespace Aiortc.Sctp
open Aiortc.Gen

/-- every chunk a history puts into the outbound queue, in TSN order -/
def queuedBy : PLink → List Fault → List SChunk
  | _, [] => []
  | s, ft :: fs => newChunks s ft ++ queuedBy (s.fault ft) fs

theorem GotInv.faults : ∀ (fs : List Fault) {b : Int} {κ f r : Nat} {H : List SChunk} {s : PLink}, CohP b κ f r s →
    GotInv b f r H s → f + s.tx.nOut + sentTotal fs + 1 < 2147483648 →
    ∃ κ' f' r', CohP b κ' f' r' (fs.foldl PLink.fault s) ∧ GotInv b f' r' (H ++ queuedBy s fs) (fs.foldl PLink.fault s)
      ∧ f' + (fs.foldl PLink.fault s).tx.nOut = f + s.tx.nOut + sentTotal fs
  | [], _, κ, f, r, _, _, hc, hg, _ => ⟨κ, f, r, hc, by simpa [queuedBy] using hg, rfl⟩
  | ft :: fs, b, κ, f, r, H, s, hc, hg, hb => by
    simp only [sentTotal] at hb
    obtain ⟨κ1, f1, r1, hc1, hg1, hn1⟩ := hg.fault hc ft (by omega)
    obtain ⟨κ2, f2, r2, hc2, hg2, hn2⟩ := GotInv.faults fs hc1 hg1 (by omega)
    refine ⟨κ2, f2, r2, hc2, ?_, by simp only [List.foldl_cons, sentTotal]; omega⟩
    simp only [List.foldl_cons, queuedBy, ← List.append_assoc]
    exact hg2

/-- a step of the continuation is a move of the system that queues nothing (or nothing at all) -/
theorem PLink.step_fault (s : PLink) : s.step = s ∨ ∃ ft : Fault, ft.sent = 0 ∧ newChunks s ft = [] ∧ s.step = s.fault ft := by
  cases hp : s.pending with
  | true => exact Or.inr ⟨.task, rfl, rfl, by rw [s.step_task hp]; rfl⟩
  | false =>
    cases hr : s.toRx with
    | cons a rest =>
      refine Or.inr ⟨.deliverData 0, rfl, rfl, ?_⟩
      rw [s.step_arr a rest hp hr]
      simp [PLink.fault, hr]
    | nil =>
      cases ht : s.toTx with
      | cons p rest =>
        obtain ⟨cum, gaps⟩ := p
        refine Or.inr ⟨.deliverSack 0, rfl, rfl, ?_⟩
        rw [s.step_sack cum gaps rest hp hr ht]
        simp [PLink.fault, ht]
      | nil =>
        cases h3 : s.tx.t3 with
        | true => exact Or.inr ⟨.fireT3, rfl, rfl, by rw [s.step_t3 ⟨hr, ht, hp⟩ h3]; rfl⟩
        | false => exact Or.inl (s.step_rest ⟨hr, ht, hp⟩ h3)

theorem GotInv.run : ∀ (n : Nat) {b : Int} {κ f r : Nat} {H : List SChunk} {s : PLink}, CohP b κ f r s → GotInv b f r H s →
    ∃ κ' f' r', CohP b κ' f' r' (PLink.run n s) ∧ GotInv b f' r' H (PLink.run n s)
      ∧ f' + (PLink.run n s).tx.nOut = f + s.tx.nOut
  | 0, _, κ, f, r, _, _, hc, hg => ⟨κ, f, r, hc, hg, rfl⟩
  | n + 1, b, κ, f, r, H, s, hc, hg => by
    simp only [PLink.run]
    rcases s.step_fault with he | ⟨ft, h1, h2, he⟩
    · rw [he]; exact GotInv.run n hc hg
    · have hb := hc.core.seq.bound
      obtain ⟨κ1, f1, r1, hc1, hg1, hn1⟩ := hg.fault hc ft (by unfold Tx.nOut; omega)
      rw [h2, List.append_nil, ← he] at hg1
      rw [← he] at hc1 hn1
      obtain ⟨κ2, f2, r2, hc2, hg2, hn2⟩ := GotInv.run n hc1 hg1
      exact ⟨κ2, f2, r2, hc2, hg2, by omega⟩

theorem PLink.Fresh.got {s : PLink} (h : s.Fresh) : GotInv s.tx.lastSacked 0 0 [] s := by
  have haw : AW s.tx := by
    refine ⟨?_, ?_⟩
    · rw [h.init.sentQ]; intro c hc; cases hc
    · rw [h.init.sentQ, h.init.outQ]; exact ⟨trivial, fun c hc => (by cases hc)⟩
  refine ⟨haw, ?_, ?_, ?_, ?_, ?_, ?_⟩
  · unfold Tx.nOut; rw [h.init.sentQ, h.init.outQ]; rfl
  · rw [h.init.sentQ, h.init.outQ]; trivial
  · intro j c0 hj; simp at hj
  · intro j c0 hj; simp at hj
  · intro j c0 hj; simp at hj
  · rw [h.rxMis]; simp

/-- **every chunk of every reliable message reaches the receiver**: fresh pair, any history, then the continuation -/
theorem reliable_received (s0 : PLink) (h0 : s0.Fresh) (fs : List Fault) (hb : sentTotal fs + 1 < 2147483648) :
    ∃ j, j ≤ (fs.foldl PLink.fault s0).drainBound ∧ (PLink.run j (fs.foldl PLink.fault s0)).Drained
      ∧ (queuedBy s0 fs).length = sentTotal fs
      ∧ (∀ i c, (queuedBy s0 fs)[i]? = some c → c.tsn = (s0.tx.lastSacked + ((i + 1 : Nat) : Int)) % 4294967296)
      ∧ (∀ c ∈ queuedBy s0 fs, c.maxRetransmits = none → c.expiry = none →
          c.tsn ∈ (PLink.run j (fs.foldl PLink.fault s0)).got)
      ∧ (PLink.run j (fs.foldl PLink.fault s0)).rx.last = (s0.tx.lastSacked + (sentTotal fs : Int)) % 4294967296
      ∧ (PLink.run j (fs.foldl PLink.fault s0)).tx.lastSacked = (PLink.run j (fs.foldl PLink.fault s0)).rx.last
      ∧ (PLink.run j (fs.foldl PLink.fault s0)).tx.advAck = (PLink.run j (fs.foldl PLink.fault s0)).rx.last
      ∧ (PLink.run j (fs.foldl PLink.fault s0)).tx.forwardNeeded = false := by
  obtain ⟨hc0, hn0⟩ := h0.coh
  obtain ⟨κ, f, r, hc, hg, hn⟩ := GotInv.faults fs hc0 h0.got (by omega)
  obtain ⟨j, hj, hd, d1, d2, d3, _, d5, _⟩ := hc.drains
  obtain ⟨κ2, f2, r2, hc2, hg2, hn2⟩ := GotInv.run j hc hg
  simp only [List.nil_append] at hg hg2
  have hz : (PLink.run j (fs.foldl PLink.fault s0)).tx.nOut = 0 := by
    unfold Tx.nOut; rw [hd.sentQ, hd.outQ]; rfl
  refine ⟨j, hj, hd, by rw [hg.len]; omega, ?_, ?_, by rw [d3, show f + (List.foldl PLink.fault s0 fs).tx.nOut = sentTotal fs by omega]; rfl,
    by rw [d1, d3], by rw [d2, d3], d5⟩
  · intro i c hi
    rw [hg.tsn i c hi]; rfl
  · intro c hcm h1 h2
    obtain ⟨i, hi⟩ := List.getElem?_of_mem hcm
    have hlt : i < f2 := by
      have := (List.getElem?_eq_some_iff.mp hi).1
      rw [hg2.len, hz] at this; omega
    rcases hg2.left i c hi hlt with h | h
    · exact h
    · exact absurd ⟨h1, h2⟩ h

end Aiortc.Sctp
