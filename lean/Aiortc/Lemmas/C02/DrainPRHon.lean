import Aiortc.Lemmas.C02.DrainPRStep
/-!
# The strike budget along the continuation, with partially reliable traffic (C02 drain)

`hon_task`, `hon_deliver`, `hon_sack`: every non-T3 step keeps `HonP` (consuming one old SACK when a SACK is handled) and
pays for the DATA chunks it emits out of `pot2`.
-/
namespace Aiortc.Sctp
open Aiortc.Gen

/-- `_transmit` on any state: emissions are paid by the marks, the weights do not grow -/
theorem transmit_weightsP (t : Tx) (ho : ∀ c ∈ t.outQ, Idle c) (P : Int → Prop) :
    (dataOf t.fwd.1.transmit.2).length + t.transmit.1.flags = t.flags ∧ t.transmit.1.nOut = t.nOut
    ∧ usum P t.transmit.1.sentQ + 2 * t.transmit.1.outQ.length ≤ usum P t.sentQ + 2 * t.outQ.length := by
  obtain ⟨q1, q2, q3⟩ := fwd_same_queues t
  have hf : t.fwd.1.forwardTsn = none := by rw [(fwd_fields t).1]
  have := transmit_weights t.fwd.1 hf (by rw [q3]; exact ho) P
  rw [(transmit_events t).2.2]
  unfold Tx.flags Tx.nOut at *
  rw [q2, q3] at this
  exact this

theorem hon_task {b : Int} {κ f r h : Nat} {s : PLink} (hc : CohP b κ f r s) (hh : HonP b h s) :
    HonP b h s.runTask ∧ (dataOf s.tx.fwd.1.transmit.2).length + s.runTask.pot2 h ≤ s.pot2 h := by
  obtain ⟨hfl, hn, hu⟩ := transmit_weightsP s.tx hc.snd.flight.outQ (SafeP s 0)
  refine ⟨⟨hh.hle, hh.chain⟩, ?_⟩
  have hS : s.runTask.S2 h ≤ s.S2 h := by
    unfold PLink.S2
    split
    · exact hu
    · show h + 2 * s.tx.transmit.1.nOut ≤ _
      rw [hn]; exact Nat.le_refl _
  unfold PLink.pot2
  show _ + (s.tx.transmit.1.flags + s.tx.transmit.1.nOut * _) ≤ _
  rw [hn]
  have := Nat.mul_le_mul_left s.tx.nOut hS
  omega

theorem hon_deliver {b : Int} {κ f r h : Nat} {s : PLink} (hc : CohP b κ f r s) (hh : HonP b h s) (a : Arrival)
    (rest : List Arrival) (ha : a ∈ s.toRx) :
    HonP b h (s.deliver a rest) ∧ (s.deliver a rest).pot2 h ≤ s.pot2 h := by
  have hb := hc.core.seq.bound
  obtain ⟨r', r1, r2, r3, hok', r4, hmono, _, _⟩ := hc.core.deliver a ha
  have hsc := fun j hj => sack_sound_below b (rxArr s.rx a) r' (f + s.tx.sentQ.length) hok' r2 r3 (by omega) r4 j hj
  have hdrop : (s.deliver a rest).toTx.drop h
      = s.toTx.drop h ++ [((rxArr s.rx a).last, sackGapBlocks (rxArr s.rx a))] := by
    show (s.toTx ++ _).drop h = _
    rw [List.drop_append_of_le_length hh.hle]
  refine ⟨⟨by show h ≤ (s.toTx ++ _).length; simp; have := hh.hle; omega, ?_⟩, ?_⟩
  · rw [hdrop]
    exact chain_append b s.rx (s.deliver a rest).rx _ hmono (fun j hj hx => (hsc j hj).2 hx) (fun j hj hx => (hsc j hj).1 hx) _
      hh.chain
  · have hS : (s.deliver a rest).S2 h ≤ s.S2 h := by
      unfold PLink.S2
      split
      · rename_i h0
        subst h0
        unfold PLink.U
        show usum (SafeP (s.deliver a rest) 0) s.tx.sentQ + _ ≤ _
        have : usum (SafeP (s.deliver a rest) 0) s.tx.sentQ ≤ usum (SafeP s 0) s.tx.sentQ := by
          apply usum_mono_mem
          intro c hcm hsafe
          obtain ⟨j, _, j2, j3⟩ := Seq.mem hc.core.seq.sent hcm
          rw [j3] at hsafe ⊢
          have hx := hmono j (by omega) hsafe.1
          refine ⟨hx, ?_⟩
          intro σ hσ
          rw [hdrop] at hσ
          rcases List.mem_append.mp hσ with hσ | hσ
          · exact hsafe.2 σ hσ
          · simp only [List.mem_singleton] at hσ
            rw [hσ]; exact (hsc j (by omega)).2 hx
        show _ + 2 * s.tx.outQ.length ≤ _
        omega
      · exact Nat.le_refl _
    unfold PLink.pot2
    show s.tx.flags + s.tx.nOut * _ ≤ _
    have := Nat.mul_le_mul_left s.tx.nOut hS
    omega

theorem usum_drop_append (Q : Int → Prop) (front moved : List SChunk) (k : Nat) :
    usum Q ((front ++ moved).drop k) ≤ usum Q front + 2 * moved.length := by
  have h1 := usum_drop Q (front ++ moved) k
  have h2 := usum_le Q moved
  rw [usum_append] at h1
  omega

/-- the head SACK is consumed -/
theorem hon_sack {b : Int} {κ f r h : Nat} {s : PLink} (hc : CohP b κ f r s) (hh : HonP b h s) (k : Nat) (hk : k ≤ r)
    (gaps : List (Nat × Nat)) (rest : List (Int × List (Nat × Nat))) (ht : s.toTx = (T b k, gaps) :: rest) :
    HonP b (h - 1) (s.deliverSack (T b k) gaps rest)
    ∧ ((k < κ ∧ (s.deliverSack (T b k) gaps rest).pot2 (h - 1) ≤ s.pot2 h)
       ∨ (κ ≤ k ∧ ∃ t' evs f', s.tx.receiveSack (T b k) gaps s.now1000 = .ok (some (t', evs)) ∧ SackIdx b k f s.tx t' gaps f'
            ∧ (dataOf t'.fwd.1.transmit.2).length + (s.deliverSack (T b k) gaps rest).pot2 (h - 1) ≤ s.pot2 h)) := by
  have hb := hc.core.seq.bound
  have hrhi := hc.core.rhi
  have hdrop : rest.drop (h - 1) = if h = 0 then rest else s.toTx.drop h := by
    split
    · rename_i h0; subst h0; rfl
    · rename_i h0
      rw [ht, show h = (h - 1) + 1 by omega, List.drop_succ_cons]; simp
  have hchain : Chain b s.rx (rest.drop (h - 1)) := by
    rw [hdrop]
    split
    · rename_i h0; subst h0
      have := hh.chain
      rw [ht] at this
      exact this.2
    · exact hh.chain
  have hle : h - 1 ≤ rest.length := by have := hh.hle; rw [ht] at this; simp at this; omega
  have hold : ∀ s' : PLink, s'.tx.nOut ≤ s.tx.nOut → h ≠ 0 → s'.S2 (h - 1) + 1 ≤ s.S2 h := by
    intro s' hn h0
    have h1 := s'.U_le 0
    unfold PLink.S2
    simp only [h0, if_false]
    split <;> omega
  rcases deliverSack_casesP hc k hk gaps rest with ⟨hlt, he⟩ | ⟨hge, t', evs, f', hrs, hidx, he⟩
  · rw [he]
    refine ⟨⟨hle, hchain⟩, Or.inl ⟨hlt, ?_⟩⟩
    have hS : ({ s with toTx := rest } : PLink).S2 (h - 1) ≤ s.S2 h := by
      by_cases h0 : h = 0
      · subst h0
        unfold PLink.S2 PLink.U
        simp only [if_true]
        have : usum (SafeP { s with toTx := rest } 0) s.tx.sentQ ≤ usum (SafeP s 0) s.tx.sentQ := by
          apply usum_mono_mem
          intro c _ hsafe
          refine ⟨hsafe.1, ?_⟩
          intro σ hσ
          apply hsafe.2
          rw [ht]
          simp only [List.drop_zero] at hσ ⊢
          exact List.mem_cons_of_mem _ hσ
        show usum (SafeP { s with toTx := rest } 0) s.tx.sentQ + 2 * s.tx.outQ.length ≤ _
        omega
      · have := hold { s with toTx := rest } (Nat.le_refl _) h0; omega
    unfold PLink.pot2
    show s.tx.flags + s.tx.nOut * _ ≤ _
    have := Nat.mul_le_mul_left s.tx.nOut hS
    omega
  · rw [he]
    refine ⟨⟨hle, hchain⟩, Or.inr ⟨hge, t', evs, f', hrs, hidx, ?_⟩⟩
    have hcons := hidx.cons
    have hfge := hidx.fge
    have hn1 : t'.nOut ≤ s.tx.nOut := by omega
    obtain ⟨hfl, hn2, hu2⟩ := transmit_weightsP t' (by
        have := hc.snd.flight.receiveSack _ _ _ t' evs hrs
        exact this.outQ) (SafeP { s with tx := t', toTx := rest } 0)
    have hfl1 : t'.flags ≤ t'.nOut := flags_le t'
    by_cases h0 : h = 0
    · subst h0
      have hch := hh.chain
      rw [ht] at hch
      simp only [List.drop_zero] at hch
      obtain ⟨front, moved, k2, p1, p2, p3, p4, p5, pcase⟩ := hidx.parts
      have hs1 := hc.core.seq.sent
      have hseq : Seq b (max k f) (s.tx.sentQ.drop (k - f)) := by
        have := Seq.drop (k - f) hs1 (by omega)
        rwa [show f + (k - f) = max k f by omega] at this
      have hlenl : max k f + (s.tx.sentQ.drop (k - f)).length < 2147483648 := by simp; omega
      have hPQ : ∀ c ∈ s.tx.sentQ.drop (k - f), SafeP s 0 c.tsn → SafeP { s with tx := t', toTx := rest } 0 c.tsn := by
        intro c _ hsafe
        refine ⟨hsafe.1, ?_⟩
        intro σ hσ
        apply hsafe.2
        rw [ht]
        simp only [List.drop_zero] at hσ ⊢
        exact List.mem_cons_of_mem _ hσ
      have hP : ∀ c ∈ s.tx.sentQ.drop (k - f), SafeP s 0 c.tsn → Below (T b k, gaps) c.tsn → Cov (T b k, gaps) c.tsn := by
        intro c _ hsafe
        apply hsafe.2
        rw [ht]; simp
      have hQ : ∀ c ∈ s.tx.sentQ.drop (k - f), Cov (T b k, gaps) c.tsn → SafeP { s with tx := t', toTx := rest } 0 c.tsn := by
        intro c hcm hcov
        obtain ⟨j, _, j2, j3⟩ := Seq.mem hseq hcm
        rw [j3] at hcov ⊢
        obtain ⟨x1, x2⟩ := hch.1 j (by simp at j2; omega) hcov
        exact ⟨x1, fun σ hσ => x2 σ (by simpa using hσ)⟩
      have hdropU := usum_drop (SafeP s 0) s.tx.sentQ (k - f)
      have hda := usum_drop_append (SafeP { s with tx := t', toTx := rest } 0) front moved k2
      rw [← p1] at hda
      have hU2 : ({ s with tx := t'.transmit.1, toRx := s.toRx ++ arrOf t'.transmit.2, toTx := rest } : PLink).U 0
          ≤ usum (SafeP { s with tx := t', toTx := rest } 0) t'.sentQ + 2 * t'.outQ.length := hu2
      have hU0 : s.U 0 = usum (SafeP s 0) s.tx.sentQ + 2 * s.tx.outQ.length := rfl
      unfold PLink.pot2 PLink.S2
      simp only [if_true]
      show _ + (t'.transmit.1.flags + t'.transmit.1.nOut * _) ≤ s.tx.flags + s.tx.nOut * s.U 0
      rw [hn2]
      rcases pcase with ⟨pf, pm⟩ | ⟨q, q1, q2, q3, q4, q5⟩
      · -- nothing changed: flags did not grow
        obtain ⟨hle1, _⟩ := usum_srP (q := 0) hseq (by omega) hlenl gaps _ p5 (Or.inl pf) (SafeP s 0)
          (SafeP { s with tx := t', toTx := rest } 0) hPQ hP hQ
        have hflag : t'.flags ≤ s.tx.flags := by
          unfold Tx.flags
          rw [p1, pf, pm, List.append_nil, List.drop_drop]
          have := flagCount_drop s.tx.sentQ (k - f + k2)
          rw [pm] at p4; simp at p4
          omega
        rw [pm] at hda p4
        simp at hda p4
        have hUle : ({ s with tx := t'.transmit.1, toRx := s.toRx ++ arrOf t'.transmit.2, toTx := rest } : PLink).U 0
            ≤ s.U 0 := by omega
        have := hon_pot_mono (f := s.tx.flags) (f' := t'.flags) hflag hn1 hUle
        omega
      · obtain ⟨_, hstrict⟩ := usum_srP (q := q) hseq (by omega) hlenl gaps _ p5 (Or.inr ⟨q2, q3, q4, q5⟩) (SafeP s 0)
          (SafeP { s with tx := t', toTx := rest } 0) hPQ hP hQ
        have hlt1 : usum (SafeP { s with tx := t', toTx := rest } 0) front + 1 ≤ usum (SafeP s 0) (s.tx.sentQ.drop (k - f)) := by
          rcases hstrict with he' | hlt'
          · rw [he'] at q5
            exact absurd (psi_lt_of_lex 0 q5) (Nat.lt_irrefl _)
          · exact hlt'
        have hUlt : ({ s with tx := t'.transmit.1, toRx := s.toRx ++ arrOf t'.transmit.2, toTx := rest } : PLink).U 0 + 1
            ≤ s.U 0 := by omega
        have := hon_pot_strict (f := s.tx.flags) hfl1 hn1 hUlt
        omega
    · have hS := hold { s with tx := t'.transmit.1, toRx := s.toRx ++ arrOf t'.transmit.2, toTx := rest }
        (by show t'.transmit.1.nOut ≤ _; omega) h0
      unfold PLink.pot2
      show _ + (t'.transmit.1.flags + t'.transmit.1.nOut * _) ≤ s.tx.flags + s.tx.nOut * s.S2 h
      rw [hn2]
      have := hon_pot_strict (f := s.tx.flags) hfl1 hn1 hS
      omega

end Aiortc.Sctp
