import Aiortc.Lemmas.C02.DrainPRAb
/-!
# Shapes of the sender operations with partial reliability (C02 drain)

`updateAdvAck_idx`: `_update_advanced_peer_ack_point` in index form (pops the abandoned chunks at the head of the sent
queue, the advanced peer ack point becomes the TSN before the new head, a FORWARD TSN is (re)scheduled as long as the
cumulative ack is behind it).  `transmit_fwd`: `_transmit` = the FORWARD TSN part, then `_transmit` of a state without a
pending FORWARD TSN.  `receiveSack_shapeP`, `t3Expired_shapeP`: the two operations for ANY sender state.
-/
namespace Aiortc.Sctp
open Aiortc.Gen

/-! ## `_update_advanced_peer_ack_point` -/

theorem popAbandoned_idx (b : Int) : ∀ (l : List SChunk) (F : Nat) (st : List (Nat × Int)) (nd : Bool), Seq b F l →
    ∃ k st', k ≤ l.length ∧ popAbandoned (T b F) st nd l = (T b (F + k), st', nd || decide (0 < k), l.drop k)
      ∧ (∀ c ∈ l.take k, c.abandoned = true) ∧ (∀ c, (l.drop k).head? = some c → c.abandoned = false) := by
  intro l
  induction l with
  | nil => intro F st nd _; exact ⟨0, st, Nat.le_refl _, by simp [popAbandoned], by simp, by simp⟩
  | cons c cs ih =>
    intro F st nd hs
    unfold popAbandoned
    by_cases ha : c.abandoned = true
    · simp only [ha, if_true]
      obtain ⟨k, st', k1, k2, k3, k4⟩ := ih (F + 1) (if (!flagU c.flags) = true then dictSet st c.sid c.ssn else st) true hs.2
      rw [hs.1, k2]
      refine ⟨k + 1, st', by simp; omega, ?_, ?_, by simpa using k4⟩
      · simp only [List.drop_succ_cons, Nat.zero_lt_succ, decide_true, Bool.or_true, Bool.true_or]
        rw [show F + 1 + k = F + (k + 1) by omega]
      · intro d hd
        simp only [List.take_succ_cons, List.mem_cons] at hd
        rcases hd with rfl | hd
        · exact ha
        · exact k3 d hd
    · simp only [ha, Bool.false_eq_true, if_false]
      exact ⟨0, st, Nat.zero_le _, by simp, by simp, by intro d hd; simp at hd; subst hd; simpa using ha⟩

/-- `_update_advanced_peer_ack_point`, TSNs as indices: `κ` = cumulative ack, `f0` = old advanced peer ack point -/
theorem updateAdvAck_idx (b : Int) (t : Tx) (κ f0 : Nat) (hκ : κ < 2147483648) (hf0 : f0 < 2147483648)
    (hls : t.lastSacked = T b κ) (hadv : t.advAck = T b f0) (hseq : Seq b (max κ f0) t.sentQ)
    (hneed : κ < f0 → t.forwardNeeded = true) :
    ∃ k, k ≤ t.sentQ.length ∧ t.updateAdvAck.sentQ = t.sentQ.drop k ∧ (∀ c ∈ t.sentQ.take k, c.abandoned = true)
      ∧ (∀ c, t.updateAdvAck.sentQ.head? = some c → c.abandoned = false)
      ∧ t.updateAdvAck.advAck = T b (max κ f0 + k)
      ∧ (t.updateAdvAck.forwardNeeded = true ↔ κ < max κ f0 + k)
      ∧ (κ < max κ f0 + k → ∃ st, t.updateAdvAck.forwardTsn = some (T b (max κ f0 + k), st))
      ∧ (¬ κ < max κ f0 + k → t.updateAdvAck.forwardTsn = t.forwardTsn) := by
  unfold Tx.updateAdvAck
  simp only
  generalize ht0 : (if uint32_gte t.lastSacked t.advAck = true then
      { t with advAck := t.lastSacked, forwardNeeded := false, forwardStreams := [] } else t) = t0
  have hs0 : t0.sentQ = t.sentQ := by rw [← ht0]; split <;> rfl
  have hft0 : t0.forwardTsn = t.forwardTsn := by rw [← ht0]; split <;> rfl
  have hgte : uint32_gte t.lastSacked t.advAck = decide (f0 ≤ κ) := by rw [hls, hadv, gte_T b κ f0 hκ hf0]
  have ha0 : t0.advAck = T b (max κ f0) := by
    rw [← ht0, hgte]
    by_cases h : f0 ≤ κ
    · simp only [h, decide_true, if_true]; rw [hls, Nat.max_eq_left h]
    · simp only [h, decide_false, Bool.false_eq_true, if_false]; rw [hadv, Nat.max_eq_right (by omega)]
  have hn0 : t0.forwardNeeded = true ↔ κ < f0 := by
    rw [← ht0, hgte]
    by_cases h : f0 ≤ κ
    · simp only [h, decide_true, if_true]; constructor
      · intro h'; cases h'
      · intro h'; omega
    · simp only [h, decide_false, Bool.false_eq_true, if_false]
      exact ⟨fun _ => by omega, fun h' => hneed h'⟩
  obtain ⟨k, st', k1, k2, k3, k4⟩ := popAbandoned_idx b t.sentQ (max κ f0) t0.forwardStreams t0.forwardNeeded hseq
  rw [hs0, ha0, k2]
  simp only
  have hnd : (t0.forwardNeeded || decide (0 < k)) = true ↔ κ < max κ f0 + k := by
    simp only [Bool.or_eq_true, decide_eq_true_eq, hn0]
    constructor
    · rintro (h | h) <;> omega
    · intro h
      rcases Nat.lt_or_ge κ f0 with h' | h'
      · exact Or.inl h'
      · right; rw [Nat.max_eq_left h'] at h; omega
  refine ⟨k, k1, ?_, k3, ?_, ?_, ?_, ?_, ?_⟩
  · split <;> rfl
  · split <;> exact k4
  · split <;> rfl
  · split
    · rename_i h; exact ⟨fun _ => hnd.mp h, fun _ => h⟩
    · rename_i h
      simp only
      exact ⟨fun h' => absurd h' h, fun h' => absurd (hnd.mpr h') h⟩
  · intro hlt
    have := hnd.mpr hlt
    simp only [this, if_true]
    exact ⟨st', rfl⟩
  · intro hlt
    have : ¬ ((t0.forwardNeeded || decide (0 < k)) = true) := fun h => hlt (hnd.mp h)
    simp only [this]
    exact hft0

/-- what `_update_advanced_peer_ack_point` leaves alone -/
theorem updateAdvAck_frame (t : Tx) :
    t.updateAdvAck.outQ = t.outQ ∧ t.updateAdvAck.lastSacked = t.lastSacked ∧ t.updateAdvAck.localTsn = t.localTsn
    ∧ t.updateAdvAck.t3 = t.t3 ∧ t.updateAdvAck.flight = t.flight := by
  have h := (updateAdvAck_spec t).frame
  generalize t.updateAdvAck = r at h
  refine ⟨?_, ?_, ?_, ?_, ?_⟩ <;> rw [h]

/-! ## `_transmit` with a FORWARD TSN pending -/

/-- FORWARD TSN chunks among the things a `_transmit` did -/
def fwdOf : List TxEv → List (Int × List (Nat × Int))
  | [] => []
  | .fwd c s :: evs => (c, s) :: fwdOf evs
  | _ :: evs => fwdOf evs

theorem fwdOf_append (a b : List TxEv) : fwdOf (a ++ b) = fwdOf a ++ fwdOf b := by
  induction a with
  | nil => rfl
  | cons e es ih => cases e <;> simp [fwdOf, ih]

theorem fwdOf_reverse_nil (l : List TxEv) (h : fwdOf l = []) : fwdOf l.reverse = [] := by
  induction l with
  | nil => rfl
  | cons e es ih =>
    rw [List.reverse_cons, fwdOf_append]
    cases e <;> simp_all [fwdOf]

theorem fwdOf_t3Restart (bb : Bool) : fwdOf (t3Restart bb) = [] := by unfold t3Restart; split <;> rfl

theorem rtxLoop_noFwd (cwnd : Nat) : ∀ (l : List SChunk) (st : RtxSt), fwdOf st.evs = [] →
    fwdOf (rtxLoop cwnd st l).1.evs = [] := by
  intro l
  induction l with
  | nil => intro st h; simpa [rtxLoop] using h
  | cons c cs ih =>
    intro st h
    rw [rtxLoop_cons]
    split
    · split
      · exact h
      · apply ih
        simp only [rtxSend]
        split
        · rw [fwdOf_append, fwdOf_reverse_nil _ (fwdOf_t3Restart _)]; simp [fwdOf, h]
        · simp [fwdOf, h]
    · exact ih _ h

theorem newLoop_evs (cwnd : Nat) : ∀ (fuel fl : Nat) (t3 : Bool) (outQ sent : List SChunk) (evs : List TxEv),
    ∃ more, fwdOf more = [] ∧ ∀ pre, newLoop cwnd fuel fl t3 outQ sent (pre ++ evs)
      = ((newLoop cwnd fuel fl t3 outQ sent evs).1, (newLoop cwnd fuel fl t3 outQ sent evs).2.1,
         (newLoop cwnd fuel fl t3 outQ sent evs).2.2.1, (newLoop cwnd fuel fl t3 outQ sent evs).2.2.2.1, pre ++ evs ++ more)
      ∧ (newLoop cwnd fuel fl t3 outQ sent evs).2.2.2.2 = evs ++ more := by
  intro fuel
  induction fuel with
  | zero => intro fl t3 outQ sent evs; exact ⟨[], rfl, fun pre => by simp [newLoop]⟩
  | succ fuel ih =>
    intro fl t3 outQ sent evs
    cases outQ with
    | nil => exact ⟨[], rfl, fun pre => by simp [newLoop]⟩
    | cons c outQ =>
      by_cases hlt : fl < cwnd
      · obtain ⟨more, hm, hh⟩ := ih (if c.inFlight then fl else fl + c.bookSize) true outQ (sent ++ [newChunk c])
          (evs ++ [TxEv.data (newChunk c).toR] ++ (if t3 then [] else [TxEv.t3start]))
        refine ⟨[TxEv.data (newChunk c).toR] ++ (if t3 then [] else [TxEv.t3start]) ++ more, ?_, ?_⟩
        · rw [fwdOf_append, fwdOf_append, hm]
          have : fwdOf (if t3 = true then [] else [TxEv.t3start]) = [] := by split <;> rfl
          simp [fwdOf, this]
        · intro pre
          rw [newLoop_cons, newLoop_cons]
          simp only [hlt, if_true]
          have h1 := (hh pre).1
          have h2 := (hh []).2
          simp only [List.append_assoc] at h1 h2 ⊢
          rw [h1, h2]
          simp
      · refine ⟨[], rfl, fun pre => ?_⟩
        rw [newLoop_cons, newLoop_cons]
        simp [hlt]

theorem fwd_idem (t : Tx) : t.fwd.1.fwd = (t.fwd.1, []) := by
  apply fwd_none
  rw [(fwd_fields t).1]

/-- `_transmit` = emit the pending FORWARD TSN, then `_transmit` without one -/
theorem transmit_fwd (t : Tx) : t.transmit = (t.fwd.1.transmit.1, t.fwd.2 ++ t.fwd.1.transmit.2) := by
  rw [transmit_eq t, transmit_eq t.fwd.1]
  simp only [fwd_idem]
  split
  · simp
  · obtain ⟨more, _, hh⟩ := newLoop_evs t.fwd.1.burstCwnd (t.fwd.1.afterRtx.outQ.length + 1) t.fwd.1.afterRtx.flight
      t.fwd.1.afterRtx.t3 t.fwd.1.afterRtx.outQ t.fwd.1.afterRtx.sentQ
      (rtxLoop t.fwd.1.burstCwnd t.fwd.1.rtxInit t.fwd.1.sentQ).1.evs.reverse
    have h1 := (hh t.fwd.2).1
    have h2 := (hh []).1
    have h3 := (hh []).2
    simp only [List.nil_append] at h2 h3 ⊢
    rw [h1]
    simp only [h3, List.append_assoc]

/-- without a pending FORWARD TSN, `_transmit` emits none -/
theorem transmit_noFwd (t : Tx) (hf : t.forwardTsn = none) : fwdOf t.transmit.2 = [] := by
  rw [transmit_eq]
  simp only [fwd_none t hf]
  have hr : fwdOf (rtxLoop t.burstCwnd t.rtxInit t.sentQ).1.evs.reverse = [] :=
    fwdOf_reverse_nil _ (rtxLoop_noFwd _ _ _ rfl)
  split
  · simpa using hr
  · obtain ⟨more, hm, hh⟩ := newLoop_evs t.burstCwnd (t.afterRtx.outQ.length + 1) t.afterRtx.flight t.afterRtx.t3
      t.afterRtx.outQ t.afterRtx.sentQ ([] ++ (rtxLoop t.burstCwnd t.rtxInit t.sentQ).1.evs.reverse)
    simp only
    rw [(hh []).2, fwdOf_append, hm]
    simpa using hr

theorem fwd_events (t : Tx) : fwdOf t.fwd.2 = (match t.forwardTsn with | some p => [p] | none => [])
    ∧ dataOf t.fwd.2 = [] := by
  unfold Tx.fwd
  cases t.forwardTsn with
  | none => exact ⟨rfl, rfl⟩
  | some p => refine ⟨?_, ?_⟩ <;> (simp only; split <;> rfl)

/-- the events of `_transmit`: the pending FORWARD TSN (if any), and the DATA chunks of the rest -/
theorem transmit_events (t : Tx) :
    fwdOf t.transmit.2 = (match t.forwardTsn with | some p => [p] | none => [])
    ∧ dataOf t.transmit.2 = dataOf t.fwd.1.transmit.2 ∧ t.transmit.1 = t.fwd.1.transmit.1 := by
  rw [transmit_fwd]
  simp only
  rw [fwdOf_append, dataOf_append, (fwd_events t).1, (fwd_events t).2, transmit_noFwd t.fwd.1 (by rw [(fwd_fields t).1])]
  simp

/-! ## `_receive_sack_chunk` -/

theorem gapLimit_eq (t : Tx) (cum : Int) : t.gapLimit cum = gapLimitOf cum t.sentQ := by
  unfold Tx.gapLimit gapLimitOf
  cases t.sentQ.getLast? <;> rfl

/-- `seen` and `highest_newly_acked` of a SACK on the sent queue `l` that the cumulative-ack loop left -/
def seenOf (cum : Int) (gaps : List (Nat × Nat)) (l : List SChunk) : List Int := (gapSeen cum (gapLimitOf cum l) gaps).1
def hnaOf (cum : Int) (gaps : List (Nat × Nat)) (l : List SChunk) : Int :=
  htnaHna (gapSeen cum (gapLimitOf cum l) gaps).1 (gapSeen cum (gapLimitOf cum l) gaps).2 cum l
def htnaOf (cum : Int) (gaps : List (Nat × Nat)) (l : List SChunk) : List SChunk :=
  htnaList (gapSeen cum (gapLimitOf cum l) gaps).1 (gapSeen cum (gapLimitOf cum l) gaps).2 l

/-- the gap phase: nothing (no gap blocks), or the HTNA loop followed by the strike loop -/
theorem sackGaps_shapeP (t : Tx) (cum : Int) (gaps : List (Nat × Nat)) (now : Int) (db : Nat)
    (ho : ∀ c ∈ t.outQ, Idle c) :
    ∃ (tH : Tx) (loss : Bool), tH.outQ = t.outQ
      ∧ (∃ fl sq oq, (t.sackGaps cum gaps now db).1 = { t with flight := fl, sentQ := sq, outQ := oq })
      ∧ ((gaps.isEmpty = true ∧ (t.sackGaps cum gaps now db).1 = t)
         ∨ (gaps.isEmpty = false ∧ tH.sentQ = htnaOf cum gaps t.sentQ
            ∧ (t.sackGaps cum gaps now db).1
                = (strikeLoop (seenOf cum gaps t.sentQ) (hnaOf cum gaps t.sentQ) now tH.sentQ.length 0 tH false).1
            ∧ loss = (t.sackGaps cum gaps now db).2.2)) := by
  cases hg : gaps.isEmpty with
  | true =>
    refine ⟨t, false, rfl, ⟨t.flight, t.sentQ, t.outQ, ?_⟩, Or.inl ⟨rfl, ?_⟩⟩ <;> simp [Tx.sackGaps, hg]
  | false =>
    have hs := sackGaps_strike t cum gaps now db ho hg
    have hfr := hs.frame
    simp only at hfr
    have hq : (t.sackHtna cum gaps db).sentQ = htnaOf cum gaps t.sentQ := by
      have := (htnaLoop_eq (gapSeen cum (t.gapLimit cum) gaps).1 (gapSeen cum (t.gapLimit cum) gaps).2 t.sentQ []
        t.flight db cum).1
      unfold htnaOf
      rw [← gapLimit_eq]
      simpa [Tx.sackHtna] using this
    have hh := (htnaLoop_eq (gapSeen cum (t.gapLimit cum) gaps).1 (gapSeen cum (t.gapLimit cum) gaps).2 t.sentQ []
        t.flight db cum).2
    refine ⟨t.sackHtna cum gaps db, (t.sackGaps cum gaps now db).2.2, rfl,
      ⟨(t.sackGaps cum gaps now db).1.flight, (t.sackGaps cum gaps now db).1.sentQ, (t.sackGaps cum gaps now db).1.outQ, ?_⟩,
      Or.inr ⟨rfl, hq, ?_, rfl⟩⟩
    · rw [hfr]; rfl
    · unfold seenOf hnaOf
      rw [← gapLimit_eq, ← hh]
      simp only [Tx.sackGaps, hg, Bool.false_eq_true, if_false]

structure SackShapeP (t t' : Tx) (cum : Int) (gaps : List (Nat × Nat)) (now : Int) : Prop where
  ex : ∃ t4 tH : Tx, t' = t4.updateAdvAck
    ∧ t4.lastSacked = cum ∧ t4.advAck = t.advAck ∧ t4.forwardNeeded = t.forwardNeeded ∧ t4.forwardTsn = t.forwardTsn
    ∧ t4.localTsn = t.localTsn ∧ tH.outQ = t.outQ
    ∧ ((gaps.isEmpty = true ∧ t4.sentQ = t.ackedQ cum ∧ t4.outQ = t.outQ)
       ∨ (gaps.isEmpty = false ∧ tH.sentQ = htnaOf cum gaps (t.ackedQ cum)
          ∧ t4.sentQ = (strikeLoop (seenOf cum gaps (t.ackedQ cum)) (hnaOf cum gaps (t.ackedQ cum)) now
                          tH.sentQ.length 0 tH false).1.sentQ
          ∧ t4.outQ = (strikeLoop (seenOf cum gaps (t.ackedQ cum)) (hnaOf cum gaps (t.ackedQ cum)) now
                          tH.sentQ.length 0 tH false).1.outQ))

theorem receiveSack_shapeP (t : Tx) (ho : ∀ c ∈ t.outQ, Idle c) (cum : Int) (gaps : List (Nat × Nat))
    (now : Int) (t' : Tx) (evs : List TxEv) (hr : t.receiveSack cum gaps now = .ok (some (t', evs))) :
    SackShapeP t t' cum gaps now := by
  rw [receiveSack_eq] at hr
  split at hr
  · cases hr
  · obtain ⟨tH, loss, hHo, hfrm, hcase⟩ := sackGaps_shapeP (t.sackAck cum) cum gaps now (t.sackDoneBytes cum)
      (by simpa [Tx.sackAck] using ho)
    generalize ((t.sackAck cum).sackGaps cum gaps now (t.sackDoneBytes cum)) = g at hr hfrm hcase
    obtain ⟨fl, sq, oq, hfrm⟩ := hfrm
    split at hr
    · rename_i t3 ht3
      have hfr := sackCwnd_frame _ _ _ _ _ _ _ ht3
      have hT3 := sackT3_frame t3 (t.sackDone cum)
      generalize (t3.sackT3 (t.sackDone cum)).1 = t4 at hr hT3
      simp only [Outcome.ok.injEq, Option.some.injEq, Prod.mk.injEq] at hr
      have e0 : t4.sentQ = g.1.sentQ ∧ t4.outQ = g.1.outQ := by rw [hT3, hfr]; exact ⟨rfl, rfl⟩
      refine ⟨t4, tH, hr.1.symm, ?_, ?_, ?_, ?_, ?_, hHo, ?_⟩
      · rw [hT3, hfr, hfrm]; rfl
      · rw [hT3, hfr, hfrm]; rfl
      · rw [hT3, hfr, hfrm]; rfl
      · rw [hT3, hfr, hfrm]; rfl
      · rw [hT3, hfr, hfrm]; rfl
      · rcases hcase with ⟨h1, h2⟩ | ⟨h1, h2, h3, _⟩
        · left
          rw [e0.1, e0.2, h2]
          exact ⟨h1, rfl, rfl⟩
        · right
          rw [e0.1, e0.2, h3]
          exact ⟨h1, h2, rfl, rfl⟩
    all_goals cases hr

/-! ## `_t3_expired` -/

structure T3ShapeP (t t' : Tx) : Prop where
  ex : ∃ tM : Tx, Parts TR t tM ∧ tM.lastSacked = t.lastSacked ∧ tM.advAck = t.advAck
    ∧ tM.forwardNeeded = t.forwardNeeded ∧ tM.forwardTsn = t.forwardTsn ∧ tM.localTsn = t.localTsn
    ∧ t'.sentQ = tM.updateAdvAck.sentQ ∧ t'.outQ = tM.updateAdvAck.outQ ∧ t'.advAck = tM.updateAdvAck.advAck
    ∧ t'.forwardNeeded = tM.updateAdvAck.forwardNeeded ∧ t'.forwardTsn = tM.updateAdvAck.forwardTsn
    ∧ t'.lastSacked = tM.updateAdvAck.lastSacked ∧ t'.localTsn = tM.updateAdvAck.localTsn
  t3 : t'.t3 = false
  flight : t'.flight = 0

theorem t3Expired_shapeP (t : Tx) (hw : WInv t) (now : Int) : T3ShapeP t (t.t3Expired now) := by
  have hm := (t3Marked_spec t now hw).frame
  have hp : Parts TR t (t.t3Marked now) := t3Mark_parts now t.sentQ.length 0 { t with t3 := false }
  refine ⟨⟨t.t3Marked now, hp, ?_, ?_, ?_, ?_, ?_, rfl, rfl, rfl, rfl, rfl, rfl, rfl⟩, ?_, rfl⟩
  · rw [hm]
  · rw [hm]
  · rw [hm]
  · rw [hm]
  · rw [hm]
  · rw [t3Expired_eq]
    have ha := (updateAdvAck_frame (t.t3Marked now)).2.2.2.1
    show (t.t3Marked now).updateAdvAck.t3 = false
    rw [ha, hm]

end Aiortc.Sctp
