import Aiortc.Lemmas.C02.DrainPRHon
/-!
# Every non-T3 step strictly decreases `phi3` (C02 drain, partial reliability)
-/
namespace Aiortc.Sctp
open Aiortc.Gen

theorem sumW_map_data (adv : Int) (N : Nat) (l : List RChunk) :
    sumW (wArr adv N) (l.map Arrival.data) = l.length * (4 + 2 * N) := by
  induction l with
  | nil => simp [sumW]
  | cons d ds ih => simp only [List.map_cons, sumW, ih, List.length_cons, Nat.succ_mul, wArr]; omega

theorem wSack_mono' (b : Int) (f f' N N' k : Nat) (hf : f ≤ f') (hN : f' + N' ≤ f + N) (hk : k < 2147483648)
    (hf' : f' < 2147483648) (p : Int × List (Nat × Nat)) (hp : p.1 = T b k) : wSack (T b f') N' p ≤ wSack (T b f) N p := by
  obtain ⟨c, g⟩ := p
  simp only at hp
  subst hp
  exact wSack_mono b f f' N N' k hf hN hk hf' g

theorem transmit_advAck (t : Tx) : t.transmit.1.advAck = t.advAck := by
  have := congrArg Tx.advAck (transmit_facts t).frame
  exact this

theorem phi_arith {W pot pot' E : Nat} (h : E + pot' ≤ pot) : W * pot' + E * W ≤ W * pot := by
  have := Nat.mul_le_mul_left W h
  rw [Nat.mul_add, Nat.mul_comm W E] at this
  omega

theorem phi_arith2 {W W' pot pot' E : Nat} (hW : W' ≤ W) (h : E + pot' ≤ pot) : W' * pot' + E * W' ≤ W * pot := by
  have h1 := phi_arith (W := W') h
  have h2 := Nat.mul_le_mul_right pot hW
  omega

theorem step_phi3 {b : Int} {κ f r h : Nat} {s : PLink} (hc : CohP b κ f r s) (hh : HonP b h s) (hq : ¬ s.Quiet) :
    ∃ h', h' ≤ h ∧ HonP b h' s.step ∧ s.step.phi3 h' + 1 ≤ s.phi3 h := by
  have hb := hc.core.seq.bound
  have hrhi := hc.core.rhi
  have hle := hc.core.seq.le
  cases hp : s.pending with
  | true =>
    rw [s.step_task hp]
    obtain ⟨h1, h2⟩ := hon_task hc hh
    refine ⟨h, Nat.le_refl _, h1, ?_⟩
    have hn : s.runTask.tx.nOut = s.tx.nOut := (transmit_queues s.tx).2
    have hadv : s.runTask.tx.advAck = s.tx.advAck := transmit_advAck s.tx
    have htoRx : s.runTask.toRx = s.toRx ++ arrOf s.tx.transmit.2 := rfl
    have hfw : sumW (wArr s.tx.advAck s.tx.nOut) (fwdArr s.tx.forwardTsn)
        ≤ (if s.tx.forwardTsn.isSome then 4 + 2 * s.tx.nOut else 0) := by
      cases s.tx.forwardTsn with
      | none => simp [sumW, fwdArr]
      | some p => simp only [fwdArr, sumW, Option.isSome_some, if_true, Nat.add_zero]; exact wArr_le _ _ _
    have hpa := phi_arith (W := 4 + 2 * s.tx.nOut) h2
    unfold PLink.phi3 PLink.wPending
    rw [hn, hadv, htoRx, arrOf_transmit, sumW_append, sumW_append, sumW_map_data, hp]
    show _ + _ + _ + (if s.runTask.pending = true then _ else 0) + _ + 1 ≤ _
    have : s.runTask.pending = false := rfl
    rw [this]
    simp only [Bool.false_eq_true, if_false, if_true]
    have e : s.runTask.toTx = s.toTx := rfl
    rw [e]
    omega
  | false =>
    cases hr : s.toRx with
    | cons a rest =>
      rw [s.step_arr a rest hp hr]
      have ha : a ∈ s.toRx := by rw [hr]; simp
      obtain ⟨h1, h2⟩ := hon_deliver hc hh a rest ha
      refine ⟨h, Nat.le_refl _, h1, ?_⟩
      obtain ⟨r', r1, r2, r3, _, _, _, hmatch, _⟩ := hc.core.deliver a ha
      have hw : wSack s.tx.advAck s.tx.nOut ((rxArr s.rx a).last, sackGapBlocks (rxArr s.rx a)) + 1
          ≤ wArr s.tx.advAck s.tx.nOut a := by
        cases a with
        | data d => have := wSack_le s.tx.advAck s.tx.nOut ((rxArr s.rx (.data d)).last, sackGapBlocks (rxArr s.rx (.data d)))
                    simp only [wArr]; omega
        | fwd c st =>
          obtain ⟨k, k1, k2, k3⟩ := hmatch
          simp only [wArr]
          split
          · rename_i hg
            rw [k2, hc.core.seq.adv, gte_T b k f (by omega) (by omega)] at hg
            have hfk : f ≤ k := by simpa using hg
            have : uint32_gte (rxArr s.rx (Arrival.fwd c st)).last s.tx.advAck = true := by
              rw [r2, hc.core.seq.adv, gte_T b r' f (by omega) (by omega)]; simp; omega
            simp only [wSack, this, if_true]; omega
          · have := wSack_le s.tx.advAck s.tx.nOut ((rxArr s.rx (.fwd c st)).last, sackGapBlocks (rxArr s.rx (.fwd c st)))
            omega
      have hpot := Nat.mul_le_mul_left (4 + 2 * s.tx.nOut) h2
      unfold PLink.phi3 PLink.wPending
      show sumW _ rest + sumW _ (s.toTx ++ [_]) + (if s.pending = true then _ else 0) + _ + 1 ≤ _
      rw [hr, hp, sumW_append]
      simp only [sumW, Bool.false_eq_true, if_false, Nat.add_zero]
      have e : (s.deliver a rest).tx = s.tx := rfl
      rw [e]
      omega
    | nil =>
      cases ht : s.toTx with
      | nil => exact absurd ⟨hr, ht, hp⟩ hq
      | cons p rest =>
        obtain ⟨cum, gaps⟩ := p
        rw [s.step_sack cum gaps rest hp hr ht]
        have hpm : (cum, gaps) ∈ s.toTx := by rw [ht]; simp
        obtain ⟨k, hk, hpk⟩ := hc.core.toTx _ hpm
        simp only at hpk
        subst hpk
        obtain ⟨h1, hcase⟩ := hon_sack hc hh k hk gaps rest ht
        refine ⟨h - 1, by omega, h1, ?_⟩
        have hfn : s.tx.forwardTsn = none := by
          cases hf : s.tx.forwardTsn with
          | none => rfl
          | some p => have := hc.snd.fwd (by simp [hf]); simp only at this; rw [hp] at this; cases this
        rcases hcase with ⟨hlt, hpot⟩ | ⟨hge, t', evs, f', hrs, hidx, hpot⟩
        · have he : s.deliverSack (T b k) gaps rest = { s with toTx := rest } := by
            unfold PLink.deliverSack; rw [receiveSack_staleP hc.core.seq k hlt]
          rw [he] at hpot ⊢
          have hpot' := Nat.mul_le_mul_left (4 + 2 * s.tx.nOut) hpot
          have hw1 : 1 ≤ wSack s.tx.advAck s.tx.nOut (T b k, gaps) := by unfold wSack; split <;> omega
          show sumW (wArr s.tx.advAck s.tx.nOut) s.toRx + sumW (wSack s.tx.advAck s.tx.nOut) rest
            + (if s.pending = true then 1 + (if s.tx.forwardTsn.isSome = true then 4 + 2 * s.tx.nOut else 0) else 0)
            + (4 + 2 * s.tx.nOut) * ({ s with toTx := rest } : PLink).pot2 (h - 1) + 1 ≤ s.phi3 h
          generalize ({ s with toTx := rest } : PLink).pot2 (h - 1) = P' at hpot' ⊢
          unfold PLink.phi3 PLink.wPending
          rw [ht, hp]
          simp only [sumW, Bool.false_eq_true, if_false]
          omega
        · have he : s.deliverSack (T b k) gaps rest
              = { s with tx := t'.transmit.1, toRx := s.toRx ++ arrOf t'.transmit.2, toTx := rest } := by
            unfold PLink.deliverSack; rw [hrs]
          rw [he] at hpot ⊢
          have hcons := hidx.cons
          have hfge := hidx.fge
          have hb' := hidx.seq.bound
          have hn2 : t'.transmit.1.nOut = t'.nOut := (transmit_queues t').2
          have hadv2 : t'.transmit.1.advAck = T b f' := by rw [transmit_advAck]; exact hidx.seq.adv
          have hrestW : sumW (wSack (T b f') t'.nOut) rest ≤ sumW (wSack (T b f) s.tx.nOut) rest := by
            apply sumW_mono
            intro p hp'
            obtain ⟨k', k1', k2'⟩ := hc.core.toTx p (by rw [ht]; exact List.mem_cons_of_mem _ hp')
            exact wSack_mono' b f f' s.tx.nOut t'.nOut k' (by omega) (by omega) (by omega) (by omega) p k2'
          have hfwdW : sumW (wArr (T b f') t'.nOut) (fwdArr t'.forwardTsn) + 1 ≤ wSack (T b f) s.tx.nOut (T b k, gaps) := by
            by_cases hlt : k < f'
            · obtain ⟨st, hst⟩ := hidx.fwdNew hlt
              rw [hst]
              simp only [fwdArr, sumW, wArr, Nat.add_zero]
              have : uint32_gte (T b f') (T b f') = true := by
                rw [gte_T b f' f' (by omega) (by omega)]; simp
              simp only [this, if_true]
              unfold wSack
              simp only
              rw [gte_T b k f (by omega) (by omega)]
              by_cases hfk : f ≤ k
              · simp only [hfk, decide_true, if_true]; omega
              · simp only [hfk, decide_false, Bool.false_eq_true, if_false]; omega
            · rw [hidx.fwdOld hlt, hfn]
              simp only [fwdArr, sumW]
              unfold wSack; split <;> omega
          have hpa := phi_arith2 (W := 4 + 2 * s.tx.nOut) (W' := 4 + 2 * t'.nOut) (by omega) hpot
          show sumW (wArr t'.transmit.1.advAck t'.transmit.1.nOut) (s.toRx ++ arrOf t'.transmit.2)
            + sumW (wSack t'.transmit.1.advAck t'.transmit.1.nOut) rest
            + (if s.pending = true then 1 + (if t'.transmit.1.forwardTsn.isSome = true then 4 + 2 * t'.transmit.1.nOut else 0) else 0)
            + (4 + 2 * t'.transmit.1.nOut)
                * ({ s with tx := t'.transmit.1, toRx := s.toRx ++ arrOf t'.transmit.2, toTx := rest } : PLink).pot2 (h - 1)
            + 1 ≤ s.phi3 h
          generalize ({ s with tx := t'.transmit.1, toRx := s.toRx ++ arrOf t'.transmit.2, toTx := rest } : PLink).pot2 (h - 1)
            = P' at hpa ⊢
          unfold PLink.phi3 PLink.wPending
          rw [hr, ht, hp, List.nil_append, hn2, hadv2, arrOf_transmit, sumW_append, sumW_map_data, hc.core.seq.adv]
          simp only [sumW, Bool.false_eq_true, if_false]
          omega

end Aiortc.Sctp
