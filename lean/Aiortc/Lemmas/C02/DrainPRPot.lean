import Aiortc.Lemmas.C02.DrainPRFault
/-!
# The potential of the continuation with partially reliable traffic (C02 drain)

As in `DrainHon3.lean` (`S2`, weights of outstanding chunks), plus the FORWARD TSN ping-pong: a SACK whose cumulative TSN
is behind the advanced peer ack point makes `_receive_sack_chunk` re-send the FORWARD TSN, which produces another SACK.
A SACK in flight weighs `1 + 2N` if it is at or beyond the ack point ("good"), `3 + 2N` if behind (`N = |sentQ| + |outQ|`);
the ack point only advances when a chunk leaves the queues, so a good SACK that falls behind is paid by the drop of `N`.
-/
namespace Aiortc.Sctp
open Aiortc.Gen

def sumW {α} (w : α → Nat) : List α → Nat
  | [] => 0
  | x :: xs => w x + sumW w xs

theorem sumW_append {α} (w : α → Nat) : ∀ a b : List α, sumW w (a ++ b) = sumW w a + sumW w b
  | [], _ => by simp [sumW]
  | x :: xs, b => by simp only [List.cons_append, sumW, sumW_append w xs b]; omega

theorem sumW_mono {α} {w w' : α → Nat} : ∀ (l : List α), (∀ x ∈ l, w' x ≤ w x) → sumW w' l ≤ sumW w l
  | [], _ => Nat.le_refl _
  | x :: xs, h => by
    have := h x (by simp)
    have := sumW_mono xs (fun y hy => h y (by simp [hy]))
    simp only [sumW]; omega

theorem sumW_le {α} (w : α → Nat) (c : Nat) : ∀ (l : List α), (∀ x ∈ l, w x ≤ c) → sumW w l ≤ l.length * c
  | [], _ => by simp [sumW]
  | x :: xs, h => by
    have := h x (by simp)
    have := sumW_le w c xs (fun y hy => h y (by simp [hy]))
    simp only [sumW, List.length_cons, Nat.succ_mul]; omega

theorem sumW_const {α} (c : Nat) : ∀ (l : List α), sumW (fun _ => c) l = l.length * c
  | [] => by simp [sumW]
  | x :: xs => by simp only [sumW, sumW_const c xs, List.length_cons, Nat.succ_mul]; omega

def wSack (adv : Int) (N : Nat) (p : Int × List (Nat × Nat)) : Nat :=
  if uint32_gte p.1 adv then 1 + 2 * N else 3 + 2 * N

def wArr (adv : Int) (N : Nat) : Arrival → Nat
  | .data _ => 4 + 2 * N
  | .fwd c _ => if uint32_gte c adv then 2 + 2 * N else 4 + 2 * N

theorem wSack_le (adv : Int) (N : Nat) (p : Int × List (Nat × Nat)) : wSack adv N p ≤ 3 + 2 * N := by
  unfold wSack; split <;> omega

theorem wArr_le (adv : Int) (N : Nat) (a : Arrival) : wArr adv N a ≤ 4 + 2 * N := by
  cases a with
  | data d => exact Nat.le_refl _
  | fwd c st => simp only [wArr]; split <;> omega

/-- the ack point advances only when chunks leave the queues: weights of what is in flight never grow -/
theorem wSack_mono (b : Int) (f f' N N' k : Nat) (hf : f ≤ f') (hN : f' + N' ≤ f + N) (hk : k < 2147483648)
    (hf' : f' < 2147483648) (gaps : List (Nat × Nat)) : wSack (T b f') N' (T b k, gaps) ≤ wSack (T b f) N (T b k, gaps) := by
  unfold wSack
  simp only
  rw [gte_T b k f' hk hf', gte_T b k f hk (by omega)]
  by_cases h1 : f' ≤ k <;> by_cases h2 : f ≤ k <;> simp [h1, h2] <;> omega

theorem wArr_mono (b : Int) (f f' hi N N' : Nat) (hf : f ≤ f') (hN : f' + N' ≤ f + N) (hf' : f' < 2147483648)
    (a : Arrival) (ha : ArrOk b f hi a) : wArr (T b f') N' a ≤ wArr (T b f) N a := by
  cases a with
  | data d => simp only [wArr]; omega
  | fwd c st =>
    obtain ⟨k, k1, k2⟩ := ha
    subst k2
    simp only [wArr]
    rw [gte_T b k f' (by omega) hf', gte_T b k f (by omega) (by omega)]
    by_cases h1 : f' ≤ k <;> by_cases h2 : f ≤ k <;> simp [h1, h2] <;> omega

/-! ## honest SACKs, weights -/

def SafeP (s : PLink) (h : Nat) (t : Int) : Prop := RxHas s.rx t ∧ ∀ σ ∈ s.toTx.drop h, Below σ t → Cov σ t

structure HonP (b : Int) (h : Nat) (s : PLink) : Prop where
  hle : h ≤ s.toTx.length
  chain : Chain b s.rx (s.toTx.drop h)

noncomputable def PLink.U (s : PLink) (h : Nat) : Nat := usum (SafeP s h) s.tx.sentQ + 2 * s.tx.outQ.length
noncomputable def PLink.S2 (s : PLink) (h : Nat) : Nat := if h = 0 then s.U 0 else h + 2 * s.tx.nOut
noncomputable def PLink.pot2 (s : PLink) (h : Nat) : Nat := s.tx.flags + s.tx.nOut * s.S2 h

/-- what the pending `_transmit` task will cost: itself and the FORWARD TSN it may emit -/
def PLink.wPending (s : PLink) : Nat :=
  if s.pending then 1 + (if s.tx.forwardTsn.isSome then 4 + 2 * s.tx.nOut else 0) else 0

noncomputable def PLink.phi3 (s : PLink) (h : Nat) : Nat :=
  sumW (wArr s.tx.advAck s.tx.nOut) s.toRx + sumW (wSack s.tx.advAck s.tx.nOut) s.toTx + s.wPending
    + (4 + 2 * s.tx.nOut) * s.pot2 h

theorem PLink.U_le (s : PLink) (h : Nat) : s.U h ≤ 2 * s.tx.nOut := by
  have := usum_le (SafeP s h) s.tx.sentQ
  unfold PLink.U Tx.nOut; omega

theorem PLink.S2_le (s : PLink) (h : Nat) : s.S2 h ≤ h + 2 * s.tx.nOut := by
  have := s.U_le 0
  unfold PLink.S2; split <;> omega

theorem PLink.pot2_le (s : PLink) (h : Nat) : s.pot2 h ≤ s.tx.nOut + s.tx.nOut * (h + 2 * s.tx.nOut) := by
  have h1 := flags_le s.tx
  have h2 := Nat.mul_le_mul_left s.tx.nOut (s.S2_le h)
  unfold PLink.pot2; omega

/-! ## `seen` when the cumulative TSN is behind the head of the queue -/

theorem gapLimit_seqP {b : Int} {l : List SChunk} {k F : Nat} (h : Seq b F l) (hk : k ≤ F) (hb : F + l.length < 2147483648)
    (hne : l ≠ []) : gapLimitOf (T b k) l = F + l.length - k := by
  unfold gapLimitOf
  cases l with
  | nil => exact absurd rfl hne
  | cons c cs =>
    obtain ⟨x, hx, ht⟩ := seq_getLast c h
    rw [hx]; simp only
    rw [ht]
    have hgt : uint32_gt (T b (F + (c :: cs).length)) (T b k) = true := by
      rw [gt_T b _ k (by omega) (by omega)]; simp only [List.length_cons, decide_eq_true_eq]; omega
    rw [if_pos hgt]; unfold T; simp only [List.length_cons] at hb ⊢; omega

theorem cov_seenP {b : Int} {k F : Nat} {l : List SChunk} (hs : Seq b F l) (hk : k ≤ F) (hb : F + l.length < 2147483648)
    (gaps : List (Nat × Nat)) (c : SChunk) (hc : c ∈ l) (hcov : Cov (T b k, gaps) c.tsn) :
    c.tsn ∈ seenOf (T b k) gaps l := by
  have hne : l ≠ [] := by intro h; rw [h] at hc; cases hc
  obtain ⟨j, j1, j2, j3⟩ := Seq.mem hs hc
  unfold seenOf
  rw [gapLimit_seqP hs hk hb hne, mem_gapSeen]
  rcases hcov with h | ⟨g, hg, kk, k1, k2, k3, k4⟩
  · exfalso
    simp only at h
    rw [j3, gte_T b k j (by omega) (by omega)] at h
    simp at h; omega
  · simp only at k4
    rw [j3, T_add] at k4
    have : j = k + kk := T_inj (by omega) (by omega) k4
    exact ⟨g, hg, kk, k1, by omega, by rw [j3, T_add, this]⟩

theorem seen_covP {b : Int} {k F : Nat} {l : List SChunk} (hs : Seq b F l) (hk : k ≤ F) (hb : F + l.length < 2147483648)
    (gaps : List (Nat × Nat)) (t : Int) (ht : t ∈ seenOf (T b k) gaps l) : Cov (T b k, gaps) t := by
  unfold seenOf at ht
  cases hl : l with
  | nil =>
    rw [hl, mem_gapSeen] at ht
    obtain ⟨g, hg, kk, k1, k2, k3⟩ := ht
    exact Or.inr ⟨g, hg, kk, k1, by omega, by simp [gapLimitOf] at k2; omega, k3⟩
  | cons x xs =>
    rw [gapLimit_seqP hs hk hb (by rw [hl]; simp), mem_gapSeen] at ht
    obtain ⟨g, hg, kk, k1, k2, k3⟩ := ht
    exact Or.inr ⟨g, hg, kk, k1, by omega, by omega, k3⟩

theorem seen_belowP {b : Int} {k F : Nat} {l : List SChunk} (hs : Seq b F l) (hk : k ≤ F) (hb : F + l.length < 2147483648)
    (gaps : List (Nat × Nat)) (t' t : Int) (ht : t' ∈ seenOf (T b k) gaps l) (hge : uint32_gte t' t = true) :
    Below (T b k, gaps) t := by
  obtain h | ⟨g, hg, kk, k1, k2, k3, k4⟩ := seen_covP hs hk hb gaps t' ht
  · -- `seen` never contains a TSN at or before the cumulative TSN with offset 0 … but the statement holds anyway
    unfold seenOf at ht
    rw [mem_gapSeen] at ht
    obtain ⟨g, hg, kk, k1, k2, k3⟩ := ht
    refine Or.inr ⟨g, hg, kk, k1, by omega, ?_, by rw [← k3]; exact hge⟩
    cases hl : l with
    | nil => rw [hl] at k2; simp [gapLimitOf] at k2; omega
    | cons x xs => rw [gapLimit_seqP hs hk hb (by rw [hl]; simp)] at k2; omega
  · exact Or.inr ⟨g, hg, kk, k1, k2, k3, by simp only at k4; rw [← k4]; exact hge⟩

/-- **one honest SACK, with abandonment**: the weights of the chunks that stay outstanding do not grow; they shrink if
the SACK newly gap-acks anything -/
theorem usum_srP {b : Int} {k F q : Nat} {l front : List SChunk} (hs : Seq b F l) (hk : k ≤ F) (hb : F + l.length < 2147483648)
    (gaps : List (Nat × Nat)) (hna : Int) (hpw : PW (SR (seenOf (T b k) gaps l) hna) l front)
    (hcase : front = l ∨ (q < 2147483648 ∧ hna = T b q ∧ T b q ∈ seenOf (T b k) gaps l ∧ LexLt l front))
    (P Q : Int → Prop) (hPQ : ∀ c ∈ l, P c.tsn → Q c.tsn)
    (hP : ∀ c ∈ l, P c.tsn → Below (T b k, gaps) c.tsn → Cov (T b k, gaps) c.tsn)
    (hQ : ∀ c ∈ l, Cov (T b k, gaps) c.tsn → Q c.tsn) :
    usum Q front ≤ usum P l ∧ (front = l ∨ usum Q front + 1 ≤ usum P l) := by
  rcases hcase with he | ⟨hq, hnaq, hmem, hlex⟩
  · rw [he]
    exact ⟨usum_mono_mem l hPQ, Or.inl rfl⟩
  · have hw : PW (WRel P Q) l front := by
      refine PW.imp_mem hpw ?_
      intro c hc d hr
      obtain ⟨r1, _, r3, r4⟩ := hr
      refine ⟨r1.1, hPQ c hc, ?_, ?_⟩
      · intro h1 h2
        exact hQ c hc (seen_covP hs hk hb gaps _ (r3 h1 h2))
      · intro h1 h2 hp
        obtain ⟨hns, hng⟩ := r4 h1 h2
        obtain ⟨j, j1, j2, j3⟩ := Seq.mem hs hc
        have hge : uint32_gte (T b q) c.tsn = true := by
          rw [hnaq, j3, gt_T b j q (by omega) hq] at hng
          rw [j3, gte_T b q j hq (by omega)]
          simpa using hng
        exact hns (cov_seenP hs hk hb gaps c hc (hP c hc hp (seen_belowP hs hk hb gaps _ _ hmem hge)))
    exact ⟨usum_pw hw, Or.inr (usum_lt hlex hw)⟩

end Aiortc.Sctp
