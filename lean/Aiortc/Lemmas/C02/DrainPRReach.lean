import Aiortc.Lemmas.C02.DrainPRRun
/-!
# Full drain from every coherent state, every reachable state is coherent (C02 drain, partial reliability)
-/
namespace Aiortc.Sctp
open Aiortc.Gen

/-- TSNs assigned but not yet cumulatively acknowledged: the FORWARD TSN gap plus the two queues -/
def Tx.unacked (t : Tx) : Nat := ((t.advAck - t.lastSacked) % 4294967296).toNat + t.nOut

theorem unacked_eq {b : Int} {κ f : Nat} {t : Tx} (h : TxSeqP b κ f t) : t.unacked + κ = f + t.nOut := by
  have := h.bound; have := h.le
  unfold Tx.unacked
  rw [h.adv, h.ls]
  unfold T Tx.nOut
  omega

/-- the explicit bound -/
def PLink.drainBound (s : PLink) : Nat :=
  s.toRx.length * (4 + 2 * s.tx.nOut) + s.toTx.length * (3 + 2 * s.tx.nOut) + (5 + 2 * s.tx.nOut)
    + (4 + 2 * s.tx.nOut) * (s.tx.nOut + s.tx.nOut * (s.toTx.length + 2 * s.tx.nOut))
    + quietBoundP s.tx.unacked

/-- **Full drain from every coherent state**, reliable and partially reliable traffic mixed. -/
theorem CohP.drains {b : Int} {κ f r : Nat} {s : PLink} (h : CohP b κ f r s) :
    ∃ j, j ≤ s.drainBound ∧ (PLink.run j s).Drained
      ∧ (PLink.run j s).tx.lastSacked = T b (f + s.tx.nOut) ∧ (PLink.run j s).tx.advAck = T b (f + s.tx.nOut)
      ∧ (PLink.run j s).rx.last = T b (f + s.tx.nOut) ∧ (PLink.run j s).tx.localTsn = T b (f + s.tx.nOut + 1)
      ∧ (PLink.run j s).tx.forwardNeeded = false
      ∧ CohP b (f + s.tx.nOut) (f + s.tx.nOut) (f + s.tx.nOut) (PLink.run j s) := by
  have hun := unacked_eq h.core.seq
  obtain ⟨j1, κ1, f1, r1, h1, hj1, hc1, hh1, hq1, hk1, hn1, _⟩ := quiesceP _ h (HonP.start b s) (Nat.le_refl _)
  obtain ⟨j2, κ2, f2, r2, hj2, hc2, hd2, hn2⟩ := drain_quietP s.tx.unacked hc1 hh1 hq1 (by omega)
  have hphi := phi3_le s s.toTx.length
  have hz : (PLink.run j2 (PLink.run j1 s)).tx.nOut = 0 := by
    unfold Tx.nOut; rw [hd2.sentQ, hd2.outQ]; rfl
  have hf2 : f2 = f + s.tx.nOut := by omega
  have hnn : (PLink.run j2 (PLink.run j1 s)).tx.forwardNeeded = false := by
    cases hx : (PLink.run j2 (PLink.run j1 s)).tx.forwardNeeded with
    | false => rfl
    | true =>
      rcases hc2.need hx with h' | h'
      · rw [hd2.t3] at h'; cases h'
      · rw [hd2.fwd] at h'; cases h'
  have hκ2 : κ2 = f2 := by
    have := hc2.core.seq.le
    rcases Nat.lt_or_ge κ2 f2 with hlt | hge
    · have := hc2.core.seq.needed.mpr hlt; rw [hnn] at this; cases this
    · omega
  have hr2 : r2 = f2 := by
    have := hc2.core.rlo; have := hc2.core.rhi; rw [hd2.sentQ] at this; simp at this; omega
  refine ⟨j1 + j2, by unfold PLink.drainBound; omega, ?_, ?_, ?_, ?_, ?_, ?_, ?_⟩
  · rw [PLink.run_add]; exact hd2
  · rw [PLink.run_add, hc2.core.seq.ls, hκ2, hf2]
  · rw [PLink.run_add, hc2.core.seq.adv, hf2]
  · rw [PLink.run_add, hc2.core.rlast, hr2, hf2]
  · rw [PLink.run_add, hc2.core.seq.localTsn, hd2.sentQ, hd2.outQ, hf2]; rfl
  · rw [PLink.run_add]; exact hnn
  · rw [PLink.run_add, ← hf2]
    have := hc2
    rw [hκ2, hr2] at this
    exact this

theorem CohP.faults : ∀ (fs : List Fault) {b : Int} {κ f r : Nat} {s : PLink}, CohP b κ f r s →
    f + s.tx.nOut + sentTotal fs + 1 < 2147483648 →
    ∃ κ' f' r', CohP b κ' f' r' (fs.foldl PLink.fault s)
      ∧ f' + (fs.foldl PLink.fault s).tx.nOut = f + s.tx.nOut + sentTotal fs
  | [], _, κ, f, r, _, h, _ => ⟨κ, f, r, h, rfl⟩
  | ft :: fs, b, κ, f, r, s, h, hb => by
    simp only [sentTotal] at hb
    obtain ⟨κ1, f1, r1, hc1, hn1⟩ := h.fault ft (by omega)
    obtain ⟨κ2, f2, r2, hc2, hn2⟩ := CohP.faults fs hc1 (by omega)
    exact ⟨κ2, f2, r2, hc2, by simp only [List.foldl_cons, sentTotal]; omega⟩

/-- the pair right after the association is set up -/
structure PLink.Fresh (s : PLink) : Prop where
  init : s.tx.Initial
  needed : s.tx.forwardNeeded = false
  ls : R32 s.tx.lastSacked
  adv : s.tx.advAck = s.tx.lastSacked
  localTsn : s.tx.localTsn = tsn_plus_one s.tx.lastSacked
  rxLast : s.rx.last = s.tx.lastSacked
  rxMis : s.rx.mis = []
  toRx : s.toRx = []
  toTx : s.toTx = []
  pending : s.pending = false

theorem PLink.Fresh.coh {s : PLink} (h : s.Fresh) : CohP s.tx.lastSacked 0 0 0 s ∧ s.tx.nOut = 0 := by
  have hn : s.tx.nOut = 0 := by unfold Tx.nOut; rw [h.init.sentQ, h.init.outQ]; rfl
  refine ⟨⟨⟨?_, ?_, ?_, Nat.le_refl _, Nat.zero_le _, ?_, ?_, ?_⟩, ?_, ?_⟩, hn⟩
  · refine ⟨h.ls, (T_zero h.ls).symm, by rw [h.adv]; exact (T_zero h.ls).symm, Nat.le_refl _,
      ⟨fun h' => (by rw [h.needed] at h'; cases h'), fun h' => (by omega)⟩,
      by rw [h.init.sentQ, h.init.outQ]; trivial, ?_, by rw [h.init.sentQ, h.init.outQ]; simp,
      fun p hp => (by rw [h.init.fwd] at hp; cases hp)⟩
    rw [h.localTsn, h.init.sentQ, h.init.outQ]
    conv => lhs; rw [← T_zero h.ls, T_succ]
    rfl
  · exact ⟨by rw [h.rxLast]; exact h.ls, by rw [h.rxMis]; simp, by rw [h.rxMis]; simp, by rw [h.rxMis]; rfl⟩
  · rw [h.rxLast]; exact (T_zero h.ls).symm
  · rw [h.rxMis]; simp
  · rw [h.toRx]; simp
  · rw [h.toTx]; simp
  · have := h.init.inv
    rw [h.pending]; exact this
  · intro h'; rw [h.needed] at h'; cases h'

end Aiortc.Sctp
