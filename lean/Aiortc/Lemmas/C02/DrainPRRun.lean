import Aiortc.Lemmas.C02.DrainPRPhi
/-!
# The continuation drains, partially reliable traffic included (C02 drain)

Measure: `D = f + nOut - κ`, the number of TSNs assigned but not yet cumulatively acknowledged.  Between two T3 expiries
`phi3` strictly decreases (`quiesceP`); every epoch strictly increases `κ` (`epochP`: after T3 a FORWARD TSN for the new
advanced peer ack point is in flight if the cumulative ack is behind it — the repeat rule — else the first outstanding
chunk is), while `f + nOut` is conserved.
-/
namespace Aiortc.Sctp
open Aiortc.Gen

structure PLink.Drained (s : PLink) : Prop where
  sentQ : s.tx.sentQ = []
  outQ : s.tx.outQ = []
  flight : s.tx.flight = 0
  fwd : s.tx.forwardTsn = none
  toRx : s.toRx = []
  toTx : s.toTx = []
  pending : s.pending = false
  t3 : s.tx.t3 = false

theorem PLink.quiet_drained (s : PLink) (hi : SndInv { tx := s.tx, pending := s.pending }) (hq : s.Quiet)
    (h3 : s.tx.t3 = false) : s.Drained := by
  have hp := hq.2.2
  have hs : s.tx.sentQ = [] := by
    cases hsq : s.tx.sentQ with
    | nil => rfl
    | cons c cs =>
      rcases hi.armed (by simp [hsq]) with h' | h'
      · simp [h3] at h'
      · simp [hp] at h'
  have ho : s.tx.outQ = [] := by
    cases hoq : s.tx.outQ with
    | nil => rfl
    | cons c cs =>
      rcases hi.queued (by simp [hoq]) with h' | h'
      · exact absurd hs h'
      · simp [hp] at h'
  have hf : s.tx.forwardTsn = none := by
    cases hfq : s.tx.forwardTsn with
    | none => rfl
    | some p => have := hi.fwd (by simp [hfq]); simp [hp] at this
  exact ⟨hs, ho, by rw [hi.flight.flight, hs]; rfl, hf, hq.1, hq.2.1, hp, h3⟩

theorem quiesceP : ∀ (n : Nat) {b : Int} {κ f r h : Nat} {s : PLink}, CohP b κ f r s → HonP b h s → s.phi3 h ≤ n →
    ∃ j κ' f' r' h', j ≤ n ∧ CohP b κ' f' r' (PLink.run j s) ∧ HonP b h' (PLink.run j s) ∧ (PLink.run j s).Quiet ∧ κ ≤ κ'
      ∧ f' + (PLink.run j s).tx.nOut = f + s.tx.nOut ∧ (AheadP b κ r s → κ < κ') := by
  intro n
  induction n with
  | zero =>
    intro b κ f r h s hc hh hn
    by_cases hq : s.Quiet
    · exact ⟨0, κ, f, r, h, Nat.le_refl _, hc, hh, hq, Nat.le_refl _, rfl, fun ha => absurd ha (not_aheadP_of_quiet hq)⟩
    · obtain ⟨_, _, _, hphi⟩ := step_phi3 hc hh hq
      omega
  | succ n ih =>
    intro b κ f r h s hc hh hn
    by_cases hq : s.Quiet
    · exact ⟨0, κ, f, r, h, Nat.zero_le _, hc, hh, hq, Nat.le_refl _, rfl, fun ha => absurd ha (not_aheadP_of_quiet hq)⟩
    · obtain ⟨κ1, f1, r1, hc1, hk1, hn1, hah1⟩ := step_progressP hc hq
      obtain ⟨h1, _, hh1, hphi⟩ := step_phi3 hc hh hq
      obtain ⟨j, κ2, f2, r2, h2, hj, hc2, hh2, hq2, hk2, hn2, hah2⟩ := ih hc1 hh1 (by omega)
      refine ⟨j + 1, κ2, f2, r2, h2, by omega, hc2, hh2, hq2, by omega, by simp only [PLink.run]; omega, ?_⟩
      intro ha
      rcases hah1 ha with h' | h'
      · omega
      · have := hah2 h'; omega

theorem HonP.quiet {b : Int} {h : Nat} {s : PLink} (hh : HonP b h s) (hq : s.Quiet) : h = 0 := by
  have := hh.hle; rw [hq.2.1] at this; simpa using this

theorem HonP.start (b : Int) (s : PLink) : HonP b s.toTx.length s :=
  ⟨Nat.le_refl _, by rw [List.drop_length]; trivial⟩

/-- the potential is bounded by the datagrams in flight and the chunks outstanding -/
theorem phi3_le (s : PLink) (h : Nat) :
    s.phi3 h ≤ s.toRx.length * (4 + 2 * s.tx.nOut) + s.toTx.length * (3 + 2 * s.tx.nOut) + (5 + 2 * s.tx.nOut)
      + (4 + 2 * s.tx.nOut) * (s.tx.nOut + s.tx.nOut * (h + 2 * s.tx.nOut)) := by
  have h1 := sumW_le (wArr s.tx.advAck s.tx.nOut) (4 + 2 * s.tx.nOut) s.toRx (fun a _ => wArr_le _ _ a)
  have h2 := sumW_le (wSack s.tx.advAck s.tx.nOut) (3 + 2 * s.tx.nOut) s.toTx (fun p _ => wSack_le _ _ p)
  have h3 : s.wPending ≤ 5 + 2 * s.tx.nOut := by
    unfold PLink.wPending; split
    · split <;> omega
    · omega
  have h4 := Nat.mul_le_mul_left (4 + 2 * s.tx.nOut) (s.pot2_le h)
  unfold PLink.phi3
  omega

theorem PLink.run_two (s : PLink) : PLink.run 2 s = s.step.step := rfl

/-- cost of one epoch with at most `m` chunks outstanding -/
def epochCostP (m : Nat) : Nat := 2 + (5 + 2 * m) + (4 + 2 * m) * (m + m * (2 * m))

theorem epochCostP_mono {m n : Nat} (h : m ≤ n) : epochCostP m ≤ epochCostP n := by
  have h1 : m + m * (2 * m) ≤ n + n * (2 * n) := by
    have := Nat.mul_le_mul h (Nat.mul_le_mul_left 2 h); omega
  have h2 := Nat.mul_le_mul (show 4 + 2 * m ≤ 4 + 2 * n by omega) h1
  unfold epochCostP; omega

/-- **one epoch starts**: T3 expiry, then the queued `_transmit` -/
theorem epochP {b : Int} {κ f r h : Nat} {s : PLink} (hc : CohP b κ f r s) (hh : HonP b h s) (hq : s.Quiet)
    (hopen : κ < f ∨ s.tx.sentQ ≠ []) :
    ∃ f', CohP b κ f' r s.fireT3.runTask ∧ HonP b 0 s.fireT3.runTask ∧ f' + s.fireT3.runTask.tx.nOut = f + s.tx.nOut
      ∧ s.fireT3.runTask.phi3 0 + 2 ≤ epochCostP s.tx.nOut ∧ AheadP b κ r s.fireT3.runTask := by
  have h0 := hh.quiet hq
  subst h0
  obtain ⟨f', hidx, hc1⟩ := hc.fireT3
  have hc2 := hc1.runTask
  have hh1 : HonP b 0 s.fireT3 := ⟨Nat.zero_le _, hh.chain⟩
  have hnq : ¬ s.fireT3.Quiet := fun hq' => by have := hq'.2.2; cases this
  obtain ⟨h', hle', hh2, hphi⟩ := step_phi3 hc1 hh1 hnq
  have hh0 : h' = 0 := by omega
  subst hh0
  rw [s.fireT3.step_task rfl] at hh2 hphi
  have hcons := hidx.cons
  have hn2 : s.fireT3.runTask.tx.nOut = (s.tx.t3Expired s.now1000).nOut := (transmit_queues _).2
  have hle1 : (s.tx.t3Expired s.now1000).nOut ≤ s.tx.nOut := by have := hidx.fge; omega
  have hb1 := phi3_le s.fireT3 0
  have e1 : s.fireT3.toRx = [] := hq.1
  have e2 : s.fireT3.toTx = [] := hq.2.1
  have e3 : s.fireT3.tx.nOut = (s.tx.t3Expired s.now1000).nOut := rfl
  rw [e1, e2, e3] at hb1
  simp only [List.length_nil, Nat.zero_mul, Nat.zero_add] at hb1
  have hmono := epochCostP_mono hle1
  refine ⟨f', hc2, hh2, by rw [hn2]; exact hcons, ?_, ?_⟩
  · unfold epochCostP at hmono ⊢
    omega
  · -- what the task emits
    have hb := hidx.seq.bound
    have hkf := hc.core.seq.le
    rcases Nat.lt_or_ge κ f' with hlt | hge
    · obtain ⟨st, hst⟩ := hidx.fwdNew hlt
      have hmem : Arrival.fwd (T b f') st ∈ arrOf (s.tx.t3Expired s.now1000).transmit.2 := by
        rw [arrOf_transmit, hst]
        exact List.mem_append.mpr (Or.inl (by simp [fwdArr]))
      left
      refine ⟨?_, Or.inr ⟨Arrival.fwd (T b f') st, ?_, f', hlt, by omega, rfl⟩⟩
      · show s.toRx ++ arrOf (s.tx.t3Expired s.now1000).transmit.2 ≠ []
        intro he; rw [(List.append_eq_nil_iff.mp he).2] at hmem; cases hmem
      · show _ ∈ s.toRx ++ arrOf _
        exact List.mem_append.mpr (Or.inr hmem)
    · have hff : f' = f := by have := hidx.fge; omega
      have hne : s.tx.sentQ ≠ [] := by
        rcases hopen with h | h
        · omega
        · exact h
      have hne' : (s.tx.t3Expired s.now1000).sentQ ≠ [] := by
        intro he
        have := hidx.pop hff (by rw [he]; rfl)
        exact hne (List.eq_nil_of_length_eq_zero this)
      obtain ⟨c, cs, hcs⟩ : ∃ c cs, (s.tx.t3Expired s.now1000).sentQ = c :: cs := by
        cases hsq : (s.tx.t3Expired s.now1000).sentQ with
        | nil => exact absurd hsq hne'
        | cons c cs => exact ⟨c, cs, rfl⟩
      obtain ⟨_, _, _, _, _, _, more, hev⟩ := t3_then_transmit s.tx hc.snd.flight.winv s.now1000 c cs hcs
      have hD : (rtxChunk c).toR ∈ dataOf (s.tx.t3Expired s.now1000).transmit.2 := by
        rw [hev, dataOf_append, dataOf_append]
        exact List.mem_append.mpr (Or.inl (List.mem_append.mpr (Or.inr (by simp [dataOf]))))
      have hmem : Arrival.data (rtxChunk c).toR ∈ arrOf (s.tx.t3Expired s.now1000).transmit.2 := by
        unfold arrOf
        exact List.mem_append.mpr (Or.inr (List.mem_map.mpr ⟨_, hD, rfl⟩))
      have hseq := hidx.seq.sent
      rw [hcs] at hseq
      left
      refine ⟨?_, Or.inr ⟨Arrival.data (rtxChunk c).toR, ?_, ?_⟩⟩
      · show s.toRx ++ arrOf (s.tx.t3Expired s.now1000).transmit.2 ≠ []
        intro he; rw [(List.append_eq_nil_iff.mp he).2] at hmem; cases hmem
      · show _ ∈ s.toRx ++ arrOf _
        exact List.mem_append.mpr (Or.inr hmem)
      · show c.tsn = T b (κ + 1)
        rw [hseq.1]; congr 1; omega

def quietBoundP (m : Nat) : Nat := m * epochCostP m + 2

theorem quietBoundP_step (m k : Nat) (hk : k ≤ m + 1) : epochCostP k + quietBoundP m ≤ quietBoundP (m + 1) := by
  have h1 : epochCostP k ≤ epochCostP (m + 1) := epochCostP_mono hk
  have h2 : m * epochCostP m ≤ m * epochCostP (m + 1) := Nat.mul_le_mul_left _ (epochCostP_mono (by omega))
  have h3 : (m + 1) * epochCostP (m + 1) = m * epochCostP (m + 1) + epochCostP (m + 1) := Nat.succ_mul _ _
  unfold quietBoundP
  omega

theorem transmit_emptyP (t : Tx) (hs : t.sentQ = []) (ho : t.outQ = []) (hf : t.forwardTsn = none) :
    t.transmit.1.t3 = t.t3 ∧ arrOf t.transmit.2 = [] ∧ t.transmit.1.sentQ = [] ∧ t.transmit.1.outQ = [] := by
  obtain ⟨e1, e2, e3, e4⟩ := transmit_empty t hs ho hf
  refine ⟨e1, ?_, e3, e4⟩
  unfold arrOf
  rw [e2, transmit_noFwd t hf]; rfl

theorem drain_quietP : ∀ (m : Nat) {b : Int} {κ f r h : Nat} {s : PLink}, CohP b κ f r s → HonP b h s → s.Quiet →
    f + s.tx.nOut ≤ κ + m →
    ∃ j κ' f' r', j ≤ quietBoundP m ∧ CohP b κ' f' r' (PLink.run j s) ∧ (PLink.run j s).Drained
      ∧ f' + (PLink.run j s).tx.nOut = f + s.tx.nOut := by
  intro m
  induction m with
  | zero =>
    intro b κ f r h s hc hh hq hm
    have hkf := hc.core.seq.le
    have hn0 : s.tx.nOut = 0 := by omega
    have hfk : f = κ := by omega
    cases h3 : s.tx.t3 with
    | false => exact ⟨0, κ, f, r, Nat.zero_le _, hc, s.quiet_drained hc.snd hq h3, rfl⟩
    | true =>
      have hsq : s.tx.sentQ = [] := List.eq_nil_of_length_eq_zero (by unfold Tx.nOut at hn0; omega)
      have hoq : s.tx.outQ = [] := List.eq_nil_of_length_eq_zero (by unfold Tx.nOut at hn0; omega)
      obtain ⟨f', hidx, hc1⟩ := hc.fireT3
      have hc2 := hc1.runTask
      have hcons := hidx.cons
      have hfge := hidx.fge
      have hn1 : (s.tx.t3Expired s.now1000).nOut = 0 := by omega
      have hf' : f' = f := by omega
      have hfn : s.tx.forwardTsn = none := by
        cases hfq : s.tx.forwardTsn with
        | none => rfl
        | some p => have := hc.snd.fwd (by simp [hfq]); simp only at this; rw [hq.2.2] at this; cases this
      have hfn1 : (s.tx.t3Expired s.now1000).forwardTsn = none := by rw [hidx.fwdOld (by omega), hfn]
      obtain ⟨e1, e2, e3, e4⟩ := transmit_emptyP (s.tx.t3Expired s.now1000)
        (List.eq_nil_of_length_eq_zero (by unfold Tx.nOut at hn1; omega))
        (List.eq_nil_of_length_eq_zero (by unfold Tx.nOut at hn1; omega)) hfn1
      have sh := t3Expired_shapeP s.tx hc.snd.flight.winv s.now1000
      have hrun : PLink.run 2 s = s.fireT3.runTask := by
        rw [PLink.run_two, s.step_t3 hq h3, PLink.step_task _ rfl]
      have hq2 : s.fireT3.runTask.Quiet :=
        ⟨by show s.toRx ++ arrOf (s.tx.t3Expired s.now1000).transmit.2 = []; rw [e2, hq.1]; rfl, hq.2.1, rfl⟩
      have h32 : s.fireT3.runTask.tx.t3 = false := by
        show (s.tx.t3Expired s.now1000).transmit.1.t3 = false
        rw [e1, sh.t3]
      refine ⟨2, κ, f', r, by unfold quietBoundP; omega, by rw [hrun]; exact hc2, ?_, ?_⟩
      · rw [hrun]; exact PLink.quiet_drained _ hc2.snd hq2 h32
      · rw [hrun]
        show f' + (s.tx.t3Expired s.now1000).transmit.1.nOut = _
        rw [(transmit_queues _).2]; exact hcons
  | succ m ih =>
    intro b κ f r h s hc hh hq hm
    have hkf := hc.core.seq.le
    cases h3 : s.tx.t3 with
    | false => exact ⟨0, κ, f, r, Nat.zero_le _, hc, s.quiet_drained hc.snd hq h3, rfl⟩
    | true =>
      by_cases hdone : κ < f ∨ s.tx.sentQ ≠ []
      · obtain ⟨f2, hc2, hh2, hn2, hphi2, hah2⟩ := epochP hc hh hq hdone
        have hrun : PLink.run 2 s = s.fireT3.runTask := by
          rw [PLink.run_two, s.step_t3 hq h3, PLink.step_task _ rfl]
        obtain ⟨j1, κ3, f3, r3, h3', hj1, hc3, hh3, hq3, hk3, hn3, hah3⟩ := quiesceP _ hc2 hh2 (Nat.le_refl _)
        have hlt := hah3 hah2
        obtain ⟨j2, κ4, f4, r4, hj2, hc4, hd4, hn4⟩ := ih hc3 hh3 hq3 (by omega)
        have hNle : s.tx.nOut ≤ m + 1 := by omega
        refine ⟨2 + j1 + j2, κ4, f4, r4, ?_, ?_, ?_, ?_⟩
        · have := quietBoundP_step m s.tx.nOut hNle
          omega
        · rw [PLink.run_add, PLink.run_add, hrun]; exact hc4
        · rw [PLink.run_add, PLink.run_add, hrun]; exact hd4
        · rw [PLink.run_add, PLink.run_add, hrun]; omega
      · -- nothing outstanding, no FORWARD TSN needed: at most one idle T3
        have hsq : s.tx.sentQ = [] := by
          cases hx : s.tx.sentQ with
          | nil => rfl
          | cons c cs => exact absurd (Or.inr (by simp [hx])) hdone
        have hoq : s.tx.outQ = [] := by
          cases ho : s.tx.outQ with
          | nil => rfl
          | cons c cs =>
            rcases hc.snd.queued (by simp [ho]) with h' | h'
            · exact absurd hsq h'
            · have := hq.2.2; simp only at h'; rw [this] at h'; cases h'
        have hfk : ¬ κ < f := fun h' => hdone (Or.inl h')
        obtain ⟨j, κ', f', r', hj, h1, h2, h3'⟩ := ih hc hh hq (by unfold Tx.nOut; rw [hsq, hoq]; simp; omega)
        exact ⟨j, κ', f', r', Nat.le_trans hj (by have := quietBoundP_step m 0 (by omega); omega), h1, h2, h3'⟩

end Aiortc.Sctp
