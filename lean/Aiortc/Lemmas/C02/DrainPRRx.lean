import Aiortc.Lemmas.C02.DrainPRSack
import Aiortc.Model.Sctp.Forward
/-!
# The receiver and FORWARD TSN (C02 drain, partial reliability)

`rxFwdTsn rx cum` = the cumulative-TSN part of `_receive_forward_tsn_chunk` (`Model/Sctp/Forward.lean`: ignored when
`cum` is not ahead, else `fwdRx`).  `rx_fwd`: in index form — the cumulative TSN jumps to at least `cum`, the misordered
set is pruned, nothing the receiver had is forgotten, `RxOk` is kept.
-/
namespace Aiortc.Sctp
open Aiortc.Gen

def rxFwdTsn (rx : Rx) (cum : Int) : Rx := if uint32_gte rx.last cum then rx else fwdRx rx cum

theorem RxOk.fwdRx {rx : Rx} (h : RxOk rx) (cum : Int) (hc : R32 cum) : RxOk (fwdRx rx cum) := by
  unfold Aiortc.Sctp.fwdRx
  have hall : ∀ x ∈ rx.mis.filter (fun x => uint32_gt x cum), R32 x ∧ x ≠ cum := by
    intro x hx
    rw [List.mem_filter] at hx
    refine ⟨(h.mis x hx.1).1, ?_⟩
    intro he
    have := hx.2
    rw [he] at this
    simp [uint32_gt] at this
  have hnd : (rx.mis.filter (fun x => uint32_gt x cum)).Nodup := h.nodup.filter _
  have hdist : (rx.mis.filter (fun x => uint32_gt x cum)).Pairwise (fun x y => serialKey cum x ≠ serialKey cum y) := by
    refine List.Pairwise.imp_of_mem ?_ hnd
    intro x y hx hy hxy hk
    apply hxy
    have a := (hall x hx).1; have b := (hall y hy).1
    unfold serialKey at hk; unfold R32 at a b; omega
  have hsorted := sortByKey_sorted cum _ hdist
  have hmem : ∀ x, x ∈ sortByKey cum (rx.mis.filter (fun x => uint32_gt x cum)) ↔ x ∈ rx.mis.filter (fun x => uint32_gt x cum) :=
    fun x => mem_sortByKey cum x _
  obtain ⟨j, _, hj⟩ := consolidate_adv (sortByKey cum (rx.mis.filter (fun x => uint32_gt x cum))) cum hc
  have hstop := consolidate_stop cum hc (sortByKey cum (rx.mis.filter (fun x => uint32_gt x cum))) cum hc hsorted
    (by
      intro x hx
      have := hall x ((hmem x).mp hx)
      refine ⟨this.1, ?_⟩
      unfold serialKey; unfold R32 at this hc; omega)
  dsimp only
  generalize consolidate cum (sortByKey cum (rx.mis.filter (fun x => uint32_gt x cum))) = L at hj hstop
  have hL : R32 L := by rw [hj]; unfold R32; omega
  refine ⟨hL, ?_, hnd.filter _, ?_⟩
  · intro x hx
    simp only [List.mem_filter] at hx
    refine ⟨(h.mis x hx.1.1).1, ?_⟩
    intro he
    have := hx.2
    rw [he] at this
    simp [uint32_gt] at this
  · simp only [List.contains_eq_mem, List.mem_filter, decide_eq_false_iff_not, not_and]
    intro hin
    exact absurd ((hmem _).mpr (List.mem_filter.mpr hin)) hstop

/-- **a FORWARD TSN arrives at the receiver**, TSNs as indices -/
theorem rx_fwd (b : Int) (rx : Rx) (r hi c : Nat) (hok : RxOk rx) (hl : rx.last = T b r) (hr : r ≤ hi)
    (hhi : hi < 2147483648) (hmis : ∀ x ∈ rx.mis, ∃ j, r < j ∧ j ≤ hi ∧ x = T b j) (hc : c ≤ hi) :
    ∃ r', r ≤ r' ∧ c ≤ r' ∧ r' ≤ hi ∧ (rxFwdTsn rx (T b c)).last = T b r'
      ∧ (∀ x ∈ (rxFwdTsn rx (T b c)).mis, ∃ j, r' < j ∧ j ≤ hi ∧ x = T b j) ∧ RxOk (rxFwdTsn rx (T b c))
      ∧ (∀ j, j < 2147483648 → RxHas rx (T b j) → RxHas (rxFwdTsn rx (T b c)) (T b j)) := by
  unfold rxFwdTsn
  rw [hl, gte_T b r c (by omega) (by omega)]
  by_cases hcr : c ≤ r
  · simp only [hcr, decide_true, if_true]
    exact ⟨r, Nat.le_refl _, hcr, hr, hl, hmis, hok, fun _ _ h => h⟩
  · simp only [hcr, decide_false, Bool.false_eq_true, if_false]
    have hall0 : ∀ x ∈ rx.mis.filter (fun x => uint32_gt x (T b c)), ∃ j, c < j ∧ j ≤ hi ∧ x = T b j := by
      intro x hx
      rw [List.mem_filter] at hx
      obtain ⟨j, j1, j2, j3⟩ := hmis x hx.1
      have := hx.2
      rw [j3, gt_T b j c (by omega) (by omega)] at this
      exact ⟨j, by simpa using this, j2, j3⟩
    have hlast : ∃ r', c ≤ r' ∧ r' ≤ hi ∧ (fwdRx rx (T b c)).last = T b r' := by
      show ∃ r', c ≤ r' ∧ r' ≤ hi ∧ consolidate (T b c) (sortByKey (T b c) (rx.mis.filter (fun x => uint32_gt x (T b c)))) = T b r'
      rcases consolidate_mem (sortByKey (T b c) (rx.mis.filter (fun x => uint32_gt x (T b c)))) (T b c) with e | e
      · exact ⟨c, Nat.le_refl _, hc, e⟩
      · obtain ⟨j, j1, j2, j3⟩ := hall0 _ ((mem_sortByKey _ _ _).mp e)
        exact ⟨j, by omega, j2, j3⟩
    obtain ⟨r', r1, r2, r3⟩ := hlast
    have hmis' : ∀ x ∈ (fwdRx rx (T b c)).mis, ∃ j, r' < j ∧ j ≤ hi ∧ x = T b j := by
      intro x hx
      have hx' : x ∈ (rx.mis.filter (fun x => uint32_gt x (T b c))).filter (fun x => uint32_gt x (fwdRx rx (T b c)).last) := hx
      rw [List.mem_filter, r3] at hx'
      obtain ⟨j, j1, j2, j3⟩ := hall0 x hx'.1
      have := hx'.2
      rw [j3, gt_T b j r' (by omega) (by omega)] at this
      exact ⟨j, by simpa using this, j2, j3⟩
    refine ⟨r', by omega, r1, r2, r3, hmis', hok.fwdRx _ (T_r32 b c), ?_⟩
    intro j hj hx
    rcases hx with hx | hx
    · left
      rw [hl, gte_T b r j (by omega) hj] at hx
      rw [r3, gte_T b r' j (by omega) hj]
      simp only [decide_eq_true_eq] at hx ⊢; omega
    · rcases Nat.lt_or_ge r' j with hlt | hge
      · right
        have : T b j ∈ (rx.mis.filter (fun x => uint32_gt x (T b c))).filter (fun x => uint32_gt x (fwdRx rx (T b c)).last) := by
          rw [List.mem_filter, List.mem_filter, r3, gt_T b j c hj (by omega), gt_T b j r' hj (by omega)]
          exact ⟨⟨hx, by simp; omega⟩, by simpa using hlt⟩
        exact this
      · left
        rw [r3, gte_T b r' j (by omega) hj]; simpa using hge

end Aiortc.Sctp
