import Aiortc.Lemmas.C02.DrainPRSeq
/-!
# One SACK / one T3 expiry on a sender with partially reliable traffic, in index form (C02 drain)
-/
namespace Aiortc.Sctp
open Aiortc.Gen

theorem strikeLoop_stop (seen : List Int) (hna now : Int) (fuel : Nat) (t : Tx) (loss : Bool)
    (h : ∀ c, t.sentQ.head? = some c → uint32_gt c.tsn hna = true) :
    strikeLoop seen hna now fuel 0 t loss = (t, loss) := by
  cases fuel with
  | zero => rfl
  | succ fuel =>
    rw [strikeLoop_succ]
    cases hq : t.sentQ with
    | nil => simp
    | cons c cs =>
      have := h c (by rw [hq]; rfl)
      simp [this]

theorem htnaChunk_sr (seen : List Int) (hna : Int) (c : SChunk) : SR seen hna c (htnaChunk seen c) := by
  unfold htnaChunk
  split
  · rename_i h
    simp only [Bool.and_eq_true, Bool.not_eq_true', List.contains_iff_mem] at h
    exact ⟨⟨rfl, rfl, rfl, rfl⟩, id, fun _ _ => h.1, fun hc _ => (by rw [h.2] at hc; cases hc)⟩
  · exact SR.refl seen hna c

theorem htnaList_sr (seen : List Int) (hs hna : Int) : ∀ l, PW (SR seen hna) l (htnaList seen hs l)
  | [] => trivial
  | c :: cs => by
    unfold htnaList; split
    · exact PW.refl (SR.refl seen hna) _
    · exact ⟨htnaChunk_sr seen hna c, htnaList_sr seen hs hna cs⟩

/-- the HTNA loop: nothing is newly gap-acked, or `highest_newly_acked` is the TSN of a chunk that was -/
theorem htna_new (b : Int) (seen : List Int) (hs : Int) : ∀ (l : List SChunk) (a q0 : Nat), Seq b a l →
    a + l.length < 2147483648 → q0 ≤ a →
    (htnaHna seen hs (T b q0) l = T b q0 ∧ htnaList seen hs l = l)
    ∨ ∃ (q i : Nat) (c d : SChunk), a < q ∧ q ≤ a + l.length ∧ htnaHna seen hs (T b q0) l = T b q ∧ T b q ∈ seen
        ∧ l[i]? = some c ∧ (htnaList seen hs l)[i]? = some d ∧ c.tsn = T b q ∧ c.acked = false ∧ d.acked = true := by
  intro l
  induction l with
  | nil => intro a q0 _ _ _; exact Or.inl ⟨rfl, rfl⟩
  | cons c cs ih =>
    intro a q0 hseq hlen hq0
    simp only [List.length_cons] at hlen
    have hct := hseq.1
    unfold htnaHna htnaList
    by_cases hstop : uint32_gt c.tsn hs = true
    · exact Or.inl ⟨by simp only [hstop, if_true], by simp only [hstop, if_true]⟩
    · simp only [hstop]
      by_cases hnew : (seen.contains c.tsn && !c.acked) = true
      · simp only [hnew, if_true]
        have hnew' := hnew
        simp only [Bool.and_eq_true, Bool.not_eq_true', List.contains_iff_mem] at hnew'
        have hck : htnaChunk seen c = { c with acked := true, inFlight := false } := by
          simp only [htnaChunk, hnew, if_true]
        rw [hct]
        right
        rcases ih (a + 1) (a + 1) hseq.2 (by omega) (Nat.le_refl _) with ⟨e1, _⟩ | ⟨q, i, c', d', g1, g2, g3, g4, g5, g6, g7⟩
        · exact ⟨a + 1, 0, c, htnaChunk seen c, by omega, by simp, e1, by rw [← hct]; exact hnew'.1, rfl, rfl, hct,
            hnew'.2, by rw [hck]⟩
        · exact ⟨q, i + 1, c', d', by omega, by simp; omega, g3, g4, by first | exact g5 | (simp only [List.getElem?_cons_succ]; exact g5), by first | exact g6 | (simp only [List.getElem?_cons_succ]; exact g6), g7⟩
      · simp only [hnew, Bool.false_eq_true, if_false]
        have hck : htnaChunk seen c = c := by simp only [htnaChunk, hnew, Bool.false_eq_true, if_false]
        rcases ih (a + 1) q0 hseq.2 (by omega) (by omega) with ⟨e1, e2⟩ | ⟨q, i, c', d', g1, g2, g3, g4, g5, g6, g7⟩
        · exact Or.inl ⟨e1, by rw [hck, e2]⟩
        · exact Or.inr ⟨q, i + 1, c', d', by omega, by simp; omega, g3, g4, by first | exact g5 | (simp only [List.getElem?_cons_succ]; exact g5), by first | exact g6 | (simp only [List.getElem?_cons_succ]; exact g6), g7⟩

theorem bitLe_tail (b : Int) (seen : List Int) (q : Nat) (hq : q < 2147483648) : ∀ (xs ys : List SChunk) (a : Nat),
    Seq b a xs → q ≤ a → a + xs.length < 2147483648 → PW (SR seen (T b q)) xs ys → PW BitLe xs ys
  | [], [], _, _, _, _, _ => trivial
  | x :: xs, y :: ys, a, hs, hqa, hb, h => by
    simp only [List.length_cons] at hb
    refine ⟨?_, bitLe_tail b seen q hq xs ys (a + 1) hs.2 (by omega) (by omega) h.2⟩
    intro hx
    cases hy : y.acked with
    | true => rfl
    | false =>
      have := (h.1.2.2.2 hx hy).2
      rw [hs.1, gt_T b (a + 1) q (by omega) hq] at this
      simp at this; omega
  | [], _ :: _, _, _, _, _, h => h.elim
  | _ :: _, [], _, _, _, _, h => h.elim

/-- a chunk was newly gap-acked and nothing beyond the highest newly acked TSN lost its gap-ack: `LexLt` -/
theorem lex_of_sr (b : Int) (seen : List Int) (q : Nat) (hq : q < 2147483648) : ∀ (l l' : List SChunk) (a i : Nat)
    (c d : SChunk), Seq b a l → a + l.length < 2147483648 → PW (SR seen (T b q)) l l' → l[i]? = some c → l'[i]? = some d →
    c.tsn = T b q → c.acked = false → d.acked = true → LexLt l l'
  | [], _, _, i, c, _, _, _, _, hc, _, _, _, _ => by simp at hc
  | _ :: _, [], _, _, _, _, _, _, h, _, _, _, _, _ => h.elim
  | x :: xs, y :: ys, a, 0, c, d, hs, hb, h, hc, hd, ht, h1, h2 => by
    simp at hc hd; subst hc; subst hd
    simp only [List.length_cons] at hb
    have hqa : q = a + 1 := T_inj (by omega) (by omega) (ht.symm.trans hs.1)
    exact LexLt.here h1 h2 (bitLe_tail b seen q hq xs ys (a + 1) hs.2 (by omega) (by omega) h.2)
  | x :: xs, y :: ys, a, i + 1, c, d, hs, hb, h, hc, hd, ht, h1, h2 => by
    simp only [List.length_cons] at hb
    exact LexLt.there (lex_of_sr b seen q hq xs ys (a + 1) i c d hs.2 (by omega) h.2 (by simpa using hc)
      (by simpa using hd) ht h1 h2)

/-- one SACK with cumulative TSN `T b κ` in index form: the queues afterwards, the new advanced peer ack point `T b f'`,
what happened to the flags of the chunks that stay outstanding -/
structure SackIdx (b : Int) (κ f : Nat) (t t' : Tx) (gaps : List (Nat × Nat)) (f' : Nat) : Prop where
  seq : TxSeqP b κ f' t'
  fge : max κ f ≤ f'
  cons : f' + t'.nOut = f + t.nOut
  hi : f + t.sentQ.length ≤ f' + t'.sentQ.length
  parts : ∃ front moved k2, t'.sentQ = (front ++ moved).drop k2 ∧ f' = max κ f + k2 ∧ k2 ≤ (front ++ moved).length
      ∧ t'.outQ.length + moved.length = t.outQ.length
      ∧ PW (SR (seenOf (T b κ) gaps (t.sentQ.drop (κ - f))) (hnaOf (T b κ) gaps (t.sentQ.drop (κ - f))))
          (t.sentQ.drop (κ - f)) front
      ∧ ((front = t.sentQ.drop (κ - f) ∧ moved = [])
         ∨ (∃ q, max κ f < q ∧ q < 2147483648 ∧ hnaOf (T b κ) gaps (t.sentQ.drop (κ - f)) = T b q
              ∧ T b q ∈ seenOf (T b κ) gaps (t.sentQ.drop (κ - f)) ∧ LexLt (t.sentQ.drop (κ - f)) front))
  fwdNew : κ < f' → ∃ st, t'.forwardTsn = some (T b f', st)
  fwdOld : ¬ κ < f' → t'.forwardTsn = t.forwardTsn

theorem sack_idx {b : Int} {κ0 f : Nat} {t t' : Tx} (h : TxSeqP b κ0 f t) (κ : Nat) (h1 : κ0 ≤ κ)
    (h2 : κ ≤ f + t.sentQ.length) (gaps : List (Nat × Nat)) (now : Int) (hs : SackShapeP t t' (T b κ) gaps now) :
    ∃ f', SackIdx b κ f t t' gaps f' := by
  have hb := h.bound
  obtain ⟨s1, s2⟩ := Seq.append.mp h.seq
  have hq : t.ackedQ (T b κ) = t.sentQ.drop (κ - f) := ackLoop_seqP b κ t.sentQ f _ _ _ s1 h2 (by omega)
  have hF : max κ f = f + (κ - f) := by omega
  have hlen : (t.sentQ.drop (κ - f)).length + (κ - f) = t.sentQ.length := by simp; omega
  have hseq : Seq b (max κ f) (t.sentQ.drop (κ - f)) := by
    rw [hF]; exact Seq.drop (κ - f) s1 (by omega)
  have hlenl : max κ f + (t.sentQ.drop (κ - f)).length < 2147483648 := by omega
  obtain ⟨t4, tH, e1, e2, e3, e4, e5, e6, eHo, ecase⟩ := hs.ex
  rw [hq] at ecase
  generalize hl : t.sentQ.drop (κ - f) = l at ecase hlen hseq hlenl
  -- the state before `_update_advanced_peer_ack_point`: front, moved
  have hmid : ∃ front moved m, t4.sentQ = front ++ moved ∧ t4.outQ = t.outQ.drop m ∧ PW MV (t.outQ.take m) moved
      ∧ PW (SR (seenOf (T b κ) gaps l) (hnaOf (T b κ) gaps l)) l front
      ∧ ((front = l ∧ moved = [])
         ∨ (∃ q, max κ f < q ∧ q < 2147483648 ∧ hnaOf (T b κ) gaps l = T b q ∧ T b q ∈ seenOf (T b κ) gaps l
              ∧ LexLt l front)) := by
    rcases ecase with ⟨_, g2, g3⟩ | ⟨_, g2, g3, g4⟩
    · exact ⟨l, [], 0, by rw [g2]; simp, by rw [g3]; simp, trivial, PW.refl (SR.refl _ _) l, Or.inl ⟨rfl, rfl⟩⟩
    · rcases htna_new b (seenOf (T b κ) gaps l) (gapSeen (T b κ) (gapLimitOf (T b κ) l) gaps).2 l (max κ f) κ hseq
          hlenl (by omega) with ⟨n1, n2⟩ | ⟨q, i, c, d, n1, n2, n3, n4, n5, n6, n7, n8, n9⟩
      · -- nothing newly gap-acked: the strike loop stops at once
        have hH : tH.sentQ = l := by rw [g2]; exact n2
        have hstop := strikeLoop_stop (seenOf (T b κ) gaps l) (hnaOf (T b κ) gaps l) now tH.sentQ.length tH false (by
          intro c hc
          rw [hH] at hc
          cases hl' : l with
          | nil => rw [hl'] at hc; cases hc
          | cons x xs =>
            rw [hl'] at hc hseq hlenl
            simp only [List.head?_cons, Option.some.injEq] at hc
            subst hc
            unfold hnaOf seenOf at *
            rw [hl'] at n1
            rw [n1, hseq.1, gt_T b (max κ f + 1) κ (by simp at hlenl; omega) (by omega)]
            simp; omega)
        rw [hstop] at g3 g4
        exact ⟨l, [], 0, by rw [g3, hH]; simp, by rw [g4, eHo]; simp, trivial, PW.refl (SR.refl _ _) l,
          Or.inl ⟨rfl, rfl⟩⟩
      · obtain ⟨front, moved, m, p1, p2, p3, p4⟩ := strikeLoop_parts (seenOf (T b κ) gaps l) (hnaOf (T b κ) gaps l) now
          tH.sentQ.length 0 tH false
        rw [← g3] at p1
        rw [← g4, eHo] at p2
        rw [eHo] at p4
        have hsr0 : PW (SR (seenOf (T b κ) gaps l) (hnaOf (T b κ) gaps l)) l tH.sentQ := by
          rw [g2]; exact htnaList_sr _ _ _ l
        have hsr : PW (SR (seenOf (T b κ) gaps l) (hnaOf (T b κ) gaps l)) l front :=
          PW.trans (R := SR _ _) (S := SR _ _) (T := SR _ _) (fun _ _ _ a b => SR.trans a b) hsr0 p3
        have hna : hnaOf (T b κ) gaps l = T b q := n3
        refine ⟨front, moved, m, p1, p2, p4, hsr, Or.inr ⟨q, n1, by omega, hna, n4, ?_⟩⟩
        -- the witness survives the strike loop
        have hd : tH.sentQ[i]? = some d := by rw [g2]; exact n6
        obtain ⟨d', hd', hr'⟩ := PW.getElem?' p3 i d hd
        have hdt : d.tsn = T b q := by
          obtain ⟨c0, hc0, hr0⟩ := PW.getElem? hsr0 i d hd
          rw [n5] at hc0; cases hc0
          rw [hr0.1.1, n7]
        have hd'a : d'.acked = true := by
          cases hx : d'.acked with
          | true => rfl
          | false =>
            have := (hr'.2.2.2 n9 hx).1
            rw [hdt] at this
            exact absurd n4 this
        rw [hna] at hsr
        exact lex_of_sr b _ q (by omega) l front (max κ f) i c d' hseq hlenl hsr n5 hd' n7 n8 hd'a
  obtain ⟨front, moved, m, m1, m2, m3, m4, mcase⟩ := hmid
  have lf := PW.length m4
  have lm := PW.length m3
  have hmle : (t.outQ.take m).length + (t.outQ.drop m).length = t.outQ.length := by
    rw [← List.length_append, List.take_append_drop]
  -- TSN structure before the ack-point update
  have hseq4 : Seq b (max κ f) (t4.sentQ ++ t4.outQ) := by
    rw [m1, m2, List.append_assoc]
    refine Seq.append.mpr ⟨Seq.pwT (PW.mono (fun _ _ x => x.1) m4) hseq, ?_⟩
    have hs2 : Seq b (max κ f + l.length) t.outQ := by
      rw [show max κ f + l.length = f + t.sentQ.length by omega]; exact s2
    have := Seq.pwT (PW.append (PW.mono (fun _ _ (x : MV _ _) => x.1) m3) (PW.refl SameT.refl (t.outQ.drop m)))
      (by rw [List.take_append_drop]; exact hs2)
    rw [← lf]; exact this
  obtain ⟨k2, u1, u2, u3, u4, u5, u6, u7, u8⟩ := updateAdvAck_idx b t4 κ f (by omega) (by omega) e2 (by rw [e3]; exact h.adv)
    (Seq.append.mp hseq4).1 (fun hlt => by rw [e4]; exact h.needed.mpr (by omega))
  obtain ⟨w1, w2, w3, _, _⟩ := updateAdvAck_frame t4
  rw [← e1] at u2 u4 u5 u6 u7 u8 w1 w2 w3
  have hn4 : t4.sentQ.length + t4.outQ.length + (κ - f) = t.sentQ.length + t.outQ.length := by
    rw [m1, m2]; simp only [List.length_append]; omega
  have hsl : t'.sentQ.length + k2 = t4.sentQ.length := by rw [u2]; simp; omega
  subst hl
  refine ⟨max κ f + k2, ⟨h.b32, by rw [w2]; exact e2, u5, by omega, u6, ?_, ?_, ?_, ?_⟩, by omega, ?_, ?_,
    ⟨front, moved, k2, by rw [u2, m1], rfl, by rw [← m1]; exact u1, by rw [w1, m2]; omega, m4, mcase⟩, u7, ?_⟩
  · rw [u2, w1, ← List.drop_append_of_le_length u1]
    exact Seq.drop k2 hseq4 (by simp; omega)
  · rw [w3, e6, h.localTsn, w1]; congr 1; omega
  · rw [w1]; omega
  · intro p hp
    by_cases hlt : κ < max κ f + k2
    · obtain ⟨st, hst⟩ := u7 hlt
      rw [hst] at hp; cases hp
      exact ⟨max κ f + k2, Nat.le_refl _, rfl⟩
    · rw [u8 hlt, e5] at hp
      obtain ⟨c, c1, c2⟩ := h.fwdv p hp
      exact ⟨c, by omega, c2⟩
  · unfold Tx.nOut; rw [w1]; omega
  · rw [m1] at hsl; simp only [List.length_append] at hsl; omega
  · intro hlt; rw [u8 hlt, e5]

/-- one T3 expiry in index form -/
structure T3Idx (b : Int) (κ f : Nat) (t t' : Tx) (f' : Nat) : Prop where
  seq : TxSeqP b κ f' t'
  fge : f ≤ f'
  cons : f' + t'.nOut = f + t.nOut
  hi : f + t.sentQ.length ≤ f' + t'.sentQ.length
  fwdNew : κ < f' → ∃ st, t'.forwardTsn = some (T b f', st)
  fwdOld : ¬ κ < f' → t'.forwardTsn = t.forwardTsn
  pop : f' = f → t'.sentQ.length = 0 → t.sentQ.length = 0

theorem t3_idx {b : Int} {κ f : Nat} {t t' : Tx} (h : TxSeqP b κ f t) (hs : T3ShapeP t t') : ∃ f', T3Idx b κ f t t' f' := by
  have hb := h.bound
  have hle := h.le
  obtain ⟨tM, hp, e2, e3, e4, e5, e6, q1, q2, q3, q4, q5, q6, q7⟩ := hs.ex
  obtain ⟨hpw, hl1, hl2⟩ := hp.concat (fun _ _ (x : TR _ _) => x.1)
  have hseqM : Seq b f (tM.sentQ ++ tM.outQ) := Seq.pwT hpw h.seq
  have hmax : max κ f = f := by omega
  obtain ⟨k2, u1, u2, u3, u4, u5, u6, u7, u8⟩ := updateAdvAck_idx b tM κ f (by omega) (by omega) (by rw [e2]; exact h.ls)
    (by rw [e3]; exact h.adv) (by rw [hmax]; exact (Seq.append.mp hseqM).1) (fun hlt => by rw [e4]; exact h.needed.mpr hlt)
  obtain ⟨w1, w2, w3, _, _⟩ := updateAdvAck_frame tM
  rw [hmax] at u5 u6 u7 u8
  rw [← q1] at u2 u4
  rw [← q3] at u5
  rw [← q4] at u6
  rw [← q5] at u7 u8
  rw [← q2] at w1
  rw [← q6] at w2
  rw [← q7] at w3
  have hsl : t'.sentQ.length + k2 = tM.sentQ.length := by rw [u2]; simp; omega
  refine ⟨f + k2, ⟨h.b32, by rw [w2, e2]; exact h.ls, u5, by omega, u6, ?_, ?_, ?_, ?_⟩, by omega, ?_, by omega, u7, ?_, ?_⟩
  · rw [u2, w1, ← List.drop_append_of_le_length u1]
    exact Seq.drop k2 hseqM (by simp; omega)
  · rw [w3, e6, h.localTsn, w1]; congr 1; omega
  · rw [w1]; omega
  · intro p hp'
    by_cases hlt : κ < f + k2
    · obtain ⟨st, hst⟩ := u7 hlt
      rw [hst] at hp'; cases hp'
      exact ⟨f + k2, Nat.le_refl _, rfl⟩
    · rw [u8 hlt, e5] at hp'
      obtain ⟨c, c1, c2⟩ := h.fwdv p hp'
      exact ⟨c, by omega, c2⟩
  · unfold Tx.nOut; rw [w1]; omega
  · intro hlt; rw [u8 hlt, e5]
  · intro hk hz; omega

end Aiortc.Sctp
