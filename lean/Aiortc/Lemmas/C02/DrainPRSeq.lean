import Aiortc.Lemmas.C02.DrainPROps
/-!
# TSN structure of the sender with partial reliability (C02 drain)

`TxSeqP b ls f t`: `lastSacked = T b ls`, the advanced peer ack point is `T b f` with `ls ≤ f` (`f` chunks left the queues:
cumulatively acked or abandoned and skipped), `forwardNeeded` iff `ls < f`, `sentQ ++ outQ` carry `T b (f+1), …`.
-/
namespace Aiortc.Sctp
open Aiortc.Gen

theorem Seq.pwT {b : Int} : ∀ {l l' : List SChunk} {a : Nat}, PW SameT l l' → Seq b a l → Seq b a l'
  | [], [], _, _, _ => trivial
  | _ :: cs, _ :: ds, _, h, hs => ⟨h.1.1.trans hs.1, Seq.pwT (l := cs) (l' := ds) h.2 hs.2⟩
  | [], _ :: _, _, h, _ => h.elim
  | _ :: _, [], _, h, _ => h.elim

theorem Parts.concat {R : SChunk → SChunk → Prop} (hR : ∀ c d, R c d → SameT c d) {t t' : Tx} (h : Parts R t t') :
    PW SameT (t.sentQ ++ t.outQ) (t'.sentQ ++ t'.outQ) ∧ t.sentQ.length ≤ t'.sentQ.length
    ∧ t'.sentQ.length + t'.outQ.length = t.sentQ.length + t.outQ.length := by
  obtain ⟨front, moved, m, h1, h2, h3, h4⟩ := h
  have l3 := PW.length h3
  have l4 := PW.length h4
  have hk : (t.outQ.take m).length + (t.outQ.drop m).length = t.outQ.length := by
    rw [← List.length_append, List.take_append_drop]
  refine ⟨?_, by rw [h1]; simp; omega, by rw [h1, h2]; simp only [List.length_append]; omega⟩
  rw [h1, h2, List.append_assoc]
  refine PW.append (PW.mono hR h3) ?_
  have := PW.append (PW.mono (fun _ _ (x : MV _ _) => x.1) h4) (PW.refl SameT.refl (t.outQ.drop m))
  rwa [List.take_append_drop] at this

/-- the cumulative-ack loop, also for a cumulative TSN behind the advanced peer ack point -/
theorem ackLoop_seqP (b : Int) (k : Nat) (l : List SChunk) (a fl done db : Nat) (hs : Seq b a l) (h2 : k ≤ a + l.length)
    (h3 : a + l.length < 2147483648) : (ackLoop (T b k) fl done db l).2.2.2 = l.drop (k - a) := by
  rcases Nat.lt_or_ge k a with hlt | hge
  · rw [show k - a = 0 by omega]
    cases l with
    | nil => simp [ackLoop]
    | cons c cs =>
      rw [ackLoop_cons, hs.1, gte_T b k (a + 1) (by simp at h3; omega) (by simp at h3; omega)]
      have : ¬ (a + 1 ≤ k) := by omega
      simp [this]
  · exact ackLoop_seq b k l a fl done db hs hge h2 h3

structure TxSeqP (b : Int) (κ f : Nat) (t : Tx) : Prop where
  b32 : R32 b
  ls : t.lastSacked = T b κ
  adv : t.advAck = T b f
  le : κ ≤ f
  needed : t.forwardNeeded = true ↔ κ < f
  seq : Seq b f (t.sentQ ++ t.outQ)
  localTsn : t.localTsn = T b (f + (t.sentQ.length + t.outQ.length) + 1)
  bound : f + (t.sentQ.length + t.outQ.length) + 1 < 2147483648
  fwdv : ∀ p, t.forwardTsn = some p → ∃ c, c ≤ f ∧ p.1 = T b c

theorem TxSeqP.sent {b : Int} {ls f : Nat} {t : Tx} (h : TxSeqP b ls f t) : Seq b f t.sentQ := (Seq.append.mp h.seq).1

theorem TxSeqP.enqueue {b : Int} {ls f : Nat} {t : Tx} (h : TxSeqP b ls f t) (sid ppid : Nat) (data : Bytes)
    (e m : Option Int) (o : Bool) (hb : f + t.nOut + fragCount data.length + 1 < 2147483648) :
    TxSeqP b ls f (t.enqueue sid ppid data e m o) := by
  unfold Tx.nOut at hb
  have hl := fragments_length t.localTsn sid (if o then (dictGet t.streamSeq sid).getD 0 else 0) ppid o e m
    (fragCount data.length) data (fragCount data.length)
  refine ⟨h.b32, h.ls, h.adv, h.le, h.needed, ?_, ?_, ?_, h.fwdv⟩
  · simp only [Tx.enqueue]
    rw [← List.append_assoc]
    refine Seq.append.mpr ⟨h.seq, ?_⟩
    have := fragments_seq b (f + (t.sentQ.length + t.outQ.length)) sid (if o then (dictGet t.streamSeq sid).getD 0 else 0)
      ppid o e m (fragCount data.length) data (fragCount data.length) (Nat.le_refl _)
    rw [← h.localTsn, Nat.sub_self, Nat.add_zero] at this
    simpa using this
  · simp only [Tx.enqueue, List.length_append, hl]
    rw [h.localTsn, T_add]; congr 1; omega
  · simp only [Tx.enqueue, List.length_append, hl]; omega

theorem TxSeqP.fwd {b : Int} {ls f : Nat} {t : Tx} (h : TxSeqP b ls f t) : TxSeqP b ls f t.fwd.1 := by
  obtain ⟨h1, _, _, _⟩ := fwd_fields t
  rw [h1]
  exact ⟨h.b32, h.ls, h.adv, h.le, h.needed, h.seq, h.localTsn, h.bound, fun p hp => by cases hp⟩

theorem TxSeqP.transmit {b : Int} {ls f : Nat} {t : Tx} (h : TxSeqP b ls f t) : TxSeqP b ls f t.transmit.1 := by
  rw [(transmit_events t).2.2]
  have h0 := h.fwd
  have hf : t.fwd.1.forwardTsn = none := by rw [(fwd_fields t).1]
  generalize t.fwd.1 = t0 at h0 hf
  obtain ⟨hpw, _, hlen⟩ := transmit_pw t0 hf
  have sh := transmit_shape t0 hf
  have hadv : t0.transmit.1.advAck = t0.advAck := by
    have := congrArg Tx.advAck (transmit_facts t0).frame
    exact this
  exact ⟨h0.b32, by rw [sh.lastSacked]; exact h0.ls, by rw [hadv]; exact h0.adv, h0.le, by rw [sh.needed]; exact h0.needed,
    Seq.pw hpw h0.seq, by rw [sh.localTsn, hlen]; exact h0.localTsn, by rw [hlen]; exact h0.bound,
    fun p hp => by rw [sh.fwd] at hp; cases hp⟩

/-- the two queues of `_transmit`'s result -/
theorem transmit_queues (t : Tx) : t.sentQ.length ≤ t.transmit.1.sentQ.length
    ∧ t.transmit.1.nOut = t.nOut := by
  rw [(transmit_events t).2.2]
  have hf : t.fwd.1.forwardTsn = none := by rw [(fwd_fields t).1]
  obtain ⟨q1, q2, q3⟩ := fwd_same_queues t
  obtain ⟨_, h1, h2⟩ := transmit_pw t.fwd.1 hf
  unfold Tx.nOut
  rw [q2] at h1
  rw [q2, q3] at h2
  exact ⟨h1, h2⟩

end Aiortc.Sctp
