import Aiortc.Lemmas.C02.DrainPRPot
/-!
# One step of the continuation with partially reliable traffic: coherence, conservation, the promise (C02 drain)
-/
namespace Aiortc.Sctp
open Aiortc.Gen

def PLink.Quiet (s : PLink) : Prop := s.toRx = [] ∧ s.toTx = [] ∧ s.pending = false

/-- this chunk will move the receiver's cumulative TSN beyond `T b κ` -/
def Adv (b : Int) (κ : Nat) : Arrival → Prop
  | .data d => d.tsn = T b (κ + 1)
  | .fwd c _ => ∃ k, κ < k ∧ k < 2147483648 ∧ c = T b k

/-- a SACK beyond the sender's cumulative ack is in flight, or a chunk whose SACK will be -/
def AheadP (b : Int) (κ r : Nat) (s : PLink) : Prop :=
  (s.toRx ≠ [] ∧ (κ < r ∨ ∃ a ∈ s.toRx, Adv b κ a))
  ∨ (∃ p ∈ s.toTx, ∃ k, κ < k ∧ k ≤ r ∧ p.1 = T b k)

theorem not_aheadP_of_quiet {b : Int} {κ r : Nat} {s : PLink} (hq : s.Quiet) : ¬ AheadP b κ r s := by
  rintro (⟨h, _⟩ | ⟨p, hp, _⟩)
  · exact h hq.1
  · rw [hq.2.1] at hp; cases hp

theorem PLink.step_task (s : PLink) (hp : s.pending = true) : s.step = s.runTask := by
  unfold PLink.step; simp [hp]

theorem PLink.step_arr (s : PLink) (a : Arrival) (rest : List Arrival) (hp : s.pending = false) (hr : s.toRx = a :: rest) :
    s.step = s.deliver a rest := by
  unfold PLink.step; simp [hp, hr]

theorem PLink.step_sack (s : PLink) (cum : Int) (gaps : List (Nat × Nat)) (rest : List (Int × List (Nat × Nat)))
    (hp : s.pending = false) (hr : s.toRx = []) (ht : s.toTx = (cum, gaps) :: rest) :
    s.step = s.deliverSack cum gaps rest := by
  unfold PLink.step; simp [hp, hr, ht]

theorem PLink.step_t3 (s : PLink) (hq : s.Quiet) (h3 : s.tx.t3 = true) : s.step = s.fireT3 := by
  unfold PLink.step; simp [hq.1, hq.2.1, hq.2.2, h3]

theorem PLink.step_rest (s : PLink) (hq : s.Quiet) (h3 : s.tx.t3 = false) : s.step = s := by
  unfold PLink.step; simp [hq.1, hq.2.1, hq.2.2, h3]

theorem step_progressP {b : Int} {κ f r : Nat} {s : PLink} (h : CohP b κ f r s) (hq : ¬ s.Quiet) :
    ∃ κ' f' r', CohP b κ' f' r' s.step ∧ κ ≤ κ' ∧ f' + s.step.tx.nOut = f + s.tx.nOut
      ∧ (AheadP b κ r s → κ < κ' ∨ AheadP b κ' r' s.step) := by
  have hbound := h.core.seq.bound
  have hrhi := h.core.rhi
  have hrlo := h.core.rlo
  cases hp : s.pending with
  | true =>
    rw [s.step_task hp]
    refine ⟨κ, f, r, h.runTask, Nat.le_refl _, by simp only [PLink.runTask]; rw [(transmit_queues s.tx).2], ?_⟩
    intro ha
    right
    rcases ha with ⟨h1, h2⟩ | ⟨p, hp1, hp2⟩
    · left
      refine ⟨by simp only [PLink.runTask]; intro he; exact h1 (List.append_eq_nil_iff.mp he).1, ?_⟩
      rcases h2 with h2 | ⟨a, ha, ha2⟩
      · exact Or.inl h2
      · exact Or.inr ⟨a, by simp only [PLink.runTask]; exact List.mem_append.mpr (Or.inl ha), ha2⟩
    · exact Or.inr ⟨p, hp1, hp2⟩
  | false =>
    cases hr : s.toRx with
    | cons a rest =>
      rw [s.step_arr a rest hp hr]
      have ha : a ∈ s.toRx := by rw [hr]; simp
      obtain ⟨r', r1, hc, hlast⟩ := h.deliver a ha rest (fun e he => by rw [hr]; simp [he])
      obtain ⟨r'', _, e2, _, _, _, _, hmatch, _⟩ := h.core.deliver a ha
      have hrr : r'' = r' := T_inj (by have := hc.core.rhi; have := hc.core.seq.bound; omega) (by
        have := hc.core.rhi; have := hc.core.seq.bound; simp only [PLink.deliver] at *; omega) (e2.symm.trans hlast)
      subst hrr
      refine ⟨κ, f, r'', hc, Nat.le_refl _, rfl, ?_⟩
      intro hah
      right
      have htx : (s.deliver a rest).toTx = s.toTx ++ [((rxArr s.rx a).last, sackGapBlocks (rxArr s.rx a))] := rfl
      have hnew : κ < r'' → AheadP b κ r'' (s.deliver a rest) := by
        intro hlt
        right
        exact ⟨((rxArr s.rx a).last, sackGapBlocks (rxArr s.rx a)), by rw [htx]; simp, r'', hlt, Nat.le_refl _, hlast⟩
      rcases hah with ⟨_, h2⟩ | ⟨p, hp1, kk, k1, k2, k3⟩
      · rcases h2 with h2 | ⟨a', ha', hadv⟩
        · exact hnew (by omega)
        · rw [hr] at ha'
          simp only [List.mem_cons] at ha'
          rcases ha' with rfl | ha'
          · -- the witness itself is delivered
            apply hnew
            cases a' with
            | data d =>
              obtain ⟨k, k1, k2, k3⟩ := hmatch
              have hk : k = κ + 1 := T_inj (by omega) (by omega) (k2.symm.trans hadv)
              rcases Nat.lt_or_ge κ r with hlt | hge
              · omega
              · have := k3 (by omega); omega
            | fwd c st =>
              obtain ⟨k, k1, k2, k3⟩ := hmatch
              obtain ⟨k', q1, q2, q3⟩ := hadv
              have hk : k = k' := T_inj (by omega) (by omega) (k2.symm.trans q3)
              omega
          · rcases Nat.lt_or_ge κ r'' with hlt | hge
            · exact hnew hlt
            · left
              have hne : (s.deliver a rest).toRx ≠ [] := by
                simp only [PLink.deliver]; intro he; rw [he] at ha'; cases ha'
              exact ⟨hne, Or.inr ⟨a', ha', hadv⟩⟩
      · right
        exact ⟨p, by rw [htx]; exact List.mem_append.mpr (Or.inl hp1), kk, k1, by omega, k3⟩
    | nil =>
      cases ht : s.toTx with
      | nil => exact absurd ⟨hr, ht, hp⟩ hq
      | cons p rest =>
        obtain ⟨cum, gaps⟩ := p
        rw [s.step_sack cum gaps rest hp hr ht]
        have hpm : (cum, gaps) ∈ s.toTx := by rw [ht]; simp
        have hrest : ∀ q ∈ rest, q ∈ s.toTx := fun q hq => by rw [ht]; simp [hq]
        obtain ⟨κ', f', k, hle, hk0, hkr, hcase, hc, hn⟩ := h.deliverSack (cum, gaps) hpm rest hrest
        refine ⟨κ', f', r, hc, hle, hn, ?_⟩
        intro hah
        rcases hah with ⟨h1, _⟩ | ⟨p, hp1, kk, k1, k2, k3⟩
        · exact absurd hr h1
        · have htx' : (s.deliverSack cum gaps rest).toTx = rest := by
            unfold PLink.deliverSack; split <;> rfl
          rw [ht] at hp1
          simp only [List.mem_cons] at hp1
          simp only at hk0
          rcases hp1 with rfl | hp1
          · have : k = kk := T_inj (by omega) (by omega) (hk0.symm.trans k3)
            rcases hcase with ⟨_, hlt⟩ | ⟨he, _⟩
            · omega
            · left; omega
          · rcases Nat.lt_or_ge κ' kk with hlt | hge
            · right; right
              exact ⟨p, by rw [htx']; exact hp1, kk, hlt, k2, k3⟩
            · left
              rcases hcase with ⟨he, _⟩ | ⟨he, _⟩ <;> omega

end Aiortc.Sctp
