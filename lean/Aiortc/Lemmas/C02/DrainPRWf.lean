import Aiortc.Lemmas.C02.DrainPRBoth
/-!
# Only partially reliable messages are ever abandoned (C02 drain)

`_maybe_abandon` walks from the chunk that exceeded its limits backwards to the FIRST fragment and forwards to the LAST
fragment of the same message.  `Wf l`: the queue `sentQ ++ outQ` is made of whole messages (possibly without the leading
fragments of the first one): two adjacent chunks of which the first is not a LAST fragment or the second is not a FIRST
fragment have the same reliability parameters, and the last chunk is a LAST fragment.  Under `Wf`, every chunk that
`_maybe_abandon` marks has the parameters of the chunk that exceeded its limits, hence is not reliable: `AbU` (abandoned ⇒
has `max_retransmits` or a lifetime) is an invariant (`maybeAbandon_aw`, `strikeLoop_aw`, `t3Mark_aw`).
-/
namespace Aiortc.Sctp
open Aiortc.Gen

/-- the chunk has `max_retransmits` or a lifetime -/
def SChunk.Unrel (c : SChunk) : Prop := ¬ (c.maxRetransmits = none ∧ c.expiry = none)

def Lim (c d : SChunk) : Prop := d.maxRetransmits = c.maxRetransmits ∧ d.expiry = c.expiry

theorem Lim.unrel {c d : SChunk} (h : Lim c d) (hc : c.Unrel) : d.Unrel := by
  unfold SChunk.Unrel at *; rw [h.1, h.2]; exact hc

theorem Lim.symm {c d : SChunk} (h : Lim c d) : Lim d c := ⟨h.1.symm, h.2.symm⟩

theorem SameT.lim {c d : SChunk} (h : SameT c d) : Lim c d := ⟨h.2.1, h.2.2.1⟩

theorem shouldAbandon_unrel {c : SChunk} {now : Int} (h : shouldAbandon c now = true) : c.Unrel := by
  intro hr
  unfold shouldAbandon at h
  rw [hr.1, hr.2] at h
  simp at h

def Adj (c d : SChunk) : Prop := (flagE c.flags = false ∨ flagB d.flags = false) → Lim c d

def AdjChain : List SChunk → Prop
  | [] => True
  | [_] => True
  | c :: d :: rest => Adj c d ∧ AdjChain (d :: rest)

/-- whole messages: adjacent fragments of one message share their parameters, the queue ends with a LAST fragment -/
def Wf (l : List SChunk) : Prop := AdjChain l ∧ ∀ c, l.getLast? = some c → flagE c.flags = true

/-- abandoned ⇒ partially reliable -/
def AbU (l : List SChunk) : Prop := ∀ c ∈ l, c.abandoned = true → c.Unrel

theorem Adj.sameT {c d c' d' : SChunk} (h : Adj c d) (h1 : SameT c c') (h2 : SameT d d') : Adj c' d' := by
  intro hp
  rw [h1.2.2.2, h2.2.2.2] at hp
  have := h hp
  exact ⟨by rw [h2.2.1, this.1, h1.2.1], by rw [h2.2.2.1, this.2, h1.2.2.1]⟩

theorem AdjChain.pwT : ∀ {l l' : List SChunk}, PW SameT l l' → AdjChain l → AdjChain l'
  | [], [], _, _ => trivial
  | [_], [_], _, _ => trivial
  | _ :: d :: rest, _ :: d' :: rest', h, hc =>
    ⟨hc.1.sameT h.1 h.2.1, AdjChain.pwT (l := d :: rest) (l' := d' :: rest') h.2 hc.2⟩
  | [], _ :: _, h, _ => h.elim
  | _ :: _, [], h, _ => h.elim
  | [_], _ :: _ :: _, h, _ => h.2.elim
  | _ :: _ :: _, [_], h, _ => h.2.elim

theorem PW.getLast? {α} {R : α → α → Prop} : ∀ {l l' : List α}, PW R l l' → ∀ d, l'.getLast? = some d →
    ∃ c, l.getLast? = some c ∧ R c d
  | [], [], _, d, hd => by cases hd
  | [c], [d0], h, d, hd => by simp at hd; subst hd; exact ⟨c, rfl, h.1⟩
  | c :: c2 :: cs, d0 :: d2 :: ds, h, d, hd => by
    rw [List.getLast?_cons_cons] at hd ⊢
    exact PW.getLast? (l := c2 :: cs) (l' := d2 :: ds) h.2 d hd
  | [], _ :: _, h, _, _ => h.elim
  | _ :: _, [], h, _, _ => h.elim
  | [_], _ :: _ :: _, h, _, _ => h.2.elim
  | _ :: _ :: _, [_], h, _, _ => h.2.elim

theorem Wf.pwT {l l' : List SChunk} (h : PW SameT l l') (hw : Wf l) : Wf l' := by
  refine ⟨AdjChain.pwT h hw.1, ?_⟩
  intro d hd
  obtain ⟨c, hc, hr⟩ := PW.getLast? h d hd
  rw [hr.2.2.2]; exact hw.2 c hc

theorem AdjChain.tail {c : SChunk} {l : List SChunk} (h : AdjChain (c :: l)) : AdjChain l := by
  cases l with
  | nil => trivial
  | cons d ds => exact h.2

theorem AdjChain.drop : ∀ (k : Nat) {l : List SChunk}, AdjChain l → AdjChain (l.drop k)
  | 0, _, h => by simpa using h
  | _ + 1, [], _ => by simp [AdjChain]
  | k + 1, c :: cs, h => by simpa using AdjChain.drop k h.tail

theorem Wf.drop (k : Nat) {l : List SChunk} (h : Wf l) : Wf (l.drop k) := by
  refine ⟨h.1.drop k, ?_⟩
  intro c hc
  rcases Nat.lt_or_ge k l.length with hlt | hge
  · rw [List.getLast?_drop, if_neg (by omega)] at hc
    exact h.2 c hc
  · rw [List.drop_eq_nil_of_le hge] at hc; cases hc

theorem AdjChain.take : ∀ (k : Nat) {l : List SChunk}, AdjChain l → AdjChain (l.take k)
  | 0, _, _ => by simp [AdjChain]
  | _ + 1, [], _ => by simp [AdjChain]
  | 1, c :: cs, _ => by simp [AdjChain]
  | k + 2, [c], _ => by simp [AdjChain]
  | k + 2, c :: d :: rest, h => by
    have := AdjChain.take (k + 1) h.2
    simp only [List.take_succ_cons] at this ⊢
    exact ⟨h.1, this⟩

theorem AdjChain.snoc2 : ∀ (a : List SChunk) (d x : SChunk), AdjChain (a ++ [d, x]) → AdjChain (a ++ [d]) ∧ Adj d x
  | [], d, x, h => ⟨trivial, h.1⟩
  | [c], d, x, h => ⟨⟨h.1, trivial⟩, h.2.1⟩
  | c :: c2 :: cs, d, x, h => by
    obtain ⟨h1, h2⟩ := AdjChain.snoc2 (c2 :: cs) d x h.2
    exact ⟨⟨h.1, h1⟩, h2⟩

/-! ## the walks of `_maybe_abandon` -/

def FwdOk : List SChunk → Prop
  | [] => True
  | c :: cs => c.Unrel ∧ (flagE c.flags = false → FwdOk cs)

def BackOk : List SChunk → Prop
  | [] => True
  | c :: cs => c.Unrel ∧ (flagB c.flags = false → BackOk cs)

theorem fwdOk_of_chain : ∀ (l : List SChunk), AdjChain l → (∀ c, l.head? = some c → c.Unrel) → FwdOk l
  | [], _, _ => trivial
  | [c], _, h => ⟨h c rfl, fun _ => trivial⟩
  | c :: d :: rest, hc, h =>
    ⟨h c rfl, fun he => fwdOk_of_chain (d :: rest) hc.2 (fun x hx => by
      simp at hx; subst hx; exact (hc.1 (Or.inl he)).unrel (h c rfl))⟩

theorem fwdOk_tail : ∀ (l l' : List SChunk), FwdOk (l ++ l') → (∀ c ∈ l, flagE c.flags = false) → FwdOk l'
  | [], _, h, _ => h
  | c :: cs, l', h, he => fwdOk_tail cs l' (h.2 (he c (by simp))) (fun x hx => he x (by simp [hx]))

def RevChain : SChunk → List SChunk → Prop
  | _, [] => True
  | x, d :: ds => Adj d x ∧ RevChain d ds

theorem revChain_of_chain : ∀ (m : List SChunk) (x : SChunk), AdjChain (m.reverse ++ [x]) → RevChain x m
  | [], _, _ => trivial
  | d :: ds, x, h => by
    rw [List.reverse_cons, List.append_assoc] at h
    obtain ⟨h1, h2⟩ := AdjChain.snoc2 ds.reverse d x h
    exact ⟨h2, revChain_of_chain ds d h1⟩

theorem backOk_of_rev : ∀ (m : List SChunk) (x : SChunk), RevChain x m → x.Unrel → BackOk (x :: m)
  | [], _, _, hx => ⟨hx, fun _ => trivial⟩
  | d :: ds, _, h, hx =>
    ⟨hx, fun hb => backOk_of_rev ds d h.2 ((h.1 (Or.inr hb)).symm.unrel hx)⟩

theorem abMark_unrel {c : SChunk} (h : c.Unrel) : (abMark c).Unrel := h

theorem abandonFwd_abu : ∀ (l : List SChunk) (fl : Nat), FwdOk l →
    (∀ d ∈ (abandonFwd fl l).2.1, d ∈ l ∨ d.Unrel)
    ∧ ((abandonFwd fl l).2.2 = false → ∀ c ∈ l, flagE c.flags = false) := by
  intro l
  induction l with
  | nil => intro fl _; simp [abandonFwd]
  | cons c cs ih =>
    intro fl hok
    rw [abandonFwd_cons]
    by_cases he : flagE c.flags = true
    · simp only [he, if_true]
      refine ⟨?_, fun h => by cases h⟩
      intro d hd
      simp only [List.mem_cons] at hd ⊢
      rcases hd with rfl | hd
      · exact Or.inr (abMark_unrel hok.1)
      · exact Or.inl (Or.inr hd)
    · simp only [he, Bool.false_eq_true, if_false]
      have he' : flagE c.flags = false := by simpa using he
      obtain ⟨h1, h2⟩ := ih (fl - c.w) (hok.2 he')
      refine ⟨?_, ?_⟩
      · intro d hd
        simp only [List.mem_cons] at hd ⊢
        rcases hd with rfl | hd
        · exact Or.inr (abMark_unrel hok.1)
        · rcases h1 d hd with h | h
          · exact Or.inl (Or.inr h)
          · exact Or.inr h
      · intro hs x hx
        simp only [List.mem_cons] at hx
        rcases hx with rfl | hx
        · exact he'
        · exact h2 hs x hx

theorem abandonBack_abu : ∀ (l : List SChunk) (fl : Nat), BackOk l → ∀ d ∈ (abandonBack fl l).2, d ∈ l ∨ d.Unrel := by
  intro l
  induction l with
  | nil => intro fl _; simp [abandonBack]
  | cons c cs ih =>
    intro fl hok
    rw [abandonBack_cons]
    by_cases hb : flagB c.flags = true
    · simp only [hb, if_true]
      intro d hd
      simp only [List.mem_cons] at hd ⊢
      rcases hd with rfl | hd
      · exact Or.inr (abMark_unrel hok.1)
      · exact Or.inl (Or.inr hd)
    · simp only [hb, Bool.false_eq_true, if_false]
      have hb' : flagB c.flags = false := by simpa using hb
      intro d hd
      simp only [List.mem_cons] at hd ⊢
      rcases hd with rfl | hd
      · exact Or.inr (abMark_unrel hok.1)
      · rcases ih (fl - c.w) (hok.2 hb') d hd with h | h
        · exact Or.inl (Or.inr h)
        · exact Or.inr h

theorem abandonUnsent_abu : ∀ (l : List SChunk), FwdOk l → ∀ d ∈ (abandonUnsent l).1, d.Unrel := by
  intro l
  induction l with
  | nil => intro _; simp [abandonUnsent]
  | cons c cs ih =>
    intro hok
    unfold abandonUnsent
    by_cases he : flagE c.flags = true
    · simp only [he, if_true]
      intro d hd
      simp only [List.mem_singleton] at hd
      rw [hd]; exact hok.1
    · simp only [he, Bool.false_eq_true, if_false]
      have he' : flagE c.flags = false := by simpa using he
      intro d hd
      simp only [List.mem_cons] at hd
      rcases hd with rfl | hd
      · exact hok.1
      · exact ih (hok.2 he') d hd

end Aiortc.Sctp
