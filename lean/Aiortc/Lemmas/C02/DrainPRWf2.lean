import Aiortc.Lemmas.C02.DrainPRWf
/-!
# `AW` (abandoned ⇒ partially reliable; whole messages) is kept by `_maybe_abandon` and by the loops that call it
-/
namespace Aiortc.Sctp
open Aiortc.Gen

structure AW (t : Tx) : Prop where
  abu : AbU t.sentQ
  wf : Wf (t.sentQ ++ t.outQ)

theorem fwdOk_prefix : ∀ (l l' : List SChunk), FwdOk (l ++ l') → FwdOk l
  | [], _, _ => trivial
  | _ :: cs, l', h => ⟨h.1, fun he => fwdOk_prefix cs l' (h.2 he)⟩

theorem AdjChain.prefix (a b : List SChunk) (h : AdjChain (a ++ b)) : AdjChain a := by
  have := h.take a.length
  rwa [List.take_left'] at this
  rfl

theorem maybeAbandon_abu (t : Tx) (pos : Nat) (now : Int) (h : AW t) : AbU (t.maybeAbandon pos now).2.sentQ := by
  unfold Tx.maybeAbandon
  cases hp : t.sentQ[pos]? with
  | none => exact h.abu
  | some chunk =>
    simp only
    split
    · exact h.abu
    · split
      · exact h.abu
      · rename_i hnab hsh
        have hun : chunk.Unrel := shouldAbandon_unrel (by simpa using hsh)
        have hsplit := split_at_idx t.sentQ pos chunk hp
        have htake : t.sentQ.take (pos + 1) = t.sentQ.take pos ++ [chunk] := by
          rw [List.take_add_one, hp]; rfl
        have hrev : (t.sentQ.take (pos + 1)).reverse = chunk :: (t.sentQ.take pos).reverse := by
          rw [htake]; simp
        -- backward walk
        have hchainPre : AdjChain ((t.sentQ.take pos).reverse.reverse ++ [chunk]) := by
          rw [List.reverse_reverse, ← htake]
          exact (AdjChain.prefix _ _ h.wf.1).take (pos + 1)
        have hback : BackOk (chunk :: (t.sentQ.take pos).reverse) :=
          backOk_of_rev _ chunk (revChain_of_chain _ _ hchainPre) hun
        rw [hrev]
        have hBm := abandonBack_abu _ t.flight hback
        have hBpw := (abandonBack_spec (chunk :: (t.sentQ.take pos).reverse) t.flight).1
        generalize abandonBack t.flight (chunk :: (t.sentQ.take pos).reverse) = B at hBm hBpw
        -- the chunk at `pos` after the backward walk
        obtain ⟨b0, bs, hB2, hb0⟩ : ∃ b0 bs, B.2 = b0 :: bs ∧ AbRel chunk b0 := by
          cases hB : B.2 with
          | nil => rw [hB] at hBpw; exact hBpw.elim
          | cons b0 bs => rw [hB] at hBpw; exact ⟨b0, bs, rfl, hBpw.1⟩
        have hcur : B.2.reverse.getLast?.getD chunk = b0 := by rw [hB2]; simp
        rw [hcur]
        have hb0T : SameT chunk b0 := hb0.sameT
        have hb0U : b0.Unrel := hb0T.lim.unrel hun
        -- forward walk
        have hchainPost : AdjChain (b0 :: (t.sentQ.drop (pos + 1) ++ t.outQ)) := by
          have h1 : AdjChain ((t.sentQ ++ t.outQ).drop pos) := h.wf.1.drop pos
          have h2 : (t.sentQ ++ t.outQ).drop pos = chunk :: (t.sentQ.drop (pos + 1) ++ t.outQ) := by
            conv => lhs; rw [hsplit]
            have hlt : pos < t.sentQ.length := by
              rcases Nat.lt_or_ge pos t.sentQ.length with h' | h'
              · exact h'
              · have := List.getElem?_eq_none h'; rw [hp] at this; cases this
            rw [List.append_assoc, List.drop_left' (by simp; omega)]
            rfl
          rw [h2] at h1
          exact AdjChain.pwT (l := chunk :: _) (l' := b0 :: _) ⟨hb0T, PW.refl SameT.refl _⟩ h1
        have hfwdAll : FwdOk ((b0 :: t.sentQ.drop (pos + 1)) ++ t.outQ) :=
          fwdOk_of_chain _ hchainPost (fun c hc => by simp at hc; subst hc; exact hb0U)
        have hFm := abandonFwd_abu (b0 :: t.sentQ.drop (pos + 1)) B.1 (fwdOk_prefix _ _ hfwdAll)
        generalize abandonFwd B.1 (b0 :: t.sentQ.drop (pos + 1)) = F at hFm
        have hfront : ∀ d ∈ B.2.reverse.dropLast ++ F.2.1, d.abandoned = true → d.Unrel := by
          intro d hd hab
          rcases List.mem_append.mp hd with hd | hd
          · have hd' : d ∈ B.2 := by
              have := (List.dropLast_sublist B.2.reverse).subset hd
              simpa using this
            rcases hBm d hd' with hx | hx
            · simp only [List.mem_cons, List.mem_reverse] at hx
              rcases hx with rfl | hx
              · exact hun
              · exact h.abu d (List.mem_of_mem_take hx) hab
            · exact hx
          · rcases hFm.1 d hd with hx | hx
            · simp only [List.mem_cons] at hx
              rcases hx with rfl | hx
              · exact hb0U
              · exact h.abu d (List.mem_of_mem_drop hx) hab
            · exact hx
        split
        · exact hfront
        · rename_i hsaw
          have hsaw' : F.2.2 = false := by simpa using hsaw
          have hout : FwdOk t.outQ := fwdOk_tail _ _ hfwdAll (hFm.2 hsaw')
          intro d hd hab
          rcases List.mem_append.mp hd with hd | hd
          · exact hfront d hd hab
          · exact abandonUnsent_abu t.outQ hout d hd

theorem maybeAbandon_aw (t : Tx) (pos : Nat) (now : Int) (h : AW t) : AW (t.maybeAbandon pos now).2 :=
  ⟨maybeAbandon_abu t pos now h,
   Wf.pwT ((maybeAbandon_parts t pos now).concat (fun _ _ x => x.sameT)).1 h.wf⟩

/-- a modification of one chunk that keeps its parameters, flags and `abandoned` -/
theorem AW.modify {t : Tx} (h : AW t) (pos : Nat) (g : SChunk → SChunk)
    (hg : ∀ c, SameT c (g c) ∧ (g c).abandoned = c.abandoned) :
    AW { t with sentQ := t.sentQ.modify pos g } := by
  refine ⟨?_, ?_⟩
  · intro d hd hab
    rcases mem_modify hd with hd | ⟨c, hc, rfl⟩
    · exact h.abu d hd hab
    · rw [(hg c).2] at hab
      exact (hg c).1.lim.unrel (h.abu c (List.mem_of_getElem? hc) hab)
  · refine Wf.pwT (PW.append ?_ (PW.refl SameT.refl _)) h.wf
    exact PW.modify (R := SameT) SameT.refl g (fun c => (hg c).1) _ _

theorem hitMark_keeps (ab : Bool) (c : SChunk) : SameT c (hitMark ab c) ∧ (hitMark ab c).abandoned = c.abandoned := by
  unfold hitMark; split <;> exact ⟨⟨rfl, rfl, rfl, rfl⟩, rfl⟩

theorem hitBody_aw (t : Tx) (pos : Nat) (now : Int) (h : AW t) : AW (hitBody t pos now) :=
  (maybeAbandon_aw t pos now h).modify pos _ (hitMark_keeps _)

theorem strikeHit_aw (t : Tx) (pos : Nat) (c : SChunk) (now : Int) (h : AW t) : AW (strikeHit t pos c now) := by
  have h1 : AW { t with sentQ := t.sentQ.modify pos fun d => { d with misses := 0 } } :=
    h.modify pos _ (fun _ => ⟨⟨rfl, rfl, rfl, rfl⟩, rfl⟩)
  have h2 := hitBody_aw _ pos now h1
  exact ⟨h2.abu, h2.wf⟩

theorem strikeLoop_aw (seen : List Int) (hna now : Int) : ∀ (fuel pos : Nat) (t : Tx) (loss : Bool), AW t →
    AW (strikeLoop seen hna now fuel pos t loss).1 := by
  intro fuel
  induction fuel with
  | zero => intro pos t loss h; exact h
  | succ fuel ih =>
    intro pos t loss h
    rw [strikeLoop_succ]
    cases hp : t.sentQ[pos]? with
    | none => exact h
    | some c =>
      simp only
      split
      · exact h
      · split
        · split
          · exact ih (pos + 1) _ true (strikeHit_aw t pos c now h)
          · exact ih (pos + 1) _ loss (h.modify pos _ (fun _ => ⟨⟨rfl, rfl, rfl, rfl⟩, rfl⟩))
        · exact ih (pos + 1) t loss h

theorem t3Mark_aw (now : Int) : ∀ (fuel pos : Nat) (t : Tx), AW t → AW (t3Mark now fuel pos t) := by
  intro fuel
  induction fuel with
  | zero => intro pos t h; exact h
  | succ fuel ih =>
    intro pos t h
    rw [t3Mark_succ]
    exact ih (pos + 1) _ (hitBody_aw t pos now h)

end Aiortc.Sctp
