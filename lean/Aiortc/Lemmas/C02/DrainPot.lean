import Aiortc.Lemmas.C02.DrainPsi
/-!
# The emission potential of the sender (C02 drain)

`Tx.pot` bounds the number of DATA chunks the sender can still emit before the next T3 expiry:
`flags` (chunks marked for retransmission + chunks never sent) plus `nOut` for every SACK that may still strike
(`strikeBudget`).  `_transmit` pays for every DATA chunk it emits (`pot_transmit`), `_receive_sack_chunk`
never increases the potential (`pot_sack`), and it is at most `nOut · 2 ^ nOut` in any state (`pot_le`).
-/
namespace Aiortc.Sctp
open Aiortc.Gen

/-- chunks not yet cumulatively acknowledged -/
def Tx.nOut (t : Tx) : Nat := t.sentQ.length + t.outQ.length
/-- emissions already paid for: marked chunks, chunks never sent -/
def Tx.flags (t : Tx) : Nat := flagCount t.sentQ + t.outQ.length
/-- number of SACKs that can still strike before the next T3 expiry -/
def Tx.strikeBudget (t : Tx) : Nat := psi t.sentQ (2 ^ t.outQ.length - 1)
def Tx.pot (t : Tx) : Nat := t.flags + t.nOut * t.strikeBudget

theorem two_pow_pos (n : Nat) : 0 < 2 ^ n := Nat.two_pow_pos n

theorem strikeBudget_lt (t : Tx) : t.strikeBudget + 1 ≤ 2 ^ t.nOut := by
  have := psi_bound t.sentQ (2 ^ t.outQ.length - 1)
  have hp := two_pow_pos t.outQ.length
  rw [show 2 ^ t.outQ.length - 1 + 1 = 2 ^ t.outQ.length by omega, ← Nat.pow_add] at this
  exact this

theorem flags_le (t : Tx) : t.flags ≤ t.nOut := by
  have := flagCount_le_length t.sentQ
  unfold Tx.flags Tx.nOut; omega

/-- in any state the potential is at most `nOut · 2 ^ nOut` -/
theorem pot_le (t : Tx) : t.pot ≤ t.nOut * 2 ^ t.nOut := by
  have h1 := flags_le t
  have h2 := strikeBudget_lt t
  unfold Tx.pot
  calc t.flags + t.nOut * t.strikeBudget ≤ t.nOut + t.nOut * t.strikeBudget := by omega
    _ = t.nOut * (t.strikeBudget + 1) := by rw [Nat.mul_add, Nat.mul_one, Nat.add_comm]
    _ ≤ t.nOut * 2 ^ t.nOut := Nat.mul_le_mul_left _ h2

theorem pot_mono {f f' n n' s s' : Nat} (hf : f' ≤ f) (hn : n' ≤ n) (hs : s' ≤ s) : f' + n' * s' ≤ f + n * s := by
  have := Nat.mul_le_mul hn hs; omega

/-- **`_transmit` pays for what it emits** -/
theorem pot_transmit (t : Tx) (hf : t.forwardTsn = none) (ho : ∀ c ∈ t.outQ, Idle c) :
    (dataOf t.transmit.2).length + t.transmit.1.pot ≤ t.pot ∧ t.transmit.1.nOut = t.nOut := by
  obtain ⟨mid, es, k, h1, h2, h3, h4⟩ := (transmit_shape t hf).shape
  obtain ⟨hc, hb⟩ := h1.count
  have hlen := PW.length hb
  have hnews : flagCount ((t.outQ.take k).map newChunk) = 0 := by
    apply flagCount_zero
    intro d hd
    simp only [List.mem_map] at hd
    obtain ⟨c, hc, rfl⟩ := hd
    exact (ho c (List.mem_of_mem_take hc)).2.1
  have hk : (t.outQ.take k).length + (t.outQ.drop k).length = t.outQ.length := by
    rw [← List.length_append, List.take_append_drop]
  have hn : t.transmit.1.nOut = t.nOut := by
    unfold Tx.nOut; rw [h2, h3]; simp only [List.length_append, List.length_map]; omega
  have hfl : (dataOf t.transmit.2).length + t.transmit.1.flags = t.flags := by
    unfold Tx.flags
    rw [h4, h2, h3, flagCount_append, hnews]
    simp only [List.length_append, List.length_map]; omega
  have hs : t.transmit.1.strikeBudget ≤ t.strikeBudget := by
    unfold Tx.strikeBudget
    rw [h2, h3, psi_append]
    refine Nat.le_trans (psi_mono_tail mid ?_) (psi_le_of_pw _ hb)
    have := psi_bound ((t.outQ.take k).map newChunk) (2 ^ (t.outQ.drop k).length - 1)
    have hp := two_pow_pos (t.outQ.drop k).length
    rw [show 2 ^ (t.outQ.drop k).length - 1 + 1 = 2 ^ (t.outQ.drop k).length by omega, ← Nat.pow_add,
      List.length_map, hk] at this
    omega
  refine ⟨?_, hn⟩
  unfold Tx.pot
  rw [hn]
  have := Nat.mul_le_mul_left t.nOut hs
  omega

/-- **a SACK never increases the potential**: either it changes no flag of the outstanding chunks, or it strictly
decreases the strike budget (and at most `nOut` chunks are marked) -/
theorem pot_sack {b : Int} {a : Nat} {t t' : Tx} (h : TxSeq b a t) (k : Nat) (h1 : a ≤ k) (h2 : k ≤ a + t.sentQ.length)
    (gaps : List (Nat × Nat)) (hs : SackShape t t' (T b k) gaps) : t'.pot ≤ t.pot ∧ t'.nOut ≤ t.nOut := by
  have hq := ackedQ_seq h k h1 h2
  obtain ⟨_, hlen⟩ := h.sack k h1 h2 gaps hs
  have hb := h.bound
  have hseq : Seq b k (t.sentQ.drop (k - a)) := by
    have := Seq.drop (k - a) h.sent (by omega)
    rwa [show a + (k - a) = k by omega] at this
  have hn : t'.nOut ≤ t.nOut := by unfold Tx.nOut; rw [hs.outQ]; omega
  refine ⟨?_, hn⟩
  have hsq := hs.sentQ
  rw [hq] at hsq
  rcases sackList_lex b k gaps (t.sentQ.drop (k - a)) hseq (by simp; omega) with he | hl
  · rw [he] at hsq
    unfold Tx.pot
    refine pot_mono ?_ hn ?_
    · unfold Tx.flags; rw [hsq, hs.outQ]; have := flagCount_drop t.sentQ (k - a); omega
    · unfold Tx.strikeBudget; rw [hsq, hs.outQ]; exact psi_drop _ _ _
  · rw [← hsq] at hl
    have hlt : t'.strikeBudget + 1 ≤ t.strikeBudget := by
      unfold Tx.strikeBudget
      rw [hs.outQ]
      have := psi_lt_of_lex (2 ^ t.outQ.length - 1) hl
      have := psi_drop t.sentQ (k - a) (2 ^ t.outQ.length - 1)
      omega
    have hf := flags_le t'
    unfold Tx.pot
    calc t'.flags + t'.nOut * t'.strikeBudget ≤ t'.nOut * (t'.strikeBudget + 1) := by
          rw [Nat.mul_add, Nat.mul_one]; omega
      _ ≤ t.nOut * t.strikeBudget := Nat.mul_le_mul hn hlt
      _ ≤ t.flags + t.nOut * t.strikeBudget := Nat.le_add_left _ _

/-- every DATA chunk `_transmit` emits carries the TSN of an outstanding chunk -/
theorem transmit_emitted {b : Int} {a : Nat} {t : Tx} (h : TxSeq b a t) (hf : t.forwardTsn = none) :
    ∀ d ∈ dataOf t.transmit.2, ∃ j, a < j ∧ j ≤ a + t.transmit.1.sentQ.length ∧ d.tsn = T b j := by
  obtain ⟨mid, es, k, h1, h2, h3, h4⟩ := (transmit_shape t hf).shape
  have hlen := PW.length h1.sameId
  have hseq' := (h.transmit hf).sent
  intro d hd
  rw [h4, List.mem_append] at hd
  rcases hd with hd | hd
  · obtain ⟨c, hc, he⟩ := h1.tsn d hd
    obtain ⟨j, j1, j2, j3⟩ := Seq.mem h.sent hc
    exact ⟨j, j1, by rw [h2]; simp; omega, by rw [he, j3]⟩
  · simp only [List.mem_map] at hd
    obtain ⟨c, hc, rfl⟩ := hd
    have hmem : newChunk c ∈ t.transmit.1.sentQ := by
      rw [h2]; exact List.mem_append.mpr (Or.inr (List.mem_map.mpr ⟨c, hc, rfl⟩))
    obtain ⟨j, j1, j2, j3⟩ := Seq.mem hseq' hmem
    exact ⟨j, j1, j2, j3⟩

end Aiortc.Sctp
