import Aiortc.Lemmas.C02.DrainSeq
/-!
# A SACK that strikes newly gap-acks a later chunk (C02 drain)

`psi l tail` reads the "not gap-acked" flags of a queue as a binary number (first chunk = lowest bit).  The strike
loop of `_receive_sack_chunk` only visits chunks up to the highest NEWLY acked TSN, so whenever it changes
anything (miss counters, retransmit marks, un-acks) a chunk further back has just been gap-acked: the number
strictly decreases (`sackList_lex`).  This bounds the number of SACKs that can mark chunks for fast retransmission
between two T3 expiries, whatever the SACKs contain.
-/
namespace Aiortc.Sctp
open Aiortc.Gen

def bit (c : SChunk) : Nat := if c.acked then 0 else 1

theorem bit_le_one (c : SChunk) : bit c ≤ 1 := by unfold bit; split <;> omega

/-- gap-acked stays gap-acked -/
def BitLe (c d : SChunk) : Prop := c.acked = true → d.acked = true

theorem BitLe.refl (c : SChunk) : BitLe c c := id

theorem BitLe.bit {c d : SChunk} (h : BitLe c d) : bit d ≤ bit c := by
  unfold Aiortc.Sctp.bit
  cases hc : c.acked with
  | true => simp [h hc]
  | false => split <;> simp

def psi : List SChunk → Nat → Nat
  | [], tail => tail
  | c :: cs, tail => bit c + 2 * psi cs tail

/-- a later chunk was newly gap-acked, everything behind it kept its flag or gained one -/
inductive LexLt : List SChunk → List SChunk → Prop
  | here {c d : SChunk} {cs ds : List SChunk} : c.acked = false → d.acked = true → PW BitLe cs ds → LexLt (c :: cs) (d :: ds)
  | there {c d : SChunk} {cs ds : List SChunk} : LexLt cs ds → LexLt (c :: cs) (d :: ds)

theorem psi_mono_tail : ∀ (l : List SChunk) {t1 t2 : Nat}, t1 ≤ t2 → psi l t1 ≤ psi l t2
  | [], _, _, h => h
  | c :: cs, _, _, h => by have := psi_mono_tail cs h; simp only [psi]; omega

theorem psi_le_of_pw : ∀ {l l' : List SChunk} (tail : Nat), PW BitLe l l' → psi l' tail ≤ psi l tail
  | [], [], _, _ => Nat.le_refl _
  | c :: cs, d :: ds, tail, h => by
    have h1 := h.1.bit
    have h2 := psi_le_of_pw (l := cs) (l' := ds) tail h.2
    simp only [psi]; omega
  | [], _ :: _, _, h => h.elim
  | _ :: _, [], _, h => h.elim

theorem psi_lt_of_lex {l l' : List SChunk} (tail : Nat) (h : LexLt l l') : psi l' tail < psi l tail := by
  induction h with
  | here hc hd hpw =>
    have := psi_le_of_pw tail hpw
    simp only [psi, bit, hc, hd]; simp; omega
  | there _ ih =>
    rename_i c d cs ds _
    have := bit_le_one d
    simp only [psi]; omega

theorem LexLt.length {l l' : List SChunk} (h : LexLt l l') : l.length = l'.length := by
  induction h with
  | here _ _ hpw => simp [PW.length hpw]
  | there _ ih => simp [ih]

theorem psi_append : ∀ (l1 l2 : List SChunk) (tail : Nat), psi (l1 ++ l2) tail = psi l1 (psi l2 tail)
  | [], _, _ => rfl
  | c :: cs, l2, tail => by simp only [List.cons_append, psi, psi_append cs l2 tail]

theorem psi_bound : ∀ (l : List SChunk) (tail : Nat), psi l tail + 1 ≤ 2 ^ l.length * (tail + 1)
  | [], tail => by simp [psi]
  | c :: cs, tail => by
    have := psi_bound cs tail
    have hb := bit_le_one c
    simp only [psi, List.length_cons, Nat.pow_succ]
    have : 2 ^ cs.length * 2 * (tail + 1) = 2 * (2 ^ cs.length * (tail + 1)) := by
      rw [Nat.mul_comm (2 ^ cs.length) 2, Nat.mul_assoc]
    omega

theorem psi_ge_tail : ∀ (l : List SChunk) (tail : Nat), tail ≤ psi l tail
  | [], _ => Nat.le_refl _
  | c :: cs, tail => by have := psi_ge_tail cs tail; simp only [psi]; omega

theorem psi_drop (l : List SChunk) (k tail : Nat) : psi (l.drop k) tail ≤ psi l tail := by
  conv => rhs; rw [← List.take_append_drop k l, psi_append]
  exact psi_ge_tail _ _

/-! ## one SACK -/

theorem htnaChunk_tsn (seen : List Int) (c : SChunk) : (htnaChunk seen c).tsn = c.tsn := (htnaChunk_sameId seen c).1

/-- Either nothing is newly gap-acked — then neither the HTNA loop nor the strike loop changes anything — or the
queue strictly decreases in the order `LexLt`. -/
theorem sack_lex (b : Int) (seen : List Int) (hs : Int) : ∀ (l : List SChunk) (a q0 : Nat), Seq b a l →
    a + l.length < 2147483648 → q0 ≤ a →
    (htnaHna seen hs (T b q0) l = T b q0 ∧ htnaList seen hs l = l
      ∧ strikeList seen (htnaHna seen hs (T b q0) l) l = l)
    ∨ (∃ q, a < q ∧ q ≤ a + l.length ∧ htnaHna seen hs (T b q0) l = T b q
        ∧ LexLt l (strikeList seen (htnaHna seen hs (T b q0) l) (htnaList seen hs l))) := by
  intro l
  induction l with
  | nil => intro a q0 _ _ _; exact Or.inl ⟨rfl, rfl, rfl⟩
  | cons c cs ih =>
    intro a q0 hseq hlen hq0
    simp only [List.length_cons] at hlen
    have hct := hseq.1
    have hgt0 : uint32_gt c.tsn (T b q0) = true := by
      rw [hct, gt_T b (a + 1) q0 (by omega) (by omega)]; simp; omega
    unfold htnaHna htnaList
    by_cases hstop : uint32_gt c.tsn hs = true
    · refine Or.inl ⟨by simp only [hstop, if_true], by simp only [hstop, if_true], ?_⟩
      simp only [hstop, if_true]
      unfold strikeList; simp only [hgt0, if_true]
    · simp only [hstop]
      by_cases hnew : (seen.contains c.tsn && !c.acked) = true
      · simp only [hnew, if_true]
        have hnew' := hnew
        simp only [Bool.and_eq_true, Bool.not_eq_true'] at hnew'
        rw [hct]
        have hck : htnaChunk seen c = { c with acked := true, inFlight := false } := by
          simp only [htnaChunk, hnew, if_true]
        rcases ih (a + 1) (a + 1) hseq.2 (by omega) (Nat.le_refl _) with ⟨e1, e2, e3⟩ | ⟨q, g1, g2, g3, g4⟩
        · refine Or.inr ⟨a + 1, by omega, by simp, e1, ?_⟩
          rw [e1, e2] at *
          unfold strikeList
          have hng : uint32_gt (htnaChunk seen c).tsn (T b (a + 1)) = false := by
            rw [htnaChunk_tsn, hct, gt_T b (a + 1) (a + 1) (by omega) (by omega)]; simp
          simp only [hng, Bool.false_eq_true, if_false]
          have hsc : strikeChunk seen (htnaChunk seen c) = htnaChunk seen c := by
            unfold strikeChunk; rw [htnaChunk_tsn]; simp only [hnew'.1, if_true]
          rw [hsc, e3, hck]
          exact LexLt.here hnew'.2 rfl (PW.refl BitLe.refl cs)
        · refine Or.inr ⟨q, by omega, by simp; omega, g3, ?_⟩
          rw [g3] at g4 ⊢
          unfold strikeList
          have hng : uint32_gt (htnaChunk seen c).tsn (T b q) = false := by
            rw [htnaChunk_tsn, hct, gt_T b (a + 1) q (by omega) (by omega)]; simp; omega
          simp only [hng, Bool.false_eq_true, if_false]
          exact LexLt.there g4
      · simp only [hnew, Bool.false_eq_true, if_false]
        have hck : htnaChunk seen c = c := by simp only [htnaChunk, hnew, Bool.false_eq_true, if_false]
        rcases ih (a + 1) q0 hseq.2 (by omega) (by omega) with ⟨e1, e2, e3⟩ | ⟨q, g1, g2, g3, g4⟩
        · refine Or.inl ⟨e1, by rw [hck, e2], ?_⟩
          rw [e1]; unfold strikeList; simp only [hgt0, if_true]
        · refine Or.inr ⟨q, by omega, by simp; omega, g3, ?_⟩
          rw [g3] at g4 ⊢
          unfold strikeList
          have hng : uint32_gt (htnaChunk seen c).tsn (T b q) = false := by
            rw [htnaChunk_tsn, hct, gt_T b (a + 1) q (by omega) (by omega)]; simp; omega
          simp only [hng, Bool.false_eq_true, if_false]
          exact LexLt.there g4

/-- **one SACK**: the part of the sent queue that stays outstanding is unchanged, or it decreases in `LexLt` -/
theorem sackList_lex (b : Int) (k : Nat) (gaps : List (Nat × Nat)) (l : List SChunk) (hs : Seq b k l)
    (hl : k + l.length < 2147483648) : sackList (T b k) gaps l = l ∨ LexLt l (sackList (T b k) gaps l) := by
  unfold sackList
  split
  · exact Or.inl rfl
  · simp only
    rcases sack_lex b _ _ l k k hs hl (Nat.le_refl _) with ⟨_, e2, e3⟩ | ⟨q, _, _, _, g4⟩
    · left; rw [e2, e3]
    · exact Or.inr g4

/-! ## chunks marked for retransmission -/

def flagCount : List SChunk → Nat
  | [] => 0
  | c :: cs => (if c.retransmit then 1 else 0) + flagCount cs

theorem flagCount_append : ∀ (a b : List SChunk), flagCount (a ++ b) = flagCount a + flagCount b
  | [], _ => by simp [flagCount]
  | c :: cs, b => by simp only [List.cons_append, flagCount, flagCount_append cs b]; omega

theorem flagCount_le_length : ∀ l : List SChunk, flagCount l ≤ l.length
  | [] => Nat.le_refl _
  | c :: cs => by have := flagCount_le_length cs; simp only [flagCount, List.length_cons]; split <;> omega

theorem flagCount_drop (l : List SChunk) (k : Nat) : flagCount (l.drop k) ≤ flagCount l := by
  conv => rhs; rw [← List.take_append_drop k l, flagCount_append]
  omega

theorem flagCount_zero {l : List SChunk} (h : ∀ c ∈ l, c.retransmit = false) : flagCount l = 0 := by
  induction l with
  | nil => rfl
  | cons c cs ih =>
    simp only [flagCount, h c (by simp), Bool.false_eq_true, if_false, Nat.zero_add]
    exact ih (fun d hd => h d (by simp [hd]))

/-- every emission of the retransmission pass clears one mark; gap-ack flags are untouched -/
theorem RtxPW.count : ∀ {l l' : List SChunk} {es : List RChunk}, RtxPW l l' es →
    flagCount l' + es.length = flagCount l ∧ PW BitLe l l'
  | _, _, _, .nil => ⟨rfl, trivial⟩
  | _, _, _, .keep c h => by
    obtain ⟨h1, h2⟩ := RtxPW.count h
    exact ⟨by simp only [flagCount]; omega, BitLe.refl c, h2⟩
  | _, _, _, .send c hr h => by
    obtain ⟨h1, h2⟩ := RtxPW.count h
    refine ⟨?_, fun hc => hc, h2⟩
    simp only [flagCount, hr, rtxChunk, List.length_cons, if_true, Bool.false_eq_true, if_false]; omega

theorem RtxPW.tsn : ∀ {l l' : List SChunk} {es : List RChunk}, RtxPW l l' es → ∀ e ∈ es, ∃ c ∈ l, e.tsn = c.tsn
  | _, _, _, .nil, e, he => by cases he
  | _, _, _, .keep c h, e, he => by
    obtain ⟨d, hd, h'⟩ := RtxPW.tsn h e he
    exact ⟨d, by simp [hd], h'⟩
  | _, _, _, .send c _ h, e, he => by
    simp only [List.mem_cons] at he
    rcases he with rfl | he
    · exact ⟨c, by simp, rfl⟩
    · obtain ⟨d, hd, h'⟩ := RtxPW.tsn h e he
      exact ⟨d, by simp [hd], h'⟩

end Aiortc.Sctp
