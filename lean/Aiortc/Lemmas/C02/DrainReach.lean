import Aiortc.Lemmas.C02.DrainRun
/-!
# Every state the adversarial system reaches is coherent (C02 drain)
-/
namespace Aiortc.Sctp
open Aiortc.Gen

/-- chunks queued by a sequence of moves -/
def sentTotal : List Fault → Nat
  | [] => 0
  | f :: fs => f.sent + sentTotal fs

theorem Coh.faults : ∀ (fs : List Fault) {b : Int} {a r : Nat} {s : Link}, Coh b a r s → (∀ f ∈ fs, f.Reliable) →
    a + s.tx.nOut + sentTotal fs + 1 < 2147483648 →
    ∃ a' r', Coh b a' r' (fs.foldl Link.fault s) ∧ a' + (fs.foldl Link.fault s).tx.nOut = a + s.tx.nOut + sentTotal fs
  | [], _, a, r, _, h, _, _ => ⟨a, r, h, rfl⟩
  | f :: fs, b, a, r, s, h, hrel, hb => by
    simp only [sentTotal] at hb
    obtain ⟨a1, r1, hc1, hn1⟩ := h.fault f (hrel f (by simp)) (by omega)
    obtain ⟨a2, r2, hc2, hn2⟩ := Coh.faults fs hc1 (fun g hg => hrel g (by simp [hg])) (by omega)
    exact ⟨a2, r2, hc2, by simp only [List.foldl_cons, sentTotal]; omega⟩

/-- the pair right after the association is set up: nothing sent, the receiver's cumulative TSN is the sender's
initial TSN minus one (INIT / INIT-ACK), nothing in flight -/
structure Link.Fresh (s : Link) : Prop where
  init : s.tx.Initial
  needed : s.tx.forwardNeeded = false
  ls : R32 s.tx.lastSacked
  localTsn : s.tx.localTsn = tsn_plus_one s.tx.lastSacked
  rxLast : s.rx.last = s.tx.lastSacked
  rxMis : s.rx.mis = []
  toRx : s.toRx = []
  toTx : s.toTx = []
  pending : s.pending = false

theorem Link.Fresh.coh {s : Link} (h : s.Fresh) : Coh s.tx.lastSacked 0 0 s ∧ s.tx.nOut = 0 := by
  have hn : s.tx.nOut = 0 := by unfold Tx.nOut; rw [h.init.sentQ, h.init.outQ]; rfl
  refine ⟨⟨⟨?_, ?_, ?_, ?_, Nat.le_refl _, Nat.zero_le _, ?_, ?_, ?_⟩, ?_⟩, hn⟩
  · exact ⟨by rw [h.init.sentQ]; simp, by rw [h.init.outQ]; simp, h.init.fwd, h.needed⟩
  · refine ⟨h.ls, (T_zero h.ls).symm, by rw [h.init.sentQ, h.init.outQ]; trivial, ?_, by rw [h.init.sentQ, h.init.outQ]; simp⟩
    rw [h.localTsn, h.init.sentQ, h.init.outQ]
    conv => lhs; rw [← T_zero h.ls, T_succ]
    rfl
  · exact ⟨by rw [h.rxLast]; exact h.ls, by rw [h.rxMis]; simp, by rw [h.rxMis]; simp, by rw [h.rxMis]; rfl⟩
  · rw [h.rxLast]; exact (T_zero h.ls).symm
  · rw [h.rxMis]; simp
  · rw [h.toRx]; simp
  · rw [h.toTx]; simp
  · have := h.init.inv
    rw [h.pending]; exact this

end Aiortc.Sctp
