import Aiortc.Lemmas.C02.SctpRxInv
/-!
# The sender on reliable traffic: the loops of `_receive_sack_chunk` / `_t3_expired` as list functions (C02 drain)

For chunks of reliable channels (`max_retransmits = None`, no expiry, not abandoned) `_maybe_abandon` does
nothing, so the strike loop, the T3 marking loop and `_update_advanced_peer_ack_point` have closed forms as
functions on `_sent_queue`.  Everything here is proved equal to the model definitions of
`Model/Sctp/Outbound.lean`; no definition is changed.
-/
namespace Aiortc.Sctp
open Aiortc.Gen

/-- a chunk of a reliable channel that has not been abandoned -/
def SChunk.Rel (c : SChunk) : Prop := c.maxRetransmits = none ∧ c.expiry = none ∧ c.abandoned = false

/-- a sender that carries reliable traffic only -/
structure RelTx (t : Tx) : Prop where
  sentQ : ∀ c ∈ t.sentQ, c.Rel
  outQ : ∀ c ∈ t.outQ, c.Rel
  fwd : t.forwardTsn = none
  needed : t.forwardNeeded = false

/-- flags-only relation between two versions of a chunk: same TSN, limits, abandoned flag -/
def SameId (c d : SChunk) : Prop :=
  d.tsn = c.tsn ∧ d.maxRetransmits = c.maxRetransmits ∧ d.expiry = c.expiry ∧ d.abandoned = c.abandoned

theorem SameId.refl (c : SChunk) : SameId c c := ⟨rfl, rfl, rfl, rfl⟩
theorem SameId.trans {c d e : SChunk} (h1 : SameId c d) (h2 : SameId d e) : SameId c e :=
  ⟨h2.1.trans h1.1, h2.2.1.trans h1.2.1, h2.2.2.1.trans h1.2.2.1, h2.2.2.2.trans h1.2.2.2⟩
theorem SameId.rel {c d : SChunk} (h : SameId c d) (hc : c.Rel) : d.Rel :=
  ⟨h.2.1.trans hc.1, h.2.2.1.trans hc.2.1, h.2.2.2.trans hc.2.2⟩

theorem PW.sameId_rel {l l' : List SChunk} (h : PW SameId l l') (hl : ∀ c ∈ l, c.Rel) : ∀ d ∈ l', d.Rel :=
  PW.forall (fun _ _ hr hc => SameId.rel hr hc) h hl

theorem PW.sameId_trans {a b c : List SChunk} (h1 : PW SameId a b) (h2 : PW SameId b c) : PW SameId a c :=
  PW.trans (R := SameId) (S := SameId) (T := SameId) (fun _ _ _ x y => SameId.trans x y) h1 h2

theorem shouldAbandon_rel {c : SChunk} (h : c.Rel) (now : Int) : shouldAbandon c now = false := by
  unfold shouldAbandon; rw [h.1, h.2.1]; rfl

/-- `_maybe_abandon` leaves reliable traffic alone -/
theorem maybeAbandon_rel (t : Tx) (pos : Nat) (now : Int) (h : ∀ c ∈ t.sentQ, c.Rel) :
    t.maybeAbandon pos now = (false, t) := by
  unfold Tx.maybeAbandon
  cases hp : t.sentQ[pos]? with
  | none => rfl
  | some chunk =>
    have hc := h chunk (List.mem_of_getElem? hp)
    simp [hc.2.2, shouldAbandon_rel hc now]

theorem modify_at_length {α} (pre : List α) (c : α) (rest : List α) (f : α → α) :
    (pre ++ c :: rest).modify pre.length f = pre ++ f c :: rest := by
  induction pre with
  | nil => simp
  | cons p ps ih => simp [ih]

theorem getElem?_at_length {α} (pre : List α) (c : α) (rest : List α) : (pre ++ c :: rest)[pre.length]? = some c := by
  induction pre with
  | nil => simp
  | cons p ps ih => simp

/-! ## the strike loop -/

/-- what the strike loop does to a chunk it visits -/
def strikeChunk (seen : List Int) (c : SChunk) : SChunk :=
  if seen.contains c.tsn then c
  else if c.misses + 1 = 3 then { c with misses := 0, retransmit := true, acked := false, inFlight := false }
  else { c with misses := c.misses + 1 }

/-- the strike loop on reliable traffic: every chunk up to the highest newly acked TSN is visited -/
def strikeList (seen : List Int) (hna : Int) : List SChunk → List SChunk
  | [] => []
  | c :: cs => if uint32_gt c.tsn hna then c :: cs else strikeChunk seen c :: strikeList seen hna cs

theorem strikeChunk_sameId (seen : List Int) (c : SChunk) : SameId c (strikeChunk seen c) := by
  unfold strikeChunk; split
  · exact SameId.refl c
  · split <;> exact ⟨rfl, rfl, rfl, rfl⟩

theorem strikeList_sameId (seen : List Int) (hna : Int) : ∀ l, PW SameId l (strikeList seen hna l)
  | [] => trivial
  | c :: cs => by
    unfold strikeList; split
    · exact PW.refl SameId.refl _
    · exact ⟨strikeChunk_sameId seen c, strikeList_sameId seen hna cs⟩

theorem strikeHit_rel (t : Tx) (pos : Nat) (c : SChunk) (now : Int) (h : ∀ d ∈ t.sentQ, d.Rel) :
    (strikeHit t pos c now).sentQ = (t.sentQ.modify pos fun d => { d with misses := 0 }).modify pos (hitMark false)
    ∧ (strikeHit t pos c now).outQ = t.outQ := by
  have h1 : ∀ d ∈ ({ t with sentQ := t.sentQ.modify pos fun d => { d with misses := 0 } } : Tx).sentQ, d.Rel := by
    intro d hd
    rcases mem_modify hd with hd | ⟨e, he, rfl⟩
    · exact h d hd
    · exact h e (List.mem_of_getElem? he)
  unfold strikeHit hitBody
  simp only
  rw [maybeAbandon_rel _ _ _ h1]
  exact ⟨rfl, rfl⟩

theorem strikeLoop_rel (seen : List Int) (hna now : Int) : ∀ (fuel : Nat) (pre post : List SChunk) (t : Tx) (loss : Bool),
    t.sentQ = pre ++ post → post.length ≤ fuel → (∀ c ∈ t.sentQ, c.Rel) →
    (strikeLoop seen hna now fuel pre.length t loss).1.sentQ = pre ++ strikeList seen hna post
    ∧ (strikeLoop seen hna now fuel pre.length t loss).1.outQ = t.outQ := by
  intro fuel
  induction fuel with
  | zero =>
    intro pre post t loss hq hl _
    have : post = [] := List.eq_nil_of_length_eq_zero (by omega)
    subst this
    simp [strikeLoop, strikeList, hq]
  | succ fuel ih =>
    intro pre post t loss hq hl hrel
    rw [strikeLoop_succ]
    cases post with
    | nil =>
      have : t.sentQ[pre.length]? = none := by rw [hq]; simp
      simp only [this, strikeList, List.append_nil]
      exact ⟨by simpa using hq, trivial⟩
    | cons c rest =>
      have hc : t.sentQ[pre.length]? = some c := by rw [hq]; exact getElem?_at_length pre c rest
      simp only [hc]
      have hnext : ∀ (f : SChunk → SChunk), (∀ d, SameId d (f d)) →
          ∀ (t' : Tx) (loss' : Bool), t'.sentQ = t.sentQ.modify pre.length f → t'.outQ = t.outQ →
          (strikeLoop seen hna now fuel (pre.length + 1) t' loss').1.sentQ = pre ++ f c :: strikeList seen hna rest
          ∧ (strikeLoop seen hna now fuel (pre.length + 1) t' loss').1.outQ = t.outQ := by
        intro f hf t' loss' hs ho
        have hq' : t'.sentQ = (pre ++ [f c]) ++ rest := by
          rw [hs, hq, modify_at_length]; simp
        have hrel' : ∀ d ∈ t'.sentQ, d.Rel := by
          intro d hd
          rw [hs] at hd
          rcases mem_modify hd with hd | ⟨e, he, rfl⟩
          · exact hrel d hd
          · exact SameId.rel (hf e) (hrel e (List.mem_of_getElem? he))
        have := ih (pre ++ [f c]) rest t' loss' hq' (by simp at hl; omega) hrel'
        simp only [List.length_append, List.length_singleton] at this
        rw [this.1, this.2, ho]
        simp
      unfold strikeList
      split
      · exact ⟨by rw [hq], rfl⟩
      · rename_i hgt
        split
        · rename_i hseen
          have hs' : seen.contains c.tsn = false := by simpa using hseen
          split
          · rename_i h3
            obtain ⟨e1, e2⟩ := strikeHit_rel t pre.length c now hrel
            have hcomp : (t.sentQ.modify pre.length fun d => { d with misses := 0 }).modify pre.length (hitMark false)
                = t.sentQ.modify pre.length (fun d => hitMark false { d with misses := 0 }) := by
              rw [hq, modify_at_length, modify_at_length, modify_at_length]
            have := hnext (fun d => hitMark false { d with misses := 0 }) (fun d => ⟨rfl, rfl, rfl, rfl⟩)
              (strikeHit t pre.length c now) true (by rw [e1, hcomp]) e2
            have hsc : strikeChunk seen c = hitMark false { c with misses := 0 } := by
              simp only [strikeChunk, hs', Bool.false_eq_true, if_false, h3, if_true, hitMark, Bool.not_false]
            rw [hsc]; exact this
          · rename_i h3
            have := hnext (fun d => { d with misses := c.misses + 1 }) (fun d => ⟨rfl, rfl, rfl, rfl⟩)
              { t with sentQ := t.sentQ.modify pre.length fun d => { d with misses := c.misses + 1 } } loss rfl rfl
            have hsc : strikeChunk seen c = { c with misses := c.misses + 1 } := by
              simp only [strikeChunk, hs', Bool.false_eq_true, if_false, h3]
            rw [hsc]; exact this
        · rename_i hseen
          have hs' : seen.contains c.tsn = true := by simpa using hseen
          have hsc : strikeChunk seen c = c := by simp only [strikeChunk, hs', if_true]
          have hq' : t.sentQ = (pre ++ [c]) ++ rest := by rw [hq]; simp
          have := ih (pre ++ [c]) rest t loss hq' (by simp at hl; omega) hrel
          simp only [List.length_append, List.length_singleton] at this
          rw [this.1, this.2, hsc]; simp

/-! ## the HTNA loop -/

/-- what the HTNA loop does to a chunk it visits -/
def htnaChunk (seen : List Int) (c : SChunk) : SChunk :=
  if seen.contains c.tsn && !c.acked then { c with acked := true, inFlight := false } else c

def htnaList (seen : List Int) (hs : Int) : List SChunk → List SChunk
  | [] => []
  | c :: cs => if uint32_gt c.tsn hs then c :: cs else htnaChunk seen c :: htnaList seen hs cs

/-- `highest_newly_acked` -/
def htnaHna (seen : List Int) (hs : Int) : Int → List SChunk → Int
  | hna, [] => hna
  | hna, c :: cs =>
    if uint32_gt c.tsn hs then hna
    else htnaHna seen hs (if seen.contains c.tsn && !c.acked then c.tsn else hna) cs

theorem htnaChunk_sameId (seen : List Int) (c : SChunk) : SameId c (htnaChunk seen c) := by
  unfold htnaChunk; split
  · exact ⟨rfl, rfl, rfl, rfl⟩
  · exact SameId.refl c

theorem htnaList_sameId (seen : List Int) (hs : Int) : ∀ l, PW SameId l (htnaList seen hs l)
  | [] => trivial
  | c :: cs => by
    unfold htnaList; split
    · exact PW.refl SameId.refl _
    · exact ⟨htnaChunk_sameId seen c, htnaList_sameId seen hs cs⟩

theorem htnaLoop_eq (seen : List Int) (hs : Int) : ∀ (l acc : List SChunk) (fl db : Nat) (hna : Int),
    (htnaLoop seen hs fl db hna acc l).2.2.2 = acc.reverse ++ htnaList seen hs l
    ∧ (htnaLoop seen hs fl db hna acc l).2.2.1 = htnaHna seen hs hna l := by
  intro l
  induction l with
  | nil => intro acc fl db hna; simp [htnaLoop, htnaList, htnaHna]
  | cons c cs ih =>
    intro acc fl db hna
    rw [htnaLoop_cons]
    unfold htnaList htnaHna
    split
    · exact ⟨rfl, rfl⟩
    · split
      · rename_i h
        have := ih ({ c with acked := true, inFlight := false } :: acc) (fl - c.w) (db + c.bookSize) c.tsn
        rw [this.1, this.2]
        simp only [htnaChunk, h, if_true, List.reverse_cons, List.append_assoc, List.singleton_append, and_self]
      · rename_i h
        have := ih (c :: acc) fl db hna
        rw [this.1, this.2]
        have h' : (seen.contains c.tsn && !c.acked) = false := by simpa using h
        simp only [htnaChunk, h', Bool.false_eq_true, if_false, List.reverse_cons, List.append_assoc, List.singleton_append, and_self]

/-! ## the T3 marking loop -/

theorem hitMark_sameId (c : SChunk) : SameId c (hitMark false c) := ⟨rfl, rfl, rfl, rfl⟩

theorem hitBody_rel (t : Tx) (pos : Nat) (now : Int) (h : ∀ c ∈ t.sentQ, c.Rel) :
    hitBody t pos now = { t with sentQ := t.sentQ.modify pos (hitMark false) } := by
  unfold hitBody
  rw [maybeAbandon_rel t pos now h]

theorem t3Mark_rel (now : Int) : ∀ (post pre : List SChunk) (t : Tx), t.sentQ = pre ++ post → (∀ c ∈ t.sentQ, c.Rel) →
    t3Mark now post.length pre.length t = { t with sentQ := pre ++ post.map (hitMark false) } := by
  intro post
  induction post with
  | nil => intro pre t hq _; simp [t3Mark, ← hq]
  | cons c rest ih =>
    intro pre t hq hrel
    simp only [List.length_cons]
    rw [t3Mark_succ, hitBody_rel t _ now hrel]
    have hq' : ({ t with sentQ := t.sentQ.modify pre.length (hitMark false) } : Tx).sentQ = (pre ++ [hitMark false c]) ++ rest := by
      simp only; rw [hq, modify_at_length]; simp
    have hrel' : ∀ d ∈ ({ t with sentQ := t.sentQ.modify pre.length (hitMark false) } : Tx).sentQ, d.Rel := by
      intro d hd
      rcases mem_modify hd with hd | ⟨e, he, rfl⟩
      · exact hrel d hd
      · exact SameId.rel (hitMark_sameId e) (hrel e (List.mem_of_getElem? he))
    have := ih (pre ++ [hitMark false c]) _ hq' hrel'
    simp only [List.length_append, List.length_singleton] at this
    rw [this]
    simp

/-! ## `_update_advanced_peer_ack_point` -/

theorem popAbandoned_rel (adv : Int) (st : List (Nat × Int)) (nd : Bool) (l : List SChunk)
    (h : ∀ c ∈ l, c.abandoned = false) : popAbandoned adv st nd l = (adv, st, nd, l) := by
  cases l with
  | nil => rfl
  | cons c cs =>
    have := h c (by simp)
    unfold popAbandoned; simp [this]

/-- on reliable traffic `_update_advanced_peer_ack_point` only moves the advanced peer ack point -/
theorem updateAdvAck_rel (t : Tx) (h : RelTx t) :
    ∃ adv fs, t.updateAdvAck = { t with advAck := adv, forwardStreams := fs } := by
  have hab : ∀ c ∈ t.sentQ, c.abandoned = false := fun c hc => (h.sentQ c hc).2.2
  unfold Tx.updateAdvAck
  simp only
  generalize ht0 : (if uint32_gte t.lastSacked t.advAck = true then
      { t with advAck := t.lastSacked, forwardNeeded := false, forwardStreams := [] } else t) = t0
  have hs0 : t0.sentQ = t.sentQ := by rw [← ht0]; split <;> rfl
  have hn0 : t0.forwardNeeded = false := by
    rw [← ht0]; split
    · rfl
    · exact h.needed
  have hfr : t0 = { t with advAck := t0.advAck, forwardStreams := t0.forwardStreams } := by
    rw [← ht0]; split
    · have := h.needed; cases t; simp_all
    · rfl
  generalize t0.advAck = adv at hfr
  generalize t0.forwardStreams = fs at hfr
  subst hfr
  rw [hs0, popAbandoned_rel _ _ _ _ hab]
  refine ⟨adv, fs, ?_⟩
  simp only [h.needed, Bool.false_eq_true, if_false]

end Aiortc.Sctp
