import Aiortc.Lemmas.C02.DrainStep
/-!
# The fault-free continuation drains (C02 drain)

* `quiesce`: from every coherent state the network empties within `phi` steps, and if a SACK that advances the
  cumulative ack was under way (`Ahead`) the cumulative ack has advanced by then;
* `epoch`: from a quiet coherent state with something outstanding, T3 expiry + the queued `_transmit` put the chunk
  following the cumulative ack into flight (`Ahead`), and `phi ≤ 2·nOut·2^nOut` afterwards;
* `drain_quiet`: so every epoch acknowledges at least one more chunk — induction on the number of chunks not yet
  cumulatively acknowledged;
* `Coh.drains`: from EVERY coherent state the continuation reaches a drained state within `Link.drainBound` steps,
  and there the receiver's cumulative TSN has advanced over every chunk that was outstanding or queued.
-/
namespace Aiortc.Sctp
open Aiortc.Gen

theorem quiesce : ∀ (n : Nat) {b : Int} {a r : Nat} {s : Link}, Coh b a r s → s.phi ≤ n →
    ∃ j a' r', j ≤ n ∧ Coh b a' r' (Link.run j s) ∧ (Link.run j s).Quiet ∧ a ≤ a'
      ∧ a' + (Link.run j s).tx.nOut = a + s.tx.nOut ∧ (Ahead b a r s → a < a') := by
  intro n
  induction n with
  | zero =>
    intro b a r s h hn
    by_cases hq : s.Quiet
    · exact ⟨0, a, r, Nat.le_refl _, h, hq, Nat.le_refl _, rfl, fun ha => absurd ha (not_ahead_of_quiet hq)⟩
    · obtain ⟨_, _, _, hphi, _⟩ := step_progress h hq
      omega
  | succ n ih =>
    intro b a r s h hn
    by_cases hq : s.Quiet
    · exact ⟨0, a, r, Nat.zero_le _, h, hq, Nat.le_refl _, rfl, fun ha => absurd ha (not_ahead_of_quiet hq)⟩
    · obtain ⟨a1, r1, hc1, hphi, ha1, hn1, hah1⟩ := step_progress h hq
      obtain ⟨j, a2, r2, hj, hc2, hq2, ha2, hn2, hah2⟩ := ih hc1 (by omega)
      refine ⟨j + 1, a2, r2, by omega, hc2, hq2, by omega, by simp only [Link.run]; omega, ?_⟩
      intro ha
      rcases hah1 ha with h' | h'
      · omega
      · have := hah2 h'; omega

theorem transmit_empty (t : Tx) (hs : t.sentQ = []) (ho : t.outQ = []) (hf : t.forwardTsn = none) :
    t.transmit.1.t3 = t.t3 ∧ dataOf t.transmit.2 = [] ∧ t.transmit.1.sentQ = [] ∧ t.transmit.1.outQ = [] := by
  unfold Tx.transmit
  simp [hs, ho, hf, rtxLoop, newLoop, dataOf]

theorem Link.run_two (s : Link) : Link.run 2 s = s.step.step := rfl

/-- **one epoch starts**: T3 expiry and the queued `_transmit` -/
theorem epoch {b : Int} {a r : Nat} {s : Link} (h : Coh b a r s) (hq : s.Quiet) (hne : s.tx.sentQ ≠ []) :
    Coh b a r s.fireT3.runTask ∧ s.fireT3.runTask.tx.nOut = s.tx.nOut
    ∧ s.fireT3.runTask.phi ≤ 2 * (s.tx.nOut * 2 ^ s.tx.nOut) ∧ Ahead b a r s.fireT3.runTask := by
  have h1 := h.fireT3
  have h2 := h1.runTask
  have sh := t3Expired_shape s.tx h.core.rel s.now1000
  have hn1 : (s.tx.t3Expired s.now1000).nOut = s.tx.nOut := by
    unfold Tx.nOut; rw [sh.sentQ, sh.outQ]; simp
  obtain ⟨hpot, hn2⟩ := pot_transmit (s.tx.t3Expired s.now1000) sh.rel.fwd h1.snd.flight.outQ
  have hple := pot_le (s.tx.t3Expired s.now1000)
  rw [hn1] at hple
  refine ⟨h2, by simp only [Link.runTask, Link.fireT3]; rw [hn2, hn1], ?_, ?_⟩
  · simp only [Link.phi, Link.runTask, Link.fireT3, hq.1, hq.2.1, List.nil_append, List.length_nil,
      Bool.false_eq_true, if_false]
    omega
  · obtain ⟨c, cs, hcs⟩ : ∃ c cs, (s.tx.t3Expired s.now1000).sentQ = c :: cs := by
      rw [sh.sentQ]
      cases hsq : s.tx.sentQ with
      | nil => exact absurd hsq hne
      | cons c cs => exact ⟨_, _, rfl⟩
    obtain ⟨_, _, _, _, _, _, more, hev⟩ := t3_then_transmit s.tx h.snd.flight.winv s.now1000 c cs hcs
    have hD : (rtxChunk c).toR ∈ dataOf (s.tx.t3Expired s.now1000).transmit.2 := by
      rw [hev, dataOf_append, dataOf_append]
      exact List.mem_append.mpr (Or.inl (List.mem_append.mpr (Or.inr (by simp [dataOf]))))
    have hseq : Seq b a (s.tx.t3Expired s.now1000).sentQ := h1.core.seq.sent
    rw [hcs] at hseq
    left
    refine ⟨?_, Or.inr ⟨(rtxChunk c).toR, ?_, hseq.1⟩⟩
    · simp only [Link.runTask, Link.fireT3]
      intro he
      rw [(List.append_eq_nil_iff.mp he).2] at hD
      cases hD
    · simp only [Link.runTask, Link.fireT3]
      exact List.mem_append.mpr (Or.inr hD)

/-! ## the bound -/

def epochCost (m : Nat) : Nat := 2 + 2 * (m * 2 ^ m)
def quietBound (m : Nat) : Nat := m * epochCost m + 2

theorem mulPow_mono {m n : Nat} (h : m ≤ n) : m * 2 ^ m ≤ n * 2 ^ n :=
  Nat.mul_le_mul h (Nat.pow_le_pow_right (by omega) h)

theorem epochCost_mono {m n : Nat} (h : m ≤ n) : epochCost m ≤ epochCost n := by
  have := mulPow_mono h; unfold epochCost; omega

theorem quietBound_step (m k : Nat) (hk : k ≤ m + 1) : 2 + 2 * (k * 2 ^ k) + quietBound m ≤ quietBound (m + 1) := by
  have h1 : epochCost k ≤ epochCost (m + 1) := epochCost_mono hk
  have h2 : m * epochCost m ≤ m * epochCost (m + 1) := Nat.mul_le_mul_left _ (epochCost_mono (by omega))
  have h3 : (m + 1) * epochCost (m + 1) = m * epochCost (m + 1) + epochCost (m + 1) := Nat.succ_mul _ _
  have h4 : epochCost k = 2 + 2 * (k * 2 ^ k) := rfl
  unfold quietBound
  omega

theorem drain_quiet : ∀ (m : Nat) {b : Int} {a r : Nat} {s : Link}, Coh b a r s → s.Quiet → s.tx.nOut ≤ m →
    ∃ j a' r', j ≤ quietBound m ∧ Coh b a' r' (Link.run j s) ∧ (Link.run j s).Drained
      ∧ a' + (Link.run j s).tx.nOut = a + s.tx.nOut := by
  intro m
  induction m with
  | zero =>
    intro b a r s h hq hm
    cases h3 : s.tx.t3 with
    | false =>
      exact ⟨0, a, r, Nat.zero_le _, h, Link.stuck_drained s h.snd (s.step_rest hq h3), rfl⟩
    | true =>
      have hsq : s.tx.sentQ = [] := List.eq_nil_of_length_eq_zero (by unfold Tx.nOut at hm; omega)
      have hoq : s.tx.outQ = [] := List.eq_nil_of_length_eq_zero (by unfold Tx.nOut at hm; omega)
      have h2 := h.fireT3.runTask
      have sh := t3Expired_shape s.tx h.core.rel s.now1000
      obtain ⟨e1, e2, e3, e4⟩ := transmit_empty (s.tx.t3Expired s.now1000) (by rw [sh.sentQ, hsq]; rfl)
        (by rw [sh.outQ, hoq]) sh.rel.fwd
      have hrun : Link.run 2 s = s.fireT3.runTask := by
        rw [Link.run_two, s.step_t3 hq h3, Link.step_task _ rfl]
      have hq2 : s.fireT3.runTask.Quiet :=
        ⟨by simp only [Link.runTask, Link.fireT3]; rw [e2, hq.1]; rfl, hq.2.1, rfl⟩
      have h32 : s.fireT3.runTask.tx.t3 = false := by
        simp only [Link.runTask, Link.fireT3]; rw [e1, sh.t3]
      refine ⟨2, a, r, by unfold quietBound; omega, by rw [hrun]; exact h2, ?_, ?_⟩
      · rw [hrun]; exact Link.stuck_drained _ h2.snd (Link.step_rest _ hq2 h32)
      · rw [hrun]; unfold Tx.nOut
        simp only [Link.runTask, Link.fireT3]; rw [e3, e4, hsq, hoq]
  | succ m ih =>
    intro b a r s h hq hm
    cases h3 : s.tx.t3 with
    | false =>
      exact ⟨0, a, r, Nat.zero_le _, h, Link.stuck_drained s h.snd (s.step_rest hq h3), rfl⟩
    | true =>
      by_cases hsq : s.tx.sentQ = []
      · -- nothing outstanding: then nothing queued either
        have hoq : s.tx.outQ = [] := by
          cases ho : s.tx.outQ with
          | nil => rfl
          | cons c cs =>
            rcases h.snd.queued (by simp [ho]) with h' | h'
            · exact absurd hsq h'
            · have := hq.2.2; simp only at h'; rw [this] at h'; cases h'
        exact (ih h hq (by unfold Tx.nOut; rw [hsq, hoq]; simp)).elim fun j hj =>
          hj.elim fun a' hj => hj.elim fun r' hj =>
            ⟨j, a', r', Nat.le_trans hj.1 (by
              have := quietBound_step m 0 (by omega); omega), hj.2⟩
      · obtain ⟨hc2, hn2, hphi2, hah2⟩ := epoch h hq hsq
        have hrun : Link.run 2 s = s.fireT3.runTask := by
          rw [Link.run_two, s.step_t3 hq h3, Link.step_task _ rfl]
        obtain ⟨j1, a3, r3, hj1, hc3, hq3, ha3, hn3, hah3⟩ := quiesce _ hc2 (Nat.le_refl _)
        have hlt := hah3 hah2
        obtain ⟨j2, a4, r4, hj2, hc4, hd4, hn4⟩ := ih hc3 hq3 (by omega)
        refine ⟨2 + j1 + j2, a4, r4, ?_, ?_, ?_, ?_⟩
        · have := quietBound_step m s.tx.nOut hm
          omega
        · rw [Link.run_add, Link.run_add, hrun]; exact hc4
        · rw [Link.run_add, Link.run_add, hrun]; exact hd4
        · rw [Link.run_add, Link.run_add, hrun]; omega

/-- the explicit bound: a function of the datagrams in flight and of the number of chunks in `sentQ` and `outQ` -/
def Link.drainBound (s : Link) : Nat :=
  2 * s.toRx.length + s.toTx.length + 1 + 2 * (s.tx.nOut * 2 ^ s.tx.nOut) + quietBound s.tx.nOut

theorem phi_le (s : Link) : s.phi ≤ 2 * s.toRx.length + s.toTx.length + 1 + 2 * (s.tx.nOut * 2 ^ s.tx.nOut) := by
  have := pot_le s.tx
  unfold Link.phi
  split <;> omega

/-- **Full drain from every coherent state.** -/
theorem Coh.drains {b : Int} {a r : Nat} {s : Link} (h : Coh b a r s) :
    ∃ j, j ≤ s.drainBound ∧ (Link.run j s).Drained
      ∧ (Link.run j s).rx.last = T b (a + s.tx.nOut) ∧ (Link.run j s).tx.lastSacked = T b (a + s.tx.nOut)
      ∧ (Link.run j s).tx.localTsn = T b (a + s.tx.nOut + 1)
      ∧ ∃ r', Coh b (a + s.tx.nOut) r' (Link.run j s) := by
  obtain ⟨j1, a1, r1, hj1, hc1, hq1, _, hn1, _⟩ := quiesce _ h (Nat.le_refl _)
  obtain ⟨j2, a2, r2, hj2, hc2, hd2, hn2⟩ := drain_quiet s.tx.nOut hc1 hq1 (by omega)
  have hphi := phi_le s
  have hz : (Link.run j2 (Link.run j1 s)).tx.nOut = 0 := by
    unfold Tx.nOut; rw [hd2.sentQ, hd2.outQ]; rfl
  have ha2 : a2 = a + s.tx.nOut := by omega
  have hr2 : r2 = a2 := by
    have := hc2.core.rlo; have := hc2.core.rhi; rw [hd2.sentQ] at this; simp at this; omega
  refine ⟨j1 + j2, by unfold Link.drainBound; omega, ?_, ?_, ?_, ?_, ?_⟩
  · rw [Link.run_add]; exact hd2
  · rw [Link.run_add, hc2.core.rlast, hr2, ha2]
  · rw [Link.run_add, hc2.core.seq.ls, ha2]
  · rw [Link.run_add, hc2.core.seq.localTsn, hd2.sentQ, hd2.outQ, ha2]; rfl
  · rw [Link.run_add, ← ha2]; exact ⟨r2, hc2⟩

end Aiortc.Sctp
