import Aiortc.Lemmas.C02.DrainPot
/-!
# The receiver on TSNs of the sender's range (C02 drain)

`rx_deliver`: if the receiver's cumulative TSN is `T b r`, its misordered TSNs are `T b k` with `r < k ≤ hi`, and a DATA
chunk with TSN `T b k`, `k ≤ hi`, arrives (in any order, possibly a duplicate), then the same holds afterwards with
some `r' ≥ r`, and `r' > r` if the chunk was the one following the cumulative TSN.
-/
namespace Aiortc.Sctp
open Aiortc.Gen

theorem markReceived_old (rx : Rx) (t : Int) (h : (uint32_gte rx.last t || rx.mis.contains t) = true) :
    (markReceived rx t).2.last = rx.last ∧ (markReceived rx t).2.mis = rx.mis := by
  unfold markReceived; simp only [h, if_true, and_self]

theorem markReceived_new (rx : Rx) (t : Int) (h : (uint32_gte rx.last t || rx.mis.contains t) = false) :
    (markReceived rx t).2.last = consolidate rx.last (sortByKey rx.last (rx.mis ++ [t]))
    ∧ (markReceived rx t).2.mis
        = (rx.mis ++ [t]).filter (fun x => uint32_gt x (consolidate rx.last (sortByKey rx.last (rx.mis ++ [t])))) := by
  unfold markReceived; simp only [h, Bool.false_eq_true, if_false, and_self]

/-- **one arrival at the receiver**, TSNs as indices -/
theorem rx_deliver (b : Int) (rx : Rx) (r hi k : Nat) (hok : RxOk rx) (hl : rx.last = T b r) (hr : r ≤ hi)
    (hhi : hi < 2147483648) (hmis : ∀ x ∈ rx.mis, ∃ j, r < j ∧ j ≤ hi ∧ x = T b j) (hk : k ≤ hi) :
    ∃ r', r ≤ r' ∧ r' ≤ hi ∧ (markReceived rx (T b k)).2.last = T b r'
      ∧ (∀ x ∈ (markReceived rx (T b k)).2.mis, ∃ j, r' < j ∧ j ≤ hi ∧ x = T b j)
      ∧ (k = r + 1 → r < r') := by
  have hnext : k = r + 1 → uint32_gte rx.last (T b k) = false ∧ rx.mis.contains (T b k) = false := by
    intro hk1
    subst hk1
    refine ⟨?_, ?_⟩
    · rw [hl, gte_T b r (r + 1) (by omega) (by omega)]; simp
    · have := hok.next; rwa [hl, T_succ] at this
  by_cases hdup : (uint32_gte rx.last (T b k) || rx.mis.contains (T b k)) = true
  · obtain ⟨e1, e2⟩ := markReceived_old rx (T b k) hdup
    rw [e1, e2]
    refine ⟨r, Nat.le_refl _, hr, hl, hmis, ?_⟩
    intro hk1
    obtain ⟨n1, n2⟩ := hnext hk1
    rw [n1, n2] at hdup; cases hdup
  · have hnd : (uint32_gte rx.last (T b k) || rx.mis.contains (T b k)) = false := by simpa using hdup
    obtain ⟨e1, e2⟩ := markReceived_new rx (T b k) hnd
    have hgt : r < k := by
      have : uint32_gte rx.last (T b k) = false := by
        cases h : uint32_gte rx.last (T b k) with
        | false => rfl
        | true => rw [h] at hnd; cases hnd
      rw [hl, gte_T b r k (by omega) (by omega)] at this
      simpa using this
    have hall : ∀ x ∈ rx.mis ++ [T b k], ∃ j, r < j ∧ j ≤ hi ∧ x = T b j := by
      intro x hx
      rcases List.mem_append.mp hx with hx | hx
      · exact hmis x hx
      · simp only [List.mem_singleton] at hx; exact ⟨k, hgt, hk, hx⟩
    have hlast : ∃ r', r ≤ r' ∧ r' ≤ hi ∧ (markReceived rx (T b k)).2.last = T b r' := by
      rw [e1]
      rcases consolidate_mem (sortByKey rx.last (rx.mis ++ [T b k])) rx.last with e | e
      · exact ⟨r, Nat.le_refl _, hr, by rw [e, hl]⟩
      · obtain ⟨j, j1, j2, j3⟩ := hall _ ((mem_sortByKey _ _ _).mp e)
        exact ⟨j, by omega, j2, j3⟩
    obtain ⟨r', r1, r2, r3⟩ := hlast
    refine ⟨r', r1, r2, r3, ?_, ?_⟩
    · intro x hx
      rw [e2, ← e1, r3, List.mem_filter] at hx
      obtain ⟨j, j1, j2, j3⟩ := hall x hx.1
      have := hx.2
      rw [j3, gt_T b j r' (by omega) (by omega)] at this
      exact ⟨j, by simpa using this, j2, j3⟩
    · intro hk1
      have hm := markReceived_next_mem rx hok
      rw [hl, T_succ, ← hk1, r3] at hm
      have : ∃ j, r < j ∧ j ≤ hi ∧ T b r' = T b j := by
        simp only [List.mem_cons] at hm
        rcases hm with hm | hm
        · exact ⟨k, hgt, hk, hm⟩
        · exact hmis _ hm
      obtain ⟨j, j1, j2, j3⟩ := this
      have := T_inj (by omega) (by omega) j3
      omega

end Aiortc.Sctp
