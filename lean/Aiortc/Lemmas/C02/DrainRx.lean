import Aiortc.Lemmas.C02.DrainPot
/-!
# The receiver on TSNs of the sender's range (C02 drain)

`rx_deliver`: if the receiver's cumulative TSN is `T b r`, its misordered TSNs are `T b k` with `r < k ≤ hi`, and a DATA
chunk with TSN `T b k`, `k ≤ hi`, arrives (in any order, possibly a duplicate), then the same holds afterwards with
some `r' ≥ r`, and `r' > r` if the chunk was the one following the cumulative TSN.
-/
namespace Aiortc.Sctp
open Aiortc.Gen

/-- the chunk after the cumulative TSN moves the cumulative TSN to itself or to a TSN that was misordered -/
theorem markReceived_next_mem (rx : Rx) (h : RxOk rx) :
    (markReceived rx (tsn_plus_one rx.last)).2.last ∈ tsn_plus_one rx.last :: rx.mis := by
  have hl := h.last
  have hgte : uint32_gte rx.last (tsn_plus_one rx.last) = false := by
    unfold uint32_gte uint32_gt tsn_plus_one; unfold R32 at hl
    rw [Bool.eq_false_iff]; simp only [ne_eq, Bool.or_eq_true, Bool.and_eq_true, decide_eq_true_eq]; omega
  unfold markReceived
  simp only [hgte, h.next, Bool.or_self, Bool.false_eq_true, if_false]
  -- the sorted list starts with the new TSN
  have hn32 : R32 (tsn_plus_one rx.last) := by unfold tsn_plus_one R32; omega
  have hnotin : tsn_plus_one rx.last ∉ rx.mis := by
    have := h.next; simpa using this
  have hdist : (rx.mis ++ [tsn_plus_one rx.last]).Pairwise (fun x y => serialKey rx.last x ≠ serialKey rx.last y) := by
    have hnd : (rx.mis ++ [tsn_plus_one rx.last]).Nodup := by
      rw [List.nodup_append]
      refine ⟨h.nodup, by simp, ?_⟩
      intro a ha b hb
      simp only [List.mem_singleton] at hb
      subst hb
      intro hab; subst hab; exact hnotin ha
    refine List.Pairwise.imp_of_mem ?_ hnd
    intro x y hx hy hne hk
    apply hne
    have hx32 : R32 x := by
      simp only [List.mem_append, List.mem_singleton] at hx
      rcases hx with hx | rfl
      · exact (h.mis x hx).1
      · exact hn32
    have hy32 : R32 y := by
      simp only [List.mem_append, List.mem_singleton] at hy
      rcases hy with hy | rfl
      · exact (h.mis y hy).1
      · exact hn32
    unfold serialKey at hk; unfold R32 at hx32 hy32; omega
  have hsorted := sortByKey_sorted rx.last _ hdist
  have hmem : ∀ x, x ∈ sortByKey rx.last (rx.mis ++ [tsn_plus_one rx.last]) ↔ x ∈ rx.mis ++ [tsn_plus_one rx.last] :=
    fun x => mem_sortByKey rx.last x _
  generalize hS : sortByKey rx.last (rx.mis ++ [tsn_plus_one rx.last]) = S at hsorted hmem
  cases S with
  | nil =>
    have := (hmem (tsn_plus_one rx.last)).mpr (by simp)
    cases this
  | cons hd rest =>
    have hhd : hd = tsn_plus_one rx.last := by
      have hin : tsn_plus_one rx.last ∈ hd :: rest := (hmem _).mpr (by simp)
      simp only [List.mem_cons] at hin
      rcases hin with hin | hin
      · exact hin.symm
      · exfalso
        have hlt := (List.pairwise_cons.mp hsorted).1 _ hin
        have hhdm : hd ∈ rx.mis ++ [tsn_plus_one rx.last] := (hmem hd).mp (by simp)
        simp only [List.mem_append, List.mem_singleton] at hhdm
        rcases hhdm with hm | hm
        · have := h.mis hd hm
          unfold serialKey tsn_plus_one at hlt; unfold R32 at this hl
          omega
        · rw [hm] at hlt; omega
    subst hhd
    have : consolidate rx.last (tsn_plus_one rx.last :: rest) = consolidate (tsn_plus_one rx.last) rest := by
      simp [consolidate]
    simp only [this]
    rcases consolidate_mem rest (tsn_plus_one rx.last) with e | e
    · rw [e]; simp
    · have := (hmem _).mp (List.mem_cons_of_mem _ e)
      simp only [List.mem_append, List.mem_singleton] at this
      simp only [List.mem_cons]
      rcases this with h' | h'
      · exact Or.inr h'
      · exact Or.inl h'

theorem markReceived_old (rx : Rx) (t : Int) (h : (uint32_gte rx.last t || rx.mis.contains t) = true) :
    (markReceived rx t).2.last = rx.last ∧ (markReceived rx t).2.mis = rx.mis := by
  unfold markReceived; simp only [h, if_true, and_self]

theorem markReceived_new (rx : Rx) (t : Int) (h : (uint32_gte rx.last t || rx.mis.contains t) = false) :
    (markReceived rx t).2.last = consolidate rx.last (sortByKey rx.last (rx.mis ++ [t]))
    ∧ (markReceived rx t).2.mis
        = (rx.mis ++ [t]).filter (fun x => uint32_gt x (consolidate rx.last (sortByKey rx.last (rx.mis ++ [t])))) := by
  unfold markReceived; simp only [h, Bool.false_eq_true, if_false, and_self]

/-- **one arrival at the receiver**, TSNs as indices -/
theorem rx_deliver (b : Int) (rx : Rx) (r hi k : Nat) (hok : RxOk rx) (hl : rx.last = T b r) (hr : r ≤ hi)
    (hhi : hi < 2147483648) (hmis : ∀ x ∈ rx.mis, ∃ j, r < j ∧ j ≤ hi ∧ x = T b j) (hk : k ≤ hi) :
    ∃ r', r ≤ r' ∧ r' ≤ hi ∧ (markReceived rx (T b k)).2.last = T b r'
      ∧ (∀ x ∈ (markReceived rx (T b k)).2.mis, ∃ j, r' < j ∧ j ≤ hi ∧ x = T b j)
      ∧ (k = r + 1 → r < r') := by
  have hnext : k = r + 1 → uint32_gte rx.last (T b k) = false ∧ rx.mis.contains (T b k) = false := by
    intro hk1
    subst hk1
    refine ⟨?_, ?_⟩
    · rw [hl, gte_T b r (r + 1) (by omega) (by omega)]; simp
    · have := hok.next; rwa [hl, T_succ] at this
  by_cases hdup : (uint32_gte rx.last (T b k) || rx.mis.contains (T b k)) = true
  · obtain ⟨e1, e2⟩ := markReceived_old rx (T b k) hdup
    rw [e1, e2]
    refine ⟨r, Nat.le_refl _, hr, hl, hmis, ?_⟩
    intro hk1
    obtain ⟨n1, n2⟩ := hnext hk1
    rw [n1, n2] at hdup; cases hdup
  · have hnd : (uint32_gte rx.last (T b k) || rx.mis.contains (T b k)) = false := by simpa using hdup
    obtain ⟨e1, e2⟩ := markReceived_new rx (T b k) hnd
    have hgt : r < k := by
      have : uint32_gte rx.last (T b k) = false := by
        cases h : uint32_gte rx.last (T b k) with
        | false => rfl
        | true => rw [h] at hnd; cases hnd
      rw [hl, gte_T b r k (by omega) (by omega)] at this
      simpa using this
    have hall : ∀ x ∈ rx.mis ++ [T b k], ∃ j, r < j ∧ j ≤ hi ∧ x = T b j := by
      intro x hx
      rcases List.mem_append.mp hx with hx | hx
      · exact hmis x hx
      · simp only [List.mem_singleton] at hx; exact ⟨k, hgt, hk, hx⟩
    have hlast : ∃ r', r ≤ r' ∧ r' ≤ hi ∧ (markReceived rx (T b k)).2.last = T b r' := by
      rw [e1]
      rcases consolidate_mem (sortByKey rx.last (rx.mis ++ [T b k])) rx.last with e | e
      · exact ⟨r, Nat.le_refl _, hr, by rw [e, hl]⟩
      · obtain ⟨j, j1, j2, j3⟩ := hall _ ((mem_sortByKey _ _ _).mp e)
        exact ⟨j, by omega, j2, j3⟩
    obtain ⟨r', r1, r2, r3⟩ := hlast
    refine ⟨r', r1, r2, r3, ?_, ?_⟩
    · intro x hx
      rw [e2, ← e1, r3, List.mem_filter] at hx
      obtain ⟨j, j1, j2, j3⟩ := hall x hx.1
      have := hx.2
      rw [j3, gt_T b j r' (by omega) (by omega)] at this
      exact ⟨j, by simpa using this, j2, j3⟩
    · intro hk1
      have hm := markReceived_next_mem rx hok
      rw [hl, T_succ, ← hk1, r3] at hm
      have : ∃ j, r < j ∧ j ≤ hi ∧ T b r' = T b j := by
        simp only [List.mem_cons] at hm
        rcases hm with hm | hm
        · exact ⟨k, hgt, hk, hm⟩
        · exact hmis _ hm
      obtain ⟨j, j1, j2, j3⟩ := this
      have := T_inj (by omega) (by omega) j3
      omega

end Aiortc.Sctp
