import Aiortc.Lemmas.C02.DrainHon1
/-!
# `_send_sack` with truncation: the gap blocks describe a prefix of the misordered set (C02 drain)

Without any bound on the number of blocks or on the offsets: the blocks `_send_sack` writes cover exactly the offsets of
a PREFIX (in serial order) of `_sack_misordered` — when the 296-entry limit or the 16-bit offset limit is hit, the rest
is left out.  Hence an honest SACK is always sound, and complete below the highest TSN it reports.
-/
namespace Aiortc.Sctp
open Aiortc.Gen

theorem build_prefix (rx : Rx) : ∀ (ts : List Int) (g : Option Int) (acc : List (Nat × Nat)) (prev : Option Nat),
    BuildSt rx g acc prev → IncFrom rx prev ts →
    ∃ n, ∀ k, Covered (sendSack.build rx g acc ts) k ↔ Covered acc k ∨ ∃ t ∈ ts.take n, rx.off t = k := by
  intro ts
  induction ts with
  | nil => intro g acc prev _ _; exact ⟨0, fun k => by simp [build_nil]⟩
  | cons t ts ih =>
    intro g acc prev hst hinc
    obtain ⟨hprev, hpos, ht32, hinc'⟩ := hinc
    rw [build_cons]
    by_cases h1 : rx.off t > 65535
    · exact ⟨0, fun k => by simp [h1]⟩
    · simp only [h1, if_false]
      have hle_t : rx.off t ≤ 65535 := by omega
      have hteq := off_eq rx t ht32
      rcases hst with ⟨hacc, hg, hp⟩ | ⟨r, a, b, hacc, hab, hb, hg, hp⟩
      · subst hacc hg hp
        simp only [reduceCtorEq, if_false, List.length_nil, List.nil_append]
        have hmax : ¬ (0 = SACK_MAX_ENTRIES) := by decide
        simp only [hmax, if_false]
        obtain ⟨n, hn⟩ := ih (some (tsn_plus_one t)) [(rx.off t, rx.off t)] (some (rx.off t))
          (Or.inr ⟨[], rx.off t, rx.off t, rfl, Nat.le_refl _, hle_t, by
            simp only [tsn_plus_one]; congr 1; unfold R32 at *; omega, rfl⟩) hinc'
        refine ⟨n + 1, fun k => ?_⟩
        rw [hn k, covered_single]
        simp only [Covered, List.not_mem_nil, false_and, exists_false, false_or, List.take_succ_cons, List.mem_cons,
          exists_eq_or_imp]
        constructor
        · rintro (h | h)
          · left; omega
          · right; exact h
        · rintro (h | h)
          · left; omega
          · right; exact h
      · subst hacc hg hp
        have hbt := hprev b rfl
        by_cases hext : rx.off t = b + 1
        · have hgt : (some ((rx.last + (b : Int) + 1) % 4294967296) : Option Int) = some t := by
            congr 1; rw [hteq, hext]; push_cast; omega
          simp only [hgt, if_true, List.reverse_append, List.reverse_cons, List.reverse_nil, List.nil_append,
            List.cons_append, List.reverse_reverse]
          obtain ⟨n, hn⟩ := ih (some (tsn_plus_one t)) (r ++ [(a, rx.off t)]) (some (rx.off t))
            (Or.inr ⟨r, a, rx.off t, rfl, by omega, hle_t, by
              simp only [tsn_plus_one]; congr 1; unfold R32 at *; omega, rfl⟩) hinc'
          refine ⟨n + 1, fun k => ?_⟩
          rw [hn k, covered_append, covered_append, covered_single, covered_single]
          simp only [List.take_succ_cons, List.mem_cons, exists_eq_or_imp]
          constructor
          · rintro ((h | h) | h)
            · exact Or.inl (Or.inl h)
            · rcases Nat.lt_or_ge b k with h' | h'
              · right; left; omega
              · left; right; omega
            · right; right; exact h
          · rintro ((h | h) | h | h)
            · exact Or.inl (Or.inl h)
            · left; right; omega
            · left; right; omega
            · right; exact h
        · have hgt : ¬ ((some ((rx.last + (b : Int) + 1) % 4294967296) : Option Int) = some t) := by
            intro h
            simp only [Option.some.injEq] at h
            apply hext
            rw [hteq] at h
            unfold R32 at *
            omega
          simp only [hgt, if_false]
          by_cases hlen : (r ++ [(a, b)]).length = SACK_MAX_ENTRIES
          · exact ⟨0, fun k => by simp [hlen]⟩
          · simp only [hlen, if_false]
            obtain ⟨n, hn⟩ := ih (some (tsn_plus_one t)) (r ++ [(a, b)] ++ [(rx.off t, rx.off t)]) (some (rx.off t))
              (Or.inr ⟨r ++ [(a, b)], rx.off t, rx.off t, rfl, Nat.le_refl _, hle_t, by
                simp only [tsn_plus_one]; congr 1; unfold R32 at *; omega, rfl⟩) hinc'
            refine ⟨n + 1, fun k => ?_⟩
            rw [hn k, covered_append (r ++ [(a, b)]), covered_single]
            simp only [List.take_succ_cons, List.mem_cons, exists_eq_or_imp]
            constructor
            · rintro ((h | h) | h)
              · exact Or.inl h
              · right; left; omega
              · right; right; exact h
            · rintro (h | h | h)
              · exact Or.inl (Or.inl h)
              · left; right; omega
              · right; exact h

/-- in a list sorted by a key, an element whose key is at most that of an element of a prefix is in the prefix -/
theorem mem_take_of_sorted {α} (f : α → Int) : ∀ (l : List α) (n : Nat), l.Pairwise (fun x y => f x < f y) →
    ∀ x ∈ l, ∀ y ∈ l.take n, f x ≤ f y → x ∈ l.take n
  | [], _, _, x, hx, _, _, _ => by cases hx
  | z :: zs, 0, _, _, _, y, hy, _ => by simp at hy
  | z :: zs, n + 1, hp, x, hx, y, hy, hle => by
    rw [List.take_succ_cons] at hy ⊢
    obtain ⟨hz, hzs⟩ := List.pairwise_cons.mp hp
    simp only [List.mem_cons] at hx hy ⊢
    rcases hx with rfl | hx
    · exact Or.inl rfl
    · rcases hy with rfl | hy
      · have := hz x hx; omega
      · exact Or.inr (mem_take_of_sorted f zs n hzs x hx y hy hle)

/-- **an honest SACK, whatever its size**: sound, and complete below anything it reports -/
theorem sack_prefix_idx (b : Int) (rx : Rx) (r hi : Nat) (hok : RxOk rx) (hl : rx.last = T b r)
    (hhi : hi < 2147483648) (hmis : ∀ x ∈ rx.mis, ∃ j, r < j ∧ j ≤ hi ∧ x = T b j) :
    (∀ k, Covered (sackGapBlocks rx) k → ∃ j, r < j ∧ j ≤ hi ∧ T b j ∈ rx.mis ∧ j - r = k)
    ∧ (∀ j k', r < j → j ≤ hi → T b j ∈ rx.mis → Covered (sackGapBlocks rx) k' → j - r ≤ k' →
        Covered (sackGapBlocks rx) (j - r)) := by
  have hoff : ∀ t ∈ rx.mis, ∃ j, r < j ∧ j ≤ hi ∧ t = T b j ∧ rx.off t = j - r := by
    intro t ht
    obtain ⟨j, j1, j2, j3⟩ := hmis t ht
    exact ⟨j, j1, j2, j3, by rw [j3, off_T b rx r j hl (by omega) (by omega)]⟩
  have hdist : rx.mis.Pairwise (fun x y => serialKey rx.last x ≠ serialKey rx.last y) := by
    refine List.Pairwise.imp_of_mem ?_ hok.nodup
    intro x y hx hy hne h
    apply hne
    have := (hok.mis x hx).1; have := (hok.mis y hy).1
    unfold serialKey at h; unfold R32 at *; omega
  have hsorted := sortByKey_sorted rx.last rx.mis hdist
  have hmem := fun x => mem_sortByKey rx.last x rx.mis
  have hinc : IncFrom rx none (sortByKey rx.last rx.mis) := by
    refine incFrom_of_sorted rx _ none ?_ (by intro b' hb'; cases hb') hsorted
    intro t ht
    obtain ⟨j, j1, j2, j3, j4⟩ := hoff t ((hmem t).mp ht)
    exact ⟨by rw [j3]; exact T_r32 b j, by omega⟩
  obtain ⟨n, hn⟩ := build_prefix rx (sortByKey rx.last rx.mis) none [] none (Or.inl ⟨rfl, rfl, rfl⟩) hinc
  have hcov : ∀ k, Covered (sackGapBlocks rx) k ↔ ∃ t ∈ (sortByKey rx.last rx.mis).take n, rx.off t = k := by
    intro k
    have := hn k
    simp only [Covered, List.not_mem_nil, false_and, exists_false, false_or] at this
    exact this
  have hkey : (sortByKey rx.last rx.mis).Pairwise (fun x y => ((rx.off x : Nat) : Int) < ((rx.off y : Nat) : Int)) := by
    refine List.Pairwise.imp_of_mem ?_ hsorted
    intro x y hx hy hlt
    obtain ⟨jx, _, _, ex, ox⟩ := hoff x ((hmem x).mp hx)
    obtain ⟨jy, _, _, ey, oy⟩ := hoff y ((hmem y).mp hy)
    rw [ex, ey] at hlt
    unfold serialKey at hlt; rw [hl] at hlt; unfold T at hlt
    rw [ox, oy]; omega
  refine ⟨?_, ?_⟩
  · intro k hk
    obtain ⟨t, ht, hk'⟩ := (hcov k).mp hk
    have htm := (hmem t).mp (List.mem_of_mem_take ht)
    obtain ⟨j, j1, j2, j3, j4⟩ := hoff t htm
    exact ⟨j, j1, j2, by rw [← j3]; exact htm, by omega⟩
  · intro j k' hj hjhi hjm hk' hle
    obtain ⟨t', ht', ho'⟩ := (hcov k').mp hk'
    obtain ⟨j0, j1, j2, j3, j4⟩ := hoff _ hjm
    have hjj : j = j0 := T_inj (by omega) (by omega) j3
    subst hjj
    have hin := mem_take_of_sorted (fun x => ((rx.off x : Nat) : Int)) _ n hkey (T b j) ((hmem _).mpr hjm) t' ht'
      (by show ((rx.off (T b j) : Nat) : Int) ≤ ((rx.off t' : Nat) : Int); omega)
    exact (hcov (j - r)).mpr ⟨T b j, hin, j4⟩

end Aiortc.Sctp
