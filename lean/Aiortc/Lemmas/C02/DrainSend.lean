import Aiortc.Lemmas.C02.DrainRx
/-!
# `_send` keeps the TSN structure (C02 drain)
-/
namespace Aiortc.Sctp
open Aiortc.Gen

theorem fragments_length (tsn : Int) (sid : Nat) (ssn : Int) (ppid : Nat) (o : Bool) (e m : Option Int) (n : Nat)
    (data : Bytes) : ∀ k, (fragments tsn sid ssn ppid o e m n data k).length = k
  | 0 => rfl
  | k + 1 => by simp [fragments, fragments_length tsn sid ssn ppid o e m n data k]

theorem fragments_rel (tsn : Int) (sid : Nat) (ssn : Int) (ppid : Nat) (o : Bool) (n : Nat) (data : Bytes) :
    ∀ k, ∀ c ∈ fragments tsn sid ssn ppid o none none n data k, c.Rel
  | 0, c, hc => by simp [fragments] at hc
  | k + 1, c, hc => by
    simp only [fragments, List.mem_cons] at hc
    rcases hc with rfl | hc
    · exact ⟨rfl, rfl, rfl⟩
    · exact fragments_rel tsn sid ssn ppid o n data k c hc

theorem fragments_seq (b : Int) (base : Nat) (sid : Nat) (ssn : Int) (ppid : Nat) (o : Bool) (e m : Option Int) (n : Nat)
    (data : Bytes) : ∀ k, k ≤ n → Seq b (base + (n - k)) (fragments (T b (base + 1)) sid ssn ppid o e m n data k)
  | 0, _ => trivial
  | k + 1, hk => by
    have ih := fragments_seq b base sid ssn ppid o e m n data k (by omega)
    simp only [fragments, Seq]
    refine ⟨?_, ?_⟩
    · rw [T_add]; congr 1; omega
    · rwa [show base + (n - (k + 1)) + 1 = base + (n - k) by omega]

theorem TxSeq.enqueue {b : Int} {a : Nat} {t : Tx} (h : TxSeq b a t) (sid ppid : Nat) (data : Bytes) (e m : Option Int)
    (o : Bool) (hb : a + t.nOut + fragCount data.length + 1 < 2147483648) :
    TxSeq b a (t.enqueue sid ppid data e m o) := by
  unfold Tx.nOut at hb
  have hl := fragments_length t.localTsn sid (if o then (dictGet t.streamSeq sid).getD 0 else 0) ppid o e m
    (fragCount data.length) data (fragCount data.length)
  refine ⟨h.b32, h.ls, ?_, ?_, ?_⟩
  · simp only [Tx.enqueue]
    rw [← List.append_assoc]
    refine Seq.append.mpr ⟨h.seq, ?_⟩
    have := fragments_seq b (a + (t.sentQ.length + t.outQ.length)) sid (if o then (dictGet t.streamSeq sid).getD 0 else 0)
      ppid o e m (fragCount data.length) data (fragCount data.length) (Nat.le_refl _)
    rw [← h.localTsn, Nat.sub_self, Nat.add_zero] at this
    simpa using this
  · simp only [Tx.enqueue, List.length_append, hl]
    rw [h.localTsn, T_add]; congr 1; omega
  · simp only [Tx.enqueue, List.length_append, hl]; omega

theorem RelTx.enqueue {t : Tx} (h : RelTx t) (sid ppid : Nat) (data : Bytes) (o : Bool) :
    RelTx (t.enqueue sid ppid data none none o) := by
  refine ⟨h.sentQ, ?_, h.fwd, h.needed⟩
  intro c hc
  simp only [Tx.enqueue, List.mem_append] at hc
  rcases hc with hc | hc
  · exact h.outQ c hc
  · exact fragments_rel _ _ _ _ _ _ _ _ c hc

theorem enqueue_nOut (t : Tx) (sid ppid : Nat) (data : Bytes) (e m : Option Int) (o : Bool) :
    (t.enqueue sid ppid data e m o).nOut = t.nOut + fragCount data.length
    ∧ (t.enqueue sid ppid data e m o).sentQ = t.sentQ := by
  have hl := fragments_length t.localTsn sid (if o then (dictGet t.streamSeq sid).getD 0 else 0) ppid o e m
    (fragCount data.length) data (fragCount data.length)
  simp only [Tx.nOut, Tx.enqueue, List.length_append, hl, and_true]; omega

end Aiortc.Sctp
