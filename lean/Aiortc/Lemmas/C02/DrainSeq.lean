import Aiortc.Lemmas.C02.DrainOps
/-!
# TSN structure of the sender (C02 drain)

`T b k` is the `k`-th TSN after the base `b` (the `lastSacked` the association started with).  As long as fewer
than 2³¹ chunks were ever sent, serial-number comparisons of such TSNs are comparisons of their indices.
`Seq b a l`: the chunks of `l` carry the TSNs `T b (a+1), T b (a+2), …`.  `TxSeq b a t`: the sender has `a` chunks
cumulatively acknowledged, `sentQ ++ outQ` continue from there, `localTsn` follows.
-/
namespace Aiortc.Sctp
open Aiortc.Gen

def T (b : Int) (k : Nat) : Int := (b + (k : Int)) % 4294967296

theorem T_r32 (b : Int) (k : Nat) : R32 (T b k) := by unfold T R32; omega

theorem T_zero {b : Int} (hb : R32 b) : T b 0 = b := by unfold T; unfold R32 at hb; omega

theorem T_succ (b : Int) (k : Nat) : tsn_plus_one (T b k) = T b (k + 1) := by
  unfold tsn_plus_one T; push_cast; omega

theorem T_add (b : Int) (k m : Nat) : (T b k + (m : Int)) % 4294967296 = T b (k + m) := by
  unfold T; push_cast; omega

theorem T_mod (b : Int) (k : Nat) : T b k % 4294967296 = T b k := by unfold T; omega

theorem T_inj {b : Int} {i j : Nat} (hi : i < 4294967296) (hj : j < 4294967296) (h : T b i = T b j) : i = j := by
  unfold T at h; omega

theorem gt_T (b : Int) (i j : Nat) (hi : i < 2147483648) (hj : j < 2147483648) :
    uint32_gt (T b i) (T b j) = decide (j < i) := by
  unfold uint32_gt T
  rw [Bool.eq_iff_iff]
  simp only [Bool.or_eq_true, Bool.and_eq_true, decide_eq_true_eq]
  omega

theorem gte_T (b : Int) (i j : Nat) (hi : i < 2147483648) (hj : j < 2147483648) :
    uint32_gte (T b i) (T b j) = decide (j ≤ i) := by
  unfold uint32_gte
  rw [gt_T b i j hi hj, Bool.eq_iff_iff]
  simp only [Bool.or_eq_true, decide_eq_true_eq]
  constructor
  · rintro (h | h)
    · have := T_inj (by omega) (by omega) h; omega
    · omega
  · intro h
    rcases Nat.lt_or_ge j i with h' | h'
    · exact Or.inr h'
    · have : i = j := by omega
      subst this; exact Or.inl rfl

/-! ## consecutive TSNs -/

def Seq (b : Int) : Nat → List SChunk → Prop
  | _, [] => True
  | a, c :: cs => c.tsn = T b (a + 1) ∧ Seq b (a + 1) cs

theorem Seq.append {b : Int} : ∀ {l1 l2 : List SChunk} {a : Nat},
    Seq b a (l1 ++ l2) ↔ Seq b a l1 ∧ Seq b (a + l1.length) l2
  | [], l2, a => by simp [Seq]
  | c :: cs, l2, a => by
    have := Seq.append (b := b) (l1 := cs) (l2 := l2) (a := a + 1)
    simp only [List.cons_append, Seq, List.length_cons, this]
    rw [show a + 1 + cs.length = a + (cs.length + 1) by omega]
    exact and_assoc.symm

theorem Seq.drop {b : Int} : ∀ {l : List SChunk} {a : Nat} (k : Nat), Seq b a l → k ≤ l.length → Seq b (a + k) (l.drop k)
  | l, a, 0, h, _ => by simpa using h
  | [], a, k + 1, _, hk => by simp at hk
  | c :: cs, a, k + 1, h, hk => by
    have := Seq.drop (b := b) (l := cs) (a := a + 1) k h.2 (by simpa using hk)
    rw [show a + 1 + k = a + (k + 1) by omega] at this
    simpa using this

theorem Seq.pw {b : Int} : ∀ {l l' : List SChunk} {a : Nat}, PW SameId l l' → Seq b a l → Seq b a l'
  | [], [], _, _, _ => trivial
  | _ :: cs, _ :: ds, _, h, hs => ⟨h.1.1.trans hs.1, Seq.pw (l := cs) (l' := ds) h.2 hs.2⟩
  | [], _ :: _, _, h, _ => h.elim
  | _ :: _, [], _, h, _ => h.elim

theorem Seq.mem {b : Int} : ∀ {l : List SChunk} {a : Nat} {c : SChunk}, Seq b a l → c ∈ l →
    ∃ k, a < k ∧ k ≤ a + l.length ∧ c.tsn = T b k
  | d :: ds, a, c, h, hc => by
    simp only [List.mem_cons] at hc
    rcases hc with rfl | hc
    · exact ⟨a + 1, by omega, by simp, h.1⟩
    · obtain ⟨k, h1, h2, h3⟩ := Seq.mem (l := ds) (a := a + 1) h.2 hc
      exact ⟨k, by omega, by simp; omega, h3⟩

theorem Seq.head {b : Int} {a : Nat} {c : SChunk} {cs : List SChunk} (h : Seq b a (c :: cs)) : c.tsn = T b (a + 1) := h.1

/-- the cumulative-ack loop pops exactly the chunks up to the cumulative TSN -/
theorem ackLoop_seq (b : Int) (k : Nat) : ∀ (l : List SChunk) (a fl done db : Nat), Seq b a l → a ≤ k → k ≤ a + l.length →
    a + l.length < 2147483648 → (ackLoop (T b k) fl done db l).2.2.2 = l.drop (k - a) := by
  intro l
  induction l with
  | nil => intro a fl done db _ _ _ _; simp [ackLoop]
  | cons c cs ih =>
    intro a fl done db hs h1 h2 h3
    rw [ackLoop_cons, hs.1, gte_T b k (a + 1) (by simp at h2 h3; omega) (by simp at h3; omega)]
    by_cases hk : a + 1 ≤ k
    · simp only [hk, decide_true, if_true]
      rw [ih (a + 1) _ _ _ hs.2 hk (by simp at h2; omega) (by simp at h3; omega)]
      rw [show k - a = (k - (a + 1)) + 1 by omega]
      simp
    · simp only [hk, decide_false, Bool.false_eq_true, if_false]
      rw [show k - a = 0 by omega]; simp

/-! ## the sender -/

structure TxSeq (b : Int) (a : Nat) (t : Tx) : Prop where
  b32 : R32 b
  ls : t.lastSacked = T b a
  seq : Seq b a (t.sentQ ++ t.outQ)
  localTsn : t.localTsn = T b (a + (t.sentQ.length + t.outQ.length) + 1)
  bound : a + (t.sentQ.length + t.outQ.length) + 1 < 2147483648

theorem TxSeq.sent {b : Int} {a : Nat} {t : Tx} (h : TxSeq b a t) : Seq b a t.sentQ := (Seq.append.mp h.seq).1

/-- the guard of `_receive_sack_chunk` by index: ignored iff behind `lastSacked` or beyond the last TSN assigned -/
theorem sackStale_T {b : Int} {a : Nat} {t : Tx} (h : TxSeq b a t) (k : Nat) (hk : k < 2147483648) :
    t.sackStale (T b k) = (decide (k < a) || decide (a + (t.sentQ.length + t.outQ.length) < k)) := by
  unfold Tx.sackStale
  have hb := h.bound
  have hm : tsn_minus_one t.localTsn = T b (a + (t.sentQ.length + t.outQ.length)) := by
    rw [h.localTsn]; unfold tsn_minus_one T; push_cast; omega
  rw [hm, h.ls, gte_T b k a hk (by omega), gt_T b k _ hk (by omega)]
  by_cases h1 : a ≤ k <;> simp [h1] <;> omega

/-- a SACK whose cumulative TSN is behind `lastSacked` is ignored -/
theorem receiveSack_stale {b : Int} {a : Nat} {t : Tx} (h : TxSeq b a t) (k : Nat) (hk : k < a) (gaps : List (Nat × Nat))
    (now : Int) : t.receiveSack (T b k) gaps now = .ok none := by
  unfold Tx.receiveSack
  have := h.bound
  rw [sackStale_T h k (by omega)]
  simp [hk]

/-- a SACK between `lastSacked` and the last TSN assigned passes the guard -/
theorem not_stale {b : Int} {a : Nat} {t : Tx} (h : TxSeq b a t) (k : Nat) (hk : a ≤ k)
    (hk2 : k ≤ a + (t.sentQ.length + t.outQ.length)) : t.sackStale (T b k) = false := by
  have := h.bound
  rw [sackStale_T h k (by omega)]
  simp; omega

theorem ackedQ_seq {b : Int} {a : Nat} {t : Tx} (h : TxSeq b a t) (k : Nat) (h1 : a ≤ k) (h2 : k ≤ a + t.sentQ.length) :
    t.ackedQ (T b k) = t.sentQ.drop (k - a) := by
  have := h.bound
  exact ackLoop_seq b k t.sentQ a _ _ _ h.sent h1 h2 (by omega)

/-- **a SACK keeps the TSN structure**: `k - a` chunks are popped, `lastSacked` becomes `T b k` -/
theorem TxSeq.sack {b : Int} {a : Nat} {t t' : Tx} (h : TxSeq b a t) (k : Nat) (h1 : a ≤ k) (h2 : k ≤ a + t.sentQ.length)
    (gaps : List (Nat × Nat)) (hs : SackShape t t' (T b k) gaps) :
    TxSeq b k t' ∧ t'.sentQ.length + (k - a) = t.sentQ.length := by
  have hq := ackedQ_seq h k h1 h2
  have hpw := sackList_sameId (T b k) gaps (t.ackedQ (T b k))
  rw [← hs.sentQ, hq] at hpw
  have hlen : t'.sentQ.length + (k - a) = t.sentQ.length := by
    have := PW.length hpw; simp at this; omega
  have hb := h.bound
  refine ⟨⟨h.b32, hs.lastSacked, ?_, ?_, by rw [hs.outQ]; omega⟩, hlen⟩
  · rw [hs.outQ]
    obtain ⟨s1, s2⟩ := Seq.append.mp h.seq
    refine Seq.append.mpr ⟨?_, ?_⟩
    · have := Seq.drop (k - a) s1 (by omega)
      rw [show a + (k - a) = k by omega] at this
      exact Seq.pw hpw this
    · rw [show k + t'.sentQ.length = a + t.sentQ.length by omega]; exact s2
  · rw [hs.localTsn, hs.outQ, h.localTsn]
    congr 1; omega

theorem TxSeq.t3 {b : Int} {a : Nat} {t t' : Tx} (h : TxSeq b a t) (hs : T3Shape t t') : TxSeq b a t' := by
  have hlen : t'.sentQ.length = t.sentQ.length := by rw [hs.sentQ]; simp
  have hpw : PW SameId t.sentQ t'.sentQ := by
    rw [hs.sentQ]
    generalize t.sentQ = l
    induction l with
    | nil => trivial
    | cons c cs ih => exact ⟨hitMark_sameId c, ih⟩
  refine ⟨h.b32, by rw [hs.lastSacked]; exact h.ls, ?_, by rw [hs.localTsn, hs.outQ, hlen]; exact h.localTsn,
    by rw [hs.outQ, hlen]; exact h.bound⟩
  rw [hs.outQ]
  obtain ⟨s1, s2⟩ := Seq.append.mp h.seq
  exact Seq.append.mpr ⟨Seq.pw hpw s1, by rw [hlen]; exact s2⟩

theorem rtxChunk_sameId (c : SChunk) : SameId c (rtxChunk c) := ⟨rfl, rfl, rfl, rfl⟩
theorem newChunk_sameId (c : SChunk) : SameId c (newChunk c) := ⟨rfl, rfl, rfl, rfl⟩

theorem RtxPW.sameId : ∀ {l l' : List SChunk} {es : List RChunk}, RtxPW l l' es → PW SameId l l'
  | _, _, _, .nil => trivial
  | _, _, _, .keep c h => ⟨SameId.refl c, RtxPW.sameId h⟩
  | _, _, _, .send c _ h => ⟨rtxChunk_sameId c, RtxPW.sameId h⟩

theorem map_newChunk_sameId : ∀ l : List SChunk, PW SameId l (l.map newChunk)
  | [] => trivial
  | c :: cs => ⟨newChunk_sameId c, map_newChunk_sameId cs⟩

/-- `_transmit` keeps the TSN structure; chunks only move from `outQ` to the end of `sentQ` -/
theorem transmit_pw (t : Tx) (hf : t.forwardTsn = none) :
    PW SameId (t.sentQ ++ t.outQ) (t.transmit.1.sentQ ++ t.transmit.1.outQ)
    ∧ t.sentQ.length ≤ t.transmit.1.sentQ.length
    ∧ t.transmit.1.sentQ.length + t.transmit.1.outQ.length = t.sentQ.length + t.outQ.length := by
  obtain ⟨mid, es, k, h1, h2, h3, _⟩ := (transmit_shape t hf).shape
  have hpw := RtxPW.sameId h1
  have hl := PW.length hpw
  refine ⟨?_, by rw [h2]; simp; omega, by rw [h2, h3]; simp; omega⟩
  rw [h2, h3, List.append_assoc]
  refine PW.append hpw ?_
  have := PW.append (map_newChunk_sameId (t.outQ.take k)) (PW.refl SameId.refl (t.outQ.drop k))
  rwa [List.take_append_drop] at this

theorem TxSeq.transmit {b : Int} {a : Nat} {t : Tx} (h : TxSeq b a t) (hf : t.forwardTsn = none) :
    TxSeq b a t.transmit.1 := by
  obtain ⟨hpw, _, hlen⟩ := transmit_pw t hf
  have sh := transmit_shape t hf
  exact ⟨h.b32, by rw [sh.lastSacked]; exact h.ls, Seq.pw hpw h.seq, by rw [sh.localTsn, hlen]; exact h.localTsn,
    by rw [hlen]; exact h.bound⟩

theorem RelTx.transmit {t : Tx} (h : RelTx t) : RelTx t.transmit.1 := by
  obtain ⟨hpw, _, _⟩ := transmit_pw t h.fwd
  have sh := transmit_shape t h.fwd
  have hall : ∀ c ∈ t.transmit.1.sentQ ++ t.transmit.1.outQ, c.Rel := by
    refine PW.sameId_rel hpw ?_
    intro c hc
    rcases List.mem_append.mp hc with hc | hc
    · exact h.sentQ c hc
    · exact h.outQ c hc
  exact ⟨fun c hc => hall c (List.mem_append.mpr (Or.inl hc)), fun c hc => hall c (List.mem_append.mpr (Or.inr hc)),
    sh.fwd, by rw [sh.needed]; exact h.needed⟩

end Aiortc.Sctp
