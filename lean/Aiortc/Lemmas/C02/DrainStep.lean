import Aiortc.Lemmas.C02.DrainCoh
/-!
# One step of the fault-free continuation (C02 drain)

`Link.phi` = twice the DATA chunks in flight + the SACKs in flight + the pending task + twice the emission potential
of the sender.  Every step of `Link.step` that is not a T3 expiry strictly decreases it (`step_progress`), keeps
coherence, never pops less than nothing (`a ≤ a'`), conserves `a + nOut`, and keeps the promise `Ahead` ("a SACK that
advances the cumulative ack is under way") until the cumulative ack has advanced.
-/
namespace Aiortc.Sctp
open Aiortc.Gen

def Link.phi (s : Link) : Nat :=
  2 * s.toRx.length + s.toTx.length + (if s.pending then 1 else 0) + 2 * s.tx.pot

/-- nothing in flight, no task pending: the next step is a T3 expiry or none at all -/
def Link.Quiet (s : Link) : Prop := s.toRx = [] ∧ s.toTx = [] ∧ s.pending = false

/-- a SACK whose cumulative TSN is ahead of the sender's is in flight, or a DATA chunk is in flight whose SACK will be -/
def Ahead (b : Int) (a r : Nat) (s : Link) : Prop :=
  (s.toRx ≠ [] ∧ (a < r ∨ ∃ d ∈ s.toRx, d.tsn = T b (a + 1)))
  ∨ (∃ p ∈ s.toTx, ∃ k, a < k ∧ k ≤ r ∧ p.1 = T b k)

theorem not_ahead_of_quiet {b : Int} {a r : Nat} {s : Link} (hq : s.Quiet) : ¬ Ahead b a r s := by
  rintro (⟨h, _⟩ | ⟨p, hp, _⟩)
  · exact h hq.1
  · rw [hq.2.1] at hp; cases hp

theorem Link.step_task (s : Link) (hp : s.pending = true) : s.step = s.runTask := by
  unfold Link.step; simp [hp]

theorem Link.step_sack (s : Link) (cum : Int) (gaps : List (Nat × Nat)) (rest : List (Int × List (Nat × Nat)))
    (hp : s.pending = false) (hr : s.toRx = []) (ht : s.toTx = (cum, gaps) :: rest) :
    s.step = s.deliverSack cum gaps rest := by
  unfold Link.step; simp [hp, hr, ht]

theorem Link.step_t3 (s : Link) (hq : s.Quiet) (h3 : s.tx.t3 = true) : s.step = s.fireT3 := by
  unfold Link.step; simp [hq.1, hq.2.1, hq.2.2, h3]

theorem Link.step_rest (s : Link) (hq : s.Quiet) (h3 : s.tx.t3 = false) : s.step = s := by
  unfold Link.step; simp [hq.1, hq.2.1, hq.2.2, h3]

theorem step_progress {b : Int} {a r : Nat} {s : Link} (h : Coh b a r s) (hq : ¬ s.Quiet) :
    ∃ a' r', Coh b a' r' s.step ∧ s.step.phi + 1 ≤ s.phi ∧ a ≤ a' ∧ a' + s.step.tx.nOut = a + s.tx.nOut
      ∧ (Ahead b a r s → a < a' ∨ Ahead b a' r' s.step) := by
  have hbound := h.core.seq.bound
  have hrhi := h.core.rhi
  cases hp : s.pending with
  | true =>
    rw [s.step_task hp]
    obtain ⟨hpot, hn⟩ := pot_transmit s.tx h.core.rel.fwd h.snd.flight.outQ
    refine ⟨a, r, h.runTask, ?_, Nat.le_refl _, by simp only [Link.runTask]; rw [hn], ?_⟩
    · simp only [Link.phi, Link.runTask, hp, List.length_append, if_true, Bool.false_eq_true, if_false]; omega
    · intro ha
      right
      rcases ha with ⟨h1, h2⟩ | ⟨p, hp1, hp2⟩
      · left
        refine ⟨by simp only [Link.runTask]; intro he; exact h1 (List.append_eq_nil_iff.mp he).1, ?_⟩
        rcases h2 with h2 | ⟨d, hd, hd2⟩
        · exact Or.inl h2
        · exact Or.inr ⟨d, by simp only [Link.runTask]; exact List.mem_append.mpr (Or.inl hd), hd2⟩
      · exact Or.inr ⟨p, hp1, hp2⟩
  | false =>
    cases hr : s.toRx with
    | cons d rest =>
      rw [s.step_data d rest hp hr]
      have hd : d ∈ s.toRx := by rw [hr]; simp
      obtain ⟨r', k, r1, hkb, r2, r3, hc, htx⟩ := h.deliverData d hd rest (fun e he => by rw [hr]; simp [he])
      refine ⟨a, r', hc, ?_, Nat.le_refl _, rfl, ?_⟩
      · simp only [Link.phi, Link.deliverData, hp, hr, List.length_append, List.length_cons, List.length_nil,
          Bool.false_eq_true, if_false]; omega
      · intro ha
        right
        have hnew : a < r' → Ahead b a r' (s.deliverData d rest) := by
          intro hlt
          right
          exact ⟨(T b r', sackGapBlocks (markReceived s.rx (d.tsn % 4294967296)).2), by rw [htx]; simp, r', hlt,
            Nat.le_refl _, rfl⟩
        rcases ha with ⟨_, h2⟩ | ⟨p, hp1, kk, k1, k2, k3⟩
        · rcases h2 with h2 | ⟨d', hd', hd2⟩
          · exact hnew (by omega)
          · rw [hr] at hd'
            simp only [List.mem_cons] at hd'
            rcases hd' with rfl | hd'
            · rcases Nat.lt_or_ge a r with hlt | hge
              · exact hnew (by omega)
              · have hk : k = a + 1 := by
                  have e1 : T b k = T b (a + 1) := by rw [← r2, hd2]
                  exact T_inj (by omega) (by omega) e1
                have := r3 (by have := h.core.rlo; omega)
                exact hnew (by have := h.core.rlo; omega)
            · rcases Nat.lt_or_ge a r' with hlt | hge
              · exact hnew hlt
              · left
                have hne : (s.deliverData d rest).toRx ≠ [] := by
                  simp only [Link.deliverData]; intro he; rw [he] at hd'; cases hd'
                refine ⟨hne, Or.inr ⟨d', ?_, hd2⟩⟩
                simp only [Link.deliverData]; exact hd'
        · right
          exact ⟨p, by rw [htx]; exact List.mem_append.mpr (Or.inl hp1), kk, k1, by omega, k3⟩
    | nil =>
      cases ht : s.toTx with
      | nil => exact absurd ⟨hr, ht, hp⟩ hq
      | cons p rest =>
        obtain ⟨cum, gaps⟩ := p
        rw [s.step_sack cum gaps rest hp hr ht]
        have hpm : (cum, gaps) ∈ s.toTx := by rw [ht]; simp
        have hrest : ∀ q ∈ rest, q ∈ s.toTx := fun q hq => by rw [ht]; simp [hq]
        obtain ⟨k, hk, hpk⟩ := h.core.toTx _ hpm
        simp only at hpk
        subst hpk
        have hahead : ∀ a' : Nat, ((a' = a ∧ k < a) ∨ a' = k) → Ahead b a r s →
            a < a' ∨ ∃ p ∈ rest, ∃ kk, a' < kk ∧ kk ≤ r ∧ p.1 = T b kk := by
          intro a' ha' ha
          rcases ha with ⟨h1, _⟩ | ⟨p, hp1, kk, k1, k2, k3⟩
          · exact absurd hr h1
          · rw [ht] at hp1
            simp only [List.mem_cons] at hp1
            rcases hp1 with rfl | hp1
            · have : k = kk := T_inj (by omega) (by omega) k3
              rcases ha' with ⟨rfl, hlt⟩ | hak
              · omega
              · left; omega
            · rcases ha' with ⟨rfl, _⟩ | hak
              · exact Or.inr ⟨p, hp1, kk, k1, k2, k3⟩
              · rcases Nat.lt_or_ge k kk with hlt | hge
                · exact Or.inr ⟨p, hp1, kk, by omega, k2, k3⟩
                · left; omega
        rcases deliverSack_cases h k hk gaps rest with ⟨hlt, he⟩ | ⟨hge, t', evs, hrs, hsh, he⟩
        · rw [he]
          refine ⟨a, r, ⟨h.core.net rfl rfl (fun d hd => hd) hrest, h.snd⟩, ?_, Nat.le_refl _, rfl, ?_⟩
          · simp only [Link.phi, hp, hr, ht, List.length_cons, Bool.false_eq_true, if_false]; omega
          · intro ha
            rcases hahead a (Or.inl ⟨rfl, hlt⟩) ha with h' | h'
            · omega
            · exact Or.inr (Or.inr h')
        · obtain ⟨a', ha1, hc, hn⟩ := h.deliverSack (T b k, gaps) hpm rest hrest
          have ha' : a' = k := by
            -- the new cumulative ack is the SACK's
            have h1 := hc.core.seq.ls
            simp only [he] at h1
            have h2 : t'.transmit.1.lastSacked = T b k := by
              rw [(transmit_shape t' hsh.rel.fwd).lastSacked, hsh.lastSacked]
            have hb' := hc.core.seq.bound
            exact T_inj (by omega) (by omega) (h1.symm.trans h2)
          subst ha'
          refine ⟨a', r, hc, ?_, ha1, hn, ?_⟩
          · obtain ⟨hp1, _⟩ := pot_sack h.core.seq a' hge (by omega) gaps hsh
            obtain ⟨hp2, _⟩ := pot_transmit t' hsh.rel.fwd (by rw [hsh.outQ]; exact h.snd.flight.outQ)
            rw [he]
            simp only [Link.phi, hp, hr, ht, List.length_cons, List.nil_append, Bool.false_eq_true, if_false]; omega
          · intro ha
            rcases hahead a' (Or.inr rfl) ha with h' | h'
            · exact Or.inl h'
            · right; right
              rw [he]; exact h'

end Aiortc.Sctp
