import Aiortc.Lemmas.C02.SctpFlight
/-!
# `_maybe_abandon` and the loops that call it (C02)

`maybeAbandon_spec`: what `_maybe_abandon` does to the sent queue, as a pointwise relation (each chunk is
left alone or marked abandoned and discounted) plus the unsent fragments moved in from the outbound queue.
From it: the strike loop of `_receive_sack_chunk` and the marking loop of `_t3_expired`.
-/
namespace Aiortc.Sctp
open Aiortc.Gen

/-- a chunk as `_maybe_abandon` leaves it -/
def abMark (c : SChunk) : SChunk := { c with abandoned := true, retransmit := false, inFlight := false }

theorem abMark_idem (c : SChunk) : abMark (abMark c) = abMark c := rfl
theorem abMark_w (c : SChunk) : (abMark c).w = 0 := by simp [abMark, SChunk.w]

/-- left alone, or abandoned -/
def AbRel (c d : SChunk) : Prop := d = c ∨ d = abMark c

theorem AbRel.refl (c : SChunk) : AbRel c c := Or.inl rfl
theorem AbRel.trans {c d e : SChunk} (h1 : AbRel c d) (h2 : AbRel d e) : AbRel c e := by
  rcases h1 with rfl | rfl
  · exact h2
  · rcases h2 with rfl | rfl
    · exact Or.inr rfl
    · exact Or.inr rfl

theorem AbRel.abOk {c d : SChunk} (h : AbRel c d) (hc : AbOk c) : AbOk d := by
  rcases h with rfl | rfl
  · exact hc
  · intro _; exact ⟨rfl, rfl⟩

theorem markAb_eq_abMark (fl : Nat) (c : SChunk) : markAb fl c = (fl - c.w, abMark c) := by
  unfold markAb
  have h1 := decFlight_fl fl { c with abandoned := true, retransmit := false }
  have h2 := decFlight_fields fl { c with abandoned := true, retransmit := false }
  have hw : ({ c with abandoned := true, retransmit := false } : SChunk).w = c.w := by simp [SChunk.w]
  rw [hw] at h1
  exact Prod.ext h1 h2

theorem abandonBack_cons (fl : Nat) (c : SChunk) (cs : List SChunk) :
    abandonBack fl (c :: cs) =
      if flagB c.flags then (fl - c.w, abMark c :: cs)
      else ((abandonBack (fl - c.w) cs).1, abMark c :: (abandonBack (fl - c.w) cs).2) := by
  conv => lhs; unfold abandonBack
  simp only [markAb_eq_abMark]

theorem abandonFwd_cons (fl : Nat) (c : SChunk) (cs : List SChunk) :
    abandonFwd fl (c :: cs) =
      if flagE c.flags then (fl - c.w, abMark c :: cs, true)
      else ((abandonFwd (fl - c.w) cs).1, abMark c :: (abandonFwd (fl - c.w) cs).2.1, (abandonFwd (fl - c.w) cs).2.2) := by
  conv => lhs; unfold abandonFwd
  simp only [markAb_eq_abMark]

theorem abandonBack_spec : ∀ (l : List SChunk) (fl : Nat),
    PW AbRel l (abandonBack fl l).2 ∧ Bal fl l (abandonBack fl l).1 (abandonBack fl l).2
    ∧ (abandonBack fl l).1 ≤ fl := by
  intro l
  induction l with
  | nil => intro fl; exact ⟨trivial, Bal.refl _ _, Nat.le_refl _⟩
  | cons c cs ih =>
    intro fl
    rw [abandonBack_cons]
    split
    · refine ⟨⟨Or.inr rfl, PW.refl AbRel.refl cs⟩, ?_, Nat.sub_le _ _⟩
      intro hl; simp only [flightSum_cons, abMark_w] at hl ⊢; omega
    · have := ih (fl - c.w)
      refine ⟨⟨Or.inr rfl, this.1⟩, ?_, by have := this.2.2; simp only; omega⟩
      intro hl
      simp only [flightSum_cons, abMark_w] at hl ⊢
      have := this.2.1 (by omega)
      omega

theorem abandonFwd_spec : ∀ (l : List SChunk) (fl : Nat),
    PW AbRel l (abandonFwd fl l).2.1 ∧ Bal fl l (abandonFwd fl l).1 (abandonFwd fl l).2.1
    ∧ (abandonFwd fl l).1 ≤ fl := by
  intro l
  induction l with
  | nil => intro fl; exact ⟨trivial, Bal.refl _ _, Nat.le_refl _⟩
  | cons c cs ih =>
    intro fl
    rw [abandonFwd_cons]
    split
    · refine ⟨⟨Or.inr rfl, PW.refl AbRel.refl cs⟩, ?_, Nat.sub_le _ _⟩
      intro hl; simp only [flightSum_cons, abMark_w] at hl ⊢; omega
    · have := ih (fl - c.w)
      refine ⟨⟨Or.inr rfl, this.1⟩, ?_, by have := this.2.2; simp only; omega⟩
      intro hl
      simp only [flightSum_cons, abMark_w] at hl ⊢
      have := this.2.1 (by omega)
      omega

theorem abandonUnsent_spec : ∀ (l : List SChunk),
    (∀ d ∈ (abandonUnsent l).1, ∃ c ∈ l, d = { c with abandoned := true })
    ∧ (∀ c ∈ (abandonUnsent l).2, c ∈ l) := by
  intro l
  induction l with
  | nil => simp [abandonUnsent]
  | cons c cs ih =>
    unfold abandonUnsent
    split
    · refine ⟨?_, ?_⟩
      · intro d hd; simp only [List.mem_singleton] at hd; exact ⟨c, by simp, hd⟩
      · intro d hd; simp [hd]
    · refine ⟨?_, ?_⟩
      · intro d hd
        simp only [List.mem_cons] at hd
        rcases hd with rfl | hd
        · exact ⟨c, by simp, rfl⟩
        · obtain ⟨x, hx, e⟩ := ih.1 d hd; exact ⟨x, by simp [hx], e⟩
      · intro d hd; have := ih.2 d hd; simp [this]

/-- What `_maybe_abandon(self._sent_queue[pos])` does. -/
structure AbSpec (t : Tx) (pos : Nat) (r : Bool × Tx) : Prop where
  /-- nothing but the flight counter and the two queues changes -/
  frame : r.2 = { t with flight := r.2.flight, sentQ := r.2.sentQ, outQ := r.2.outQ }
  no : r.1 = false → r.2 = t ∧ ∀ c, t.sentQ[pos]? = some c → c.abandoned = false
  yes : r.1 = true → ∃ d, r.2.sentQ[pos]? = some d ∧ d.abandoned = true
  shape : ∃ front moved, r.2.sentQ = front ++ moved ∧ PW AbRel t.sentQ front
      ∧ (∀ d ∈ moved, ∃ c ∈ t.outQ, d = { c with abandoned := true })
      ∧ Bal t.flight t.sentQ r.2.flight front
  outQ : ∀ c ∈ r.2.outQ, c ∈ t.outQ
  flight_le : r.2.flight ≤ t.flight

theorem maybeAbandon_spec (t : Tx) (pos : Nat) (now : Int) : AbSpec t pos (t.maybeAbandon pos now) := by
  unfold Tx.maybeAbandon
  cases hp : t.sentQ[pos]? with
  | none =>
    exact ⟨rfl, fun _ => ⟨rfl, by intro c hc; rw [hp] at hc; cases hc⟩, by simp,
      ⟨t.sentQ, [], by simp, PW.refl AbRel.refl _, by simp, Bal.refl _ _⟩, fun c hc => hc, Nat.le_refl _⟩
  | some chunk =>
    by_cases hab : chunk.abandoned = true
    · simp only [hab, if_true]
      exact ⟨rfl, by simp, fun _ => ⟨chunk, hp, hab⟩,
        ⟨t.sentQ, [], by simp, PW.refl AbRel.refl _, by simp, Bal.refl _ _⟩, fun c hc => hc, Nat.le_refl _⟩
    · simp only [hab, Bool.false_eq_true, if_false]
      by_cases hsh : shouldAbandon chunk now = true
      · simp only [hsh, Bool.not_true, Bool.false_eq_true, if_false]
        -- decompose the queue
        have hsplit := split_at_idx t.sentQ pos chunk hp
        have htake : t.sentQ.take (pos + 1) = t.sentQ.take pos ++ [chunk] := by
          rw [List.take_add_one, hp]; rfl
        have hrev : (t.sentQ.take (pos + 1)).reverse = chunk :: (t.sentQ.take pos).reverse := by
          rw [htake]; simp
        rw [hrev]
        -- backward loop
        obtain ⟨hbpw, hbbal, hble⟩ := abandonBack_spec (t.sentQ.take pos).reverse (t.flight - chunk.w)
        generalize hB : abandonBack (t.flight - chunk.w) (t.sentQ.take pos).reverse = B at hbpw hbbal hble
        have hback : abandonBack t.flight (chunk :: (t.sentQ.take pos).reverse)
            = ((if flagB chunk.flags then (t.flight - chunk.w, (t.sentQ.take pos).reverse) else B).1,
               abMark chunk :: (if flagB chunk.flags then (t.flight - chunk.w, (t.sentQ.take pos).reverse) else B).2) := by
          rw [abandonBack_cons, hB]; split <;> rfl
        rw [hback]
        generalize hB' : (if flagB chunk.flags then (t.flight - chunk.w, (t.sentQ.take pos).reverse) else B) = B'
        have hB'pw : PW AbRel (t.sentQ.take pos).reverse B'.2 := by
          rw [← hB']; split
          · exact PW.refl AbRel.refl _
          · exact hbpw
        have hB'le : B'.1 ≤ t.flight := by
          rw [← hB']; split
          · exact Nat.sub_le _ _
          · omega
        have hB'bal : Bal (t.flight - chunk.w) (t.sentQ.take pos).reverse B'.1 B'.2 := by
          rw [← hB']; split
          · exact Bal.refl _ _
          · exact hbbal
        simp only [List.reverse_cons, List.getLast?_append, List.getLast?_singleton, Option.some_or,
          Option.getD_some, List.dropLast_concat]
        -- forward loop
        obtain ⟨hfpw, hfbal, hfle⟩ := abandonFwd_spec (t.sentQ.drop (pos + 1)) (B'.1 - (abMark chunk).w)
        generalize hF : abandonFwd (B'.1 - (abMark chunk).w) (t.sentQ.drop (pos + 1)) = F at hfpw hfbal hfle
        have hfwd : abandonFwd B'.1 (abMark chunk :: t.sentQ.drop (pos + 1))
            = ((if flagE chunk.flags then (B'.1 - (abMark chunk).w, t.sentQ.drop (pos + 1), true) else F).1,
               abMark chunk :: (if flagE chunk.flags then (B'.1 - (abMark chunk).w, t.sentQ.drop (pos + 1), true) else F).2.1,
               (if flagE chunk.flags then (B'.1 - (abMark chunk).w, t.sentQ.drop (pos + 1), true) else F).2.2) := by
          rw [abandonFwd_cons, hF]
          have : (abMark chunk).flags = chunk.flags := rfl
          rw [this, abMark_idem]; split <;> rfl
        rw [hfwd]
        generalize hF' : (if flagE chunk.flags then (B'.1 - (abMark chunk).w, t.sentQ.drop (pos + 1), true) else F) = F'
        have hF'pw : PW AbRel (t.sentQ.drop (pos + 1)) F'.2.1 := by
          rw [← hF']; split
          · exact PW.refl AbRel.refl _
          · exact hfpw
        have hF'le : F'.1 ≤ t.flight := by
          rw [← hF']; split
          · show B'.1 - (abMark chunk).w ≤ t.flight; omega
          · omega
        have hF'bal : Bal (B'.1 - (abMark chunk).w) (t.sentQ.drop (pos + 1)) F'.1 F'.2.1 := by
          rw [← hF']; split
          · exact Bal.refl _ _
          · exact hfbal
        -- the new front of the queue
        have hfront : PW AbRel t.sentQ (B'.2.reverse ++ abMark chunk :: F'.2.1) := by
          have h1 : PW AbRel (t.sentQ.take pos) B'.2.reverse := by
            have := PW.reverse hB'pw; simpa using this
          have := PW.append h1 (show PW AbRel (chunk :: t.sentQ.drop (pos + 1)) (abMark chunk :: F'.2.1) from
            ⟨Or.inr rfl, hF'pw⟩)
          rw [← hsplit] at this; exact this
        have hlt : pos < t.sentQ.length := by
          rcases Nat.lt_or_ge pos t.sentQ.length with h | h
          · exact h
          · have := List.getElem?_eq_none h; rw [hp] at this; cases this
        have hlen : B'.2.reverse.length = pos := by
          have h1 := (PW.length hB'pw)
          simp only [List.length_reverse, List.length_take] at h1 ⊢; omega
        have hlen' : B'.2.length = pos := by simpa using hlen
        have hbal : Bal t.flight t.sentQ F'.1 (B'.2.reverse ++ abMark chunk :: F'.2.1) := by
          intro hl
          rw [hsplit] at hl
          simp only [flightSum_append, flightSum_cons, flightSum_reverse, abMark_w] at hl ⊢
          have a := hB'bal (by simp only [flightSum_reverse]; omega)
          simp only [flightSum_reverse] at a
          have b := hF'bal (by rw [abMark_w]; omega)
          rw [abMark_w] at b
          conv => lhs; rw [hsplit]
          simp only [flightSum_append, flightSum_cons]
          omega
        have hpos : (B'.2.reverse ++ abMark chunk :: F'.2.1)[pos]? = some (abMark chunk) := by
          rw [List.getElem?_append_right (by omega)]; simp [hlen]
        cases hsaw : F'.2.2 with
        | true =>
          simp only [if_true]
          exact ⟨rfl, by simp, fun _ => ⟨abMark chunk, by simpa using hpos, rfl⟩,
            ⟨_, [], by simp, hfront, by simp, hbal⟩, fun c hc => hc, hF'le⟩
        | false =>
          simp only [Bool.false_eq_true, if_false]
          obtain ⟨hu1, hu2⟩ := abandonUnsent_spec t.outQ
          refine ⟨rfl, by simp, fun _ => ⟨abMark chunk, ?_, rfl⟩,
            ⟨B'.2.reverse ++ abMark chunk :: F'.2.1, (abandonUnsent t.outQ).1, by simp, hfront, hu1, hbal⟩, hu2, hF'le⟩
          simp only [List.append_assoc]
          rw [← List.append_assoc, List.getElem?_append_left (by simp only [List.length_append, List.length_reverse, List.length_cons]; omega)]
          simpa using hpos
      · simp only [hsh, Bool.not_false, if_true]
        exact ⟨rfl, fun _ => ⟨rfl, by intro c hc; rw [hp] at hc; cases hc; simpa using hab⟩, by simp,
          ⟨t.sentQ, [], by simp, PW.refl AbRel.refl _, by simp, Bal.refl _ _⟩, fun c hc => hc, Nat.le_refl _⟩

end Aiortc.Sctp
