import Aiortc.Model.Sctp.Outbound
/-!
# Flight-size accounting of the SCTP sender (C02, theorem group (a))

`flightSum l` is the number of bytes the chunks of a queue are *counted* in flight (ghost flag
`inFlight` = the `_in_flight` attribute the fix introduced).  The invariant `FlightInv` says that
`_flight_size` is exactly that sum over `_sent_queue`; this file proves it for the straight-line
operations (`enqueue`, `transmit`, the cumulative-ack loop and the HTNA loop); the operations that
go through `_maybe_abandon` are in `SctpAbandon.lean`.
-/
namespace Aiortc.Sctp
open Aiortc.Gen

/-- bytes a chunk is currently counted for -/
def SChunk.w (c : SChunk) : Nat := if c.inFlight then c.bookSize else 0

/-- Σ bookSize over the chunks of a queue with `inFlight = true`. -/
def flightSum : List SChunk → Nat
  | [] => 0
  | c :: cs => c.w + flightSum cs

@[simp] theorem flightSum_nil : flightSum [] = 0 := rfl
@[simp] theorem flightSum_cons (c : SChunk) (cs : List SChunk) : flightSum (c :: cs) = c.w + flightSum cs := rfl

@[simp] theorem flightSum_append (a b : List SChunk) : flightSum (a ++ b) = flightSum a + flightSum b := by
  induction a with
  | nil => simp
  | cons c cs ih => simp [ih]; omega

@[simp] theorem flightSum_reverse (a : List SChunk) : flightSum a.reverse = flightSum a := by
  induction a with
  | nil => simp
  | cons c cs ih => simp [ih]; omega

theorem flightSum_mem_le {l : List SChunk} {c : SChunk} (h : c ∈ l) : c.w ≤ flightSum l := by
  induction l with
  | nil => cases h
  | cons d ds ih =>
    cases h with
    | head => simp
    | tail _ h' => have := ih h'; simp; omega

theorem flightSum_eq_zero {l : List SChunk} (h : ∀ c ∈ l, c.inFlight = false) : flightSum l = 0 := by
  induction l with
  | nil => rfl
  | cons d ds ih =>
    have hd := h d (by simp)
    have := ih (fun c hc => h c (by simp [hc]))
    simp [SChunk.w, hd, this]

/-- splitting a queue at an index -/
theorem split_at_idx {α} (l : List α) (i : Nat) (c : α) (h : l[i]? = some c) :
    l = l.take i ++ c :: l.drop (i + 1) := by
  induction l generalizing i with
  | nil => simp at h
  | cons d ds ih =>
    cases i with
    | zero => simp at h; simp [h]
    | succ j => simp at h; simp; exact ih j h

theorem modify_split {α} (l : List α) (i : Nat) (c : α) (f : α → α) (h : l[i]? = some c) :
    l.modify i f = l.take i ++ f c :: l.drop (i + 1) := by
  induction l generalizing i with
  | nil => simp at h
  | cons d ds ih =>
    cases i with
    | zero => simp at h; simp [h]
    | succ j => simp at h; simp; exact ih j h

theorem modify_none {α} (l : List α) (i : Nat) (f : α → α) (h : l[i]? = none) : l.modify i f = l := by
  induction l generalizing i with
  | nil => simp
  | cons d ds ih =>
    cases i with
    | zero => simp at h
    | succ j => simp at h; simp; exact ih j (by simpa using h)

/-- replacing the chunk at `i` changes the sum by the difference of the weights -/
theorem flightSum_modify (l : List SChunk) (i : Nat) (c : SChunk) (f : SChunk → SChunk) (h : l[i]? = some c) :
    flightSum (l.modify i f) + c.w = flightSum l + (f c).w := by
  rw [modify_split l i c f h]
  conv => rhs; rw [split_at_idx l i c h]
  simp; omega

theorem flightSum_modify_same (l : List SChunk) (i : Nat) (f : SChunk → SChunk) (hf : ∀ c, (f c).w = c.w) :
    flightSum (l.modify i f) = flightSum l := by
  cases h : l[i]? with
  | none => rw [modify_none l i f h]
  | some c => have := flightSum_modify l i c f h; rw [hf c] at this; omega

/-! ## chunk predicates -/

/-- a chunk that was never transmitted (what `_send` creates) -/
def Idle (c : SChunk) : Prop := c.inFlight = false ∧ c.retransmit = false ∧ c.abandoned = false

/-- an abandoned chunk is neither counted in flight nor marked for retransmission -/
def AbOk (c : SChunk) : Prop := c.abandoned = true → c.inFlight = false ∧ c.retransmit = false

theorem Idle.abOk {c : SChunk} (h : Idle c) : AbOk c := by
  intro ha; have := h.2.2; simp_all

/-- **The flight accounting invariant.** -/
structure FlightInv (t : Tx) : Prop where
  flight : t.flight = flightSum t.sentQ
  outQ : ∀ c ∈ t.outQ, Idle c
  sentQ : ∀ c ∈ t.sentQ, AbOk c

/-- "balance": the change of the counter equals the change of the sum (no truncation happened). -/
def Bal (fl : Nat) (l : List SChunk) (fl' : Nat) (l' : List SChunk) : Prop :=
  flightSum l ≤ fl → fl' + flightSum l = fl + flightSum l'

theorem Bal.refl (fl : Nat) (l : List SChunk) : Bal fl l fl l := fun _ => rfl
theorem Bal.le {fl l fl' l'} (h : Bal fl l fl' l') (hl : flightSum l ≤ fl) : flightSum l' ≤ fl' := by
  have := h hl; omega
theorem Bal.trans {fl l fl' l' fl'' l''} (h1 : Bal fl l fl' l') (h2 : Bal fl' l' fl'' l'') : Bal fl l fl'' l'' := by
  intro hl; have a := h1 hl; have b := h2 (h1.le hl); omega
theorem Bal.eq {fl l fl' l'} (h : Bal fl l fl' l') (he : fl = flightSum l) : fl' = flightSum l' := by
  have := h (by omega); omega

/-! ## `decFlight` / `incFlight` -/

theorem decFlight_w (fl : Nat) (c : SChunk) : (decFlight fl c).2.w = 0 := by
  unfold decFlight SChunk.w; split <;> simp_all

theorem decFlight_fl (fl : Nat) (c : SChunk) : (decFlight fl c).1 = fl - c.w := by
  unfold decFlight SChunk.w; split <;> simp_all

/-- **The saturating subtraction never truncates**: a chunk of a queue whose sum is at most the counter. -/
theorem decFlight_exact (fl : Nat) (l : List SChunk) (c : SChunk) (hc : c ∈ l) (hl : flightSum l ≤ fl) :
    (decFlight fl c).1 + c.w = fl := by
  have := flightSum_mem_le hc
  rw [decFlight_fl]; omega

theorem decFlight_fields (fl : Nat) (c : SChunk) :
    (decFlight fl c).2 = { c with inFlight := false } := by
  unfold decFlight; split
  · rfl
  · rename_i h; cases c; simp_all

theorem incFlight_fl (fl : Nat) (c : SChunk) : (incFlight fl c).1 + c.w = fl + (incFlight fl c).2.w := by
  unfold incFlight SChunk.w; split <;> simp_all

theorem incFlight_fields (fl : Nat) (c : SChunk) : (incFlight fl c).2 = { c with inFlight := true } := by
  unfold incFlight; split
  · rfl
  · rename_i h; cases c; simp_all

/-! ## `_send` -/

theorem fragments_idle (tsn : Int) (sid : Nat) (ssn : Int) (ppid : Nat) (ordered : Bool) (e m : Option Int)
    (n : Nat) (data : Bytes) (k : Nat) : ∀ c ∈ fragments tsn sid ssn ppid ordered e m n data k, Idle c := by
  induction k with
  | zero => intro c hc; simp [fragments] at hc
  | succ k ih =>
    intro c hc
    simp only [fragments, List.mem_cons] at hc
    rcases hc with rfl | hc
    · exact ⟨rfl, rfl, rfl⟩
    · exact ih c hc

theorem FlightInv.enqueue {t : Tx} (h : FlightInv t) (sid ppid : Nat) (data : Bytes) (e m : Option Int) (o : Bool) :
    FlightInv (t.enqueue sid ppid data e m o) := by
  refine ⟨h.flight, ?_, h.sentQ⟩
  intro c hc
  simp only [Tx.enqueue, List.mem_append] at hc
  rcases hc with hc | hc
  · exact h.outQ c hc
  · exact fragments_idle _ _ _ _ _ _ _ _ _ _ c hc

/-! ## `_transmit` -/

/-- the chunk as `_transmit` leaves it after a retransmission -/
def rtxChunk (c : SChunk) : SChunk :=
  { c with inFlight := true, misses := 0, retransmit := false, sentCount := c.sentCount + 1 }

/-- loop state after retransmitting `c` -/
def rtxSend (st : RtxSt) (c : SChunk) : RtxSt :=
  { st with flight := if c.inFlight then st.flight else st.flight + c.bookSize, frt := false,
            t3 := st.earliest || st.t3, earliest := false, done := rtxChunk c :: st.done,
            evs := if st.earliest then (t3Restart st.t3).reverse ++ TxEv.data (rtxChunk c).toR :: st.evs
                   else TxEv.data (rtxChunk c).toR :: st.evs }

theorem rtxLoop_cons (cwnd : Nat) (st : RtxSt) (c : SChunk) (cs : List SChunk) :
    rtxLoop cwnd st (c :: cs) =
      if c.retransmit then
        if !st.frt && decide (st.flight ≥ cwnd) then ({ st with ret := true }, c :: cs)
        else rtxLoop cwnd (rtxSend st c) cs
      else rtxLoop cwnd { st with earliest := false, done := c :: st.done } cs := by
  conv => lhs; unfold rtxLoop
  cases hr : c.retransmit <;> simp only [Bool.false_eq_true, if_false, if_true]
  split
  · rfl
  · congr 1
    cases hi : c.inFlight <;> cases he : st.earliest <;> simp [rtxSend, rtxChunk, incFlight, hi, he]

theorem rtxChunk_w (c : SChunk) : (rtxChunk c).w = c.bookSize := by simp [rtxChunk, SChunk.w]

theorem rtxSend_flight (st : RtxSt) (c : SChunk) : (rtxSend st c).flight + c.w = st.flight + c.bookSize := by
  unfold rtxSend SChunk.w; cases c.inFlight <;> simp

theorem rtxSend_done (st : RtxSt) (c : SChunk) : (rtxSend st c).done = rtxChunk c :: st.done := rfl

theorem rtxLoop_spec (cwnd : Nat) (l : List SChunk) : ∀ (st : RtxSt),
    (∀ c ∈ st.done, AbOk c) → (∀ c ∈ l, AbOk c) →
    (rtxLoop cwnd st l).1.flight + flightSum st.done + flightSum l
      = st.flight + flightSum (rtxLoop cwnd st l).1.done + flightSum (rtxLoop cwnd st l).2
    ∧ (∀ c ∈ (rtxLoop cwnd st l).1.done, AbOk c) ∧ (∀ c ∈ (rtxLoop cwnd st l).2, AbOk c) := by
  induction l with
  | nil => intro st h1 h2; exact ⟨by simp [rtxLoop], by simpa [rtxLoop] using h1, by simp [rtxLoop]⟩
  | cons c cs ih =>
    intro st h1 h2
    have hc := h2 c (by simp)
    have hcs : ∀ d ∈ cs, AbOk d := fun d hd => h2 d (by simp [hd])
    rw [rtxLoop_cons]
    by_cases hr : c.retransmit = true
    · simp only [hr, if_true]
      split
      · exact ⟨rfl, h1, h2⟩
      · have hab : c.abandoned = false := by
          cases ha : c.abandoned with
          | false => rfl
          | true => have := (hc ha).2; simp_all
        have hab2 : AbOk (rtxChunk c) := by intro ha; simp [rtxChunk, hab] at ha
        have := ih (rtxSend st c)
          (by intro d hd; simp only [rtxSend, List.mem_cons] at hd; rcases hd with rfl | hd; exact hab2; exact h1 d hd) hcs
        refine ⟨?_, this.2.1, this.2.2⟩
        have e := this.1
        have hw := rtxChunk_w c
        have hfl := rtxSend_flight st c
        rw [rtxSend_done, flightSum_cons, hw] at e
        simp only [flightSum_cons]
        omega
    · simp only [hr, Bool.false_eq_true, if_false]
      have := ih { st with earliest := false, done := c :: st.done }
        (by intro d hd; simp only [List.mem_cons] at hd; rcases hd with rfl | hd; exact hc; exact h1 d hd) hcs
      refine ⟨?_, this.2.1, this.2.2⟩
      have e := this.1
      simp only [flightSum_cons] at e ⊢
      omega

/-- the chunk as `_transmit` leaves it after its first transmission -/
def newChunk (c : SChunk) : SChunk := { c with inFlight := true, sentCount := c.sentCount + 1 }

theorem newLoop_cons (cwnd fuel fl : Nat) (t3 : Bool) (c : SChunk) (outQ sent : List SChunk) (evs : List TxEv) :
    newLoop cwnd (fuel + 1) fl t3 (c :: outQ) sent evs =
      if fl < cwnd then
        newLoop cwnd fuel (if c.inFlight then fl else fl + c.bookSize) true outQ (sent ++ [newChunk c])
          (evs ++ [TxEv.data (newChunk c).toR] ++ (if t3 then [] else [TxEv.t3start]))
      else (fl, t3, c :: outQ, sent, evs) := by
  conv => lhs; unfold newLoop
  split
  · cases hi : c.inFlight <;> simp [newChunk, incFlight, hi]
  · rfl

theorem newLoop_spec (cwnd : Nat) : ∀ (fuel fl : Nat) (t3 : Bool) (outQ sent : List SChunk) (evs : List TxEv),
    (∀ c ∈ outQ, Idle c) → (∀ c ∈ sent, AbOk c) →
    (newLoop cwnd fuel fl t3 outQ sent evs).1 + flightSum sent
        = fl + flightSum (newLoop cwnd fuel fl t3 outQ sent evs).2.2.2.1
    ∧ (∀ c ∈ (newLoop cwnd fuel fl t3 outQ sent evs).2.2.1, Idle c)
    ∧ (∀ c ∈ (newLoop cwnd fuel fl t3 outQ sent evs).2.2.2.1, AbOk c) := by
  intro fuel
  induction fuel with
  | zero => intro fl t3 outQ sent evs h1 h2; exact ⟨rfl, h1, h2⟩
  | succ fuel ih =>
    intro fl t3 outQ sent evs h1 h2
    cases outQ with
    | nil => exact ⟨by simp [newLoop], by simp [newLoop], by simpa [newLoop] using h2⟩
    | cons c outQ =>
      rw [newLoop_cons]
      split
      · have hc := h1 c (by simp)
        have hab : AbOk (newChunk c) := by intro ha; simp [newChunk, hc.2.2] at ha
        have := ih (if c.inFlight then fl else fl + c.bookSize) true outQ (sent ++ [newChunk c])
          (evs ++ [TxEv.data (newChunk c).toR] ++ (if t3 then [] else [TxEv.t3start]))
          (fun d hd => h1 d (by simp [hd]))
          (by intro d hd; simp only [List.mem_append, List.mem_singleton] at hd
              rcases hd with hd | rfl; exact h2 d hd; exact hab)
        have hi : c.inFlight = false := hc.1
        simp only [hi, Bool.false_eq_true, if_false] at this ⊢
        refine ⟨?_, this.2.1, this.2.2⟩
        have e := this.1
        have hw : (newChunk c).w = c.bookSize := by simp [newChunk, SChunk.w]
        simp only [flightSum_append, flightSum_cons, flightSum_nil, hw] at e
        omega
      · exact ⟨rfl, h1, h2⟩

/-- the FORWARD TSN part of `_transmit` -/
def Tx.fwd (t : Tx) : Tx × List TxEv :=
  match t.forwardTsn with
  | some (cum, streams) =>
    ({ t with forwardTsn := none, t3 := true }, [TxEv.fwd cum streams] ++ (if t.t3 then [] else [TxEv.t3start]))
  | none => (t, [])

/-- the window `_transmit` uses -/
def Tx.burstCwnd (t : Tx) : Nat :=
  min (t.flight + (if t.fastRecoveryExit.isSome then 2 * USERDATA_MAX else 4 * USERDATA_MAX)) t.cwnd

def Tx.rtxInit (t : Tx) : RtxSt :=
  { flight := t.flight, frt := t.fastRecoveryTransmit, t3 := t.t3, earliest := true, done := [], evs := [] }

/-- state after the retransmission loop -/
def Tx.afterRtx (t : Tx) : Tx :=
  let r := rtxLoop t.burstCwnd t.rtxInit t.sentQ
  { t with flight := r.1.flight, fastRecoveryTransmit := r.1.frt, t3 := r.1.t3, sentQ := r.1.done.reverse ++ r.2 }

theorem transmit_eq (t : Tx) :
    t.transmit =
      let t0 := t.fwd.1
      let r := rtxLoop t0.burstCwnd t0.rtxInit t0.sentQ
      let t1 := t0.afterRtx
      if r.1.ret then (t1, t.fwd.2 ++ r.1.evs.reverse)
      else
        let n := newLoop t0.burstCwnd (t1.outQ.length + 1) t1.flight t1.t3 t1.outQ t1.sentQ (t.fwd.2 ++ r.1.evs.reverse)
        ({ t1 with flight := n.1, t3 := n.2.1, outQ := n.2.2.1, sentQ := n.2.2.2.1 }, n.2.2.2.2) := by
  unfold Tx.transmit Tx.fwd
  cases h : t.forwardTsn with
  | none => rfl
  | some p => rfl

theorem fwd_same_queues (t : Tx) : t.fwd.1.flight = t.flight ∧ t.fwd.1.sentQ = t.sentQ ∧ t.fwd.1.outQ = t.outQ := by
  unfold Tx.fwd; split <;> simp

theorem FlightInv.afterRtx {t : Tx} (h : FlightInv t) : FlightInv t.afterRtx := by
  have := rtxLoop_spec t.burstCwnd t.sentQ t.rtxInit (by simp [Tx.rtxInit]) h.sentQ
  refine ⟨?_, h.outQ, ?_⟩
  · have e := this.1
    have hf := h.flight
    simp only [Tx.rtxInit, flightSum_nil] at e
    simp only [Tx.afterRtx, flightSum_append, flightSum_reverse]
    simp only [Tx.rtxInit]
    omega
  · intro c hc
    simp only [Tx.afterRtx, List.mem_append, List.mem_reverse] at hc
    rcases hc with hc | hc
    · exact this.2.1 c hc
    · exact this.2.2 c hc

/-- **`_transmit` preserves the flight accounting.** -/
theorem FlightInv.transmit {t : Tx} (h : FlightInv t) : FlightInv t.transmit.1 := by
  have h0 : FlightInv t.fwd.1 := by
    obtain ⟨a, b, c⟩ := fwd_same_queues t
    exact ⟨by rw [a, b]; exact h.flight, by rw [c]; exact h.outQ, by rw [b]; exact h.sentQ⟩
  have h1 := h0.afterRtx
  rw [transmit_eq]
  simp only
  split
  · exact h1
  · have := newLoop_spec t.fwd.1.burstCwnd (t.fwd.1.afterRtx.outQ.length + 1) t.fwd.1.afterRtx.flight
      t.fwd.1.afterRtx.t3 t.fwd.1.afterRtx.outQ t.fwd.1.afterRtx.sentQ
      (t.fwd.2 ++ (rtxLoop t.fwd.1.burstCwnd t.fwd.1.rtxInit t.fwd.1.sentQ).1.evs.reverse) h1.outQ h1.sentQ
    refine ⟨?_, this.2.1, this.2.2⟩
    have e := this.1
    have hf := h1.flight
    simp only
    omega

/-! ## pointwise relation between two queues of the same length -/

def PW {α} (R : α → α → Prop) : List α → List α → Prop
  | [], [] => True
  | c :: cs, d :: ds => R c d ∧ PW R cs ds
  | _, _ => False

theorem PW.refl {α} {R : α → α → Prop} (hR : ∀ c, R c c) : ∀ l : List α, PW R l l
  | [] => trivial
  | c :: cs => ⟨hR c, PW.refl hR cs⟩

theorem PW.length {α} {R : α → α → Prop} : ∀ {l l' : List α}, PW R l l' → l.length = l'.length
  | [], [], _ => rfl
  | _ :: cs, _ :: ds, h => by simp [PW.length (l := cs) (l' := ds) h.2]
  | [], _ :: _, h => h.elim
  | _ :: _, [], h => h.elim

theorem PW.append {α} {R : α → α → Prop} : ∀ {a a' b b' : List α}, PW R a a' → PW R b b' → PW R (a ++ b) (a' ++ b')
  | [], [], _, _, _, hb => hb
  | _ :: cs, _ :: ds, _, _, ha, hb => ⟨ha.1, PW.append (a := cs) (a' := ds) ha.2 hb⟩
  | [], _ :: _, _, _, ha, _ => ha.elim
  | _ :: _, [], _, _, ha, _ => ha.elim

theorem PW.reverse {α} {R : α → α → Prop} : ∀ {a a' : List α}, PW R a a' → PW R a.reverse a'.reverse
  | [], [], _ => trivial
  | c :: cs, d :: ds, h => by
    simp only [List.reverse_cons]
    exact PW.append (PW.reverse (a := cs) (a' := ds) h.2) ⟨h.1, trivial⟩
  | [], _ :: _, h => h.elim
  | _ :: _, [], h => h.elim

theorem PW.mono {α} {R S : α → α → Prop} (hRS : ∀ c d, R c d → S c d) : ∀ {a a' : List α}, PW R a a' → PW S a a'
  | [], [], _ => trivial
  | _ :: cs, _ :: ds, h => ⟨hRS _ _ h.1, PW.mono hRS (a := cs) (a' := ds) h.2⟩
  | [], _ :: _, h => h.elim
  | _ :: _, [], h => h.elim

theorem PW.trans {α} {R S T : α → α → Prop} (hT : ∀ c d e, R c d → S d e → T c e) :
    ∀ {a b c : List α}, PW R a b → PW S b c → PW T a c
  | [], [], [], _, _ => trivial
  | _ :: xs, _ :: ys, _ :: zs, h1, h2 => ⟨hT _ _ _ h1.1 h2.1, PW.trans hT (a := xs) (b := ys) (c := zs) h1.2 h2.2⟩
  | [], [], _ :: _, _, h2 => h2.elim
  | [], _ :: _, _, h1, _ => h1.elim
  | _ :: _, [], _, h1, _ => h1.elim
  | _ :: _, _ :: _, [], _, h2 => h2.elim

theorem PW.getElem? {α} {R : α → α → Prop} : ∀ {a a' : List α}, PW R a a' → ∀ (i : Nat) (d : α), a'[i]? = some d →
    ∃ c, a[i]? = some c ∧ R c d
  | [], [], _, i, d, hd => by simp at hd
  | c :: cs, e :: ds, h, 0, d, hd => by simp at hd; subst hd; exact ⟨c, by simp, h.1⟩
  | c :: cs, e :: ds, h, i + 1, d, hd => by
    simp at hd; simpa using PW.getElem? (a := cs) (a' := ds) h.2 i d hd
  | [], _ :: _, h, _, _, _ => h.elim
  | _ :: _, [], h, _, _, _ => h.elim

theorem PW.getElem?' {α} {R : α → α → Prop} : ∀ {a a' : List α}, PW R a a' → ∀ (i : Nat) (c : α), a[i]? = some c →
    ∃ d, a'[i]? = some d ∧ R c d
  | [], [], _, i, d, hd => by simp at hd
  | c :: cs, e :: ds, h, 0, d, hd => by simp at hd; subst hd; exact ⟨e, by simp, h.1⟩
  | c :: cs, e :: ds, h, i + 1, d, hd => by
    simp at hd; simpa using PW.getElem?' (a := cs) (a' := ds) h.2 i d hd
  | [], _ :: _, h, _, _, _ => h.elim
  | _ :: _, [], h, _, _, _ => h.elim

theorem PW.forall {α} {R : α → α → Prop} {P : α → Prop} (hP : ∀ c d, R c d → P c → P d) :
    ∀ {a a' : List α}, PW R a a' → (∀ c ∈ a, P c) → ∀ d ∈ a', P d
  | [], [], _, _, d, hd => by cases hd
  | c :: cs, e :: ds, h, ha, d, hd => by
    cases hd with
    | head => exact hP _ _ h.1 (ha c (by simp))
    | tail _ hd' => exact PW.forall hP (a := cs) (a' := ds) h.2 (fun x hx => ha x (by simp [hx])) d hd'
  | [], _ :: _, h, _, _, _ => h.elim
  | _ :: _, [], h, _, _, _ => h.elim

theorem PW.modify {α} {R : α → α → Prop} (hR : ∀ c, R c c) (f : α → α) (hf : ∀ c, R c (f c)) :
    ∀ (l : List α) (i : Nat), PW R l (l.modify i f)
  | [], i => by simp [PW]
  | c :: cs, 0 => by simp; exact ⟨hf c, PW.refl hR cs⟩
  | c :: cs, i + 1 => by simp; exact ⟨hR c, PW.modify hR f hf cs i⟩

/-! ## `_receive_sack_chunk`: cumulative-ack loop and HTNA loop -/

theorem ackLoop_cons (cum : Int) (fl done db : Nat) (c : SChunk) (cs : List SChunk) :
    ackLoop cum fl done db (c :: cs) =
      if uint32_gte cum c.tsn then
        ackLoop cum (fl - c.w) (done + 1) (if !c.acked then db + c.bookSize else db) cs
      else (fl, done, db, c :: cs) := by
  conv => lhs; unfold ackLoop
  split
  · simp only [decFlight_fl]
  · rfl

theorem ackLoop_spec (cum : Int) : ∀ (l : List SChunk) (fl done db : Nat),
    Bal fl l (ackLoop cum fl done db l).1 (ackLoop cum fl done db l).2.2.2
    ∧ (∃ k, (ackLoop cum fl done db l).2.2.2 = l.drop k ∧ (ackLoop cum fl done db l).2.1 = done + k)
    ∧ (∀ c, (ackLoop cum fl done db l).2.2.2.head? = some c → uint32_gte cum c.tsn = false) := by
  intro l
  induction l with
  | nil => intro fl done db; exact ⟨Bal.refl _ _, ⟨0, rfl, rfl⟩, by simp [ackLoop]⟩
  | cons c cs ih =>
    intro fl done db
    rw [ackLoop_cons]
    split
    · have := ih (fl - c.w) (done + 1) (if !c.acked then db + c.bookSize else db)
      refine ⟨?_, ?_, this.2.2⟩
      · intro hl
        simp only [flightSum_cons] at hl ⊢
        have := this.1 (by omega)
        omega
      · obtain ⟨k, hk1, hk2⟩ := this.2.1
        exact ⟨k + 1, by simpa using hk1, by omega⟩
    · rename_i h
      exact ⟨Bal.refl _ _, ⟨0, rfl, rfl⟩, by intro d hd; simp at hd; subst hd; simpa using h⟩

/-- what the HTNA loop may do to a chunk: mark it gap-acked and discount it -/
def HtnaRel (c d : SChunk) : Prop := d = c ∨ d = { c with acked := true, inFlight := false }

theorem HtnaRel.refl (c : SChunk) : HtnaRel c c := Or.inl rfl

theorem htnaLoop_cons (seen : List Int) (hs : Int) (fl db : Nat) (hna : Int) (acc : List SChunk) (c : SChunk)
    (cs : List SChunk) :
    htnaLoop seen hs fl db hna acc (c :: cs) =
      if uint32_gt c.tsn hs then (fl, db, hna, acc.reverse ++ c :: cs)
      else if seen.contains c.tsn && !c.acked then
        htnaLoop seen hs (fl - c.w) (db + c.bookSize) c.tsn ({ c with acked := true, inFlight := false } :: acc) cs
      else htnaLoop seen hs fl db hna (c :: acc) cs := by
  conv => lhs; unfold htnaLoop
  split
  · rfl
  · split
    · have h1 := decFlight_fl fl { c with acked := true }
      have h2 := decFlight_fields fl { c with acked := true }
      have hw : ({ c with acked := true } : SChunk).w = c.w := by simp [SChunk.w]
      rw [hw] at h1
      simp only [h1, h2]
    · rfl

theorem htnaLoop_spec (seen : List Int) (hs : Int) : ∀ (l acc : List SChunk) (fl db : Nat) (hna : Int),
    (flightSum acc + flightSum l ≤ fl →
      (htnaLoop seen hs fl db hna acc l).1 + flightSum acc + flightSum l
        = fl + flightSum (htnaLoop seen hs fl db hna acc l).2.2.2)
    ∧ PW HtnaRel (acc.reverse ++ l) (htnaLoop seen hs fl db hna acc l).2.2.2 := by
  intro l
  induction l with
  | nil =>
    intro acc fl db hna
    exact ⟨by simp [htnaLoop], by simpa [htnaLoop] using PW.refl HtnaRel.refl acc.reverse⟩
  | cons c cs ih =>
    intro acc fl db hna
    rw [htnaLoop_cons]
    split
    · exact ⟨by intro _; simp; omega, PW.refl HtnaRel.refl _⟩
    · split
      · have := ih ({ c with acked := true, inFlight := false } :: acc) (fl - c.w) (db + c.bookSize) c.tsn
        refine ⟨?_, ?_⟩
        · intro hl
          have hw2 : ({ c with acked := true, inFlight := false } : SChunk).w = 0 := by simp [SChunk.w]
          simp only [flightSum_cons, hw2] at this hl ⊢
          have := this.1 (by omega)
          omega
        · have h2 := this.2
          simp only [List.reverse_cons, List.append_assoc, List.singleton_append] at h2
          refine PW.trans (R := HtnaRel) (S := HtnaRel) (T := HtnaRel) ?_ ?_ h2
          · intro x y z hxy hyz
            rcases hxy with rfl | rfl
            · exact hyz
            · rcases hyz with rfl | rfl
              · exact Or.inr rfl
              · exact Or.inr rfl
          · exact PW.append (PW.refl HtnaRel.refl _) ⟨Or.inr rfl, PW.refl HtnaRel.refl _⟩
      · have := ih (c :: acc) fl db hna
        refine ⟨?_, ?_⟩
        · intro hl
          simp only [flightSum_cons] at this hl ⊢
          have := this.1 (by omega)
          omega
        · simpa using this.2

theorem HtnaRel.w_le {c d : SChunk} (h : HtnaRel c d) : d.w ≤ c.w := by
  rcases h with rfl | rfl <;> simp [SChunk.w]

theorem HtnaRel.abOk {c d : SChunk} (h : HtnaRel c d) (hc : AbOk c) : AbOk d := by
  rcases h with rfl | rfl
  · exact hc
  · intro ha; exact ⟨rfl, (hc ha).2⟩

end Aiortc.Sctp
