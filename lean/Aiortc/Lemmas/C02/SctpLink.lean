import Aiortc.Lemmas.C02.SctpSender
import Aiortc.Lemmas.C02.SctpSack
/-!
# A sender and a receiver joined by a lossless FIFO channel (C02 (f))

`Link` abstracts one direction of an association to the model's own `Tx` functions (sender A) and `Rx`
functions (receiver B), with the DATA datagrams A→B and the SACKs B→A in FIFO queues.  `Link.step` is the
canonical fault-free continuation of DESIGN §2 C02: run a pending `_transmit` task; else deliver the oldest DATA
datagram (the receiver answers every datagram with a SACK); else deliver the oldest SACK (`_receive_sack_chunk`,
then `_transmit`); else, the network being empty, fire T3 if it is armed.  No datagram is lost, duplicated or
reordered, the application sends nothing more.  FORWARD TSN chunks are not delivered (the receiver side of
partial reliability is outside this abstraction), so the progress theorem is about chunks that stay outstanding.
-/
namespace Aiortc.Sctp
open Aiortc.Gen

structure Link where
  tx : Tx
  rx : Rx
  toRx : List RChunk := []
  toTx : List (Int × List (Nat × Nat)) := []
  pending : Bool := false
  /-- `1000 · time.time()` in ticks (only read by `_maybe_abandon`) -/
  now1000 : Int := 0

/-- the DATA chunks among the things a `_transmit` did -/
def dataOf : List TxEv → List RChunk
  | [] => []
  | .data c :: evs => c :: dataOf evs
  | _ :: evs => dataOf evs

theorem dataOf_append (a b : List TxEv) : dataOf (a ++ b) = dataOf a ++ dataOf b := by
  induction a with
  | nil => rfl
  | cons e es ih => cases e <;> simp [dataOf, ih]

def Link.runTask (s : Link) : Link :=
  { s with tx := s.tx.transmit.1, toRx := s.toRx ++ dataOf s.tx.transmit.2, pending := false }

/-- the receiver handles one DATA datagram and answers with a SACK (`_receive_data_chunk`, `_send_sack`); the TSN
travels in a 32-bit field -/
def Link.deliverData (s : Link) (d : RChunk) (rest : List RChunk) : Link :=
  let rx' := (markReceived s.rx (d.tsn % 4294967296)).2
  { s with rx := { rx' with dups := [] }, toRx := rest, toTx := s.toTx ++ [(rx'.last, sackGapBlocks rx')] }

/-- the sender handles one SACK (`_receive_sack_chunk`, then `_transmit`) -/
def Link.deliverSack (s : Link) (cum : Int) (gaps : List (Nat × Nat)) (rest : List (Int × List (Nat × Nat))) : Link :=
  match s.tx.receiveSack cum gaps s.now1000 with
  | .ok (some (t', _)) => { s with tx := t'.transmit.1, toRx := s.toRx ++ dataOf t'.transmit.2, toTx := rest }
  | _ => { s with toTx := rest }

def Link.fireT3 (s : Link) : Link := { s with tx := s.tx.t3Expired s.now1000, pending := true }

/-- one step of the canonical fault-free continuation -/
def Link.step (s : Link) : Link :=
  if s.pending then s.runTask
  else match s.toRx with
    | d :: rest => s.deliverData d rest
    | [] => match s.toTx with
      | (cum, gaps) :: rest => s.deliverSack cum gaps rest
      | [] => if s.tx.t3 then s.fireT3 else s

def Link.run : Nat → Link → Link
  | 0, s => s
  | n + 1, s => Link.run n s.step

theorem Link.run_add (m n : Nat) (s : Link) : Link.run (m + n) s = Link.run n (Link.run m s) := by
  induction m generalizing s with
  | zero => simp [Link.run]
  | succ m ih => rw [Nat.succ_add]; exact ih s.step

/-- nothing outstanding, nothing queued, nothing on the wire -/
structure Link.Drained (s : Link) : Prop where
  sentQ : s.tx.sentQ = []
  outQ : s.tx.outQ = []
  flight : s.tx.flight = 0
  fwd : s.tx.forwardTsn = none
  toRx : s.toRx = []
  toTx : s.toTx = []
  pending : s.pending = false
  t3 : s.tx.t3 = false

/-- **No deadlock**: the canonical continuation only comes to rest in a drained state. -/
theorem Link.stuck_drained (s : Link) (hi : SndInv { tx := s.tx, pending := s.pending }) (h : s.step = s) :
    s.Drained := by
  unfold Link.step at h
  cases hp : s.pending with
  | true =>
    rw [hp] at h; simp only [if_true] at h
    have := congrArg Link.pending h
    simp [Link.runTask, hp] at this
  | false =>
    rw [hp] at h; simp only [Bool.false_eq_true, if_false] at h
    cases hr : s.toRx with
    | cons d rest =>
      rw [hr] at h
      have := congrArg (fun x => x.toRx.length) h
      simp [Link.deliverData, hr] at this
    | nil =>
      rw [hr] at h
      cases ht : s.toTx with
      | cons p rest =>
        rw [ht] at h
        obtain ⟨cum, gaps⟩ := p
        have := congrArg (fun x => x.toTx.length) h
        simp only [Link.deliverSack] at this
        split at this <;> simp [ht] at this
      | nil =>
        rw [ht] at h
        cases h3 : s.tx.t3 with
        | true =>
          rw [h3] at h; simp only [if_true] at h
          have := congrArg Link.pending h
          simp [Link.fireT3, hp] at this
        | false =>
          have hs : s.tx.sentQ = [] := by
            cases hq : s.tx.sentQ with
            | nil => rfl
            | cons c cs =>
              rcases hi.armed (by simp [hq]) with h' | h'
              · simp [h3] at h'
              · simp [hp] at h'
          have ho : s.tx.outQ = [] := by
            cases hq : s.tx.outQ with
            | nil => rfl
            | cons c cs =>
              rcases hi.queued (by simp [hq]) with h' | h'
              · exact absurd hs h'
              · simp [hp] at h'
          have hf : s.tx.forwardTsn = none := by
            cases hq : s.tx.forwardTsn with
            | none => rfl
            | some p => have := hi.fwd (by simp [hq]); simp [hp] at this
          exact ⟨hs, ho, by rw [hi.flight.flight, hs]; rfl, hf, hr, ht, hp, h3⟩

/-! ## the receiver: the chunk after the cumulative TSN always advances it -/

theorem consolidate_adv : ∀ (l : List Int) (a : Int), R32 a → ∃ j, j ≤ l.length ∧ consolidate a l = (a + (j : Int)) % 4294967296 := by
  intro l
  induction l with
  | nil => intro a ha; exact ⟨0, Nat.le_refl _, by unfold R32 at ha; simp [consolidate]; omega⟩
  | cons t ts ih =>
    intro a ha
    unfold consolidate
    split
    · rename_i ht
      have ht32 : R32 t := by rw [ht]; unfold tsn_plus_one R32; omega
      obtain ⟨j, hj, he⟩ := ih t ht32
      refine ⟨j + 1, by simp; omega, ?_⟩
      rw [he, ht]; unfold tsn_plus_one; push_cast; omega
    · exact ⟨0, Nat.zero_le _, by unfold R32 at ha; simp; omega⟩

/-- what the progress argument needs to know about the receiver -/
structure RxOk (rx : Rx) : Prop where
  last : R32 rx.last
  mis : ∀ x ∈ rx.mis, R32 x ∧ x ≠ rx.last
  nodup : rx.mis.Nodup
  /-- the misordered set was consolidated: the next TSN is not in it -/
  next : rx.mis.contains (tsn_plus_one rx.last) = false

theorem markReceived_next (rx : Rx) (h : RxOk rx) :
    ∃ j, j ≤ rx.mis.length ∧
      (markReceived rx (tsn_plus_one rx.last)).2.last = (tsn_plus_one rx.last + (j : Int)) % 4294967296 := by
  have hl := h.last
  have hgte : uint32_gte rx.last (tsn_plus_one rx.last) = false := by
    unfold uint32_gte uint32_gt tsn_plus_one; unfold R32 at hl
    rw [Bool.eq_false_iff]; simp only [ne_eq, Bool.or_eq_true, Bool.and_eq_true, decide_eq_true_eq]; omega
  unfold markReceived
  simp only [hgte, h.next, Bool.or_self, Bool.false_eq_true, if_false]
  -- the sorted list starts with the new TSN
  have hn32 : R32 (tsn_plus_one rx.last) := by unfold tsn_plus_one R32; omega
  have hnotin : tsn_plus_one rx.last ∉ rx.mis := by
    have := h.next; simpa using this
  have hdist : (rx.mis ++ [tsn_plus_one rx.last]).Pairwise (fun x y => serialKey rx.last x ≠ serialKey rx.last y) := by
    have hnd : (rx.mis ++ [tsn_plus_one rx.last]).Nodup := by
      rw [List.nodup_append]
      refine ⟨h.nodup, by simp, ?_⟩
      intro a ha b hb
      simp only [List.mem_singleton] at hb
      subst hb
      intro hab; subst hab; exact hnotin ha
    refine List.Pairwise.imp_of_mem ?_ hnd
    intro x y hx hy hne hk
    apply hne
    have hx32 : R32 x := by
      simp only [List.mem_append, List.mem_singleton] at hx
      rcases hx with hx | rfl
      · exact (h.mis x hx).1
      · exact hn32
    have hy32 : R32 y := by
      simp only [List.mem_append, List.mem_singleton] at hy
      rcases hy with hy | rfl
      · exact (h.mis y hy).1
      · exact hn32
    unfold serialKey at hk; unfold R32 at hx32 hy32; omega
  have hsorted := sortByKey_sorted rx.last _ hdist
  have hmem : ∀ x, x ∈ sortByKey rx.last (rx.mis ++ [tsn_plus_one rx.last]) ↔ x ∈ rx.mis ++ [tsn_plus_one rx.last] :=
    fun x => mem_sortByKey rx.last x _
  have hlen : (sortByKey rx.last (rx.mis ++ [tsn_plus_one rx.last])).length = rx.mis.length + 1 := by
    have : ∀ (b : Int) (l : List Int), (sortByKey b l).length = l.length := by
      intro b l
      induction l with
      | nil => rfl
      | cons y ys ih =>
        have e : sortByKey b (y :: ys) = insertByKey b y (sortByKey b ys) := rfl
        have hins : ∀ (t : Int) (m : List Int), (insertByKey b t m).length = m.length + 1 := by
          intro t m
          induction m with
          | nil => rfl
          | cons z zs ihz => unfold insertByKey; split <;> simp [ihz]
        rw [e, hins, ih]; rfl
    rw [this]; simp
  generalize hS : sortByKey rx.last (rx.mis ++ [tsn_plus_one rx.last]) = S at hsorted hmem hlen
  cases S with
  | nil => simp at hlen
  | cons hd rest =>
    have hhd : hd = tsn_plus_one rx.last := by
      have hin : tsn_plus_one rx.last ∈ hd :: rest := (hmem _).mpr (by simp)
      simp only [List.mem_cons] at hin
      rcases hin with hin | hin
      · exact hin.symm
      · exfalso
        have hlt := (List.pairwise_cons.mp hsorted).1 _ hin
        have hhdm : hd ∈ rx.mis ++ [tsn_plus_one rx.last] := (hmem hd).mp (by simp)
        simp only [List.mem_append, List.mem_singleton] at hhdm
        rcases hhdm with hm | hm
        · have := h.mis hd hm
          unfold serialKey tsn_plus_one at hlt; unfold R32 at this hl
          omega
        · rw [hm] at hlt; omega
    subst hhd
    have : consolidate rx.last (tsn_plus_one rx.last :: rest) = consolidate (tsn_plus_one rx.last) rest := by
      simp [consolidate]
    simp only [this]
    obtain ⟨j, hj, he⟩ := consolidate_adv rest (tsn_plus_one rx.last) hn32
    exact ⟨j, by simp at hlen; omega, he⟩

theorem markReceived_dup (rx : Rx) (tsn : Int) (h : uint32_gte rx.last tsn = true) :
    (markReceived rx tsn).2.last = rx.last := by
  unfold markReceived; simp [h]

theorem consolidate_mem : ∀ (S : List Int) (a : Int), consolidate a S = a ∨ consolidate a S ∈ S := by
  intro S
  induction S with
  | nil => intro a; left; rfl
  | cons u us ih =>
    intro a
    unfold consolidate
    split
    · rcases ih u with h | h
      · right; rw [h]; simp
      · right; simp [h]
    · left; rfl


/-- the chunk after the cumulative TSN moves the cumulative TSN to itself or to a TSN that was misordered -/
theorem markReceived_next_mem (rx : Rx) (h : RxOk rx) :
    (markReceived rx (tsn_plus_one rx.last)).2.last ∈ tsn_plus_one rx.last :: rx.mis := by
  have hl := h.last
  have hgte : uint32_gte rx.last (tsn_plus_one rx.last) = false := by
    unfold uint32_gte uint32_gt tsn_plus_one; unfold R32 at hl
    rw [Bool.eq_false_iff]; simp only [ne_eq, Bool.or_eq_true, Bool.and_eq_true, decide_eq_true_eq]; omega
  unfold markReceived
  simp only [hgte, h.next, Bool.or_self, Bool.false_eq_true, if_false]
  -- the sorted list starts with the new TSN
  have hn32 : R32 (tsn_plus_one rx.last) := by unfold tsn_plus_one R32; omega
  have hnotin : tsn_plus_one rx.last ∉ rx.mis := by
    have := h.next; simpa using this
  have hdist : (rx.mis ++ [tsn_plus_one rx.last]).Pairwise (fun x y => serialKey rx.last x ≠ serialKey rx.last y) := by
    have hnd : (rx.mis ++ [tsn_plus_one rx.last]).Nodup := by
      rw [List.nodup_append]
      refine ⟨h.nodup, by simp, ?_⟩
      intro a ha b hb
      simp only [List.mem_singleton] at hb
      subst hb
      intro hab; subst hab; exact hnotin ha
    refine List.Pairwise.imp_of_mem ?_ hnd
    intro x y hx hy hne hk
    apply hne
    have hx32 : R32 x := by
      simp only [List.mem_append, List.mem_singleton] at hx
      rcases hx with hx | rfl
      · exact (h.mis x hx).1
      · exact hn32
    have hy32 : R32 y := by
      simp only [List.mem_append, List.mem_singleton] at hy
      rcases hy with hy | rfl
      · exact (h.mis y hy).1
      · exact hn32
    unfold serialKey at hk; unfold R32 at hx32 hy32; omega
  have hsorted := sortByKey_sorted rx.last _ hdist
  have hmem : ∀ x, x ∈ sortByKey rx.last (rx.mis ++ [tsn_plus_one rx.last]) ↔ x ∈ rx.mis ++ [tsn_plus_one rx.last] :=
    fun x => mem_sortByKey rx.last x _
  generalize hS : sortByKey rx.last (rx.mis ++ [tsn_plus_one rx.last]) = S at hsorted hmem
  cases S with
  | nil =>
    have := (hmem (tsn_plus_one rx.last)).mpr (by simp)
    cases this
  | cons hd rest =>
    have hhd : hd = tsn_plus_one rx.last := by
      have hin : tsn_plus_one rx.last ∈ hd :: rest := (hmem _).mpr (by simp)
      simp only [List.mem_cons] at hin
      rcases hin with hin | hin
      · exact hin.symm
      · exfalso
        have hlt := (List.pairwise_cons.mp hsorted).1 _ hin
        have hhdm : hd ∈ rx.mis ++ [tsn_plus_one rx.last] := (hmem hd).mp (by simp)
        simp only [List.mem_append, List.mem_singleton] at hhdm
        rcases hhdm with hm | hm
        · have := h.mis hd hm
          unfold serialKey tsn_plus_one at hlt; unfold R32 at this hl
          omega
        · rw [hm] at hlt; omega
    subst hhd
    have : consolidate rx.last (tsn_plus_one rx.last :: rest) = consolidate (tsn_plus_one rx.last) rest := by
      simp [consolidate]
    simp only [this]
    rcases consolidate_mem rest (tsn_plus_one rx.last) with e | e
    · rw [e]; simp
    · have := (hmem _).mp (List.mem_cons_of_mem _ e)
      simp only [List.mem_append, List.mem_singleton] at this
      simp only [List.mem_cons]
      rcases this with h' | h'
      · exact Or.inr h'
      · exact Or.inl h'


/-! ## the sender: a SACK that is not stale is processed -/

theorem receiveSack_some (t : Tx) (cum : Int) (gaps : List (Nat × Nat)) (now : Int) (ho : ∀ c ∈ t.outQ, Idle c)
    (h : t.sackStale cum = false) : ∃ t' evs, t.receiveSack cum gaps now = .ok (some (t', evs)) := by
  obtain ⟨r, hr⟩ := receiveSack_ok t cum gaps now ho
  cases r with
  | some p => exact ⟨p.1, p.2, hr⟩
  | none =>
    exfalso
    rw [receiveSack_eq] at hr
    simp only [h, Bool.false_eq_true, if_false] at hr
    split at hr <;> cases hr

theorem t3Expired_lastSacked (t : Tx) (now : Int) (hw : WInv t) : (t.t3Expired now).lastSacked = t.lastSacked := by
  rw [t3Expired_eq]
  have ha := (updateAdvAck_spec (t.t3Marked now)).frame
  have hm := (t3Marked_spec t now hw).frame
  simp only
  rw [ha]; simp only
  rw [hm]

theorem transmit_lastSacked (t : Tx) : t.transmit.1.lastSacked = t.lastSacked := by
  have : t.transmit.1.ctl.lastSacked = t.ctl.lastSacked := by rw [(transmit_facts t).frame]
  exact this

theorem t3Expired_localTsn (t : Tx) (now : Int) (hw : WInv t) : (t.t3Expired now).localTsn = t.localTsn := by
  rw [t3Expired_eq]
  have ha := (updateAdvAck_spec (t.t3Marked now)).frame
  have hm := (t3Marked_spec t now hw).frame
  simp only
  rw [ha]; simp only
  rw [hm]

theorem transmit_localTsn (t : Tx) : t.transmit.1.localTsn = t.localTsn := by
  have : t.transmit.1.ctl.localTsn = t.ctl.localTsn := by rw [(transmit_facts t).frame]
  exact this

/-! ## delivering a burst -/

theorem Link.step_data (s : Link) (d : RChunk) (rest : List RChunk) (hp : s.pending = false) (hr : s.toRx = d :: rest) :
    s.step = s.deliverData d rest := by
  unfold Link.step; simp [hp, hr]

theorem Link.run_data : ∀ (l : List RChunk) (s : Link), s.pending = false → s.toRx = l →
    (Link.run l.length s).tx = s.tx ∧ (Link.run l.length s).pending = false ∧ (Link.run l.length s).toRx = []
    ∧ (Link.run l.length s).now1000 = s.now1000
    ∧ ∃ more, (Link.run l.length s).toTx = s.toTx ++ more
        ∧ ∀ d ds, l = d :: ds → ∃ g more', more = ((markReceived s.rx (d.tsn % 4294967296)).2.last, g) :: more' := by
  intro l
  induction l with
  | nil => intro s hp hr; exact ⟨rfl, hp, hr, rfl, [], by simp [Link.run], by intro d ds h; cases h⟩
  | cons d rest ih =>
    intro s hp hr
    simp only [List.length_cons, Link.run]
    rw [Link.step_data s d rest hp hr]
    obtain ⟨h1, h2, h3, h4, more, h5, _⟩ := ih (s.deliverData d rest) hp rfl
    refine ⟨h1, h2, h3, h4, ((markReceived s.rx (d.tsn % 4294967296)).2.last,
      sackGapBlocks (markReceived s.rx (d.tsn % 4294967296)).2) :: more, ?_, ?_⟩
    · rw [h5]; simp [Link.deliverData]
    · intro d' ds' he
      cases he
      exact ⟨_, more, rfl⟩

/-! ## one epoch of the fault-free continuation makes progress -/

theorem dataOf_fwd (t : Tx) : dataOf t.fwd.2 = [] := by
  unfold Tx.fwd; split
  · split <;> rfl
  · rfl

theorem dataOf_t3Restart (b : Bool) : dataOf (t3Restart b) = [] := by
  unfold t3Restart; split <;> rfl

/-- what the progress theorem assumes about a state reached by the fault history -/
structure Link.Coherent (s : Link) : Prop where
  /-- the sender invariants (proved for every reachable sender state, `SndInv.run`) -/
  inv : SndInv { tx := s.tx, pending := s.pending }
  rx : RxOk s.rx
  ls : R32 s.tx.lastSacked
  /-- the receiver's cumulative TSN equals the last one the sender saw acknowledged, or is ahead of it (SACKs were
  lost), by less than half the sequence space -/
  ahead : ∃ j : Nat, j + s.rx.mis.length + 1 < 2147483648 ∧ s.rx.last = (s.tx.lastSacked + (j : Int)) % 4294967296
  /-- the receiver has only received TSNs that were assigned (a SACK beyond the last TSN assigned is ignored) -/
  sent : ∀ x ∈ s.rx.last :: s.rx.mis, uint32_gt x (tsn_minus_one s.tx.localTsn) = false

/-- **Progress of one epoch.** In a coherent state with an empty network, no pending task and T3 armed, if the
chunk that follows the cumulative ack is still outstanding after T3 (`hq`, `hct`: it was not abandoned),
then the canonical continuation — T3 fires, the queued `_transmit` runs, the burst is delivered datagram by
datagram, the first SACK comes back — strictly advances the sender's cumulative ack within
`3 + (number of datagrams in the burst)` steps. -/
theorem Link.epoch_progress (s : Link) (hc : s.Coherent) (hrx : s.toRx = []) (htx : s.toTx = [])
    (hp : s.pending = false) (h3 : s.tx.t3 = true) (c : SChunk) (cs : List SChunk)
    (hq : (s.tx.t3Expired s.now1000).sentQ = c :: cs) (hct : c.tsn = tsn_plus_one s.tx.lastSacked)
    (hsent : uint32_gt c.tsn (tsn_minus_one s.tx.localTsn) = false) :
    uint32_gt (Link.run (3 + (dataOf (s.tx.t3Expired s.now1000).transmit.2).length) s).tx.lastSacked
      s.tx.lastSacked = true := by
  have hw : WInv s.tx := hc.inv.flight.winv
  -- step 1: T3 fires; step 2: the queued task runs
  have hs1 : s.step = s.fireT3 := by unfold Link.step; simp [hp, hrx, htx, h3]
  have hs2 : s.fireT3.step = s.fireT3.runTask := by unfold Link.step; simp [Link.fireT3]
  obtain ⟨_, _, _, _, _, _, more, hev⟩ := t3_then_transmit s.tx hw s.now1000 c cs hq
  have hD : dataOf (s.tx.t3Expired s.now1000).transmit.2
      = (rtxChunk c).toR :: dataOf more := by
    rw [hev, dataOf_append, dataOf_append, dataOf_fwd]
    simp only [List.nil_append, dataOf]
    rw [dataOf_t3Restart]; rfl
  generalize hs2' : s.fireT3.runTask = s2 at hs2
  have h2tx : s2.tx = (s.tx.t3Expired s.now1000).transmit.1 := by rw [← hs2']; rfl
  have h2p : s2.pending = false := by rw [← hs2']; rfl
  have h2rx : s2.rx = s.rx := by rw [← hs2']; rfl
  have h2now : s2.now1000 = s.now1000 := by rw [← hs2']; rfl
  have h2toTx : s2.toTx = [] := by rw [← hs2']; exact htx
  have h2toRx : s2.toRx = (rtxChunk c).toR :: dataOf more := by
    rw [← hs2']; simp only [Link.runTask, Link.fireT3, hrx, List.nil_append]; exact hD
  -- steps 3 .. : the burst is delivered
  obtain ⟨r1, r2, r3, r4, sacks, r5, r6⟩ := Link.run_data _ s2 h2p h2toRx
  obtain ⟨g, more', hsacks⟩ := r6 _ _ rfl
  generalize hs3 : Link.run ((rtxChunk c).toR :: dataOf more).length s2 = s3 at r1 r2 r3 r4 r5
  rw [h2toTx, hsacks, List.nil_append] at r5
  rw [h2rx] at r5
  -- the run
  have hrun : Link.run (3 + (dataOf (s.tx.t3Expired s.now1000).transmit.2).length) s = s3.step := by
    rw [hD, show 3 + ((rtxChunk c).toR :: dataOf more).length = 2 + (((rtxChunk c).toR :: dataOf more).length + 1) by omega]
    rw [Link.run_add, Link.run_add]
    simp only [Link.run]
    rw [hs1, hs2, hs3]
  rw [hrun]
  -- the cumulative TSN the first SACK carries
  have hls := hc.ls
  have hctsn : ((rtxChunk c).toR).tsn % 4294967296 = c.tsn := by
    show c.tsn % 4294967296 = c.tsn
    rw [hct]; unfold tsn_plus_one; omega
  rw [hctsn] at r5
  obtain ⟨j, hj, hlast⟩ := hc.ahead
  have hL : ∃ k : Nat, 1 ≤ k ∧ k < 2147483648
      ∧ (markReceived s.rx c.tsn).2.last = (s.tx.lastSacked + (k : Int)) % 4294967296 := by
    rcases Nat.eq_zero_or_pos j with hj0 | hjp
    · subst hj0
      have hl : s.rx.last = s.tx.lastSacked := by unfold R32 at hls; rw [hlast]; simp; omega
      obtain ⟨j', hj', he⟩ := markReceived_next s.rx hc.rx
      rw [hct, ← hl, he]
      refine ⟨j' + 1, by omega, by omega, ?_⟩
      unfold tsn_plus_one; push_cast; omega
    · have hdup : uint32_gte s.rx.last c.tsn = true := by
        rw [hct, hlast]
        unfold uint32_gte uint32_gt tsn_plus_one; unfold R32 at hls
        simp only [Bool.or_eq_true, Bool.and_eq_true, decide_eq_true_eq]
        omega
      rw [markReceived_dup _ _ hdup, hlast]
      exact ⟨j, hjp, by omega, rfl⟩
  have hLs : uint32_gt (markReceived s.rx c.tsn).2.last (tsn_minus_one s.tx.localTsn) = false := by
    rcases Nat.eq_zero_or_pos j with hj0 | hjp
    · subst hj0
      have hl : s.rx.last = s.tx.lastSacked := by unfold R32 at hls; rw [hlast]; simp; omega
      have hm := markReceived_next_mem s.rx hc.rx
      rw [hl, ← hct] at hm
      simp only [List.mem_cons] at hm
      rcases hm with hm | hm
      · rw [hm]; exact hsent
      · exact hc.sent _ (by simp [hm])
    · have hdup : uint32_gte s.rx.last c.tsn = true := by
        rw [hct, hlast]
        unfold uint32_gte uint32_gt tsn_plus_one; unfold R32 at hls
        simp only [Bool.or_eq_true, Bool.and_eq_true, decide_eq_true_eq]
        omega
      rw [markReceived_dup _ _ hdup]; exact hc.sent _ (by simp)
  obtain ⟨k, hk1, hk2, hLk⟩ := hL
  generalize (markReceived s.rx c.tsn).2.last = L at r5 hLk hLs
  -- step m + 3: the SACK is handled
  have h3tx : s3.tx.lastSacked = s.tx.lastSacked := by
    rw [r1, h2tx, transmit_lastSacked, t3Expired_lastSacked _ _ hw]
  have h3loc : s3.tx.localTsn = s.tx.localTsn := by
    rw [r1, h2tx, transmit_localTsn, t3Expired_localTsn _ _ hw]
  have hstale : s3.tx.sackStale L = false := by
    unfold Tx.sackStale
    rw [h3loc, hLs, Bool.or_false, h3tx, hLk]
    unfold uint32_gte uint32_gt; unfold R32 at hls
    simp only [Bool.not_eq_eq_eq_not, Bool.not_false, Bool.or_eq_true, Bool.and_eq_true, decide_eq_true_eq]
    omega
  have hgt : uint32_gt L s.tx.lastSacked = true := by
    rw [hLk]
    unfold uint32_gt; unfold R32 at hls
    simp only [Bool.or_eq_true, Bool.and_eq_true, decide_eq_true_eq]
    omega
  -- sender invariants two operations later
  have hinv3 : SndInv { tx := s3.tx, pending := false } := by
    have := (hc.inv.step (.t3 s.now1000)).step .task
    rw [r1, h2tx]; exact this
  obtain ⟨t', evs, hrs⟩ := receiveSack_some s3.tx L g s3.now1000 hinv3.flight.outQ hstale
  have hfacts := receiveSack_facts s3.tx hinv3.flight L g s3.now1000 t' evs hrs
  have hstep : s3.step = s3.deliverSack L g more' := by unfold Link.step; simp [r2, r3, r5]
  rw [hstep]
  simp only [Link.deliverSack, hrs]
  rw [transmit_lastSacked, hfacts.lastSacked]
  exact hgt

end Aiortc.Sctp
