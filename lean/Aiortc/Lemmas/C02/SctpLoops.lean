import Aiortc.Lemmas.C02.SctpAbandon
/-!
# The loops of the sender that go through `_maybe_abandon` (C02)

* `hitBody`: `_maybe_abandon(chunk)` followed by "mark for retransmission unless abandoned, forget the
  gap-ack, not in flight" — the body shared by the strike loop (third miss) and by `_t3_expired`.
* `strikeLoop_spec`, `t3Mark_spec`, `updateAdvAck_spec`.
-/
namespace Aiortc.Sctp
open Aiortc.Gen

/-- accounting invariant that holds *inside* the loops (the counter may be ahead of the sum while
`_t3_expired` clears `_in_flight` flags before it zeroes the counter). -/
structure WInv (t : Tx) : Prop where
  le : flightSum t.sentQ ≤ t.flight
  outQ : ∀ c ∈ t.outQ, Idle c
  sentQ : ∀ c ∈ t.sentQ, AbOk c

theorem FlightInv.winv {t : Tx} (h : FlightInv t) : WInv t := ⟨by rw [h.flight]; exact Nat.le_refl _, h.outQ, h.sentQ⟩

/-- predicates on chunks that every modification made by the strike / T3 loops preserves -/
structure StrikeClosed (P : SChunk → Prop) : Prop where
  ab : ∀ c, P c → P (abMark c)
  moved : ∀ c, Idle c → P { c with abandoned := true }
  miss : ∀ c m, P c → P { c with misses := m }
  hit : ∀ c, P c → c.abandoned = false → P { c with retransmit := true, acked := false, inFlight := false }
  hitAb : ∀ c, P c → c.abandoned = true → P { c with acked := false, inFlight := false }

theorem abOk_closed : StrikeClosed AbOk where
  ab := fun _ _ _ => ⟨rfl, rfl⟩
  moved := fun c hc _ => ⟨hc.1, hc.2.1⟩
  miss := fun _ _ h ha => h ha
  hit := fun c _ hna ha => by simp [hna] at ha
  hitAb := fun c h ha _ => ⟨rfl, (h ha).2⟩

/-- every chunk is abandoned or marked for retransmission (the state `_t3_expired` leaves) -/
def AbOrRtx (c : SChunk) : Prop := c.abandoned = true ∨ c.retransmit = true

theorem abOrRtx_closed : StrikeClosed AbOrRtx where
  ab := fun _ _ => Or.inl rfl
  moved := fun _ _ => Or.inl rfl
  miss := fun _ _ h => h
  hit := fun _ _ _ => Or.inr rfl
  hitAb := fun _ _ ha => Or.inl ha

theorem mem_modify {α} {l : List α} {i : Nat} {f : α → α} {d : α} (h : d ∈ l.modify i f) :
    d ∈ l ∨ ∃ c, l[i]? = some c ∧ d = f c := by
  cases hc : l[i]? with
  | none => rw [modify_none l i f hc] at h; exact Or.inl h
  | some c =>
    rw [modify_split l i c f hc] at h
    simp only [List.mem_append, List.mem_cons] at h
    rcases h with h | rfl | h
    · exact Or.inl (List.mem_of_mem_take h)
    · exact Or.inr ⟨c, rfl, rfl⟩
    · exact Or.inl (List.mem_of_mem_drop h)

/-! ## consequences of `maybeAbandon_spec` -/

theorem moved_props {outQ moved : List SChunk}
    (h : ∀ d ∈ moved, ∃ c ∈ outQ, d = { c with abandoned := true }) (ho : ∀ c ∈ outQ, Idle c) :
    flightSum moved = 0 ∧ ∀ d ∈ moved, d.inFlight = false := by
  have : ∀ d ∈ moved, d.inFlight = false := by
    intro d hd; obtain ⟨c, hc, rfl⟩ := h d hd; exact (ho c hc).1
  exact ⟨flightSum_eq_zero this, this⟩

theorem maybeAbandon_bal (t : Tx) (pos : Nat) (now : Int) (ho : ∀ c ∈ t.outQ, Idle c) :
    Bal t.flight t.sentQ (t.maybeAbandon pos now).2.flight (t.maybeAbandon pos now).2.sentQ := by
  obtain ⟨front, moved, he, _, hm, hb⟩ := (maybeAbandon_spec t pos now).shape
  intro hl
  have := hb hl
  rw [he, flightSum_append, (moved_props hm ho).1]; omega

theorem maybeAbandon_forall {P : SChunk → Prop} (hP : StrikeClosed P) (t : Tx) (pos : Nat) (now : Int)
    (ho : ∀ c ∈ t.outQ, Idle c) (h : ∀ c ∈ t.sentQ, P c) : ∀ c ∈ (t.maybeAbandon pos now).2.sentQ, P c := by
  obtain ⟨front, moved, he, hpw, hm, _⟩ := (maybeAbandon_spec t pos now).shape
  intro d hd
  rw [he, List.mem_append] at hd
  rcases hd with hd | hd
  · refine PW.forall (P := P) ?_ hpw h d hd
    intro x y hxy hx
    rcases hxy with rfl | rfl
    · exact hx
    · exact hP.ab _ hx
  · obtain ⟨c, hc, rfl⟩ := hm d hd
    exact hP.moved c (ho c hc)

theorem maybeAbandon_winv {t : Tx} (pos : Nat) (now : Int) (h : WInv t) : WInv (t.maybeAbandon pos now).2 :=
  ⟨(maybeAbandon_bal t pos now h.outQ).le h.le,
   fun c hc => h.outQ c ((maybeAbandon_spec t pos now).outQ c hc),
   maybeAbandon_forall abOk_closed t pos now h.outQ h.sentQ⟩

theorem maybeAbandon_length (t : Tx) (pos : Nat) (now : Int) :
    t.sentQ.length ≤ (t.maybeAbandon pos now).2.sentQ.length := by
  obtain ⟨front, moved, he, hpw, _, _⟩ := (maybeAbandon_spec t pos now).shape
  rw [he, List.length_append, ← PW.length hpw]; omega

theorem maybeAbandon_getElem? (t : Tx) (pos : Nat) (now : Int) (i : Nat) (d : SChunk)
    (hd : (t.maybeAbandon pos now).2.sentQ[i]? = some d) :
    (∃ c, t.sentQ[i]? = some c ∧ AbRel c d)
    ∨ (t.sentQ.length ≤ i ∧ ∃ c ∈ t.outQ, d = { c with abandoned := true }) := by
  obtain ⟨front, moved, he, hpw, hm, _⟩ := (maybeAbandon_spec t pos now).shape
  rw [he] at hd
  have hl := PW.length hpw
  rcases Nat.lt_or_ge i front.length with hi | hi
  · rw [List.getElem?_append_left hi] at hd
    exact Or.inl (PW.getElem? hpw i d hd)
  · rw [List.getElem?_append_right hi] at hd
    exact Or.inr ⟨by omega, hm d (List.mem_of_getElem? hd)⟩

/-! ## the shared loop body -/

/-- what happens to the chunk at `pos` after `_maybe_abandon` returned `ab` -/
def hitMark (ab : Bool) (c : SChunk) : SChunk :=
  { (if !ab then { c with retransmit := true } else c) with acked := false, inFlight := false }

theorem hitMark_w (ab : Bool) (c : SChunk) : (hitMark ab c).w = 0 := by simp [hitMark, SChunk.w]

/-- `_maybe_abandon(sent_queue[pos])`, then mark the chunk -/
def hitBody (t : Tx) (pos : Nat) (now : Int) : Tx :=
  { (t.maybeAbandon pos now).2 with
    sentQ := (t.maybeAbandon pos now).2.sentQ.modify pos (hitMark (t.maybeAbandon pos now).1) }

theorem hitBody_frame (t : Tx) (pos : Nat) (now : Int) :
    hitBody t pos now = { t with flight := (hitBody t pos now).flight, sentQ := (hitBody t pos now).sentQ,
                                 outQ := (hitBody t pos now).outQ } := by
  unfold hitBody
  have := (maybeAbandon_spec t pos now).frame
  generalize t.maybeAbandon pos now = r at this ⊢
  rw [this]

theorem hitBody_flight (t : Tx) (pos : Nat) (now : Int) :
    (hitBody t pos now).flight = (t.maybeAbandon pos now).2.flight := rfl

theorem hitBody_outQ (t : Tx) (pos : Nat) (now : Int) :
    (hitBody t pos now).outQ = (t.maybeAbandon pos now).2.outQ := rfl

theorem hitBody_length (t : Tx) (pos : Nat) (now : Int) : t.sentQ.length ≤ (hitBody t pos now).sentQ.length := by
  simp only [hitBody, List.length_modify]; exact maybeAbandon_length t pos now

theorem hitBody_forall {P : SChunk → Prop} (hP : StrikeClosed P) (t : Tx) (pos : Nat) (now : Int)
    (ho : ∀ c ∈ t.outQ, Idle c) (h : ∀ c ∈ t.sentQ, P c) : ∀ c ∈ (hitBody t pos now).sentQ, P c := by
  have h1 := maybeAbandon_forall hP t pos now ho h
  have hs := maybeAbandon_spec t pos now
  intro d hd
  simp only [hitBody] at hd
  rcases mem_modify hd with hd | ⟨c, hc, rfl⟩
  · exact h1 d hd
  · have hPc : P c := h1 c (List.mem_of_getElem? hc)
    cases hab : (t.maybeAbandon pos now).1 with
    | false =>
      have := (hs.no hab)
      rw [this.1] at hc
      have hna := this.2 c hc
      simpa [hitMark] using hP.hit c hPc hna
    | true =>
      obtain ⟨d', hd', ha'⟩ := hs.yes hab
      rw [hc] at hd'; cases hd'
      simpa [hitMark] using hP.hitAb c hPc ha'

/-- the sum shrinks by the weight of the chunk at `pos` (as `_maybe_abandon` left it) -/
theorem hitBody_sum (t : Tx) (pos : Nat) (now : Int) (c : SChunk)
    (hc : (t.maybeAbandon pos now).2.sentQ[pos]? = some c) :
    flightSum (hitBody t pos now).sentQ + c.w = flightSum (t.maybeAbandon pos now).2.sentQ := by
  have := flightSum_modify _ pos c (hitMark (t.maybeAbandon pos now).1) hc
  rw [hitMark_w] at this
  simpa [hitBody] using this

theorem hitBody_sum_le (t : Tx) (pos : Nat) (now : Int) :
    flightSum (hitBody t pos now).sentQ ≤ flightSum (t.maybeAbandon pos now).2.sentQ := by
  cases hc : (t.maybeAbandon pos now).2.sentQ[pos]? with
  | none => simp only [hitBody]; rw [modify_none _ _ _ hc]; exact Nat.le_refl _
  | some c => have := hitBody_sum t pos now c hc; omega

theorem hitBody_winv {t : Tx} (pos : Nat) (now : Int) (h : WInv t) : WInv (hitBody t pos now) := by
  have h1 := maybeAbandon_winv pos now h
  refine ⟨?_, h1.outQ, hitBody_forall abOk_closed t pos now h.outQ h.sentQ⟩
  have := hitBody_sum_le t pos now
  have := h1.le
  rw [hitBody_flight]; omega

theorem hitBody_outQ_sub (t : Tx) (pos : Nat) (now : Int) : ∀ c ∈ (hitBody t pos now).outQ, c ∈ t.outQ :=
  (maybeAbandon_spec t pos now).outQ

/-! ## the strike loop of `_receive_sack_chunk` -/

/-- state after the third miss of the chunk at `pos` -/
def strikeHit (t : Tx) (pos : Nat) (c : SChunk) (now : Int) : Tx :=
  let t1 := { t with sentQ := t.sentQ.modify pos fun d => { d with misses := 0 } }
  { hitBody t1 pos now with
    flight := (t1.maybeAbandon pos now).2.flight - ((t1.maybeAbandon pos now).2.sentQ[pos]?.getD c).w }

theorem strikeLoop_succ (seen : List Int) (hna now : Int) (fuel pos : Nat) (t : Tx) (loss : Bool) :
    strikeLoop seen hna now (fuel + 1) pos t loss =
      match t.sentQ[pos]? with
      | none => (t, loss)
      | some c =>
        if uint32_gt c.tsn hna then (t, loss)
        else if !seen.contains c.tsn then
          if c.misses + 1 = 3 then strikeLoop seen hna now fuel (pos + 1) (strikeHit t pos c now) true
          else strikeLoop seen hna now fuel (pos + 1)
                 { t with sentQ := t.sentQ.modify pos fun d => { d with misses := c.misses + 1 } } loss
        else strikeLoop seen hna now fuel (pos + 1) t loss := by
  conv => lhs; unfold strikeLoop
  cases hp : t.sentQ[pos]? with
  | none => rfl
  | some c =>
    simp only
    split
    · rfl
    · split
      · split
        · congr 1
          simp only [strikeHit, hitBody]
          generalize hr : Tx.maybeAbandon { t with sentQ := t.sentQ.modify pos fun d => { d with misses := 0 } } pos now = r
          have hlen : pos < r.2.sentQ.length := by
            have h1 := maybeAbandon_length { t with sentQ := t.sentQ.modify pos fun d => { d with misses := 0 } } pos now
            rw [hr] at h1
            simp only [List.length_modify] at h1
            have : pos < t.sentQ.length := by
              rcases Nat.lt_or_ge pos t.sentQ.length with h | h
              · exact h
              · have := List.getElem?_eq_none h; rw [hp] at this; cases this
            omega
          obtain ⟨cur, hcur⟩ : ∃ cur, r.2.sentQ[pos]? = some cur := ⟨r.2.sentQ[pos], List.getElem?_eq_getElem hlen⟩
          simp only [hcur, Option.getD_some, decFlight_fl, decFlight_fields]
          have hw : ({ (if (!r.1) = true then { cur with retransmit := true } else cur) with acked := false } : SChunk).w
              = cur.w := by
            cases r.1 <;> simp [SChunk.w]
          rw [hw]
          congr 1
          rw [modify_split _ _ _ _ hcur, modify_split _ _ _ _ hcur]
          rfl
        · rfl
      · rfl

theorem strikeHit_frame (t : Tx) (pos : Nat) (c : SChunk) (now : Int) :
    strikeHit t pos c now = { t with flight := (strikeHit t pos c now).flight, sentQ := (strikeHit t pos c now).sentQ,
                                     outQ := (strikeHit t pos c now).outQ } := by
  unfold strikeHit
  simp only
  generalize ht1 : ({ t with sentQ := t.sentQ.modify pos fun d => { d with misses := 0 } } : Tx) = t1
  have := hitBody_frame t1 pos now
  rw [this, ← ht1]

/-- the strike loop: accounting, closure of chunk predicates, queue length, `loss` -/
structure StrikeSpec (t : Tx) (loss : Bool) (r : Tx × Bool) : Prop where
  frame : r.1 = { t with flight := r.1.flight, sentQ := r.1.sentQ, outQ := r.1.outQ }
  bal : Bal t.flight t.sentQ r.1.flight r.1.sentQ
  flight_le : r.1.flight ≤ t.flight
  winv : WInv t → WInv r.1
  closed : ∀ P : SChunk → Prop, StrikeClosed P → (∀ c ∈ t.outQ, Idle c) → (∀ c ∈ t.sentQ, P c) → ∀ c ∈ r.1.sentQ, P c
  length : t.sentQ.length ≤ r.1.sentQ.length
  loss : r.2 = true → loss = true ∨ r.1.sentQ ≠ []
  outQ : ∀ c ∈ r.1.outQ, c ∈ t.outQ

theorem StrikeSpec.refl (t : Tx) (loss : Bool) : StrikeSpec t loss (t, loss) :=
  ⟨rfl, Bal.refl _ _, Nat.le_refl _, id, fun _ _ _ h => h, Nat.le_refl _, Or.inl, fun _ h => h⟩

theorem strikeHit_spec (t : Tx) (pos : Nat) (c : SChunk) (now : Int) (hp : t.sentQ[pos]? = some c)
    (ho : ∀ d ∈ t.outQ, Idle d) :
    Bal t.flight t.sentQ (strikeHit t pos c now).flight (strikeHit t pos c now).sentQ
    ∧ (strikeHit t pos c now).flight ≤ t.flight
    ∧ (∀ P : SChunk → Prop, StrikeClosed P → (∀ d ∈ t.sentQ, P d) → ∀ d ∈ (strikeHit t pos c now).sentQ, P d)
    ∧ t.sentQ.length ≤ (strikeHit t pos c now).sentQ.length
    ∧ (∀ d ∈ (strikeHit t pos c now).outQ, d ∈ t.outQ) := by
  generalize ht1 : ({ t with sentQ := t.sentQ.modify pos fun d => { d with misses := 0 } } : Tx) = t1
  have hfl1 : t1.flight = t.flight := by rw [← ht1]
  have hout1 : t1.outQ = t.outQ := by rw [← ht1]
  have hs1 : t1.sentQ = t.sentQ.modify pos fun d => { d with misses := 0 } := by rw [← ht1]
  have hsum1 : flightSum t1.sentQ = flightSum t.sentQ := by
    rw [hs1]; exact flightSum_modify_same _ _ _ (fun c => by simp [SChunk.w])
  have hlen1 : t1.sentQ.length = t.sentQ.length := by rw [hs1]; simp
  have ho1 : ∀ c ∈ t1.outQ, Idle c := by rw [hout1]; exact ho
  have hlen := maybeAbandon_length t1 pos now
  have hlt : pos < t.sentQ.length := by
    rcases Nat.lt_or_ge pos t.sentQ.length with h | h
    · exact h
    · have := List.getElem?_eq_none h; rw [hp] at this; cases this
  obtain ⟨cur, hcur⟩ : ∃ cur, (t1.maybeAbandon pos now).2.sentQ[pos]? = some cur :=
    ⟨(t1.maybeAbandon pos now).2.sentQ[pos]'(by omega), List.getElem?_eq_getElem (by omega)⟩
  have hsq : (strikeHit t pos c now).sentQ = (hitBody t1 pos now).sentQ := by simp only [strikeHit, ht1]
  have hoq : (strikeHit t pos c now).outQ = (hitBody t1 pos now).outQ := by simp only [strikeHit, ht1]
  have hfl : (strikeHit t pos c now).flight = (t1.maybeAbandon pos now).2.flight - cur.w := by
    simp only [strikeHit, ht1, hcur, Option.getD_some]
  rw [hsq, hoq, hfl]
  have hbal := maybeAbandon_bal t1 pos now ho1
  have hsum := hitBody_sum t1 pos now cur hcur
  have hfle := (maybeAbandon_spec t1 pos now).flight_le
  refine ⟨?_, by omega, ?_, ?_, ?_⟩
  · intro hl
    have a := hbal (by omega)
    have b := flightSum_mem_le (List.mem_of_getElem? hcur)
    have c := hbal.le (by omega)
    omega
  · intro P hP h
    refine hitBody_forall hP t1 pos now ho1 ?_
    intro d hd
    rw [hs1] at hd
    rcases mem_modify hd with hd | ⟨x, hx, rfl⟩
    · exact h d hd
    · exact hP.miss x 0 (h x (List.mem_of_getElem? hx))
  · have := hitBody_length t1 pos now; omega
  · intro d hd; have := hitBody_outQ_sub t1 pos now d hd; rwa [hout1] at this

theorem strikeLoop_spec (seen : List Int) (hna now : Int) : ∀ (fuel pos : Nat) (t : Tx) (loss : Bool),
    (∀ c ∈ t.outQ, Idle c) → StrikeSpec t loss (strikeLoop seen hna now fuel pos t loss) := by
  intro fuel
  induction fuel with
  | zero => intro pos t loss _; exact StrikeSpec.refl t loss
  | succ fuel ih =>
    intro pos t loss ho
    rw [strikeLoop_succ]
    cases hp : t.sentQ[pos]? with
    | none => exact StrikeSpec.refl t loss
    | some c =>
      simp only
      split
      · exact StrikeSpec.refl t loss
      · split
        · split
          · -- third miss
            obtain ⟨hb, hle, hcl, hlen, hout⟩ := strikeHit_spec t pos c now hp ho
            have hfr := strikeHit_frame t pos c now
            have ho' : ∀ c ∈ (strikeHit t pos c now).outQ, Idle c := fun d hd => ho d (hout d hd)
            have := ih (pos + 1) (strikeHit t pos c now) true ho'
            generalize strikeLoop seen hna now fuel (pos + 1) (strikeHit t pos c now) true = r at this
            refine ⟨?_, hb.trans this.bal, Nat.le_trans this.flight_le hle, ?_, ?_, Nat.le_trans hlen this.length, ?_,
              fun d hd => hout d (this.outQ d hd)⟩
            · rw [this.frame, hfr]
            · intro hw
              refine this.winv ⟨hb.le hw.le, ho', hcl AbOk abOk_closed hw.sentQ⟩
            · intro P hP _ h
              exact this.closed P hP ho' (hcl P hP h)
            · intro _
              right
              intro he
              have h1 := this.length
              have h2 : pos < t.sentQ.length := by
                rcases Nat.lt_or_ge pos t.sentQ.length with h | h
                · exact h
                · have := List.getElem?_eq_none h; rw [hp] at this; cases this
              rw [he] at h1; simp only [List.length_nil] at h1; omega
          · -- one more miss
            generalize ht1 : ({ t with sentQ := t.sentQ.modify pos fun d => { d with misses := c.misses + 1 } } : Tx) = t1
            have hs1 : t1.sentQ = t.sentQ.modify pos fun d => { d with misses := c.misses + 1 } := by rw [← ht1]
            have hfl1 : t1.flight = t.flight := by rw [← ht1]
            have hout1 : t1.outQ = t.outQ := by rw [← ht1]
            have hsum1 : flightSum t1.sentQ = flightSum t.sentQ := by
              rw [hs1]; exact flightSum_modify_same _ _ _ (fun c => by simp [SChunk.w])
            have hcl1 : ∀ P : SChunk → Prop, StrikeClosed P → (∀ c ∈ t.sentQ, P c) → ∀ c ∈ t1.sentQ, P c := by
              intro P hP h d hd
              rw [hs1] at hd
              rcases mem_modify hd with hd | ⟨x, hx, rfl⟩
              · exact h d hd
              · exact hP.miss x _ (h x (List.mem_of_getElem? hx))
            have ho' : ∀ c ∈ t1.outQ, Idle c := by rw [hout1]; exact ho
            have := ih (pos + 1) t1 loss ho'
            generalize strikeLoop seen hna now fuel (pos + 1) t1 loss = r at this
            refine ⟨?_, ?_, ?_, ?_, ?_, ?_, this.loss, ?_⟩
            · rw [this.frame, ← ht1]
            · intro hl
              have := this.bal (by omega)
              omega
            · have := this.flight_le; omega
            · intro hw
              exact this.winv ⟨by have := hw.le; omega, ho', hcl1 AbOk abOk_closed hw.sentQ⟩
            · intro P hP _ h
              exact this.closed P hP ho' (hcl1 P hP h)
            · have := this.length; rw [hs1] at this; simpa using this
            · intro d hd; have := this.outQ d hd; rwa [hout1] at this
        · exact ih (pos + 1) t loss ho

/-! ## the marking loop of `_t3_expired` -/

theorem t3Mark_succ (now : Int) (fuel pos : Nat) (t : Tx) :
    t3Mark now (fuel + 1) pos t = t3Mark now fuel (pos + 1) (hitBody t pos now) := rfl

/-- a chunk as `_t3_expired` leaves it: not counted in flight, and abandoned or marked for retransmission -/
def T3Q (c : SChunk) : Prop := c.inFlight = false ∧ AbOrRtx c

theorem T3Q.abRel {c d : SChunk} (h : AbRel c d) (hc : T3Q c) : T3Q d := by
  rcases h with rfl | rfl
  · exact hc
  · exact ⟨rfl, Or.inl rfl⟩

structure T3MarkSpec (t r : Tx) : Prop where
  frame : r = { t with flight := r.flight, sentQ := r.sentQ, outQ := r.outQ }
  winv : WInv r
  all : ∀ d ∈ r.sentQ, T3Q d
  closed : ∀ P : SChunk → Prop, StrikeClosed P → (∀ c ∈ t.sentQ, P c) → ∀ c ∈ r.sentQ, P c
  outQ : ∀ c ∈ r.outQ, c ∈ t.outQ
  length : t.sentQ.length ≤ r.sentQ.length

theorem t3Mark_spec (now : Int) (n : Nat) : ∀ (fuel pos : Nat) (t : Tx), WInv t → pos + fuel = n → n ≤ t.sentQ.length →
    (∀ i d, t.sentQ[i]? = some d → (i < pos ∨ n ≤ i) → T3Q d) → T3MarkSpec t (t3Mark now fuel pos t) := by
  intro fuel
  induction fuel with
  | zero =>
    intro pos t hw hn _ hq
    refine ⟨rfl, hw, ?_, fun _ _ h => h, fun _ h => h, Nat.le_refl _⟩
    intro d hd
    obtain ⟨i, hi⟩ := List.getElem?_of_mem hd
    exact hq i d hi (by omega)
  | succ fuel ih =>
    intro pos t hw hn hlen hq
    rw [t3Mark_succ]
    have hs := maybeAbandon_spec t pos now
    have hq' : ∀ i d, (hitBody t pos now).sentQ[i]? = some d → (i < pos + 1 ∨ n ≤ i) → T3Q d := by
      intro i d hd hi
      simp only [hitBody, List.getElem?_modify] at hd
      cases hc : (t.maybeAbandon pos now).2.sentQ[i]? with
      | none => rw [hc] at hd; simp at hd
      | some c =>
        rw [hc] at hd
        by_cases hip : pos = i
        · subst hip
          simp only [if_true, Option.map_eq_map, Option.map_some, Option.some.injEq] at hd
          subst hd
          refine ⟨rfl, ?_⟩
          cases hab : (t.maybeAbandon pos now).1 with
          | false => exact Or.inr rfl
          | true =>
            obtain ⟨d', hd', ha'⟩ := hs.yes hab
            rw [hc] at hd'; cases hd'
            exact Or.inl ha'
        · simp only [hip, if_false, Option.map_eq_map, Option.map_some, Option.some.injEq] at hd
          subst hd
          rcases maybeAbandon_getElem? t pos now i c hc with ⟨x, hx, hr⟩ | ⟨_, x, hx, rfl⟩
          · exact T3Q.abRel hr (hq i x hx (by omega))
          · exact ⟨(hw.outQ x hx).1, Or.inl rfl⟩
    have hw' := hitBody_winv pos now hw
    have hl' := hitBody_length t pos now
    have := ih (pos + 1) (hitBody t pos now) hw' (by omega) (by omega) hq'
    generalize t3Mark now fuel (pos + 1) (hitBody t pos now) = r at this
    refine ⟨?_, this.winv, this.all, ?_, fun d hd => hitBody_outQ_sub t pos now d (this.outQ d hd),
      Nat.le_trans hl' this.length⟩
    · rw [this.frame, hitBody_frame]
    · intro P hP h
      exact this.closed P hP (hitBody_forall hP t pos now hw.outQ h)

/-! ## `_update_advanced_peer_ack_point` -/

theorem popAbandoned_spec : ∀ (l : List SChunk) (adv : Int) (st : List (Nat × Int)) (nd : Bool),
    ∃ k, (popAbandoned adv st nd l).2.2.2 = l.drop k ∧ (∀ c ∈ l.take k, c.abandoned = true)
      ∧ (∀ c, (popAbandoned adv st nd l).2.2.2.head? = some c → c.abandoned = false)
      ∧ ((popAbandoned adv st nd l).2.2.1 = true ↔ nd = true ∨ 0 < k) := by
  intro l
  induction l with
  | nil => intro adv st nd; exact ⟨0, rfl, by simp, by simp [popAbandoned], by simp [popAbandoned]⟩
  | cons c cs ih =>
    intro adv st nd
    unfold popAbandoned
    split
    · rename_i hab
      obtain ⟨k, h1, h2, h3, h4⟩ := ih c.tsn (if !flagU c.flags then dictSet st c.sid c.ssn else st) true
      refine ⟨k + 1, by simpa using h1, ?_, h3, ?_⟩
      · intro d hd
        simp only [List.take_succ_cons, List.mem_cons] at hd
        rcases hd with rfl | hd
        · exact hab
        · exact h2 d hd
      · have := h4.2 (Or.inl rfl)
        constructor
        · intro _; right; omega
        · intro _; exact this
    · rename_i hab
      refine ⟨0, rfl, by simp, ?_, by simp⟩
      intro d hd; simp at hd; subst hd; simpa using hab

structure AdvSpec (t r : Tx) : Prop where
  frame : r = { t with advAck := r.advAck, forwardNeeded := r.forwardNeeded, forwardStreams := r.forwardStreams,
                       sentQ := r.sentQ, forwardTsn := r.forwardTsn }
  drop : ∃ k, r.sentQ = t.sentQ.drop k ∧ (∀ c ∈ t.sentQ.take k, c.abandoned = true)
  head : ∀ c, r.sentQ.head? = some c → c.abandoned = false
  /-- a FORWARD TSN is only ever added, never withdrawn -/
  fwd : t.forwardTsn.isSome = true → r.forwardTsn.isSome = true

theorem updateAdvAck_spec (t : Tx) : AdvSpec t t.updateAdvAck := by
  unfold Tx.updateAdvAck
  simp only
  generalize ht0 : (if uint32_gte t.lastSacked t.advAck = true then
      { t with advAck := t.lastSacked, forwardNeeded := false, forwardStreams := [] } else t) = t0
  have hs0 : t0.sentQ = t.sentQ := by rw [← ht0]; split <;> rfl
  have hf0 : t0.forwardTsn = t.forwardTsn := by rw [← ht0]; split <;> rfl
  have hfr0 : t0 = { t with advAck := t0.advAck, forwardNeeded := t0.forwardNeeded, forwardStreams := t0.forwardStreams } := by
    rw [← ht0]; split <;> rfl
  obtain ⟨k, h1, h2, h3, _⟩ := popAbandoned_spec t0.sentQ t0.advAck t0.forwardStreams t0.forwardNeeded
  generalize popAbandoned t0.advAck t0.forwardStreams t0.forwardNeeded t0.sentQ = r at h1 h2 h3
  obtain ⟨adv, streams, needed, sent⟩ := r
  simp only at h1 h2 h3 ⊢
  split
  · refine ⟨?_, ⟨k, by rw [← hs0]; exact h1, by rw [← hs0]; exact h2⟩, h3, fun _ => rfl⟩
    rw [hfr0]
  · refine ⟨?_, ⟨k, by rw [← hs0]; exact h1, by rw [← hs0]; exact h2⟩, h3, ?_⟩
    · rw [hfr0]
    · intro h; simpa [hf0] using h

theorem flightSum_drop_abandoned {l : List SChunk} {k : Nat} (hab : ∀ c ∈ l, AbOk c)
    (h : ∀ c ∈ l.take k, c.abandoned = true) : flightSum (l.drop k) = flightSum l := by
  have h0 : flightSum (l.take k) = 0 := by
    apply flightSum_eq_zero
    intro c hc
    exact (hab c (List.mem_of_mem_take hc) (h c hc)).1
  have := flightSum_append (l.take k) (l.drop k)
  rw [List.take_append_drop] at this
  omega

theorem FlightInv.updateAdvAck {t : Tx} (h : FlightInv t) : FlightInv t.updateAdvAck := by
  have hs := updateAdvAck_spec t
  obtain ⟨k, hk, hab⟩ := hs.drop
  generalize t.updateAdvAck = r at hs hk
  have hfl : r.flight = t.flight := by rw [hs.frame]
  have hout : r.outQ = t.outQ := by rw [hs.frame]
  refine ⟨?_, by rw [hout]; exact h.outQ, ?_⟩
  · rw [hfl, hk, flightSum_drop_abandoned h.sentQ hab]; exact h.flight
  · intro c hc; rw [hk] at hc; exact h.sentQ c (List.mem_of_mem_drop hc)

end Aiortc.Sctp
