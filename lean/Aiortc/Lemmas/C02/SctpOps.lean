import Aiortc.Lemmas.C02.SctpLoops
/-!
# `_receive_sack_chunk` and `_t3_expired` as compositions of their phases (C02)

`receiveSack_eq` splits the model of `_receive_sack_chunk` into cumulative ack / gap blocks / congestion
window / T3 handling / advanced peer ack point; on top of the loop lemmas this gives the flight accounting
invariant for every sender operation, and the unreachability of the `IndexError` branch.
-/
namespace Aiortc.Sctp
open Aiortc.Gen

/-- phase 1: `_last_sacked_tsn = cum`, pop everything the cumulative TSN covers -/
def Tx.sackAck (t : Tx) (cum : Int) : Tx :=
  { t with lastSacked := cum, flight := (ackLoop cum t.flight 0 0 t.sentQ).1,
           sentQ := (ackLoop cum t.flight 0 0 t.sentQ).2.2.2 }
def Tx.sackDone (t : Tx) (cum : Int) : Nat := (ackLoop cum t.flight 0 0 t.sentQ).2.1
def Tx.sackDoneBytes (t : Tx) (cum : Int) : Nat := (ackLoop cum t.flight 0 0 t.sentQ).2.2.1

def Tx.gapLimit (t : Tx) (cum : Int) : Nat :=
  match t.sentQ.getLast? with
  | some l => if uint32_gt l.tsn cum then ((l.tsn - cum) % 4294967296).toNat else 0
  | none => 0

/-- state after the HTNA loop -/
def Tx.sackHtna (t : Tx) (cum : Int) (gaps : List (Nat × Nat)) (db : Nat) : Tx :=
  let gs := gapSeen cum (t.gapLimit cum) gaps
  let h := htnaLoop gs.1 gs.2 t.flight db cum [] t.sentQ
  { t with flight := h.1, sentQ := h.2.2.2 }

/-- phase 2: gap blocks; returns (state, done_bytes, loss) -/
def Tx.sackGaps (t : Tx) (cum : Int) (gaps : List (Nat × Nat)) (now : Int) (db : Nat) : Tx × Nat × Bool :=
  if gaps.isEmpty then (t, db, false)
  else
    let gs := gapSeen cum (t.gapLimit cum) gaps
    let h := htnaLoop gs.1 gs.2 t.flight db cum [] t.sentQ
    let t1 := t.sackHtna cum gaps db
    let s := strikeLoop gs.1 h.2.2.1 now t1.sentQ.length 0 t1 false
    (s.1, h.2.1, s.2)

/-- phase 3: congestion window, fast recovery -/
def Tx.sackCwnd (t : Tx) (cum : Int) (done doneBytes : Nat) (fully loss : Bool) : Outcome Tx :=
  match t.fastRecoveryExit with
  | none =>
    let t := if done > 0 && fully then
        if t.cwnd ≤ t.ssthresh then { t with cwnd := t.cwnd + min doneBytes USERDATA_MAX }
        else
          let pba := t.partialBytesAcked + doneBytes
          if pba ≥ t.cwnd then { t with partialBytesAcked := pba - t.cwnd, cwnd := t.cwnd + USERDATA_MAX }
          else { t with partialBytesAcked := pba }
      else t
    if loss then
      match t.sentQ.getLast? with
      | none => .crash "IndexError"
      | some l =>
        let ss := max (t.cwnd / 2) (4 * USERDATA_MAX)
        .ok { t with ssthresh := ss, cwnd := ss, partialBytesAcked := 0,
                     fastRecoveryExit := some l.tsn, fastRecoveryTransmit := true }
    else .ok t
  | some ex => if uint32_gte cum ex then .ok { t with fastRecoveryExit := none } else .ok t

/-- phase 4: T3 -/
def Tx.sackT3 (t : Tx) (done : Nat) : Tx × List TxEv :=
  if t.sentQ.isEmpty then ({ t with t3 := false }, if t.t3 then [TxEv.t3cancel] else [])
  else if done > 0 then ({ t with t3 := true }, t3Restart t.t3)
  else (t, [])

theorem receiveSack_eq (t : Tx) (cum : Int) (gaps : List (Nat × Nat)) (now : Int) :
    t.receiveSack cum gaps now =
      if t.sackStale cum then .ok none
      else
        match ((t.sackAck cum).sackGaps cum gaps now (t.sackDoneBytes cum)).1.sackCwnd cum (t.sackDone cum)
            ((t.sackAck cum).sackGaps cum gaps now (t.sackDoneBytes cum)).2.1 (decide (t.flight ≥ t.cwnd))
            ((t.sackAck cum).sackGaps cum gaps now (t.sackDoneBytes cum)).2.2 with
        | .ok t3 => .ok (some ((t3.sackT3 (t.sackDone cum)).1.updateAdvAck, (t3.sackT3 (t.sackDone cum)).2))
        | .valueError => .valueError
        | .crash k => .crash k
        | .hang => .hang := by
  unfold Tx.receiveSack
  split
  · rfl
  · cases hg : gaps.isEmpty with
    | true =>
      simp only [Tx.sackGaps, hg, if_true]
      rfl
    | false =>
      simp only [Tx.sackGaps, hg, Bool.false_eq_true, if_false]
      rfl

/-! ## flight accounting through the phases -/

theorem FlightInv.sackAck {t : Tx} (h : FlightInv t) (cum : Int) : FlightInv (t.sackAck cum) := by
  obtain ⟨hb, ⟨k, hk, _⟩, _⟩ := ackLoop_spec cum t.sentQ t.flight 0 0
  refine ⟨hb.eq h.flight, h.outQ, ?_⟩
  intro c hc
  simp only [Tx.sackAck] at hc
  rw [hk] at hc
  exact h.sentQ c (List.mem_of_mem_drop hc)

theorem sackHtna_pw (t : Tx) (cum : Int) (gaps : List (Nat × Nat)) (db : Nat) :
    PW HtnaRel t.sentQ (t.sackHtna cum gaps db).sentQ := by
  have := (htnaLoop_spec (gapSeen cum (t.gapLimit cum) gaps).1 (gapSeen cum (t.gapLimit cum) gaps).2 t.sentQ []
    t.flight db cum).2
  simpa [Tx.sackHtna] using this

theorem FlightInv.sackHtna {t : Tx} (h : FlightInv t) (cum : Int) (gaps : List (Nat × Nat)) (db : Nat) :
    FlightInv (t.sackHtna cum gaps db) := by
  have h1 := (htnaLoop_spec (gapSeen cum (t.gapLimit cum) gaps).1 (gapSeen cum (t.gapLimit cum) gaps).2 t.sentQ []
    t.flight db cum).1
  have hf := h.flight
  refine ⟨?_, h.outQ, PW.forall (fun c d hr hc => HtnaRel.abOk hr hc) (sackHtna_pw t cum gaps db) h.sentQ⟩
  simp only [flightSum_nil, Nat.zero_add, Nat.add_zero] at h1
  have := h1 (by omega)
  simp only [Tx.sackHtna]
  omega

theorem sackHtna_flight_le (t : Tx) (cum : Int) (gaps : List (Nat × Nat)) (db : Nat) (h : FlightInv t) :
    (t.sackHtna cum gaps db).flight ≤ t.flight := by
  have h1 := (FlightInv.sackHtna h cum gaps db).flight
  have h2 : flightSum (t.sackHtna cum gaps db).sentQ ≤ flightSum t.sentQ := by
    have := sackHtna_pw t cum gaps db
    generalize (t.sackHtna cum gaps db).sentQ = l' at this
    generalize t.sentQ = l at this
    induction l generalizing l' with
    | nil => cases l' with
      | nil => exact Nat.le_refl _
      | cons _ _ => exact this.elim
    | cons c cs ih => cases l' with
      | nil => exact this.elim
      | cons d ds =>
        have a := HtnaRel.w_le this.1
        have b := ih ds this.2
        simp only [flightSum_cons]; omega
  rw [h1, h.flight]; exact h2

theorem sackGaps_strike (t : Tx) (cum : Int) (gaps : List (Nat × Nat)) (now : Int) (db : Nat)
    (ho : ∀ c ∈ t.outQ, Idle c) (hg : gaps.isEmpty = false) :
    StrikeSpec (t.sackHtna cum gaps db) false
      ((t.sackGaps cum gaps now db).1, (t.sackGaps cum gaps now db).2.2) := by
  simp only [Tx.sackGaps, hg, Bool.false_eq_true, if_false]
  exact strikeLoop_spec _ _ _ _ _ _ _ (by simpa [Tx.sackHtna] using ho)

theorem FlightInv.sackGaps {t : Tx} (h : FlightInv t) (cum : Int) (gaps : List (Nat × Nat)) (now : Int) (db : Nat) :
    FlightInv (t.sackGaps cum gaps now db).1 := by
  cases hg : gaps.isEmpty with
  | true => simpa [Tx.sackGaps, hg] using h
  | false =>
    have h1 := FlightInv.sackHtna h cum gaps db
    have hs := sackGaps_strike t cum gaps now db h.outQ hg
    have hw := hs.winv h1.winv
    exact ⟨hs.bal.eq h1.flight, hw.outQ, hw.sentQ⟩

/-- `loss` implies that the sent queue is not empty -/
theorem sackGaps_loss (t : Tx) (cum : Int) (gaps : List (Nat × Nat)) (now : Int) (db : Nat)
    (ho : ∀ c ∈ t.outQ, Idle c) (hl : (t.sackGaps cum gaps now db).2.2 = true) :
    (t.sackGaps cum gaps now db).1.sentQ ≠ [] := by
  cases hg : gaps.isEmpty with
  | true => simp [Tx.sackGaps, hg] at hl
  | false =>
    have hs := sackGaps_strike t cum gaps now db ho hg
    rcases hs.loss hl with h | h
    · cases h
    · exact h

/-- what the congestion-window phase may change -/
theorem sackCwnd_frame (t : Tx) (cum : Int) (done db : Nat) (fully loss : Bool) (t' : Tx)
    (h : t.sackCwnd cum done db fully loss = .ok t') :
    t' = { t with cwnd := t'.cwnd, ssthresh := t'.ssthresh, partialBytesAcked := t'.partialBytesAcked,
                  fastRecoveryExit := t'.fastRecoveryExit, fastRecoveryTransmit := t'.fastRecoveryTransmit } := by
  unfold Tx.sackCwnd at h
  split at h
  · generalize ht0 : (if (decide (done > 0) && fully) = true then
        if t.cwnd ≤ t.ssthresh then { t with cwnd := t.cwnd + min db USERDATA_MAX }
        else if t.partialBytesAcked + db ≥ t.cwnd then
          { t with partialBytesAcked := t.partialBytesAcked + db - t.cwnd, cwnd := t.cwnd + USERDATA_MAX }
        else { t with partialBytesAcked := t.partialBytesAcked + db }
      else t) = t0 at h
    have h0 : t0 = { t with cwnd := t0.cwnd, partialBytesAcked := t0.partialBytesAcked } := by
      rw [← ht0]; split
      · split
        · rfl
        · split <;> rfl
      · rfl
    simp only at h
    split at h
    · split at h
      · cases h
      · cases h; rw [h0]
    · cases h; rw [h0]
  · split at h <;> (cases h; rfl)

theorem sackCwnd_ok (t : Tx) (cum : Int) (done db : Nat) (fully loss : Bool)
    (hl : loss = true → t.sentQ ≠ []) : ∃ t', t.sackCwnd cum done db fully loss = .ok t' := by
  unfold Tx.sackCwnd
  split
  · simp only
    split
    · rename_i hloss
      have hne := hl hloss
      split
      · rename_i hnone
        exfalso
        have : t.sentQ = [] := by
          have h2 : (if (decide (done > 0) && fully) = true then
              if t.cwnd ≤ t.ssthresh then { t with cwnd := t.cwnd + min db USERDATA_MAX }
              else if t.partialBytesAcked + db ≥ t.cwnd then
                { t with partialBytesAcked := t.partialBytesAcked + db - t.cwnd, cwnd := t.cwnd + USERDATA_MAX }
              else { t with partialBytesAcked := t.partialBytesAcked + db }
            else t).sentQ = t.sentQ := by
            split
            · split
              · rfl
              · split <;> rfl
            · rfl
          rw [h2] at hnone
          exact List.getLast?_eq_none_iff.mp hnone
        exact hne this
      · exact ⟨_, rfl⟩
    · exact ⟨_, rfl⟩
  · split <;> exact ⟨_, rfl⟩

theorem sackT3_frame (t : Tx) (done : Nat) : (t.sackT3 done).1 = { t with t3 := (t.sackT3 done).1.t3 } := by
  unfold Tx.sackT3; split
  · rfl
  · split <;> rfl

/-- **(d) `_receive_sack_chunk` never raises**: the `IndexError` branch (`self._sent_queue[-1]` after a loss was
detected) is unreachable because `loss` implies a non-empty sent queue. Needs nothing but "unsent chunks are idle". -/
theorem receiveSack_ok (t : Tx) (cum : Int) (gaps : List (Nat × Nat)) (now : Int) (ho : ∀ c ∈ t.outQ, Idle c) :
    ∃ r, t.receiveSack cum gaps now = .ok r := by
  rw [receiveSack_eq]
  split
  · exact ⟨none, rfl⟩
  · obtain ⟨t', ht'⟩ := sackCwnd_ok ((t.sackAck cum).sackGaps cum gaps now (t.sackDoneBytes cum)).1 cum (t.sackDone cum)
      ((t.sackAck cum).sackGaps cum gaps now (t.sackDoneBytes cum)).2.1 (decide (t.flight ≥ t.cwnd))
      ((t.sackAck cum).sackGaps cum gaps now (t.sackDoneBytes cum)).2.2
      (sackGaps_loss (t.sackAck cum) cum gaps now (t.sackDoneBytes cum) (by simpa [Tx.sackAck] using ho))
    rw [ht']
    exact ⟨_, rfl⟩

/-- **`_receive_sack_chunk` preserves the flight accounting.** -/
theorem FlightInv.receiveSack {t : Tx} (h : FlightInv t) (cum : Int) (gaps : List (Nat × Nat)) (now : Int)
    (t' : Tx) (evs : List TxEv) (hr : t.receiveSack cum gaps now = .ok (some (t', evs))) : FlightInv t' := by
  rw [receiveSack_eq] at hr
  split at hr
  · cases hr
  · have h2 := FlightInv.sackGaps (FlightInv.sackAck h cum) cum gaps now (t.sackDoneBytes cum)
    generalize ((t.sackAck cum).sackGaps cum gaps now (t.sackDoneBytes cum)) = g at hr h2
    split at hr
    · rename_i t3 ht3
      have hfr := sackCwnd_frame _ _ _ _ _ _ _ ht3
      have h3 : FlightInv t3 := by
        rw [hfr]; exact ⟨h2.flight, h2.outQ, h2.sentQ⟩
      have h4 : FlightInv (t3.sackT3 (t.sackDone cum)).1 := by
        rw [sackT3_frame]; exact ⟨h3.flight, h3.outQ, h3.sentQ⟩
      simp only [Outcome.ok.injEq, Option.some.injEq, Prod.mk.injEq] at hr
      rw [← hr.1]
      exact h4.updateAdvAck
    all_goals cases hr

/-! ## `_maybe_abandon` and `_t3_expired` -/

theorem FlightInv.maybeAbandon {t : Tx} (h : FlightInv t) (pos : Nat) (now : Int) :
    FlightInv (t.maybeAbandon pos now).2 := by
  have hw := maybeAbandon_winv pos now h.winv
  exact ⟨(maybeAbandon_bal t pos now h.outQ).eq h.flight, hw.outQ, hw.sentQ⟩

/-- state after the marking loop of `_t3_expired` -/
def Tx.t3Marked (t : Tx) (now : Int) : Tx := t3Mark now t.sentQ.length 0 { t with t3 := false }

theorem t3Expired_eq (t : Tx) (now : Int) :
    t.t3Expired now =
      { (t.t3Marked now).updateAdvAck with
        fastRecoveryExit := none, flight := 0, partialBytesAcked := 0,
        ssthresh := max ((t.t3Marked now).updateAdvAck.cwnd / 2) (4 * USERDATA_MAX), cwnd := USERDATA_MAX } := rfl

theorem t3Marked_spec (t : Tx) (now : Int) (h : WInv t) : T3MarkSpec { t with t3 := false } (t.t3Marked now) :=
  t3Mark_spec now t.sentQ.length t.sentQ.length 0 { t with t3 := false } ⟨h.le, h.outQ, h.sentQ⟩ (by omega)
    (Nat.le_refl _) (by intro i d hd hi; have := (List.getElem?_eq_some_iff.mp hd).1; simp at this; omega)

/-- after `_t3_expired`: every outstanding chunk is uncounted and abandoned-or-marked, the first one is not abandoned -/
theorem t3Expired_all (t : Tx) (now : Int) (h : WInv t) :
    (∀ d ∈ (t.t3Expired now).sentQ, T3Q d) ∧ (∀ c, (t.t3Expired now).sentQ.head? = some c → c.abandoned = false) := by
  have hm := t3Marked_spec t now h
  have ha := updateAdvAck_spec (t.t3Marked now)
  obtain ⟨k, hk, _⟩ := ha.drop
  rw [t3Expired_eq]
  refine ⟨?_, ha.head⟩
  intro d hd
  simp only at hd
  rw [hk] at hd
  exact hm.all d (List.mem_of_mem_drop hd)

/-- **`_t3_expired` preserves (re-establishes) the flight accounting.** -/
theorem FlightInv.t3Expired_of_winv {t : Tx} (h : WInv t) (now : Int) : FlightInv (t.t3Expired now) := by
  have hm := t3Marked_spec t now h
  have ha := updateAdvAck_spec (t.t3Marked now)
  obtain ⟨k, hk, _⟩ := ha.drop
  have hall := (t3Expired_all t now h).1
  have hout : (t.t3Expired now).outQ = (t.t3Marked now).outQ := by
    rw [t3Expired_eq]; simp only; rw [ha.frame]
  have hsq : (t.t3Expired now).sentQ = (t.t3Marked now).updateAdvAck.sentQ := by rw [t3Expired_eq]
  refine ⟨?_, ?_, ?_⟩
  · have : (t.t3Expired now).flight = 0 := by rw [t3Expired_eq]
    rw [this, flightSum_eq_zero (fun c hc => (hall c hc).1)]
  · rw [hout]; exact hm.winv.outQ
  · intro c hc
    rw [hsq, hk] at hc
    exact hm.winv.sentQ c (List.mem_of_mem_drop hc)

theorem FlightInv.t3Expired {t : Tx} (h : FlightInv t) (now : Int) : FlightInv (t.t3Expired now) :=
  FlightInv.t3Expired_of_winv h.winv now

end Aiortc.Sctp
