import Aiortc.Lemmas.C02.SctpLink
/-!
# The receiver invariant `RxOk` holds after every arrival sequence (C02)

`RxOk` (cumulative TSN and misordered TSNs are 32-bit values, the misordered set is duplicate free, does not
contain the cumulative TSN, and has been consolidated: the TSN following the cumulative one is not in it) is what
`Link.epoch_progress` assumes about the receiver.  Here: `_mark_received` preserves it for every 32-bit TSN, so
it holds whatever the network did.
-/
namespace Aiortc.Sctp
open Aiortc.Gen

/-- where the consolidation loop stops, the next TSN is not in the (sorted) list -/
theorem consolidate_stop (b : Int) (_hb : R32 b) : ∀ (S : List Int) (a : Int), R32 a → KeySorted b S →
    (∀ x ∈ S, R32 x ∧ serialKey b a < serialKey b x) → tsn_plus_one (consolidate a S) ∉ S := by
  intro S
  induction S with
  | nil => intro a _ _ _; simp
  | cons t ts ih =>
    intro a ha hs hx
    have hts := List.pairwise_cons.mp hs
    have ht := hx t (by simp)
    unfold consolidate
    split
    · rename_i heq
      have hrec := ih t ht.1 hts.2 (fun x hxm => ⟨(hx x (by simp [hxm])).1, hts.1 x hxm⟩)
      have hc := consolidate_mem ts t
      generalize consolidate t ts = c at hrec hc
      intro hmem
      simp only [List.mem_cons] at hmem
      rcases hmem with hmem | hmem
      · -- `c + 1 = t`: impossible, the keys only grow and stay above `key a ≥ 0`
        have hk : serialKey b a < serialKey b t := ht.2
        have ht32 := ht.1
        rcases hc with hc | hc
        · rw [hc] at hmem
          unfold tsn_plus_one at hmem; unfold R32 at ht32; omega
        · have hlt : serialKey b t < serialKey b c := hts.1 c hc
          have hc32 : R32 c := (hx c (by simp [hc])).1
          unfold serialKey at hk hlt
          unfold tsn_plus_one at hmem
          unfold R32 at ht32 hc32 ha
          omega
      · exact hrec hmem
    · rename_i hne
      intro hmem
      simp only [List.mem_cons] at hmem
      rcases hmem with hmem | hmem
      · exact hne hmem.symm
      · have h1 : serialKey b t < serialKey b (tsn_plus_one a) := hts.1 _ hmem
        have h2 : serialKey b a < serialKey b t := ht.2
        have ht32 := ht.1
        have hne' : t ≠ (a + 1) % 4294967296 := hne
        unfold serialKey at h1 h2
        unfold tsn_plus_one at h1
        unfold R32 at ht32 ha
        omega

/-- **`_mark_received` preserves the receiver invariant**, for every 32-bit TSN. -/
theorem RxOk.markReceived {rx : Rx} (h : RxOk rx) (tsn : Int) (ht : R32 tsn) : RxOk (markReceived rx tsn).2 := by
  unfold Aiortc.Sctp.markReceived
  split
  · exact ⟨h.last, h.mis, h.nodup, h.next⟩
  · rename_i hcond
    simp only [Bool.or_eq_true, not_or, Bool.not_eq_true] at hcond
    obtain ⟨hgte, hcont⟩ := hcond
    have hnotin : tsn ∉ rx.mis := by simpa using hcont
    have hne : tsn ≠ rx.last := by
      intro he; rw [he] at hgte; simp [uint32_gte] at hgte
    have hall : ∀ x ∈ rx.mis ++ [tsn], R32 x ∧ x ≠ rx.last := by
      intro x hx
      simp only [List.mem_append, List.mem_singleton] at hx
      rcases hx with hx | rfl
      · exact h.mis x hx
      · exact ⟨ht, hne⟩
    have hnd : (rx.mis ++ [tsn]).Nodup := by
      rw [List.nodup_append]
      refine ⟨h.nodup, by simp, ?_⟩
      intro a ha b hb
      simp only [List.mem_singleton] at hb
      subst hb
      intro hab; subst hab; exact hnotin ha
    have hdist : (rx.mis ++ [tsn]).Pairwise (fun x y => serialKey rx.last x ≠ serialKey rx.last y) := by
      refine List.Pairwise.imp_of_mem ?_ hnd
      intro x y hx hy hxy hk
      apply hxy
      have a := (hall x hx).1; have b := (hall y hy).1
      unfold serialKey at hk; unfold R32 at a b; omega
    have hsorted := sortByKey_sorted rx.last _ hdist
    have hmem : ∀ x, x ∈ sortByKey rx.last (rx.mis ++ [tsn]) ↔ x ∈ rx.mis ++ [tsn] :=
      fun x => mem_sortByKey rx.last x _
    obtain ⟨j, _, hj⟩ := consolidate_adv (sortByKey rx.last (rx.mis ++ [tsn])) rx.last h.last
    have hstop := consolidate_stop rx.last h.last (sortByKey rx.last (rx.mis ++ [tsn])) rx.last h.last hsorted
      (by
        intro x hx
        have := hall x ((hmem x).mp hx)
        refine ⟨this.1, ?_⟩
        have hl := h.last
        unfold serialKey; unfold R32 at this hl; omega)
    dsimp only
    generalize consolidate rx.last (sortByKey rx.last (rx.mis ++ [tsn])) = L at hj hstop
    have hL : R32 L := by rw [hj]; unfold R32; omega
    refine ⟨hL, ?_, hnd.filter _, ?_⟩
    · intro x hx
      simp only [List.mem_filter] at hx
      refine ⟨(hall x hx.1).1, ?_⟩
      intro he
      have := hx.2
      rw [he] at this
      simp [uint32_gt] at this
    · simp only [List.contains_eq_mem, List.mem_filter, decide_eq_false_iff_not, not_and]
      intro hin
      exact absurd ((hmem _).mpr hin) hstop

/-- a receiver right after INIT / INIT-ACK -/
theorem RxOk.init (last : Int) (h : R32 last) : RxOk { last := last, mis := [], dups := [] } :=
  ⟨h, by simp, by simp, by simp⟩

/-- **the receiver invariant holds after every sequence of arrivals** (losses, duplicates, any order) -/
theorem RxOk.arrivals (rx : Rx) (h : RxOk rx) (arr : List Int) (ha : ∀ t ∈ arr, R32 t) :
    RxOk (arr.foldl (fun r t => (Aiortc.Sctp.markReceived r t).2) rx) := by
  induction arr generalizing rx with
  | nil => exact h
  | cons t ts ih =>
    exact ih _ (h.markReceived t (ha t (by simp))) (fun x hx => ha x (by simp [hx]))

/-! ## the one-sided invariants hold along the whole continuation -/

/-- sender invariants and receiver invariant -/
structure Link.Inv (s : Link) : Prop where
  snd : SndInv { tx := s.tx, pending := s.pending }
  rx : RxOk s.rx

/-- every step of the canonical continuation is a sender operation or an arrival at the receiver -/
theorem Link.Inv.step {s : Link} (h : s.Inv) : s.step.Inv := by
  unfold Link.step
  split
  · exact ⟨h.snd.step .task, h.rx⟩
  · rename_i hp
    split
    · rename_i d rest _
      refine ⟨h.snd, ?_⟩
      have := h.rx.markReceived (d.tsn % 4294967296) (by unfold R32; omega)
      exact ⟨this.last, this.mis, this.nodup, this.next⟩
    · split
      · rename_i cum gaps rest _
        refine ⟨?_, ?_⟩
        · have := h.snd.step (.sack cum gaps s.now1000 [])
          simp only [Snd.step, List.foldl_nil] at this
          simp only [Link.deliverSack]
          obtain ⟨r, hr⟩ := receiveSack_ok s.tx cum gaps s.now1000 h.snd.flight.outQ
          rw [hr] at this ⊢
          cases r with
          | none => exact this
          | some p => exact this
        · simp only [Link.deliverSack]
          split <;> exact h.rx
      · split
        · exact ⟨h.snd.step (.t3 s.now1000), h.rx⟩
        · exact h

theorem Link.Inv.run {s : Link} (h : s.Inv) (n : Nat) : (Link.run n s).Inv := by
  induction n generalizing s with
  | zero => exact h
  | succ n ih => exact ih h.step

end Aiortc.Sctp
