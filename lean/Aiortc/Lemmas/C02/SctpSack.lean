import Aiortc.Model.Sctp.Endpoint
/-!
# SACK generation (C02 (e)): the gap blocks of `_send_sack` describe exactly the misordered set
-/
namespace Aiortc.Sctp
open Aiortc.Gen

/-- the gap blocks `_send_sack` puts into the SACK (the `gaps` of `sendSack` in `Model/Sctp/Endpoint.lean`) -/
def sackGapBlocks (rx : Rx) : List (Nat × Nat) := sendSack.build rx none [] (sortByKey rx.last rx.mis)

/-- offset of a TSN from the cumulative TSN, as written into a gap block -/
def Rx.off (rx : Rx) (t : Int) : Nat := ((t - rx.last) % 4294967296).toNat

/-- an offset is described by the gap blocks -/
def Covered (gaps : List (Nat × Nat)) (k : Nat) : Prop := ∃ g ∈ gaps, g.1 ≤ k ∧ k ≤ g.2

def R32 (a : Int) : Prop := 0 ≤ a ∧ a < 4294967296

/-- number of gap blocks a list of offsets needs when the previous offset was `prev` -/
def newRuns : Option Nat → List Nat → Nat
  | _, [] => 0
  | prev, p :: ps => (if prev = some (p - 1) ∧ 0 < p then 0 else 1) + newRuns (some p) ps

theorem build_nil (rx : Rx) (g : Option Int) (acc : List (Nat × Nat)) : sendSack.build rx g acc [] = acc := by
  unfold sendSack.build; rfl

theorem build_cons (rx : Rx) (g : Option Int) (acc : List (Nat × Nat)) (t : Int) (ts : List Int) :
    sendSack.build rx g acc (t :: ts) =
      if rx.off t > 65535 then acc
      else if g = some t then
        sendSack.build rx (some (tsn_plus_one t))
          (match acc.reverse with
           | (a, _) :: r => r.reverse ++ [(a, rx.off t)]
           | [] => [(rx.off t, rx.off t)]) ts
      else if acc.length = SACK_MAX_ENTRIES then acc
      else sendSack.build rx (some (tsn_plus_one t)) (acc ++ [(rx.off t, rx.off t)]) ts := by
  conv => lhs; unfold sendSack.build
  rfl

theorem covered_append (a b : List (Nat × Nat)) (k : Nat) : Covered (a ++ b) k ↔ Covered a k ∨ Covered b k := by
  simp only [Covered, List.mem_append]
  constructor
  · rintro ⟨g, hg | hg, h⟩
    · exact Or.inl ⟨g, hg, h⟩
    · exact Or.inr ⟨g, hg, h⟩
  · rintro (⟨g, hg, h⟩ | ⟨g, hg, h⟩)
    · exact ⟨g, Or.inl hg, h⟩
    · exact ⟨g, Or.inr hg, h⟩

theorem covered_single (a b k : Nat) : Covered [(a, b)] k ↔ a ≤ k ∧ k ≤ b := by
  simp [Covered]

/-- state of the block builder: nothing yet, or a last block `(a, b)` that the TSN at offset `b + 1` would extend -/
def BuildSt (rx : Rx) (g : Option Int) (acc : List (Nat × Nat)) (prev : Option Nat) : Prop :=
  (acc = [] ∧ g = none ∧ prev = none)
  ∨ ∃ (r : List (Nat × Nat)) (a b : Nat), acc = r ++ [(a, b)] ∧ a ≤ b ∧ b ≤ 65535 ∧ g = some ((rx.last + (b : Int) + 1) % 4294967296) ∧ prev = some b

/-- offsets strictly increasing, starting above `prev` -/
def IncFrom (rx : Rx) : Option Nat → List Int → Prop
  | _, [] => True
  | prev, t :: ts => (∀ b, prev = some b → b < rx.off t) ∧ 1 ≤ rx.off t ∧ R32 t ∧ IncFrom rx (some (rx.off t)) ts

theorem off_eq (rx : Rx) (t : Int) (ht : R32 t) :
    t = (rx.last + (rx.off t : Int)) % 4294967296 := by
  unfold Rx.off; unfold R32 at *; omega

theorem build_cover (rx : Rx) : ∀ (ts : List Int) (g : Option Int) (acc : List (Nat × Nat))
    (prev : Option Nat), BuildSt rx g acc prev → IncFrom rx prev ts → (∀ t ∈ ts, rx.off t ≤ 65535) →
    acc.length + newRuns prev (ts.map rx.off) ≤ SACK_MAX_ENTRIES →
    ∀ k, Covered (sendSack.build rx g acc ts) k ↔ Covered acc k ∨ ∃ t ∈ ts, rx.off t = k := by
  intro ts
  induction ts with
  | nil => intro g acc prev _ _ _ _ k; simp [build_nil]
  | cons t ts ih =>
    intro g acc prev hst hinc hle hruns k
    obtain ⟨hprev, hpos, ht32, hinc'⟩ := hinc
    have hle_t := hle t (by simp)
    have hle' : ∀ x ∈ ts, rx.off x ≤ 65535 := fun x hx => hle x (by simp [hx])
    rw [build_cons]
    have h1 : ¬ rx.off t > 65535 := by omega
    simp only [h1, if_false]
    have hteq := off_eq rx t ht32
    simp only [List.map_cons, newRuns] at hruns
    rcases hst with ⟨hacc, hg, hp⟩ | ⟨r, a, b, hacc, hab, hb, hg, hp⟩
    · -- first block
      subst hacc hg hp
      simp only [reduceCtorEq, if_false, List.length_nil, List.nil_append]
      have hmax : ¬ (0 = SACK_MAX_ENTRIES) := by decide
      simp only [hmax, if_false]
      have := ih (some (tsn_plus_one t)) [(rx.off t, rx.off t)] (some (rx.off t))
        (Or.inr ⟨[], rx.off t, rx.off t, rfl, Nat.le_refl _, hle_t, by
          simp only [tsn_plus_one]; congr 1; unfold R32 at *; omega, rfl⟩)
        hinc' hle' (by simp at hruns ⊢; omega) k
      rw [this, covered_single]
      simp only [Covered, List.not_mem_nil, false_and, exists_false, false_or, List.mem_cons, exists_eq_or_imp]
      constructor
      · rintro (h | h)
        · left; omega
        · right; exact h
      · rintro (h | h)
        · left; omega
        · right; exact h
    · subst hacc hg hp
      have hbt := hprev b rfl
      by_cases hext : rx.off t = b + 1
      · -- extends the last block
        have hgt : (some ((rx.last + (b : Int) + 1) % 4294967296) : Option Int) = some t := by
          congr 1; rw [hteq, hext]; push_cast; omega
        simp only [hgt, if_true, List.reverse_append, List.reverse_cons, List.reverse_nil, List.nil_append,
          List.cons_append, List.reverse_reverse]
        have hr0 : (if some b = some (rx.off t - 1) ∧ 0 < rx.off t then 0 else 1) = 0 := by
          have : b = rx.off t - 1 := by omega
          simp [this]; omega
        have := ih (some (tsn_plus_one t)) (r ++ [(a, rx.off t)]) (some (rx.off t))
          (Or.inr ⟨r, a, rx.off t, rfl, by omega, hle_t, by
            simp only [tsn_plus_one]; congr 1; unfold R32 at *; omega, rfl⟩)
          hinc' hle' (by simp only [List.length_append, List.length_singleton] at hruns ⊢; omega) k
        rw [this, covered_append, covered_append, covered_single, covered_single]
        simp only [List.mem_cons, exists_eq_or_imp]
        constructor
        · rintro ((h | h) | h)
          · exact Or.inl (Or.inl h)
          · rcases Nat.lt_or_ge b k with h' | h'
            · right; left; omega
            · left; right; omega
          · right; right; exact h
        · rintro ((h | h) | h | h)
          · exact Or.inl (Or.inl h)
          · left; right; omega
          · left; right; omega
          · right; exact h
      · -- a new block
        have hgt : ¬ ((some ((rx.last + (b : Int) + 1) % 4294967296) : Option Int) = some t) := by
          intro h
          simp only [Option.some.injEq] at h
          apply hext
          rw [hteq] at h
          unfold R32 at *
          omega
        simp only [hgt, if_false]
        have hr1 : (if some b = some (rx.off t - 1) ∧ 0 < rx.off t then 0 else 1) = 1 := by
          have : ¬ (b = rx.off t - 1) := by omega
          simp [this]
        rw [hr1] at hruns
        have hlen : ¬ ((r ++ [(a, b)]).length = SACK_MAX_ENTRIES) := by omega
        simp only [hlen, if_false]
        have := ih (some (tsn_plus_one t)) (r ++ [(a, b)] ++ [(rx.off t, rx.off t)]) (some (rx.off t))
          (Or.inr ⟨r ++ [(a, b)], rx.off t, rx.off t, rfl, Nat.le_refl _, hle_t, by
            simp only [tsn_plus_one]; congr 1; unfold R32 at *; omega, rfl⟩)
          hinc' hle' (by simp only [List.length_append, List.length_singleton] at hruns ⊢; omega) k
        rw [this, covered_append (r ++ [(a, b)]), covered_single]
        simp only [List.mem_cons, exists_eq_or_imp]
        constructor
        · rintro ((h | h) | h)
          · exact Or.inl h
          · right; left; omega
          · right; right; exact h
        · rintro (h | h | h)
          · exact Or.inl (Or.inl h)
          · left; right; omega
          · right; exact h

/-! ## the sorted misordered set -/

theorem mem_insertByKey (b t x : Int) (l : List Int) : x ∈ insertByKey b t l ↔ x = t ∨ x ∈ l := by
  induction l with
  | nil => simp [insertByKey]
  | cons y ys ih =>
    unfold insertByKey
    split
    · simp
    · simp only [List.mem_cons, ih]
      constructor
      · rintro (h | h | h)
        · exact Or.inr (Or.inl h)
        · exact Or.inl h
        · exact Or.inr (Or.inr h)
      · rintro (h | h | h)
        · exact Or.inr (Or.inl h)
        · exact Or.inl h
        · exact Or.inr (Or.inr h)

theorem mem_sortByKey (b x : Int) (l : List Int) : x ∈ sortByKey b l ↔ x ∈ l := by
  induction l with
  | nil => simp [sortByKey]
  | cons y ys ih =>
    have : sortByKey b (y :: ys) = insertByKey b y (sortByKey b ys) := rfl
    rw [this, mem_insertByKey, ih]; simp

def KeySorted (b : Int) (l : List Int) : Prop := l.Pairwise (fun x y => serialKey b x < serialKey b y)

theorem insertByKey_sorted (b t : Int) (l : List Int) (hs : KeySorted b l)
    (hne : ∀ x ∈ l, serialKey b x ≠ serialKey b t) : KeySorted b (insertByKey b t l) := by
  induction l with
  | nil => simp [insertByKey, KeySorted]
  | cons y ys ih =>
    unfold insertByKey
    have hs' : KeySorted b ys := (List.pairwise_cons.mp hs).2
    have hy := (List.pairwise_cons.mp hs).1
    split
    · rename_i hlt
      refine List.pairwise_cons.mpr ⟨?_, hs⟩
      intro x hx
      simp only [List.mem_cons] at hx
      rcases hx with rfl | hx
      · exact hlt
      · exact Int.lt_trans hlt (hy x hx)
    · rename_i hlt
      refine List.pairwise_cons.mpr ⟨?_, ih hs' (fun x hx => hne x (by simp [hx]))⟩
      intro x hx
      rw [mem_insertByKey] at hx
      rcases hx with rfl | hx
      · have := hne y (by simp); omega
      · exact hy x hx

theorem sortByKey_sorted (b : Int) (l : List Int) (hd : l.Pairwise (fun x y => serialKey b x ≠ serialKey b y)) :
    KeySorted b (sortByKey b l) := by
  induction l with
  | nil => simp [sortByKey, KeySorted]
  | cons y ys ih =>
    have : sortByKey b (y :: ys) = insertByKey b y (sortByKey b ys) := rfl
    rw [this]
    have h1 := (List.pairwise_cons.mp hd).1
    refine insertByKey_sorted b y _ (ih (List.pairwise_cons.mp hd).2) ?_
    intro x hx
    rw [mem_sortByKey] at hx
    exact fun h => h1 x hx h.symm

theorem incFrom_of_sorted (rx : Rx) : ∀ (ts : List Int) (prev : Option Nat),
    (∀ t ∈ ts, R32 t ∧ 1 ≤ rx.off t) → (∀ b, prev = some b → ∀ t ∈ ts, b < rx.off t) →
    KeySorted rx.last ts → IncFrom rx prev ts := by
  intro ts
  induction ts with
  | nil => intro _ _ _ _; trivial
  | cons t ts ih =>
    intro prev h1 h2 h3
    have ht := h1 t (by simp)
    refine ⟨fun b hb => h2 b hb t (by simp), ht.2, ht.1, ?_⟩
    refine ih (some (rx.off t)) (fun x hx => h1 x (by simp [hx])) ?_ (List.pairwise_cons.mp h3).2
    intro b hb x hx
    cases hb
    have := (List.pairwise_cons.mp h3).1 x hx
    unfold Rx.off
    unfold serialKey at this
    omega

/-- **(e) The gap blocks of a SACK describe exactly the misordered set**: an offset lies in one of the blocks iff
it is the offset of a TSN in `_sack_misordered` — provided the offsets fit the 16-bit fields (≤ 65535) and no
more than `SACK_MAX_ENTRIES` (= 296) blocks are needed. -/
theorem sack_gaps_exact (rx : Rx) (hmis : ∀ t ∈ rx.mis, R32 t ∧ 1 ≤ rx.off t ∧ rx.off t ≤ 65535) (hnd : rx.mis.Nodup)
    (hruns : newRuns none ((sortByKey rx.last rx.mis).map rx.off) ≤ 296) :
    ∀ k, Covered (sackGapBlocks rx) k ↔ ∃ t ∈ rx.mis, rx.off t = k := by
  intro k
  have hdist : rx.mis.Pairwise (fun x y => serialKey rx.last x ≠ serialKey rx.last y) := by
    refine List.Pairwise.imp_of_mem ?_ hnd
    intro x y hx hy hne h
    apply hne
    have a := (hmis x hx).1; have b := (hmis y hy).1
    unfold serialKey at h; unfold R32 at a b
    omega
  have hsorted := sortByKey_sorted rx.last rx.mis hdist
  have hmem : ∀ t, t ∈ sortByKey rx.last rx.mis ↔ t ∈ rx.mis := fun t => mem_sortByKey rx.last t rx.mis
  have hinc := incFrom_of_sorted rx (sortByKey rx.last rx.mis) none
    (fun t ht => ⟨(hmis t ((hmem t).mp ht)).1, (hmis t ((hmem t).mp ht)).2.1⟩) (by intro b hb; cases hb) hsorted
  have hmax : SACK_MAX_ENTRIES = 296 := by decide
  have hr' : ([] : List (Nat × Nat)).length + newRuns none ((sortByKey rx.last rx.mis).map rx.off) ≤ SACK_MAX_ENTRIES := by
    rw [hmax]; simpa using hruns
  have := build_cover rx (sortByKey rx.last rx.mis) none [] none (Or.inl ⟨rfl, rfl, rfl⟩) hinc
    (fun t ht => (hmis t ((hmem t).mp ht)).2.2) hr' k
  unfold sackGapBlocks
  rw [this]
  simp only [Covered, List.not_mem_nil, false_and, exists_false, false_or]
  constructor
  · rintro ⟨t, ht, h⟩; exact ⟨t, (hmem t).mp ht, h⟩
  · rintro ⟨t, ht, h⟩; exact ⟨t, (hmem t).mpr ht, h⟩

theorem sack_max_entries_const : SACK_MAX_ENTRIES = 296 := by decide

/-! ## the sender's reading of the gap blocks -/

/-- `seen` of `_receive_sack_chunk`: a TSN is in it iff it is `cum + k` for an offset `k` of some block, clipped
to the highest outstanding TSN -/
theorem mem_gapSeen (cum : Int) (limit : Nat) (gaps : List (Nat × Nat)) (t : Int) :
    t ∈ (gapSeen cum limit gaps).1 ↔
      ∃ g ∈ gaps, ∃ k, g.1 ≤ k ∧ k ≤ min g.2 limit ∧ t = (cum + (k : Int)) % 4294967296 := by
  simp only [gapSeen, List.mem_flatMap, List.mem_map, List.mem_range]
  constructor
  · rintro ⟨g, hg, i, hi, rfl⟩
    exact ⟨g, hg, g.1 + i, by omega, by omega, rfl⟩
  · rintro ⟨g, hg, k, h1, h2, rfl⟩
    exact ⟨g, hg, k - g.1, by omega, by congr 3; omega⟩

end Aiortc.Sctp
