import Aiortc.Lemmas.C02.SctpTimer
/-!
# The sender as a transition system (C02): every reachable sender state satisfies the accounting and
timer invariants

`SOp` lists everything `Model/Sctp/Endpoint.lean` does to the sender fields (`Ep.tx`) while the association
is up, composed the way the endpoint composes it.
-/
namespace Aiortc.Sctp
open Aiortc.Gen

/-! ## `_transmit` cannot leave data queued with nothing outstanding -/

theorem rtxLoop_ret (cwnd : Nat) : ∀ (l : List SChunk) (st : RtxSt), (rtxLoop cwnd st l).1.ret = true →
    st.ret = true ∨ cwnd ≤ (rtxLoop cwnd st l).1.flight := by
  intro l
  induction l with
  | nil => intro st h; exact Or.inl (by simpa [rtxLoop] using h)
  | cons c cs ih =>
    intro st h
    rw [rtxLoop_cons] at h ⊢
    split at h
    · split at h
      · rename_i hr hc
        have hc' := hc
        simp only [Bool.and_eq_true, Bool.not_eq_true', decide_eq_true_eq] at hc'
        simp only [hr, hc, if_true]
        exact Or.inr hc'.2
      · rename_i hr hc
        simp only [hr, if_true, hc, Bool.false_eq_true, if_false]
        rcases ih _ h with h' | h'
        · exact Or.inl (by simpa [rtxSend] using h')
        · exact Or.inr h'
    · rename_i hr
      simp only [hr, Bool.false_eq_true, if_false]
      rcases ih _ h with h' | h'
      · exact Or.inl h'
      · exact Or.inr h'

theorem newLoop_exit (cwnd : Nat) : ∀ (fuel fl : Nat) (t3 : Bool) (outQ sent : List SChunk) (evs : List TxEv),
    outQ.length < fuel →
    (newLoop cwnd fuel fl t3 outQ sent evs).2.2.1 = [] ∨ cwnd ≤ (newLoop cwnd fuel fl t3 outQ sent evs).1 := by
  intro fuel
  induction fuel with
  | zero => intro fl t3 outQ sent evs h; omega
  | succ fuel ih =>
    intro fl t3 outQ sent evs h
    cases outQ with
    | nil => exact Or.inl (by simp [newLoop])
    | cons c outQ =>
      rw [newLoop_cons]
      split
      · exact ih _ _ _ _ _ (by simp at h; omega)
      · exact Or.inr (by simp only; omega)

/-- **No stall**: when `_transmit` returns with data still queued, something is outstanding (the window is
full of chunks that are really in flight), so by `transmit_arms` T3 is running. The pinned code violated this:
`_flight_size` could stay ≥ cwnd with an empty sent queue. -/
theorem transmit_no_stall (t : Tx) (hf : FlightInv t) (hc : 0 < t.cwnd) :
    t.transmit.1.outQ ≠ [] → t.transmit.1.sentQ ≠ [] := by
  have hf' := hf.transmit
  have hb := burstCwnd_pos t hc
  intro hne he
  have hfl0 : t.transmit.1.flight = 0 := by rw [hf'.flight, he]; rfl
  have : t.fwd.1.burstCwnd ≤ t.transmit.1.flight := by
    by_cases hret : (rtxLoop t.fwd.1.burstCwnd t.fwd.1.rtxInit t.fwd.1.sentQ).1.ret = true
    · have he' : t.transmit = (t.fwd.1.afterRtx,
          t.fwd.2 ++ (rtxLoop t.fwd.1.burstCwnd t.fwd.1.rtxInit t.fwd.1.sentQ).1.evs.reverse) := by
        rw [transmit_eq]; simp only [hret, if_true]
      rcases rtxLoop_ret _ _ _ hret with h | h
      · simp [Tx.rtxInit] at h
      · rw [he']; exact h
    · have hx := newLoop_exit t.fwd.1.burstCwnd (t.fwd.1.afterRtx.outQ.length + 1)
        t.fwd.1.afterRtx.flight t.fwd.1.afterRtx.t3 t.fwd.1.afterRtx.outQ t.fwd.1.afterRtx.sentQ
        (t.fwd.2 ++ (rtxLoop t.fwd.1.burstCwnd t.fwd.1.rtxInit t.fwd.1.sentQ).1.evs.reverse) (by omega)
      generalize hn : newLoop t.fwd.1.burstCwnd (t.fwd.1.afterRtx.outQ.length + 1)
        t.fwd.1.afterRtx.flight t.fwd.1.afterRtx.t3 t.fwd.1.afterRtx.outQ t.fwd.1.afterRtx.sentQ
        (t.fwd.2 ++ (rtxLoop t.fwd.1.burstCwnd t.fwd.1.rtxInit t.fwd.1.sentQ).1.evs.reverse) = n at hx
      have he' : t.transmit = ({ t.fwd.1.afterRtx with flight := n.1, t3 := n.2.1, outQ := n.2.2.1, sentQ := n.2.2.2.1 },
          n.2.2.2.2) := by
        rw [transmit_eq]; simp only [hret, Bool.false_eq_true, if_false, hn]
      rcases hx with h | h
      · exfalso; apply hne; rw [he']; exact h
      · rw [he']; exact h
  omega

/-! ## the sender transition system -/

structure SendArgs where
  sid : Nat
  ppid : Nat
  data : Bytes
  expiry : Option Int
  maxRtx : Option Int
  ordered : Bool

/-- `_send(...)`: fragment, queue, `_transmit()` -/
def Tx.sendMsg (t : Tx) (a : SendArgs) : Tx := (t.enqueue a.sid a.ppid a.data a.expiry a.maxRtx a.ordered).transmit.1

inductive SOp where
  /-- `_send` (from `_data_channel_flush`) -/
  | send (a : SendArgs)
  /-- a SACK arrives: `_receive_sack_chunk`, then `_data_channel_flush` (the `_send`s it makes), then `_transmit` -/
  | sack (cum : Int) (gaps : List (Nat × Nat)) (now : Int) (flushed : List SendArgs)
  /-- T3 fires: `_t3_expired`, which queues a `_transmit` task -/
  | t3 (now : Int)
  /-- a queued `_transmit` task runs -/
  | task
  /-- INIT / INIT-ACK: `self._ssthresh = chunk.advertised_rwnd` -/
  | ssthresh (n : Nat)
  /-- stream reset completed: `self._outbound_stream_seq.pop(stream_id)` -/
  | resetStream (sid : Nat)

structure Snd where
  tx : Tx
  /-- a `_transmit` task is queued (set by T3 expiry, cleared when one runs) -/
  pending : Bool := false
  /-- an exception escaped `_receive_sack_chunk` -/
  crashed : Bool := false

def Snd.step (s : Snd) : SOp → Snd
  | .send a => { s with tx := s.tx.sendMsg a }
  | .sack cum gaps now fl =>
    match s.tx.receiveSack cum gaps now with
    | .ok none => s
    | .ok (some (t', _)) => { s with tx := (fl.foldl Tx.sendMsg t').transmit.1 }
    | _ => { s with crashed := true }
  | .t3 now => { s with tx := s.tx.t3Expired now, pending := true }
  | .task => { s with tx := s.tx.transmit.1, pending := false }
  | .ssthresh n => { s with tx := { s.tx with ssthresh := n } }
  | .resetStream sid => { s with tx := { s.tx with streamSeq := dictDel s.tx.streamSeq sid } }

def Snd.run (s : Snd) (ops : List SOp) : Snd := ops.foldl Snd.step s

/-- a sender that has not sent anything yet -/
structure Tx.Initial (t : Tx) : Prop where
  sentQ : t.sentQ = []
  outQ : t.outQ = []
  flight : t.flight = 0
  fwd : t.forwardTsn = none
  cwnd : 0 < t.cwnd

/-- the invariant of the sender system -/
structure SndInv (s : Snd) : Prop where
  flight : FlightInv s.tx
  pre : PreTx s.tx
  armed : s.tx.sentQ ≠ [] → s.tx.t3 = true ∨ s.pending = true
  fwd : s.tx.forwardTsn.isSome = true → s.pending = true
  queued : s.tx.outQ ≠ [] → s.tx.sentQ ≠ [] ∨ s.pending = true
  ok : s.crashed = false

theorem enqueue_preTx {t : Tx} (h : PreTx t) (a : SendArgs) :
    PreTx (t.enqueue a.sid a.ppid a.data a.expiry a.maxRtx a.ordered) :=
  ⟨h.armed, h.head, h.cwnd⟩

/-- the facts that hold right after a `_transmit` -/
structure AfterTx (t : Tx) : Prop where
  flight : FlightInv t
  pre : PreTx t
  armed : t.sentQ ≠ [] → t.t3 = true
  fwd : t.forwardTsn = none
  queued : t.outQ ≠ [] → t.sentQ ≠ []

theorem afterTx_transmit {t : Tx} (hf : FlightInv t) (hp : PreTx t) : AfterTx t.transmit.1 := by
  obtain ⟨h1, h2, h3⟩ := transmit_arms t hp hf
  exact ⟨hf.transmit, h3, h1, h2, transmit_no_stall t hf hp.cwnd⟩

theorem afterTx_send {t : Tx} (hf : FlightInv t) (hp : PreTx t) (a : SendArgs) : AfterTx (t.sendMsg a) :=
  afterTx_transmit (hf.enqueue _ _ _ _ _ _) (enqueue_preTx hp a)

theorem afterTx_sends (l : List SendArgs) : ∀ {t : Tx}, FlightInv t → PreTx t →
    FlightInv (l.foldl Tx.sendMsg t) ∧ PreTx (l.foldl Tx.sendMsg t) := by
  induction l with
  | nil => intro t hf hp; exact ⟨hf, hp⟩
  | cons a l ih =>
    intro t hf hp
    have := afterTx_send hf hp a
    exact ih this.flight this.pre

theorem AfterTx.inv {s : Snd} (h : AfterTx s.tx) (hok : s.crashed = false) : SndInv s :=
  ⟨h.flight, h.pre, fun hne => Or.inl (h.armed hne), fun hs => (by rw [h.fwd] at hs; cases hs),
   fun hne => Or.inl (h.queued hne), hok⟩

theorem SndInv.step {s : Snd} (h : SndInv s) (op : SOp) : SndInv (s.step op) := by
  cases op with
  | send a => exact (afterTx_send h.flight h.pre a).inv h.ok
  | sack cum gaps now fl =>
    simp only [Snd.step]
    obtain ⟨r, hr⟩ := receiveSack_ok s.tx cum gaps now h.flight.outQ
    rw [hr]
    cases r with
    | none => exact h
    | some p =>
      obtain ⟨t', evs⟩ := p
      have hf' := h.flight.receiveSack cum gaps now t' evs hr
      have hp' := receiveSack_preTx s.tx h.pre h.flight cum gaps now t' evs hr
      obtain ⟨hf2, hp2⟩ := afterTx_sends fl hf' hp'
      exact (afterTx_transmit hf2 hp2).inv h.ok
  | t3 now =>
    obtain ⟨hp, _⟩ := t3Expired_preTx s.tx h.flight.winv now
    exact ⟨h.flight.t3Expired now, hp, fun _ => Or.inr rfl, fun _ => rfl, fun _ => Or.inr rfl, h.ok⟩
  | task => exact (afterTx_transmit h.flight h.pre).inv h.ok
  | ssthresh n =>
    exact ⟨⟨h.flight.flight, h.flight.outQ, h.flight.sentQ⟩, ⟨h.pre.armed, h.pre.head, h.pre.cwnd⟩,
      h.armed, h.fwd, h.queued, h.ok⟩
  | resetStream sid =>
    exact ⟨⟨h.flight.flight, h.flight.outQ, h.flight.sentQ⟩, ⟨h.pre.armed, h.pre.head, h.pre.cwnd⟩,
      h.armed, h.fwd, h.queued, h.ok⟩

theorem Tx.Initial.inv {t : Tx} (h : t.Initial) : SndInv { tx := t } :=
  ⟨⟨(by rw [h.flight, h.sentQ]; rfl), (by rw [h.outQ]; simp), (by rw [h.sentQ]; simp)⟩,
   ⟨fun hne => absurd h.sentQ hne, (by rw [h.sentQ]; simp), h.cwnd⟩,
   fun hne => absurd h.sentQ hne, fun hs => (by rw [h.fwd] at hs; cases hs), fun hne => absurd h.outQ hne, rfl⟩

theorem SndInv.run {s : Snd} (h : SndInv s) (ops : List SOp) : SndInv (s.run ops) := by
  induction ops generalizing s with
  | nil => exact h
  | cons op ops ih => exact ih (h.step op)

end Aiortc.Sctp
