import Aiortc.Lemmas.C02.SctpOps
/-!
# T3 is armed whenever something is outstanding; T3 expiry makes progress (C02 (b), (c))
-/
namespace Aiortc.Sctp
open Aiortc.Gen

/-! ## monotonicity of the timer flag and shape of the output of the two loops of `_transmit` -/

/-- retransmitted or left alone -/
def RtxRel (c d : SChunk) : Prop := d = c ∨ d = rtxChunk c

theorem RtxRel.refl (c : SChunk) : RtxRel c c := Or.inl rfl

theorem rtxLoop_shape (cwnd : Nat) : ∀ (l : List SChunk) (st : RtxSt),
    (∃ l'', (rtxLoop cwnd st l).1.done.reverse ++ (rtxLoop cwnd st l).2 = st.done.reverse ++ l'' ∧ PW RtxRel l l'')
    ∧ (st.t3 = true → (rtxLoop cwnd st l).1.t3 = true)
    ∧ (∃ more, (rtxLoop cwnd st l).1.evs = more ++ st.evs) := by
  intro l
  induction l with
  | nil => intro st; exact ⟨⟨[], by simp [rtxLoop], trivial⟩, by simp [rtxLoop], ⟨[], by simp [rtxLoop]⟩⟩
  | cons c cs ih =>
    intro st
    rw [rtxLoop_cons]
    split
    · split
      · exact ⟨⟨c :: cs, rfl, PW.refl RtxRel.refl _⟩, fun h => h, ⟨[], rfl⟩⟩
      · obtain ⟨⟨m, hm, hpw⟩, ht3, ⟨more, hmore⟩⟩ := ih (rtxSend st c)
        refine ⟨⟨rtxChunk c :: m, ?_, ⟨Or.inr rfl, hpw⟩⟩, ?_, ?_⟩
        · rw [hm]; simp [rtxSend]
        · intro h; exact ht3 (by simp [rtxSend, h])
        · rw [hmore]
          simp only [rtxSend]
          split
          · exact ⟨more ++ (t3Restart st.t3).reverse ++ [TxEv.data (rtxChunk c).toR], by simp⟩
          · exact ⟨more ++ [TxEv.data (rtxChunk c).toR], by simp⟩
    · obtain ⟨⟨m, hm, hpw⟩, ht3, hev⟩ := ih { st with earliest := false, done := c :: st.done }
      refine ⟨⟨c :: m, ?_, ⟨Or.inl rfl, hpw⟩⟩, ht3, hev⟩
      rw [hm]; simp

theorem newLoop_shape (cwnd : Nat) : ∀ (fuel fl : Nat) (t3 : Bool) (outQ sent : List SChunk) (evs : List TxEv),
    (∃ k, (newLoop cwnd fuel fl t3 outQ sent evs).2.2.2.1 = sent ++ (outQ.take k).map newChunk
        ∧ (newLoop cwnd fuel fl t3 outQ sent evs).2.2.1 = outQ.drop k
        ∧ ((newLoop cwnd fuel fl t3 outQ sent evs).2.1 = true ∨ (k = 0 ∧ (newLoop cwnd fuel fl t3 outQ sent evs).2.1 = t3)))
    ∧ (t3 = true → (newLoop cwnd fuel fl t3 outQ sent evs).2.1 = true)
    ∧ (∃ more, (newLoop cwnd fuel fl t3 outQ sent evs).2.2.2.2 = evs ++ more) := by
  intro fuel
  induction fuel with
  | zero => intro fl t3 outQ sent evs; exact ⟨⟨0, by simp [newLoop], rfl, Or.inr ⟨rfl, rfl⟩⟩, fun h => h, ⟨[], by simp [newLoop]⟩⟩
  | succ fuel ih =>
    intro fl t3 outQ sent evs
    cases outQ with
    | nil => exact ⟨⟨0, by simp [newLoop], rfl, Or.inr ⟨rfl, rfl⟩⟩, fun h => by simpa [newLoop] using h, ⟨[], by simp [newLoop]⟩⟩
    | cons c outQ =>
      rw [newLoop_cons]
      split
      · obtain ⟨⟨k, h1, h2, h3⟩, h4, ⟨more, h5⟩⟩ := ih (if c.inFlight then fl else fl + c.bookSize) true outQ
          (sent ++ [newChunk c]) (evs ++ [TxEv.data (newChunk c).toR] ++ (if t3 then [] else [TxEv.t3start]))
        refine ⟨⟨k + 1, by rw [h1]; simp, by rw [h2]; simp, Or.inl (h4 rfl)⟩, fun _ => h4 rfl,
          ⟨[TxEv.data (newChunk c).toR] ++ (if t3 then [] else [TxEv.t3start]) ++ more, by rw [h5]; simp⟩⟩
      · exact ⟨⟨0, by simp, rfl, Or.inr ⟨rfl, rfl⟩⟩, fun h => h, ⟨[], by simp⟩⟩

/-! ## the FORWARD TSN part -/

theorem fwd_fields (t : Tx) :
    t.fwd.1 = { t with forwardTsn := none, t3 := t.fwd.1.t3 }
    ∧ (t.t3 = true → t.fwd.1.t3 = true) ∧ (t.forwardTsn.isSome = true → t.fwd.1.t3 = true)
    ∧ (t.fwd.1.t3 = true → t.t3 = true ∨ t.forwardTsn.isSome = true) := by
  unfold Tx.fwd
  cases h : t.forwardTsn with
  | none => refine ⟨?_, by simp, by simp, by simp⟩; cases t; simp_all
  | some p => simp

/-! ## `_transmit` on a queue whose first chunk is marked for retransmission -/

/-- the timer flag after the retransmission loop -/
def Tx.rtxT3 (t : Tx) : Bool := (rtxLoop t.fwd.1.burstCwnd t.fwd.1.rtxInit t.fwd.1.sentQ).1.t3
/-- the events of the retransmission loop -/
def Tx.rtxEvs (t : Tx) : List TxEv := (rtxLoop t.fwd.1.burstCwnd t.fwd.1.rtxInit t.fwd.1.sentQ).1.evs.reverse

/-- the part of the state `_transmit` leaves alone -/
def Tx.ctl (t : Tx) : Tx :=
  { t with forwardTsn := none, flight := 0, t3 := false, fastRecoveryTransmit := false, sentQ := [], outQ := [] }

structure TransmitFacts (t : Tx) : Prop where
  frame : t.transmit.1.ctl = t.ctl
  fwdNone : t.transmit.1.forwardTsn = none
  shape : ∃ mid k, PW RtxRel t.sentQ mid ∧ t.transmit.1.sentQ = mid ++ (t.outQ.take k).map newChunk
      ∧ t.transmit.1.outQ = t.outQ.drop k ∧ (t.transmit.1.t3 = true ∨ (k = 0 ∧ t.transmit.1.t3 = t.rtxT3))
  mono : t.rtxT3 = true → t.transmit.1.t3 = true
  mono0 : t.t3 = true ∨ t.forwardTsn.isSome = true → t.rtxT3 = true
  evs : ∃ more, t.transmit.2 = t.fwd.2 ++ t.rtxEvs ++ more

theorem transmit_facts (t : Tx) : TransmitFacts t := by
  obtain ⟨hf1, hf2, hf3, hf4⟩ := fwd_fields t
  obtain ⟨⟨mid, hmid, hpw⟩, hmono, _⟩ := rtxLoop_shape t.fwd.1.burstCwnd t.fwd.1.sentQ t.fwd.1.rtxInit
  have hsq : t.fwd.1.sentQ = t.sentQ := by rw [hf1]
  have hoq : t.fwd.1.outQ = t.outQ := by rw [hf1]
  have hctl : t.fwd.1.ctl = t.ctl := by rw [hf1]; rfl
  have hfn : t.fwd.1.forwardTsn = none := by rw [hf1]
  simp only [Tx.rtxInit, List.reverse_nil, List.nil_append] at hmid
  rw [hsq] at hpw
  have hm0 : t.t3 = true ∨ t.forwardTsn.isSome = true → t.rtxT3 = true := by
    intro h
    apply hmono
    rcases h with h | h
    · exact hf2 h
    · exact hf3 h
  by_cases hret : (rtxLoop t.fwd.1.burstCwnd t.fwd.1.rtxInit t.fwd.1.sentQ).1.ret = true
  · have he : t.transmit = (t.fwd.1.afterRtx,
        t.fwd.2 ++ (rtxLoop t.fwd.1.burstCwnd t.fwd.1.rtxInit t.fwd.1.sentQ).1.evs.reverse) := by
      rw [transmit_eq]; simp only [hret, if_true]
    refine ⟨?_, ?_, ⟨mid, 0, hpw, ?_, ?_, Or.inr ⟨rfl, ?_⟩⟩, ?_, hm0, ⟨[], ?_⟩⟩
    · rw [he, ← hctl]; rfl
    · rw [he]; simpa [Tx.afterRtx] using hfn
    · rw [he]; simp only [Tx.afterRtx, Tx.rtxInit]; rw [hmid]; simp
    · rw [he]; simpa [Tx.afterRtx] using hoq
    · rw [he]; rfl
    · intro h; rw [he]; exact h
    · rw [he]; simp [Tx.rtxEvs]
  · obtain ⟨⟨k, h1, h2, h3⟩, h4, ⟨more, h5⟩⟩ := newLoop_shape t.fwd.1.burstCwnd (t.fwd.1.afterRtx.outQ.length + 1)
      t.fwd.1.afterRtx.flight t.fwd.1.afterRtx.t3 t.fwd.1.afterRtx.outQ t.fwd.1.afterRtx.sentQ
      (t.fwd.2 ++ (rtxLoop t.fwd.1.burstCwnd t.fwd.1.rtxInit t.fwd.1.sentQ).1.evs.reverse)
    generalize hn : newLoop t.fwd.1.burstCwnd (t.fwd.1.afterRtx.outQ.length + 1)
      t.fwd.1.afterRtx.flight t.fwd.1.afterRtx.t3 t.fwd.1.afterRtx.outQ t.fwd.1.afterRtx.sentQ
      (t.fwd.2 ++ (rtxLoop t.fwd.1.burstCwnd t.fwd.1.rtxInit t.fwd.1.sentQ).1.evs.reverse) = n at h1 h2 h3 h4 h5
    have he : t.transmit = ({ t.fwd.1.afterRtx with flight := n.1, t3 := n.2.1, outQ := n.2.2.1, sentQ := n.2.2.2.1 },
        n.2.2.2.2) := by
      rw [transmit_eq]; simp only [hret, Bool.false_eq_true, if_false, hn]
    have ha : t.fwd.1.afterRtx.sentQ = mid := by simp only [Tx.afterRtx, Tx.rtxInit]; rw [hmid]
    have hb : t.fwd.1.afterRtx.outQ = t.outQ := by simpa [Tx.afterRtx] using hoq
    have hc : t.fwd.1.afterRtx.t3 = t.rtxT3 := rfl
    rw [ha, hb] at h1
    rw [hb] at h2
    rw [hc] at h3 h4
    refine ⟨?_, ?_, ⟨mid, k, hpw, ?_, ?_, ?_⟩, ?_, hm0, ⟨more, ?_⟩⟩
    · rw [he, ← hctl]; rfl
    · rw [he]; simpa [Tx.afterRtx] using hfn
    · rw [he]; exact h1
    · rw [he]; exact h2
    · rw [he]; exact h3
    · rw [he]; exact h4
    · rw [he]; exact h5

/-- `_transmit` with the first outstanding chunk marked for retransmission and room in the window:
that chunk goes out first and T3 is (re)started. -/
theorem rtx_head (t : Tx) (c : SChunk) (cs : List SChunk) (hq : t.sentQ = c :: cs) (hr : c.retransmit = true)
    (hroom : t.fastRecoveryTransmit = true ∨ t.flight < t.fwd.1.burstCwnd) :
    t.rtxT3 = true ∧ ∃ more, t.rtxEvs = TxEv.data (rtxChunk c).toR :: t3Restart t.fwd.1.t3 ++ more := by
  obtain ⟨hf1, _, _, _⟩ := fwd_fields t
  have hsq : t.fwd.1.sentQ = c :: cs := by rw [hf1]; exact hq
  have hfl : t.fwd.1.flight = t.flight := by rw [hf1]
  have hfrt : t.fwd.1.fastRecoveryTransmit = t.fastRecoveryTransmit := by rw [hf1]
  unfold Tx.rtxT3 Tx.rtxEvs
  rw [hsq, rtxLoop_cons]
  simp only [hr, if_true]
  have hcond : (!t.fwd.1.rtxInit.frt && decide (t.fwd.1.rtxInit.flight ≥ t.fwd.1.burstCwnd)) = false := by
    simp only [Tx.rtxInit, hfl, hfrt]
    rcases hroom with h | h
    · simp [h]
    · simp; intro _; omega
  rw [hcond]
  simp only [Bool.false_eq_true, if_false]
  obtain ⟨_, ht3, ⟨more, hmore⟩⟩ := rtxLoop_shape t.fwd.1.burstCwnd cs (rtxSend t.fwd.1.rtxInit c)
  refine ⟨ht3 (by simp [rtxSend, Tx.rtxInit]), more.reverse, ?_⟩
  rw [hmore]
  simp [rtxSend, Tx.rtxInit]

/-- the state `_t3_expired` leaves until the next `_transmit`: nothing is counted in flight and every
outstanding chunk is abandoned or marked for retransmission -/
def PostT3 (t : Tx) : Prop := t.flight = 0 ∧ ∀ c ∈ t.sentQ, AbOrRtx c

/-- what `_transmit` needs in order to leave T3 armed -/
structure PreTx (t : Tx) : Prop where
  armed : t.sentQ ≠ [] → t.t3 = true ∨ PostT3 t
  head : ∀ c, t.sentQ.head? = some c → c.abandoned = false
  cwnd : 0 < t.cwnd

theorem burstCwnd_pos (t : Tx) (h : 0 < t.cwnd) : 0 < t.fwd.1.burstCwnd := by
  obtain ⟨hf1, _, _, _⟩ := fwd_fields t
  have : t.fwd.1.cwnd = t.cwnd := by rw [hf1]
  unfold Tx.burstCwnd
  rw [this]
  have : USERDATA_MAX = 1200 := rfl
  split <;> omega

/-- **After `_transmit`: T3 is armed if anything is outstanding, and no FORWARD TSN is waiting.** -/
theorem transmit_arms (t : Tx) (hp : PreTx t) (hf : FlightInv t) :
    (t.transmit.1.sentQ ≠ [] → t.transmit.1.t3 = true) ∧ t.transmit.1.forwardTsn = none ∧ PreTx t.transmit.1 := by
  have tf := transmit_facts t
  obtain ⟨mid, k, hpw, hsq, hoq, ht3⟩ := tf.shape
  have hcw : t.transmit.1.cwnd = t.cwnd := by
    have : t.transmit.1.ctl.cwnd = t.ctl.cwnd := by rw [tf.frame]
    exact this
  have harm : t.transmit.1.sentQ ≠ [] → t.transmit.1.t3 = true := by
    intro hne
    cases hq : t.sentQ with
    | nil =>
      rw [hq] at hpw
      cases mid with
      | cons _ _ => exact hpw.elim
      | nil =>
        rcases ht3 with h | ⟨hk, _⟩
        · exact h
        · exfalso; apply hne; rw [hsq, hk]; simp
    | cons c cs =>
      rcases hp.armed (by rw [hq]; simp) with h | h
      · exact tf.mono (tf.mono0 (Or.inl h))
      · have hna := hp.head c (by rw [hq]; rfl)
        have hr : c.retransmit = true := by
          rcases h.2 c (by rw [hq]; simp) with h' | h'
          · rw [hna] at h'; cases h'
          · exact h'
        have := burstCwnd_pos t hp.cwnd
        exact tf.mono (rtx_head t c cs hq hr (Or.inr (by rw [h.1]; exact this))).1
  refine ⟨harm, tf.fwdNone, ⟨fun h => Or.inl (harm h), ?_, by rw [hcw]; exact hp.cwnd⟩⟩
  intro d hd
  rw [hsq] at hd
  cases hq : t.sentQ with
  | nil =>
    rw [hq] at hpw
    cases mid with
    | cons _ _ => exact hpw.elim
    | nil =>
      simp only [List.nil_append] at hd
      cases hk : List.take k t.outQ with
      | nil => rw [hk] at hd; simp at hd
      | cons x xs =>
        rw [hk] at hd
        simp only [List.map_cons, List.head?_cons, Option.some.injEq] at hd
        subst hd
        have : x ∈ t.outQ := List.mem_of_mem_take (by rw [hk]; simp)
        exact (hf.outQ x this).2.2
  | cons c cs =>
    rw [hq] at hpw
    cases mid with
    | nil => exact hpw.elim
    | cons m ms =>
      simp only [List.cons_append, List.head?_cons, Option.some.injEq] at hd
      subst hd
      have hna := hp.head c (by rw [hq]; rfl)
      rcases hpw.1 with rfl | rfl
      · exact hna
      · exact hna

/-! ## what `_receive_sack_chunk` does to the facts the timer argument needs -/

theorem ackLoop_flight_le (cum : Int) : ∀ (l : List SChunk) (fl done db : Nat), (ackLoop cum fl done db l).1 ≤ fl := by
  intro l
  induction l with
  | nil => intro fl done db; exact Nat.le_refl _
  | cons c cs ih =>
    intro fl done db
    rw [ackLoop_cons]
    split
    · have := ih (fl - c.w) (done + 1) (if !c.acked then db + c.bookSize else db); omega
    · exact Nat.le_refl _

/-- chunk predicates that the whole of `_receive_sack_chunk` preserves -/
structure SackClosed (P : SChunk → Prop) : Prop extends StrikeClosed P where
  htna : ∀ c, P c → P { c with acked := true, inFlight := false }

theorem abOrRtx_sackClosed : SackClosed AbOrRtx := { abOrRtx_closed with htna := fun _ h => h }
theorem abOk_sackClosed : SackClosed AbOk :=
  { abOk_closed with htna := fun _ h ha => ⟨rfl, (h ha).2⟩ }

structure SackFacts (t t' : Tx) (cum : Int) (done : Nat) : Prop where
  lastSacked : t'.lastSacked = cum
  flight_le : t'.flight ≤ t.flight
  closed : ∀ P : SChunk → Prop, SackClosed P → (∀ c ∈ t.sentQ, P c) → ∀ c ∈ t'.sentQ, P c
  head : ∀ c, t'.sentQ.head? = some c → c.abandoned = false
  nonempty : t'.sentQ ≠ [] → t.sentQ ≠ []
  t3 : t'.sentQ ≠ [] → (0 < done → t'.t3 = true) ∧ (done = 0 → t'.t3 = t.t3)
  cwnd : 0 < t.cwnd → 0 < t'.cwnd
  outQ : ∀ c ∈ t'.outQ, c ∈ t.outQ

theorem sackGaps_facts (t : Tx) (cum : Int) (gaps : List (Nat × Nat)) (now : Int) (db : Nat) (hf : FlightInv t) :
    (t.sackGaps cum gaps now db).1.flight ≤ t.flight
    ∧ (∀ P : SChunk → Prop, SackClosed P → (∀ c ∈ t.sentQ, P c) → ∀ c ∈ (t.sackGaps cum gaps now db).1.sentQ, P c)
    ∧ ((t.sackGaps cum gaps now db).1.sentQ ≠ [] → t.sentQ ≠ [])
    ∧ (t.sackGaps cum gaps now db).1.t3 = t.t3 ∧ (t.sackGaps cum gaps now db).1.cwnd = t.cwnd
    ∧ (t.sackGaps cum gaps now db).1.fastRecoveryExit = t.fastRecoveryExit
    ∧ (t.sackGaps cum gaps now db).1.ssthresh = t.ssthresh
    ∧ (∀ c ∈ (t.sackGaps cum gaps now db).1.outQ, c ∈ t.outQ)
    ∧ (t.sackGaps cum gaps now db).1.lastSacked = t.lastSacked := by
  cases hg : gaps.isEmpty with
  | true => simp [Tx.sackGaps, hg]
  | false =>
    have hs := sackGaps_strike t cum gaps now db hf.outQ hg
    have hpw := sackHtna_pw t cum gaps db
    have hfl := sackHtna_flight_le t cum gaps db hf
    have hne : (t.sackGaps cum gaps now db).1.sentQ ≠ [] → t.sentQ ≠ [] := by
      intro hne he
      apply hne
      have hl := PW.length hpw
      rw [he] at hl
      have h0 : (t.sackHtna cum gaps db).sentQ = [] := List.length_eq_zero_iff.mp hl.symm
      -- with an empty queue the strike loop has no fuel
      simp only [Tx.sackGaps, hg, Bool.false_eq_true, if_false, h0, List.length_nil, strikeLoop]
    generalize (t.sackGaps cum gaps now db).1 = r at hs hne
    have hfr : r = { t.sackHtna cum gaps db with flight := r.flight, sentQ := r.sentQ, outQ := r.outQ } := hs.frame
    have h3 : r.t3 = t.t3 := by rw [hfr]; rfl
    have h4 : r.cwnd = t.cwnd := by rw [hfr]; rfl
    have h5 : r.fastRecoveryExit = t.fastRecoveryExit := by rw [hfr]; rfl
    have h6 : r.ssthresh = t.ssthresh := by rw [hfr]; rfl
    have ho : (t.sackHtna cum gaps db).outQ = t.outQ := rfl
    have h7 : r.lastSacked = t.lastSacked := by rw [hfr]; rfl
    refine ⟨Nat.le_trans hs.flight_le hfl, ?_, hne, h3, h4, h5, h6, fun c hc => hs.outQ c hc, h7⟩
    intro P hP h
    refine hs.closed P hP.toStrikeClosed (by rw [ho]; exact hf.outQ) ?_
    refine PW.forall ?_ hpw h
    intro c d hr hc
    rcases hr with rfl | rfl
    · exact hc
    · exact hP.htna c hc

theorem sackCwnd_cwnd_pos (t : Tx) (cum : Int) (done db : Nat) (fully loss : Bool) (t' : Tx)
    (h : t.sackCwnd cum done db fully loss = .ok t') (hc : 0 < t.cwnd) : 0 < t'.cwnd := by
  unfold Tx.sackCwnd at h
  split at h
  · generalize ht0 : (if (decide (done > 0) && fully) = true then
        if t.cwnd ≤ t.ssthresh then { t with cwnd := t.cwnd + min db USERDATA_MAX }
        else if t.partialBytesAcked + db ≥ t.cwnd then
          { t with partialBytesAcked := t.partialBytesAcked + db - t.cwnd, cwnd := t.cwnd + USERDATA_MAX }
        else { t with partialBytesAcked := t.partialBytesAcked + db }
      else t) = t0 at h
    have h0 : 0 < t0.cwnd := by
      rw [← ht0]; split
      · split
        · simp only; omega
        · split
          · simp only; omega
          · exact hc
      · exact hc
    simp only at h
    split at h
    · split at h
      · cases h
      · cases h
        have : USERDATA_MAX = 1200 := rfl
        simp only; omega
    · cases h; exact h0
  · split at h <;> (cases h; exact hc)

/-- **What one SACK does**, in the terms the timer and progress arguments use. -/
theorem receiveSack_facts (t : Tx) (hf : FlightInv t) (cum : Int) (gaps : List (Nat × Nat)) (now : Int)
    (t' : Tx) (evs : List TxEv) (hr : t.receiveSack cum gaps now = .ok (some (t', evs))) :
    SackFacts t t' cum (t.sackDone cum) := by
  rw [receiveSack_eq] at hr
  split at hr
  · cases hr
  · have hf1 := FlightInv.sackAck hf cum
    obtain ⟨g1, g2, g3, g4, g5, _, _, g8, g9⟩ := sackGaps_facts (t.sackAck cum) cum gaps now (t.sackDoneBytes cum) hf1
    generalize ((t.sackAck cum).sackGaps cum gaps now (t.sackDoneBytes cum)) = g at hr g1 g2 g3 g4 g5 g8 g9
    obtain ⟨_, ⟨k, hk, _⟩, _⟩ := ackLoop_spec cum t.sentQ t.flight 0 0
    have hafl : (t.sackAck cum).flight ≤ t.flight := ackLoop_flight_le cum t.sentQ t.flight 0 0
    have hasq : (t.sackAck cum).sentQ = t.sentQ.drop k := hk
    split at hr
    · rename_i t3 ht3
      have hfr := sackCwnd_frame _ _ _ _ _ _ _ ht3
      have hcw := sackCwnd_cwnd_pos _ _ _ _ _ _ _ ht3
      have hfr4 := sackT3_frame t3 (t.sackDone cum)
      have ha := updateAdvAck_spec (t3.sackT3 (t.sackDone cum)).1
      simp only [Outcome.ok.injEq, Option.some.injEq, Prod.mk.injEq] at hr
      rw [← hr.1]
      generalize (t3.sackT3 (t.sackDone cum)).1.updateAdvAck = t5 at ha
      obtain ⟨k5, hk5, _⟩ := ha.drop
      have e3sq : t3.sentQ = g.1.sentQ := by rw [hfr]
      have e3fl : t3.flight = g.1.flight := by rw [hfr]
      have e3t3 : t3.t3 = g.1.t3 := by rw [hfr]
      have e3oq : t3.outQ = g.1.outQ := by rw [hfr]
      have e3ls : t3.lastSacked = g.1.lastSacked := by rw [hfr]
      have e4sq : (t3.sackT3 (t.sackDone cum)).1.sentQ = t3.sentQ := by rw [hfr4]
      have e4fl : (t3.sackT3 (t.sackDone cum)).1.flight = t3.flight := by rw [hfr4]
      have e4cw : (t3.sackT3 (t.sackDone cum)).1.cwnd = t3.cwnd := by rw [hfr4]
      have e4oq : (t3.sackT3 (t.sackDone cum)).1.outQ = t3.outQ := by rw [hfr4]
      have e4ls : (t3.sackT3 (t.sackDone cum)).1.lastSacked = t3.lastSacked := by rw [hfr4]
      have e5fl : t5.flight = (t3.sackT3 (t.sackDone cum)).1.flight := by rw [ha.frame]
      have e5cw : t5.cwnd = (t3.sackT3 (t.sackDone cum)).1.cwnd := by rw [ha.frame]
      have e5t3 : t5.t3 = (t3.sackT3 (t.sackDone cum)).1.t3 := by rw [ha.frame]
      have e5oq : t5.outQ = (t3.sackT3 (t.sackDone cum)).1.outQ := by rw [ha.frame]
      have e5ls : t5.lastSacked = (t3.sackT3 (t.sackDone cum)).1.lastSacked := by rw [ha.frame]
      have hsub : ∀ c ∈ t5.sentQ, c ∈ g.1.sentQ := by
        intro c hc; rw [hk5, e4sq, e3sq] at hc; exact List.mem_of_mem_drop hc
      have hlsg : g.1.lastSacked = cum := by rw [g9]; rfl
      refine ⟨by rw [e5ls, e4ls, e3ls, hlsg], by omega, ?_, ha.head, ?_, ?_, ?_, ?_⟩
      · intro P hP h c hc
        refine g2 P hP ?_ c (hsub c hc)
        intro d hd; rw [hasq] at hd; exact h d (List.mem_of_mem_drop hd)
      · intro hne he
        have : g.1.sentQ ≠ [] := by
          intro h0
          apply hne
          rw [hk5, e4sq, e3sq, h0]; simp
        exact g3 this (by rw [hasq, he]; simp)
      · intro hne
        have hne3 : t3.sentQ ≠ [] := by
          intro h0; apply hne; rw [hk5, e4sq, h0]; simp
        have hemp : t3.sentQ.isEmpty = false := by
          cases h : t3.sentQ with
          | nil => exact absurd h hne3
          | cons _ _ => rfl
        rw [e5t3]
        constructor
        · intro hd
          simp only [Tx.sackT3, hemp, Bool.false_eq_true, if_false, hd, if_true]
        · intro hd
          have : ¬ (t.sackDone cum > 0) := by omega
          simp only [Tx.sackT3, hemp, Bool.false_eq_true, if_false, this]
          rw [e3t3, g4]; rfl
      · intro hc
        rw [e5cw, e4cw]
        apply hcw
        rw [g5]; exact hc
      · intro c hc
        rw [e5oq, e4oq, e3oq] at hc
        exact g8 c hc
    all_goals cases hr

theorem receiveSack_preTx (t : Tx) (hp : PreTx t) (hf : FlightInv t) (cum : Int) (gaps : List (Nat × Nat)) (now : Int)
    (t' : Tx) (evs : List TxEv) (hr : t.receiveSack cum gaps now = .ok (some (t', evs))) : PreTx t' := by
  have fa := receiveSack_facts t hf cum gaps now t' evs hr
  refine ⟨?_, fa.head, fa.cwnd hp.cwnd⟩
  intro hne
  obtain ⟨h1, h2⟩ := fa.t3 hne
  rcases Nat.eq_zero_or_pos (t.sackDone cum) with hd | hd
  · rw [h2 hd]
    rcases hp.armed (fa.nonempty hne) with h | h
    · exact Or.inl h
    · refine Or.inr ⟨?_, fa.closed AbOrRtx abOrRtx_sackClosed h.2⟩
      have := fa.flight_le; have := h.1; omega
  · exact Or.inl (h1 hd)

theorem t3Expired_preTx (t : Tx) (hw : WInv t) (now : Int) : PreTx (t.t3Expired now) ∧ PostT3 (t.t3Expired now) := by
  obtain ⟨hall, hhead⟩ := t3Expired_all t now hw
  have hfl : (t.t3Expired now).flight = 0 := by rw [t3Expired_eq]
  have hcw : (t.t3Expired now).cwnd = 1200 := by rw [t3Expired_eq]; rfl
  have hpost : PostT3 (t.t3Expired now) := ⟨hfl, fun c hc => (hall c hc).2⟩
  exact ⟨⟨fun _ => Or.inr hpost, hhead, by rw [hcw]; omega⟩, hpost⟩

/-- **(c) T3 expiry makes progress**: after `_t3_expired`, nothing is counted in flight and the window is one
MTU (`flight = 0 < cwnd = 1200`); the `_transmit` it queues sends the earliest outstanding chunk (which is
not abandoned) before anything else and re-arms T3. -/
theorem t3_then_transmit (t : Tx) (hw : WInv t) (now : Int) (c : SChunk) (cs : List SChunk)
    (hq : (t.t3Expired now).sentQ = c :: cs) :
    (t.t3Expired now).flight = 0 ∧ (t.t3Expired now).cwnd = 1200 ∧ (t.t3Expired now).t3 = false
    ∧ c.abandoned = false ∧ c.retransmit = true
    ∧ (t.t3Expired now).transmit.1.t3 = true
    ∧ ∃ more, (t.t3Expired now).transmit.2 =
        (t.t3Expired now).fwd.2 ++ TxEv.data (rtxChunk c).toR :: t3Restart (t.t3Expired now).fwd.1.t3 ++ more := by
  obtain ⟨hpre, hpost⟩ := t3Expired_preTx t hw now
  have hcw : (t.t3Expired now).cwnd = 1200 := by rw [t3Expired_eq]; rfl
  have ht3 : (t.t3Expired now).t3 = false := by
    rw [t3Expired_eq]
    have ha := (updateAdvAck_spec (t.t3Marked now)).frame
    have hm := (t3Marked_spec t now hw).frame
    simp only
    rw [ha]; simp only
    rw [hm]
  have hna := hpre.head c (by rw [hq]; rfl)
  have hr : c.retransmit = true := by
    rcases hpost.2 c (by rw [hq]; simp) with h | h
    · rw [hna] at h; cases h
    · exact h
  have hb := burstCwnd_pos (t.t3Expired now) hpre.cwnd
  obtain ⟨h1, more, h2⟩ := rtx_head (t.t3Expired now) c cs hq hr (Or.inr (by rw [hpost.1]; exact hb))
  have tf := transmit_facts (t.t3Expired now)
  obtain ⟨more2, h3⟩ := tf.evs
  refine ⟨hpost.1, hcw, ht3, hna, hr, tf.mono h1, more ++ more2, ?_⟩
  rw [h3, h2]; simp

/-- a pending FORWARD TSN goes out with the next `_transmit`, which arms T3 -/
theorem fwd_then_transmit (t : Tx) (cum : Int) (streams : List (Nat × Int)) (h : t.forwardTsn = some (cum, streams)) :
    t.transmit.1.t3 = true ∧ t.transmit.1.forwardTsn = none ∧ ∃ more, t.transmit.2 = TxEv.fwd cum streams :: more := by
  have tf := transmit_facts t
  obtain ⟨more, hm⟩ := tf.evs
  refine ⟨tf.mono (tf.mono0 (Or.inr (by rw [h]; rfl))), tf.fwdNone, ?_⟩
  rw [hm]
  simp only [Tx.fwd, h]
  exact ⟨_, rfl⟩

end Aiortc.Sctp
