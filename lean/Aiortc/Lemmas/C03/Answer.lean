import Aiortc.Lemmas.C03.Remote
set_option linter.unusedSimpArgs false
/-!
C03, round 2 — the answerer: `createAnswer` and `setLocalDescription(answer)` after a successful
`setRemoteDescription(offer)` never fail; the answer, section by section; the answerer is well-formed again.
-/
namespace Aiortc.Model.Negotiate
open Aiortc (Outcome)
open Aiortc.Model.Jsep (Sig)

/-- one section of the answer relative to the section of the offer it answers -/
def AnswersSec (pc : Pc) (m s : MSec) : Prop :=
  s.kind = m.kind ∧ s.mid = m.mid ∧ s.setup ≠ .auto ∧
  (m.kind.isMedia = true → ∃ t ∈ pc.transceivers, Negotiated .offer m t ∧ s.direction = andDir t.direction (revDir m.direction) ∧
    s.codecs = t.codecs ∧ s.exts = t.exts ∧ s.setup = answerRole (pc.roleOf t.transport)) ∧
  (m.kind.isMedia = false → ∃ s0, pc.sctp = some s0 ∧ s.setup = answerRole (pc.roleOf s0.transport))

theorem answerSecs_ok (pc : Pc) (hu : UniqueMid pc.transceivers) : ∀ (ms : List MSec),
    (∀ m ∈ ms, m.kind.isMedia = true → ∃ t ∈ pc.transceivers, Negotiated .offer m t) →
    (∀ m ∈ ms, m.kind.isMedia = false → pc.sctpMid = some m.mid) →
    ∃ r, answerSecs pc ms = .ok r ∧ Rel2 (AnswersSec pc) ms r := by
  intro ms
  induction ms with
  | nil => intro _ _; exact ⟨[], rfl, .nil⟩
  | cons m ms ih =>
    intro hown happ
    obtain ⟨r, hr, hrel⟩ := ih (fun m2 hm2 hk => hown m2 (by simp [hm2]) hk) (fun m2 hm2 hk => happ m2 (by simp [hm2]) hk)
    simp only [answerSecs]
    cases hk : m.kind.isMedia
    · simp only [Bool.false_eq_true, if_false]
      have := happ m (by simp) hk
      simp only [Pc.sctpMid] at this
      cases hs : pc.sctp with
      | none => simp [hs] at this
      | some s =>
        simp only [hs, Option.bind_some] at this
        simp only [this, hr]
        refine ⟨_, rfl, .cons ⟨?_, rfl, answerRole_definite _, (fun hf => by rw [hk] at hf; cases hf), fun _ => ⟨s, hs, rfl⟩⟩ hrel⟩
        simp [Pc.secForSctp, kind_not_media hk]
    · simp only [if_true]
      obtain ⟨t, ht, hN⟩ := hown m (by simp) hk
      obtain ⟨t1, ht1⟩ := find_some_of_mem (p := fun t : Transceiver => t.mid == some m.mid) ht (by simp [hN.mid])
      have ht1m : t1 ∈ pc.transceivers := List.mem_of_find?_eq_some ht1
      have ht1mid : t1.mid = some m.mid := by simpa using List.find?_some ht1
      have : t1 = t := hu.eq t1 ht1m t ht (by rw [ht1mid, hN.mid]) (by rw [ht1mid]; simp)
      subst this
      simp only [Pc.byMid, ht1, hN.off rfl, hN.mid, hr]
      refine ⟨_, rfl, .cons ⟨?_, rfl, answerRole_definite _, (fun _ => ⟨t1, ht, hN, rfl, rfl, rfl, rfl⟩), fun hf => by rw [hk] at hf; cases hf⟩ hrel⟩
      simp [Pc.secForTransceiver, hN.kind]

theorem rel2_keys {pc : Pc} {ms r : List MSec} (h : Rel2 (AnswersSec pc) ms r) : keysOfSecs r = keysOfSecs ms := by
  induction h with
  | nil => rfl
  | cons hh _ ih =>
    simp only [keysOfSecs, List.map_cons] at ih ⊢
    rw [ih, hh.1, hh.2.1]

theorem createAnswer_ok {pc : Pc} {d : Desc} (hs : pc.sig = .haveRemoteOffer) (hr : pc.remoteDesc = some d)
    (hu : UniqueMid pc.transceivers)
    (hown : ∀ m ∈ d.media, m.kind.isMedia = true → ∃ t ∈ pc.transceivers, Negotiated .offer m t)
    (happ : ∀ m ∈ d.media, m.kind.isMedia = false → pc.sctpMid = some m.mid) :
    ∃ ans, pc.createAnswer = .ok ans ∧ ans.type = .answer ∧ ans.bundle = ans.media.map (·.mid) ∧
      Rel2 (AnswersSec pc) d.media ans.media := by
  obtain ⟨r, h1, hrel⟩ := answerSecs_ok pc hu d.media hown happ
  unfold Pc.createAnswer
  simp only [hs, hr, h1]
  exact ⟨{ type := .answer, media := r, bundle := r.map (·.mid) }, by simp, rfl, rfl, hrel⟩

/-! ## setLocalDescription(answer) -/

theorem localRoles_frame : ∀ (ms : List MSec) (pc pc' : Pc) (i : Nat), localRoles pc ms i = .ok pc' →
    pc'.seenMids = pc.seenMids ∧ pc'.sctp = pc.sctp := by
  intro ms
  induction ms with
  | nil => intro pc pc' i h; simp [localRoles] at h; subst h; exact ⟨rfl, rfl⟩
  | cons m ms ih =>
    intro pc pc' i h
    simp only [localRoles] at h
    split at h
    · split at h
      · cases h
      · exact (ih _ pc' _ h).imp (fun a => a.trans rfl) (fun a => a.trans rfl)
    · split at h
      · cases h
      · exact (ih _ pc' _ h).imp (fun a => a.trans rfl) (fun a => a.trans rfl)

theorem localDirections_shape (ts : List Transceiver) : (localDirections ts).map shape = ts.map shape := by
  unfold localDirections
  rw [List.map_map]
  refine List.map_congr_left ?_
  intro t _
  simp only [Function.comp]
  split <;> rfl

theorem setLocal_answer_total {pc : Pc} {d : Desc} (ht : d.type = .answer) (hs : pc.sig = .haveRemoteOffer)
    (hv : pc.validate d true = .ok ())
    (hmed : ∀ (j : Nat) (m : MSec), d.media[j]? = some m → m.kind.isMedia = true → ∃ t ∈ pc.transceivers, t.mline = some (0 + j))
    (happ : ∀ m ∈ d.media, m.kind.isMedia = false → pc.sctp.isSome = true) :
    ∃ pc', pc.setLocal d = .ok pc' := by
  obtain ⟨pc2, h2⟩ := assignMids_ok d.media { pc with sig := .stable } 0 hmed happ
  obtain ⟨k1, k2⟩ := assignMids_keeps_lines _ _ _ _ h2
  have hmed2 : ∀ (j : Nat) (m : MSec), d.media[j]? = some m → m.kind.isMedia = true → ∃ t ∈ pc2.transceivers, t.mline = some (0 + j) := by
    intro j m hj hk
    obtain ⟨t, ht', hl⟩ := hmed j m hj hk
    obtain ⟨t', ht'', hl'⟩ := k1 t ht'
    exact ⟨t', ht'', hl'.trans hl⟩
  have happ2 : ∀ m ∈ d.media, m.kind.isMedia = false → pc2.sctp.isSome = true := fun m hm hk => k2 (happ m hm hk)
  obtain ⟨pc4, h4⟩ := localRoles_ok d.media pc2 0 hmed2 happ2
  have e4 := localRoles_transceivers _ _ _ _ h4
  obtain ⟨_, e4s⟩ := localRoles_frame _ _ _ _ h4
  obtain ⟨r, hr⟩ := refreshTransports_ok d.media { pc4 with transceivers := localDirections pc4.transceivers } 0
    (fun j m hj hk => by
      obtain ⟨t, ht', hl⟩ := hmed2 j m hj hk
      have hm : shape t ∈ (localDirections pc4.transceivers).map shape := by
        rw [localDirections_shape, e4]; exact List.mem_map_of_mem ht'
      obtain ⟨t', ht'', he⟩ := List.mem_map.mp hm
      simp only [shape, Prod.mk.injEq] at he
      exact ⟨t', ht'', by rw [he.2.2]; exact hl⟩)
    (fun m hm hk => by show pc4.sctp.isSome = true; rw [e4s]; exact happ2 m hm hk)
  unfold Pc.setLocal
  have b1 : (DType.answer == DType.offer) = false := rfl
  have b2 : (DType.answer == DType.answer) = true := rfl
  have b3 : (Sig.haveRemoteOffer == Sig.closed) = false := rfl
  simp only [hs, hv, ht, b1, b2, b3, if_true, Bool.false_eq_true, if_false]
  rw [h2]
  simp only
  rw [h4]
  simp only
  rw [hr]
  exact ⟨_, rfl⟩

/-- the pieces of a successful `setLocalDescription(answer)` -/
theorem setLocal_answer_parts {pc pc' : Pc} {d : Desc} (ht : d.type = .answer) (h : pc.setLocal d = .ok pc') :
    ∃ pc2, assignMids { pc with sig := .stable } d.media 0 = .ok pc2 ∧ pc'.seenMids = pc2.seenMids ∧ pc'.sctp = pc2.sctp := by
  unfold Pc.setLocal at h
  simp only [ht] at h
  split at h
  · cases h
  · split at h
    · split at h
      · rename_i pc2 h2
        simp at h
        split at h
        · rename_i pc4 h4
          obtain ⟨f1, f2⟩ := localRoles_frame _ _ _ _ h4
          split at h
          · cases h
            exact ⟨pc2, by simpa using h2, f1, f2⟩
          · cases h
          · cases h
          · cases h
        · rename_i e hne
          cases e <;> simp_all
      · rename_i e hne
        cases e <;> simp_all
    · cases h
    · cases h
    · cases h

/-! ## the answerer as a whole -/

/-- the preference lists a section of kind `k` can meet on this side -/
def InPrefs (ts : List Transceiver) (k : Kind) (p : List Cap) : Prop := p = [] ∨ ∃ t ∈ ts, t.kind = k ∧ t.preferred = p

theorem InPrefs.mono {ts ts' : List Transceiver} {k : Kind} {p : List Cap} (hs : PrefsSub ts' ts) (h : InPrefs ts' k p) : InPrefs ts k p := by
  rcases h with rfl | ⟨t', ht', hk, rfl⟩
  · exact .inl rfl
  · rcases hs t' ht' with he | ⟨t, ht, hk2, hp2⟩
    · exact .inl he
    · exact .inr ⟨t, ht, by rw [hk2, hk], hp2⟩

theorem Pre.mono {K rest : List (Kind × String)} {ts : List Transceiver} (h : Pre K ts) : Pre (K ++ rest) ts := by
  refine ⟨h.unique, h.order, ?_⟩
  intro t ht
  rcases h.lines t ht with h1 | ⟨j, x, hj, hx, hl⟩
  · exact .inl h1
  · exact .inr ⟨j, x, by rw [List.getElem?_append_left (List.getElem?_eq_some_iff.mp hj).1]; exact hj, hx, hl⟩

/-- one media section of the answer and the answerer's transceiver behind it -/
structure AnsweredSec (a a2 : Pc) (so sa : MSec) : Prop where
  key : sa.kind = so.kind ∧ sa.mid = so.mid
  tr : ∃ ta ∈ a2.transceivers, ta.mid = some so.mid ∧ ta.kind = so.kind ∧ InPrefs a.transceivers so.kind ta.preferred ∧
    filterPreferred (findCommon (codecsOf so.kind) so.codecs) ta.preferred = .ok sa.codecs ∧ sa.codecs ≠ [] ∧
    sa.exts = findCommonExt (extsOf so.kind) so.exts ∧ sa.direction = andDir ta.direction (revDir so.direction) ∧
    ta.currentDirection = some sa.direction

structure AnswerApplied (a a2 : Pc) (d ans : Desc) : Prop where
  wf : WF a2
  keys : a2.keys = keysOf d
  akeys : keysOf ans = keysOf d
  type : ans.type = .answer
  bundle : ans.bundle = ans.media.map (·.mid)
  setup : ∀ s ∈ ans.media, s.setup ≠ .auto
  loc : a2.localDesc = some ans
  prefs : PrefsSub a2.transceivers a.transceivers
  seen : ∀ x, x ∈ a2.seenMids ↔ x ∈ a.seenMids ∨ x ∈ d.media.map (·.mid)
  secs : ∀ (j : Nat) (so sa : MSec), d.media[j]? = some so → ans.media[j]? = some sa → so.kind.isMedia = true → AnsweredSec a a2 so sa

theorem answer_applied {a : Pc} {d : Desc} (ha : WF a) (hty : d.type = .offer) (hb : d.bundle = d.media.map (·.mid))
    (hnd : ((keysOf d).map (·.2)).Nodup) (hpref : ∃ rest, keysOf d = a.keys ++ rest)
    (hsame : ∀ m1 ∈ d.media, ∀ m2 ∈ d.media, m1.kind.isMedia = false → m2.kind.isMedia = false → m1.mid = m2.mid)
    (hacc : ∀ m ∈ d.media, m.kind.isMedia = true → Accepts a.transceivers m) :
    ∃ a1 ans0 a2 ans, a.setRemote d = .ok a1 ∧ a1.createAnswer = .ok ans0 ∧ a1.setLocal ans0 = .ok a2 ∧
      a2.localDesc = some ans ∧ AnswerApplied a a2 d ans := by
  obtain ⟨rest, hrest⟩ := hpref
  have hv : a.validate d false = .ok () := by
    unfold Pc.validate; simp [hty, ha.stable, stateAllows]
  have hP : Pre (keysOf d) a.transceivers := by rw [hrest]; exact ha.pre.mono
  have hfit : SctpFits a d.media := by
    refine ⟨hsame, ?_⟩
    intro m hm hk y hy
    have hin : (Kind.application, y) ∈ keysOf d := by rw [hrest]; simp [ha.sctpIn y hy]
    obtain ⟨mm, hmm, he⟩ := List.mem_map.mp hin
    simp only [Prod.mk.injEq] at he
    have := hsame m hm mm hmm hk (by rw [he.1]; rfl)
    rw [this, he.2]
  obtain ⟨a1, h1, R⟩ := setRemote_ok hv hb hnd hP hacc hfit (fun x hx => by rw [hrest]; simp [ha.sctpIn x hx])
  obtain ⟨r1, r2, r3⟩ := R.offer hty
  have hrd : a1.remoteDesc = some d := by simp [Pc.remoteDesc, r2]
  have hown : ∀ m ∈ d.media, m.kind.isMedia = true → ∃ t ∈ a1.transceivers, Negotiated .offer m t := by
    intro m hm hk
    obtain ⟨j, hj⟩ := List.getElem?_of_mem hm
    obtain ⟨t, ht, hN, _⟩ := R.owners j m hj hk
    rw [hty] at hN
    exact ⟨t, ht, hN⟩
  obtain ⟨ans0, h2, aty, ab, hrel⟩ := createAnswer_ok r1 hrd R.pre.unique hown R.sctpApp
  have hk0 : keysOf ans0 = keysOf d := rel2_keys hrel
  have hnoauto : ∀ s ∈ ans0.media, s.setup ≠ .auto := hrel.forall_right (fun _ _ hh => hh.2.2.1)
  have hv2 : a1.validate ans0 true = .ok () := by
    unfold Pc.validate
    have hany : ans0.media.any (fun m => m.setup == .auto) = false := by
      rw [List.any_eq_false]
      intro s hs; simpa using hnoauto s hs
    simp [aty, r1, stateAllows, hany, hrd, hk0]
  have hmed : ∀ (j : Nat) (s : MSec), ans0.media[j]? = some s → s.kind.isMedia = true → ∃ t ∈ a1.transceivers, t.mline = some (0 + j) := by
    intro j s hj hk
    obtain ⟨m, hm, hms⟩ := hrel.get_right j s hj
    obtain ⟨t, ht, _, hl⟩ := R.owners j m hm (by rw [← hms.1]; exact hk)
    exact ⟨t, ht, by simpa using hl⟩
  have happ : ∀ s ∈ ans0.media, s.kind.isMedia = false → a1.sctp.isSome = true := by
    intro s hs hk
    obtain ⟨m, hm, hms⟩ := hrel.mem_right s hs
    have := R.sctpApp m hm (by rw [← hms.1]; exact hk)
    simp only [Pc.sctpMid] at this
    cases hsc : a1.sctp with
    | none => simp [hsc] at this
    | some _ => rfl
  obtain ⟨a2, h3⟩ := setLocal_answer_total aty r1 hv2 hmed happ
  obtain ⟨_, media, href, q1, q2, q3, q4, q5⟩ := setLocal_answer_spec aty h3
  have hloc : a2.localDesc = some { ans0 with media } := by simp [Pc.localDesc, q4, q5]
  have hk1 : keysOf { ans0 with media } = keysOf d := (refresh_keys href).trans hk0
  have hlines : ∀ t ∈ a1.transceivers, ∀ j, t.mline = some j → ∃ m, ans0.media[j]? = some m ∧ t.mid = some m.mid := by
    intro t ht j hj
    rcases R.pre.lines t ht with ⟨_, h0⟩ | ⟨j', x, hj', hx, hl⟩
    · rw [h0] at hj; cases hj
    · rw [hl] at hj; cases hj
      rw [← hk0] at hj'
      obtain ⟨m, hm, he⟩ := keys_getElem_inv hj'
      simp only [Prod.mk.injEq] at he
      exact ⟨m, hm, by rw [hx, he.2]⟩
  have hts := setLocal_answer_transceivers aty h3 hlines
  obtain ⟨pc2, hasg, p1, p2⟩ := setLocal_answer_parts aty h3
  obtain ⟨i1, i2, i3⟩ := assignMids_frame _ _ _ _ hasg
  have hsm2 : a2.sctpMid = pc2.sctpMid := by simp [Pc.sctpMid, p2]
  have hsm1 : (({ a1 with sig := Sig.stable } : Pc)).sctpMid = a1.sctpMid := rfl
  have hshape : a2.transceivers.map shape = a1.transceivers.map shape := by rw [hts]; exact localDirections_shape _
  have hkeys2 : a2.keys = keysOf d := by simp only [Pc.keys, hloc, Option.map_some, Option.getD_some]; exact hk1
  have hrd2 : a2.remoteDesc = some d := by simp [Pc.remoteDesc, q1, r2]
  -- application sections of the answer have the mid of the offer's
  have happmid : ∀ s ∈ ans0.media, s.kind.isMedia = false → a1.sctpMid = some s.mid := by
    intro s hs hk
    obtain ⟨m, hm, hms⟩ := hrel.mem_right s hs
    rw [hms.2.1]; exact R.sctpApp m hm (by rw [← hms.1]; exact hk)
  have hsctp2 : a2.sctpMid = a1.sctpMid := by
    rw [hsm2]
    rcases i2 with e | ⟨s, hs, hk, e⟩
    · exact e
    · rw [e, happmid s hs hk]
  refine ⟨a1, ans0, a2, { ans0 with media }, h1, h2, h3, hloc, ?_⟩
  refine { wf := ?_, keys := hkeys2, akeys := hk1, type := aty, bundle := ?_, setup := ?_, loc := hloc, prefs := ?_, seen := ?_, secs := ?_ }
  · -- WF a2
    refine { stable := q3, rkeys := by rw [hrd2, hkeys2]; rfl, nodup := by rw [hkeys2]; exact hnd,
             pre := by rw [hkeys2]; exact R.pre.congr hshape, owned := ?_, sctpHas := ?_, sctpIn := ?_, seen := ?_, media := ?_ }
    · intro j k x hj hk
      rw [hkeys2] at hj
      obtain ⟨m, hm, he⟩ := keys_getElem_inv hj
      simp only [Prod.mk.injEq] at he
      obtain ⟨t, ht, hN, _⟩ := R.owners j m hm (by rw [← he.1]; exact hk)
      have hmem : shape t ∈ a2.transceivers.map shape := by rw [hshape]; exact List.mem_map_of_mem ht
      obtain ⟨t', ht', hs'⟩ := List.mem_map.mp hmem
      simp only [shape, Prod.mk.injEq] at hs'
      exact ⟨t', ht', by rw [hs'.2.1, hN.mid, he.2]⟩
    · intro x hx
      rw [hkeys2] at hx
      obtain ⟨m, hm, he⟩ := List.mem_map.mp hx
      simp only [Prod.mk.injEq] at he
      rw [hsctp2, ← he.2]
      exact R.sctpApp m hm (by rw [he.1]; rfl)
    · intro x hx
      rw [hkeys2]
      rw [hsctp2] at hx
      rcases R.sctpOld with e | ⟨m, hm, hk, e⟩
      · rw [e] at hx
        rw [hrest]; simp [ha.sctpIn x hx]
      · rw [e] at hx; cases hx
        have : (m.kind, m.mid) ∈ keysOf d := List.mem_map_of_mem hm
        rw [kind_not_media hk] at this; exact this
    · intro kx hkx
      rw [hkeys2] at hkx
      obtain ⟨m, hm, rfl⟩ := List.mem_map.mp hkx
      rw [p1, i1]
      left
      show m.mid ∈ a1.seenMids
      rw [R.seen]
      exact .inr (List.mem_map_of_mem hm)
    · intro t' ht'
      obtain ⟨t, ht, hk, _, _⟩ := mem_shape hshape ht'
      rw [← hk]; exact R.media ha.media t ht
  · show ans0.bundle = media.map (·.mid)
    rw [ab, refresh_mids href]
  · intro s' hs'
    obtain ⟨s, hs, he⟩ := refresh_setup href s' hs'
    rw [he]; exact hnoauto s hs
  · intro t' ht'
    rw [hts] at ht'
    simp only [localDirections, List.mem_map] at ht'
    obtain ⟨t, ht, rfl⟩ := ht'
    have := R.prefs t ht
    split <;> exact this
  · intro x
    rw [p1, i1]
    show x ∈ a1.seenMids ∨ _ ↔ _
    rw [R.seen]
    have hm : ans0.media.map (·.mid) = d.media.map (·.mid) := by
      have := congrArg (List.map Prod.snd) hk0
      simpa [keysOf, List.map_map, Function.comp_def] using this
    rw [hm]
    constructor
    · rintro ((h | h) | h)
      · exact .inl h
      · exact .inr h
      · exact .inr h
    · rintro (h | h)
      · exact .inl (.inl h)
      · exact .inr h
  · intro j so sa hso hsa hk
    have hsa' : media[j]? = some sa := hsa
    obtain ⟨s0, hs0, hs0sa⟩ := href.get_right j sa hsa'
    have hA := hrel.get j so s0 hso hs0
    obtain ⟨t, ht, hN, hdir, hcod, hext, _⟩ := hA.2.2.2.1 hk
    refine ⟨⟨by rw [hs0sa]; exact hA.1, by rw [hs0sa]; exact hA.2.1⟩, ?_⟩
    refine ⟨{ t with currentDirection := some (andDir t.direction (revDir so.direction)) }, ?_, hN.mid, hN.kind, ?_, ?_, ?_, ?_, ?_, ?_⟩
    · rw [hts]; exact localDirections_mem ht (hN.off rfl)
    · exact InPrefs.mono R.prefs (.inr ⟨t, ht, hN.kind, rfl⟩)
    · rw [hs0sa]; simp only; rw [hcod]; exact hN.codecs
    · rw [hs0sa]; simp only; rw [hcod]; exact hN.nonempty
    · rw [hs0sa]; simp only; rw [hext]; exact hN.exts
    · rw [hs0sa]; exact hdir
    · rw [hs0sa]; simp only; rw [hdir]

end Aiortc.Model.Negotiate
