import Aiortc.Lemmas.C03.Exchange
/-!
C03, round 2 — sufficient, checkable conditions for `Compatible`: a family of preference lists (per kind) any three
of which leave a codec through offer → answer → what the offerer stores.
-/
namespace Aiortc.Model.Negotiate
open Aiortc (Outcome)

/-- the result is `ok` of a non-empty list -/
def okOut (r : Outcome (List Codec)) : Bool :=
  match r with
  | .ok (_ :: _) => true
  | _ => false

theorem okOut_iff {r : Outcome (List Codec)} : okOut r = true ↔ ∃ c cs, r = .ok (c :: cs) := by
  unfold okOut
  split
  · rename_i c cs; exact ⟨fun _ => ⟨c, cs, rfl⟩, fun _ => rfl⟩
  · rename_i h
    constructor
    · intro hh; cases hh
    · rintro ⟨c, cs, rfl⟩; exact absurd rfl (h c cs)

/-- one offer / answer / offerer round of preference lists on kind `k` -/
def roundOk (k : Kind) (po pa p : List Cap) : Bool :=
  okOut (filterPreferred (findCommon (codecsOf k) (offered k po)) pa) &&
  okOut (filterPreferred (findCommon (codecsOf k) (answered k po pa)) p)

/-- **The `Compatible` hypothesis in checkable form**: `P k` is a family of preference lists for transceivers of kind
`k` (containing the empty list = "no preference") such that any offerer list / answerer list / offerer list of the
same kind leaves at least one codec in the answer and in what the offerer keeps. -/
structure PrefsOk (P : Kind → List Cap → Prop) : Prop where
  nil : ∀ k, P k []
  round : ∀ k, k.isMedia = true → ∀ po pa p, P k po → P k pa → P k p → roundOk k po pa p = true

/-- every transceiver's preference list belongs to the family -/
def PrefsIn (P : Kind → List Cap → Prop) (pc : Pc) : Prop := ∀ t ∈ pc.transceivers, P t.kind t.preferred

theorem compatible_of_prefsOk {P : Kind → List Cap → Prop} (hP : PrefsOk P) {o a : Pc} (ho : PrefsIn P o) (ha : PrefsIn P a) :
    Compatible o a := by
  have key : ∀ {x y : Pc}, PrefsIn P x → PrefsIn P y → CompatDir x.transceivers y.transceivers := by
    intro x y hx hy k hk po pa hpo hpa
    have inP : ∀ {z : Pc}, PrefsIn P z → ∀ q, InPrefs z.transceivers k q → P k q := by
      intro z hz q hq
      rcases hq with rfl | ⟨t, ht, htk, rfl⟩
      · exact hP.nil k
      · rw [← htk]; exact hz t ht
    refine ⟨?_, fun p hp => ?_⟩
    · have := hP.round k hk po pa [] (inP hx po hpo) (inP hy pa hpa) (hP.nil k)
      simp only [roundOk, Bool.and_eq_true] at this
      exact okOut_iff.mp this.1
    · have := hP.round k hk po pa p (inP hx po hpo) (inP hy pa hpa) (inP hx p hp)
      simp only [roundOk, Bool.and_eq_true] at this
      exact okOut_iff.mp this.2
  exact ⟨key ho ha, key ha ho⟩

/-- a finite family given as lists, checked by evaluation -/
def checkPrefs (L : Kind → List (List Cap)) : Bool :=
  [Kind.audio, Kind.video].all fun k => (L k).all fun po => (L k).all fun pa => (L k).all fun p => roundOk k po pa p

theorem prefsOk_of_check {L : Kind → List (List Cap)} (hnil : ∀ k, [] ∈ L k) (h : checkPrefs L = true) :
    PrefsOk (fun k p => p ∈ L k) := by
  refine ⟨hnil, ?_⟩
  intro k hk po pa p hpo hpa hp
  simp only [checkPrefs, List.all_eq_true] at h
  have hk' : k ∈ [Kind.audio, Kind.video] := by cases k <;> simp_all [Kind.isMedia]
  exact h k hk' po hpo pa hpa p hp

/-- "no codec preferences anywhere" is compatible -/
theorem prefsOk_none : PrefsOk (fun _ p => p = []) := by
  have := prefsOk_of_check (L := fun _ => [[]]) (fun _ => by simp) (by decide +kernel)
  refine ⟨fun _ => rfl, ?_⟩
  intro k hk po pa p hpo hpa hp
  exact this.round k hk po pa p (by simp [hpo]) (by simp [hpa]) (by simp [hp])

/-- a richer family: no preference, or (video) VP8 with/without RTX, H264 first then VP8, the reverse with RTX; (audio) opus
only, PCMU+opus, all four in another order — any of them on either side, in any exchange -/
def sampleFamily (k : Kind) : List (List Cap) :=
  match k with
  | .video => [[], [(capsOf .video)[0]!], [(capsOf .video)[0]!, (capsOf .video)[1]!], [(capsOf .video)[2]!, (capsOf .video)[0]!],
               [(capsOf .video)[1]!, (capsOf .video)[0]!, (capsOf .video)[3]!, (capsOf .video)[2]!]]
  | .audio => [[], [(capsOf .audio)[0]!], [(capsOf .audio)[2]!, (capsOf .audio)[0]!],
               [(capsOf .audio)[3]!, (capsOf .audio)[2]!, (capsOf .audio)[1]!, (capsOf .audio)[0]!]]
  | .application => [[]]

theorem prefsOk_sample : PrefsOk (fun k p => p ∈ sampleFamily k) :=
  prefsOk_of_check (fun k => by cases k <;> simp [sampleFamily]) (by decide +kernel)

end Aiortc.Model.Negotiate
