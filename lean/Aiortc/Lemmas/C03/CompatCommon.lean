import Aiortc.Lemmas.C03.Compat
set_option linter.unusedSimpArgs false
/-!
C03, round 2 — "at least one real codec in common": if every preference list is empty or contains one fixed real
capability of its kind, the family is compatible (`PrefsOk`).
-/
namespace Aiortc.Model.Negotiate
open Aiortc (Outcome)

/-! ## general facts about the two selection functions -/

theorem filterGo_mem (codecs rtxs : List Codec) (en : Bool) : ∀ (prefs : List Cap) (out : List Codec) (p : Cap) (c : Codec),
    p ∈ prefs → pickCodec codecs p = some c → filterGo codecs rtxs en prefs = .ok out → c ∈ out := by
  intro prefs
  induction prefs with
  | nil => intro out p c hp; cases hp
  | cons q qs ih =>
    intro out p c hp hpick h
    simp only [filterGo] at h
    rcases List.mem_cons.mp hp with rfl | hp'
    · rw [hpick] at h
      simp only at h
      split at h
      · split at h
        · split at h
          · cases h; simp
          · rename_i e hne; cases e <;> simp_all
        · cases h
        · cases h
        · cases h
      · split at h
        · cases h; simp
        · rename_i e hne; cases e <;> simp_all
    · split at h
      · exact ih out p c hp' hpick h
      · split at h
        · split at h
          · split at h
            · rename_i rest hrest
              cases h
              have := ih rest p c hp' hpick hrest
              simp [this]
            · rename_i e hne; cases e <;> simp_all
          · cases h
          · cases h
          · cases h
        · split at h
          · rename_i rest hrest
            cases h
            have := ih rest p c hp' hpick hrest
            simp [this]
          · rename_i e hne; cases e <;> simp_all

/-- a preferred real capability that matches a codec of the list keeps that codec -/
theorem filterPreferred_mem {codecs : List Codec} {prefs : List Cap} {out : List Codec} {p : Cap} {c : Codec}
    (h : filterPreferred codecs prefs = .ok out) (hp : p ∈ prefs) (hr : p.isRtx = false) (hpick : pickCodec codecs p = some c) : c ∈ out := by
  unfold filterPreferred at h
  split at h
  · rename_i he
    simp at he; subst he; cases hp
  · exact filterGo_mem _ _ _ _ out p c (List.mem_filter.mpr ⟨hp, by simp [hr]⟩) hpick h

theorem findCommonGo_mem (loc : List Codec) : ∀ (remote : List Codec) (base : List (Nat × Codec)) (r l : Codec),
    r ∈ remote → r.isRtx = false → loc.find? (fun x => isCodecCompatible x r) = some l → adapt l r ∈ findCommonGo loc remote base := by
  intro remote
  induction remote with
  | nil => intro base r l hr; cases hr
  | cons c cs ih =>
    intro base r l hr hnr hf
    rcases List.mem_cons.mp hr with rfl | hr'
    · unfold findCommonGo
      simp only [hnr, Bool.false_eq_true, if_false, hf]
      simp
    · unfold findCommonGo
      split
      · split
        · split
          · split
            · simp [ih base r l hr' hnr hf]
            · exact ih base r l hr' hnr hf
          · exact ih base r l hr' hnr hf
        · exact ih base r l hr' hnr hf
      · split
        · simp [ih _ r l hr' hnr hf]
        · exact ih base r l hr' hnr hf

theorem findCommon_mem {loc remote : List Codec} {r l : Codec} (hr : r ∈ remote) (hnr : r.isRtx = false)
    (hf : loc.find? (fun x => isCodecCompatible x r) = some l) : adapt l r ∈ findCommon loc remote :=
  findCommonGo_mem loc remote [] r l hr hnr hf

/-! ## aiortc's tables: real codecs are pairwise incompatible and determined by (mime type, parameters) -/

structure TableOk (T : List Codec) : Prop where
  compat : ∀ l ∈ T, ∀ r ∈ T, r.isRtx = false → isCodecCompatible l r = true → l = r
  refl : ∀ r ∈ T, r.isRtx = false → isCodecCompatible r r = true
  adaptSelf : ∀ c ∈ T, adapt c c = c
  byCap : ∀ x ∈ T, ∀ y ∈ T, x.mime.toLower = y.mime.toLower → x.params = y.params → x = y

theorem tableOk (k : Kind) : TableOk (codecsOf k) := by
  cases k
  · exact ⟨by decide +kernel, by decide +kernel, by decide +kernel, by decide +kernel⟩
  · exact ⟨by decide +kernel, by decide +kernel, by decide +kernel, by decide +kernel⟩
  · exact ⟨by simp [codecsOf], by simp [codecsOf], by simp [codecsOf], by simp [codecsOf]⟩

/-- lists that stay inside the table and keep the common codec -/
def Keeps (T : List Codec) (c0 : Codec) (X : List Codec) : Prop := (∀ x ∈ X, x ∈ T) ∧ c0 ∈ X

theorem keeps_findCommon {T : List Codec} (hT : TableOk T) {c0 : Codec} (h0 : c0 ∈ T) (hr0 : c0.isRtx = false) {X : List Codec}
    (hX : Keeps T c0 X) : Keeps T c0 (findCommon T X) := by
  refine ⟨?_, ?_⟩
  · intro x hx
    cases findCommon_selected T X x hx with
    | base l r hl hr hnr hc =>
      have : l = r := hT.compat l hl r (hX.1 r hr) hnr hc
      subst this
      rw [hT.adaptSelf l hl]; exact hl
    | rtx r hr _ => exact hX.1 x hr
  · have hfind : ∃ l, T.find? (fun x => isCodecCompatible x c0) = some l := find_some_of_mem h0 (hT.refl c0 h0 hr0)
    obtain ⟨l, hl⟩ := hfind
    have hlm : l ∈ T := List.mem_of_find?_eq_some hl
    have hlc : isCodecCompatible l c0 = true := by simpa using List.find?_some hl
    have : l = c0 := hT.compat l hlm c0 h0 hr0 hlc
    subst this
    have := findCommon_mem hX.2 hr0 hl
    rw [hT.adaptSelf l h0] at this
    exact this

theorem keeps_filterPreferred {T : List Codec} (hT : TableOk T) {c0 : Codec} {cap0 : Cap} (hr0 : cap0.isRtx = false)
    (hmatch : c0.mime.toLower = cap0.mime.toLower ∧ c0.params = cap0.params) {X out : List Codec} {q : List Cap}
    (hX : Keeps T c0 X) (hq : q = [] ∨ cap0 ∈ q) (h : filterPreferred X q = .ok out) : Keeps T c0 out := by
  obtain ⟨hsub, _⟩ := filterPreferred_spec h
  refine ⟨fun x hx => hX.1 x (hsub x hx), ?_⟩
  rcases hq with rfl | hq
  · simp [filterPreferred] at h; subst h; exact hX.2
  · -- the first codec of X matching the capability is c0 itself
    have hex : ∃ y, pickCodec X cap0 = some y := by
      unfold pickCodec
      exact find_some_of_mem hX.2 (by simp [hmatch.1, hmatch.2])
    obtain ⟨y, hy⟩ := hex
    obtain ⟨hym, hy1, hy2⟩ := pickCodec_spec hy
    have : y = c0 := hT.byCap y (hX.1 y hym) c0 (hX.1 c0 hX.2) (by rw [hy1, hmatch.1]) (by rw [hy2, hmatch.2])
    subst this
    exact filterPreferred_mem h hq hr0 hy

/-- **At least one real codec in common.**  Fix for every media kind a real capability `cap k` of aiortc's tables.
The family "no preference, or a list containing `cap k`" is compatible: whatever lists of the family meet on a section
of kind `k`, offer, answer and what the offerer keeps all contain that codec. -/
theorem prefsOk_common (cap : Kind → Cap)
    (hcap : ∀ k, k.isMedia = true → (cap k).isRtx = false ∧ ∃ c0 ∈ codecsOf k, c0.isRtx = false ∧
      c0.mime.toLower = (cap k).mime.toLower ∧ c0.params = (cap k).params) :
    PrefsOk (fun k p => p = [] ∨ cap k ∈ p) := by
  refine ⟨fun _ => .inl rfl, ?_⟩
  intro k hk po pa p hpo hpa hp
  obtain ⟨hr0, c0, h0, hcr, hm1, hm2⟩ := hcap k hk
  have hT := tableOk k
  have hbase : Keeps (codecsOf k) c0 (codecsOf k) := ⟨fun x hx => hx, h0⟩
  -- offered
  have hoff : Keeps (codecsOf k) c0 (offered k po) := keeps_filterPreferred hT hr0 ⟨hm1, hm2⟩ hbase hpo (offered_eq k po)
  -- answered
  obtain ⟨ans, hans⟩ := filterPreferred_ok (findCommon_rtxHaveApt (codecsOf k) (offered k po)) pa
  have hk2 : Keeps (codecsOf k) c0 ans := keeps_filterPreferred hT hr0 ⟨hm1, hm2⟩ (keeps_findCommon hT h0 hcr hoff) hpa hans
  have hansw : answered k po pa = ans := offered_codecs k po pa hans
  -- what the offerer keeps
  obtain ⟨fin, hfin⟩ := filterPreferred_ok (findCommon_rtxHaveApt (codecsOf k) ans) p
  have hk3 : Keeps (codecsOf k) c0 fin := keeps_filterPreferred hT hr0 ⟨hm1, hm2⟩ (keeps_findCommon hT h0 hcr hk2) hp hfin
  have ne : ∀ {X : List Codec}, Keeps (codecsOf k) c0 X → ∃ c cs, X = c :: cs := by
    intro X hX
    cases X with
    | nil => exact absurd hX.2 (by simp)
    | cons c cs => exact ⟨c, cs, rfl⟩
  simp only [roundOk, Bool.and_eq_true]
  refine ⟨okOut_iff.mpr ?_, okOut_iff.mpr ?_⟩
  · obtain ⟨c, cs, he⟩ := ne hk2
    exact ⟨c, cs, by rw [hans, he]⟩
  · obtain ⟨c, cs, he⟩ := ne hk3
    exact ⟨c, cs, by rw [hansw, hfin, he]⟩

/-- instance: every transceiver prefers (among others, in any order, with or without RTX) Opus resp. VP8, or has no
preference at all -/
theorem prefsOk_opus_vp8 : PrefsOk (fun k p => p = [] ∨ (match k with
    | .audio => (capsOf .audio)[0]! | _ => (capsOf .video)[0]!) ∈ p) := by
  refine prefsOk_common _ ?_
  intro k hk
  cases k
  · exact ⟨by decide +kernel, (codecsOf .audio)[0]!, by decide +kernel, by decide +kernel, by decide +kernel, by decide +kernel⟩
  · exact ⟨by decide +kernel, (codecsOf .video)[0]!, by decide +kernel, by decide +kernel, by decide +kernel, by decide +kernel⟩
  · simp [Kind.isMedia] at hk

end Aiortc.Model.Negotiate
