import Aiortc.Lemmas.C03.Answer
set_option linter.unusedSimpArgs false
/-!
C03, round 2 — a complete exchange between two well-formed connections with the same sections and compatible codec
preferences: all six calls succeed, both sides are well-formed again.
-/
namespace Aiortc.Model.Negotiate
open Aiortc (Outcome)
open Aiortc.Model.Jsep (Sig)

/-- `filter_preferred_codecs(find_common_codecs(CODECS[kind], offered), preferences)`: what an answer section carries -/
def answered (k : Kind) (po pa : List Cap) : List Codec :=
  match filterPreferred (findCommon (codecsOf k) (offered k po)) pa with
  | .ok cs => cs
  | _ => []

/-- Codec preferences of the offering side `o` and the answering side `a` are compatible: whatever transceivers meet
(any preference list of `o` of kind `k` against any of `a`, the empty list standing for a transceiver created on the
fly), the answer keeps a codec, and what the offerer then stores keeps a codec. -/
def CompatDir (o a : List Transceiver) : Prop :=
  ∀ k : Kind, k.isMedia = true → ∀ po pa : List Cap, InPrefs o k po → InPrefs a k pa →
    (∃ c cs, filterPreferred (findCommon (codecsOf k) (offered k po)) pa = .ok (c :: cs)) ∧
    (∀ p, InPrefs o k p → ∃ c cs, filterPreferred (findCommon (codecsOf k) (answered k po pa)) p = .ok (c :: cs))

/-- compatible in both directions (either side may offer) -/
def Compatible (o a : Pc) : Prop := CompatDir o.transceivers a.transceivers ∧ CompatDir a.transceivers o.transceivers

theorem CompatDir.mono {o a o' a' : List Transceiver} (h : CompatDir o a) (ho : PrefsSub o' o) (ha : PrefsSub a' a) : CompatDir o' a' := by
  intro k hk po pa hpo hpa
  obtain ⟨h1, h2⟩ := h k hk po pa (hpo.mono ho) (hpa.mono ha)
  exact ⟨h1, fun p hp => h2 p (hp.mono ho)⟩

theorem Compatible.symm {o a : Pc} (h : Compatible o a) : Compatible a o := ⟨h.2, h.1⟩

/-- the two connections of a pair between exchanges: same sections, same mids seen -/
structure Paired (o a : Pc) : Prop where
  keys : o.keys = a.keys
  seen : ∀ x, x ∈ o.seenMids ↔ x ∈ a.seenMids

theorem Paired.symm {o a : Pc} (h : Paired o a) : Paired a o := ⟨h.keys.symm, fun x => (h.seen x).symm⟩

/-- one media section after an exchange: answer vs offer, and the two transceivers that own it -/
structure SectionDone (ex : Exchange) (so sa : MSec) : Prop where
  kind : sa.kind = so.kind
  mid : sa.mid = so.mid
  codecs : ∃ prefs, filterPreferred (findCommon (codecsOf so.kind) so.codecs) prefs = .ok sa.codecs
  nonempty : sa.codecs ≠ []
  exts : sa.exts = findCommonExt (extsOf so.kind) so.exts
  answerer : ∃ ta ∈ ex.answerer.transceivers, ta.mid = some so.mid ∧ ta.currentDirection = some sa.direction ∧
    sa.direction = andDir ta.direction (revDir so.direction)
  offerer : ∃ to ∈ ex.offerer.transceivers, to.mid = some so.mid ∧ to.currentDirection = some (revDir sa.direction)

/-- everything a successful exchange between well-formed, paired, compatible connections establishes -/
structure ExchangeOk (o a : Pc) (ex : Exchange) : Prop where
  wfO : WF ex.offerer
  wfA : WF ex.answerer
  paired : Paired ex.offerer ex.answerer
  compat : Compatible ex.offerer ex.answerer
  prefsO : PrefsSub ex.offerer.transceivers o.transceivers
  prefsA : PrefsSub ex.answerer.transceivers a.transceivers
  /-- sections are only ever appended: kind, mid and position of an existing section never change -/
  ext : ∃ rest, ex.offerer.keys = o.keys ++ rest
  offerKeys : keysOf ex.offer = ex.offerer.keys
  answerKeys : keysOf ex.answer = ex.offerer.keys
  /-- mids of new sections have never been used before -/
  fresh : ∀ (j : Nat) (kx : Kind × String), o.keys.length ≤ j → ex.offerer.keys[j]? = some kx → kx.2 ∉ o.seenMids
  seen : ∀ x, x ∈ ex.offerer.seenMids ↔ x ∈ o.seenMids ∨ x ∈ ex.offerer.keys.map (·.2)
  offerAuto : ∀ m ∈ ex.offer.media, m.setup = .auto
  answerDefinite : ∀ m ∈ ex.answer.media, m.setup ≠ .auto
  sections : ∀ (j : Nat) (so sa : MSec), ex.offer.media[j]? = some so → ex.answer.media[j]? = some sa → so.kind.isMedia = true →
    SectionDone ex so sa
  /-- the six calls and what each half established (used by the role lemmas) -/
  calls : ∃ o1 d0 ans0, o.createOffer = .ok (o1, d0) ∧ o1.setLocal d0 = .ok ex.offererMid ∧ ex.offererMid.localDesc = some ex.offer ∧
    a.setRemote ex.offer = .ok ex.answererMid ∧ ex.answererMid.createAnswer = .ok ans0 ∧ ex.answererMid.setLocal ans0 = .ok ex.answerer ∧
    ex.answerer.localDesc = some ex.answer ∧ ex.offererMid.setRemote ex.answer = .ok ex.offerer
  offerA : OfferApplied o ex.offererMid ex.offer
  answerA : AnswerApplied a ex.answerer ex.offer ex.answer
  remoteO : RemoteApplied ex.offererMid ex.offerer ex.answer
  accepts : ∀ m ∈ ex.offer.media, m.kind.isMedia = true → Accepts a.transceivers m

theorem offered_codecs (k : Kind) (po pa : List Cap) {cs : List Codec}
    (h : filterPreferred (findCommon (codecsOf k) (offered k po)) pa = .ok cs) : answered k po pa = cs := by
  simp [answered, h]

/-- **An offer/answer exchange between well-formed, paired, compatible connections succeeds**, and leaves such a pair. -/
theorem negotiate_ok {o a : Pc} (ho : WF o) (ha : WF a) (hp : Paired o a) (hc : Compatible o a) :
    ∃ ex, negotiate o a = .ok ex ∧ ExchangeOk o a ex := by
  obtain ⟨o1, d0, o2, d, c1, c2, c3, A⟩ := offer_applied ho
  -- the answerer accepts every offered section
  have hacc : ∀ m ∈ d.media, m.kind.isMedia = true → Accepts a.transceivers m := by
    intro m hm hk p hp
    obtain ⟨t, ht, htk, hcod⟩ := A.codecs m hm hk
    have := (hc.1 m.kind hk t.preferred p (.inr ⟨t, ht, htk, rfl⟩) hp).1
    rw [hcod, htk]; exact this
  obtain ⟨rest, hrest⟩ := A.pref
  obtain ⟨a1, ans0, a2, ans, c4, c5, c6, c7, B⟩ := answer_applied ha A.type A.bundle A.nodup
    ⟨rest, by rw [hrest, hp.keys]⟩ A.appSame hacc
  -- the offerer applies the answer
  have hkeq : keysOf ans = keysOf d := B.akeys
  have hv : o2.validate ans false = .ok () := by
    unfold Pc.validate
    have hany : ans.media.any (fun m => m.setup == .auto) = false := by
      rw [List.any_eq_false]
      intro s hs; simpa using B.setup s hs
    simp [B.type, A.sig, stateAllows, hany, A.loc, hkeq]
  have hidx : ∀ (j : Nat) (sa : MSec), ans.media[j]? = some sa → ∃ so, d.media[j]? = some so ∧ sa.kind = so.kind ∧ sa.mid = so.mid := by
    intro j sa hj
    have h1 := keys_getElem hj
    rw [show keysOfSecs ans.media = keysOf ans from rfl, hkeq] at h1
    obtain ⟨so, hso, he⟩ := keys_getElem_inv h1
    simp only [Prod.mk.injEq] at he
    exact ⟨so, hso, he.1, he.2⟩
  have hacc2 : ∀ sa ∈ ans.media, sa.kind.isMedia = true → Accepts o2.transceivers sa := by
    intro sa hsa hk p hp
    obtain ⟨j, hj⟩ := List.getElem?_of_mem hsa
    obtain ⟨so, hso, ek, _⟩ := hidx j sa hj
    have hkso : so.kind.isMedia = true := by rw [← ek]; exact hk
    obtain ⟨_, ta, _, _, _, hin, hcod, _⟩ := B.secs j so sa hso hj hkso
    obtain ⟨t, ht, htk, hoc⟩ := A.codecs so (List.mem_of_getElem? hso) hkso
    have hp' : InPrefs o.transceivers so.kind p := by
      rw [← ek]; exact InPrefs.mono A.prefs hp
    have := (hc.1 so.kind hkso t.preferred ta.preferred (.inr ⟨t, ht, htk, rfl⟩) hin).2 p hp'
    rw [hoc, htk] at hcod
    rw [offered_codecs _ _ _ hcod] at this
    rw [ek]; exact this
  have hfit2 : SctpFits o2 ans.media := by
    refine ⟨?_, ?_⟩
    · intro s1 hs1 s2 hs2 hk1 hk2
      obtain ⟨j1, hj1⟩ := List.getElem?_of_mem hs1
      obtain ⟨j2, hj2⟩ := List.getElem?_of_mem hs2
      obtain ⟨m1, hm1, e1, e1'⟩ := hidx j1 s1 hj1
      obtain ⟨m2, hm2, e2, e2'⟩ := hidx j2 s2 hj2
      rw [e1', e2']
      exact A.appSame m1 (List.mem_of_getElem? hm1) m2 (List.mem_of_getElem? hm2) (by rw [← e1]; exact hk1) (by rw [← e2]; exact hk2)
    · intro s hs hk y hy
      obtain ⟨j, hj⟩ := List.getElem?_of_mem hs
      obtain ⟨m, hm, e1, e1'⟩ := hidx j s hj
      have := A.sctpApp m (List.mem_of_getElem? hm) (by rw [← e1]; exact hk)
      rw [this] at hy
      rw [e1']; exact (Option.some.inj hy).symm
  obtain ⟨o3, c8, R⟩ := setRemote_ok hv B.bundle (by rw [hkeq]; exact A.nodup) (by rw [hkeq]; exact A.pre) hacc2 hfit2
    (fun x hx => by rw [hkeq]; exact A.sctpIn x hx)
  obtain ⟨r1, r2, r3⟩ := R.answer B.type
  -- assemble `negotiate`
  have hneg : negotiate o a = .ok { offerer := o3, answerer := a2, offer := d, answer := ans, offererMid := o2, answererMid := a1 } := by
    unfold negotiate negotiateWith
    simp only [c1, c2, c3]
    have e4 : a.setRemoteWith bundleStep d = .ok a1 := c4
    have e8 : o2.setRemoteWith bundleStep ans = .ok o3 := c8
    simp only [e4, c5, c6, c7, e8]
  refine ⟨_, hneg, ?_⟩
  -- the offerer afterwards
  have hloc3 : o3.localDesc = some d := by
    have := A.loc
    simp only [Pc.localDesc] at this ⊢
    rw [R.locals.1, R.locals.2]; exact this
  have hrd3 : o3.remoteDesc = some ans := by simp [Pc.remoteDesc, r2, r3]
  have hkeys3 : o3.keys = keysOf d := by simp [Pc.keys, hloc3]
  have hmids : ans.media.map (·.mid) = d.media.map (·.mid) := by
    have := congrArg (List.map Prod.snd) hkeq
    simpa [keysOf, List.map_map, Function.comp_def] using this
  have hwf3 : WF o3 := by
    refine { stable := r1, rkeys := by rw [hrd3, hkeys3]; exact hkeq, nodup := by rw [hkeys3]; exact A.nodup,
             pre := by rw [hkeys3, ← hkeq]; exact R.pre, owned := ?_, sctpHas := ?_, sctpIn := ?_, seen := ?_, media := R.media A.media }
    · intro j k x hj hk
      rw [hkeys3, ← hkeq] at hj
      obtain ⟨sa, hsa, he⟩ := keys_getElem_inv hj
      simp only [Prod.mk.injEq] at he
      obtain ⟨t, ht, hN, _⟩ := R.owners j sa hsa (by rw [← he.1]; exact hk)
      exact ⟨t, ht, by rw [hN.mid, he.2]⟩
    · intro x hx
      rw [hkeys3, ← hkeq] at hx
      obtain ⟨sa, hsa, he⟩ := List.mem_map.mp hx
      simp only [Prod.mk.injEq] at he
      rw [← he.2]
      exact R.sctpApp sa hsa (by rw [he.1]; rfl)
    · intro x hx
      rw [hkeys3]
      rcases R.sctpOld with e | ⟨sa, hsa, hk, e⟩
      · rw [e] at hx; exact A.sctpIn x hx
      · rw [e] at hx; cases hx
        have : (sa.kind, sa.mid) ∈ keysOf ans := List.mem_map_of_mem hsa
        rw [kind_not_media hk, hkeq] at this; exact this
    · intro kx hkx
      rw [hkeys3] at hkx
      obtain ⟨m, hm, rfl⟩ := List.mem_map.mp hkx
      rw [R.seen, A.seen]
      exact .inl (.inr (List.mem_map_of_mem hm))
  have hseen3 : ∀ x, x ∈ o3.seenMids ↔ x ∈ o.seenMids ∨ x ∈ d.media.map (·.mid) := by
    intro x
    rw [R.seen, A.seen, hmids]
    constructor
    · rintro ((h | h) | h)
      · exact .inl h
      · exact .inr h
      · exact .inr h
    · rintro (h | h)
      · exact .inl (.inl h)
      · exact .inr h
  have hkm : (keysOf d).map (·.2) = d.media.map (·.mid) := by simp [keysOf, List.map_map, Function.comp_def]
  refine { wfO := hwf3, wfA := B.wf, paired := ⟨by rw [hkeys3, B.keys], ?_⟩, compat := ?_, prefsO := R.prefs.trans A.prefs, prefsA := B.prefs,
           ext := ⟨rest, by rw [hkeys3]; exact hrest⟩, offerKeys := hkeys3.symm, answerKeys := by rw [hkeys3]; exact hkeq,
           fresh := by rw [hkeys3]; exact A.fresh, seen := ?_, offerAuto := A.setup, answerDefinite := B.setup, sections := ?_,
           calls := ⟨o1, d0, ans0, c1, c2, c3, c4, c5, c6, c7, c8⟩, offerA := A, answerA := B, remoteO := R, accepts := hacc }
  · intro x
    rw [hseen3, B.seen, hp.seen]
  · exact ⟨hc.1.mono (R.prefs.trans A.prefs) B.prefs, hc.2.mono B.prefs (R.prefs.trans A.prefs)⟩
  · intro x; rw [hseen3, hkeys3, hkm]
  · intro j so sa hso hsa hk
    obtain ⟨⟨e1, e2⟩, ta, hta, h1, _, _, h4, h5, h6, h7, h8⟩ := B.secs j so sa hso hsa hk
    obtain ⟨t, ht, hN, _⟩ := R.owners j sa hsa (by rw [e1]; exact hk)
    rw [B.type] at hN
    exact { kind := e1, mid := e2, codecs := ⟨_, h4⟩, nonempty := h5, exts := h6,
            answerer := ⟨ta, hta, h1, h8, h7⟩,
            offerer := ⟨t, ht, by rw [hN.mid, e2], hN.cur rfl⟩ }

end Aiortc.Model.Negotiate
