import Aiortc.Lemmas.NegotiateFresh
/-!
C03, round 2 — the "apply description" loop of `setRemoteDescription` for ANY well-formed connection state:
it never fails when every section finds a common codec, it negotiates exactly one transceiver per media section,
and it keeps the structural invariant (`Pre`) that links transceivers, mids and m-line indices.
-/
namespace Aiortc.Model.Negotiate
open Aiortc (Outcome)
open Aiortc.Model.Jsep (Sig)

/-- keys (kind, mid) of a list of media sections -/
def keysOfSecs (ms : List MSec) : List (Kind × String) := ms.map (fun m => (m.kind, m.mid))

/-- `a` before `b`, same kind: if `b` has a mid so has `a` (transceivers get their mids in list order, kind by kind) -/
def OrderRel (a b : Transceiver) : Prop := a.kind = b.kind → b.mid ≠ none → a.mid ≠ none

def Ordered (ts : List Transceiver) : Prop := ts.Pairwise OrderRel

/-- every transceiver is either untouched by negotiation (no mid, no m-line index) or owns the section of `K` at its
m-line index (same kind, its mid) -/
def Lines (K : List (Kind × String)) (ts : List Transceiver) : Prop :=
  ∀ t ∈ ts, (t.mid = none ∧ t.mline = none) ∨ ∃ (j : Nat) (x : String), K[j]? = some (t.kind, x) ∧ t.mid = some x ∧ t.mline = some j

/-- the structural invariant of a transceiver list relative to the section keys `K` -/
structure Pre (K : List (Kind × String)) (ts : List Transceiver) : Prop where
  unique : UniqueMid ts
  order : Ordered ts
  lines : Lines K ts

/-- every preference list that can meet section `m` (those of the same-kind transceivers, and the empty list of a
transceiver created on the fly) leaves at least one codec -/
def Accepts (ts : List Transceiver) (m : MSec) : Prop :=
  ∀ p : List Cap, (p = [] ∨ ∃ t ∈ ts, t.kind = m.kind ∧ t.preferred = p) →
    ∃ c cs, filterPreferred (findCommon (codecsOf m.kind) m.codecs) p = .ok (c :: cs)

/-- preference lists (per kind) do not grow: what `Accepts` depends on -/
def PrefsSub (ts' ts : List Transceiver) : Prop :=
  ∀ t' ∈ ts', t'.preferred = [] ∨ ∃ t ∈ ts, t.kind = t'.kind ∧ t.preferred = t'.preferred

theorem Accepts.mono {ts ts' : List Transceiver} {m : MSec} (h : Accepts ts m) (hs : PrefsSub ts' ts) : Accepts ts' m := by
  intro p hp
  rcases hp with rfl | ⟨t', ht', hk, rfl⟩
  · exact h [] (.inl rfl)
  · rcases hs t' ht' with he | ⟨t, ht, hk2, hp2⟩
    · rw [he]; exact h [] (.inl rfl)
    · exact h _ (.inr ⟨t, ht, by rw [hk2, hk], hp2⟩)

theorem PrefsSub.refl (ts : List Transceiver) : PrefsSub ts ts := fun t ht => .inr ⟨t, ht, rfl, rfl⟩

theorem PrefsSub.trans {a b c : List Transceiver} (h1 : PrefsSub a b) (h2 : PrefsSub b c) : PrefsSub a c := by
  intro t ht
  rcases h1 t ht with he | ⟨u, hu, hk, hp⟩
  · exact .inl he
  · rcases h2 u hu with he | ⟨v, hv, hk2, hp2⟩
    · exact .inl (by rw [← hp, he])
    · exact .inr ⟨v, hv, by rw [hk2, hk], by rw [hp2, hp]⟩

/-! ## updFirst and pairwise relations: only the first match matters -/

/-- elements of the updated list: old elements, or the image of THE FIRST match -/
theorem updFirst_mem_first {α} {p : α → Bool} {f : α → α} : ∀ {l l' : List α}, updFirst p f l = some l' →
    ∀ z ∈ l', z ∈ l ∨ ∃ x1, l.find? p = some x1 ∧ z = f x1 := by
  intro l
  induction l with
  | nil => intro l' h; simp [updFirst] at h
  | cons b bs ihb =>
    intro l' h z hz
    simp only [updFirst] at h
    by_cases hpb : p b = true
    · simp only [hpb, if_true] at h
      cases h
      rcases List.mem_cons.mp hz with rfl | hz
      · exact .inr ⟨b, by simp [List.find?, hpb], rfl⟩
      · exact .inl (by simp [hz])
    · have hpb' : p b = false := by simpa using hpb
      simp only [hpb', Bool.false_eq_true, if_false] at h
      cases hr2 : updFirst p f bs with
      | none => simp [hr2] at h
      | some r2 =>
        simp [hr2] at h; subst h
        rcases List.mem_cons.mp hz with rfl | hz
        · exact .inl (by simp)
        · rcases ihb hr2 z hz with h3 | ⟨x1, h3, h4⟩
          · exact .inl (by simp [h3])
          · exact .inr ⟨x1, by simp [List.find?, hpb', h3], h4⟩

theorem updFirst_pairwise_first {α} {R : α → α → Prop} {p : α → Bool} {f : α → α} : ∀ {l l' : List α} {x0 : α},
    updFirst p f l = some l' → l.find? p = some x0 → l.Pairwise R →
    (∀ y ∈ l, R x0 y → R (f x0) y) → (∀ y ∈ l, p y = false → R y x0 → R y (f x0)) →
    l'.Pairwise R := by
  intro l
  induction l with
  | nil => intro l' x0 h; simp [updFirst] at h
  | cons a as ih =>
    intro l' x0 h hf hp h1 h2
    obtain ⟨ha, has⟩ := List.pairwise_cons.mp hp
    simp only [updFirst] at h
    by_cases hpa : p a = true
    · simp only [hpa, if_true] at h
      cases h
      simp only [List.find?, hpa] at hf
      cases hf
      exact List.pairwise_cons.mpr ⟨fun y hy => h1 y (by simp [hy]) (ha y hy), has⟩
    · have hpa' : p a = false := by simpa using hpa
      simp only [hpa', Bool.false_eq_true, if_false] at h
      simp only [List.find?, hpa'] at hf
      cases hr : updFirst p f as with
      | none => simp [hr] at h
      | some r =>
        simp [hr] at h; subst h
        refine List.pairwise_cons.mpr ⟨?_, ih hr hf has (fun y hy => h1 y (by simp [hy])) (fun y hy => h2 y (by simp [hy]))⟩
        intro y hy
        rcases updFirst_mem_first hr y hy with hin | ⟨x1, hx1, he⟩
        · exact ha _ hin
        · rw [hf] at hx1; cases hx1
          rw [he]
          exact h2 a (by simp) hpa' (ha x0 (List.mem_of_find?_eq_some hf))

/-- in an ordered list the first transceiver matching a section has a mid as soon as ANY matching one has -/
theorem first_match_has_mid {m : MSec} : ∀ {l : List Transceiver} {t y : Transceiver}, Ordered l →
    l.find? (matchesSec m) = some t → y ∈ l → matchesSec m y = true → y.mid ≠ none → t.mid ≠ none := by
  intro l
  induction l with
  | nil => intro t y _ h; simp at h
  | cons a as ih =>
    intro t y ho hf hy hmy hyn
    obtain ⟨ha, has⟩ := List.pairwise_cons.mp ho
    by_cases hma : matchesSec m a = true
    · simp only [List.find?, hma] at hf
      obtain rfl : a = t := by simpa using hf
      rcases List.mem_cons.mp hy with rfl | hy
      · exact hyn
      · have hk : a.kind = y.kind := by
          simp only [matchesSec, Bool.and_eq_true, beq_iff_eq] at hma hmy
          rw [hma.1, hmy.1]
        exact ha y hy hk hyn
    · have hma' : matchesSec m a = false := by simpa using hma
      simp only [List.find?, hma'] at hf
      rcases List.mem_cons.mp hy with rfl | hy
      · rw [hmy] at hma'; cases hma'
      · exact ih has hf hy hmy hyn

/-! ## totality of one section -/

theorem find_matches_append {m : MSec} {ts : List Transceiver} {n : Transceiver} (hn : matchesSec m n = true) :
    ∃ t, (ts ++ [n]).find? (matchesSec m) = some t := by
  cases h : (ts ++ [n]).find? (matchesSec m) with
  | some t => exact ⟨t, rfl⟩
  | none =>
    have := List.find?_eq_none.mp h n (by simp)
    simp [hn] at this

theorem negotiateTransceiver_ok {typ : DType} {t : Transceiver} {m : MSec} {i : Nat}
    (h : ∃ c cs, filterPreferred (findCommon (codecsOf m.kind) m.codecs) t.preferred = .ok (c :: cs)) :
    ∃ t', negotiateTransceiver typ t m i = .ok t' := by
  obtain ⟨c, cs, hc⟩ := h
  unfold negotiateTransceiver
  rw [hc]
  simp

theorem createTransceiver_frame (pc : Pc) (d : Dir) (k : Kind) (tr : Bool) :
    (pc.createTransceiver d k tr).slots = pc.slots ∧ (pc.createTransceiver d k tr).seenMids = pc.seenMids ∧
    (pc.createTransceiver d k tr).sctp = pc.sctp := by
  unfold Pc.createTransceiver
  split <;> exact ⟨rfl, rfl, rfl⟩

/-- the transceiver `__createTransceiver` appends -/
theorem createTransceiver_new (pc : Pc) (d : Dir) (k : Kind) (tr : Bool) :
    ∃ n, (pc.createTransceiver d k tr).transceivers = pc.transceivers ++ [n] ∧ n.mid = none ∧ n.mline = none ∧ n.kind = k ∧
      n.preferred = [] ∧ n.direction = d ∧ n.hasTrack = tr := by
  unfold Pc.createTransceiver
  split <;> exact ⟨_, rfl, rfl, rfl, rfl, rfl, rfl, rfl⟩

/-- what "find or create" leaves: the old list, or the old list plus a fresh matching transceiver -/
theorem ensureTransceiver_spec (pc : Pc) (m : MSec) :
    ((pc.ensureTransceiver m).transceivers = pc.transceivers ∧ pc.transceivers.any (matchesSec m) = true ∨
      (pc.transceivers.any (matchesSec m) = false ∧ ∃ n, (pc.ensureTransceiver m).transceivers = pc.transceivers ++ [n] ∧
        n.mid = none ∧ n.mline = none ∧ n.kind = m.kind ∧ n.preferred = [])) ∧
    (pc.ensureTransceiver m).slots = pc.slots ∧ (pc.ensureTransceiver m).seenMids = pc.seenMids ∧
    (pc.ensureTransceiver m).sctp = pc.sctp := by
  by_cases hany : pc.transceivers.any (matchesSec m) = true
  · have e : pc.ensureTransceiver m = pc := by simp [Pc.ensureTransceiver, hany]
    rw [e]
    exact ⟨.inl ⟨rfl, hany⟩, rfl, rfl, rfl⟩
  · have hany' : pc.transceivers.any (matchesSec m) = false := by simpa using hany
    have e : pc.ensureTransceiver m = pc.createTransceiver .recvonly m.kind false := by
      simp [Pc.ensureTransceiver, hany']
    rw [e]
    obtain ⟨n, hn, h1, h2, h3, h4, _⟩ := createTransceiver_new pc .recvonly m.kind false
    exact ⟨.inr ⟨hany', n, hn, h1, h2, h3, h4⟩, createTransceiver_frame pc _ _ _⟩

theorem ensureTransceiver_finds (pc : Pc) (m : MSec) :
    ∃ t, (pc.ensureTransceiver m).transceivers.find? (matchesSec m) = some t := by
  rcases (ensureTransceiver_spec pc m).1 with ⟨he, hany⟩ | ⟨_, n, he, h1, _, h3, _⟩
  · rw [he]
    obtain ⟨t, ht, hmt⟩ := List.any_eq_true.mp hany
    cases hf : pc.transceivers.find? (matchesSec m) with
    | none => have := List.find?_eq_none.mp hf t ht; simp [hmt] at this
    | some t0 => exact ⟨t0, rfl⟩
  · rw [he]
    exact find_matches_append (by simp [matchesSec, h3, h1])

theorem applyRemoteMedia_ok {typ : DType} {pc : Pc} {i : Nat} {m : MSec}
    (hf : ∃ t, pc.transceivers.find? (matchesSec m) = some t) (hacc : Accepts pc.transceivers m) :
    ∃ pc', applyRemoteMedia typ pc i m = .ok pc' := by
  obtain ⟨t0, hf⟩ := hf
  unfold applyRemoteMedia
  rw [hf]
  simp only
  have ht0 : t0 ∈ pc.transceivers := List.mem_of_find?_eq_some hf
  have hm0 : matchesSec m t0 = true := by simpa using List.find?_some hf
  have hk0 : t0.kind = m.kind := by
    simp only [matchesSec, Bool.and_eq_true, beq_iff_eq] at hm0; exact hm0.1
  obtain ⟨t', ht'⟩ := negotiateTransceiver_ok (typ := typ) (i := i) (hacc t0.preferred (.inr ⟨t0, ht0, hk0, rfl⟩))
  rw [ht']
  simp only
  obtain ⟨l', hl'⟩ := updFirst_isSome (f := fun _ => t') hf
  rw [hl']
  exact ⟨_, rfl⟩

/-- preference lists after "find or create" -/
theorem ensureTransceiver_prefs (pc : Pc) (m : MSec) : PrefsSub (pc.ensureTransceiver m).transceivers pc.transceivers := by
  rcases (ensureTransceiver_spec pc m).1 with ⟨he, _⟩ | ⟨_, n, he, _, _, _, h4⟩
  · rw [he]; exact PrefsSub.refl _
  · rw [he]
    intro t ht
    rcases List.mem_append.mp ht with h | h
    · exact .inr ⟨t, h, rfl, rfl⟩
    · simp at h; subst h; exact .inl h4

/-- a media section never fails when the preference lists that can meet it leave a codec -/
theorem applyRemoteSec_media_ok {typ : DType} {pc : Pc} {i : Nat} {m : MSec} (hk : m.kind.isMedia = true)
    (hacc : Accepts pc.transceivers m) : ∃ pc', applyRemoteSec typ pc i m = .ok pc' := by
  unfold applyRemoteSec
  simp only [hk, if_true]
  exact applyRemoteMedia_ok (ensureTransceiver_finds _ m) (hacc.mono (ensureTransceiver_prefs (pc.seeMid m.mid) m))

theorem createSctp_sctp (pc : Pc) : ∃ s, pc.createSctp.sctp = some s ∧ s.mid = none := by
  unfold Pc.createSctp
  split <;> exact ⟨_, rfl, rfl⟩

theorem ensureSctp_sctp (pc : Pc) : ∃ s, pc.ensureSctp.sctp = some s ∧ (pc.sctp = some s ∨ (pc.sctp = none ∧ s.mid = none)) := by
  unfold Pc.ensureSctp
  cases hs : pc.sctp with
  | some s => exact ⟨s, by simp [hs], .inl rfl⟩
  | none =>
    obtain ⟨s, h1, h2⟩ := createSctp_sctp pc
    exact ⟨s, by simp [h1], .inr ⟨rfl, h2⟩⟩

theorem applyRemoteSec_app_ok {typ : DType} {pc : Pc} {i : Nat} {m : MSec} (hk : m.kind.isMedia = false) :
    ∃ pc', applyRemoteSec typ pc i m = .ok pc' := by
  unfold applyRemoteSec
  simp only [hk, Bool.false_eq_true, if_false]
  obtain ⟨s, hs, _⟩ := ensureSctp_sctp (pc.seeMid m.mid)
  unfold applyRemoteApp
  rw [hs]
  exact ⟨_, rfl⟩

/-! ## frame facts of one section -/

theorem modTransport_frame (pc : Pc) (id : Nat) (f : Transport → Transport) :
    (pc.modTransport id f).slots = pc.slots ∧ (pc.modTransport id f).seenMids = pc.seenMids ∧
    (pc.modTransport id f).sctp = pc.sctp ∧ (pc.modTransport id f).transceivers = pc.transceivers := ⟨rfl, rfl, rfl, rfl⟩

theorem applyRemoteSec_frame {typ : DType} {pc pc' : Pc} {i : Nat} {m : MSec} (h : applyRemoteSec typ pc i m = .ok pc') :
    pc'.slots = pc.slots ∧ pc'.seenMids = setAdd pc.seenMids m.mid ∧
    (m.kind.isMedia = true → pc'.sctp = pc.sctp) ∧
    (m.kind.isMedia = false → pc'.transceivers = pc.transceivers ∧
      ∃ s', pc'.sctp = some s' ∧ s'.mid = some ((pc.sctp.bind (·.mid)).getD m.mid)) := by
  unfold applyRemoteSec at h
  cases hk : m.kind.isMedia
  · simp only [hk, Bool.false_eq_true, if_false] at h
    obtain ⟨s, hs, hcase⟩ := ensureSctp_sctp (pc.seeMid m.mid)
    obtain ⟨e1, e2, e3⟩ := ensureSctp_frame (pc.seeMid m.mid)
    unfold applyRemoteApp at h
    rw [hs] at h
    cases h
    refine ⟨e2, e3, fun hf => absurd hf (by decide), fun _ => ⟨e1, _, rfl, ?_⟩⟩
    rcases hcase with h1 | ⟨h1, h2⟩
    · have : pc.sctp = some s := h1
      simp [this]
    · have : pc.sctp = none := h1
      simp [this, h2]
  · simp only [hk, if_true] at h
    obtain ⟨_, e2, e3, e4⟩ := ensureTransceiver_spec (pc.seeMid m.mid) m
    unfold applyRemoteMedia at h
    split at h
    · cases h
    · split at h
      · split at h
        · cases h
        · cases h
          exact ⟨e2, e3, fun _ => e4, fun hf => absurd hf (by decide)⟩
      · cases h
      · cases h
      · cases h

/-! ## one section and the structural invariant -/

/-- `applyRemoteSec_media` with the preference list of a transceiver created on the fly -/
theorem applyRemoteSec_media' {typ : DType} {pc pc' : Pc} {i : Nat} {m : MSec}
    (h : applyRemoteSec typ pc i m = .ok pc') (hk : m.kind.isMedia = true) :
    ∃ ts0 t t', (ts0 = pc.transceivers ∨
        (pc.transceivers.any (matchesSec m) = false ∧ ∃ n, ts0 = pc.transceivers ++ [n] ∧ n.mid = none ∧ n.mline = none ∧
          n.kind = m.kind ∧ n.preferred = [])) ∧
      ts0.find? (matchesSec m) = some t ∧ negotiateTransceiver typ t m i = .ok t' ∧
      updFirst (matchesSec m) (fun _ => t') ts0 = some pc'.transceivers := by
  unfold applyRemoteSec at h
  simp only [hk, if_true] at h
  unfold applyRemoteMedia at h
  split at h
  · cases h
  · rename_i t hfind
    split at h
    · rename_i t' hneg
      split at h
      · cases h
      · rename_i ts hupd
        cases h
        refine ⟨_, t, t', ?_, hfind, hneg, by rw [modTransport_transceivers]; exact hupd⟩
        rcases (ensureTransceiver_spec (pc.seeMid m.mid) m).1 with ⟨he, _⟩ | ⟨hany, n, he, h1, h2, h3, h4⟩
        · exact .inl he
        · exact .inr ⟨hany, n, he, h1, h2, h3, h4⟩
    · cases h
    · cases h
    · cases h

theorem keys_index_inj {K : List (Kind × String)} (hnd : (K.map (·.2)).Nodup) {i j : Nat} {k1 k2 : Kind} {x : String}
    (hi : K[i]? = some (k1, x)) (hj : K[j]? = some (k2, x)) : i = j ∧ k1 = k2 := by
  have e1 : (K.map (·.2))[i]? = some x := by simp [hi]
  have e2 : (K.map (·.2))[j]? = some x := by simp [hj]
  have := nodup_getElem?_inj hnd e1 e2
  subst this
  rw [hi] at hj
  simp only [Option.some.injEq, Prod.mk.injEq] at hj
  exact ⟨rfl, hj.1⟩

theorem pre_step {typ : DType} {K : List (Kind × String)} {pc pc' : Pc} {i : Nat} {m : MSec}
    (hP : Pre K pc.transceivers) (hK : K[i]? = some (m.kind, m.mid)) (hnd : (K.map (·.2)).Nodup)
    (h : applyRemoteSec typ pc i m = .ok pc') :
    Pre K pc'.transceivers ∧ PrefsSub pc'.transceivers pc.transceivers ∧
    (∀ x ∈ pc.transceivers, x.mid ≠ none → x.mid ≠ some m.mid → x ∈ pc'.transceivers) ∧
    (m.kind.isMedia = true → ∃ t' ∈ pc'.transceivers, Negotiated typ m t' ∧ t'.mline = some i) ∧
    ((∀ t ∈ pc.transceivers, t.kind.isMedia = true) → ∀ t ∈ pc'.transceivers, t.kind.isMedia = true) ∧
    (∀ t ∈ pc.transceivers, ∀ x, t.mid = some x → ∃ t' ∈ pc'.transceivers, t'.mid = some x ∧ t'.transport = t.transport) := by
  cases hk : m.kind.isMedia
  · have := applyRemoteSec_app h hk
    rw [this]
    exact ⟨hP, PrefsSub.refl _, fun x hx _ _ => hx, fun hf => absurd hf (by decide), fun hm => hm, fun t ht x hx => ⟨t, ht, hx, rfl⟩⟩
  · obtain ⟨ts0, t, t', hts0, hfind, hneg, hupd⟩ := applyRemoteSec_media' h hk
    have hmatch : matchesSec m t = true := by simpa using List.find?_some hfind
    have htmem : t ∈ ts0 := List.mem_of_find?_eq_some hfind
    have hmatch' := hmatch
    simp only [matchesSec, Bool.and_eq_true, beq_iff_eq, Bool.or_eq_true] at hmatch'
    -- elements of ts0
    have hts0mem : ∀ x ∈ ts0, x ∈ pc.transceivers ∨ (x.mid = none ∧ x.mline = none ∧ x.kind = m.kind) := by
      intro x hx
      rcases hts0 with rfl | ⟨_, n, rfl, h1, h2, h3, _⟩
      · exact .inl hx
      · rcases List.mem_append.mp hx with hx | hx
        · exact .inl hx
        · simp at hx; subst hx; exact .inr ⟨h1, h2, h3⟩
    have holdsub : ∀ x ∈ pc.transceivers, x ∈ ts0 := by
      intro x hx
      rcases hts0 with rfl | ⟨_, n, rfl, _⟩
      · exact hx
      · simp [hx]
    have hu0 : ts0.Pairwise MidDiff := by
      rcases hts0 with rfl | ⟨_, n, rfl, h1, _, _⟩
      · exact hP.unique
      · refine List.pairwise_append.mpr ⟨hP.unique, by simp, ?_⟩
        intro a _ b hb
        simp at hb; subst hb
        intro hne; rw [h1]; exact hne
    have ho0 : ts0.Pairwise OrderRel := by
      rcases hts0 with rfl | ⟨_, n, rfl, h1, _, _⟩
      · exact hP.order
      · refine List.pairwise_append.mpr ⟨hP.order, by simp, ?_⟩
        intro a _ b hb
        simp at hb; subst hb
        intro _ hne; exact absurd h1 hne
    have hlines0 : Lines K ts0 := by
      intro x hx
      rcases hts0mem x hx with hold | ⟨h1, h2, _⟩
      · exact hP.lines x hold
      · exact .inl ⟨h1, h2⟩
    -- an element of ts0 that owns the mid of `m` matches `m`
    have owner_matches : ∀ y ∈ ts0, y.mid = some m.mid → matchesSec m y = true := by
      intro y hy hym
      rcases hlines0 y hy with ⟨h1, _⟩ | ⟨j, x, hj, hx, _⟩
      · rw [h1] at hym; cases hym
      · rw [hx] at hym; cases hym
        have := (keys_index_inj hnd hj hK).2
        simp [matchesSec, this, hx]
    obtain ⟨hN, hdir, htr, hpref, hline_none, hline_some, _, _⟩ := negotiateTransceiver_spec hneg hmatch
    have ht'k : t'.kind = m.kind := hN.kind
    have ht'mem : t' ∈ pc'.transceivers := (updFirst_has hupd).choose_spec.2
    have hnewmem : ∀ y ∈ pc'.transceivers, y = t' ∨ y ∈ ts0 := by
      intro y hy
      rcases updFirst_mem' hupd y hy with h1 | ⟨_, _, _, rfl⟩
      · exact .inr h1
      · exact .inl rfl
    -- two cases: the first match already owns the mid, or it has no mid and then nobody owns the mid
    have hcases : t.mid = some m.mid ∨ (t.mid = none ∧ ∀ y ∈ ts0, y.mid ≠ some m.mid) := by
      rcases hmatch'.2 with h1 | h1
      · right
        have htn : t.mid = none := by cases ht : t.mid <;> simp_all
        refine ⟨htn, ?_⟩
        intro y hy hym
        have := first_match_has_mid ho0 hfind hy (owner_matches y hy hym) (by rw [hym]; simp)
        exact this htn
      · exact .inl h1
    have hpair : ∀ (R : Transceiver → Transceiver → Prop), ts0.Pairwise R →
        (∀ y ∈ ts0, R t y → R t' y) → (∀ y ∈ ts0, matchesSec m y = false → R y t → R y t') →
        pc'.transceivers.Pairwise R :=
      fun R hR h1 h2 => updFirst_pairwise_first (f := fun _ => t') hupd hfind hR h1 h2
    refine ⟨⟨?_, ?_, ?_⟩, ?_, ?_, fun _ => ⟨t', ht'mem, hN, ?_⟩, ?_, ?_⟩
    · -- UniqueMid
      refine hpair MidDiff hu0 ?_ ?_
      · intro y hy hR hne
        rcases hcases with h1 | ⟨_, hnone⟩
        · rw [hN.mid, ← h1]; exact hR (by rw [h1]; simp)
        · rw [hN.mid]; exact (hnone y hy).symm
      · intro y hy _ hR hne
        rcases hcases with h1 | ⟨_, hnone⟩
        · rw [hN.mid, ← h1]; exact hR hne
        · rw [hN.mid]; exact hnone y hy
    · -- Ordered
      refine hpair OrderRel ho0 ?_ ?_
      · intro y _ _ _ _
        rw [hN.mid]; simp
      · intro y hy hnm _ hky _
        -- y has the kind of `m` and does not match: it has another mid
        have hyk : y.kind = m.kind := by rw [hky, ht'k]
        intro hyn
        simp [matchesSec, hyk, hyn] at hnm
    · -- Lines
      intro y hy
      rcases hnewmem y hy with rfl | hy0
      · right
        rcases hcases with h1 | ⟨h1, _⟩
        · rcases hlines0 t htmem with ⟨h2, _⟩ | ⟨j, x, hj, hx, hl⟩
          · rw [h2] at h1; cases h1
          · rw [hx] at h1; cases h1
            refine ⟨j, m.mid, ?_, hN.mid, ?_⟩
            · rw [ht'k]; rw [hmatch'.1] at hj; exact hj
            · rw [hline_some (by rw [hx]; simp), hl]
        · exact ⟨i, m.mid, by rw [ht'k]; exact hK, hN.mid, hline_none h1⟩
      · exact hlines0 y hy0
    · -- preferences
      intro y hy
      rcases hnewmem y hy with rfl | hy0
      · rcases hts0 with rfl | ⟨_, n, rfl, _, _, _, h4⟩
        · exact .inr ⟨t, htmem, by rw [ht'k, hmatch'.1], hpref.symm⟩
        · rcases List.mem_append.mp htmem with hin | hin
          · exact .inr ⟨t, hin, by rw [ht'k, hmatch'.1], hpref.symm⟩
          · simp at hin; subst hin
            left
            rw [hpref]; exact h4
      · rcases hts0 with rfl | ⟨_, n, rfl, _, _, _, h4⟩
        · exact .inr ⟨y, hy0, rfl, rfl⟩
        · rcases List.mem_append.mp hy0 with hin | hin
          · exact .inr ⟨y, hin, rfl, rfl⟩
          · simp at hin; subst hin
            exact .inl h4
    · -- transceivers that own another mid are kept
      intro x hx hxn hxm
      refine updFirst_keeps hupd x (holdsub x hx) ?_
      cases hxmid : x.mid with
      | none => exact absurd hxmid hxn
      | some v =>
        have hv : v ≠ m.mid := by intro hv; rw [hxmid, hv] at hxm; exact hxm rfl
        simp [matchesSec, hxmid, hv]
    · rcases hcases with h1 | ⟨h1, _⟩
      · rcases hlines0 t htmem with ⟨h2, _⟩ | ⟨j, x, hj, hx, hl⟩
        · rw [h2] at h1; cases h1
        · rw [hx] at h1; cases h1
          rw [hmatch'.1] at hj
          have := (keys_index_inj hnd hj hK).1
          subst this
          rw [hline_some (by rw [hx]; simp), hl]
      · exact hline_none h1
    · intro hall y hy
      rcases hnewmem y hy with rfl | hy0
      · rw [ht'k]; exact hk
      · rcases hts0mem y hy0 with hold | ⟨_, _, h3⟩
        · exact hall y hold
        · rw [h3]; exact hk
    · -- the owner of a mid stays on its transport
      intro u hu x hux
      by_cases hxm : x = m.mid
      · subst hxm
        have hum := owner_matches u (holdsub u hu) hux
        have htn := first_match_has_mid ho0 hfind (holdsub u hu) hum (by rw [hux]; simp)
        have htm : t.mid = some m.mid := by
          rcases hcases with h1 | ⟨h1, _⟩
          · exact h1
          · exact absurd h1 htn
        have : t = u := (show UniqueMid ts0 from hu0).eq t htmem u (holdsub u hu) (by rw [htm, hux]) (by rw [htm]; simp)
        subst this
        exact ⟨t', ht'mem, hN.mid, htr⟩
      · exact ⟨u, updFirst_keeps hupd u (holdsub u hu) (by
            cases hum : u.mid with
            | none => rw [hum] at hux; cases hux
            | some v =>
              rw [hum] at hux; cases hux
              simp [matchesSec, hum, hxm]), hux, rfl⟩

/-- the SCTP transport object keeps its DTLS transport through a section -/
theorem applyRemoteSec_sctp_transport {typ : DType} {pc pc' : Pc} {i : Nat} {m : MSec} (h : applyRemoteSec typ pc i m = .ok pc') :
    ∀ s, pc.sctp = some s → ∃ s', pc'.sctp = some s' ∧ s'.transport = s.transport := by
  intro s hs
  unfold applyRemoteSec at h
  split at h
  · have e4 := (ensureTransceiver_spec (pc.seeMid m.mid) m).2.2.2
    unfold applyRemoteMedia at h
    split at h
    · cases h
    · split at h
      · split at h
        · cases h
        · cases h
          exact ⟨s, by rw [(modTransport_frame _ _ _).2.2.1]; show ((pc.seeMid m.mid).ensureTransceiver m).sctp = some s; rw [e4]; exact hs, rfl⟩
      · cases h
      · cases h
      · cases h
  · obtain ⟨s1, hs1, hcase⟩ := ensureSctp_sctp (pc.seeMid m.mid)
    have : s1 = s := by
      rcases hcase with h1 | ⟨h1, _⟩
      · have : pc.sctp = some s1 := h1
        rw [hs] at this; exact (Option.some.inj this).symm
      · have : pc.sctp = none := h1
        rw [hs] at this; cases this
    subst this
    unfold applyRemoteApp at h
    rw [hs1] at h
    cases h
    exact ⟨_, rfl, rfl⟩

/-! ## the whole loop -/

/-- mid of the SCTP transport, if it has one -/
def Pc.sctpMid (pc : Pc) : Option String := pc.sctp.bind (·.mid)

/-- the application sections of `ms` agree with each other and with the mid the SCTP transport already has -/
structure SctpFits (pc : Pc) (ms : List MSec) : Prop where
  same : ∀ m1 ∈ ms, ∀ m2 ∈ ms, m1.kind.isMedia = false → m2.kind.isMedia = false → m1.mid = m2.mid
  old : ∀ m ∈ ms, m.kind.isMedia = false → ∀ y, pc.sctpMid = some y → y = m.mid

def AllMedia (ts : List Transceiver) : Prop := ∀ t ∈ ts, t.kind.isMedia = true

structure FoldResult (typ : DType) (K : List (Kind × String)) (pc pc' : Pc) (ms : List MSec) (i : Nat) : Prop where
  pre : Pre K pc'.transceivers
  prefs : PrefsSub pc'.transceivers pc.transceivers
  keep : ∀ x ∈ pc.transceivers, x.mid ≠ none → (∀ m ∈ ms, x.mid ≠ some m.mid) → x ∈ pc'.transceivers
  owners : ∀ (j : Nat) (m : MSec), ms[j]? = some m → m.kind.isMedia = true →
    ∃ t' ∈ pc'.transceivers, Negotiated typ m t' ∧ t'.mline = some (i + j)
  media : AllMedia pc.transceivers → AllMedia pc'.transceivers
  slots : pc'.slots = pc.slots
  seen : ∀ x, x ∈ pc'.seenMids ↔ x ∈ pc.seenMids ∨ x ∈ ms.map (·.mid)
  sctpApp : ∀ m ∈ ms, m.kind.isMedia = false → pc'.sctpMid = some m.mid
  sctpOld : pc'.sctpMid = pc.sctpMid ∨ ∃ m ∈ ms, m.kind.isMedia = false ∧ pc'.sctpMid = some m.mid
  sctpKeep : pc.sctp.isSome = true → pc'.sctp.isSome = true
  /-- the owner of a mid stays on its transport during the loop (BUNDLE comes afterwards) -/
  fwd : ∀ t ∈ pc.transceivers, ∀ x, t.mid = some x → ∃ t' ∈ pc'.transceivers, t'.mid = some x ∧ t'.transport = t.transport
  sctpTr : ∀ s, pc.sctp = some s → ∃ s', pc'.sctp = some s' ∧ s'.transport = s.transport

theorem mem_setAdd {s : List String} {m x : String} : x ∈ setAdd s m ↔ x ∈ s ∨ x = m := by
  unfold setAdd
  split
  · rename_i h
    constructor
    · intro hx; exact .inl hx
    · rintro (hx | rfl)
      · exact hx
      · simpa using h
  · simp

theorem pre_fold {typ : DType} {K : List (Kind × String)} (hnd : (K.map (·.2)).Nodup) : ∀ (ms : List MSec) (pc : Pc) (i : Nat),
    Pre K pc.transceivers → (∀ (j : Nat) (m : MSec), ms[j]? = some m → K[i + j]? = some (m.kind, m.mid)) →
    (∀ m ∈ ms, m.kind.isMedia = true → Accepts pc.transceivers m) → SctpFits pc ms →
    ∃ pc', applyRemote typ pc ms i = .ok pc' ∧ FoldResult typ K pc pc' ms i := by
  intro ms
  induction ms with
  | nil =>
    intro pc i hP _ _ _
    refine ⟨pc, by simp [applyRemote], hP, PrefsSub.refl _, fun x hx _ _ => hx, fun j m hj => (by simp at hj), fun h => h, rfl,
      fun x => (by simp), fun m hm => (by cases hm), .inl rfl, fun h => h, fun t ht x hx => ⟨t, ht, hx, rfl⟩, fun s hs => ⟨s, hs, rfl⟩⟩
  | cons m ms ih =>
    intro pc i hP hidx hacc hfit
    have hK : K[i]? = some (m.kind, m.mid) := by simpa using hidx 0 m (by simp)
    -- the step succeeds
    have hstep : ∃ pc1, applyRemoteSec typ pc i m = .ok pc1 := by
      cases hk : m.kind.isMedia
      · exact applyRemoteSec_app_ok hk
      · exact applyRemoteSec_media_ok hk (hacc m (by simp) hk)
    obtain ⟨pc1, h1⟩ := hstep
    obtain ⟨hP1, hpref1, hkeep1, hown1, hmedia1, hfwd1⟩ := pre_step hP hK hnd h1
    obtain ⟨hslots1, hseen1, hsctpM, hsctpA⟩ := applyRemoteSec_frame h1
    -- SCTP mid after the step
    have hsm1 : (m.kind.isMedia = true → pc1.sctp = pc.sctp) ∧
        (m.kind.isMedia = false → pc1.sctpMid = some m.mid ∧ pc1.sctp.isSome = true) := by
      refine ⟨hsctpM, fun hk => ?_⟩
      obtain ⟨_, s', hs', hmid⟩ := hsctpA hk
      refine ⟨?_, by simp [hs']⟩
      simp only [Pc.sctpMid, hs', Option.bind_some, hmid]
      cases hy : pc.sctp.bind (·.mid) with
      | none => simp
      | some y => have := hfit.old m (by simp) hk y hy; simp [this]
    have hfit1 : SctpFits pc1 ms := by
      refine ⟨fun a ha b hb => hfit.same a (by simp [ha]) b (by simp [hb]), ?_⟩
      intro m2 hm2 hk2 y hy
      cases hk : m.kind.isMedia
      · rw [(hsm1.2 hk).1] at hy
        cases hy
        exact hfit.same m (by simp) m2 (by simp [hm2]) hk hk2
      · have : pc1.sctpMid = pc.sctpMid := by simp [Pc.sctpMid, hsm1.1 hk]
        rw [this] at hy
        exact hfit.old m2 (by simp [hm2]) hk2 y hy
    obtain ⟨pc', h2, r⟩ := ih pc1 (i + 1) hP1
      (fun j mj hj => by have := hidx (j + 1) mj (by simpa using hj); rw [← this]; congr 1; omega)
      (fun m2 hm2 hk2 => (hacc m2 (by simp [hm2]) hk2).mono hpref1) hfit1
    have hmnot : m.mid ∉ ms.map (·.mid) := by
      intro hmem
      obtain ⟨m2, hm2, hmm⟩ := List.mem_map.mp hmem
      obtain ⟨j, hj⟩ := List.getElem?_of_mem hm2
      have h3 := hidx (j + 1) m2 (by simpa using hj)
      rw [← hmm] at hK
      have := (keys_index_inj hnd hK h3).1
      omega
    have hsctp1 : ∀ s, pc.sctp = some s → ∃ s', pc1.sctp = some s' ∧ s'.transport = s.transport := by
      intro s hs
      exact applyRemoteSec_sctp_transport h1 s hs
    refine ⟨pc', by simp only [applyRemote, h1]; exact h2, r.pre, r.prefs.trans hpref1, ?_, ?_, fun h => r.media (hmedia1 h),
      r.slots.trans hslots1, ?_, ?_, ?_, ?_, ?_, ?_⟩
    · intro x hx hxn hxm
      exact r.keep x (hkeep1 x hx hxn (hxm m (by simp))) hxn (fun m2 hm2 => hxm m2 (by simp [hm2]))
    · intro j mj hj hk
      cases j with
      | zero =>
        simp at hj; subst hj
        obtain ⟨t', ht', hN, hl⟩ := hown1 hk
        refine ⟨t', r.keep t' ht' (by rw [hN.mid]; simp) ?_, hN, by simpa using hl⟩
        intro m2 hm2
        rw [hN.mid]
        intro hh
        exact hmnot (by rw [Option.some.inj hh]; exact List.mem_map_of_mem hm2)
      | succ n =>
        obtain ⟨t', ht', hN, hl⟩ := r.owners n mj (by simpa using hj) hk
        exact ⟨t', ht', hN, by rw [hl]; congr 1; omega⟩
    · intro x
      rw [r.seen x, hseen1, mem_setAdd]
      simp only [List.map_cons, List.mem_cons]
      constructor
      · rintro ((h | h) | h)
        · exact .inl h
        · exact .inr (.inl h)
        · exact .inr (.inr h)
      · rintro (h | h | h)
        · exact .inl (.inl h)
        · exact .inl (.inr h)
        · exact .inr h
    · intro m2 hm2 hk2
      rcases List.mem_cons.mp hm2 with rfl | hm2
      · rcases r.sctpOld with h | ⟨m3, hm3, hk3, h⟩
        · rw [h]; exact (hsm1.2 hk2).1
        · rw [h, hfit.same m2 (by simp) m3 (by simp [hm3]) hk2 hk3]
      · exact r.sctpApp m2 hm2 hk2
    · rcases r.sctpOld with h | ⟨m3, hm3, hk3, h⟩
      · cases hk : m.kind.isMedia
        · exact .inr ⟨m, by simp, hk, by rw [h]; exact (hsm1.2 hk).1⟩
        · left; rw [h]; simp [Pc.sctpMid, hsm1.1 hk]
      · exact .inr ⟨m3, by simp [hm3], hk3, h⟩
    · intro hs
      apply r.sctpKeep
      cases hk : m.kind.isMedia
      · exact (hsm1.2 hk).2
      · rw [hsm1.1 hk]; exact hs
    · intro t ht x hx
      obtain ⟨t1, ht1, hm1, htr1⟩ := hfwd1 t ht x hx
      obtain ⟨t2, ht2, hm2, htr2⟩ := r.fwd t1 ht1 x hm1
      exact ⟨t2, ht2, hm2, htr2.trans htr1⟩
    · intro s hs
      obtain ⟨s1, hs1, e1⟩ := hsctp1 s hs
      obtain ⟨s2, hs2, e2⟩ := r.sctpTr s1 hs1
      exact ⟨s2, hs2, e2.trans e1⟩

end Aiortc.Model.Negotiate
