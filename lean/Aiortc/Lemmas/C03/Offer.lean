import Aiortc.Lemmas.C03.Total
/-!
C03, round 2 — `createOffer` on a well-formed connection never fails; shape of the offer and of the state it leaves.
Part 1: "handle existing transceivers / sctp" and "handle new transceivers".
-/
namespace Aiortc.Model.Negotiate
open Aiortc (Outcome)
open Aiortc.Model.Jsep (Sig)

/-- "handle existing transceivers / sctp" on a connection whose transceivers own the existing sections at the right
m-line index: nothing fails, the transceivers do not change, one section per existing section with the same key. -/
theorem offerExisting_ok {K : List (Kind × String)} (hnd : (K.map (·.2)).Nodup) : ∀ (ms : List MSec) (pc : Pc) (i : Nat),
    Lines K pc.transceivers →
    (∀ (j : Nat) (m : MSec), ms[j]? = some m → K[i + j]? = some (m.kind, m.mid)) →
    (∀ m ∈ ms, m.kind.isMedia = true → ∃ t ∈ pc.transceivers, t.mid = some m.mid) →
    (∀ m ∈ ms, m.kind.isMedia = false → pc.sctp.isSome = true) →
    ∃ pc' secs, offerExisting pc ms i = .ok (pc', secs) ∧ pc'.transceivers = pc.transceivers ∧ pc'.sctp = pc.sctp ∧
      pc'.seenMids = pc.seenMids ∧ pc'.slots = pc.slots ∧ keysOfSecs secs = keysOfSecs ms ∧
      (∀ s ∈ secs, s.setup = .auto) ∧
      (∀ s ∈ secs, s.kind.isMedia = true → ∃ t ∈ pc.transceivers, t.kind = s.kind ∧ s.codecs = t.codecs) := by
  intro ms
  induction ms with
  | nil =>
    intro pc i _ _ _ _
    exact ⟨pc, [], by simp [offerExisting], rfl, rfl, rfl, rfl, rfl, by simp, by simp⟩
  | cons m ms ih =>
    intro pc i hlines hidx hown hsctp
    have hK : K[i]? = some (m.kind, m.mid) := by simpa using hidx 0 m (by simp)
    have hidx' : ∀ (j : Nat) (mj : MSec), ms[j]? = some mj → K[i + 1 + j]? = some (mj.kind, mj.mid) := by
      intro j mj hj
      have := hidx (j + 1) mj (by simpa using hj)
      rw [← this]; congr 1; omega
    simp only [offerExisting]
    cases hk : m.kind.isMedia
    · -- application
      simp only [Bool.false_eq_true, if_false]
      have hs := hsctp m (by simp) hk
      split
      · rename_i hnone; rw [hnone] at hs; cases hs
      rename_i s hs'
      obtain ⟨pc', secs, h1, h2, h3, h4, h5, h6, h7, h8⟩ := ih { pc with sctpMline := some i } (i + 1) hlines hidx'
        (fun m2 hm2 hk2 => hown m2 (by simp [hm2]) hk2) (fun m2 hm2 hk2 => hsctp m2 (by simp [hm2]) hk2)
      rw [h1]
      refine ⟨pc', _, rfl, h2, h3, h4, h5, ?_, ?_, ?_⟩
      · simp only [keysOfSecs, List.map_cons] at h6 ⊢
        rw [h6]
        simp [Pc.secForSctp, kind_not_media hk]
      · intro x hx
        rcases List.mem_cons.mp hx with rfl | hx
        · rfl
        · exact h7 x hx
      · intro x hx hkx
        rcases List.mem_cons.mp hx with rfl | hx
        · simp [Pc.secForSctp, Kind.isMedia] at hkx
        · exact h8 x hx hkx
    · -- audio / video
      simp only [if_true]
      obtain ⟨t0, ht0, ht0m⟩ := hown m (by simp) hk
      -- the first transceiver with that mid
      have hfind : ∃ t, pc.byMid m.mid = some t := by
        unfold Pc.byMid
        cases hf : pc.transceivers.find? (fun t => t.mid == some m.mid) with
        | some t => exact ⟨t, rfl⟩
        | none =>
          have := List.find?_eq_none.mp hf t0 ht0
          simp [ht0m] at this
      obtain ⟨t, ht⟩ := hfind
      rw [ht]
      simp only
      have htmem : t ∈ pc.transceivers := List.mem_of_find?_eq_some ht
      have htmid : t.mid = some m.mid := by simpa using List.find?_some ht
      -- every transceiver with that mid already has m-line index i and the kind of the section
      have hall : ∀ x ∈ pc.transceivers, x.mid = some m.mid → x.mline = some i ∧ x.kind = m.kind := by
        intro x hx hxm
        rcases hlines x hx with ⟨h1, _⟩ | ⟨j, y, hj, hy, hl⟩
        · rw [h1] at hxm; cases hxm
        · rw [hy] at hxm; cases hxm
          obtain ⟨e1, e2⟩ := keys_index_inj hnd hj hK
          subst e1
          exact ⟨hl, e2⟩
      obtain ⟨ts, hupd⟩ := updFirst_isSome (f := fun t : Transceiver => { t with mline := some i }) ht
      rw [hupd]
      simp only
      have hid : ts = pc.transceivers := by
        refine updFirst_id hupd ?_
        intro x hx hpx
        have hxm : x.mid = some m.mid := by simpa using hpx
        have := (hall x hx hxm).1
        cases x; simp_all
      subst hid
      obtain ⟨pc', secs, h1, h2, h3, h4, h5, h6, h7, h8⟩ := ih pc (i + 1) hlines hidx'
        (fun m2 hm2 hk2 => hown m2 (by simp [hm2]) hk2) (fun m2 hm2 hk2 => hsctp m2 (by simp [hm2]) hk2)
      have : ({ pc with transceivers := pc.transceivers } : Pc) = pc := rfl
      rw [this, h1]
      refine ⟨pc', _, rfl, h2, h3, h4, h5, ?_, ?_, ?_⟩
      · simp only [keysOfSecs, List.map_cons] at h6 ⊢
        rw [h6]
        simp [Pc.secForTransceiver, (hall t htmem htmid).2]
      · intro x hx
        rcases List.mem_cons.mp hx with rfl | hx
        · rfl
        · exact h7 x hx
      · intro x hx hkx
        rcases List.mem_cons.mp hx with rfl | hx
        · exact ⟨t, htmem, rfl, rfl⟩
        · exact h8 x hx hkx

theorem Rel2.mem_right {α β} {R : α → β → Prop} {l1 : List α} {l2 : List β} (h : Rel2 R l1 l2) :
    ∀ b ∈ l2, ∃ a ∈ l1, R a b := by
  induction h with
  | nil => intro b hb; cases hb
  | cons hr _ ih =>
    intro b hb
    rcases List.mem_cons.mp hb with rfl | hb
    · exact ⟨_, by simp, hr⟩
    · obtain ⟨a, ha, hab⟩ := ih b hb
      exact ⟨a, by simp [ha], hab⟩

theorem Rel2.mem_left {α β} {R : α → β → Prop} {l1 : List α} {l2 : List β} (h : Rel2 R l1 l2) :
    ∀ a ∈ l1, ∃ b ∈ l2, R a b := by
  induction h with
  | nil => intro a ha; cases ha
  | cons hr _ ih =>
    intro a ha
    rcases List.mem_cons.mp ha with rfl | ha
    · exact ⟨_, by simp, hr⟩
    · obtain ⟨b, hb, hab⟩ := ih a ha
      exact ⟨b, by simp [hb], hab⟩

/-! ## "handle new transceivers" -/

/-- result of "handle new transceivers" starting at m-line index `n` -/
structure NewSpec (ts ts' : List Transceiver) (secs : List MSec) (n : Nat) (mids mids' : List String) : Prop where
  /-- nothing but m-line indices changes, and only on transceivers without a mid -/
  rel : Rel2 (fun t t' => t' = { t with mline := t'.mline } ∧ (t.mid ≠ none → t'.mline = t.mline) ∧
      (t.mid = none → ∃ (k : Nat) (s : MSec), t'.mline = some (n + k) ∧ secs[k]? = some s ∧ s.kind = t.kind ∧ s.codecs = t.codecs)) ts ts'
  /-- every new section has its transceiver -/
  each : ∀ (k : Nat), k < secs.length → ∃ t' ∈ ts', t'.mid = none ∧ t'.mline = some (n + k)
  /-- new m-line indices are pairwise different -/
  distinct : ts'.Pairwise (fun a b => a.mid = none → b.mid = none → a.mline ≠ b.mline)
  setup : ∀ s ∈ secs, s.setup = .auto
  mids' : mids' = mids ++ secs.map (·.mid)
  nodup : (secs.map (·.mid)).Nodup
  fresh : ∀ x ∈ secs.map (·.mid), x ∉ mids

theorem offerNew_ok (pc : Pc) : ∀ (ts : List Transceiver) (n : Nat) (mids : List String),
    ∃ ts' secs mids', offerNew pc ts n mids = .ok (ts', secs, mids') ∧ NewSpec ts ts' secs n mids mids' := by
  intro ts
  induction ts with
  | nil =>
    intro n mids
    exact ⟨[], [], mids, rfl, .nil, fun k hk => by simp at hk, .nil, by simp, by simp, by simp, by simp⟩
  | cons t ts ih =>
    intro n mids
    simp only [offerNew]
    by_cases htm : t.mid = none
    case neg =>
      have hisn : t.mid.isNone = false := by cases h : t.mid <;> simp_all
      simp only [hisn, Bool.false_eq_true, if_false]
      obtain ⟨ts', secs, mids', h1, r⟩ := ih n mids
      rw [h1]
      refine ⟨t :: ts', secs, mids', rfl, ?_, ?_, ?_, r.setup, r.mids', r.nodup, r.fresh⟩
      · exact .cons ⟨rfl, fun _ => rfl, fun h => absurd h htm⟩ r.rel
      · intro k hk
        obtain ⟨t', ht', h2, h3⟩ := r.each k hk
        exact ⟨t', by simp [ht'], h2, h3⟩
      · refine List.pairwise_cons.mpr ⟨?_, r.distinct⟩
        intro b _ ha; exact absurd ha htm
    case pos =>
      have hisn : t.mid.isNone = true := by simp [htm]
      simp only [hisn, if_true]
      obtain ⟨m, hal⟩ := allocateMid_ok mids
      rw [hal]
      simp only
      obtain ⟨ts', secs, mids', h1, r⟩ := ih (n + 1) (mids ++ [m])
      rw [h1]
      have hfresh := (allocateMid_fresh hal).1
      refine ⟨_, _, mids', rfl, ?_, ?_, ?_, ?_, ?_, ?_, ?_⟩
      · refine .cons ⟨rfl, fun h => absurd htm h, fun _ => ⟨0, pc.secForTransceiver t t.direction m, rfl, by simp, rfl, rfl⟩⟩ ?_
        -- shift the index of the tail's sections by one
        have : ∀ {l1 l2 : List Transceiver}, Rel2 (fun u u' => u' = { u with mline := u'.mline } ∧ (u.mid ≠ none → u'.mline = u.mline) ∧
            (u.mid = none → ∃ (k : Nat) (s : MSec), u'.mline = some (n + 1 + k) ∧ secs[k]? = some s ∧ s.kind = u.kind ∧ s.codecs = u.codecs)) l1 l2 →
            Rel2 (fun u u' => u' = { u with mline := u'.mline } ∧ (u.mid ≠ none → u'.mline = u.mline) ∧
            (u.mid = none → ∃ (k : Nat) (s : MSec), u'.mline = some (n + k) ∧ (pc.secForTransceiver t t.direction m :: secs)[k]? = some s ∧
              s.kind = u.kind ∧ s.codecs = u.codecs)) l1 l2 := by
          intro l1 l2 hr
          induction hr with
          | nil => exact .nil
          | cons hh _ ih2 =>
            refine .cons ⟨hh.1, hh.2.1, fun hn => ?_⟩ ih2
            obtain ⟨k, s, e1, e2, e3, e4⟩ := hh.2.2 hn
            exact ⟨k + 1, s, by rw [e1]; congr 1; omega, by simpa using e2, e3, e4⟩
        exact this r.rel
      · intro k hk
        cases k with
        | zero => exact ⟨{ t with mline := some n }, by simp, htm, rfl⟩
        | succ k' =>
          obtain ⟨t', ht', h2, h3⟩ := r.each k' (by simpa using hk)
          exact ⟨t', by simp [ht'], h2, by rw [h3]; congr 1; omega⟩
      · refine List.pairwise_cons.mpr ⟨?_, r.distinct⟩
        intro b hb _ hbn
        -- b is a transceiver of the tail without mid: its index is ≥ n + 1
        obtain ⟨t0, _, hrel⟩ := r.rel.mem_right b hb
        have hb0 : t0.mid = none := by rw [hrel.1] at hbn; exact hbn
        obtain ⟨k, s, e1, _⟩ := hrel.2.2 hb0
        simp only
        rw [e1]
        intro h; simp at h; omega
      · intro s hs
        rcases List.mem_cons.mp hs with rfl | hs
        · rfl
        · exact r.setup s hs
      · rw [r.mids']; simp [Pc.secForTransceiver]
      · simp only [List.map_cons, List.nodup_cons]
        refine ⟨?_, r.nodup⟩
        intro hmem
        exact r.fresh _ hmem (by simp [Pc.secForTransceiver])
      · intro x hx
        simp only [List.map_cons, List.mem_cons] at hx
        rcases hx with rfl | hx
        · simpa [Pc.secForTransceiver] using hfresh
        · intro hxm
          exact r.fresh x hx (by simp [hxm])

end Aiortc.Model.Negotiate
