import Aiortc.Lemmas.C03.Offer
set_option linter.unusedSimpArgs false
/-!
C03, round 2 — `createOffer` on a well-formed connection: it succeeds, and what the offer and the connection look like.
-/
namespace Aiortc.Model.Negotiate
open Aiortc (Outcome)
open Aiortc.Model.Jsep (Sig)

theorem mergeMedia_same_keys : ∀ (l r : List MSec), keysOfSecs r = keysOfSecs l → mergeMedia l r = l := by
  intro l
  induction l with
  | nil =>
    intro r h
    cases r with
    | nil => rfl
    | cons b bs => simp [keysOfSecs] at h
  | cons a as ih =>
    intro r h
    cases r with
    | nil => simp [keysOfSecs] at h
    | cons b bs =>
      simp only [keysOfSecs, List.map_cons, List.cons.injEq] at h
      simp only [mergeMedia]
      rw [ih bs h.2]

/-- the existing sections `createOffer` walks over are those of `localDescription` -/
theorem existingMedia_keys {pc : Pc} (h : WF pc) : keysOfSecs pc.existingMedia = pc.keys := by
  have hr := h.rkeys
  unfold Pc.existingMedia Pc.keys at *
  cases hl : pc.localDesc with
  | none =>
    rw [hl] at hr
    cases hrd : pc.remoteDesc with
    | none => simp [mergeMedia, keysOfSecs]
    | some r =>
      rw [hrd] at hr
      simp only [Option.map_some, Option.getD_some, Option.map_none, Option.getD_none] at hr
      have : r.media = [] := by simpa [keysOf] using hr
      simp [mergeMedia, keysOfSecs, this]
  | some l =>
    rw [hl] at hr
    cases hrd : pc.remoteDesc with
    | none =>
      rw [hrd] at hr
      simp only [Option.map_some, Option.getD_some, Option.map_none, Option.getD_none] at hr
      have : l.media = [] := by simpa [keysOf] using hr.symm
      simp [mergeMedia, keysOfSecs, this, keysOf]
    | some r =>
      rw [hrd] at hr
      simp only [Option.map_some, Option.getD_some] at hr ⊢
      rw [mergeMedia_same_keys l.media r.media (by simpa [keysOf, keysOfSecs] using hr)]
      rfl

/-- What `createOffer` leaves: the offer `d` and the connection `o1` (only m-line indices, codecs and header extensions
of the transceivers differ from `o`). -/
structure OfferMade (o o1 : Pc) (d : Desc) : Prop where
  type : d.type = .offer
  bundle : d.bundle = d.media.map (·.mid)
  /-- existing sections keep kind, mid and position -/
  pref : ∃ rest, keysOf d = o.keys ++ rest
  nodup : ((keysOf d).map (·.2)).Nodup
  /-- mids of new sections were never seen before -/
  fresh : ∀ (j : Nat) (kx : Kind × String), o.keys.length ≤ j → (keysOf d)[j]? = some kx → kx.2 ∉ o.seenMids
  setup : ∀ m ∈ d.media, m.setup = .auto
  codecs : ∀ m ∈ d.media, m.kind.isMedia = true → ∃ t ∈ o.transceivers, t.kind = m.kind ∧ m.codecs = offered t.kind t.preferred
  app : ∀ m ∈ d.media, m.kind.isMedia = false → o.sctp.isSome = true ∧ (o.sctpMid = some m.mid ∨ o.sctpMid = none)
  appSame : ∀ m1 ∈ d.media, ∀ m2 ∈ d.media, m1.kind.isMedia = false → m2.kind.isMedia = false → m1.mid = m2.mid
  appOld : ∀ x, o.sctpMid = some x → (Kind.application, x) ∈ keysOf d
  slots : o1.slots = o.slots
  seen : o1.seenMids = o.seenMids
  sctp : o1.sctp = o.sctp
  lines : ∀ t ∈ o1.transceivers, ∃ (j : Nat) (m : MSec), t.mline = some j ∧ d.media[j]? = some m ∧ m.kind = t.kind ∧
    m.kind.isMedia = true ∧ (t.mid = some m.mid ∨ t.mid = none)
  each : ∀ (j : Nat) (m : MSec), d.media[j]? = some m → m.kind.isMedia = true → ∃ t ∈ o1.transceivers, t.mline = some j
  distinct : DistinctLines o1.transceivers
  prefs : PrefsSub o1.transceivers o.transceivers
  media : AllMedia o1.transceivers

theorem Rel2.pairwise {α β} {R : α → β → Prop} {P : α → α → Prop} {Q : β → β → Prop} {l1 : List α} {l2 : List β}
    (h : Rel2 R l1 l2) (hp : l1.Pairwise P)
    (hq : ∀ a ∈ l1, ∀ b ∈ l1, ∀ a' b', R a a' → R b b' → P a b → Q a' b') : l2.Pairwise Q := by
  induction h with
  | nil => exact .nil
  | @cons a a' l1 l2 hr hrest ih =>
    obtain ⟨ha, has⟩ := List.pairwise_cons.mp hp
    refine List.pairwise_cons.mpr ⟨?_, ih has (fun x hx y hy => hq x (by simp [hx]) y (by simp [hy]))⟩
    intro b' hb'
    obtain ⟨b, hb, hbb⟩ := hrest.mem_right b' hb'
    exact hq a (by simp) b (by simp [hb]) a' b' hr hbb (ha b hb)

theorem keys_getElem {d : List MSec} {j : Nat} {m : MSec} (h : d[j]? = some m) :
    (keysOfSecs d)[j]? = some (m.kind, m.mid) := by simp [keysOfSecs, h]

theorem keys_getElem_inv {d : List MSec} {j : Nat} {kx : Kind × String} (h : (keysOfSecs d)[j]? = some kx) :
    ∃ m, d[j]? = some m ∧ kx = (m.kind, m.mid) := by
  simp only [keysOfSecs, List.getElem?_map, Option.map_eq_some_iff] at h
  obtain ⟨m, hm, he⟩ := h
  exact ⟨m, hm, he.symm⟩

/-- **`createOffer` never fails on a well-formed connection.** -/
theorem createOffer_ok {o : Pc} (h : WF o) : ∃ o1 d, o.createOffer = .ok (o1, d) ∧ OfferMade o o1 d := by
  have hex := existingMedia_keys h
  have hshape : (o.transceivers.map offerFn).map shape = o.transceivers.map shape := by
    rw [List.map_map]; rfl
  have hpre0 : Pre o.keys (o.transceivers.map offerFn) := h.pre.congr hshape
  -- "handle existing"
  have hidx : ∀ (j : Nat) (m : MSec), o.existingMedia[j]? = some m → o.keys[0 + j]? = some (m.kind, m.mid) := by
    intro j m hj
    rw [← hex]; simpa using keys_getElem hj
  obtain ⟨pc1, secs1, hE, e1, e2, e3, e4, e5, e6, e7⟩ := offerExisting_ok h.nodup o.existingMedia
    { o with transceivers := o.transceivers.map offerFn } 0 hpre0.lines hidx
    (by
      intro m hm hk
      obtain ⟨j, hj⟩ := List.getElem?_of_mem hm
      have := hidx j m hj
      obtain ⟨t, ht, htm⟩ := h.owned (0 + j) m.kind m.mid this hk
      exact ⟨offerFn t, List.mem_map_of_mem ht, htm⟩)
    (by
      intro m hm hk
      obtain ⟨j, hj⟩ := List.getElem?_of_mem hm
      have := hidx j m hj
      rw [kind_not_media hk] at this
      have := h.sctpHas m.mid (List.mem_of_getElem? this)
      simp only [Pc.sctpMid] at this
      cases hs : o.sctp with
      | none => simp [hs] at this
      | some s => rfl)
  -- "handle new"
  obtain ⟨ts2, secs2, mids2, hN, r⟩ := offerNew_ok pc1 pc1.transceivers secs1.length pc1.seenMids
  have hlen1 : secs1.length = o.keys.length := by
    have := congrArg List.length e5
    simp only [keysOfSecs, List.length_map] at this
    rw [this, ← hex]; simp [keysOfSecs]
  have hk1 : keysOfSecs secs1 = o.keys := e5.trans hex
  -- the SCTP section
  have hfin : ∃ o1 d tail, Pc.offerFinish { pc1 with transceivers := ts2 } (secs1 ++ secs2) mids2 = .ok (o1, d) ∧
      o1.transceivers = ts2 ∧ o1.slots = o.slots ∧ o1.seenMids = o.seenMids ∧ o1.sctp = o.sctp ∧
      d.type = .offer ∧ d.bundle = d.media.map (·.mid) ∧ d.media = secs1 ++ secs2 ++ tail ∧
      (∀ m ∈ tail, m.kind.isMedia = false ∧ m.setup = .auto ∧ m.mid ∉ mids2 ∧ o.sctp.isSome = true ∧ o.sctpMid = none) ∧
      tail.length ≤ 1 ∧ (o.sctp.isSome = true → o.sctpMid = none → tail ≠ []) := by
    unfold Pc.offerFinish
    simp only [e2]
    cases hs : o.sctp with
    | none =>
      exact ⟨_, _, [], rfl, rfl, e4, e3, by simp [e2, hs], rfl, rfl, by simp, by simp, by simp, by simp [hs]⟩
    | some s =>
      simp only
      cases hsm : s.mid with
      | some x =>
        simp only [Option.isNone_some, Bool.false_eq_true, if_false]
        exact ⟨_, _, [], rfl, rfl, e4, e3, by simp [e2, hs], rfl, rfl, by simp, by simp, by simp,
          by intro _ hn; simp [Pc.sctpMid, hs, hsm] at hn⟩
      | none =>
        simp only [Option.isNone_none, if_true]
        obtain ⟨m, hal⟩ := allocateMid_ok mids2
        rw [hal]
        refine ⟨_, _, [Pc.secForSctp { pc1 with transceivers := ts2 } s m], rfl, rfl, e4, e3, by simp [e2, hs], rfl, rfl, rfl, ?_,
          by simp, by simp⟩
        intro x hx
        simp at hx; subst hx
        exact ⟨rfl, rfl, (allocateMid_fresh hal).1, rfl, by simp [Pc.sctpMid, hs, hsm]⟩
  obtain ⟨o1, d, tail, hF, f1, f2, f3, f4, f5, f6, f7, f8, f9, f10⟩ := hfin
  have hco : o.createOffer = .ok (o1, d) := by
    unfold Pc.createOffer
    have hsig : (o.sig == Sig.closed) = false := by rw [h.stable]; rfl
    simp only [hsig, Bool.false_eq_true, if_false, offerCodecs_eq, hE, hN]
    exact hF
  refine ⟨o1, d, hco, ?_⟩
  have hkd : keysOf d = o.keys ++ (keysOfSecs secs2 ++ keysOfSecs tail) := by
    simp only [keysOf, f7, List.map_append]
    rw [show List.map (fun m => (m.kind, m.mid)) secs1 = keysOfSecs secs1 from rfl, hk1]
    simp [keysOfSecs]
  have hseen1 : pc1.seenMids = o.seenMids := e3
  have hts1 : pc1.transceivers = o.transceivers.map offerFn := e1
  have hmids2 : mids2 = o.seenMids ++ secs2.map (·.mid) := by rw [r.mids', hseen1]
  -- transceivers of pc1 are those of `o` up to codecs / header extensions
  have hback : ∀ t0 ∈ pc1.transceivers, ∃ t ∈ o.transceivers, t0 = offerFn t := by
    intro t0 ht0; rw [hts1] at ht0
    obtain ⟨t, ht, rfl⟩ := List.mem_map.mp ht0
    exact ⟨t, ht, rfl⟩
  have hlines1 : Lines o.keys pc1.transceivers := by rw [hts1]; exact hpre0.lines
  -- every new section comes from a transceiver without mid
  have hsecs2 : ∀ (k : Nat) (s : MSec), secs2[k]? = some s → ∃ t ∈ o.transceivers, t.mid = none ∧ s.kind = t.kind ∧
      s.codecs = offered t.kind t.preferred := by
    intro k s hk
    obtain ⟨t', ht', hm', hl'⟩ := r.each k (List.getElem?_eq_some_iff.mp hk).1
    obtain ⟨t0, ht0, hrel⟩ := r.rel.mem_right t' ht'
    have ht0m : t0.mid = none := by rw [hrel.1] at hm'; exact hm'
    obtain ⟨k', s', el, es, ek, ec⟩ := hrel.2.2 ht0m
    rw [hl'] at el
    have : k = k' := by simp at el; omega
    subst this
    rw [hk] at es; cases es
    obtain ⟨t, ht, rfl⟩ := hback t0 ht0
    exact ⟨t, ht, ht0m, ek, ec⟩
  have hsecs2media : ∀ s ∈ secs2, s.kind.isMedia = true := by
    intro s hs
    obtain ⟨k, hk⟩ := List.getElem?_of_mem hs
    obtain ⟨t, ht, _, e, _⟩ := hsecs2 k s hk
    rw [e]; exact h.media t ht
  have hKmids : ∀ kx ∈ o.keys, kx.2 ∈ o.seenMids := h.seen
  have hsecs1app : ∀ m ∈ secs1, m.kind.isMedia = false → o.sctpMid = some m.mid := by
    intro m hm hk
    have : (m.kind, m.mid) ∈ o.keys := by rw [← hk1]; exact List.mem_map_of_mem hm
    rw [kind_not_media hk] at this
    exact h.sctpHas m.mid this
  have hmem_d : ∀ m ∈ d.media, m ∈ secs1 ∨ m ∈ secs2 ∨ m ∈ tail := by
    intro m hm; rw [f7] at hm
    simp only [List.mem_append] at hm
    rcases hm with (h1 | h1) | h1
    · exact .inl h1
    · exact .inr (.inl h1)
    · exact .inr (.inr h1)
  have hget1 : ∀ (j : Nat) (m : MSec), secs1[j]? = some m → d.media[j]? = some m := by
    intro j m hj
    rw [f7, List.append_assoc, List.getElem?_append_left (List.getElem?_eq_some_iff.mp hj).1]; exact hj
  have hget2 : ∀ (k : Nat) (m : MSec), secs2[k]? = some m → d.media[secs1.length + k]? = some m := by
    intro k m hk
    rw [f7, List.append_assoc, List.getElem?_append_right (by omega)]
    simp only [Nat.add_sub_cancel_left]
    rw [List.getElem?_append_left (List.getElem?_eq_some_iff.mp hk).1]; exact hk
  -- transceivers of o1, one by one
  have hts2 : ∀ t2 ∈ ts2, ∃ t ∈ o.transceivers, t2 = { offerFn t with mline := t2.mline } ∧
      ((t.mid ≠ none ∧ t2.mline = t.mline) ∨
       (t.mid = none ∧ ∃ (k : Nat) (s : MSec), t2.mline = some (secs1.length + k) ∧ secs2[k]? = some s ∧ s.kind = t.kind)) := by
    intro t2 ht2
    obtain ⟨t0, ht0, hrel⟩ := r.rel.mem_right t2 ht2
    obtain ⟨t, ht, rfl⟩ := hback t0 ht0
    refine ⟨t, ht, hrel.1, ?_⟩
    by_cases hm : t.mid = none
    · obtain ⟨k, s, e1', e2', e3', _⟩ := hrel.2.2 hm
      exact .inr ⟨hm, k, s, e1', e2', e3'⟩
    · exact .inl ⟨hm, hrel.2.1 hm⟩
  refine { type := f5, bundle := f6, pref := ⟨_, hkd⟩, nodup := ?_, fresh := ?_, setup := ?_, codecs := ?_, app := ?_, appSame := ?_,
           appOld := ?_, slots := f2, seen := f3, sctp := f4, lines := ?_, each := ?_, distinct := ?_, prefs := ?_, media := ?_ }
  · -- nodup
    rw [hkd]
    simp only [List.map_append]
    refine List.nodup_append.mpr ⟨h.nodup, ?_, ?_⟩
    · refine List.nodup_append.mpr ⟨by simpa [keysOfSecs, Function.comp_def] using r.nodup, ?_, ?_⟩
      · match tail, f9 with
        | [], _ => simp [keysOfSecs]
        | [x], _ => simp [keysOfSecs]
      · intro a ha b hb hab
        simp only [keysOfSecs, List.map_map, List.mem_map, Function.comp] at ha hb
        obtain ⟨mb, hmb, rfl⟩ := hb
        obtain ⟨ma, hma, rfl⟩ := ha
        have := (f8 mb hmb).2.2.1
        rw [hmids2] at this
        apply this
        simp only [List.mem_append, List.mem_map]
        exact .inr ⟨ma, hma, hab⟩
    · intro a ha b hb hab
      obtain ⟨kx, hkx, rfl⟩ := List.mem_map.mp ha
      have hseen := hKmids kx hkx
      rcases List.mem_append.mp hb with hb | hb
      · simp only [keysOfSecs, List.map_map, List.mem_map, Function.comp] at hb
        obtain ⟨mb, hmb, hmbe⟩ := hb
        refine r.fresh mb.mid (List.mem_map_of_mem hmb) ?_
        rw [hseen1, hmbe, ← hab]; exact hseen
      · simp only [keysOfSecs, List.map_map, List.mem_map, Function.comp] at hb
        obtain ⟨mb, hmb, hmbe⟩ := hb
        have := (f8 mb hmb).2.2.1
        rw [hmids2] at this
        apply this
        rw [hmbe, ← hab]
        simp [hseen]
  · -- fresh
    intro j kx hj hkx
    rw [hkd, List.getElem?_append_right hj] at hkx
    have hmem := List.mem_of_getElem? hkx
    rcases List.mem_append.mp hmem with hb | hb
    · simp only [keysOfSecs, List.mem_map] at hb
      obtain ⟨mb, hmb, rfl⟩ := hb
      have := r.fresh mb.mid (List.mem_map_of_mem hmb)
      rw [hseen1] at this; exact this
    · simp only [keysOfSecs, List.mem_map] at hb
      obtain ⟨mb, hmb, rfl⟩ := hb
      have := (f8 mb hmb).2.2.1
      rw [hmids2] at this
      intro hh; exact this (by simp [hh])
  · intro m hm
    rcases hmem_d m hm with h1 | h1 | h1
    · exact e6 m h1
    · exact r.setup m h1
    · exact (f8 m h1).2.1
  · intro m hm hk
    rcases hmem_d m hm with h1 | h1 | h1
    · obtain ⟨t0, ht0, ek, ec⟩ := e7 m h1 hk
      obtain ⟨t, ht, rfl⟩ := hback t0 (by rw [e1]; exact ht0)
      exact ⟨t, ht, ek, ec⟩
    · obtain ⟨k, hk2⟩ := List.getElem?_of_mem h1
      obtain ⟨t, ht, _, ek, ec⟩ := hsecs2 k m hk2
      exact ⟨t, ht, ek.symm, ec⟩
    · rw [(f8 m h1).1] at hk; cases hk
  · intro m hm hk
    rcases hmem_d m hm with h1 | h1 | h1
    · have := hsecs1app m h1 hk
      refine ⟨?_, .inl this⟩
      simp only [Pc.sctpMid] at this
      cases hs : o.sctp with
      | none => simp [hs] at this
      | some s => rfl
    · rw [hsecs2media m h1] at hk; cases hk
    · exact ⟨(f8 m h1).2.2.2.1, .inr (f8 m h1).2.2.2.2⟩
  · intro m1 hm1 m2 hm2 hk1' hk2'
    rcases hmem_d m1 hm1 with a1 | a1 | a1
    · rcases hmem_d m2 hm2 with a2 | a2 | a2
      · have := hsecs1app m1 a1 hk1'
        rw [hsecs1app m2 a2 hk2'] at this
        exact (Option.some.inj this).symm
      · rw [hsecs2media m2 a2] at hk2'; cases hk2'
      · have := hsecs1app m1 a1 hk1'
        rw [(f8 m2 a2).2.2.2.2] at this; cases this
    · rw [hsecs2media m1 a1] at hk1'; cases hk1'
    · rcases hmem_d m2 hm2 with a2 | a2 | a2
      · have := hsecs1app m2 a2 hk2'
        rw [(f8 m1 a1).2.2.2.2] at this; cases this
      · rw [hsecs2media m2 a2] at hk2'; cases hk2'
      · match tail, f9, a1, a2 with
        | [x], _, b1, b2 => simp at b1 b2; rw [b1, b2]
  · intro x hx
    have := h.sctpIn x hx
    rw [hkd]; simp [this]
  · -- lines
    intro t2 ht2
    rw [f1] at ht2
    obtain ⟨t, ht, he, hcase⟩ := hts2 t2 ht2
    have hk2 : t2.kind = t.kind := by rw [he]; rfl
    have hm2 : t2.mid = t.mid := by rw [he]; rfl
    rcases hcase with ⟨hm, hl⟩ | ⟨hm, k, s, hl, hs, hsk⟩
    · rcases h.pre.lines t ht with ⟨h1, _⟩ | ⟨j, x, hj, hx, hl0⟩
      · exact absurd h1 hm
      · have hjs : (keysOfSecs secs1)[j]? = some (t.kind, x) := by rw [hk1]; exact hj
        obtain ⟨m, hmj, hme⟩ := keys_getElem_inv hjs
        simp only [Prod.mk.injEq] at hme
        refine ⟨j, m, by rw [hl, hl0], hget1 j m hmj, by rw [hk2, hme.1], by rw [← hme.1]; exact h.media t ht, .inl ?_⟩
        rw [hm2, hx, hme.2]
    · exact ⟨secs1.length + k, s, hl, hget2 k s hs, by rw [hk2, hsk], by rw [hsk]; exact h.media t ht, .inr (by rw [hm2, hm])⟩
  · -- each
    intro j m hj hk
    rw [f1]
    by_cases hjn : j < secs1.length
    · have hj1 : secs1[j]? = some m := by
        rw [f7, List.append_assoc, List.getElem?_append_left hjn] at hj; exact hj
      have hKj : o.keys[j]? = some (m.kind, m.mid) := by rw [← hk1]; exact keys_getElem hj1
      obtain ⟨t, ht, htm⟩ := h.owned j m.kind m.mid hKj hk
      -- its image in ts2
      obtain ⟨t0', ht0', hrel⟩ := r.rel.mem_left (offerFn t) (by rw [hts1]; exact List.mem_map_of_mem ht)
      refine ⟨t0', ht0', ?_⟩
      rw [hrel.2.1 (by show t.mid ≠ none; rw [htm]; simp)]
      show t.mline = some j
      rcases h.pre.lines t ht with ⟨h1, _⟩ | ⟨j', x, hj', hx, hl0⟩
      · rw [h1] at htm; cases htm
      · rw [hx] at htm; cases htm
        rw [hl0, (keys_index_inj h.nodup hj' hKj).1]
    · have hjn' : secs1.length ≤ j := by omega
      rw [f7, List.append_assoc, List.getElem?_append_right hjn'] at hj
      by_cases hj2 : j - secs1.length < secs2.length
      · obtain ⟨t', ht', _, hl'⟩ := r.each (j - secs1.length) hj2
        exact ⟨t', ht', by rw [hl']; congr 1; omega⟩
      · rw [List.getElem?_append_right (by omega)] at hj
        have := (f8 m (List.mem_of_getElem? hj)).1
        rw [this] at hk; cases hk
  · -- distinct m-line indices
    rw [f1]
    unfold DistinctLines
    have hA : ts2.Pairwise (fun a b => (a.mid ≠ none ∨ b.mid ≠ none) → a.mline ≠ b.mline) := by
      refine Rel2.pairwise r.rel (by rw [hts1]; exact hpre0.unique) ?_
      intro a ha b hb a' b' hra hrb hab hor
      have hma : a'.mid = a.mid := by rw [hra.1]
      have hmb : b'.mid = b.mid := by rw [hrb.1]
      have hbound : ∀ x ∈ pc1.transceivers, x.mid ≠ none → ∃ (j : Nat) (y : String), o.keys[j]? = some (x.kind, y) ∧ x.mid = some y ∧ x.mline = some j := by
        intro x hx hxm
        rcases hlines1 x hx with ⟨h1, _⟩ | hh
        · exact absurd h1 hxm
        · exact hh
      by_cases hna : a.mid = none
      · obtain ⟨k, _, ela, _⟩ := hra.2.2 hna
        have hnb : b.mid ≠ none := by
          rcases hor with h1 | h1
          · rw [hma] at h1; exact absurd hna h1
          · rw [hmb] at h1; exact h1
        obtain ⟨j, y, hj, _, hl⟩ := hbound b hb hnb
        rw [ela, hrb.2.1 hnb, hl]
        have : j < o.keys.length := (List.getElem?_eq_some_iff.mp hj).1
        intro hh; simp at hh; omega
      · obtain ⟨ja, ya, hja, hya, hla⟩ := hbound a ha hna
        by_cases hnb : b.mid = none
        · obtain ⟨k, _, elb, _⟩ := hrb.2.2 hnb
          rw [elb, hra.2.1 hna, hla]
          have : ja < o.keys.length := (List.getElem?_eq_some_iff.mp hja).1
          intro hh; simp at hh; omega
        · obtain ⟨jb, yb, hjb, hyb, hlb⟩ := hbound b hb hnb
          rw [hra.2.1 hna, hrb.2.1 hnb, hla, hlb]
          intro hh
          have : ja = jb := by simpa using hh
          subst this
          rw [hja] at hjb
          simp only [Option.some.injEq, Prod.mk.injEq] at hjb
          exact hab hna (by rw [hya, hyb, hjb.2])
    refine (hA.and r.distinct).imp ?_
    intro a b hab
    by_cases hna : a.mid = none
    · by_cases hnb : b.mid = none
      · exact hab.2 hna hnb
      · exact hab.1 (.inr hnb)
    · exact hab.1 (.inl hna)
  · -- preferences
    intro t2 ht2
    rw [f1] at ht2
    obtain ⟨t, ht, he, _⟩ := hts2 t2 ht2
    exact .inr ⟨t, ht, by rw [he]; rfl, by rw [he]; rfl⟩
  · intro t2 ht2
    rw [f1] at ht2
    obtain ⟨t, ht, he, _⟩ := hts2 t2 ht2
    rw [he]; exact h.media t ht

end Aiortc.Model.Negotiate
