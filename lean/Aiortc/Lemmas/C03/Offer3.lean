import Aiortc.Lemmas.C03.Offer2
set_option linter.unusedSimpArgs false
/-!
C03, round 2 — `setLocalDescription(offer)` after `createOffer` on a well-formed connection: totality of "assign MID"
and of the transport refresh, and the state the offerer is in while it waits for the answer.
-/
namespace Aiortc.Model.Negotiate
open Aiortc (Outcome)
open Aiortc.Model.Jsep (Sig)

theorem find_some_of_mem {α} {p : α → Bool} {l : List α} {x : α} (hx : x ∈ l) (hp : p x = true) : ∃ y, l.find? p = some y := by
  cases h : l.find? p with
  | some y => exact ⟨y, rfl⟩
  | none => have := List.find?_eq_none.mp h x hx; simp [hp] at this

/-- replacing the first match by something with the same m-line index keeps every m-line index present -/
theorem updFirst_mline_mem {p : Transceiver → Bool} {f : Transceiver → Transceiver} (hf : ∀ t, (f t).mline = t.mline)
    {l l' : List Transceiver} (h : updFirst p f l = some l') : ∀ t ∈ l, ∃ t' ∈ l', t'.mline = t.mline := by
  have := updFirst_shape_mline hf h
  intro t ht
  have hm : t.mline ∈ l.map (·.mline) := List.mem_map_of_mem ht
  rw [← this] at hm
  obtain ⟨t', ht', he⟩ := List.mem_map.mp hm
  exact ⟨t', ht', he⟩
where
  updFirst_shape_mline {p : Transceiver → Bool} {f : Transceiver → Transceiver} (hf : ∀ t, (f t).mline = t.mline) :
      ∀ {l l' : List Transceiver}, updFirst p f l = some l' → l'.map (·.mline) = l.map (·.mline) := by
    intro l
    induction l with
    | nil => intro l' h; simp [updFirst] at h
    | cons a as ih =>
      intro l' h
      simp only [updFirst] at h
      split at h
      · cases h; simp [hf]
      · cases hr : updFirst p f as with
        | none => simp [hr] at h
        | some r => simp [hr] at h; subst h; simp [ih hr]

/-- "assign MID" never fails when every media section has a transceiver with its m-line index and the SCTP transport
exists for application sections -/
theorem assignMids_ok : ∀ (ms : List MSec) (pc : Pc) (i : Nat),
    (∀ (j : Nat) (m : MSec), ms[j]? = some m → m.kind.isMedia = true → ∃ t ∈ pc.transceivers, t.mline = some (i + j)) →
    (∀ m ∈ ms, m.kind.isMedia = false → pc.sctp.isSome = true) →
    ∃ pc', assignMids pc ms i = .ok pc' := by
  intro ms
  induction ms with
  | nil => intro pc i _ _; exact ⟨pc, rfl⟩
  | cons m ms ih =>
    intro pc i hmed happ
    simp only [assignMids]
    cases hk : m.kind.isMedia
    · simp only [Bool.false_eq_true, if_false]
      have hs := happ m (by simp) hk
      obtain ⟨s, hs'⟩ := Option.isSome_iff_exists.mp hs
      simp only [hs']
      exact ih _ (i + 1)
        (fun j mj hj hkj => by
          obtain ⟨t, ht, hl⟩ := hmed (j + 1) mj (by simpa using hj) hkj
          exact ⟨t, ht, by rw [hl]; congr 1; omega⟩)
        (fun m2 hm2 hk2 => rfl)
    · simp only [if_true]
      obtain ⟨t, ht, hl⟩ := hmed 0 m (by simp) hk
      obtain ⟨y, hy⟩ := find_some_of_mem (p := fun t : Transceiver => t.mline == some i) ht (by simpa using hl)
      obtain ⟨ts, hupd⟩ := updFirst_isSome (f := fun t : Transceiver => { t with mid := some m.mid }) hy
      rw [hupd]
      simp only
      refine ih _ (i + 1) ?_ (fun m2 hm2 hk2 => happ m2 (by simp [hm2]) hk2)
      intro j mj hj hkj
      obtain ⟨t2, ht2, hl2⟩ := hmed (j + 1) mj (by simpa using hj) hkj
      obtain ⟨t', ht', hl'⟩ := updFirst_mline_mem (f := fun t : Transceiver => { t with mid := some m.mid }) (fun _ => rfl) hupd t2 ht2
      exact ⟨t', ht', by rw [hl', hl2]; congr 1; omega⟩

theorem refreshTransports_ok : ∀ (ms : List MSec) (pc : Pc) (i : Nat),
    (∀ (j : Nat) (m : MSec), ms[j]? = some m → m.kind.isMedia = true → ∃ t ∈ pc.transceivers, t.mline = some (i + j)) →
    (∀ m ∈ ms, m.kind.isMedia = false → pc.sctp.isSome = true) →
    ∃ r, refreshTransports pc ms i = .ok r := by
  intro ms
  induction ms with
  | nil => intro pc i _ _; exact ⟨[], rfl⟩
  | cons m ms ih =>
    intro pc i hmed happ
    obtain ⟨r, hr⟩ := ih pc (i + 1)
      (fun j mj hj hkj => by
        obtain ⟨t, ht, hl⟩ := hmed (j + 1) mj (by simpa using hj) hkj
        exact ⟨t, ht, by rw [hl]; congr 1; omega⟩)
      (fun m2 hm2 hk2 => happ m2 (by simp [hm2]) hk2)
    simp only [refreshTransports]
    cases hk : m.kind.isMedia
    · simp only [Bool.false_eq_true, if_false]
      have hs := happ m (by simp) hk
      obtain ⟨s, hs'⟩ := Option.isSome_iff_exists.mp hs
      simp only [hs', hr]
      exact ⟨_, rfl⟩
    · simp only [if_true]
      obtain ⟨t, ht, hl⟩ := hmed 0 m (by simp) hk
      obtain ⟨y, hy⟩ := find_some_of_mem (p := fun t : Transceiver => t.mline == some i) ht (by simpa using hl)
      simp only [Pc.byMline, hy, hr]
      exact ⟨_, rfl⟩

/-- `localRoles` ("set DTLS role" of an answer) never fails under the same conditions -/
theorem localRoles_ok : ∀ (ms : List MSec) (pc : Pc) (i : Nat),
    (∀ (j : Nat) (m : MSec), ms[j]? = some m → m.kind.isMedia = true → ∃ t ∈ pc.transceivers, t.mline = some (i + j)) →
    (∀ m ∈ ms, m.kind.isMedia = false → pc.sctp.isSome = true) →
    ∃ pc', localRoles pc ms i = .ok pc' := by
  intro ms
  induction ms with
  | nil => intro pc i _ _; exact ⟨pc, rfl⟩
  | cons m ms ih =>
    intro pc i hmed happ
    simp only [localRoles]
    cases hk : m.kind.isMedia
    · simp only [Bool.false_eq_true, if_false]
      have hs := happ m (by simp) hk
      obtain ⟨s, hs'⟩ := Option.isSome_iff_exists.mp hs
      simp only [hs']
      exact ih _ (i + 1)
        (fun j mj hj hkj => by
          obtain ⟨t, ht, hl⟩ := hmed (j + 1) mj (by simpa using hj) hkj
          exact ⟨t, ht, by rw [hl]; congr 1; omega⟩)
        (fun m2 hm2 hk2 => by
          have := happ m2 (by simp [hm2]) hk2
          simpa [Pc.modTransport] using this)
    · simp only [if_true]
      obtain ⟨t, ht, hl⟩ := hmed 0 m (by simp) hk
      obtain ⟨y, hy⟩ := find_some_of_mem (p := fun t : Transceiver => t.mline == some i) ht (by simpa using hl)
      simp only [Pc.byMline, hy]
      exact ih _ (i + 1)
        (fun j mj hj hkj => by
          obtain ⟨t, ht, hl⟩ := hmed (j + 1) mj (by simpa using hj) hkj
          exact ⟨t, ht, by rw [hl]; congr 1; omega⟩)
        (fun m2 hm2 hk2 => by
          have := happ m2 (by simp [hm2]) hk2
          simpa [Pc.modTransport] using this)

/-! ## what "assign MID" does besides the transceivers -/

theorem assignMids_frame : ∀ (ms : List MSec) (pc pc' : Pc) (i : Nat), assignMids pc ms i = .ok pc' →
    (∀ x, x ∈ pc'.seenMids ↔ x ∈ pc.seenMids ∨ x ∈ ms.map (·.mid)) ∧
    (pc'.sctpMid = pc.sctpMid ∨ ∃ m ∈ ms, m.kind.isMedia = false ∧ pc'.sctpMid = some m.mid) ∧
    (∀ x, (∀ m ∈ ms, m.kind.isMedia = false → m.mid = x) → (∃ m ∈ ms, m.kind.isMedia = false) → pc'.sctpMid = some x) := by
  intro ms
  induction ms with
  | nil =>
    intro pc pc' i h
    simp [assignMids] at h; subst h
    exact ⟨fun x => by simp, .inl rfl, fun x _ he => by obtain ⟨m, hm, _⟩ := he; cases hm⟩
  | cons m ms ih =>
    intro pc pc' i h
    simp only [assignMids] at h
    cases hk : m.kind.isMedia
    · simp only [hk, Bool.false_eq_true, if_false] at h
      split at h
      · cases h
      · rename_i s hs
        obtain ⟨i1, i2, i3⟩ := ih _ _ _ h
        refine ⟨?_, ?_, ?_⟩
        · intro x
          rw [i1 x]
          simp only [mem_setAdd, List.map_cons, List.mem_cons]
          constructor
          · rintro ((a | a) | a)
            · exact .inl a
            · exact .inr (.inl a)
            · exact .inr (.inr a)
          · rintro (a | a | a)
            · exact .inl (.inl a)
            · exact .inl (.inr a)
            · exact .inr a
        · rcases i2 with a | ⟨m2, hm2, hk2, a⟩
          · exact .inr ⟨m, by simp, hk, by rw [a]; simp [Pc.sctpMid]⟩
          · exact .inr ⟨m2, by simp [hm2], hk2, a⟩
        · intro x hall _
          by_cases hex : ∃ m2 ∈ ms, m2.kind.isMedia = false
          · exact i3 x (fun m2 hm2 hk2 => hall m2 (by simp [hm2]) hk2) hex
          · rcases i2 with a | ⟨m2, hm2, hk2, _⟩
            · rw [a]; simp [Pc.sctpMid, hall m (by simp) hk]
            · exact absurd ⟨m2, hm2, hk2⟩ hex
    · simp only [hk, if_true] at h
      split at h
      · cases h
      · obtain ⟨i1, i2, i3⟩ := ih _ _ _ h
        refine ⟨?_, ?_, ?_⟩
        · intro x
          rw [i1 x]
          simp only [mem_setAdd, List.map_cons, List.mem_cons]
          constructor
          · rintro ((a | a) | a)
            · exact .inl a
            · exact .inr (.inl a)
            · exact .inr (.inr a)
          · rintro (a | a | a)
            · exact .inl (.inl a)
            · exact .inl (.inr a)
            · exact .inr a
        · rcases i2 with a | ⟨m2, hm2, hk2, a⟩
          · exact .inl a
          · exact .inr ⟨m2, by simp [hm2], hk2, a⟩
        · intro x hall he
          obtain ⟨m2, hm2, hk2⟩ := he
          rcases List.mem_cons.mp hm2 with rfl | hm2
          · rw [hk] at hk2; cases hk2
          · exact i3 x (fun m3 hm3 hk3 => hall m3 (by simp [hm3]) hk3) ⟨m2, hm2, hk2⟩

theorem assignMids_keeps_lines : ∀ (ms : List MSec) (pc pc' : Pc) (i : Nat), assignMids pc ms i = .ok pc' →
    (∀ t ∈ pc.transceivers, ∃ t' ∈ pc'.transceivers, t'.mline = t.mline) ∧ (pc.sctp.isSome = true → pc'.sctp.isSome = true) := by
  intro ms
  induction ms with
  | nil => intro pc pc' i h; simp [assignMids] at h; subst h; exact ⟨fun t ht => ⟨t, ht, rfl⟩, fun h => h⟩
  | cons m ms ih =>
    intro pc pc' i h
    simp only [assignMids] at h
    split at h
    · split at h
      · cases h
      · rename_i ts hupd
        obtain ⟨i1, i2⟩ := ih _ _ _ h
        refine ⟨?_, i2⟩
        intro t ht
        obtain ⟨t1, ht1, hl1⟩ := updFirst_mline_mem (f := fun t : Transceiver => { t with mid := some m.mid }) (fun _ => rfl) hupd t ht
        obtain ⟨t2, ht2, hl2⟩ := i1 t1 ht1
        exact ⟨t2, ht2, hl2.trans hl1⟩
    · split at h
      · cases h
      · obtain ⟨i1, i2⟩ := ih _ _ _ h
        exact ⟨i1, fun _ => i2 rfl⟩

/-- the pieces of a successful `setLocalDescription(offer)` -/
theorem setLocal_offer_parts {pc pc' : Pc} {d : Desc} (ht : d.type = .offer) (h : pc.setLocal d = .ok pc') :
    ∃ pc2, assignMids { pc with sig := .haveLocalOffer } d.media 0 = .ok pc2 ∧ pc'.seenMids = pc2.seenMids ∧
      pc'.sctp = pc2.sctp ∧ pc'.transceivers = pc2.transceivers := by
  unfold Pc.setLocal at h
  simp only [ht] at h
  split at h
  · cases h
  · split at h
    · split at h
      · rename_i pc2 h2
        simp at h
        split at h
        · cases h
          exact ⟨pc2, by simpa using h2, rfl, rfl, rfl⟩
        · cases h
        · cases h
        · cases h
      · rename_i e hne
        cases e <;> simp_all
    · cases h
    · cases h
    · cases h

theorem setLocal_offer_total {pc : Pc} {d : Desc} (ht : d.type = .offer) (hs : pc.sig = .stable)
    (hmed : ∀ (j : Nat) (m : MSec), d.media[j]? = some m → m.kind.isMedia = true → ∃ t ∈ pc.transceivers, t.mline = some (0 + j))
    (happ : ∀ m ∈ d.media, m.kind.isMedia = false → pc.sctp.isSome = true) :
    ∃ pc', pc.setLocal d = .ok pc' := by
  obtain ⟨pc2, h2⟩ := assignMids_ok d.media { pc with sig := .haveLocalOffer } 0 hmed happ
  obtain ⟨k1, k2⟩ := assignMids_keeps_lines _ _ _ _ h2
  obtain ⟨r, hr⟩ := refreshTransports_ok d.media
    { pc2 with transports := pc2.transports.map (fun t => if t.live && t.ice.isNone then { t with ice := some true } else t) } 0
    (fun j m hj hk => by
      obtain ⟨t, ht', hl⟩ := hmed j m hj hk
      obtain ⟨t', ht'', hl'⟩ := k1 t ht'
      exact ⟨t', ht'', hl'.trans hl⟩)
    (fun m hm hk => k2 (happ m hm hk))
  unfold Pc.setLocal
  have hv : pc.validate d true = .ok () := by
    unfold Pc.validate
    simp [ht, hs, stateAllows]
  have b1 : (DType.offer == DType.offer) = true := rfl
  have b2 : (DType.offer == DType.answer) = false := rfl
  have b3 : (Sig.stable == Sig.closed) = false := rfl
  simp only [hs, hv, ht, b1, b2, b3, if_true, Bool.false_eq_true, if_false]
  rw [h2]
  simp only
  rw [hr]
  exact ⟨_, rfl⟩

/-- The offerer between `setLocalDescription(offer)` and the answer. -/
structure OfferApplied (o o2 : Pc) (d : Desc) : Prop where
  type : d.type = .offer
  bundle : d.bundle = d.media.map (·.mid)
  pref : ∃ rest, keysOf d = o.keys ++ rest
  nodup : ((keysOf d).map (·.2)).Nodup
  fresh : ∀ (j : Nat) (kx : Kind × String), o.keys.length ≤ j → (keysOf d)[j]? = some kx → kx.2 ∉ o.seenMids
  setup : ∀ m ∈ d.media, m.setup = .auto
  codecs : ∀ m ∈ d.media, m.kind.isMedia = true → ∃ t ∈ o.transceivers, t.kind = m.kind ∧ m.codecs = offered t.kind t.preferred
  appSame : ∀ m1 ∈ d.media, ∀ m2 ∈ d.media, m1.kind.isMedia = false → m2.kind.isMedia = false → m1.mid = m2.mid
  sig : o2.sig = .haveLocalOffer
  loc : o2.localDesc = some d
  remote : o2.remoteDesc = o.remoteDesc
  pre : Pre (keysOf d) o2.transceivers
  allMid : ∀ t ∈ o2.transceivers, t.mid ≠ none
  owned : ∀ m ∈ d.media, m.kind.isMedia = true → ∃ t ∈ o2.transceivers, t.mid = some m.mid
  prefs : PrefsSub o2.transceivers o.transceivers
  media : AllMedia o2.transceivers
  sctpApp : ∀ m ∈ d.media, m.kind.isMedia = false → o2.sctpMid = some m.mid
  sctpIn : ∀ x, o2.sctpMid = some x → (Kind.application, x) ∈ keysOf d
  seen : ∀ x, x ∈ o2.seenMids ↔ x ∈ o.seenMids ∨ x ∈ d.media.map (·.mid)

theorem assignFn_preferred : ∀ (ms : List MSec) (i : Nat) (t : Transceiver), (assignFn ms i t).preferred = t.preferred := by
  intro ms
  induction ms with
  | nil => intro i t; rfl
  | cons m ms ih => intro i t; simp only [assignFn]; rw [ih]; split <;> rfl

theorem pairwise_of_mem {α} {R : α → α → Prop} : ∀ {l : List α}, (∀ a ∈ l, ∀ b ∈ l, R a b) → l.Pairwise R := by
  intro l
  induction l with
  | nil => intro _; exact .nil
  | cons a as ih =>
    intro h
    exact List.pairwise_cons.mpr ⟨fun b hb => h a (by simp) b (by simp [hb]), ih (fun x hx y hy => h x (by simp [hx]) y (by simp [hy]))⟩

/-- **`createOffer` followed by `setLocalDescription(offer)` never fails on a well-formed connection.** -/
theorem offer_applied {o : Pc} (h : WF o) : ∃ o1 d0 o2 d, o.createOffer = .ok (o1, d0) ∧ o1.setLocal d0 = .ok o2 ∧
    o2.localDesc = some d ∧ OfferApplied o o2 d := by
  obtain ⟨o1, d0, hco, M⟩ := createOffer_ok h
  have hslots := M.slots
  simp only [Pc.slots, Prod.mk.injEq] at hslots
  obtain ⟨s1, s2, s3, s4, s5⟩ := hslots
  have hsig1 : o1.sig = .stable := by rw [s1]; exact h.stable
  have hmed : ∀ (j : Nat) (m : MSec), d0.media[j]? = some m → m.kind.isMedia = true → ∃ t ∈ o1.transceivers, t.mline = some (0 + j) := by
    intro j m hj hk
    obtain ⟨t, ht, hl⟩ := M.each j m hj hk
    exact ⟨t, ht, by simpa using hl⟩
  have happ : ∀ m ∈ d0.media, m.kind.isMedia = false → o1.sctp.isSome = true := by
    intro m hm hk; rw [M.sctp]; exact (M.app m hm hk).1
  obtain ⟨o2, h2⟩ := setLocal_offer_total M.type hsig1 hmed happ
  obtain ⟨_, media, hrel, r1, r2, r3, r4⟩ := setLocal_offer_spec M.type h2
  have hts := setLocal_offer_transceivers M.type h2 M.distinct
  obtain ⟨pc2, ha, p1, p2, _⟩ := setLocal_offer_parts M.type h2
  obtain ⟨i1, i2, i3⟩ := assignMids_frame _ _ _ _ ha
  have hloc : o2.localDesc = some { d0 with media } := by simp [Pc.localDesc, r4]
  refine ⟨o1, d0, o2, { d0 with media }, hco, h2, hloc, ?_⟩
  have hkeys : keysOf { d0 with media } = keysOf d0 := refresh_keys hrel
  have hmids : media.map (·.mid) = d0.media.map (·.mid) := refresh_mids hrel
  have hback : ∀ m' ∈ media, ∃ m ∈ d0.media, m' = { m with transport := m'.transport } := hrel.mem_right
  -- the mid each transceiver ends with
  have hmidOf : ∀ t ∈ o1.transceivers, ∃ (j : Nat) (m : MSec), d0.media[j]? = some m ∧ m.kind = t.kind ∧ t.mline = some j ∧
      (assignFn d0.media 0 t).mid = some m.mid := by
    intro t ht
    obtain ⟨j, m, hl, hj, hk, hmk, _⟩ := M.lines t ht
    exact ⟨j, m, hj, hk, hl, assignFn_mid d0.media 0 t j m hl (Nat.zero_le _) (by simpa using hj) hmk⟩
  have hsm2 : o2.sctpMid = pc2.sctpMid := by simp [Pc.sctpMid, p2]
  have hsm1 : (({ o1 with sig := Sig.haveLocalOffer } : Pc)).sctpMid = o.sctpMid := by simp [Pc.sctpMid, M.sctp]
  refine { type := M.type, bundle := ?_, pref := by rw [hkeys]; exact M.pref, nodup := by rw [hkeys]; exact M.nodup,
           fresh := by rw [hkeys]; exact M.fresh, setup := ?_, codecs := ?_, appSame := ?_, sig := r3, loc := hloc, remote := ?_,
           pre := ?_, allMid := ?_, owned := ?_, prefs := ?_, media := ?_, sctpApp := ?_, sctpIn := ?_, seen := ?_ }
  · show d0.bundle = media.map (·.mid)
    rw [M.bundle, hmids]
  · intro m' hm'
    obtain ⟨m, hm, he⟩ := hback m' hm'
    rw [he]; exact M.setup m hm
  · intro m' hm' hk
    obtain ⟨m, hm, he⟩ := hback m' hm'
    rw [he] at hk ⊢
    exact M.codecs m hm hk
  · intro a ha' b hb' hka hkb
    obtain ⟨ma, hma, hea⟩ := hback a ha'
    obtain ⟨mb, hmb, heb⟩ := hback b hb'
    rw [hea] at hka ⊢; rw [heb] at hkb ⊢
    exact M.appSame ma hma mb hmb hka hkb
  · simp [Pc.remoteDesc, r1, r2, s4, s5]
  · rw [hkeys, hts]
    refine ⟨?_, ?_, ?_⟩
    · unfold UniqueMid
      refine List.pairwise_map.mpr (List.Pairwise.imp_of_mem ?_ M.distinct)
      intro a b ha' hb' hab _ heq
      obtain ⟨ja, ma, hja, _, hla, hma⟩ := hmidOf a ha'
      obtain ⟨jb, mb, hjb, _, hlb, hmb⟩ := hmidOf b hb'
      rw [hma, hmb] at heq
      have hmm : ma.mid = mb.mid := Option.some.inj heq
      have e1 := keys_getElem hja
      have e2 := keys_getElem hjb
      rw [hmm] at e1
      have := (keys_index_inj M.nodup e1 e2).1
      exact hab (by rw [hla, hlb, this])
    · refine List.pairwise_map.mpr (pairwise_of_mem ?_)
      intro a ha' b _ _ _
      obtain ⟨_, ma, _, _, _, hma⟩ := hmidOf a ha'
      rw [hma]; simp
    · intro t' ht'
      obtain ⟨t, ht, rfl⟩ := List.mem_map.mp ht'
      obtain ⟨j, m, hj, hk, hl, hm⟩ := hmidOf t ht
      exact .inr ⟨j, m.mid, by rw [assignFn_kind, ← hk]; exact keys_getElem hj, hm, by rw [assignFn_mline]; exact hl⟩
  · intro t' ht'
    rw [hts] at ht'
    obtain ⟨t, ht, rfl⟩ := List.mem_map.mp ht'
    obtain ⟨_, m, _, _, _, hm⟩ := hmidOf t ht
    rw [hm]; simp
  · intro m' hm' hk
    obtain ⟨m, hm, he⟩ := hback m' hm'
    have hk' : m.kind.isMedia = true := by rw [he] at hk; exact hk
    obtain ⟨j, hj⟩ := List.getElem?_of_mem hm
    obtain ⟨t, ht, hl⟩ := M.each j m hj hk'
    obtain ⟨j2, m2, hj2, _, hl2, hm2⟩ := hmidOf t ht
    rw [hl] at hl2
    have : j = j2 := by simpa using hl2
    subst this
    rw [hj] at hj2; cases hj2
    exact ⟨assignFn d0.media 0 t, by rw [hts]; exact List.mem_map_of_mem ht, by rw [hm2, he]⟩
  · intro t' ht'
    rw [hts] at ht'
    obtain ⟨t, ht, rfl⟩ := List.mem_map.mp ht'
    rw [assignFn_preferred, assignFn_kind]
    exact M.prefs t ht
  · intro t' ht'
    rw [hts] at ht'
    obtain ⟨t, ht, rfl⟩ := List.mem_map.mp ht'
    rw [assignFn_kind]; exact M.media t ht
  · intro m' hm' hk
    obtain ⟨m, hm, he⟩ := hback m' hm'
    have hk' : m.kind.isMedia = false := by rw [he] at hk; exact hk
    rw [hsm2, he]
    exact i3 m.mid (fun m2 hm2 hk2 => M.appSame m2 hm2 m hm hk2 hk') ⟨m, hm, hk'⟩
  · intro x hx
    rw [hkeys]
    rw [hsm2] at hx
    rcases i2 with a | ⟨m, hm, hk, a⟩
    · rw [a, hsm1] at hx
      exact M.appOld x hx
    · rw [a] at hx; cases hx
      have : (m.kind, m.mid) ∈ keysOf d0 := List.mem_map_of_mem hm
      rw [kind_not_media hk] at this; exact this
  · intro x
    rw [p1, i1 x]
    show x ∈ o1.seenMids ∨ _ ↔ _
    rw [M.seen, hmids]

end Aiortc.Model.Negotiate
