import Aiortc.Lemmas.C03.Compat
set_option linter.unusedSimpArgs false
/-!
C03, round 2 — the set-up operations between exchanges: they keep the pair invariant.
-/
namespace Aiortc.Model.Negotiate
open Aiortc (Outcome)
open Aiortc.Model.Jsep (Sig)

theorem keys_of_slots {pc pc' : Pc} (h : pc'.slots = pc.slots) : pc'.keys = pc.keys := by
  simp only [Pc.slots, Prod.mk.injEq] at h
  simp [Pc.keys, Pc.localDesc, h.2.1, h.2.2.1]

/-- a set-up operation as far as the pair invariant is concerned: description slots and seen mids untouched, preference
lists stay inside the family -/
structure SetupOk (P : Kind → List Cap → Prop) (pc pc' : Pc) : Prop where
  wf : WF pc → WF pc'
  slots : pc'.slots = pc.slots
  seen : pc'.seenMids = pc.seenMids
  prefs : PrefsIn P pc → PrefsIn P pc'

theorem SetupOk.refl (P : Kind → List Cap → Prop) (pc : Pc) : SetupOk P pc pc := ⟨fun h => h, rfl, rfl, fun h => h⟩

theorem setupOk_createTransceiver {P : Kind → List Cap → Prop} (hnil : ∀ k, P k []) (pc : Pc) (d : Dir) {k : Kind}
    (hk : k.isMedia = true) (tr : Bool) : SetupOk P pc (pc.createTransceiver d k tr) := by
  obtain ⟨n, hn, _, _, h3, h4, _⟩ := createTransceiver_new pc d k tr
  obtain ⟨f1, f2, _⟩ := createTransceiver_frame pc d k tr
  refine ⟨fun h => h.createTransceiver d hk tr, f1, f2, ?_⟩
  intro hp t ht
  rw [hn] at ht
  rcases List.mem_append.mp ht with h | h
  · exact hp t h
  · simp at h; subst h; rw [h4]; exact hnil _

theorem updFirst_prefs {p : Transceiver → Bool} {f : Transceiver → Transceiver}
    (hf : ∀ t, (f t).kind = t.kind ∧ (f t).preferred = t.preferred) {l l' : List Transceiver} (h : updFirst p f l = some l') :
    ∀ t' ∈ l', ∃ t ∈ l, t'.kind = t.kind ∧ t'.preferred = t.preferred := by
  intro t' ht'
  rcases updFirst_mem' h t' ht' with h1 | ⟨x, hx, _, rfl⟩
  · exact ⟨t', h1, rfl, rfl⟩
  · exact ⟨x, hx, (hf x).1, (hf x).2⟩

theorem setupOk_addTrack {P : Kind → List Cap → Prop} (hnil : ∀ k, P k []) (pc : Pc) {k : Kind} (hk : k.isMedia = true) :
    SetupOk P pc (pc.addTrack k) := by
  refine ⟨fun h => h.addTrack hk, ?_, ?_, ?_⟩
  · unfold Pc.addTrack; split
    · rfl
    · exact (setupOk_createTransceiver hnil pc .sendrecv hk true).slots
  · unfold Pc.addTrack; split
    · rfl
    · exact (setupOk_createTransceiver hnil pc .sendrecv hk true).seen
  · unfold Pc.addTrack; split
    · rename_i ts hupd
      intro hp t' ht'
      obtain ⟨t, ht, e1, e2⟩ := updFirst_prefs
        (f := fun t => { t with hasTrack := true, direction := orDir t.direction .sendonly }) (fun _ => ⟨rfl, rfl⟩) hupd t' ht'
      rw [e1, e2]; exact hp t ht
    · exact (setupOk_createTransceiver hnil pc .sendrecv hk true).prefs

theorem setupOk_createDataChannel (P : Kind → List Cap → Prop) (pc : Pc) : SetupOk P pc pc.createDataChannel := by
  refine ⟨fun h => h.createDataChannel, ?_, ?_, ?_⟩
  · unfold Pc.createDataChannel; split
    · rfl
    · exact (createSctp_frame pc).2.1
  · unfold Pc.createDataChannel; split
    · rfl
    · exact (createSctp_frame pc).2.2
  · unfold Pc.createDataChannel; split
    · exact fun h => h
    · intro hp t ht
      rw [(createSctp_frame pc).1] at ht
      exact hp t ht

theorem mem_set {α} {l : List α} {i : Nat} {a x : α} (h : x ∈ l.set i a) : x = a ∨ x ∈ l := by
  rcases List.mem_or_eq_of_mem_set h with h1 | h1
  · exact .inr h1
  · exact .inl h1

/-- `setCodecPreferences`, treated as a no-op when the call raises (`IndexError`, `ValueError`: nothing was changed) -/
def Pc.trySetCodecPreferences (pc : Pc) (idx : Nat) (caps : List Cap) : Pc :=
  match pc.setCodecPreferences idx caps with
  | .ok pc' => pc'
  | _ => pc

/-- the direction setter, treated as a no-op when the index does not exist -/
def Pc.trySetDirection (pc : Pc) (idx : Nat) (d : Dir) : Pc :=
  match pc.setDirection idx d with
  | .ok pc' => pc'
  | _ => pc

theorem setupOk_setCodecPreferences {P : Kind → List Cap → Prop} (pc : Pc) (idx : Nat) (caps : List Cap)
    (hcaps : ∀ k : Kind, (caps.all fun c => (capsOf k).contains c) = true → P k (dedupKeepLast caps)) :
    SetupOk P pc (pc.trySetCodecPreferences idx caps) := by
  unfold Pc.trySetCodecPreferences
  cases h : pc.setCodecPreferences idx caps with
  | ok pc' =>
    simp only
    refine ⟨fun hw => hw.setCodecPreferences h, ?_, ?_, ?_⟩
    all_goals
      unfold Pc.setCodecPreferences at h
      split at h
      · cases h
      · rename_i t ht
        split at h
        · rename_i hall
          cases h
          first
            | rfl
            | (intro hp t' ht'
               rcases mem_set ht' with rfl | h1
               · exact hcaps t.kind hall
               · exact hp t' h1)
        · cases h
  | valueError => exact SetupOk.refl P pc
  | crash k => exact SetupOk.refl P pc
  | hang => exact SetupOk.refl P pc

theorem setupOk_setDirection (P : Kind → List Cap → Prop) (pc : Pc) (idx : Nat) (d : Dir) :
    SetupOk P pc (pc.trySetDirection idx d) := by
  unfold Pc.trySetDirection
  cases h : pc.setDirection idx d with
  | ok pc' =>
    simp only
    refine ⟨fun hw => hw.setDirection h, ?_, ?_, ?_⟩
    all_goals
      unfold Pc.setDirection at h
      split at h
      · cases h
      · rename_i t ht
        cases h
        first
          | rfl
          | (intro hp t' ht'
             rcases mem_set ht' with rfl | h1
             · exact hp t (List.mem_of_getElem? ht)
             · exact hp t' h1)
  | valueError => exact SetupOk.refl P pc
  | crash k => exact SetupOk.refl P pc
  | hang => exact SetupOk.refl P pc

end Aiortc.Model.Negotiate
