import Aiortc.Lemmas.C03.Offer3
import Aiortc.Lemmas.C03.RoleInv3
set_option linter.unusedSimpArgs false
/-!
C03, round 2 — `setRemoteDescription` (offer or answer) on a connection that satisfies the structural invariant for
the description's sections: it never fails, and what it leaves.
-/
namespace Aiortc.Model.Negotiate
open Aiortc (Outcome)
open Aiortc.Model.Jsep (Sig)

/-! ## BUNDLE -/

theorem applyBundle_ok {pc : Pc} {ms : List MSec}
    (hown : ∀ m ∈ ms, m.kind.isMedia = true → ∃ t ∈ pc.transceivers, t.mid = some m.mid)
    (happ : ∀ m ∈ ms, m.kind.isMedia = false → pc.sctpMid = some m.mid) :
    ∃ pc2, pc.applyBundleWith bundleStep (ms.map (·.mid)) = .ok pc2 := by
  cases ms with
  | nil => exact ⟨pc, rfl⟩
  | cons m0 rest =>
    simp only [List.map_cons, Pc.applyBundleWith]
    have hprim : ∃ p, pc.primaryTransport m0.mid = some p := by
      unfold Pc.primaryTransport
      cases hk : m0.kind.isMedia
      · have := happ m0 (by simp) hk
        simp only [Pc.sctpMid] at this
        cases hs : pc.sctp with
        | none => simp [hs] at this
        | some s =>
          simp only [hs, Option.bind_some] at this
          simp [this]
      · obtain ⟨t, ht, htm⟩ := hown m0 (by simp) hk
        obtain ⟨y, hy⟩ := find_some_of_mem (p := fun t : Transceiver => t.mid == some m0.mid) ht (by simp [htm])
        cases hs : pc.sctp with
        | none => simp [Pc.byMid, hy]
        | some s =>
          simp only
          split
          · exact ⟨_, rfl⟩
          · simp [Pc.byMid, hy]
    obtain ⟨p, hp⟩ := hprim
    rw [hp]
    exact ⟨_, rfl⟩

theorem applyBundle_frame {pc pc2 : Pc} {b : List String} (h : pc.applyBundleWith bundleStep b = .ok pc2) :
    pc2.slots = pc.slots ∧ pc2.seenMids = pc.seenMids ∧ pc2.sctpMid = pc.sctpMid := by
  unfold Pc.applyBundleWith at h
  split at h
  · cases h; exact ⟨rfl, rfl, rfl⟩
  · split at h
    · cases h
      refine ⟨rfl, rfl, ?_⟩
      simp only [Pc.sctpMid, bundleStep]
      cases hs : pc.sctp with
      | none => rfl
      | some s =>
        simp only [Option.map_some, Option.bind_some]
        split <;> rfl
    · split at h
      · cases h
      · cases h; exact ⟨rfl, rfl, rfl⟩

theorem SameBut.shape {t t2 : Transceiver} (h : SameBut t t2) : shape t2 = shape t := by
  unfold SameBut at h; rw [h]; rfl

theorem SameBut.preferred {t t2 : Transceiver} (h : SameBut t t2) : t2.preferred = t.preferred := by
  unfold SameBut at h; rw [h]

theorem SameBut.kind {t t2 : Transceiver} (h : SameBut t t2) : t2.kind = t.kind := by
  unfold SameBut at h; rw [h]

/-! ## setRemoteDescription -/

/-- what a successful `setRemoteDescription(d)` leaves -/
structure RemoteApplied (pc pc' : Pc) (d : Desc) : Prop where
  pre : Pre (keysOf d) pc'.transceivers
  owners : ∀ (j : Nat) (m : MSec), d.media[j]? = some m → m.kind.isMedia = true →
    ∃ t ∈ pc'.transceivers, Negotiated d.type m t ∧ t.mline = some j
  prefs : PrefsSub pc'.transceivers pc.transceivers
  media : AllMedia pc.transceivers → AllMedia pc'.transceivers
  seen : ∀ x, x ∈ pc'.seenMids ↔ x ∈ pc.seenMids ∨ x ∈ d.media.map (·.mid)
  sctpApp : ∀ m ∈ d.media, m.kind.isMedia = false → pc'.sctpMid = some m.mid
  sctpOld : pc'.sctpMid = pc.sctpMid ∨ ∃ m ∈ d.media, m.kind.isMedia = false ∧ pc'.sctpMid = some m.mid
  locals : pc'.pendingLocal = pc.pendingLocal ∧ pc'.currentLocal = pc.currentLocal
  offer : d.type = .offer → pc'.sig = .haveRemoteOffer ∧ pc'.pendingRemote = some d ∧ pc'.currentRemote = pc.currentRemote
  answer : d.type = .answer → pc'.sig = .stable ∧ pc'.currentRemote = some d ∧ pc'.pendingRemote = none
  /-- after BUNDLE every section of the description sits on one transport -/
  onPrimary : ∃ p, (∀ t ∈ pc'.transceivers, (∃ m ∈ d.media, m.kind.isMedia = true ∧ t.mid = some m.mid) → t.transport = p) ∧
    (∀ s, pc'.sctp = some s → (∃ m ∈ d.media, m.kind.isMedia = false) → s.transport = p) ∧
    /- it is the transport on which the first section already sat, if it was negotiated before -/
    (∀ m0 rest, d.media = m0 :: rest →
      (m0.kind.isMedia = true → ∀ t ∈ pc.transceivers, t.mid = some m0.mid → t.transport = p) ∧
      (m0.kind.isMedia = false → ∀ s, pc.sctp = some s → s.transport = p)) ∧
    /- and an answer leaves the role it dictates on it -/
    (∀ w, d.type = .answer → (∀ m ∈ d.media, oppRole m.setup = w) → TExist pc → d.media ≠ [] → pc'.roleOf p = w)
  rolesOffer : d.type = .offer → (∀ m ∈ d.media, m.setup = .auto) → RoleSame pc.transports pc'.transports
  rolesAnswer : ∀ w, d.type = .answer → (∀ m ∈ d.media, oppRole m.setup = w) → RoleStep w pc.transports pc'.transports

theorem setRemote_ok {pc : Pc} {d : Desc} (hv : pc.validate d false = .ok ()) (hb : d.bundle = d.media.map (·.mid))
    (hnd : ((keysOf d).map (·.2)).Nodup) (hP : Pre (keysOf d) pc.transceivers)
    (hacc : ∀ m ∈ d.media, m.kind.isMedia = true → Accepts pc.transceivers m) (hfit : SctpFits pc d.media)
    (hsin : ∀ x, pc.sctpMid = some x → (Kind.application, x) ∈ keysOf d) :
    ∃ pc', pc.setRemote d = .ok pc' ∧ RemoteApplied pc pc' d := by
  obtain ⟨pc1, h1, r⟩ := pre_fold (typ := d.type) hnd d.media pc 0 hP
    (fun j m hj => by rw [Nat.zero_add]; exact keys_getElem hj) hacc hfit
  obtain ⟨pc2, h2⟩ := applyBundle_ok (pc := pc1) (ms := d.media)
    (fun m hm hk => by
      obtain ⟨j, hj⟩ := List.getElem?_of_mem hm
      obtain ⟨t, ht, hN, _⟩ := r.owners j m hj hk
      exact ⟨t, ht, hN.mid⟩)
    r.sctpApp
  obtain ⟨g, hg, hmap⟩ := applyBundle_transceivers h2
  obtain ⟨f1, f2, f3⟩ := applyBundle_frame h2
  have hshape : pc2.transceivers.map shape = pc1.transceivers.map shape := by
    rw [hmap, List.map_map]
    exact List.map_congr_left (fun t _ => (hg t).shape)
  have hslots1 := r.slots
  simp only [Pc.slots, Prod.mk.injEq] at hslots1 f1
  -- the result, by type of the description
  have hres : ∃ pc', pc.setRemote d = .ok pc' ∧ pc'.transceivers = pc2.transceivers ∧ pc'.seenMids = pc2.seenMids ∧
      pc'.sctp = pc2.sctp ∧ pc'.pendingLocal = pc2.pendingLocal ∧ pc'.currentLocal = pc2.currentLocal ∧ pc'.transports = pc2.transports ∧
      (d.type = .offer → pc'.sig = .haveRemoteOffer ∧ pc'.pendingRemote = some d ∧ pc'.currentRemote = pc2.currentRemote) ∧
      (d.type = .answer → pc'.sig = .stable ∧ pc'.currentRemote = some d ∧ pc'.pendingRemote = none) := by
    have hb' : pc1.applyBundleWith bundleStep d.bundle = .ok pc2 := by rw [hb]; exact h2
    cases ht : d.type
    · refine ⟨{ pc2 with sig := .haveRemoteOffer, pendingRemote := some d }, ?_, rfl, rfl, rfl, rfl, rfl, rfl,
        fun _ => ⟨rfl, rfl, rfl⟩, fun hh => (by cases hh)⟩
      unfold Pc.setRemote Pc.setRemoteWith
      rw [ht] at h1
      simp only [hv, ht, h1, hb']
      rfl
    · refine ⟨{ pc2 with sig := .stable, currentRemote := some d, pendingRemote := none }, ?_, rfl, rfl, rfl, rfl, rfl, rfl,
        fun hh => (by cases hh), fun _ => ⟨rfl, rfl, rfl⟩⟩
      unfold Pc.setRemote Pc.setRemoteWith
      rw [ht] at h1
      simp only [hv, ht, h1, hb']
      rfl
  obtain ⟨pc', hok, e1, e2, e3, e4, e5, e6, e7, e8⟩ := hres
  have hsm : pc'.sctpMid = pc1.sctpMid := by simp [Pc.sctpMid, e3]; exact f3
  refine ⟨pc', hok, ?_⟩
  refine { pre := by rw [e1]; exact r.pre.congr hshape, owners := ?_, prefs := ?_, media := ?_, seen := ?_, sctpApp := ?_,
           sctpOld := ?_, locals := ?_, offer := ?_, answer := e8, onPrimary := ?_, rolesOffer := ?_, rolesAnswer := ?_ }
  · intro j m hj hk
    obtain ⟨t, ht, hN, hl⟩ := r.owners j m hj hk
    refine ⟨g t, by rw [e1, hmap]; exact List.mem_map_of_mem ht, hN.sameBut (hg t), ?_⟩
    rw [(hg t).mline]; simpa using hl
  · intro t' ht'
    rw [e1, hmap] at ht'
    obtain ⟨t, ht, rfl⟩ := List.mem_map.mp ht'
    rw [(hg t).preferred, (hg t).kind]
    exact r.prefs t ht
  · intro hall t' ht'
    rw [e1, hmap] at ht'
    obtain ⟨t, ht, rfl⟩ := List.mem_map.mp ht'
    rw [(hg t).kind]; exact r.media hall t ht
  · intro x; rw [e2, f2]; exact r.seen x
  · intro m hm hk; rw [hsm]; exact r.sctpApp m hm hk
  · rw [hsm]; exact r.sctpOld
  · exact ⟨by rw [e4, f1.2.1, hslots1.2.1], by rw [e5, f1.2.2.1, hslots1.2.2.1]⟩
  · intro ht
    obtain ⟨a1, a2, a3⟩ := e7 ht
    exact ⟨a1, a2, by rw [a3, f1.2.2.2.2, hslots1.2.2.2.2]⟩
  · -- everything on the primary transport
    cases hmed : d.media with
    | nil => exact ⟨0, fun t _ hm => by obtain ⟨m, hm, _⟩ := hm; simp [hmed] at hm, fun s _ hm => by obtain ⟨m, hm, _⟩ := hm; simp [hmed] at hm,
        fun m0 rest he => (by simp at he), fun w _ _ _ hne => absurd rfl hne⟩
    | cons m0 rest =>
      have hm0 : m0 ∈ d.media := by rw [hmed]; simp
      have hsame : ∀ m1 ∈ d.media, ∀ m2 ∈ d.media, m1.mid = m2.mid → m1.kind = m2.kind := by
        intro m1 hm1 m2 hm2 hmm
        obtain ⟨j1, hj1⟩ := List.getElem?_of_mem hm1
        obtain ⟨j2, hj2⟩ := List.getElem?_of_mem hm2
        have k1 := keys_getElem hj1
        have k2 := keys_getElem hj2
        rw [hmm] at k1
        exact (keys_index_inj hnd k1 k2).2
      have hnotrest : m0.mid ∉ rest.map (·.mid) := by
        have : ((keysOf d).map (·.2)) = m0.mid :: rest.map (·.mid) := by simp [keysOf, hmed, List.map_map, Function.comp_def]
        rw [this] at hnd
        exact (List.nodup_cons.mp hnd).1
      -- the primary transport
      have hprim : ∃ p, pc1.primaryTransport m0.mid = some p ∧
          (m0.kind.isMedia = true → ∀ t ∈ pc1.transceivers, t.mid = some m0.mid → t.transport = p) ∧
          (m0.kind.isMedia = false → ∀ s, pc1.sctp = some s → s.transport = p) := by
        unfold Pc.primaryTransport
        cases hk : m0.kind.isMedia
        · have := r.sctpApp m0 hm0 hk
          simp only [Pc.sctpMid] at this
          cases hs : pc1.sctp with
          | none => simp [hs] at this
          | some s =>
            simp only [hs, Option.bind_some] at this
            refine ⟨s.transport, by simp [this], (fun hf => absurd hf (by decide)), ?_⟩
            intro _ s' hs'; cases hs'; rfl
        · obtain ⟨j, hj⟩ := List.getElem?_of_mem hm0
          obtain ⟨t0, ht0, hN, _⟩ := r.owners j m0 hj hk
          obtain ⟨y, hy⟩ := find_some_of_mem (p := fun t : Transceiver => t.mid == some m0.mid) ht0 (by simp [hN.mid])
          have hym : y ∈ pc1.transceivers := List.mem_of_find?_eq_some hy
          have hymid : y.mid = some m0.mid := by simpa using List.find?_some hy
          have huniq : ∀ t ∈ pc1.transceivers, t.mid = some m0.mid → t.transport = y.transport := by
            intro t ht htm
            rw [r.pre.unique.eq t ht y hym (by rw [htm, hymid]) (by rw [htm]; simp)]
          -- the SCTP transport does not carry the mid of a media section
          have hnosctp : ∀ s, pc1.sctp = some s → s.mid ≠ some m0.mid := by
            intro s hs hsm
            have hsm' : pc1.sctpMid = some m0.mid := by simp [Pc.sctpMid, hs, hsm]
            have hin : (Kind.application, m0.mid) ∈ keysOf d := by
              rcases r.sctpOld with e | ⟨m', hm', hk', e⟩
              · rw [e] at hsm'; exact hsin _ hsm'
              · rw [e] at hsm'
                have : (m'.kind, m'.mid) ∈ keysOf d := List.mem_map_of_mem hm'
                rw [kind_not_media hk', Option.some.inj hsm'] at this; exact this
            obtain ⟨m', hm', he⟩ := List.mem_map.mp hin
            simp only [Prod.mk.injEq] at he
            have := hsame m' hm' m0 hm0 he.2
            rw [he.1] at this
            rw [← this] at hk; simp [Kind.isMedia] at hk
          cases hs : pc1.sctp with
          | none =>
            refine ⟨y.transport, by simp [Pc.byMid, hy], fun _ => huniq, (fun hf => absurd hf (by decide))⟩
          | some s =>
            have := hnosctp s hs
            refine ⟨y.transport, ?_, fun _ => huniq, (fun hf => absurd hf (by decide))⟩
            simp only
            split
            · rename_i hh; simp at hh; exact absurd hh this
            · simp [Pc.byMid, hy]
      obtain ⟨p, hp, hp1, hp2⟩ := hprim
      have hpc2 : pc2 = bundleStep pc1 p (rest.map (·.mid)) := by
        rw [hmed] at h2
        simp only [List.map_cons, Pc.applyBundleWith, hp] at h2
        cases h2; rfl
      refine ⟨p, ?_, ?_, ?_, ?_⟩
      · intro t' ht' hm
        rw [e1, hpc2] at ht'
        simp only [bundleStep, List.mem_map] at ht'
        obtain ⟨t, ht, rfl⟩ := ht'
        by_cases hin : inSlaves (rest.map (·.mid)) t.mid = true
        · simp [hin]
        · simp only [hin, Bool.false_eq_true, if_false] at hm ⊢
          obtain ⟨m, hmm, hk, htm⟩ := hm
          rcases List.mem_cons.mp hmm with rfl | hrest
          · exact hp1 hk t ht htm
          · exfalso; apply hin
            simp [inSlaves, htm]
            exact ⟨m, hrest, rfl⟩
      · intro s' hs' hm
        rw [e3, hpc2] at hs'
        simp only [bundleStep, Option.map_eq_some_iff] at hs'
        obtain ⟨s, hs, rfl⟩ := hs'
        by_cases hin : inSlaves (rest.map (·.mid)) s.mid = true
        · simp [hin]
        · simp only [hin, Bool.false_eq_true, if_false]
          obtain ⟨m, hmm, hk⟩ := hm
          have hsmid := r.sctpApp m (by rw [hmed]; exact hmm) hk
          simp only [Pc.sctpMid, hs, Option.bind_some] at hsmid
          rcases List.mem_cons.mp hmm with rfl | hrest
          · exact hp2 hk s hs
          · exfalso; apply hin
            simp [inSlaves, hsmid]
            exact ⟨m, hrest, rfl⟩
      · intro m0' rest' he
        simp only [List.cons.injEq] at he
        obtain ⟨rfl, rfl⟩ := he
        refine ⟨?_, ?_⟩
        · intro hk t ht htm
          obtain ⟨t1, ht1, hm1, htr1⟩ := r.fwd t ht m0.mid htm
          rw [← htr1]; exact hp1 hk t1 ht1 hm1
        · intro hk s hs
          obtain ⟨s1, hs1, htr1⟩ := r.sctpTr s hs
          rw [← htr1]; exact hp2 hk s1 hs1
      · intro w ht hw hT _
        rw [ht] at h1
        obtain ⟨_, fo, fs⟩ := fold_owner_roles hnd d.media pc pc1 0 hP
          (fun j m hj => by rw [Nat.zero_add]; exact keys_getElem hj) hT (fun m hm => hw m (by rw [← hmed]; exact hm)) h1
        have hr2 : RoleSame pc1.transports pc'.transports := by rw [e6]; exact applyBundle_roles h2
        have key : pc1.roleOf p = w := by
          cases hk : m0.kind.isMedia
          · obtain ⟨s', hs', hrole⟩ := fs m0 hm0 hk
            rw [← hp2 hk s' hs']; exact hrole
          · obtain ⟨t', ht', hmid, hrole⟩ := fo m0 hm0 hk
            rw [← hp1 hk t' ht' hmid]; exact hrole
        rw [roleOf_eq] at key ⊢
        rw [hr2.lookup]; exact key
  · intro ht hauto
    rw [e6]
    rw [ht] at h1
    exact (applyRemote_roles_offer _ _ _ _ hauto h1).trans (applyBundle_roles h2)
  · intro w ht hw
    rw [e6]
    rw [ht] at h1
    exact (applyRemote_roles_answer _ _ _ _ hw h1).trans ((applyBundle_roles h2).toStep w)

end Aiortc.Model.Negotiate
