import Aiortc.Lemmas.C03.Offer3
set_option linter.unusedSimpArgs false
/-!
C03, round 2 — `setRemoteDescription` (offer or answer) on a connection that satisfies the structural invariant for
the description's sections: it never fails, and what it leaves.
-/
namespace Aiortc.Model.Negotiate
open Aiortc (Outcome)
open Aiortc.Model.Jsep (Sig)

/-! ## BUNDLE -/

theorem applyBundle_ok {pc : Pc} {ms : List MSec}
    (hown : ∀ m ∈ ms, m.kind.isMedia = true → ∃ t ∈ pc.transceivers, t.mid = some m.mid)
    (happ : ∀ m ∈ ms, m.kind.isMedia = false → pc.sctpMid = some m.mid) :
    ∃ pc2, pc.applyBundleWith bundleStep (ms.map (·.mid)) = .ok pc2 := by
  cases ms with
  | nil => exact ⟨pc, rfl⟩
  | cons m0 rest =>
    simp only [List.map_cons, Pc.applyBundleWith]
    have hprim : ∃ p, pc.primaryTransport m0.mid = some p := by
      unfold Pc.primaryTransport
      cases hk : m0.kind.isMedia
      · have := happ m0 (by simp) hk
        simp only [Pc.sctpMid] at this
        cases hs : pc.sctp with
        | none => simp [hs] at this
        | some s =>
          simp only [hs, Option.bind_some] at this
          simp [this]
      · obtain ⟨t, ht, htm⟩ := hown m0 (by simp) hk
        obtain ⟨y, hy⟩ := find_some_of_mem (p := fun t : Transceiver => t.mid == some m0.mid) ht (by simp [htm])
        cases hs : pc.sctp with
        | none => simp [Pc.byMid, hy]
        | some s =>
          simp only
          split
          · exact ⟨_, rfl⟩
          · simp [Pc.byMid, hy]
    obtain ⟨p, hp⟩ := hprim
    rw [hp]
    exact ⟨_, rfl⟩

theorem applyBundle_frame {pc pc2 : Pc} {b : List String} (h : pc.applyBundleWith bundleStep b = .ok pc2) :
    pc2.slots = pc.slots ∧ pc2.seenMids = pc.seenMids ∧ pc2.sctpMid = pc.sctpMid := by
  unfold Pc.applyBundleWith at h
  split at h
  · cases h; exact ⟨rfl, rfl, rfl⟩
  · split at h
    · cases h
      refine ⟨rfl, rfl, ?_⟩
      simp only [Pc.sctpMid, bundleStep]
      cases hs : pc.sctp with
      | none => rfl
      | some s =>
        simp only [Option.map_some, Option.bind_some]
        split <;> rfl
    · split at h
      · cases h
      · cases h; exact ⟨rfl, rfl, rfl⟩

theorem SameBut.shape {t t2 : Transceiver} (h : SameBut t t2) : shape t2 = shape t := by
  unfold SameBut at h; rw [h]; rfl

theorem SameBut.preferred {t t2 : Transceiver} (h : SameBut t t2) : t2.preferred = t.preferred := by
  unfold SameBut at h; rw [h]

theorem SameBut.kind {t t2 : Transceiver} (h : SameBut t t2) : t2.kind = t.kind := by
  unfold SameBut at h; rw [h]

/-! ## setRemoteDescription -/

/-- what a successful `setRemoteDescription(d)` leaves -/
structure RemoteApplied (pc pc' : Pc) (d : Desc) : Prop where
  pre : Pre (keysOf d) pc'.transceivers
  owners : ∀ (j : Nat) (m : MSec), d.media[j]? = some m → m.kind.isMedia = true →
    ∃ t ∈ pc'.transceivers, Negotiated d.type m t ∧ t.mline = some j
  prefs : PrefsSub pc'.transceivers pc.transceivers
  media : AllMedia pc.transceivers → AllMedia pc'.transceivers
  seen : ∀ x, x ∈ pc'.seenMids ↔ x ∈ pc.seenMids ∨ x ∈ d.media.map (·.mid)
  sctpApp : ∀ m ∈ d.media, m.kind.isMedia = false → pc'.sctpMid = some m.mid
  sctpOld : pc'.sctpMid = pc.sctpMid ∨ ∃ m ∈ d.media, m.kind.isMedia = false ∧ pc'.sctpMid = some m.mid
  locals : pc'.pendingLocal = pc.pendingLocal ∧ pc'.currentLocal = pc.currentLocal
  offer : d.type = .offer → pc'.sig = .haveRemoteOffer ∧ pc'.pendingRemote = some d ∧ pc'.currentRemote = pc.currentRemote
  answer : d.type = .answer → pc'.sig = .stable ∧ pc'.currentRemote = some d ∧ pc'.pendingRemote = none

theorem setRemote_ok {pc : Pc} {d : Desc} (hv : pc.validate d false = .ok ()) (hb : d.bundle = d.media.map (·.mid))
    (hnd : ((keysOf d).map (·.2)).Nodup) (hP : Pre (keysOf d) pc.transceivers)
    (hacc : ∀ m ∈ d.media, m.kind.isMedia = true → Accepts pc.transceivers m) (hfit : SctpFits pc d.media) :
    ∃ pc', pc.setRemote d = .ok pc' ∧ RemoteApplied pc pc' d := by
  obtain ⟨pc1, h1, r⟩ := pre_fold (typ := d.type) hnd d.media pc 0 hP
    (fun j m hj => by rw [Nat.zero_add]; exact keys_getElem hj) hacc hfit
  obtain ⟨pc2, h2⟩ := applyBundle_ok (pc := pc1) (ms := d.media)
    (fun m hm hk => by
      obtain ⟨j, hj⟩ := List.getElem?_of_mem hm
      obtain ⟨t, ht, hN, _⟩ := r.owners j m hj hk
      exact ⟨t, ht, hN.mid⟩)
    r.sctpApp
  obtain ⟨g, hg, hmap⟩ := applyBundle_transceivers h2
  obtain ⟨f1, f2, f3⟩ := applyBundle_frame h2
  have hshape : pc2.transceivers.map shape = pc1.transceivers.map shape := by
    rw [hmap, List.map_map]
    exact List.map_congr_left (fun t _ => (hg t).shape)
  have hslots1 := r.slots
  simp only [Pc.slots, Prod.mk.injEq] at hslots1 f1
  -- the result, by type of the description
  have hres : ∃ pc', pc.setRemote d = .ok pc' ∧ pc'.transceivers = pc2.transceivers ∧ pc'.seenMids = pc2.seenMids ∧
      pc'.sctp = pc2.sctp ∧ pc'.pendingLocal = pc2.pendingLocal ∧ pc'.currentLocal = pc2.currentLocal ∧
      (d.type = .offer → pc'.sig = .haveRemoteOffer ∧ pc'.pendingRemote = some d ∧ pc'.currentRemote = pc2.currentRemote) ∧
      (d.type = .answer → pc'.sig = .stable ∧ pc'.currentRemote = some d ∧ pc'.pendingRemote = none) := by
    have hb' : pc1.applyBundleWith bundleStep d.bundle = .ok pc2 := by rw [hb]; exact h2
    cases ht : d.type
    · refine ⟨{ pc2 with sig := .haveRemoteOffer, pendingRemote := some d }, ?_, rfl, rfl, rfl, rfl, rfl,
        fun _ => ⟨rfl, rfl, rfl⟩, fun hh => (by cases hh)⟩
      unfold Pc.setRemote Pc.setRemoteWith
      rw [ht] at h1
      simp only [hv, ht, h1, hb']
      rfl
    · refine ⟨{ pc2 with sig := .stable, currentRemote := some d, pendingRemote := none }, ?_, rfl, rfl, rfl, rfl, rfl,
        fun hh => (by cases hh), fun _ => ⟨rfl, rfl, rfl⟩⟩
      unfold Pc.setRemote Pc.setRemoteWith
      rw [ht] at h1
      simp only [hv, ht, h1, hb']
      rfl
  obtain ⟨pc', hok, e1, e2, e3, e4, e5, e6, e7⟩ := hres
  have hsm : pc'.sctpMid = pc1.sctpMid := by simp [Pc.sctpMid, e3]; exact f3
  refine ⟨pc', hok, ?_⟩
  refine { pre := by rw [e1]; exact r.pre.congr hshape, owners := ?_, prefs := ?_, media := ?_, seen := ?_, sctpApp := ?_,
           sctpOld := ?_, locals := ?_, offer := ?_, answer := e7 }
  · intro j m hj hk
    obtain ⟨t, ht, hN, hl⟩ := r.owners j m hj hk
    refine ⟨g t, by rw [e1, hmap]; exact List.mem_map_of_mem ht, hN.sameBut (hg t), ?_⟩
    rw [(hg t).mline]; simpa using hl
  · intro t' ht'
    rw [e1, hmap] at ht'
    obtain ⟨t, ht, rfl⟩ := List.mem_map.mp ht'
    rw [(hg t).preferred, (hg t).kind]
    exact r.prefs t ht
  · intro hall t' ht'
    rw [e1, hmap] at ht'
    obtain ⟨t, ht, rfl⟩ := List.mem_map.mp ht'
    rw [(hg t).kind]; exact r.media hall t ht
  · intro x; rw [e2, f2]; exact r.seen x
  · intro m hm hk; rw [hsm]; exact r.sctpApp m hm hk
  · rw [hsm]; exact r.sctpOld
  · exact ⟨by rw [e4, f1.2.1, hslots1.2.1], by rw [e5, f1.2.2.1, hslots1.2.2.1]⟩
  · intro ht
    obtain ⟨a1, a2, a3⟩ := e6 ht
    exact ⟨a1, a2, by rw [a3, f1.2.2.2.2, hslots1.2.2.2.2]⟩

end Aiortc.Model.Negotiate
