import Aiortc.Lemmas.C03.RoleOps
set_option linter.unusedSimpArgs false
/-!
C03, round 2 — DTLS roles through a complete exchange: the answerer's side.
-/
namespace Aiortc.Model.Negotiate
open Aiortc (Outcome)
open Aiortc.Model.Jsep (Sig)

/-- what the answerer's half of an exchange does to roles and transports (for a non-empty offer) -/
structure AnswerRoles (a a2 : Pc) (d ans : Desc) (p : Nat) (s : Role) : Prop where
  definite : s = .client ∨ s = .server
  val : s = answerRole (a.roleOf p)
  setups : ∀ m ∈ ans.media, m.setup = s
  step : RoleStep s a.transports a2.transports
  texist : TExist a2
  written : a2.roleOf p = s
  owners : ∀ t ∈ a2.transceivers, t.mid ≠ none → t.transport = p
  sctp : ∀ s', a2.sctp = some s' → s'.mid ≠ none → s'.transport = p
  prov : ∀ m0 rest, d.media = m0 :: rest →
    (m0.kind.isMedia = true → ∀ t ∈ a.transceivers, t.mid = some m0.mid → t.transport = p) ∧
    (m0.kind.isMedia = false → ∀ s0, a.sctp = some s0 → s0.transport = p)

theorem answer_roles {a a1 a2 : Pc} {d ans0 ans : Desc} (ha : WF a) (hT : TExist a) (hty : d.type = .offer)
    (hb : d.bundle = d.media.map (·.mid)) (hnd : ((keysOf d).map (·.2)).Nodup) (hpref : ∃ rest, keysOf d = a.keys ++ rest)
    (hsame : ∀ m1 ∈ d.media, ∀ m2 ∈ d.media, m1.kind.isMedia = false → m2.kind.isMedia = false → m1.mid = m2.mid)
    (hacc : ∀ m ∈ d.media, m.kind.isMedia = true → Accepts a.transceivers m)
    (hauto : ∀ m ∈ d.media, m.setup = .auto) (hne : d.media ≠ [])
    (c4 : a.setRemote d = .ok a1) (c5 : a1.createAnswer = .ok ans0) (c6 : a1.setLocal ans0 = .ok a2) (c7 : a2.localDesc = some ans) :
    ∃ p s, AnswerRoles a a2 d ans p s := by
  obtain ⟨rest, hrest⟩ := hpref
  have hv : a.validate d false = .ok () := by
    unfold Pc.validate; simp [hty, ha.stable, stateAllows]
  have hP : Pre (keysOf d) a.transceivers := by rw [hrest]; exact ha.pre.mono
  have hfit : SctpFits a d.media := by
    refine ⟨hsame, ?_⟩
    intro m hm hk y hy
    have hin : (Kind.application, y) ∈ keysOf d := by rw [hrest]; simp [ha.sctpIn y hy]
    obtain ⟨mm, hmm, he⟩ := List.mem_map.mp hin
    simp only [Prod.mk.injEq] at he
    have := hsame m hm mm hmm hk (by rw [he.1]; rfl)
    rw [this, he.2]
  obtain ⟨a1', h1, R⟩ := setRemote_ok hv hb hnd hP hacc hfit (fun x hx => by rw [hrest]; simp [ha.sctpIn x hx])
  rw [c4] at h1; cases h1
  obtain ⟨r1, r2, r3⟩ := R.offer hty
  have hrd : a1.remoteDesc = some d := by simp [Pc.remoteDesc, r2]
  have hown : ∀ m ∈ d.media, m.kind.isMedia = true → ∃ t ∈ a1.transceivers, Negotiated .offer m t := by
    intro m hm hk
    obtain ⟨j, hj⟩ := List.getElem?_of_mem hm
    obtain ⟨t, ht, hN, _⟩ := R.owners j m hj hk
    rw [hty] at hN
    exact ⟨t, ht, hN⟩
  obtain ⟨ans0', h2, aty, ab, hrel⟩ := createAnswer_ok r1 hrd R.pre.unique hown R.sctpApp
  rw [c5] at h2; cases h2
  have hk0 : keysOf ans0 = keysOf d := rel2_keys hrel
  obtain ⟨_, media, href, q1, q2, q3, q4, q5⟩ := setLocal_answer_spec aty c6
  have hans : ans = { ans0 with media } := by
    simp [Pc.localDesc, q4, q5] at c7; exact c7.symm
  have hlines : ∀ t ∈ a1.transceivers, ∀ j, t.mline = some j → ∃ m, ans0.media[j]? = some m ∧ t.mid = some m.mid := by
    intro t ht j hj
    rcases R.pre.lines t ht with ⟨_, h0⟩ | ⟨j', x, hj', hx, hl⟩
    · rw [h0] at hj; cases hj
    · rw [hl] at hj; cases hj
      rw [← hk0] at hj'
      obtain ⟨m, hm, he⟩ := keys_getElem_inv hj'
      simp only [Prod.mk.injEq] at he
      exact ⟨m, hm, by rw [hx, he.2]⟩
  have hts := setLocal_answer_transceivers aty c6 hlines
  have hT1 : TExist a1 := texist_setRemote hT c4
  have hstay := setLocal_stays c6
  have hT2 : TExist a2 := hstay.texist hT1
  -- the transport of the bundle
  obtain ⟨p, hon1, hon2, hon3, _⟩ := R.onPrimary
  have hrs : RoleSame a.transports a1.transports := R.rolesOffer hty hauto
  have hro1 : a1.roleOf p = a.roleOf p := by rw [roleOf_eq, roleOf_eq]; exact hrs.lookup p
  -- a transceiver of a1 that has a mid owns a media section of the offer, hence sits on p
  have hmedia1 : AllMedia a1.transceivers := R.media ha.media
  have hown1 : ∀ t ∈ a1.transceivers, t.mid ≠ none → t.transport = p := by
    intro t ht hm
    rcases R.pre.lines t ht with ⟨h0, _⟩ | ⟨j, x, hj, hx, _⟩
    · exact absurd h0 hm
    · obtain ⟨m, hmj, he⟩ := keys_getElem_inv hj
      simp only [Prod.mk.injEq] at he
      exact hon1 t ht ⟨m, List.mem_of_getElem? hmj, by rw [← he.1]; exact hmedia1 t ht, by rw [hx, he.2]⟩
  have hsctp1 : ∀ s', a1.sctp = some s' → s'.mid ≠ none → s'.transport = p := by
    intro s' hs' hm
    cases hmid : s'.mid with
    | none => exact absurd hmid hm
    | some x =>
      have hsm : a1.sctpMid = some x := by simp [Pc.sctpMid, hs', hmid]
      have hin : (Kind.application, x) ∈ keysOf d := by
        rcases R.sctpOld with e | ⟨m, hm', hk, e⟩
        · rw [e] at hsm; rw [hrest]; simp [ha.sctpIn x hsm]
        · rw [e] at hsm
          have : (m.kind, m.mid) ∈ keysOf d := List.mem_map_of_mem hm'
          rw [kind_not_media hk, Option.some.inj hsm] at this; exact this
      obtain ⟨m, hm', he⟩ := List.mem_map.mp hin
      simp only [Prod.mk.injEq] at he
      exact hon2 s' hs' ⟨m, hm', by rw [he.1]; rfl⟩
  -- all sections of the answer carry the role of p
  have hsetup0 : ∀ sec ∈ ans0.media, sec.setup = answerRole (a1.roleOf p) := by
    intro sec hsec
    obtain ⟨m, hm, hA⟩ := hrel.mem_right sec hsec
    cases hk : m.kind.isMedia
    · obtain ⟨s0, hs0, he⟩ := hA.2.2.2.2 hk
      rw [he, hon2 s0 hs0 ⟨m, hm, hk⟩]
    · obtain ⟨t, ht, hN, _, _, _, he⟩ := hA.2.2.2.1 hk
      rw [he, hon1 t ht ⟨m, hm, hk, hN.mid⟩]
  have hdef : answerRole (a1.roleOf p) = .client ∨ answerRole (a1.roleOf p) = .server := by
    cases a1.roleOf p <;> simp [answerRole]
  -- roles written by setLocalDescription(answer)
  obtain ⟨pc2, pc4, hasg, hlr, htr⟩ := setLocal_answer_roleparts aty c6
  obtain ⟨hst2, etr2⟩ := assignMids_stays _ _ _ _ hasg
  have etr2' : pc2.transports = a1.transports := etr2
  have ets2 : pc2.transceivers = a1.transceivers := by
    refine (assignMids_noop _ _ pc2 0 ?_ hasg).trans rfl
    intro t ht j hj _
    simpa using hlines t ht j hj
  have hstep12 : RoleStep (answerRole (a1.roleOf p)) a1.transports a2.transports := by
    rw [htr, ← etr2']; exact localRoles_roleStep _ _ _ _ hsetup0 hlr
  -- p exists and is written
  have hlen : ans0.media.length = d.media.length := by
    have := congrArg List.length hk0; simpa [keysOf] using this
  have hwritten : a2.roleOf p = answerRole (a1.roleOf p) := by
    cases hm0 : ans0.media with
    | nil => rw [hm0] at hlen; simp at hlen; exact absurd (List.length_eq_zero_iff.mp hlen.symm) hne
    | cons sec0 srest =>
      rw [hm0] at hlr
      obtain ⟨m0, hm0d, hA0⟩ := hrel.get_right 0 sec0 (by rw [hm0]; rfl)
      have hm0mem : m0 ∈ d.media := List.mem_of_getElem? hm0d
      have hmed : sec0.kind.isMedia = true → ∃ t, pc2.byMline 0 = some t ∧ t.transport = p := by
        intro hk
        have hk' : m0.kind.isMedia = true := by rw [← hA0.1]; exact hk
        obtain ⟨t, ht, hN, hl⟩ := R.owners 0 m0 hm0d hk'
        obtain ⟨y, hy⟩ := find_some_of_mem (p := fun t : Transceiver => t.mline == some 0) ht (by simp [hl])
        have hym : y ∈ a1.transceivers := List.mem_of_find?_eq_some hy
        have hyl : y.mline = some 0 := by simpa using List.find?_some hy
        obtain ⟨mm, _, hymid⟩ := hlines y hym 0 hyl
        refine ⟨y, by simp [Pc.byMline, ets2, hy], hown1 y hym (by rw [hymid]; simp)⟩
      have happ : sec0.kind.isMedia = false → ∃ s, pc2.sctp = some s ∧ s.transport = p := by
        intro hk
        have hk' : m0.kind.isMedia = false := by rw [← hA0.1]; exact hk
        have hsm := R.sctpApp m0 hm0mem hk'
        simp only [Pc.sctpMid] at hsm
        cases hs1 : a1.sctp with
        | none => simp [hs1] at hsm
        | some s1 =>
          have hsome : (({ a1 with sig := Sig.stable } : Pc)).sctp.isSome = true := by simp [hs1]
          have := (assignMids_keeps_lines _ _ _ _ hasg).2 hsome
          obtain ⟨s2, hs2⟩ := Option.isSome_iff_exists.mp this
          obtain ⟨s1', hs1', he⟩ := hst2.sctp s2 hs2
          have : s1' = s1 := by
            have : a1.sctp = some s1' := hs1'
            rw [hs1] at this; exact (Option.some.inj this).symm
          subst this
          refine ⟨s2, hs2, ?_⟩
          rw [he]
          exact hon2 s1' hs1 ⟨m0, hm0mem, hk'⟩
      have hid : HasId pc2.transports p := by
        rw [etr2']
        cases hk : m0.kind.isMedia
        · have hsm := R.sctpApp m0 hm0mem hk
          simp only [Pc.sctpMid] at hsm
          cases hs1 : a1.sctp with
          | none => simp [hs1] at hsm
          | some s1 =>
            rw [← hon2 s1 hs1 ⟨m0, hm0mem, hk⟩]
            exact hT1.sctp s1 hs1
        · obtain ⟨t, ht, hN, _⟩ := R.owners 0 m0 hm0d hk
          rw [hty] at hN
          rw [← hon1 t ht ⟨m0, hm0mem, hk, hN.mid⟩]
          exact hT1.ts t ht
      have := localRoles_writes (v := answerRole (a1.roleOf p)) (p := p) (fun m hm => hsetup0 m (by rw [hm0]; exact hm)) hmed happ hid hlr
      rw [roleOf_eq] at this ⊢
      rw [htr]; exact this
  refine ⟨p, answerRole (a1.roleOf p), hdef, by rw [hro1], ?_, (hrs.toStep _).trans hstep12, hT2, hwritten, ?_, ?_, hon3⟩
  · intro m hm
    rw [hans] at hm
    obtain ⟨m0, hm0, he⟩ := refresh_setup href m hm
    rw [he]; exact hsetup0 m0 hm0
  · intro t ht hm
    rw [hts] at ht
    simp only [localDirections, List.mem_map] at ht
    obtain ⟨t1, ht1, rfl⟩ := ht
    cases hod : t1.offerDirection with
    | none =>
      simp only [hod] at hm ⊢
      exact hown1 t1 ht1 hm
    | some od =>
      simp only [hod] at hm ⊢
      exact hown1 t1 ht1 hm
  · intro s' hs' hm
    obtain ⟨s1, hs1, he⟩ := hstay.sctp s' hs'
    rw [he]
    -- the mid of the SCTP transport of a1
    cases hmid1 : s1.mid with
    | some x => exact hsctp1 s1 hs1 (by rw [hmid1]; simp)
    | none =>
      -- then a2's mid comes from an application section of the answer, i.e. of the offer
      cases hmid2 : s'.mid with
      | none => exact absurd hmid2 hm
      | some x =>
        obtain ⟨i1, i2, i3⟩ := assignMids_frame _ _ _ _ hasg
        obtain ⟨pcA, hpA, _, pA2⟩ := setLocal_answer_parts aty c6
        rw [hasg] at hpA; cases hpA
        have hsm2 : pc2.sctpMid = some x := by simp [Pc.sctpMid, ← pA2, hs', hmid2]
        rcases i2 with e | ⟨sec, hsec, hk, e⟩
        · rw [e] at hsm2
          simp [Pc.sctpMid, hs1, hmid1] at hsm2
        · obtain ⟨m, hm', hA⟩ := hrel.mem_right sec hsec
          exact hon2 s1 hs1 ⟨m, hm', by rw [← hA.1]; exact hk⟩

/-! ## the role invariant of a pair and its preservation -/

def Opp (ro ra : Role) : Prop := (ro = .client ∧ ra = .server) ∨ (ro = .server ∧ ra = .client)

theorem Opp.symm {x y : Role} (h : Opp x y) : Opp y x := by
  rcases h with ⟨h1, h2⟩ | ⟨h1, h2⟩
  · exact .inr ⟨h2, h1⟩
  · exact .inl ⟨h2, h1⟩

theorem opp_oppRole {s : Role} (h : s = .client ∨ s = .server) : Opp (oppRole s) s := by
  rcases h with rfl | rfl
  · exact .inr ⟨rfl, rfl⟩
  · exact .inl ⟨rfl, rfl⟩

theorem Opp.oppRole_eq {ro ra : Role} (h : Opp ro ra) : oppRole ra = ro := by
  rcases h with ⟨rfl, rfl⟩ | ⟨rfl, rfl⟩ <;> rfl

theorem Opp.answerRole_eq {ro ra : Role} (h : Opp ro ra) : answerRole ra = ra := by
  rcases h with ⟨_, rfl⟩ | ⟨_, rfl⟩ <;> rfl

/-- role well-formedness of one connection: every definite role is `r`; negotiated sections sit on transports of role `r` -/
structure RWF (pc : Pc) (r : Role) : Prop where
  texist : TExist pc
  uniform : RolesU r pc.transports
  owners : ∀ t ∈ pc.transceivers, t.mid ≠ none → pc.roleOf t.transport = r
  sctpOwner : ∀ s, pc.sctp = some s → s.mid ≠ none → pc.roleOf s.transport = r
  fresh : pc.keys = [] → ∀ x ∈ pc.transports, x.role = .auto

/-- the two connections have opposite roles -/
def RolePair (o a : Pc) : Prop := ∃ ro ra, Opp ro ra ∧ RWF o ro ∧ RWF a ra

theorem RolePair.symm {o a : Pc} (h : RolePair o a) : RolePair a o := by
  obtain ⟨ro, ra, h1, h2, h3⟩ := h
  exact ⟨ra, ro, h1.symm, h3, h2⟩

theorem lookup_all_auto {ts : List Transport} (h : ∀ x ∈ ts, x.role = .auto) (id : Nat) : lookupRole id ts = .auto := by
  unfold lookupRole
  cases hf : ts.find? (fun t => t.id == id) with
  | none => rfl
  | some x => exact h x (List.mem_of_find?_eq_some hf)

theorem rolesU_of_auto {ts : List Transport} (h : ∀ x ∈ ts, x.role = .auto) (r : Role) : RolesU r ts := fun x hx => .inl (h x hx)

theorem roleSame_all_auto {ts ts' : List Transport} (h : RoleSame ts ts') (ha : ∀ x ∈ ts, x.role = .auto) : ∀ x ∈ ts', x.role = .auto := by
  obtain ⟨f, e, rfl, hf, he⟩ := h
  intro x hx
  rcases List.mem_append.mp hx with h1 | h1
  · obtain ⟨x0, hx0, rfl⟩ := List.mem_map.mp h1
    rw [(hf x0).2]; exact ha x0 hx0
  · exact he x h1

theorem RoleSame.rolesU {r : Role} {ts ts' : List Transport} (h : RoleSame ts ts') (hu : RolesU r ts) : RolesU r ts' :=
  (h.toStep .auto).rolesU hu (.inl rfl)

theorem setRemote_roleSame_of_nil {pc pc' : Pc} {d : Desc} (h : pc.setRemote d = .ok pc') (hm : d.media = []) :
    RoleSame pc.transports pc'.transports := by
  obtain ⟨_, pc1, pc2, h1, h2, hO, hA⟩ := setRemoteWith_spec h
  rw [hm] at h1
  simp [applyRemote] at h1; subst h1
  have hb := applyBundle_roles h2
  cases ht : d.type
  · rw [hO ht]; exact hb
  · rw [hA ht]; exact hb

theorem setRemote_offer_roleSame {pc pc' : Pc} {d : Desc} (h : pc.setRemote d = .ok pc') (ht : d.type = .offer)
    (hauto : ∀ m ∈ d.media, m.setup = .auto) : RoleSame pc.transports pc'.transports := by
  obtain ⟨_, pc1, pc2, h1, h2, hO, _⟩ := setRemoteWith_spec h
  rw [ht] at h1
  have hb : RoleSame pc.transports pc2.transports := (applyRemote_roles_offer _ _ _ _ hauto h1).trans (applyBundle_roles h2)
  rw [hO ht]
  exact hb

theorem setLocal_answer_roleSame_of_nil {pc pc' : Pc} {d : Desc} (ht : d.type = .answer) (h : pc.setLocal d = .ok pc') (hm : d.media = []) :
    RoleSame pc.transports pc'.transports := by
  obtain ⟨pc2, pc4, hasg, hlr, htr⟩ := setLocal_answer_roleparts ht h
  rw [hm] at hasg hlr
  simp [assignMids] at hasg
  simp [localRoles] at hlr
  rw [htr, ← hlr, ← hasg]
  exact RoleSame.refl _

/-- **Roles through an exchange**: the pair invariant is preserved, and a definite DTLS role never changes. -/
theorem exchange_roles {o a : Pc} {ex : Exchange} (_ho : WF o) (ha : WF a) (hp : Paired o a) (hok : ExchangeOk o a ex) (hr : RolePair o a) :
    RolePair ex.offerer ex.answerer ∧
    (∀ id r, (r = .client ∨ r = .server) → o.roleOf id = r → ex.offerer.roleOf id = r) ∧
    (∀ id r, (r = .client ∨ r = .server) → a.roleOf id = r → ex.answerer.roleOf id = r) := by
  obtain ⟨ro, ra, hopp, Ro, Ra⟩ := hr
  obtain ⟨o1, d0, ans0, c1, c2, c3, c4, c5, c6, c7, c8⟩ := hok.calls
  have A := hok.offerA
  have B := hok.answerA
  have R := hok.remoteO
  obtain ⟨rest, hrest⟩ := A.pref
  -- the offerer up to the answer: nothing moves, no role changes
  obtain ⟨st1, etr1⟩ := createOffer_stays c1
  have st2 := setLocal_stays c2
  have hT2 : TExist ex.offererMid := (st1.trans st2).texist Ro.texist
  have hrs2 : RoleSame o.transports ex.offererMid.transports :=
    (roleSame_of_eq etr1).trans (setLocal_offer_roleSame (by
      obtain ⟨h1, _⟩ := createOffer_shape c1; exact h1) c2)
  have hT3 : TExist ex.offerer := texist_setRemote hT2 c8
  have hTa1 : TExist ex.answererMid := texist_setRemote Ra.texist c4
  have hTa2 : TExist ex.answerer := (setLocal_stays c6).texist hTa1
  have hlen : ex.answer.media.length = ex.offer.media.length := by
    have := congrArg List.length B.akeys; simpa [keysOf] using this
  have hOkeys : ex.offerer.keys = keysOf ex.offer := hok.offerKeys.symm
  have hAkeys : ex.answerer.keys = keysOf ex.offer := B.keys
  cases hmed : ex.offer.media with
  | nil =>
    -- an exchange of empty descriptions: nothing is written
    have hamed : ex.answer.media = [] := by
      rw [hmed] at hlen; exact List.length_eq_zero_iff.mp hlen
    have hans0 : ans0.media = [] := by
      obtain ⟨_, media, href, _, _, _, q4, q5⟩ := setLocal_answer_spec (by
        obtain ⟨h1, _⟩ := createAnswer_spec c5; exact h1) c6
      have : ex.answer = { ans0 with media } := by
        simp [Pc.localDesc, q4, q5] at c7; exact c7.symm
      rw [this] at hamed
      have hl := href.length
      simp only at hamed
      rw [hamed] at hl
      exact List.length_eq_zero_iff.mp (by simpa using hl)
    have hra : RoleSame a.transports ex.answerer.transports :=
      (setRemote_roleSame_of_nil c4 hmed).trans (setLocal_answer_roleSame_of_nil (by
        obtain ⟨h1, _⟩ := createAnswer_spec c5; exact h1) c6 hans0)
    have hro : RoleSame o.transports ex.offerer.transports := hrs2.trans (setRemote_roleSame_of_nil c8 hamed)
    have hkO : ex.offerer.keys = [] := by rw [hOkeys]; simp [keysOf, hmed]
    have hkA : ex.answerer.keys = [] := by rw [hAkeys]; simp [keysOf, hmed]
    have hko : o.keys = [] := by
      have : keysOf ex.offer = [] := by simp [keysOf, hmed]
      rw [hrest] at this
      exact (List.append_eq_nil_iff.mp this).1
    have hka : a.keys = [] := by rw [← hp.keys]; exact hko
    have nomid : ∀ {pc : Pc}, WF pc → pc.keys = [] → (∀ t ∈ pc.transceivers, t.mid = none) ∧ (∀ s, pc.sctp = some s → s.mid = none) := by
      intro pc hw hk
      refine ⟨?_, ?_⟩
      · intro t ht
        rcases hw.pre.lines t ht with ⟨h1, _⟩ | ⟨j, x, hj, _, _⟩
        · exact h1
        · rw [hk] at hj; simp at hj
      · intro s hs
        cases hm : s.mid with
        | none => rfl
        | some x =>
          have := hw.sctpIn x (by simp [Pc.sctpMid, hs, hm])
          rw [hk] at this; simp at this
    refine ⟨⟨ro, ra, hopp, ?_, ?_⟩, ?_, ?_⟩
    · obtain ⟨n1, n2⟩ := nomid hok.wfO hkO
      exact ⟨hT3, hro.rolesU Ro.uniform, fun t ht hm => absurd (n1 t ht) hm, fun s hs hm => absurd (n2 s hs) hm,
        fun _ => roleSame_all_auto hro (Ro.fresh hko)⟩
    · obtain ⟨n1, n2⟩ := nomid hok.wfA hkA
      exact ⟨hTa2, hra.rolesU Ra.uniform, fun t ht hm => absurd (n1 t ht) hm, fun s hs hm => absurd (n2 s hs) hm,
        fun _ => roleSame_all_auto hra (Ra.fresh hka)⟩
    · intro id r _ hid
      rw [roleOf_eq] at hid ⊢
      rw [hro.lookup]; exact hid
    · intro id r _ hid
      rw [roleOf_eq] at hid ⊢
      rw [hra.lookup]; exact hid
  | cons m0 mrest =>
    have hne : ex.offer.media ≠ [] := by rw [hmed]; simp
    obtain ⟨p, s, AR⟩ := answer_roles ha Ra.texist A.type A.bundle A.nodup ⟨rest, by rw [hrest, hp.keys]⟩ A.appSame hok.accepts
      A.setup hne c4 c5 c6 c7
    -- the first section was negotiated before iff the pair has sections; then `s` is the answerer's role
    have hsEq : a.keys ≠ [] → s = ra := by
      intro hk
      have hk0 : a.keys[0]? = some (m0.kind, m0.mid) := by
        have h1 : (keysOf ex.offer)[0]? = some (m0.kind, m0.mid) := by simp [keysOf, hmed]
        rw [hrest, hp.keys] at h1
        cases hka : a.keys with
        | nil => exact absurd hka hk
        | cons k0 ks => rw [hka] at h1; simpa using h1
      have hrole : a.roleOf p = ra := by
        obtain ⟨pm, pa⟩ := AR.prov m0 mrest hmed
        cases hkm : m0.kind.isMedia
        · have hsm := ha.sctpHas m0.mid (by
            have := List.mem_of_getElem? hk0
            rw [kind_not_media hkm] at this; exact this)
          simp only [Pc.sctpMid] at hsm
          cases hs0 : a.sctp with
          | none => simp [hs0] at hsm
          | some s0 =>
            simp only [hs0, Option.bind_some] at hsm
            rw [← pa hkm s0 hs0]
            exact Ra.sctpOwner s0 hs0 (by rw [hsm]; simp)
        · obtain ⟨t, ht, htm⟩ := ha.owned 0 m0.kind m0.mid hk0 hkm
          rw [← pm hkm t ht htm]
          exact Ra.owners t ht (by rw [htm]; simp)
      rw [AR.val, hrole, hopp.answerRole_eq]
    have hw : ∀ m ∈ ex.answer.media, oppRole m.setup = oppRole s := fun m hm => by rw [AR.setups m hm]
    have hane : ex.answer.media ≠ [] := by
      intro h0; rw [h0, hmed] at hlen; simp at hlen
    obtain ⟨p3, on1, on2, _, on4⟩ := R.onPrimary
    have hwr3 : ex.offerer.roleOf p3 = oppRole s := on4 (oppRole s) B.type hw hT2 hane
    have hstepO : RoleStep (oppRole s) o.transports ex.offerer.transports :=
      (hrs2.toStep _).trans (R.rolesAnswer (oppRole s) B.type hw)
    have hkne : ∀ {pc : Pc}, pc.keys = keysOf ex.offer → pc.keys ≠ [] := by
      intro pc h; rw [h]; simp [keysOf, hmed]
    -- uniformity
    have huA : RolesU s ex.answerer.transports := by
      by_cases hk : a.keys = []
      · exact AR.step.rolesU (rolesU_of_auto (Ra.fresh hk) s) (.inr rfl)
      · rw [hsEq hk] at AR ⊢
        exact AR.step.rolesU Ra.uniform (.inr rfl)
    have huO : RolesU (oppRole s) ex.offerer.transports := by
      by_cases hk : o.keys = []
      · exact hstepO.rolesU (rolesU_of_auto (Ro.fresh hk) _) (.inr rfl)
      · have hk' : a.keys ≠ [] := by rw [← hp.keys]; exact hk
        have : oppRole s = ro := by rw [hsEq hk']; exact hopp.oppRole_eq
        rw [this] at hstepO ⊢
        exact hstepO.rolesU Ro.uniform (.inr rfl)
    have hmediaO : AllMedia ex.offerer.transceivers := hok.wfO.media
    refine ⟨⟨oppRole s, s, opp_oppRole AR.definite, ?_, ?_⟩, ?_, ?_⟩
    · refine ⟨hT3, huO, ?_, ?_, fun h0 => absurd h0 (hkne hOkeys)⟩
      · intro t ht hm
        rcases R.pre.lines t ht with ⟨h0, _⟩ | ⟨j, x, hj, hx, _⟩
        · exact absurd h0 hm
        · obtain ⟨m, hmj, he⟩ := keys_getElem_inv hj
          simp only [Prod.mk.injEq] at he
          rw [on1 t ht ⟨m, List.mem_of_getElem? hmj, by rw [← he.1]; exact hmediaO t ht, by rw [hx, he.2]⟩]
          exact hwr3
      · intro s' hs' hm
        cases hmid : s'.mid with
        | none => exact absurd hmid hm
        | some x =>
          have hin := hok.wfO.sctpIn x (by simp [Pc.sctpMid, hs', hmid])
          rw [← hok.answerKeys] at hin
          obtain ⟨m, hm', he⟩ := List.mem_map.mp hin
          simp only [Prod.mk.injEq] at he
          rw [on2 s' hs' ⟨m, hm', by rw [he.1]; rfl⟩]
          exact hwr3
    · exact ⟨AR.texist, huA, fun t ht hm => by rw [AR.owners t ht hm]; exact AR.written,
        fun s' hs' hm => by rw [AR.sctp s' hs' hm]; exact AR.written, fun h0 => absurd h0 (hkne hAkeys)⟩
    · intro id r hr hid
      have hk : o.keys ≠ [] := by
        intro h0
        have := lookup_all_auto (Ro.fresh h0) id
        rw [roleOf_eq] at hid; rw [this] at hid
        rcases hr with rfl | rfl <;> cases hid
      have hk' : a.keys ≠ [] := by rw [← hp.keys]; exact hk
      have hw' : oppRole s = ro := by rw [hsEq hk']; exact hopp.oppRole_eq
      have hrr : r = ro := by
        rw [roleOf_eq] at hid
        rcases Ro.uniform.lookup id with h1 | h1
        · rw [h1] at hid; rcases hr with rfl | rfl <;> cases hid
        · rw [← hid, h1]
      rw [roleOf_eq] at hid ⊢
      rcases hstepO.lookup id with h1 | h1
      · rw [h1]; exact hid
      · rw [h1, hw', hrr]
    · intro id r hr hid
      have hk : a.keys ≠ [] := by
        intro h0
        have := lookup_all_auto (Ra.fresh h0) id
        rw [roleOf_eq] at hid; rw [this] at hid
        rcases hr with rfl | rfl <;> cases hid
      have hrr : r = ra := by
        rw [roleOf_eq] at hid
        rcases Ra.uniform.lookup id with h1 | h1
        · rw [h1] at hid; rcases hr with rfl | rfl <;> cases hid
        · rw [← hid, h1]
      rw [roleOf_eq] at hid ⊢
      rcases AR.step.lookup id with h1 | h1
      · rw [h1]; exact hid
      · rw [h1, hsEq hk, hrr]

/-! ## set-up operations keep the role invariant -/

theorem RWF.of_setup {pc pc' : Pc} {r : Role} (h : RWF pc r) (hT : TExist pc') (hr : RoleSame pc.transports pc'.transports)
    (hk : pc'.keys = pc.keys)
    (hts : ∀ t' ∈ pc'.transceivers, t'.mid ≠ none → ∃ t ∈ pc.transceivers, t.mid ≠ none ∧ t'.transport = t.transport)
    (hs : ∀ s', pc'.sctp = some s' → s'.mid ≠ none → ∃ s, pc.sctp = some s ∧ s.mid ≠ none ∧ s'.transport = s.transport) :
    RWF pc' r := by
  refine ⟨hT, hr.rolesU h.uniform, ?_, ?_, fun h0 => roleSame_all_auto hr (h.fresh (by rw [← hk]; exact h0))⟩
  · intro t' ht' hm
    obtain ⟨t, ht, hm0, he⟩ := hts t' ht' hm
    rw [he, roleOf_eq, hr.lookup, ← roleOf_eq]; exact h.owners t ht hm0
  · intro s' hs' hm
    obtain ⟨s, hs0, hm0, he⟩ := hs s' hs' hm
    rw [he, roleOf_eq, hr.lookup, ← roleOf_eq]; exact h.sctpOwner s hs0 hm0

theorem rwf_createTransceiver {pc : Pc} {r : Role} (h : RWF pc r) (d : Dir) (k : Kind) (tr : Bool) : RWF (pc.createTransceiver d k tr) r := by
  obtain ⟨n, hn, h1, _⟩ := createTransceiver_new pc d k tr
  obtain ⟨f1, _, f3⟩ := createTransceiver_frame pc d k tr
  refine h.of_setup (texist_createTransceiver h.texist d k tr) (roleSame_createTransceiver pc d k tr) (keys_of_slots f1) ?_ ?_
  · intro t' ht' hm
    rw [hn] at ht'
    rcases List.mem_append.mp ht' with h2 | h2
    · exact ⟨t', h2, hm, rfl⟩
    · simp at h2; subst h2; exact absurd h1 hm
  · intro s' hs' hm
    rw [f3] at hs'
    exact ⟨s', hs', hm, rfl⟩

theorem rwf_addTrack {pc : Pc} {r : Role} (h : RWF pc r) (k : Kind) : RWF (pc.addTrack k) r := by
  unfold Pc.addTrack
  split
  · rename_i ts hupd
    refine h.of_setup (pc' := { pc with transceivers := ts }) ?_ (RoleSame.refl _) rfl ?_ (fun s' hs' hm => ⟨s', hs', hm, rfl⟩)
    · have := texist_addTrack h.texist k
      unfold Pc.addTrack at this
      rw [hupd] at this
      exact this
    · intro t' ht' hm
      rcases updFirst_mem' hupd t' ht' with h1 | ⟨x, hx, _, rfl⟩
      · exact ⟨t', h1, hm, rfl⟩
      · exact ⟨x, hx, hm, rfl⟩
  · exact rwf_createTransceiver h _ _ _

theorem rwf_createDataChannel {pc : Pc} {r : Role} (h : RWF pc r) : RWF pc.createDataChannel r := by
  unfold Pc.createDataChannel
  split
  · exact h
  · rename_i hs
    have hnone : pc.sctp = none := by simpa using hs
    obtain ⟨f1, f2, _⟩ := createSctp_frame pc
    obtain ⟨s0, hs0, hmid0⟩ := createSctp_sctp pc
    refine h.of_setup (texist_createSctp h.texist) (roleSame_createSctp pc) (keys_of_slots f2) ?_ ?_
    · intro t' ht' hm
      rw [f1] at ht'
      exact ⟨t', ht', hm, rfl⟩
    · intro s' hs' hm
      rw [hs0] at hs'; cases hs'
      exact absurd hmid0 hm

theorem rwf_trySetCodecPreferences {pc : Pc} {r : Role} (h : RWF pc r) (i : Nat) (caps : List Cap) :
    RWF (pc.trySetCodecPreferences i caps) r := by
  have hT := texist_trySetCodecPreferences h.texist i caps
  have hR := (roleSame_setup pc).2.2.2.1 i caps
  unfold Pc.trySetCodecPreferences at hT hR ⊢
  cases hs : pc.setCodecPreferences i caps with
  | ok pc' =>
    rw [hs] at hT hR
    simp only at hT hR ⊢
    unfold Pc.setCodecPreferences at hs
    split at hs
    · cases hs
    · rename_i t ht
      split at hs
      · cases hs
        refine h.of_setup hT hR rfl ?_ (fun s' hs' hm => ⟨s', hs', hm, rfl⟩)
        intro t' ht' hm
        rcases mem_set ht' with rfl | h1
        · exact ⟨t, List.mem_of_getElem? ht, hm, rfl⟩
        · exact ⟨t', h1, hm, rfl⟩
      · cases hs
  | valueError => exact h
  | crash k => exact h
  | hang => exact h

theorem rwf_trySetDirection {pc : Pc} {r : Role} (h : RWF pc r) (i : Nat) (d : Dir) : RWF (pc.trySetDirection i d) r := by
  have hT := texist_trySetDirection h.texist i d
  have hR := (roleSame_setup pc).2.2.2.2 i d
  unfold Pc.trySetDirection at hT hR ⊢
  cases hs : pc.setDirection i d with
  | ok pc' =>
    rw [hs] at hT hR
    simp only at hT hR ⊢
    unfold Pc.setDirection at hs
    split at hs
    · cases hs
    · rename_i t ht
      cases hs
      refine h.of_setup hT hR rfl ?_ (fun s' hs' hm => ⟨s', hs', hm, rfl⟩)
      intro t' ht' hm
      rcases mem_set ht' with rfl | h1
      · exact ⟨t, List.mem_of_getElem? ht, hm, rfl⟩
      · exact ⟨t', h1, hm, rfl⟩
  | valueError => exact h
  | crash k => exact h
  | hang => exact h

theorem rwf_new (p : Policy) (r : Role) : RWF (Pc.new p) r :=
  ⟨texist_new p, fun x hx => by simp [Pc.new] at hx, fun t ht => by simp [Pc.new] at ht, fun s hs => by simp [Pc.new] at hs,
    fun _ x hx => by simp [Pc.new] at hx⟩

theorem rolePair_new (p1 p2 : Policy) : RolePair (Pc.new p1) (Pc.new p2) :=
  ⟨.server, .client, .inr ⟨rfl, rfl⟩, rwf_new p1 _, rwf_new p2 _⟩

end Aiortc.Model.Negotiate
