import Aiortc.Lemmas.C03.Offer3
import Aiortc.Lemmas.C03.Roles
set_option linter.unusedSimpArgs false
/-!
C03, round 2 — every transceiver / the SCTP transport refers to a transport the connection knows (`TExist`), through all
operations; precise effect of the role writes.
-/
namespace Aiortc.Model.Negotiate
open Aiortc (Outcome)
open Aiortc.Model.Jsep (Sig)

def HasId (ts : List Transport) (id : Nat) : Prop := ∃ x ∈ ts, x.id = id

theorem RoleStep.hasId {v : Role} {ts ts' : List Transport} (h : RoleStep v ts ts') {id : Nat} (hi : HasId ts id) : HasId ts' id := by
  obtain ⟨f, e, rfl, hf, _⟩ := h
  obtain ⟨x, hx, rfl⟩ := hi
  exact ⟨f x, by simp [List.mem_map_of_mem hx], (hf x).1⟩

theorem RoleSame.hasId {ts ts' : List Transport} (h : RoleSame ts ts') {id : Nat} (hi : HasId ts id) : HasId ts' id :=
  (h.toStep .auto).hasId hi

/-- transceivers and the SCTP transport sit on transports of the connection -/
structure TExist (pc : Pc) : Prop where
  ts : ∀ t ∈ pc.transceivers, HasId pc.transports t.transport
  sctp : ∀ s, pc.sctp = some s → HasId pc.transports s.transport

theorem texist_new (p : Policy) : TExist (Pc.new p) := ⟨fun t ht => by simp [Pc.new] at ht, fun s hs => by simp [Pc.new] at hs⟩

theorem hasId_lookup_mod {ts : List Transport} {id : Nat} (h : HasId ts id) (f : Transport → Transport) (hid : ∀ x, (f x).id = x.id) :
    ∃ x, ts.find? (fun t => t.id == id) = some x ∧
      lookupRole id (ts.map (fun t => if t.id == id then f t else t)) = (f x).role := by
  obtain ⟨y, hy, hyid⟩ := h
  obtain ⟨x, hx⟩ := find_some_of_mem (p := fun t : Transport => t.id == id) hy (by simp [hyid])
  refine ⟨x, hx, ?_⟩
  unfold lookupRole
  have hidm : ∀ t : Transport, (if t.id == id then f t else t).id = t.id := by
    intro t; split
    · exact hid t
    · rfl
  rw [lookup_map hidm, hx]
  simp only [Option.map_some]
  have : (x.id == id) = true := by simpa using List.find?_some hx
  simp [this]

/-- writing role `v` on an existing transport: it has role `v` afterwards -/
theorem roleOf_modTransport_self {pc : Pc} {id : Nat} (h : HasId pc.transports id) (f : Transport → Transport)
    (hid : ∀ x, (f x).id = x.id) {v : Role} (hv : ∀ x, (f x).role = v) : (pc.modTransport id f).roleOf id = v := by
  obtain ⟨x, _, hl⟩ := hasId_lookup_mod h f hid
  rw [roleOf_eq]
  show lookupRole id (pc.transports.map _) = v
  rw [hl, hv]

/-! ## TExist through the set-up operations -/

theorem texist_of {pc pc' : Pc} (h : TExist pc) (hr : RoleStep .auto pc.transports pc'.transports)
    (hts : ∀ t' ∈ pc'.transceivers, (∃ t ∈ pc.transceivers, t'.transport = t.transport) ∨ HasId pc'.transports t'.transport)
    (hs : ∀ s', pc'.sctp = some s' → (∃ s, pc.sctp = some s ∧ s'.transport = s.transport) ∨ HasId pc'.transports s'.transport) :
    TExist pc' := by
  refine ⟨?_, ?_⟩
  · intro t' ht'
    rcases hts t' ht' with ⟨t, ht, he⟩ | h2
    · rw [he]; exact hr.hasId (h.ts t ht)
    · exact h2
  · intro s' hs'
    rcases hs s' hs' with ⟨s, hs0, he⟩ | h2
    · rw [he]; exact hr.hasId (h.sctp s hs0)
    · exact h2

theorem newTransport_hasId (pc : Pc) : HasId pc.newTransport.1.transports pc.newTransport.2 :=
  ⟨{ id := pc.nextId, role := .auto, ice := none, live := true }, by simp [Pc.newTransport], rfl⟩

theorem texist_createTransceiver {pc : Pc} (h : TExist pc) (d : Dir) (k : Kind) (tr : Bool) : TExist (pc.createTransceiver d k tr) := by
  unfold Pc.createTransceiver
  cases hsh : pc.sharedTransport k with
  | some tid =>
    simp only
    have hex : HasId pc.transports tid := by
      unfold Pc.sharedTransport at hsh
      split at hsh
      · split at hsh
        · rename_i t ts heq
          cases hsh
          exact h.ts t (by rw [heq]; simp)
        · simp only [Option.map_eq_some_iff] at hsh
          obtain ⟨s, hs, rfl⟩ := hsh
          exact h.sctp s hs
      · simp only [Option.map_eq_some_iff] at hsh
        obtain ⟨t, ht, rfl⟩ := hsh
        exact h.ts t (List.mem_of_find?_eq_some ht)
      · cases hsh
    refine ⟨?_, h.sctp⟩
    intro t' ht'
    rcases List.mem_append.mp ht' with h1 | h1
    · exact h.ts t' h1
    · simp at h1; subst h1; exact hex
  | none =>
    simp only
    have hr := roleSame_newTransport pc
    refine ⟨?_, ?_⟩
    · intro t' ht'
      rcases List.mem_append.mp ht' with h1 | h1
      · exact hr.hasId (h.ts t' h1)
      · simp at h1; subst h1; exact newTransport_hasId pc
    · intro s hs
      exact hr.hasId (h.sctp s hs)

theorem texist_createSctp {pc : Pc} (h : TExist pc) : TExist pc.createSctp := by
  unfold Pc.createSctp
  split
  · rename_i t ts _ heq
    refine ⟨h.ts, ?_⟩
    intro s hs; cases hs
    exact h.ts t (by rw [heq]; simp)
  · have hr := roleSame_newTransport pc
    refine ⟨fun t ht => hr.hasId (h.ts t ht), ?_⟩
    intro s hs; cases hs
    exact newTransport_hasId pc

theorem updFirst_transport {p : Transceiver → Bool} {f : Transceiver → Transceiver} (hf : ∀ t, (f t).transport = t.transport)
    {l l' : List Transceiver} (h : updFirst p f l = some l') : ∀ t' ∈ l', ∃ t ∈ l, t'.transport = t.transport := by
  intro t' ht'
  rcases updFirst_mem' h t' ht' with h1 | ⟨x, hx, _, rfl⟩
  · exact ⟨t', h1, rfl⟩
  · exact ⟨x, hx, hf x⟩

theorem texist_addTrack {pc : Pc} (h : TExist pc) (k : Kind) : TExist (pc.addTrack k) := by
  unfold Pc.addTrack
  split
  · rename_i ts hupd
    refine ⟨?_, h.sctp⟩
    intro t' ht'
    obtain ⟨t, ht, he⟩ := updFirst_transport (f := fun t => { t with hasTrack := true, direction := orDir t.direction .sendonly })
      (fun _ => rfl) hupd t' ht'
    rw [he]; exact h.ts t ht
  · exact texist_createTransceiver h _ _ _

theorem texist_createDataChannel {pc : Pc} (h : TExist pc) : TExist pc.createDataChannel := by
  unfold Pc.createDataChannel
  split
  · exact h
  · exact texist_createSctp h

end Aiortc.Model.Negotiate
