import Aiortc.Lemmas.C03.RoleInv
set_option linter.unusedSimpArgs false
/-!
C03, round 2 — `TExist` and the transports of transceivers through the four calls.
-/
namespace Aiortc.Model.Negotiate
open Aiortc (Outcome)
open Aiortc.Model.Jsep (Sig)

def IdsKept (ts ts' : List Transport) : Prop := ∀ id, HasId ts id → HasId ts' id

theorem IdsKept.refl (ts : List Transport) : IdsKept ts ts := fun _ h => h
theorem IdsKept.trans {a b c : List Transport} (h1 : IdsKept a b) (h2 : IdsKept b c) : IdsKept a c := fun id h => h2 id (h1 id h)
theorem RoleStep.idsKept {v : Role} {ts ts' : List Transport} (h : RoleStep v ts ts') : IdsKept ts ts' := fun _ hi => h.hasId hi
theorem RoleSame.idsKept {ts ts' : List Transport} (h : RoleSame ts ts') : IdsKept ts ts' := fun _ hi => h.hasId hi

theorem idsKept_map {ts : List Transport} {f : Transport → Transport} (hf : ∀ x, (f x).id = x.id) : IdsKept ts (ts.map f) := by
  intro id ⟨x, hx, he⟩
  exact ⟨f x, List.mem_map_of_mem hx, by rw [hf, he]⟩

/-- how a call may change where things sit: transports keep their ids, every transceiver sits where some transceiver
sat before or on a transport the connection has; likewise the SCTP transport -/
structure TrFrame (pc pc' : Pc) : Prop where
  ids : IdsKept pc.transports pc'.transports
  ts : ∀ t' ∈ pc'.transceivers, (∃ t ∈ pc.transceivers, t'.transport = t.transport) ∨ HasId pc'.transports t'.transport
  sctp : ∀ s', pc'.sctp = some s' → (∃ s, pc.sctp = some s ∧ s'.transport = s.transport) ∨ HasId pc'.transports s'.transport

theorem TrFrame.texist {pc pc' : Pc} (f : TrFrame pc pc') (h : TExist pc) : TExist pc' := by
  refine ⟨?_, ?_⟩
  · intro t' ht'
    rcases f.ts t' ht' with ⟨t, ht, he⟩ | h2
    · rw [he]; exact f.ids _ (h.ts t ht)
    · exact h2
  · intro s' hs'
    rcases f.sctp s' hs' with ⟨s, hs0, he⟩ | h2
    · rw [he]; exact f.ids _ (h.sctp s hs0)
    · exact h2

theorem remoteRoles_id (typ : DType) (s : Role) (x : Transport) : (remoteRoles typ s x).id = x.id := by
  cases typ
  · unfold remoteRoles
    simp only
    split <;> split <;> rfl
  · exact (remoteRoles_answer s x).1

theorem texist_modTransport {pc : Pc} (h : TExist pc) (id : Nat) (f : Transport → Transport) (hid : ∀ x, (f x).id = x.id) :
    TExist (pc.modTransport id f) := by
  have hk : IdsKept pc.transports (pc.modTransport id f).transports := by
    refine idsKept_map (f := fun t => if t.id == id then f t else t) ?_
    intro x; split
    · exact hid x
    · rfl
  exact ⟨fun t ht => hk _ (h.ts t ht), fun s hs => hk _ (h.sctp s hs)⟩

theorem texist_ensureTransceiver {pc : Pc} (h : TExist pc) (m : MSec) : TExist (pc.ensureTransceiver m) := by
  unfold Pc.ensureTransceiver
  split
  · exact h
  · exact texist_createTransceiver h _ _ _

theorem texist_ensureSctp {pc : Pc} (h : TExist pc) : TExist pc.ensureSctp := by
  unfold Pc.ensureSctp
  split
  · exact h
  · exact texist_createSctp h

theorem texist_applyRemoteSec {typ : DType} {pc pc' : Pc} {i : Nat} {m : MSec} (h : TExist pc)
    (hok : applyRemoteSec typ pc i m = .ok pc') : TExist pc' := by
  unfold applyRemoteSec at hok
  split at hok
  · have hE : TExist ((pc.seeMid m.mid).ensureTransceiver m) := texist_ensureTransceiver (pc := pc.seeMid m.mid) ⟨h.ts, h.sctp⟩ m
    unfold applyRemoteMedia at hok
    split at hok
    · cases hok
    · rename_i t hfind
      split at hok
      · rename_i t' hneg
        split at hok
        · cases hok
        · rename_i ts hupd
          cases hok
          have hmatch : matchesSec m t = true := by simpa using List.find?_some hfind
          obtain ⟨_, _, htr, _⟩ := negotiateTransceiver_spec hneg hmatch
          refine texist_modTransport (pc := { (pc.seeMid m.mid).ensureTransceiver m with transceivers := ts }) ⟨?_, hE.sctp⟩ _ _ (remoteRoles_id typ m.setup)
          intro x hx
          rcases updFirst_mem' hupd x hx with h1 | ⟨_, _, _, he⟩
          · exact hE.ts x h1
          · rw [he]
            show HasId _ _
            rw [htr]; exact hE.ts t (List.mem_of_find?_eq_some hfind)
      · cases hok
      · cases hok
      · cases hok
  · have hE : TExist (pc.seeMid m.mid).ensureSctp := texist_ensureSctp (pc := pc.seeMid m.mid) ⟨h.ts, h.sctp⟩
    unfold applyRemoteApp at hok
    split at hok
    · cases hok
    · rename_i s hs
      cases hok
      refine texist_modTransport (pc := { (pc.seeMid m.mid).ensureSctp with sctp := some { s with mid := some (s.mid.getD m.mid), remoteSet := true }, sctpMline := if s.mid.isNone then some i else (pc.seeMid m.mid).ensureSctp.sctpMline }) ⟨hE.ts, ?_⟩ _ _ (remoteRoles_id typ m.setup)
      intro s' hs'
      cases hs'
      exact hE.sctp s hs

theorem texist_applyRemote {typ : DType} : ∀ (ms : List MSec) (pc pc' : Pc) (i : Nat), TExist pc →
    applyRemote typ pc ms i = .ok pc' → TExist pc' := by
  intro ms
  induction ms with
  | nil => intro pc pc' i h hok; simp [applyRemote] at hok; subst hok; exact h
  | cons m ms ih =>
    intro pc pc' i h hok
    simp only [applyRemote] at hok
    split at hok
    · rename_i pc1 h1
      exact ih pc1 pc' (i + 1) (texist_applyRemoteSec h h1) hok
    · rename_i e hne
      cases e <;> simp_all

theorem primaryTransport_hasId {pc : Pc} (h : TExist pc) {mid : String} {p : Nat} (hp : pc.primaryTransport mid = some p) :
    HasId pc.transports p := by
  unfold Pc.primaryTransport at hp
  have hby : ∀ q, (pc.byMid mid).map (·.transport) = some q → HasId pc.transports q := by
    intro q hq
    simp only [Option.map_eq_some_iff] at hq
    obtain ⟨t, ht, rfl⟩ := hq
    exact h.ts t (List.mem_of_find?_eq_some ht)
  split at hp
  · rename_i s hs
    split at hp
    · cases hp; exact h.sctp s hs
    · exact hby p hp
  · exact hby p hp

theorem texist_applyBundle {pc pc2 : Pc} {b : List String} (h : TExist pc) (hok : pc.applyBundleWith bundleStep b = .ok pc2) :
    TExist pc2 := by
  unfold Pc.applyBundleWith at hok
  split at hok
  · cases hok; exact h
  · rename_i primaryMid slaves
    split at hok
    · rename_i p hp
      cases hok
      have hpid := primaryTransport_hasId h hp
      have hk : IdsKept pc.transports (bundleStep pc p slaves).transports := (roleSame_bundleStep pc p slaves).idsKept
      refine ⟨?_, ?_⟩
      · intro t' ht'
        simp only [bundleStep, List.mem_map] at ht'
        obtain ⟨t, ht, rfl⟩ := ht'
        split
        · exact hk _ hpid
        · exact hk _ (h.ts t ht)
      · intro s' hs'
        simp only [bundleStep, Option.map_eq_some_iff] at hs'
        obtain ⟨s, hs, rfl⟩ := hs'
        split
        · exact hk _ hpid
        · exact hk _ (h.sctp s hs)
    · split at hok
      · cases hok
      · cases hok; exact h

theorem texist_setRemote {pc pc' : Pc} {d : Desc} (h : TExist pc) (hok : pc.setRemote d = .ok pc') : TExist pc' := by
  obtain ⟨_, pc1, pc2, h1, h2, hO, hA⟩ := setRemoteWith_spec hok
  have t2 := texist_applyBundle (texist_applyRemote _ _ _ _ h h1) h2
  cases ht : d.type
  · rw [hO ht]; exact ⟨t2.ts, t2.sctp⟩
  · rw [hA ht]; exact ⟨t2.ts, t2.sctp⟩

/-! ## setLocalDescription and createOffer move nothing -/

/-- transceivers and the SCTP transport stay where they are; transports keep their ids -/
structure Stays (pc pc' : Pc) : Prop where
  ids : IdsKept pc.transports pc'.transports
  ts : ∀ t' ∈ pc'.transceivers, ∃ t ∈ pc.transceivers, t'.transport = t.transport
  sctp : ∀ s', pc'.sctp = some s' → ∃ s, pc.sctp = some s ∧ s'.transport = s.transport

theorem Stays.refl (pc : Pc) : Stays pc pc := ⟨IdsKept.refl _, fun t ht => ⟨t, ht, rfl⟩, fun s hs => ⟨s, hs, rfl⟩⟩

theorem Stays.trans {a b c : Pc} (h1 : Stays a b) (h2 : Stays b c) : Stays a c := by
  refine ⟨h1.ids.trans h2.ids, ?_, ?_⟩
  · intro t' ht'
    obtain ⟨t, ht, e⟩ := h2.ts t' ht'
    obtain ⟨t0, ht0, e0⟩ := h1.ts t ht
    exact ⟨t0, ht0, e.trans e0⟩
  · intro s' hs'
    obtain ⟨s, hs, e⟩ := h2.sctp s' hs'
    obtain ⟨s0, hs0, e0⟩ := h1.sctp s hs
    exact ⟨s0, hs0, e.trans e0⟩

theorem Stays.texist {pc pc' : Pc} (f : Stays pc pc') (h : TExist pc) : TExist pc' := by
  refine ⟨?_, ?_⟩
  · intro t' ht'
    obtain ⟨t, ht, he⟩ := f.ts t' ht'
    rw [he]; exact f.ids _ (h.ts t ht)
  · intro s' hs'
    obtain ⟨s, hs0, he⟩ := f.sctp s' hs'
    rw [he]; exact f.ids _ (h.sctp s hs0)

theorem assignMids_stays : ∀ (ms : List MSec) (pc pc' : Pc) (i : Nat), assignMids pc ms i = .ok pc' →
    Stays pc pc' ∧ pc'.transports = pc.transports := by
  intro ms
  induction ms with
  | nil => intro pc pc' i h; simp [assignMids] at h; subst h; exact ⟨Stays.refl _, rfl⟩
  | cons m ms ih =>
    intro pc pc' i h
    simp only [assignMids] at h
    split at h
    · split at h
      · cases h
      · rename_i ts hupd
        obtain ⟨s1, e1⟩ := ih _ _ _ h
        refine ⟨Stays.trans ?_ s1, e1⟩
        refine ⟨IdsKept.refl _, ?_, fun s hs => ⟨s, hs, rfl⟩⟩
        exact updFirst_transport (f := fun t => { t with mid := some m.mid }) (fun _ => rfl) hupd
    · split at h
      · cases h
      · rename_i s hs
        obtain ⟨s1, e1⟩ := ih _ _ _ h
        refine ⟨Stays.trans ?_ s1, e1⟩
        refine ⟨IdsKept.refl _, fun t ht => ⟨t, ht, rfl⟩, ?_⟩
        intro s' hs'
        have := Option.some.inj hs'
        subst this
        exact ⟨s, hs, rfl⟩

theorem localRoles_stays : ∀ (ms : List MSec) (pc pc' : Pc) (i : Nat), localRoles pc ms i = .ok pc' → Stays pc pc' := by
  intro ms
  induction ms with
  | nil => intro pc pc' i h; simp [localRoles] at h; subst h; exact Stays.refl _
  | cons m ms ih =>
    intro pc pc' i h
    simp only [localRoles] at h
    have hk : ∀ (id : Nat), Stays pc (pc.modTransport id (fun x => { x with role := m.setup })) := by
      intro id
      refine ⟨?_, fun t ht => ⟨t, ht, rfl⟩, fun s hs => ⟨s, hs, rfl⟩⟩
      refine idsKept_map (f := fun t => if t.id == id then { t with role := m.setup } else t) ?_
      intro x; split <;> rfl
    split at h
    · split at h
      · cases h
      · exact (hk _).trans (ih _ _ _ h)
    · split at h
      · cases h
      · exact (hk _).trans (ih _ _ _ h)

theorem setLocal_stays {pc pc' : Pc} {d : Desc} (h : pc.setLocal d = .ok pc') : Stays pc pc' := by
  cases ht : d.type
  · -- offer
    unfold Pc.setLocal at h
    simp only [ht] at h
    split at h
    · cases h
    · split at h
      · split at h
        · rename_i pc2 h2
          obtain ⟨s2, _⟩ := assignMids_stays _ _ _ _ h2
          have s2' : Stays pc pc2 := ⟨s2.ids, s2.ts, s2.sctp⟩
          simp at h
          split at h
          · cases h
            refine s2'.trans ⟨?_, fun t ht => ⟨t, ht, rfl⟩, fun s hs => ⟨s, hs, rfl⟩⟩
            refine idsKept_map ?_
            intro x; split <;> rfl
          · cases h
          · cases h
          · cases h
        · rename_i e hne
          cases e <;> simp_all
      · cases h
      · cases h
      · cases h
  · -- answer
    unfold Pc.setLocal at h
    simp only [ht] at h
    split at h
    · cases h
    · split at h
      · split at h
        · rename_i pc2 h2
          obtain ⟨s2, _⟩ := assignMids_stays _ _ _ _ h2
          have s2' : Stays pc pc2 := ⟨s2.ids, s2.ts, s2.sctp⟩
          simp at h
          split at h
          · rename_i pc4 h4
            have s4 := localRoles_stays _ _ _ _ h4
            split at h
            · cases h
              refine (s2'.trans s4).trans ⟨IdsKept.refl _, ?_, fun s hs => ⟨s, hs, rfl⟩⟩
              intro t' ht'
              simp only [localDirections, List.mem_map] at ht'
              obtain ⟨t, ht0, rfl⟩ := ht'
              exact ⟨t, ht0, by split <;> rfl⟩
            · cases h
            · cases h
            · cases h
          · rename_i e hne
            cases e <;> simp_all
        · rename_i e hne
          cases e <;> simp_all
      · cases h
      · cases h
      · cases h

theorem offerExisting_stays : ∀ (ms : List MSec) (pc pc' : Pc) (i : Nat) (secs : List MSec), offerExisting pc ms i = .ok (pc', secs) →
    Stays pc pc' ∧ pc'.transports = pc.transports := by
  intro ms
  induction ms with
  | nil => intro pc pc' i secs h; simp [offerExisting] at h; rw [← h.1]; exact ⟨Stays.refl _, rfl⟩
  | cons m ms ih =>
    intro pc pc' i secs h
    simp only [offerExisting] at h
    split at h
    · split at h
      · cases h
      · split at h
        · cases h
        · rename_i ts hupd
          split at h
          · rename_i pc2 secs2 hrec
            cases h
            obtain ⟨s1, e1⟩ := ih _ _ _ _ hrec
            refine ⟨Stays.trans ?_ s1, e1⟩
            refine ⟨IdsKept.refl _, ?_, fun s hs => ⟨s, hs, rfl⟩⟩
            exact updFirst_transport (f := fun t => { t with mline := some i }) (fun _ => rfl) hupd
          · rename_i e hne
            cases e <;> simp_all
    · split at h
      · cases h
      · split at h
        · rename_i pc2 secs2 hrec
          cases h
          obtain ⟨s1, e1⟩ := ih _ _ _ _ hrec
          refine ⟨Stays.trans ?_ s1, e1⟩
          exact ⟨IdsKept.refl _, fun t ht => ⟨t, ht, rfl⟩, fun s hs => ⟨s, hs, rfl⟩⟩
        · rename_i e hne
          cases e <;> simp_all

theorem createOffer_stays {o o1 : Pc} {d : Desc} (h : o.createOffer = .ok (o1, d)) : Stays o o1 ∧ o1.transports = o.transports := by
  unfold Pc.createOffer at h
  split at h
  · cases h
  · rw [offerCodecs_eq] at h
    simp only at h
    split at h
    · rename_i pc1 secs1 hE
      obtain ⟨sE, eE⟩ := offerExisting_stays _ _ _ _ _ hE
      split at h
      · rename_i ts2 secs2 mids2 hN
        obtain ⟨ts2', secs2', mids2', hN', r⟩ := offerNew_ok pc1 pc1.transceivers secs1.length pc1.seenMids
        rw [hN] at hN'
        simp only [Outcome.ok.injEq, Prod.mk.injEq] at hN'
        obtain ⟨rfl, rfl, rfl⟩ := hN'
        -- up to here
        have s0 : Stays o { o with transceivers := o.transceivers.map offerFn } :=
          ⟨IdsKept.refl _, fun t' ht' => by
            obtain ⟨t, ht, rfl⟩ := List.mem_map.mp ht'
            exact ⟨t, ht, rfl⟩, fun s hs => ⟨s, hs, rfl⟩⟩
        have s2 : Stays pc1 { pc1 with transceivers := ts2 } :=
          ⟨IdsKept.refl _, fun t' ht' => by
            obtain ⟨t, ht, hrel⟩ := r.rel.mem_right t' ht'
            exact ⟨t, ht, by rw [hrel.1]⟩, fun s hs => ⟨s, hs, rfl⟩⟩
        have hfin : Stays { pc1 with transceivers := ts2 } o1 ∧ o1.transports = pc1.transports := by
          unfold Pc.offerFinish at h
          split at h
          · split at h
            · split at h
              · cases h; exact ⟨⟨IdsKept.refl _, fun t ht => ⟨t, ht, rfl⟩, fun s hs => ⟨s, hs, rfl⟩⟩, rfl⟩
              · cases h
              · cases h
              · cases h
            · cases h; exact ⟨Stays.refl _, rfl⟩
          · cases h; exact ⟨Stays.refl _, rfl⟩
        exact ⟨((s0.trans sE).trans s2).trans hfin.1, by rw [hfin.2, eE]⟩
      · cases h
      · cases h
      · cases h
    · cases h
    · cases h
    · cases h

end Aiortc.Model.Negotiate
