import Aiortc.Lemmas.C03.RoleInv2
set_option linter.unusedSimpArgs false
/-!
C03, round 2 — `setRemoteDescription(answer)`: after the loop every section's transport has the role the answer
dictates (`oppRole setup`).
-/
namespace Aiortc.Model.Negotiate
open Aiortc (Outcome)
open Aiortc.Model.Jsep (Sig)

theorem roleOf_of_roleStep {v : Role} {pc pc' : Pc} (h : RoleStep v pc.transports pc'.transports) {id : Nat} (hid : pc.roleOf id = v) :
    pc'.roleOf id = v := by
  rw [roleOf_eq] at hid ⊢
  rcases h.lookup id with h1 | h1
  · rw [h1, hid]
  · exact h1

/-- one answer section: the transport of the transceiver (SCTP transport) that takes it gets role `oppRole setup` -/
theorem applyRemoteSec_answer_role {pc pc' : Pc} {i : Nat} {m : MSec} (h : TExist pc) (hok : applyRemoteSec .answer pc i m = .ok pc') :
    (m.kind.isMedia = true → ∃ t' ∈ pc'.transceivers, t'.mid = some m.mid ∧ pc'.roleOf t'.transport = oppRole m.setup) ∧
    (m.kind.isMedia = false → ∃ s', pc'.sctp = some s' ∧ pc'.roleOf s'.transport = oppRole m.setup) := by
  unfold applyRemoteSec at hok
  cases hk : m.kind.isMedia
  · simp only [hk, Bool.false_eq_true, if_false] at hok
    have hE : TExist (pc.seeMid m.mid).ensureSctp := texist_ensureSctp (pc := pc.seeMid m.mid) ⟨h.ts, h.sctp⟩
    unfold applyRemoteApp at hok
    split at hok
    · cases hok
    · rename_i s hs
      cases hok
      refine ⟨fun hf => absurd hf (by decide), fun _ => ⟨_, rfl, ?_⟩⟩
      exact roleOf_modTransport_self (pc := { (pc.seeMid m.mid).ensureSctp with
          sctp := some { s with mid := some (s.mid.getD m.mid), remoteSet := true },
          sctpMline := if s.mid.isNone then some i else (pc.seeMid m.mid).ensureSctp.sctpMline })
        (hE.sctp s hs) _ (remoteRoles_id .answer m.setup) (fun x => (remoteRoles_answer m.setup x).2)
  · simp only [hk, if_true] at hok
    have hE : TExist ((pc.seeMid m.mid).ensureTransceiver m) := texist_ensureTransceiver (pc := pc.seeMid m.mid) ⟨h.ts, h.sctp⟩ m
    unfold applyRemoteMedia at hok
    split at hok
    · cases hok
    · rename_i t hfind
      split at hok
      · rename_i t' hneg
        split at hok
        · cases hok
        · rename_i ts hupd
          cases hok
          have hmatch : matchesSec m t = true := by simpa using List.find?_some hfind
          obtain ⟨hN, _, htr, _⟩ := negotiateTransceiver_spec hneg hmatch
          refine ⟨fun _ => ⟨t', ?_, hN.mid, ?_⟩, fun hf => absurd hf (by decide)⟩
          · exact (updFirst_has hupd).choose_spec.2
          · rw [htr]
            exact roleOf_modTransport_self (pc := { (pc.seeMid m.mid).ensureTransceiver m with transceivers := ts })
              (hE.ts t (List.mem_of_find?_eq_some hfind)) _ (remoteRoles_id .answer m.setup) (fun x => (remoteRoles_answer m.setup x).2)
      · cases hok
      · cases hok
      · cases hok

/-- after the whole loop of an answer whose sections all dictate role `w`: every section's transport has role `w` -/
theorem fold_owner_roles {w : Role} {K : List (Kind × String)} (hnd : (K.map (·.2)).Nodup) : ∀ (ms : List MSec) (pc pc' : Pc) (i : Nat),
    Pre K pc.transceivers → (∀ (j : Nat) (m : MSec), ms[j]? = some m → K[i + j]? = some (m.kind, m.mid)) → TExist pc →
    (∀ m ∈ ms, oppRole m.setup = w) → applyRemote .answer pc ms i = .ok pc' →
    (∀ x ∈ pc.transceivers, x.mid ≠ none → (∀ m ∈ ms, x.mid ≠ some m.mid) → x ∈ pc'.transceivers) ∧
    (∀ m ∈ ms, m.kind.isMedia = true → ∃ t' ∈ pc'.transceivers, t'.mid = some m.mid ∧ pc'.roleOf t'.transport = w) ∧
    (∀ m ∈ ms, m.kind.isMedia = false → ∃ s', pc'.sctp = some s' ∧ pc'.roleOf s'.transport = w) := by
  intro ms
  induction ms with
  | nil =>
    intro pc pc' i _ _ _ _ h
    simp [applyRemote] at h; subst h
    exact ⟨fun x hx _ _ => hx, fun m hm => (by cases hm), fun m hm => (by cases hm)⟩
  | cons m ms ih =>
    intro pc pc' i hP hidx hT hw h
    simp only [applyRemote] at h
    split at h
    · rename_i pc1 h1
      have hK : K[i]? = some (m.kind, m.mid) := by simpa using hidx 0 m (by simp)
      obtain ⟨hP1, _, hkeep1, _, _, _⟩ := pre_step hP hK hnd h1
      have hT1 := texist_applyRemoteSec hT h1
      have hw' : ∀ m2 ∈ ms, oppRole m2.setup = w := fun m2 hm2 => hw m2 (by simp [hm2])
      obtain ⟨k2, o2, s2⟩ := ih pc1 pc' (i + 1) hP1
        (fun j mj hj => by have := hidx (j + 1) mj (by simpa using hj); rw [← this]; congr 1; omega) hT1 hw' h
      have hstep := applyRemote_roles_answer ms pc1 pc' (i + 1) hw' h
      obtain ⟨r1, r2⟩ := applyRemoteSec_answer_role hT h1
      rw [hw m (by simp)] at r1 r2
      have hmnot : m.mid ∉ ms.map (·.mid) := by
        intro hmem
        obtain ⟨m2, hm2, hmm⟩ := List.mem_map.mp hmem
        obtain ⟨j, hj⟩ := List.getElem?_of_mem hm2
        have h3 := hidx (j + 1) m2 (by simpa using hj)
        rw [← hmm] at hK
        have := (keys_index_inj hnd hK h3).1
        omega
      refine ⟨?_, ?_, ?_⟩
      · intro x hx hxn hxm
        exact k2 x (hkeep1 x hx hxn (hxm m (by simp))) hxn (fun m2 hm2 => hxm m2 (by simp [hm2]))
      · intro m2 hm2 hk
        rcases List.mem_cons.mp hm2 with rfl | hm2
        · obtain ⟨t', ht', hmid, hrole⟩ := r1 hk
          refine ⟨t', k2 t' ht' (by rw [hmid]; simp) ?_, hmid, roleOf_of_roleStep hstep hrole⟩
          intro m3 hm3
          rw [hmid]
          intro hh
          exact hmnot (by rw [Option.some.inj hh]; exact List.mem_map_of_mem hm3)
        · exact o2 m2 hm2 hk
      · intro m2 hm2 hk
        rcases List.mem_cons.mp hm2 with rfl | hm2
        · obtain ⟨s1, hs1, hrole⟩ := r2 hk
          -- the SCTP transport keeps its DTLS transport in the rest of the loop
          have hrest : ∀ (ms : List MSec) (a b : Pc) (n : Nat), applyRemote .answer a ms n = .ok b →
              ∀ s, a.sctp = some s → ∃ s', b.sctp = some s' ∧ s'.transport = s.transport := by
            intro ms
            induction ms with
            | nil => intro a b n hab s hs; simp [applyRemote] at hab; subst hab; exact ⟨s, hs, rfl⟩
            | cons q qs ihq =>
              intro a b n hab s hs
              simp only [applyRemote] at hab
              split at hab
              · rename_i a1 ha1
                obtain ⟨s1', hs1', e1⟩ := applyRemoteSec_sctp_transport ha1 s hs
                obtain ⟨s2', hs2', e2⟩ := ihq a1 b (n + 1) hab s1' hs1'
                exact ⟨s2', hs2', e2.trans e1⟩
              · rename_i e hne
                cases e <;> simp_all
          obtain ⟨s', hs', htr⟩ := hrest ms pc1 pc' (i + 1) h s1 hs1
          exact ⟨s', hs', by rw [htr]; exact roleOf_of_roleStep hstep hrole⟩
        · exact s2 m2 hm2 hk
    · rename_i e hne
      cases e <;> simp_all

/-! ## setLocalDescription(answer): "set DTLS role" -/

theorem localRoles_roleStep {v : Role} : ∀ (ms : List MSec) (pc pc' : Pc) (i : Nat), (∀ m ∈ ms, m.setup = v) →
    localRoles pc ms i = .ok pc' → RoleStep v pc.transports pc'.transports := by
  intro ms
  induction ms with
  | nil => intro pc pc' i _ h; simp [localRoles] at h; subst h; exact (RoleSame.refl _).toStep v
  | cons m ms ih =>
    intro pc pc' i hv h
    simp only [localRoles] at h
    have hm : m.setup = v := hv m (by simp)
    have hstep : ∀ id, RoleStep v pc.transports (pc.modTransport id (fun x => { x with role := m.setup })).transports :=
      fun id => roleStep_modTransport pc id _ v (fun x => ⟨rfl, .inr hm⟩)
    split at h
    · split at h
      · cases h
      · exact (hstep _).trans (ih _ _ _ (fun m2 hm2 => hv m2 (by simp [hm2])) h)
    · split at h
      · cases h
      · exact (hstep _).trans (ih _ _ _ (fun m2 hm2 => hv m2 (by simp [hm2])) h)

/-- when every section's transceiver (SCTP transport) sits on transport `p`, `p` has the dictated role afterwards -/
theorem localRoles_writes {v : Role} {p : Nat} {m0 : MSec} {ms : List MSec} {pc pc' : Pc} {i : Nat}
    (hv : ∀ m ∈ m0 :: ms, m.setup = v)
    (hmed : m0.kind.isMedia = true → ∃ t, pc.byMline i = some t ∧ t.transport = p)
    (happ : m0.kind.isMedia = false → ∃ s, pc.sctp = some s ∧ s.transport = p)
    (hid : HasId pc.transports p) (h : localRoles pc (m0 :: ms) i = .ok pc') : pc'.roleOf p = v := by
  simp only [localRoles] at h
  have hm : m0.setup = v := hv m0 (by simp)
  have h1 : (pc.modTransport p (fun x => { x with role := m0.setup })).roleOf p = v :=
    roleOf_modTransport_self (v := v) hid (fun x => { x with role := m0.setup }) (fun _ => rfl) (fun _ => hm)
  have hv' : ∀ m ∈ ms, m.setup = v := fun m2 hm2 => hv m2 (by simp [hm2])
  cases hk : m0.kind.isMedia
  · simp only [hk, Bool.false_eq_true, if_false] at h
    obtain ⟨s, hs, hsp⟩ := happ hk
    simp only [hs, hsp] at h
    exact roleOf_of_roleStep (localRoles_roleStep _ _ _ _ hv' h) h1
  · simp only [hk, if_true] at h
    obtain ⟨t, ht, htp⟩ := hmed hk
    simp only [ht, htp] at h
    exact roleOf_of_roleStep (localRoles_roleStep _ _ _ _ hv' h) h1

/-- the pieces of `setLocalDescription(answer)` that matter for roles -/
theorem setLocal_answer_roleparts {pc pc' : Pc} {d : Desc} (ht : d.type = .answer) (h : pc.setLocal d = .ok pc') :
    ∃ pc2 pc4, assignMids { pc with sig := .stable } d.media 0 = .ok pc2 ∧ localRoles pc2 d.media 0 = .ok pc4 ∧
      pc'.transports = pc4.transports := by
  unfold Pc.setLocal at h
  simp only [ht] at h
  split at h
  · cases h
  · split at h
    · split at h
      · rename_i pc2 h2
        simp at h
        split at h
        · rename_i pc4 h4
          split at h
          · cases h
            exact ⟨pc2, pc4, by simpa using h2, h4, rfl⟩
          · cases h
          · cases h
          · cases h
        · rename_i e hne
          cases e <;> simp_all
      · rename_i e hne
        cases e <;> simp_all
    · cases h
    · cases h
    · cases h

theorem roleSame_of_eq {ts ts' : List Transport} (h : ts' = ts) : RoleSame ts ts' := by rw [h]; exact RoleSame.refl _

/-- `setLocalDescription(offer)` does not touch DTLS roles -/
theorem setLocal_offer_roleSame {pc pc' : Pc} {d : Desc} (ht : d.type = .offer) (h : pc.setLocal d = .ok pc') :
    RoleSame pc.transports pc'.transports := by
  unfold Pc.setLocal at h
  simp only [ht] at h
  split at h
  · cases h
  · split at h
    · split at h
      · rename_i pc2 h2
        obtain ⟨_, e2⟩ := assignMids_stays _ _ _ _ h2
        simp at h
        split at h
        · cases h
          have e2' : pc2.transports = pc.transports := e2
          refine ⟨fun t => if t.live = true ∧ t.ice = none then { t with ice := some true } else t, [], ?_, ?_, by simp⟩
          · simp [e2']
          · intro x
            by_cases hc : x.live = true ∧ x.ice = none
            · simp [hc]
            · simp [hc]
        · cases h
        · cases h
        · cases h
      · rename_i e hne
        cases e <;> simp_all
    · cases h
    · cases h
    · cases h

end Aiortc.Model.Negotiate
