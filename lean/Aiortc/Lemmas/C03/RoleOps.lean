import Aiortc.Lemmas.C03.Ops
import Aiortc.Lemmas.C03.RoleInv2
set_option linter.unusedSimpArgs false
/-!
C03, round 2 — roles and transports through the set-up operations.
-/
namespace Aiortc.Model.Negotiate
open Aiortc (Outcome)
open Aiortc.Model.Jsep (Sig)

theorem texist_trySetCodecPreferences {pc : Pc} (h : TExist pc) (i : Nat) (caps : List Cap) : TExist (pc.trySetCodecPreferences i caps) := by
  unfold Pc.trySetCodecPreferences
  cases hs : pc.setCodecPreferences i caps with
  | ok pc' =>
    simp only
    unfold Pc.setCodecPreferences at hs
    split at hs
    · cases hs
    · rename_i t ht
      split at hs
      · cases hs
        refine ⟨?_, h.sctp⟩
        intro t' ht'
        rcases mem_set ht' with rfl | h1
        · exact h.ts t (List.mem_of_getElem? ht)
        · exact h.ts t' h1
      · cases hs
  | valueError => exact h
  | crash k => exact h
  | hang => exact h

theorem texist_trySetDirection {pc : Pc} (h : TExist pc) (i : Nat) (d : Dir) : TExist (pc.trySetDirection i d) := by
  unfold Pc.trySetDirection
  cases hs : pc.setDirection i d with
  | ok pc' =>
    simp only
    unfold Pc.setDirection at hs
    split at hs
    · cases hs
    · rename_i t ht
      cases hs
      refine ⟨?_, h.sctp⟩
      intro t' ht'
      rcases mem_set ht' with rfl | h1
      · exact h.ts t (List.mem_of_getElem? ht)
      · exact h.ts t' h1
  | valueError => exact h
  | crash k => exact h
  | hang => exact h

/-- roles are untouched by the set-up operations -/
theorem roleSame_setup (pc : Pc) :
    (∀ d k tr, RoleSame pc.transports (pc.addTransceiver k d tr).transports) ∧
    (∀ k, RoleSame pc.transports (pc.addTrack k).transports) ∧
    RoleSame pc.transports pc.createDataChannel.transports ∧
    (∀ i caps, RoleSame pc.transports (pc.trySetCodecPreferences i caps).transports) ∧
    (∀ i d, RoleSame pc.transports (pc.trySetDirection i d).transports) := by
  refine ⟨fun d k tr => roleSame_createTransceiver pc d k tr, ?_, ?_, ?_, ?_⟩
  · intro k
    unfold Pc.addTrack
    split
    · exact RoleSame.refl _
    · exact roleSame_createTransceiver pc _ _ _
  · unfold Pc.createDataChannel
    split
    · exact RoleSame.refl _
    · exact roleSame_createSctp pc
  · intro i caps
    unfold Pc.trySetCodecPreferences
    cases hs : pc.setCodecPreferences i caps with
    | ok pc' =>
      simp only
      unfold Pc.setCodecPreferences at hs
      split at hs
      · cases hs
      · split at hs
        · cases hs; exact RoleSame.refl _
        · cases hs
    | valueError => exact RoleSame.refl _
    | crash k => exact RoleSame.refl _
    | hang => exact RoleSame.refl _
  · intro i d
    unfold Pc.trySetDirection
    cases hs : pc.setDirection i d with
    | ok pc' =>
      simp only
      unfold Pc.setDirection at hs
      split at hs
      · cases hs
      · cases hs; exact RoleSame.refl _
    | valueError => exact RoleSame.refl _
    | crash k => exact RoleSame.refl _
    | hang => exact RoleSame.refl _


end Aiortc.Model.Negotiate
