import Aiortc.Lemmas.C03.Fold
set_option linter.unusedSimpArgs false
/-!
C03, round 2 — DTLS roles through an exchange: which calls write which role on which transport.
`RoleStep v` : every transport keeps its id and either keeps its role or gets role `v`; transports may be appended
(role `auto` or `v`).  `RoleSame` : the same with no role change at all.
-/
namespace Aiortc.Model.Negotiate
open Aiortc (Outcome)
open Aiortc.Model.Jsep (Sig)

def lookupRole (id : Nat) (ts : List Transport) : Role :=
  match ts.find? (fun t => t.id == id) with
  | some t => t.role
  | none => .auto

theorem roleOf_eq (pc : Pc) (id : Nat) : pc.roleOf id = lookupRole id pc.transports := rfl

/-- every transport keeps its id and keeps its role or takes role `v`; new transports have role `auto` or `v` -/
def RoleStep (v : Role) (ts ts' : List Transport) : Prop :=
  ∃ (h : Transport → Transport) (extra : List Transport), ts' = ts.map h ++ extra ∧
    (∀ x, (h x).id = x.id ∧ ((h x).role = x.role ∨ (h x).role = v)) ∧ (∀ e ∈ extra, e.role = .auto ∨ e.role = v)

/-- ids and roles unchanged; new transports have role `auto` -/
def RoleSame (ts ts' : List Transport) : Prop :=
  ∃ (h : Transport → Transport) (extra : List Transport), ts' = ts.map h ++ extra ∧
    (∀ x, (h x).id = x.id ∧ (h x).role = x.role) ∧ (∀ e ∈ extra, e.role = .auto)

theorem RoleSame.refl (ts : List Transport) : RoleSame ts ts := ⟨id, [], by simp, fun _ => ⟨rfl, rfl⟩, by simp⟩

theorem RoleSame.trans {a b c : List Transport} (h1 : RoleSame a b) (h2 : RoleSame b c) : RoleSame a c := by
  obtain ⟨f, e1, rfl, hf, he1⟩ := h1
  obtain ⟨g, e2, rfl, hg, he2⟩ := h2
  refine ⟨g ∘ f, e1.map g ++ e2, by simp [List.map_append, List.map_map], ?_, ?_⟩
  · intro x; exact ⟨by rw [Function.comp, (hg _).1, (hf x).1], by rw [Function.comp, (hg _).2, (hf x).2]⟩
  · intro e he
    rcases List.mem_append.mp he with h | h
    · obtain ⟨e0, he0, rfl⟩ := List.mem_map.mp h
      rw [(hg e0).2]; exact he1 e0 he0
    · exact he2 e h

theorem RoleSame.toStep {ts ts' : List Transport} (h : RoleSame ts ts') (v : Role) : RoleStep v ts ts' := by
  obtain ⟨f, e, rfl, hf, he⟩ := h
  exact ⟨f, e, rfl, fun x => ⟨(hf x).1, .inl (hf x).2⟩, fun x hx => .inl (he x hx)⟩

theorem RoleStep.trans {v : Role} {a b c : List Transport} (h1 : RoleStep v a b) (h2 : RoleStep v b c) : RoleStep v a c := by
  obtain ⟨f, e1, rfl, hf, he1⟩ := h1
  obtain ⟨g, e2, rfl, hg, he2⟩ := h2
  refine ⟨g ∘ f, e1.map g ++ e2, by simp [List.map_append, List.map_map], ?_, ?_⟩
  · intro x
    refine ⟨by rw [Function.comp, (hg _).1, (hf x).1], ?_⟩
    rcases (hg (f x)).2 with h | h
    · rcases (hf x).2 with h' | h'
      · exact .inl (by rw [Function.comp, h, h'])
      · exact .inr (by rw [Function.comp, h, h'])
    · exact .inr h
  · intro e he
    rcases List.mem_append.mp he with h | h
    · obtain ⟨e0, he0, rfl⟩ := List.mem_map.mp h
      rcases (hg e0).2 with h' | h'
      · rw [h']; exact he1 e0 he0
      · exact .inr h'
    · exact he2 e h

theorem lookup_map {h : Transport → Transport} (hid : ∀ x, (h x).id = x.id) (id : Nat) :
    ∀ ts : List Transport, (ts.map h).find? (fun t => t.id == id) = (ts.find? (fun t => t.id == id)).map h := by
  intro ts
  induction ts with
  | nil => rfl
  | cons a as ih =>
    simp only [List.map_cons, List.find?, hid]
    split
    · rfl
    · exact ih

/-- the role found under an id after a `RoleStep v`: the old one or `v` -/
theorem RoleStep.lookup {v : Role} {ts ts' : List Transport} (h : RoleStep v ts ts') (id : Nat) :
    lookupRole id ts' = lookupRole id ts ∨ lookupRole id ts' = v := by
  obtain ⟨f, e, rfl, hf, he⟩ := h
  unfold lookupRole
  rw [List.find?_append, lookup_map (fun x => (hf x).1)]
  cases hfind : ts.find? (fun t => t.id == id) with
  | some x =>
    simp only [Option.map_some, Option.some_or]
    rcases (hf x).2 with h | h
    · exact .inl h
    · exact .inr h
  | none =>
    simp only [Option.map_none, Option.none_or]
    cases he2 : e.find? (fun t => t.id == id) with
    | none => exact .inl rfl
    | some y =>
      rcases he y (List.mem_of_find?_eq_some he2) with h | h
      · exact .inl h
      · exact .inr h

theorem RoleSame.lookup {ts ts' : List Transport} (h : RoleSame ts ts') (id : Nat) : lookupRole id ts' = lookupRole id ts := by
  obtain ⟨f, e, rfl, hf, he⟩ := h
  unfold lookupRole
  rw [List.find?_append, lookup_map (fun x => (hf x).1)]
  cases hfind : ts.find? (fun t => t.id == id) with
  | some x => simp only [Option.map_some, Option.some_or]; exact (hf x).2
  | none =>
    simp only [Option.map_none, Option.none_or]
    cases he2 : e.find? (fun t => t.id == id) with
    | none => rfl
    | some y => exact he y (List.mem_of_find?_eq_some he2)

/-- all definite roles of the connection are `r` -/
def RolesU (r : Role) (ts : List Transport) : Prop := ∀ x ∈ ts, x.role = .auto ∨ x.role = r

theorem RoleStep.rolesU {v r : Role} {ts ts' : List Transport} (h : RoleStep v ts ts') (hu : RolesU r ts) (hv : v = .auto ∨ v = r) :
    RolesU r ts' := by
  obtain ⟨f, e, rfl, hf, he⟩ := h
  intro x hx
  rcases List.mem_append.mp hx with h1 | h1
  · obtain ⟨x0, hx0, rfl⟩ := List.mem_map.mp h1
    rcases (hf x0).2 with h2 | h2
    · rw [h2]; exact hu x0 hx0
    · rw [h2]; exact hv
  · rcases he x h1 with h2 | h2
    · exact .inl h2
    · rw [h2]; exact hv

theorem RolesU.lookup {r : Role} {ts : List Transport} (h : RolesU r ts) (id : Nat) : lookupRole id ts = .auto ∨ lookupRole id ts = r := by
  unfold lookupRole
  cases hf : ts.find? (fun t => t.id == id) with
  | none => exact .inl rfl
  | some x => exact h x (List.mem_of_find?_eq_some hf)

/-! ## the basic moves -/

theorem roleSame_newTransport (pc : Pc) : RoleSame pc.transports pc.newTransport.1.transports :=
  ⟨id, [{ id := pc.nextId, role := .auto, ice := none, live := true }], by simp [Pc.newTransport], fun _ => ⟨rfl, rfl⟩, by simp⟩

theorem roleSame_createTransceiver (pc : Pc) (d : Dir) (k : Kind) (tr : Bool) :
    RoleSame pc.transports (pc.createTransceiver d k tr).transports := by
  unfold Pc.createTransceiver
  split
  · exact RoleSame.refl _
  · exact roleSame_newTransport pc

theorem roleSame_createSctp (pc : Pc) : RoleSame pc.transports pc.createSctp.transports := by
  unfold Pc.createSctp
  split
  · exact RoleSame.refl _
  · exact roleSame_newTransport pc

/-- writing a role on one transport -/
theorem roleStep_modTransport (pc : Pc) (id0 : Nat) (f : Transport → Transport) (v : Role)
    (hf : ∀ x, (f x).id = x.id ∧ ((f x).role = x.role ∨ (f x).role = v)) :
    RoleStep v pc.transports (pc.modTransport id0 f).transports := by
  refine ⟨fun t => if t.id == id0 then f t else t, [], by simp [Pc.modTransport], ?_, by simp⟩
  intro x
  simp only
  split
  · exact hf x
  · exact ⟨rfl, .inl rfl⟩

theorem roleSame_modTransport (pc : Pc) (id0 : Nat) (f : Transport → Transport)
    (hf : ∀ x, (f x).id = x.id ∧ (f x).role = x.role) :
    RoleSame pc.transports (pc.modTransport id0 f).transports := by
  refine ⟨fun t => if t.id == id0 then f t else t, [], by simp [Pc.modTransport], ?_, by simp⟩
  intro x
  simp only
  split
  · exact hf x
  · exact ⟨rfl, rfl⟩

theorem remoteRoles_offer_auto (x : Transport) : (remoteRoles .offer .auto x).id = x.id ∧ (remoteRoles .offer .auto x).role = x.role := by
  unfold remoteRoles
  have b : (Role.auto == Role.client) = false := rfl
  simp only [b, Bool.false_eq_true, if_false]
  split <;> exact ⟨rfl, rfl⟩

/-- the role an offerer takes from an answer section -/
def oppRole (s : Role) : Role := if s == .client then .server else .client

theorem remoteRoles_answer (s : Role) (x : Transport) : (remoteRoles .answer s x).id = x.id ∧ (remoteRoles .answer s x).role = oppRole s := by
  unfold remoteRoles oppRole
  simp

theorem roleSame_bundleStep (pc : Pc) (p : Nat) (slaves : List String) : RoleSame pc.transports (bundleStep pc p slaves).transports := by
  refine ⟨fun x => if (bundleOld pc p slaves).contains x.id then { x with live := false } else x, [], by simp [bundleStep], ?_, by simp⟩
  intro x
  simp only
  split <;> exact ⟨rfl, rfl⟩

/-! ## one section of `setRemoteDescription` -/

theorem roleSame_ensureTransceiver (pc : Pc) (m : MSec) : RoleSame pc.transports (pc.ensureTransceiver m).transports := by
  unfold Pc.ensureTransceiver
  split
  · exact RoleSame.refl _
  · exact roleSame_createTransceiver pc _ _ _

theorem roleSame_ensureSctp (pc : Pc) : RoleSame pc.transports pc.ensureSctp.transports := by
  unfold Pc.ensureSctp
  split
  · exact RoleSame.refl _
  · exact roleSame_createSctp pc

/-- the DTLS-role effect of one section: none for an `actpass` offer section, `oppRole setup` for an answer section -/
theorem applyRemoteSec_roles {typ : DType} {pc pc' : Pc} {i : Nat} {m : MSec} (h : applyRemoteSec typ pc i m = .ok pc') :
    (typ = .offer → m.setup = .auto → RoleSame pc.transports pc'.transports) ∧
    (typ = .answer → RoleStep (oppRole m.setup) pc.transports pc'.transports) := by
  unfold applyRemoteSec at h
  -- the connection on which the section is applied, and the id that is written
  have key : ∃ (pcE : Pc) (id0 : Nat), RoleSame pc.transports pcE.transports ∧
      pc'.transports = (pcE.modTransport id0 (remoteRoles typ m.setup)).transports := by
    split at h
    · unfold applyRemoteMedia at h
      split at h
      · cases h
      · split at h
        · split at h
          · cases h
          · cases h
            exact ⟨(pc.seeMid m.mid).ensureTransceiver m, _, roleSame_ensureTransceiver (pc.seeMid m.mid) m, rfl⟩
        · cases h
        · cases h
        · cases h
    · unfold applyRemoteApp at h
      split at h
      · cases h
      · cases h
        exact ⟨(pc.seeMid m.mid).ensureSctp, _, roleSame_ensureSctp (pc.seeMid m.mid), rfl⟩
  obtain ⟨pcE, id0, hs, ht⟩ := key
  constructor
  · intro hty hm
    subst hty; rw [hm] at ht
    rw [ht]
    exact hs.trans (roleSame_modTransport pcE id0 _ remoteRoles_offer_auto)
  · intro hty
    subst hty
    rw [ht]
    exact (hs.toStep _).trans (roleStep_modTransport pcE id0 _ _ (fun x => ⟨(remoteRoles_answer m.setup x).1, .inr (remoteRoles_answer m.setup x).2⟩))

theorem applyRemote_roles_offer : ∀ (ms : List MSec) (pc pc' : Pc) (i : Nat), (∀ m ∈ ms, m.setup = .auto) →
    applyRemote .offer pc ms i = .ok pc' → RoleSame pc.transports pc'.transports := by
  intro ms
  induction ms with
  | nil => intro pc pc' i _ h; simp [applyRemote] at h; subst h; exact RoleSame.refl _
  | cons m ms ih =>
    intro pc pc' i hauto h
    simp only [applyRemote] at h
    split at h
    · rename_i pc1 h1
      exact ((applyRemoteSec_roles h1).1 rfl (hauto m (by simp))).trans (ih pc1 pc' (i + 1) (fun m2 hm2 => hauto m2 (by simp [hm2])) h)
    · rename_i e hne
      cases e <;> simp_all

theorem applyRemote_roles_answer {w : Role} : ∀ (ms : List MSec) (pc pc' : Pc) (i : Nat), (∀ m ∈ ms, oppRole m.setup = w) →
    applyRemote .answer pc ms i = .ok pc' → RoleStep w pc.transports pc'.transports := by
  intro ms
  induction ms with
  | nil => intro pc pc' i _ h; simp [applyRemote] at h; subst h; exact (RoleSame.refl _).toStep w
  | cons m ms ih =>
    intro pc pc' i hw h
    simp only [applyRemote] at h
    split at h
    · rename_i pc1 h1
      have := (applyRemoteSec_roles h1).2 rfl
      rw [hw m (by simp)] at this
      exact this.trans (ih pc1 pc' (i + 1) (fun m2 hm2 => hw m2 (by simp [hm2])) h)
    · rename_i e hne
      cases e <;> simp_all

theorem applyBundle_roles {pc pc2 : Pc} {b : List String} (h : pc.applyBundleWith bundleStep b = .ok pc2) :
    RoleSame pc.transports pc2.transports := by
  unfold Pc.applyBundleWith at h
  split at h
  · cases h; exact RoleSame.refl _
  · split at h
    · cases h; exact roleSame_bundleStep _ _ _
    · split at h
      · cases h
      · cases h; exact RoleSame.refl _

end Aiortc.Model.Negotiate
