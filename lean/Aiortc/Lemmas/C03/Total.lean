import Aiortc.Lemmas.C03.WF
/-!
C03, round 2 — totality of the small pieces: `allocate_mid`, `filter_preferred_codecs` on lists whose RTX entries
carry an `apt`, the "offer codecs" loop of `createOffer` on aiortc's tables.
-/
namespace Aiortc.Model.Negotiate
open Aiortc (Outcome)
open Aiortc.Model.Jsep (Sig)

/-- `allocate_mid` always returns -/
theorem allocateMid_ok (mids : List String) : ∃ m, allocateMid mids = .ok (m, mids ++ [m]) := by
  have hh := allocateMid_no_hang mids
  unfold allocateMid at hh ⊢
  split
  · exact ⟨_, rfl⟩
  · rename_i hnone
    simp [hnone] at hh

/-! ## filter_preferred_codecs never raises when every RTX codec names its base -/

/-- every RTX codec of the list has an `apt` parameter -/
def RtxHaveApt (codecs : List Codec) : Prop := ∀ c ∈ codecs, c.isRtx = true → (plookup "apt" c.params).isSome = true

theorem rtxFor_ok : ∀ (rtxs : List Codec) (pt : Nat), (∀ c ∈ rtxs, (plookup "apt" c.params).isSome = true) →
    ∃ r, rtxFor rtxs pt = .ok r := by
  intro rtxs
  induction rtxs with
  | nil => intro pt _; exact ⟨none, rfl⟩
  | cons c cs ih =>
    intro pt h
    simp only [rtxFor]
    have hc := h c (by simp)
    cases hp : plookup "apt" c.params with
    | none => rw [hp] at hc; cases hc
    | some v =>
      simp only
      split
      · exact ⟨_, rfl⟩
      · exact ih pt (fun x hx => h x (by simp [hx]))

theorem filterGo_ok (codecs rtxs : List Codec) (en : Bool) (h : ∀ c ∈ rtxs, (plookup "apt" c.params).isSome = true) :
    ∀ prefs : List Cap, ∃ out, filterGo codecs rtxs en prefs = .ok out := by
  intro prefs
  induction prefs with
  | nil => exact ⟨[], rfl⟩
  | cons p ps ih =>
    obtain ⟨rest, hrest⟩ := ih
    simp only [filterGo]
    split
    · exact ⟨rest, hrest⟩
    · rename_i c _
      split
      · obtain ⟨r, hr⟩ := rtxFor_ok rtxs c.pt h
        rw [hr, hrest]
        exact ⟨_, rfl⟩
      · rw [hrest]
        exact ⟨_, rfl⟩

theorem filterPreferred_ok {codecs : List Codec} (h : RtxHaveApt codecs) (prefs : List Cap) :
    ∃ out, filterPreferred codecs prefs = .ok out := by
  unfold filterPreferred
  split
  · exact ⟨_, rfl⟩
  · exact filterGo_ok _ _ _ (fun c hc => by
      obtain ⟨h1, h2⟩ := List.mem_filter.mp hc
      exact h c h1 h2) _

/-- aiortc's tables: every RTX entry has an `apt` -/
theorem tables_rtxHaveApt (k : Kind) : RtxHaveApt (codecsOf k) := by
  cases k
  · unfold RtxHaveApt; decide +kernel
  · unfold RtxHaveApt; decide +kernel
  · intro c hc; simp [codecsOf] at hc

/-- what `find_common_codecs` returns never makes `filter_preferred_codecs` raise -/
theorem findCommon_rtxHaveApt (loc remote : List Codec) : RtxHaveApt (findCommon loc remote) := by
  intro c hc hr
  obtain ⟨b, _, _, hapt, _⟩ := findCommon_rtxHasBase loc remote c hc hr
  rw [hapt]; rfl

/-! ## the codecs a transceiver offers / answers with -/

/-- `filter_preferred_codecs(CODECS[kind][:], preferences)` -/
def offered (k : Kind) (p : List Cap) : List Codec :=
  match filterPreferred (codecsOf k) p with
  | .ok cs => cs
  | _ => []

theorem offered_eq (k : Kind) (p : List Cap) : filterPreferred (codecsOf k) p = .ok (offered k p) := by
  obtain ⟨out, h⟩ := filterPreferred_ok (tables_rtxHaveApt k) p
  simp [offered, h]

/-- the "offer codecs" loop of `createOffer` in closed form -/
def offerFn (t : Transceiver) : Transceiver := { t with codecs := offered t.kind t.preferred, exts := extsOf t.kind }

theorem offerCodecs_eq (ts : List Transceiver) : offerCodecs ts = .ok (ts.map offerFn) := by
  induction ts with
  | nil => rfl
  | cons t ts ih =>
    simp only [offerCodecs, offered_eq, ih, List.map_cons]
    rfl

theorem offerFn_shape (t : Transceiver) : shape (offerFn t) = shape t := rfl

end Aiortc.Model.Negotiate
