import Aiortc.Lemmas.C03.Fold
/-!
C03, round 2 — the well-formedness invariant `WF` of a connection state between exchanges, the compatibility
hypothesis on codec preferences, and preservation of `WF` by the set-up operations.
-/
namespace Aiortc.Model.Negotiate
open Aiortc (Outcome)
open Aiortc.Model.Jsep (Sig)

/-- keys (kind, mid) of the sections of `localDescription` (`[]` before the first exchange) -/
def Pc.keys (pc : Pc) : List (Kind × String) := (pc.localDesc.map keysOf).getD []

/-- **Well-formed connection state between two exchanges.**  Holds for a new connection, is preserved by
addTransceiver / addTrack / createDataChannel / setCodecPreferences / direction changes and by a complete exchange on
either side (`negotiate_wf`). -/
structure WF (pc : Pc) : Prop where
  stable : pc.sig = .stable
  /-- local and remote description have the same sections -/
  rkeys : (pc.remoteDesc.map keysOf).getD [] = pc.keys
  nodup : (pc.keys.map (·.2)).Nodup
  /-- transceivers: unique mids, mids handed out in list order per kind, m-line index = position of the owned section -/
  pre : Pre pc.keys pc.transceivers
  owned : ∀ (j : Nat) (k : Kind) (x : String), pc.keys[j]? = some (k, x) → k.isMedia = true → ∃ t ∈ pc.transceivers, t.mid = some x
  sctpHas : ∀ x, (Kind.application, x) ∈ pc.keys → pc.sctpMid = some x
  sctpIn : ∀ x, pc.sctpMid = some x → (Kind.application, x) ∈ pc.keys
  seen : ∀ kx ∈ pc.keys, kx.2 ∈ pc.seenMids
  media : AllMedia pc.transceivers

theorem kind_not_media {k : Kind} (h : k.isMedia = false) : k = .application := by
  cases k <;> simp [Kind.isMedia] at h ⊢

/-! ## the shape of a transceiver list: what the invariant looks at -/

def shape (t : Transceiver) : Kind × Option String × Option Nat := (t.kind, t.mid, t.mline)

def MidDiff3 (a b : Kind × Option String × Option Nat) : Prop := a.2.1 ≠ none → a.2.1 ≠ b.2.1
def OrderRel3 (a b : Kind × Option String × Option Nat) : Prop := a.1 = b.1 → b.2.1 ≠ none → a.2.1 ≠ none

theorem uniqueMid_shape (ts : List Transceiver) : UniqueMid ts ↔ (ts.map shape).Pairwise MidDiff3 := by
  unfold UniqueMid
  rw [List.pairwise_map]
  rfl

theorem ordered_shape (ts : List Transceiver) : Ordered ts ↔ (ts.map shape).Pairwise OrderRel3 := by
  unfold Ordered
  rw [List.pairwise_map]
  rfl

theorem mem_shape {ts ts' : List Transceiver} (h : ts'.map shape = ts.map shape) {t' : Transceiver} (ht' : t' ∈ ts') :
    ∃ t ∈ ts, t.kind = t'.kind ∧ t.mid = t'.mid ∧ t.mline = t'.mline := by
  have : shape t' ∈ ts'.map shape := List.mem_map_of_mem ht'
  rw [h] at this
  obtain ⟨t, ht, he⟩ := List.mem_map.mp this
  simp only [shape, Prod.mk.injEq] at he
  exact ⟨t, ht, he.1, he.2.1, he.2.2⟩

theorem Pre.congr {K : List (Kind × String)} {ts ts' : List Transceiver} (h : ts'.map shape = ts.map shape) (hp : Pre K ts) :
    Pre K ts' := by
  refine ⟨?_, ?_, ?_⟩
  · rw [uniqueMid_shape, h, ← uniqueMid_shape]; exact hp.unique
  · rw [ordered_shape, h, ← ordered_shape]; exact hp.order
  · intro t' ht'
    obtain ⟨t, ht, hk, hm, hl⟩ := mem_shape h ht'
    rw [← hk, ← hm, ← hl]
    exact hp.lines t ht

/-- `WF` only looks at the signalling state, the description slots, the SCTP mid, the seen mids and the shape of
the transceiver list -/
theorem WF.congr {pc pc' : Pc} (h : WF pc) (hslots : pc'.slots = pc.slots) (hsctp : pc'.sctpMid = pc.sctpMid)
    (hseen : ∀ x, x ∈ pc.seenMids → x ∈ pc'.seenMids) (hts : pc'.transceivers.map shape = pc.transceivers.map shape) : WF pc' := by
  simp only [Pc.slots, Prod.mk.injEq] at hslots
  obtain ⟨e1, e2, e3, e4, e5⟩ := hslots
  have hl : pc'.localDesc = pc.localDesc := by simp [Pc.localDesc, e2, e3]
  have hr : pc'.remoteDesc = pc.remoteDesc := by simp [Pc.remoteDesc, e4, e5]
  have hk : pc'.keys = pc.keys := by simp [Pc.keys, hl]
  refine ⟨by rw [e1]; exact h.stable, by rw [hr, hk]; exact h.rkeys, by rw [hk]; exact h.nodup, by rw [hk]; exact h.pre.congr hts,
    ?_, ?_, ?_, ?_, ?_⟩
  · intro j k x hj hkm
    rw [hk] at hj
    obtain ⟨t, ht, hm⟩ := h.owned j k x hj hkm
    have : shape t ∈ pc'.transceivers.map shape := by rw [hts]; exact List.mem_map_of_mem ht
    obtain ⟨t', ht', he⟩ := List.mem_map.mp this
    simp only [shape, Prod.mk.injEq] at he
    exact ⟨t', ht', by rw [he.2.1]; exact hm⟩
  · intro x hx; rw [hsctp]; rw [hk] at hx; exact h.sctpHas x hx
  · intro x hx; rw [hk]; rw [hsctp] at hx; exact h.sctpIn x hx
  · intro kx hkx; rw [hk] at hkx; exact hseen _ (h.seen kx hkx)
  · intro t' ht'
    obtain ⟨t, ht, hkk, _, _⟩ := mem_shape hts ht'
    rw [← hkk]; exact h.media t ht

/-! ## a new connection, and the set-up operations -/

theorem WF.new (p : Policy) : WF (Pc.new p) := by
  refine ⟨rfl, rfl, by simp [Pc.keys, Pc.new, Pc.localDesc], ⟨by simp [Pc.new, UniqueMid], by simp [Pc.new, Ordered], ?_⟩, ?_, ?_, ?_, ?_, ?_⟩
  · intro t ht; simp [Pc.new] at ht
  · intro j k x hj; simp [Pc.keys, Pc.new, Pc.localDesc] at hj
  · intro x hx; simp [Pc.keys, Pc.new, Pc.localDesc] at hx
  · intro x hx; simp [Pc.sctpMid, Pc.new] at hx
  · intro kx hkx; simp [Pc.keys, Pc.new, Pc.localDesc] at hkx
  · intro t ht; simp [Pc.new] at ht

/-- appending a transceiver that has not been negotiated -/
theorem Pre.append_new {K : List (Kind × String)} {ts : List Transceiver} {n : Transceiver} (hp : Pre K ts)
    (h1 : n.mid = none) (h2 : n.mline = none) : Pre K (ts ++ [n]) := by
  refine ⟨?_, ?_, ?_⟩
  · refine List.pairwise_append.mpr ⟨hp.unique, by simp, ?_⟩
    intro a _ b hb
    simp at hb; subst hb
    intro hne; rw [h1]; exact hne
  · refine List.pairwise_append.mpr ⟨hp.order, by simp, ?_⟩
    intro a _ b hb
    simp at hb; subst hb
    intro _ hne; exact absurd h1 hne
  · intro t ht
    rcases List.mem_append.mp ht with h | h
    · exact hp.lines t h
    · simp at h; subst h; exact .inl ⟨h1, h2⟩

theorem createTransceiver_sctpMid (pc : Pc) (d : Dir) (k : Kind) (tr : Bool) :
    (pc.createTransceiver d k tr).sctpMid = pc.sctpMid := by
  simp [Pc.sctpMid, (createTransceiver_frame pc d k tr).2.2]

theorem WF.createTransceiver {pc : Pc} (h : WF pc) (d : Dir) {k : Kind} (hk : k.isMedia = true) (tr : Bool) :
    WF (pc.createTransceiver d k tr) := by
  obtain ⟨n, hn, h1, h2, h3, _⟩ := createTransceiver_new pc d k tr
  obtain ⟨f1, f2, f3⟩ := createTransceiver_frame pc d k tr
  simp only [Pc.slots, Prod.mk.injEq] at f1
  obtain ⟨e1, e2, e3, e4, e5⟩ := f1
  have hl : (pc.createTransceiver d k tr).localDesc = pc.localDesc := by simp [Pc.localDesc, e2, e3]
  have hr : (pc.createTransceiver d k tr).remoteDesc = pc.remoteDesc := by simp [Pc.remoteDesc, e4, e5]
  have hkeys : (pc.createTransceiver d k tr).keys = pc.keys := by simp [Pc.keys, hl]
  refine ⟨by rw [e1]; exact h.stable, by rw [hr, hkeys]; exact h.rkeys, by rw [hkeys]; exact h.nodup,
    by rw [hkeys, hn]; exact h.pre.append_new h1 h2, ?_, ?_, ?_, ?_, ?_⟩
  · intro j kk x hj hkm
    rw [hkeys] at hj
    obtain ⟨t, ht, hm⟩ := h.owned j kk x hj hkm
    exact ⟨t, by rw [hn]; simp [ht], hm⟩
  · intro x hx; rw [createTransceiver_sctpMid]; rw [hkeys] at hx; exact h.sctpHas x hx
  · intro x hx; rw [hkeys]; rw [createTransceiver_sctpMid] at hx; exact h.sctpIn x hx
  · intro kx hkx; rw [hkeys] at hkx; rw [f2]; exact h.seen kx hkx
  · intro t ht
    rw [hn] at ht
    rcases List.mem_append.mp ht with hh | hh
    · exact h.media t hh
    · simp at hh; subst hh; rw [h3]; exact hk

theorem WF.addTransceiver {pc : Pc} (h : WF pc) {k : Kind} (hk : k.isMedia = true) (d : Dir) (tr : Bool) :
    WF (pc.addTransceiver k d tr) := h.createTransceiver d hk tr

/-- replacing the first match by something of the same shape keeps the shape of the list -/
theorem updFirst_shape {p : Transceiver → Bool} {f : Transceiver → Transceiver} (hf : ∀ t, shape (f t) = shape t) :
    ∀ {l l' : List Transceiver}, updFirst p f l = some l' → l'.map shape = l.map shape := by
  intro l
  induction l with
  | nil => intro l' h; simp [updFirst] at h
  | cons a as ih =>
    intro l' h
    simp only [updFirst] at h
    split at h
    · cases h; simp [hf]
    · cases hr : updFirst p f as with
      | none => simp [hr] at h
      | some r => simp [hr] at h; subst h; simp [ih hr]

theorem WF.addTrack {pc : Pc} (h : WF pc) {k : Kind} (hk : k.isMedia = true) : WF (pc.addTrack k) := by
  unfold Pc.addTrack
  split
  · rename_i ts hupd
    refine h.congr rfl rfl (fun x hx => hx) ?_
    exact updFirst_shape (f := fun t => { t with hasTrack := true, direction := orDir t.direction .sendonly }) (fun t => rfl) hupd
  · exact h.createTransceiver .sendrecv hk true

theorem WF.createDataChannel {pc : Pc} (h : WF pc) : WF pc.createDataChannel := by
  unfold Pc.createDataChannel
  split
  · exact h
  · rename_i hs
    have hnone : pc.sctp = none := by simpa using hs
    obtain ⟨s, hs1, hs2⟩ := createSctp_sctp pc
    obtain ⟨f1, f2, f3⟩ := createSctp_frame pc
    refine h.congr f2 ?_ (fun x hx => by rw [f3]; exact hx) (by rw [f1])
    simp [Pc.sctpMid, hs1, hs2, hnone]

theorem set_shape {ts : List Transceiver} {i : Nat} {t t' : Transceiver} (hi : ts[i]? = some t) (hs : shape t' = shape t) :
    (ts.set i t').map shape = ts.map shape := by
  rw [List.map_set, hs]
  apply List.ext_getElem?
  intro j
  by_cases hj : i = j
  · subst hj
    have hlt : i < (ts.map shape).length := by
      simp; exact (List.getElem?_eq_some_iff.mp hi).1
    rw [List.getElem?_set_self hlt]
    simp [hi]
  · rw [List.getElem?_set_ne hj]

theorem WF.setCodecPreferences {pc pc' : Pc} (h : WF pc) {i : Nat} {caps : List Cap} (hok : pc.setCodecPreferences i caps = .ok pc') :
    WF pc' := by
  unfold Pc.setCodecPreferences at hok
  split at hok
  · cases hok
  · rename_i t ht
    split at hok
    · cases hok
      exact h.congr rfl rfl (fun x hx => hx) (set_shape ht rfl)
    · cases hok

theorem WF.setDirection {pc pc' : Pc} (h : WF pc) {i : Nat} {d : Dir} (hok : pc.setDirection i d = .ok pc') : WF pc' := by
  unfold Pc.setDirection at hok
  split at hok
  · cases hok
  · rename_i t ht
    cases hok
    exact h.congr rfl rfl (fun x hx => hx) (set_shape ht rfl)

end Aiortc.Model.Negotiate
