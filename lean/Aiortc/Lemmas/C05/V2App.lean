import Aiortc.Lemmas.C05.V2Task
/-! # V2 (C05c): `createDataChannel` (before and after `start()`), and `start()` itself -/
namespace Aiortc.Sctp.V2
open Aiortc.Gen Aiortc.Sctp.Wire
set_option linter.unusedSimpArgs false
variable {U : List Nat} {B : Nat}

/-! ## adding a channel object / registering a stream id -/

theorem ChansOk.snocChan {chans dcs q rcq} (h : ChansOk U chans dcs q rcq) {c : Chan}
    (hs : ∀ s, c.id = some s → s < 65536) (ho : c.ready = 1 → c.Reliable ∨ c.id.isSome) :
    ChansOk U (chans ++ [c]) dcs q rcq := by
  refine ⟨?_, h.dcKeys, ?_, ?_, h.qPpid, ?_, h.rcq, ?_, ?_⟩
  · intro p hp; have := h.dcIdx p hp; simp; omega
  · intro x hx; have := h.qIdx x hx; simp; omega
  · intro x hx d hd
    rw [List.getElem?_append_left (h.qIdx x hx)] at hd
    exact h.qPR x hx d hd
  · intro d hd s hds
    rcases List.mem_append.mp hd with hd | hd
    · exact h.sid d hd s hds
    · simp at hd; subst hd; exact hs s hds
  · intro p hp
    obtain ⟨d, hd, hid⟩ := h.dcLink p hp
    exact ⟨d, by rw [List.getElem?_append_left (h.dcIdx p hp)]; exact hd, hid⟩
  · intro d hd hr
    rcases List.mem_append.mp hd with hd | hd
    · exact h.openId d hd hr
    · simp at hd; subst hd; exact ho hr

/-- What `createChannel` does to the state, in the three successful cases. -/
inductive Created (e : Ep) (c : Chan) : Ep → Prop
  /-- `_data_channel_open` of a channel without id -/
  | openPending (d : Bytes) : c.id = none → c.ready = 0 →
      Created e c { e with chans := e.chans ++ [c], dcQueue := e.dcQueue ++ [(e.chans.length, WEBRTC_DCEP, d)],
                           tasks := e.tasks ++ [.flush] }
  /-- `_data_channel_open` of a channel with an id chosen by the application -/
  | openId (d : Bytes) (sid : Nat) : c.id = some sid → sid < 65536 → dictGet e.dataChannels sid = none →
      Created e c { e with chans := e.chans ++ [c], dataChannels := e.dataChannels ++ [(sid, e.chans.length)],
                           dcQueue := e.dcQueue ++ [(e.chans.length, WEBRTC_DCEP, d)], tasks := e.tasks ++ [.flush] }
  /-- `_data_channel_add_negotiated` -/
  | negotiated (sid : Nat) : c.id = some sid → sid < 65536 → dictGet e.dataChannels sid = none →
      Created e c { e with chans := e.chans ++ [c], dataChannels := e.dataChannels ++ [(sid, e.chans.length)] }

/-- Each of them keeps the invariant. -/
theorem WF.created {e e' : Ep} {c : Chan} (h : WF U e) (hc : Created e c e') : WF U e' := by
  cases hc with
  | openPending d hid hrd =>
    have hch : ChansOk U (e.chans ++ [c]) e.dataChannels e.dcQueue e.reconfigQueue :=
      h.ch.snocChan (by intro s hs; rw [hid] at hs; cases hs) (by intro h1; rw [hrd] at h1; cases h1)
    refine ⟨h.net, hch.pushQ (by simp) (by simp [WEBRTC_DCEP]) (fun _ _ => Or.inl rfl), h.tx, h.rx, h.rcReq,
      h.rcResp, h.sack, h.ids, h.cap, h.tm1, h.tm2, ?_, h.rcr⟩
    exact (h.pushTask (t := .flush) trivial).tasks
  | openId d sid hid hs hnew =>
    refine ⟨h.net, h.ch.open hnew hs hid d, h.tx, h.rx, h.rcReq, h.rcResp, h.sack, h.ids, h.cap,
      h.tm1, h.tm2, ?_, h.rcr⟩
    exact (h.pushTask (t := .flush) trivial).tasks
  | negotiated sid hid hs hnew =>
    have hch := (h.ch.open hnew hs hid []).subQ (q' := e.dcQueue) (by intro x hx; simp [hx])
    exact ⟨h.net, hch, h.tx, h.rx, h.rcReq, h.rcResp, h.sack, h.ids, h.cap, h.tm1, h.tm2, h.tasks, h.rcr⟩

/-- Parameters `createDataChannel` accepts without `struct.error`: label / protocol of < 65536 bytes, 32-bit
reliability parameter, and a 16-bit id if the application picks one. -/
def CreateOk (p : CreateParams) : Prop :=
  p.label.length < 65536 ∧ p.protocol.length < 65536 ∧
  (∀ r, p.maxRetransmits = some r → r < 4294967296) ∧ (∀ r, p.maxPacketLifeTime = some r → r < 4294967296) ∧
  (∀ v, p.id = some v → 0 ≤ v ∧ v ≤ 65534)

theorem encodeOpen_ok {c : Chan} (hl : c.label.length < 65536) (hp : c.protocol.length < 65536)
    (h1 : ∀ r, c.maxRetransmits = some r → r < 4294967296) (h2 : ∀ r, c.maxPacketLifeTime = some r → r < 4294967296) :
    ∃ d, encodeOpen c = .ok d := by
  unfold encodeOpen
  cases hr : c.maxRetransmits with
  | some r =>
    have := h1 r hr
    simp only []
    rw [if_neg (by simp; omega)]
    exact ⟨_, rfl⟩
  | none =>
    cases hm : c.maxPacketLifeTime with
    | some r =>
      have := h2 r hm
      simp only []
      rw [if_neg (by simp; omega)]
      exact ⟨_, rfl⟩
    | none =>
      simp only []
      rw [if_neg (by simp; omega)]
      exact ⟨_, rfl⟩

/-- `createDataChannel` with acceptable parameters never raises inside the transport: it either refuses (state
unchanged, the caller gets a `ValueError`) or ends in one of the three `Created` states. -/
theorem wp_create {A} {p : CreateParams} {Q : Unit → St → Prop} {e : Ep} {l : List Out} (hp : CreateOk p)
    (hq : ∀ e' l', (e' = e ∨ ∃ c, Created e c e') → Q () (e', l')) : wp A (createChannel p) Q (e, l) := by
  obtain ⟨hl, hpr, hm1, hm2, hid⟩ := hp
  unfold createChannel
  cases hneg : p.negotiated with
  | false =>
    cases hpid : p.id with
    | none =>
      simp only [wp_bind, wp_getE, Bool.false_and, Bool.false_eq_true, if_false, Bool.not_false, if_true,
        Option.map_none, wp_pure]
      obtain ⟨d, hd⟩ := encodeOpen_ok (c := { id := none, label := p.label, protocol := p.protocol, ordered := p.ordered, maxRetransmits := p.maxRetransmits, maxPacketLifeTime := p.maxPacketLifeTime, negotiated := false }) hl hpr hm1 hm2
      simp only [hd, wp_bind, wp_setE, wp_queueTask]
      exact hq _ _ (Or.inr ⟨_, Created.openPending d rfl rfl⟩)
    | some v =>
      obtain ⟨hv0, hv1⟩ := hid v hpid
      simp only [wp_bind, wp_getE, Bool.false_and, Bool.false_eq_true, if_false, Bool.not_false, if_true,
        Option.map_some, wp_pure]
      split
      · simp only [wp_bind, wp_emit, wp_pure]
        exact hq _ _ (Or.inl rfl)
      · rename_i hnone
        have hnone' : dictGet e.dataChannels v.toNat = none := by
          cases hg : dictGet e.dataChannels v.toNat with
          | none => rfl
          | some x => rw [hg] at hnone; simp at hnone
        obtain ⟨d, hd⟩ := encodeOpen_ok (c := { id := some v.toNat, label := p.label, protocol := p.protocol, ordered := p.ordered, maxRetransmits := p.maxRetransmits, maxPacketLifeTime := p.maxPacketLifeTime, negotiated := false }) hl hpr hm1 hm2
        simp only [hd, wp_bind, wp_setE, wp_queueTask]
        exact hq _ _ (Or.inr ⟨_, Created.openId d v.toNat rfl (by omega) hnone'⟩)
  | true =>
    cases hpid : p.id with
    | none =>
      simp only [wp_bind, wp_getE, Bool.true_and, if_true, wp_emit, wp_pure, decide_true]
      exact hq _ _ (Or.inl rfl)
    | some v =>
      simp only [wp_bind, wp_getE, Bool.true_and, Option.map_some, wp_pure, Bool.not_true, Bool.false_eq_true,
        if_false]
      obtain ⟨hv0, hv1⟩ := hid v hpid
      split
      · simp only [wp_bind, wp_emit, wp_pure]
        exact hq _ _ (Or.inl rfl)
      · split
        · simp only [wp_bind, wp_emit, wp_pure]
          exact hq _ _ (Or.inl rfl)
        · rename_i hnone
          have hnone' : dictGet e.dataChannels v.toNat = none := by
            cases hg : dictGet e.dataChannels v.toNat with
            | none => rfl
            | some x => rw [hg] at hnone; simp at hnone
          simp only [wp_setE]
          refine hq _ _ (Or.inr ⟨_, Created.negotiated v.toNat ?_ (by omega) hnone'⟩)
          split <;> rfl

/-! ## before `start()` -/

/-- The fields `start()` sets (before the client sends its INIT). -/
@[reducible] def startF (e : Ep) (rp : Nat) : Ep :=
  { e with started := true, state := "connecting", remotePort := some rp,
           dcId := some (if e.isServer then 0 else 1), registered := true }

/-- The invariant before `start()`: the association is closed, no timer runs, only flush tasks are queued, and
everything else is already as `WF` wants it (`WF` holds as soon as `start()` has set its fields). -/
structure Pre (B : Nat) (e : Ep) : Prop where
  ns : e.started = false
  cl : e.assoc = .closed
  t1 : e.t1 = false
  tk : ∀ t ∈ e.tasks, t = .flush
  wf : WFx B (startF e 0)
  acc : Acc 0 e.rwnd e.inStreams
  so : SidOk e.inStreams

theorem Pre.created {e e' : Ep} {c : Chan} (h : Pre B e) (hc : Created e c e') : Pre B e' := by
  cases hc with
  | openPending d hid hrd =>
    refine ⟨h.ns, h.cl, h.t1, ?_, h.wf.map (fun _ hw => hw.created (e := startF e 0) (Created.openPending d hid hrd)) rfl, h.acc, h.so⟩
    intro t ht
    rcases List.mem_append.mp ht with ht | ht
    · exact h.tk t ht
    · simpa using ht
  | openId d sid hid hs hnew =>
    refine ⟨h.ns, h.cl, h.t1, ?_, h.wf.map (fun _ hw => hw.created (e := startF e 0) (Created.openId d sid hid hs hnew)) rfl, h.acc, h.so⟩
    intro t ht
    rcases List.mem_append.mp ht with ht | ht
    · exact h.tk t ht
    · simpa using ht
  | negotiated sid hid hs hnew =>
    exact ⟨h.ns, h.cl, h.t1, h.tk, h.wf.map (fun _ hw => hw.created (e := startF e 0) (Created.negotiated sid hid hs hnew)) rfl, h.acc, h.so⟩

/-- A flush task run before `start()` does nothing (the association is not established). -/
theorem wp_runTask_pre {A} {Q : Unit → St → Prop} {e : Ep} {l : List Out} (h : Pre B e)
    (hq : ∀ e' l', Pre B e' → Q () (e', l')) : wp A runTask Q (e, l) := by
  unfold runTask
  simp only [wp_bind, wp_getE]
  split
  · simpa using hq e l h
  · rename_i t rest hte
    have ht : t = .flush := h.tk t (by rw [hte]; simp)
    subst ht
    simp only [wp_bind, wp_setE]
    unfold flush
    simp only [wp_bind, wp_getE]
    split
    · simp only [wp_pure]
      refine hq _ _ ⟨h.ns, h.cl, h.t1, fun x hx => h.tk x (by rw [hte]; simp [hx]), ?_, h.acc, h.so⟩
      exact h.wf.map (fun _ hw => (hw.popTask (e := startF e 0) (t := .flush) (rest := rest) hte).1) rfl
    · rename_i hne
      exact absurd (by simp [h.cl]) hne

/-- `start()`: the client sends its INIT and arms T1; afterwards `WF` holds. -/
theorem wp_start {A} {rp : Nat} {Q : Unit → St → Prop} {e : Ep} {l : List Out} (h : Pre B e) (hr : rp < 65536)
    (hq : ∀ e' l', WFx B e' → e'.rwnd = e.rwnd → e'.inStreams = e.inStreams → Q () (e', l')) :
    wp A (handle (.start rp)) Q (e, l) := by
  obtain ⟨U, hb, hwf⟩ := id h.wf
  have hrw : e.rwnd ≤ 1048576 := by have := h.acc.acc; omega
  have hw0 : WF U (startF e rp) :=
    ⟨⟨hwf.net.lp, ⟨rp, rfl, hr⟩, hwf.net.rtag, hwf.net.ltag, hwf.net.inMax, hwf.net.outCnt⟩, hwf.ch, hwf.tx,
     hwf.rx, hwf.rcReq, hwf.rcResp, hwf.sack, hwf.ids, hwf.cap, hwf.tm1, hwf.tm2, hwf.tasks, hwf.rcr⟩
  simp only [handle, wp_bind, wp_getE, h.ns, Bool.not_false, if_true, wp_setE]
  split
  · simp only [wp_bind, wp_getE]
    have hin : (Chunk.init .init 0 e.localTag e.rwnd.toNat e.outboundCount e.inboundMax e.tx.localTsn.toNat
        localExtensions).inRange = true := by
      have h1 : paramsInRange localExtensions = true := by decide
      have h2 : 16 + (encodeParams localExtensions).length + 4 < 65536 := by decide
      have h3 := hw0.net.ltag
      have h4 := hw0.net.outCnt
      have h5 := hw0.net.inMax
      obtain ⟨h6, h7⟩ := hw0.tx.tsn
      simp only [Chunk.inRange, h1, Bool.and_true, Bool.and_eq_true, decide_eq_true_eq]
      dsimp only at h3 h4 h5 h6 h7
      omega
    refine wp_sendChunk hw0 hin ?_
    intro d
    refine wp_t1Start h.t1 ?_
    intro l'
    rw [wp_setState_other (by decide) (by decide)]
    exact hq _ _ ⟨U, hb, by wf_same2 (hw0.t1On hin)⟩ rfl rfl
  · simp only [wp_pure]
    exact hq _ _ ⟨U, hb, hw0⟩ rfl rfl

end Aiortc.Sctp.V2
