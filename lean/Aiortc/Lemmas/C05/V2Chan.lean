import Aiortc.Lemmas.C05.V2Tx
import Aiortc.Lemmas.SctpNoCrashData
/-! # V2 (C05c): sending chunks (incl. FORWARD-TSN), channel state, `_transmit`, `_data_channel_flush` with id assignment -/
namespace Aiortc.Sctp.V2
open Aiortc.Gen Aiortc.Sctp.Wire
set_option linter.unusedSimpArgs false
variable {U : List Nat} {B : Nat}

theorem packetFor_ok {e : Ep} {c : Chunk} (h : WF U e) (hc : c.inRange = true) : ∃ d, packetFor e c = .ok d := by
  obtain ⟨p, hp, hlt⟩ := h.net.rp
  refine ⟨serializePacketRaw e.localPort p e.remoteTag c, ?_⟩
  have := h.net.lp
  have := h.net.rtag
  simp [packetFor, hp, serializePacket, headerInRange, hc, *]

theorem wp_sendChunk {A} {c : Chunk} {Q : Unit → St → Prop} {e : Ep} {l : List Out} (h : WF U e)
    (hc : c.inRange = true) (hq : ∀ d, Q () (e, l ++ [.tx d])) : wp A (sendChunk c) Q (e, l) := by
  obtain ⟨d, hd⟩ := packetFor_ok h hc
  simp [sendChunk, hd, hq]

/-- A FORWARD-TSN over at most 16381 streams of 16-bit ids / sequence numbers fits its 16-bit length. -/
theorem forwardTsn_inRange {cum : Int} {streams : List (Nat × Int)} (hU : U.length ≤ 16381) (hc : InRange32 cum)
    (hs : FsOk U streams) :
    (Chunk.forwardTsn 0 cum.toNat (streams.map fun s => (s.1, s.2.toNat))).inRange = true := by
  have hlen := hs.length_le
  obtain ⟨h0, h1⟩ := hc
  have hp : pairsInRange (streams.map fun s => (s.1, s.2.toNat)) = true := by
    unfold pairsInRange
    rw [List.all_eq_true]
    intro q hq
    obtain ⟨p, hp, rfl⟩ := List.mem_map.mp hq
    obtain ⟨_, h2, h3, h4⟩ := hs.2 p hp
    simp only [Bool.and_eq_true, decide_eq_true_eq]
    omega
  simp only [Chunk.inRange, hp, List.length_map, Bool.and_eq_true, decide_eq_true_eq, Bool.and_true]
  omega

theorem wp_playTx {A} {evs : List TxEv} {Q : Unit → St → Prop} {e : Ep} {l : List Out} (h : WF U e)
    (hev : ∀ ev ∈ evs, TxEv.Ok U ev) (hq : ∀ l', Q () (e, l')) : wp A (playTx evs) Q (e, l) := by
  unfold playTx
  rw [wp_bind]
  refine wp_forIn A evs _ _ (fun suf s' => s'.1 = e ∧ ∀ ev ∈ suf, TxEv.Ok U ev) (e, l) ⟨rfl, hev⟩ ?_ ?_
  · intro ev rest s' ⟨he, hok⟩
    have hev := hok ev (by simp)
    have hrest : ∀ ev ∈ rest, TxEv.Ok U ev := fun x hx => hok x (by simp [hx])
    cases ev with
    | data c =>
      simp only [wp_bind]
      refine wp_sendChunk (he ▸ h) (dataChunkOf_inRange hev) ?_
      intro d; simpa [he] using hrest
    | fwd cum streams =>
      simp only [wp_bind]
      refine wp_sendChunk (he ▸ h) (forwardTsn_inRange h.cap hev.1 hev.2) ?_
      intro d; simpa [he] using hrest
    | t3start => simpa [he] using hrest
    | t3cancel => simpa [he] using hrest
  · intro s' ⟨he, _⟩
    have := hq s'.2
    rw [← he] at this
    simpa using this

/-- `_transmit()`: only the send side changes. -/
theorem wp_transmit {A} {Q : Unit → St → Prop} {e : Ep} {l : List Out} (h : WF U e)
    (hq : ∀ tx l', WF U { e with tx := tx } → Q () ({ e with tx := tx }, l')) : wp A transmit Q (e, l) := by
  unfold transmit
  obtain ⟨ht, hev⟩ := Tx.transmit_ok e.tx h.tx
  simp only [wp_bind, wp_getE, wp_setE]
  have hw : WF U { e with tx := e.tx.transmit.1 } := h.setTx ht
  refine wp_playTx hw hev ?_
  intro l'
  exact hq _ _ hw

/-- `_send(...)`: reliable, or partially reliable on a stream of `U`. -/
theorem wp_sendData {A} {sid ppid : Nat} {data : Bytes} {expiry maxRtx : Option Int} {ordered : Bool}
    {Q : Unit → St → Prop} {e : Ep} {l : List Out}
    (h : WF U e) (hs : sid < 65536) (hp : ppid < 4294967296) (hpr : (expiry = none ∧ maxRtx = none) ∨ sid ∈ U)
    (hq : ∀ tx l', WF U { e with tx := tx } → Q () ({ e with tx := tx }, l')) :
    wp A (sendData sid ppid data expiry maxRtx ordered) Q (e, l) := by
  unfold sendData
  simp only [wp_bind, wp_modE]
  have hw : WF U { e with tx := e.tx.enqueue sid ppid data expiry maxRtx ordered } :=
    h.setTx (Tx.enqueue_ok _ h.tx _ _ _ _ _ _ hs hp hpr)
  refine wp_transmit hw ?_
  intro tx l' hw'
  exact hq tx l' hw'

theorem ChansOk.subQ {chans dcs q q' rcq} (h : ChansOk U chans dcs q rcq) (hsub : ∀ x ∈ q', x ∈ q) :
    ChansOk U chans dcs q' rcq :=
  ⟨h.dcIdx, h.dcKeys, fun x hx => h.qIdx x (hsub x hx), fun x hx => h.qPR x (hsub x hx),
   fun x hx => h.qPpid x (hsub x hx), h.sid, h.rcq, h.dcLink, h.openId⟩

theorem WF.subQ {e : Ep} (h : WF U e) {q : List (Nat × Nat × Bytes)} (hsub : ∀ x ∈ q, x ∈ e.dcQueue) :
    WF U { e with dcQueue := q } :=
  ⟨h.net, h.ch.subQ hsub, h.tx, h.rx, h.rcReq, h.rcResp, h.sack, h.ids, h.cap, h.tm1, h.tm2, h.tasks, h.rcr⟩

theorem ChansOk.pushQ {chans dcs q rcq} (h : ChansOk U chans dcs q rcq) {i ppid : Nat} {data : Bytes}
    (hi : i < chans.length) (hp : ppid < 4294967296)
    (hpr : ∀ c, chans[i]? = some c → ppid = WEBRTC_DCEP ∨ c.Reliable ∨ ∃ s, c.id = some s ∧ s ∈ U) :
    ChansOk U chans dcs (q ++ [(i, ppid, data)]) rcq := by
  refine ⟨h.dcIdx, h.dcKeys, ?_, ?_, ?_, h.sid, h.rcq, h.dcLink, h.openId⟩
  · intro x hx
    rcases List.mem_append.mp hx with hx | hx
    · exact h.qIdx x hx
    · simp at hx; subst hx; exact hi
  · intro x hx c hc
    rcases List.mem_append.mp hx with hx | hx
    · exact h.qPR x hx c hc
    · simp at hx; subst hx; exact hpr c hc
  · intro x hx
    rcases List.mem_append.mp hx with hx | hx
    · exact h.qPpid x hx
    · simp at hx; subst hx; exact hp

theorem WF.pushQ {e : Ep} (h : WF U e) {i ppid : Nat} {data : Bytes}
    (hi : i < e.chans.length) (hp : ppid < 4294967296)
    (hpr : ∀ c, e.chans[i]? = some c → ppid = WEBRTC_DCEP ∨ c.Reliable ∨ ∃ s, c.id = some s ∧ s ∈ U) :
    WF U { e with dcQueue := e.dcQueue ++ [(i, ppid, data)] } :=
  ⟨h.net, h.ch.pushQ hi hp hpr, h.tx, h.rx, h.rcReq, h.rcResp, h.sack, h.ids, h.cap, h.tm1, h.tm2,
   h.tasks, h.rcr⟩

/-- `WF` does not read the armed handlers. -/
theorem WF.setReactions {e : Ep} (h : WF U e) (rs : List (Nat × Nat × Bool × Bytes)) :
    WF U { e with reactions := rs } :=
  ⟨h.net, h.ch, h.tx, h.rx, h.rcReq, h.rcResp, h.sack, h.ids, h.cap, h.tm1, h.tm2, h.tasks, h.rcr⟩

/-! ## application handlers that re-enter the API -/

theorem userData_ppid (isStr : Bool) (data : Bytes) :
    (userData isStr data).1 < 4294967296 ∧ (userData isStr data).1 ≠ WEBRTC_DCEP := by
  unfold userData
  rcases Bool.eq_false_or_eq_true data.isEmpty with h1 | h1 <;>
    rcases Bool.eq_false_or_eq_true isStr with h2 | h2 <;> simp [h1, h2] <;> decide

/-- `channel.send(data)` after its state check, on an OPEN channel: one unit of the budget pays for the stream of a
partially reliable channel joining `U`. -/
theorem wp_dcSend {A} {i : Nat} {isStr : Bool} {data : Bytes} {Q : Unit → St → Prop} {e : Ep} {l : List Out}
    (h : WF U e) (hb : U.length + e.reactions.length + (B + 1) ≤ 16381) {c : Chan} (hc : e.chans[i]? = some c)
    (hr : c.ready = 1) (hq : ∀ e' l', WFx B e' → RFrame e e' → Q () (e', l')) :
    wp A (dcSend i isStr data) Q (e, l) := by
  have hi : i < e.chans.length := by
    rcases Nat.lt_or_ge i e.chans.length with h' | h'
    · exact h'
    · rw [List.getElem?_eq_none h'] at hc; cases hc
  obtain ⟨hpp, hnd⟩ := userData_ppid isStr data
  -- the set of partially reliable streams afterwards
  obtain ⟨U', hsub, hlen, hmem⟩ : ∃ U' : List Nat, (∀ x ∈ U, x ∈ U') ∧ U'.length ≤ U.length + 1 ∧
      (c.Reliable ∨ ∃ s, c.id = some s ∧ s ∈ U') := by
    rcases h.ch.openId c (List.mem_of_getElem? hc) hr with hrel | hid
    · exact ⟨U, fun x hx => hx, by omega, Or.inl hrel⟩
    · obtain ⟨s, hs⟩ := Option.isSome_iff_exists.mp hid
      exact ⟨s :: U, fun x hx => List.mem_cons_of_mem _ hx, by simp, Or.inr ⟨s, hs, List.mem_cons_self⟩⟩
  have hw0 : WF U' e := h.monoU hsub (by omega)
  unfold dcSend addBuffered0 addBufferedCore
  simp only [wp_bind, wp_chanGet hc, wp_chanSet]
  have hw := hw0.setChan hc (c' := { c with buffered := c.buffered + (userData isStr data).2.length })
    ⟨rfl, rfl, rfl⟩ (fun h' => Or.inl h')
  have hw2 := (hw.pushQ (i := i) (ppid := (userData isStr data).1) (data := (userData isStr data).2)
    (by simpa using hi) hpp (by
      intro c' hc'
      simp only [List.getElem?_set, hi, if_true] at hc'
      cases hc'
      rcases hmem with hrel | ⟨s, hs1, hs2⟩
      · exact Or.inr (Or.inl hrel)
      · exact Or.inr (Or.inr ⟨s, hs1, hs2⟩))).pushTask (t := .flush) trivial
  split
  · simp only [wp_bind, wp_emit, wp_pure, wp_modE, queueTask]
    exact hq _ _ ⟨U', by simp only; omega, hw2⟩ ⟨_, _, _, _, rfl, by simp⟩
  · simp only [wp_pure, wp_modE, wp_bind, wp_emit, queueTask]
    exact hq _ _ ⟨U', by simp only; omega, hw2⟩ ⟨_, _, _, _, rfl, by simp⟩

/-- An application handler runs: at most one armed reaction is consumed; its `send()` either fails inside the handler
(`InvalidStateError`) or queues one user message on an open channel. -/
theorem wp_react {A} {k i : Nat} {Q : Unit → St → Prop} {e : Ep} {l : List Out} (h : WF U e)
    (hb : U.length + e.reactions.length + B ≤ 16381) (hi : i < e.chans.length)
    (hq : ∀ e' l', WFx B e' → RFrame e e' → Q () (e', l')) : wp A (react k i) Q (e, l) := by
  unfold react
  simp only [wp_bind, wp_getE]
  split
  · simp only [wp_pure]; exact hq e l ⟨U, hb, h⟩ (RFrame.refl _)
  · rename_i r hfind
    have hmem : r ∈ e.reactions := List.mem_of_find?_eq_some hfind
    have hlen : (e.reactions.erase r).length + 1 = e.reactions.length := by
      rw [List.length_erase_of_mem hmem]
      have : 0 < e.reactions.length := List.length_pos_of_mem hmem
      omega
    obtain ⟨c, hc⟩ := getElem?_of_lt hi
    have hw1 : WF U { e with reactions := e.reactions.erase r } := h.setReactions _
    simp only [wp_bind, wp_setE]
    rw [wp_chanGet (c := c) (by simpa using hc)]
    split
    · simp only [wp_emit]
      exact hq _ _ ⟨U, by simp only; omega, hw1⟩ ⟨_, _, _, _, rfl, rfl⟩
    · rename_i hr
      have hr1 : c.ready = 1 := by
        rcases Nat.decEq c.ready 1 with h' | h'
        · exact absurd h' hr
        · exact h'
      refine wp_dcSend (B := B) hw1 (by simp only; omega) (by simpa using hc) hr1 ?_
      intro e' l' hw' hf
      exact hq e' l' hw' (RFrame.trans ⟨_, _, _, _, rfl, rfl⟩ hf)

/-- `_setReadyState` (`hst`: a channel that opens is reliable or has its stream id). -/
theorem wp_setReady {A} {i st : Nat} {Q : Unit → St → Prop} {e : Ep} {l : List Out} (h : WFx B e)
    (hi : i < e.chans.length)
    (hst : st = 1 → ∀ c, e.chans[i]? = some c → c.Reliable ∨ c.id.isSome)
    (hq : ∀ e' l', WFx B e' → RFrame e e' → Q () (e', l')) :
    wp A (setReady i st) Q (e, l) := by
  obtain ⟨U, hb, h⟩ := h
  obtain ⟨c, hc⟩ := getElem?_of_lt hi
  unfold setReady
  simp only [wp_bind, wp_chanGet hc]
  split
  · simp only [wp_bind, wp_chanSet]
    have hw := h.setChan hc (c' := { c with ready := st }) ⟨rfl, rfl, rfl⟩
      (fun h' => Or.inr (hst h' c hc))
    have hfr : RFrame e { e with chans := e.chans.set i { c with ready := st } } := ⟨_, _, _, _, rfl, by simp⟩
    split
    · split
      · simp only [wp_bind, wp_emit]
        refine wp_react hw hb (by simpa using hi) ?_
        intro e' l' hw' hf; exact hq e' l' hw' (hfr.trans hf)
      · split
        · simp only [wp_bind, wp_emit]
          refine wp_react hw hb (by simpa using hi) ?_
          intro e' l' hw' hf; exact hq e' l' hw' (hfr.trans hf)
        · simp only [wp_pure]; exact hq _ _ ⟨U, hb, hw⟩ hfr
    · simp only [wp_pure]; exact hq _ _ ⟨U, hb, hw⟩ hfr
  · simp only [wp_pure]; exact hq e l ⟨U, hb, h⟩ (RFrame.refl _)

/-- `_addBufferedAmount` with the application's `bufferedamountlow` handler. -/
theorem wp_addBuffered {A} {i : Nat} {amount : Int} {Q : Unit → St → Prop} {e : Ep} {l : List Out} (h : WFx B e)
    (hi : i < e.chans.length)
    (hq : ∀ e' l', WFx B e' → RFrame e e' → Q () (e', l')) :
    wp A (addBuffered i amount) Q (e, l) := by
  obtain ⟨U, hb, h⟩ := h
  obtain ⟨c, hc⟩ := getElem?_of_lt hi
  unfold addBuffered addBufferedCore
  simp only [wp_bind, wp_chanGet hc, wp_chanSet]
  have hw := h.setChan hc (c' := { c with buffered := c.buffered + amount }) ⟨rfl, rfl, rfl⟩ (fun h' => Or.inl h')
  have hfr : RFrame e { e with chans := e.chans.set i { c with buffered := c.buffered + amount } } :=
    ⟨_, _, _, _, rfl, by simp⟩
  split
  · simp only [wp_bind, wp_emit, wp_pure, if_true]
    refine wp_react hw hb (by simpa using hi) ?_
    intro e' l' hw' hf; exact hq e' l' hw' (hfr.trans hf)
  · simp only [wp_pure, Bool.false_eq_true, if_false]; exact hq _ _ ⟨U, hb, hw⟩ hfr

/-! ## `_data_channel_flush`: picking a stream id -/

theorem pick_zero (e : Ep) (s : Nat) : flushLoop.pick e 0 s = s := by
  simp [flushLoop.pick]

theorem pick_succ (e : Ep) (f s : Nat) :
    flushLoop.pick e (f + 1) s = if (dictGet e.dataChannels s).isSome then flushLoop.pick e f (s + 2) else s := by
  simp [flushLoop.pick]

/-- `while stream_id in self._data_channels: stream_id += 2`, `k` iterations. -/
theorem pick_spec (e : Ep) : ∀ (fuel s : Nat), ∃ k, k ≤ fuel ∧ flushLoop.pick e fuel s = s + 2 * k ∧
    (∀ j, j < k → (dictGet e.dataChannels (s + 2 * j)).isSome = true) ∧
    (k < fuel → (dictGet e.dataChannels (s + 2 * k)).isSome = false) := by
  intro fuel
  induction fuel with
  | zero => intro s; exact ⟨0, Nat.le_refl _, by simp [pick_zero], by intro j hj; omega, by intro h; omega⟩
  | succ f ih =>
    intro s
    rw [pick_succ]
    split
    · rename_i hs
      obtain ⟨k, hk, he, hin, hout⟩ := ih (s + 2)
      refine ⟨k + 1, by omega, by rw [he]; omega, ?_, ?_⟩
      · intro j hj
        cases j with
        | zero => simpa using hs
        | succ j =>
          have := hin j (by omega)
          rw [show s + 2 * (j + 1) = s + 2 + 2 * j by omega]; exact this
      · intro hlt
        have := hout (by omega)
        rw [show s + 2 * (k + 1) = s + 2 + 2 * k by omega]; exact this
    · rename_i hs
      exact ⟨0, by omega, by simp, by intro j hj; omega, by intro _; simpa using hs⟩

/-- Pigeonhole: `k` distinct keys `s, s+2, …` in the dict need `k ≤ len`. -/
theorem keys_pigeon {β} (d : List (Nat × β)) (s k : Nat)
    (h : ∀ j, j < k → (dictGet d (s + 2 * j)).isSome = true) : k ≤ d.length := by
  have hnd : ((List.range k).map fun j => s + 2 * j).Nodup := by
    unfold List.Nodup
    rw [List.pairwise_map]
    exact (List.nodup_range (n := k)).imp (by intro a b hab; omega)
  have hsub : ((List.range k).map fun j => s + 2 * j) ⊆ d.map (·.1) := by
    intro x hx
    obtain ⟨j, hj, rfl⟩ := List.mem_map.mp hx
    have hj' : j < k := by simpa using hj
    have := h j hj'
    cases hg : dictGet d (s + 2 * j) with
    | none => rw [hg] at this; cases this
    | some v => exact List.mem_map.mpr ⟨_, dictGet_mem hg, rfl⟩
  have := List.Nodup.length_le_of_subset hnd hsub
  simpa using this

/-- registering the picked id for a channel that waited for one -/
theorem WF.assign {e : Ep} (h : WF U e) {i s : Nat} {c : Chan} (hc : e.chans[i]? = some c) (hid : c.id = none)
    (hnew : dictGet e.dataChannels s = none) (hs : s < 65536) :
    WF U { e with dataChannels := e.dataChannels ++ [(s, i)], chans := e.chans.set i { c with id := some s } } := by
  have hlt : i < e.chans.length := by
    rcases Nat.lt_or_ge i e.chans.length with h' | h'
    · exact h'
    · rw [List.getElem?_eq_none h'] at hc; cases hc
  refine ⟨h.net, ⟨?_, ?_, ?_, ?_, h.ch.qPpid, ?_, h.ch.rcq, ?_, ?_⟩, h.tx, h.rx, h.rcReq, h.rcResp, h.sack, h.ids,
    h.cap, h.tm1, h.tm2, h.tasks, h.rcr⟩
  · intro p hp
    rcases List.mem_append.mp hp with hp | hp
    · simpa using h.ch.dcIdx p hp
    · simp at hp; subst hp; simpa using hlt
  · rw [List.map_append, List.nodup_append]
    refine ⟨h.ch.dcKeys, by simp, ?_⟩
    intro a ha b hb
    simp at hb; subst hb
    intro heq; subst heq
    exact dictGet_none hnew ha
  · intro x hx; simpa using h.ch.qIdx x hx
  · intro x hx d hd
    rw [List.getElem?_set] at hd
    split at hd
    · rename_i heq
      simp only [hlt, if_true, Option.some.injEq] at hd
      subst hd
      rcases h.ch.qPR x hx c (heq ▸ hc) with h' | h' | ⟨s', hs', _⟩
      · exact Or.inl h'
      · exact Or.inr (Or.inl h')
      · rw [hid] at hs'; cases hs'
    · exact h.ch.qPR x hx d hd
  · intro d hd s' hs'
    rcases List.mem_or_eq_of_mem_set hd with hd | rfl
    · exact h.ch.sid d hd s' hs'
    · simp at hs'; omega
  · intro p hp
    rcases List.mem_append.mp hp with hp | hp
    · obtain ⟨d, hd, hdid⟩ := h.ch.dcLink p hp
      have hne : ¬ i = p.2 := by
        intro heq; rw [← heq, hc] at hd; cases hd; rw [hid] at hdid; cases hdid
      refine ⟨d, ?_, hdid⟩
      rw [List.getElem?_set]; simp [hne, hd]
    · simp at hp; subst hp
      refine ⟨{ c with id := some s }, ?_, rfl⟩
      rw [List.getElem?_set]; simp [hlt]
  · intro d hd hr
    rcases List.mem_or_eq_of_mem_set hd with hd | rfl
    · exact h.ch.openId d hd hr
    · exact Or.inr rfl

/-- `_transmit_reconfig()`: only the stream reset bookkeeping changes. -/
theorem wp_transmitReconfig {A} {Q : Unit → St → Prop} {e : Ep} {l : List Out} (h : WF U e)
    (hq : ∀ e' l', WF U e' → DataFrame e e' → Q () (e', l')) :
    wp A transmitReconfig Q (e, l) := by
  unfold transmitReconfig
  simp only [wp_bind, wp_getE]
  split
  · generalize hst : ((e.reconfigQueue.filter fun x =>
        !(e.dcQueue.map fun q => (e.chans[q.1]?).bind (·.id)).contains (some x)).take RECONFIG_MAX_STREAMS) = streams
    have hsub : ∀ s ∈ streams, s ∈ e.reconfigQueue := by
      intro s hs; rw [← hst] at hs
      exact (List.mem_filter.mp (List.mem_of_mem_take hs)).1
    have hlen : streams.length ≤ 135 := by
      rw [← hst, List.length_take]; exact Nat.min_le_left _ _
    split
    · simp only [wp_pure]; exact hq e l h (DataFrame.refl _)
    · simp only [wp_bind, wp_setE]
      obtain ⟨ha0, ha1⟩ := h.rcReq
      obtain ⟨hb0, hb1⟩ := h.rcResp
      obtain ⟨hc0, hc1⟩ := tsn_minus_one_range e.tx.localTsn
      have hstreams : ∀ s ∈ streams, s < 65536 := fun s hs => h.ch.rcq s (hsub s hs)
      have hser : (RcParam.resetOut e.reconfigRequestSeq.toNat e.reconfigResponseSeq.toNat
          (tsn_minus_one e.tx.localTsn).toNat streams).serialize =
          .ok (RcParam.resetOut e.reconfigRequestSeq.toNat e.reconfigResponseSeq.toNat
            (tsn_minus_one e.tx.localTsn).toNat streams).bytes := by
        have h1 : e.reconfigRequestSeq.toNat < 4294967296 := by omega
        have h2 : e.reconfigResponseSeq.toNat < 4294967296 := by omega
        have h3 : (tsn_minus_one e.tx.localTsn).toNat < 4294967296 := by omega
        simp only [RcParam.serialize, RcParam.inRange, h1, h2, h3, decide_true, Bool.true_and, List.all_eq_true,
          decide_eq_true_eq]
        rw [if_pos]
        intro s hs; exact hstreams s hs
      have hrc : RcOk (e.reconfigRequestSeq, e.reconfigResponseSeq, tsn_minus_one e.tx.localTsn, streams) := by
        refine ⟨?_, hlen⟩
        have := hser
        simp only [RcParam.serialize] at this
        split at this
        · assumption
        · cases this
      simp only [hser, wp_liftO_ok]
      have hw1 : WF U { e with reconfigQueue := e.reconfigQueue.filter fun x => !streams.contains x
                               reconfigRequest := some (e.reconfigRequestSeq, e.reconfigResponseSeq,
                                 tsn_minus_one e.tx.localTsn, streams)
                               reconfigRequestSeq := tsn_plus_one e.reconfigRequestSeq } :=
        ⟨h.net, ⟨h.ch.dcIdx, h.ch.dcKeys, h.ch.qIdx, h.ch.qPR, h.ch.qPpid, h.ch.sid,
          fun s hs => h.ch.rcq s (List.mem_filter.mp hs).1, h.ch.dcLink, h.ch.openId⟩, h.tx, h.rx, tsn_plus_one_range _, h.rcResp, h.sack,
          h.ids, h.cap, h.tm1, h.tm2, h.tasks, (fun p hp => by cases hp; exact hrc)⟩
      refine wp_sendChunk hw1 (reconfigChunk_inRange (by decide) ?_) ?_
      · simp only [RcParam.bytes, List.length_append, length_u32be, length_u16sBytes]
        omega
      · intro d
        refine wp_rcStart ?_
        intro l'
        exact hq _ _ ⟨hw1.net, hw1.ch, hw1.tx, hw1.rx, hw1.rcReq, hw1.rcResp, hw1.sack, hw1.ids, hw1.cap,
          hw1.tm1, hw1.tm2, hw1.tasks, hw1.rcr⟩ ⟨_, _, _, _, _, _, _, _, rfl, Nat.le_refl _⟩
  · simp only [wp_pure]
    exact hq e l h (DataFrame.refl _)


/-- `_data_channel_flush` loop: channel objects, stream table, queue, send side, tasks and armed handlers change. -/
theorem wp_flushLoop {A} (fuel : Nat) {Q : Unit → St → Prop} {e : Ep} {l : List Out} (h : WFx B e)
    (hq : ∀ e' l', WFx B e' → DFrame e e' → Q () (e', l')) : wp A (flushLoop fuel) Q (e, l) := by
  induction fuel generalizing e l with
  | zero => simpa [flushLoop] using hq e l h (DFrame.refl _)
  | succ fuel ih =>
    unfold flushLoop
    simp only [wp_bind, wp_getE]
    split
    · simpa using hq e l h (DFrame.refl _)
    · rename_i i ppid data rest hqeq
      split
      · simpa using hq e l h (DFrame.refl _)
      · obtain ⟨U, hb, h⟩ := h
        simp only [wp_bind, wp_setE]
        have hmem : (i, ppid, data) ∈ e.dcQueue := by rw [hqeq]; simp
        have hi := h.ch.qIdx _ hmem
        obtain ⟨c, hc⟩ := getElem?_of_lt hi
        have hw1 : WF U { e with dcQueue := rest } := h.subQ (by intro x hx; rw [hqeq]; simp [hx])
        rw [wp_chanGet (c := c) (by simpa using hc)]
        have hpp := h.ch.qPpid _ hmem
        have hpr0 := h.ch.qPR _ hmem c hc
        -- the part after the stream id is known, for any state `e1` reached with a well-formed frame
        have hsend : ∀ (e1 : Ep) (l1 : List Out) (sid : Nat), WF U e1 → U.length + e1.reactions.length + B ≤ 16381 →
            DFrame e e1 → sid < 65536 → (ppid = WEBRTC_DCEP ∨ c.Reliable ∨ sid ∈ U) →
            wp A (do
              if ppid = WEBRTC_DCEP then
                sendData sid ppid data none none true
              else
                let e ← getE
                let expiry : Option Int := match c.maxPacketLifeTime with
                  | some l => if l ≠ 0 then some (1000 * e.now + 1024 * (l : Int)) else none
                  | none => none
                sendData sid ppid data expiry (c.maxRetransmits.map fun m => (m : Int)) c.ordered
                addBuffered i (-(data.length : Int))
              flushLoop fuel) Q (e1, l1) := by
          intro e1 l1 sid hwe hbe hfe hsid hprs
          have hi1 : i < e1.chans.length := by
            obtain ⟨_, _, _, _, _, _, _, _, _, _, rfl, hl⟩ := hfe
            exact Nat.lt_of_lt_of_le hi hl
          split
          · simp only [wp_bind]
            refine wp_sendData hwe hsid hpp (Or.inl ⟨rfl, rfl⟩) ?_
            intro tx l' hw2
            refine ih ⟨U, hbe, hw2⟩ ?_
            intro e' l'' hw3 hf
            exact hq e' l'' hw3 ((hfe.trans ⟨_, _, _, tx, _, _, _, _, _, _, rfl, Nat.le_refl _⟩).trans hf)
          · rename_i hne
            simp only [wp_bind, wp_getE]
            have hpr : ((match c.maxPacketLifeTime with
                | some l => if l ≠ 0 then some (1000 * e1.now + 1024 * (l : Int)) else none
                | none => none : Option Int) = none ∧ (c.maxRetransmits.map fun m => (m : Int)) = none) ∨ sid ∈ U := by
              rcases hprs with h' | h' | h'
              · exact absurd h' hne
              · left; simp [h'.1, h'.2]
              · exact Or.inr h'
            refine wp_sendData hwe hsid hpp hpr ?_
            intro tx l' hw2
            refine wp_addBuffered ⟨U, hbe, hw2⟩ (by simpa using hi1) ?_
            intro e2 l'' hw3 hf2
            refine ih hw3 ?_
            intro e' l3 hw4 hf
            exact hq e' l3 hw4 (((hfe.trans ⟨_, _, _, tx, _, _, _, _, _, _, rfl, Nat.le_refl _⟩).trans hf2.toD).trans hf)
        cases hid : c.id with
        | some sid =>
          have hsidlt := h.ch.sid c (List.mem_of_getElem? hc) sid hid
          simp only [wp_pure, wp_bind]
          refine hsend _ _ sid hw1 hb ⟨_, _, rest, _, _, _, _, _, _, _, rfl, Nat.le_refl _⟩ hsidlt ?_
          rcases hpr0 with h' | h' | ⟨s, hs, hu⟩
          · exact Or.inl h'
          · exact Or.inr (Or.inl h')
          · rw [hid] at hs; cases hs; exact Or.inr (Or.inr hu)
        | none =>
          obtain ⟨s0, hs0, hs0le⟩ := h.ids
          obtain ⟨k, hk, hpick, hin, hout⟩ := pick_spec e (e.dataChannels.length + 1) s0
          have hkl : k ≤ e.dataChannels.length := keys_pigeon _ _ _ hin
          have hnew : dictGet e.dataChannels (s0 + 2 * k) = none := by
            have := hout (by omega)
            cases hg : dictGet e.dataChannels (s0 + 2 * k) with
            | none => rfl
            | some v => rw [hg] at this; cases this
          dsimp only
          split
          · rename_i s1 hs1
            have hs01 : s0 = s1 := by rw [hs0] at hs1; exact Option.some.inj hs1
            subst hs01
            simp only [wp_pure, wp_bind, hpick]
            split
            · -- no stream id of the local parity below 65536 is free: the channel is closed
              simp only [wp_bind]
              refine wp_setReady ⟨U, hb, hw1⟩ (by simpa using hi) (by intro h3; cases h3) ?_
              intro e2 l1 hw2 hf2
              simp only [wp_pure]
              refine ih hw2 ?_
              intro e' l2 hw3 hf
              exact hq e' l2 hw3 ((DFrame.trans ⟨_, _, rest, _, _, _, _, _, _, _, rfl, Nat.le_refl _⟩ hf2.toD).trans hf)
            · rename_i hle
              have hslt : s0 + 2 * k < 65536 := by omega
              have hw2 := hw1.assign (i := i) (s := s0 + 2 * k) (c := c) (by simpa using hc) hid
                (by simpa using hnew) hslt
              simp only [wp_pure, wp_bind, wp_modE, wp_chanSet]
              refine hsend _ _ _ hw2 hb ⟨_, _, rest, _, _, _, _, _, _, _, rfl, by simp⟩ hslt ?_
              rcases hpr0 with h' | h' | ⟨s, hs, _⟩
              · exact Or.inl h'
              · exact Or.inr (Or.inl h')
              · rw [hid] at hs; cases hs
          · rename_i hnone
            rw [hs0] at hnone; cases hnone

theorem wp_flush {A} {Q : Unit → St → Prop} {e : Ep} {l : List Out} (h : WFx B e)
    (hq : ∀ e' l', WFx B e' → DFrame e e' → Q () (e', l')) : wp A flush Q (e, l) := by
  unfold flush
  simp only [wp_bind, wp_getE]
  split
  · simpa using hq e l h (DFrame.refl _)
  · simp only [wp_bind]
    refine wp_flushLoop _ h ?_
    intro e1 l1 hw1 hf1
    simp only [wp_getE]
    split
    · obtain ⟨U, hb, hw1⟩ := hw1
      refine wp_transmitReconfig hw1 ?_
      intro e2 l2 hw2 hf2
      have hf2' : DataFrame e1 e2 := hf2
      have hre : e2.reactions = e1.reactions := by
        obtain ⟨_, _, _, _, _, _, _, _, rfl, _⟩ := hf2; rfl
      exact hq _ l2 ⟨U, by rw [hre]; exact hb, hw2⟩ (hf1.trans (DataFrame.toD hf2))
    · simp only [wp_pure]; exact hq e1 l1 hw1 hf1

end Aiortc.Sctp.V2
