import Aiortc.Lemmas.C05.V2Data
import Aiortc.Lemmas.SctpNoCrashCtl
/-! # V2 (C05c): the control plane (`_set_state`, closing channels, stream resets) under the weaker invariant
(timer helpers, `getExtensions`, … do not read the invariant and are reused from C05a) -/
namespace Aiortc.Sctp.V2
open Aiortc.Gen Aiortc.Sctp.Wire
set_option linter.unusedSimpArgs false
variable {U : List Nat} {B : Nat}

/-- `WF` does not read the fields that changed. -/
macro "wf_same2 " h:term : tactic =>
  `(tactic| exact ⟨($h).net, ($h).ch, ($h).tx, ($h).rx, ($h).rcReq, ($h).rcResp, ($h).sack, ($h).ids, ($h).cap, ($h).tm1, ($h).tm2, ($h).tasks, ($h).rcr⟩)

/-- the same for `WFx` (the armed handlers did not change either) -/
macro "wfx_same " h:term : tactic =>
  `(tactic| exact WFx.map $h (fun _ hw => ⟨hw.net, hw.ch, hw.tx, hw.rx, hw.rcReq, hw.rcResp, hw.sack, hw.ids, hw.cap, hw.tm1, hw.tm2, hw.tasks, hw.rcr⟩) rfl)

theorem WFx.pushTask {e : Ep} (h : WFx B e) {t : Task} (ht : TaskOk t) : WFx B { e with tasks := e.tasks ++ [t] } :=
  h.map (fun _ hw => hw.pushTask ht) rfl

theorem wp_setState_established {A} {Q : Unit → St → Prop} {e : Ep} {l : List Out} (h : WFx B e)
    (hq : ∀ e' l', WFx B e' → e'.rwnd = e.rwnd → e'.inStreams = e.inStreams → Q () (e', l')) :
    wp A (setState .established) Q (e, l) := by
  unfold setState
  simp only [wp_bind, wp_modE, if_true, wp_getE]
  have hw0 : WFx B { e with assoc := .established, state := "connected" } := by wfx_same h
  -- the loop runs over a snapshot of `_data_channels`; handlers do not touch the stream table
  refine wp_forIn A _ _ _ (fun suf s' => WFx B s'.1 ∧ (∀ p ∈ suf, p ∈ s'.1.dataChannels) ∧
    s'.1.rwnd = e.rwnd ∧ s'.1.inStreams = e.inStreams) _ ⟨hw0, fun p hp => hp, rfl, rfl⟩ ?_ ?_
  · intro ⟨sid, i⟩ rest ⟨e1, l1⟩ ⟨hw, hin, hr, hi⟩
    obtain ⟨U, hb, hwu⟩ := id hw
    have hmem : (sid, i) ∈ e1.dataChannels := hin (sid, i) (by simp)
    have hlt : i < e1.chans.length := hwu.ch.dcIdx _ hmem
    obtain ⟨c, hc⟩ := getElem?_of_lt hlt
    obtain ⟨d, hd, hdid⟩ := hwu.ch.dcLink _ hmem
    simp only [wp_bind, wp_chanGet hc]
    split
    · simp only [wp_bind]
      refine wp_setReady hw hlt ?_ ?_
      · intro _ c' hc'
        rw [hd] at hc'; cases hc'
        exact Or.inr (by rw [hdid]; rfl)
      · intro e' l' hw' hf
        simp only [wp_pure, true_and]
        exact ⟨hw', fun p hp => by rw [hf.dcs]; exact hin p (by simp [hp]), hf.rwnd.trans hr, hf.ins.trans hi⟩
    · simp only [wp_bind, wp_pure, true_and]
      exact ⟨hw, fun p hp => hin p (by simp [hp]), hr, hi⟩
  · intro ⟨e1, l1⟩ ⟨hw, _, hr, hi⟩
    simp only [wp_queueTask]
    exact hq _ _ (hw.pushTask trivial) hr hi

theorem wp_setState_closed {A} {Q : Unit → St → Prop} {e : Ep} {l : List Out} (h : WFx B e)
    (hq : ∀ e' l', WFx B e' → e'.rwnd = e.rwnd → e'.inStreams = e.inStreams → Q () (e', l')) :
    wp A (setState .closed) Q (e, l) := by
  unfold setState
  simp only [wp_bind, wp_modE, reduceCtorEq, if_false, if_true]
  refine wp_t1Cancel ?_; intro ch1 l1
  refine wp_t2Cancel ?_; intro ch2 l2
  refine wp_t3Cancel ?_; intro l3
  refine wp_rcCancel ?_; intro l4
  simp only [wp_modE, wp_getE]
  have hw0 : WFx B { e with assoc := .closed, t1 := false, t1Chunk := ch1, t2 := false, t2Chunk := ch2,
                            tx := { e.tx with t3 := false }, rcTimer := false, state := "closed",
                            reconfigQueue := [], reconfigRequest := none } :=
    h.map (fun U h => ⟨h.net, ⟨h.ch.dcIdx, h.ch.dcKeys, h.ch.qIdx, h.ch.qPR, h.ch.qPpid, h.ch.sid, by simp,
        h.ch.dcLink, h.ch.openId⟩, h.tx.congr rfl rfl rfl rfl rfl rfl rfl rfl, h.rx,
      h.rcReq, h.rcResp, h.sack, h.ids, h.cap, (fun hf => by cases hf), (fun hf => by cases hf), h.tasks,
      (fun p hp => by cases hp)⟩) rfl
  refine wp_forIn A _ _ _ (fun suf s' => WFx B s'.1 ∧ s'.1.dataChannels = suf ∧
    s'.1.rwnd = e.rwnd ∧ s'.1.inStreams = e.inStreams) _ ⟨hw0, rfl, rfl, rfl⟩ ?_ ?_
  · intro ⟨sid, i⟩ rest ⟨e1, l1⟩ ⟨hw, hdc, hr, hi⟩
    simp only at hdc
    simp only [wp_bind]
    have hkeys : (e1.dataChannels.map (·.1)).Nodup := by
      obtain ⟨U, _, hwu⟩ := hw; exact hwu.ch.dcKeys
    refine wp_dcClosed hw ?_
    intro e' l' hw' hf
    simp only [wp_pure, true_and]
    refine ⟨hw', ?_, hf.rwnd.trans hr, hf.ins.trans hi⟩
    rw [hf.dcs]
    show dictDel e1.dataChannels sid = rest
    rw [hdc]
    exact dictDel_cons_nodup (hdc ▸ hkeys)
  · intro ⟨e1, l1⟩ ⟨hw, _, hr, hi⟩
    simp only [wp_getE, wp_bind]
    have hq0 : ∀ x ∈ e1.dcQueue, x.1 < e1.chans.length := by
      obtain ⟨U, _, hwu⟩ := hw; exact hwu.ch.qIdx
    refine wp_forIn A _ _ _ (fun suf s' => WFx B s'.1 ∧ (∀ x ∈ suf, x.1 < s'.1.chans.length) ∧
      s'.1.rwnd = e.rwnd ∧ s'.1.inStreams = e.inStreams) _ ⟨hw, hq0, hr, hi⟩ ?_ ?_
    · intro ⟨i, ppid, data⟩ rest ⟨e2, l2⟩ ⟨hw2, hidx, hr2, hi2⟩
      simp only [wp_bind]
      refine wp_setReady hw2 (hidx (i, ppid, data) (by simp)) (by intro h3; cases h3) ?_
      intro e' l' hw' hf
      simp only [wp_pure, true_and]
      exact ⟨hw', fun x hx => by rw [hf.len]; exact hidx x (by simp [hx]), hf.rwnd.trans hr2, hf.ins.trans hi2⟩
    · intro ⟨e2, l2⟩ ⟨hw2, _, hr2, hi2⟩
      simp only [wp_modE]
      refine hq _ _ ?_ hr2 hi2
      exact hw2.map (fun U hw2 => ⟨hw2.net, hw2.ch.subQ (q' := []) (by simp), hw2.tx, hw2.rx, hw2.rcReq, hw2.rcResp,
        hw2.sack, hw2.ids, hw2.cap, hw2.tm1, hw2.tm2, hw2.tasks, hw2.rcr⟩) rfl

theorem WF.pushRcq {e : Ep} (h : WF U e) {sid : Nat} (hs : sid < 65536) :
    WF U { e with reconfigQueue := e.reconfigQueue ++ [sid] } := by
  refine ⟨h.net, ⟨h.ch.dcIdx, h.ch.dcKeys, h.ch.qIdx, h.ch.qPR, h.ch.qPpid, h.ch.sid, ?_, h.ch.dcLink, h.ch.openId⟩,
    h.tx, h.rx, h.rcReq, h.rcResp, h.sack, h.ids, h.cap, h.tm1, h.tm2, h.tasks, h.rcr⟩
  intro s hs'
  rcases List.mem_append.mp hs' with hs' | hs'
  · exact h.ch.rcq s hs'
  · simp at hs'; subst hs'; exact hs

/-- `_data_channel_close(channel)`. The `KeyError` of `self._data_channels.pop(channel.id)` cannot happen
while the association is established (the stream reset is queued instead). -/
theorem wp_dcClose {A} {i : Nat} {Q : Unit → St → Prop} {e : Ep} {l : List Out} (h : WFx B e)
    (hi : i < e.chans.length) (hk : A "KeyError" ∨ e.assoc = .established)
    (hq : ∀ e' l', WFx B e' → e'.rwnd = e.rwnd → e'.inStreams = e.inStreams → e'.assoc = e.assoc →
      e'.rx = e.rx → e'.chans.length = e.chans.length → Q () (e', l')) :
    wp A (dcClose i) Q (e, l) := by
  obtain ⟨c, hc⟩ := getElem?_of_lt hi
  have hsid : ∀ sid, c.id = some sid → sid < 65536 := by
    obtain ⟨U, _, hw⟩ := h
    exact fun sid hs => hw.ch.sid c (List.mem_of_getElem? hc) sid hs
  unfold dcClose
  simp only [wp_bind, wp_chanGet hc]
  split
  · simp only [wp_bind]
    refine wp_setReady h hi (by intro h2; cases h2) ?_
    intro e1 l1 hw1 hf1
    have hi1 : i < e1.chans.length := by rw [hf1.len]; exact hi
    simp only [wp_getE]
    split
    · rename_i sid hsid'
      have hcid : c.id = some sid := by
        split at hsid'
        · exact hsid'
        · cases hsid'
      have hslt := hsid sid hcid
      simp only [wp_bind, wp_setE]
      have hw2 : WFx B { e1 with reconfigQueue := e1.reconfigQueue ++ [sid] } :=
        hw1.map (fun _ hw => hw.pushRcq hslt) rfl
      split
      · simp only [wp_queueTask]
        exact hq _ _ (hw2.pushTask trivial) hf1.rwnd hf1.ins hf1.assoc hf1.rx hf1.len
      · simp only [wp_pure]
        exact hq _ _ hw2 hf1.rwnd hf1.ins hf1.assoc hf1.rx hf1.len
    · rename_i hnone
      simp only [wp_bind, wp_setE]
      have hw2 : WFx B { e1 with dcQueue := e1.dcQueue.filter fun q => q.1 != i } :=
        hw1.map (fun _ hw => hw.subQ (fun x hx => (List.mem_filter.mp hx).1)) rfl
      split
      · rename_i sid hsid'
        have hnotest : e.assoc ≠ .established := by
          intro hest; rw [hf1.assoc] at hnone; simp [hest, hsid'] at hnone
        have hA : A "KeyError" := hk.resolve_right hnotest
        split
        · simpa using hA
        · simp only [wp_bind, wp_modE]
          refine wp_setReady (hw2.map (fun _ hw => hw.delDc sid) rfl) (by simpa using hi1) (by intro h3; cases h3) ?_
          intro e4 l2 hw4 hf4
          exact hq _ _ hw4 (hf4.rwnd.trans hf1.rwnd) (hf4.ins.trans hf1.ins) (hf4.assoc.trans hf1.assoc)
            (hf4.rx.trans hf1.rx) (hf4.len.trans hf1.len)
      · try simp only [wp_bind, wp_pure]
        refine wp_setReady hw2 (by simpa using hi1) (by intro h3; cases h3) ?_
        intro e4 l2 hw4 hf4
        exact hq _ _ hw4 (hf4.rwnd.trans hf1.rwnd) (hf4.ins.trans hf1.ins) (hf4.assoc.trans hf1.assoc)
          (hf4.rx.trans hf1.rx) (hf4.len.trans hf1.len)
  · simp only [wp_pure]
    exact hq e l h rfl rfl rfl rfl rfl

/-- `_send_reconfig_param(StreamResetResponseParam(...))`. -/
theorem wp_sendReconfigResponse {A} {respSeq : Nat} {Q : Unit → St → Prop} {e : Ep} {l : List Out} (h : WF U e)
    (hr : respSeq < 4294967296) (hq : ∀ l', Q () (e, l')) : wp A (sendReconfigResponse respSeq) Q (e, l) := by
  unfold sendReconfigResponse
  have hser : (RcParam.resetResp respSeq 1).serialize = .ok (RcParam.resetResp respSeq 1).bytes := by
    simp [RcParam.serialize, RcParam.inRange, hr]
  simp only [wp_bind, hser, wp_liftO_ok]
  refine wp_sendChunk h (reconfigChunk_inRange (by decide) ?_) ?_
  · simp [RcParam.bytes, u32be]
  · intro d; exact hq _

theorem wpx_sendChunk {A} {c : Chunk} {Q : Unit → St → Prop} {e : Ep} {l : List Out} (h : WFx B e)
    (hc : c.inRange = true) (hq : ∀ d, Q () (e, l ++ [.tx d])) : wp A (sendChunk c) Q (e, l) := by
  obtain ⟨U, _, hw⟩ := h
  exact wp_sendChunk hw hc hq

theorem wpx_sendReconfigResponse {A} {respSeq : Nat} {Q : Unit → St → Prop} {e : Ep} {l : List Out} (h : WFx B e)
    (hr : respSeq < 4294967296) (hq : ∀ l', Q () (e, l')) : wp A (sendReconfigResponse respSeq) Q (e, l) := by
  obtain ⟨U, _, hw⟩ := h
  exact wp_sendReconfigResponse hw hr hq

theorem wpx_transmitReconfig {A} {Q : Unit → St → Prop} {e : Ep} {l : List Out} (h : WFx B e)
    (hq : ∀ e' l', WFx B e' → DataFrame e e' → Q () (e', l')) : wp A transmitReconfig Q (e, l) := by
  obtain ⟨U, hb, hw⟩ := h
  refine wp_transmitReconfig hw ?_
  intro e' l' hw' hf
  have hre : e'.reactions = e.reactions := by
    obtain ⟨_, _, _, _, _, _, _, _, rfl, _⟩ := hf; rfl
  exact hq e' l' ⟨U, by rw [hre]; exact hb, hw'⟩ hf

theorem wpx_transmit {A} {Q : Unit → St → Prop} {e : Ep} {l : List Out} (h : WFx B e)
    (hq : ∀ tx l', WFx B { e with tx := tx } → Q () ({ e with tx := tx }, l')) : wp A transmit Q (e, l) := by
  obtain ⟨U, hb, hw⟩ := h
  exact wp_transmit hw (fun tx l' hw' => hq tx l' ⟨U, hb, hw'⟩)

/-- `_receive_reconfig_param` (only called while the association is established). -/
theorem wp_receiveReconfigParam {A} {p : RcParam} {Q : Unit → St → Prop} {e : Ep} {l : List Out} (h : WFx B e)
    (ha : Acc 0 e.rwnd e.inStreams) (hso : SidOk e.inStreams) (hp : p.Wired) (hest : e.assoc = .established)
    (hq : ∀ e' l', WFx B e' → Acc 0 e'.rwnd e'.inStreams → SidOk e'.inStreams → e'.assoc = .established →
      Q () (e', l')) :
    wp A (receiveReconfigParam p) Q (e, l) := by
  cases p with
  | resetOut reqSeq respSeq lastTsn streams =>
    obtain ⟨hr1, _, _, hstreams⟩ := hp
    unfold receiveReconfigParam
    simp only [wp_bind, wp_getE]
    split
    · simp only [wp_bind]
      refine wpx_sendReconfigResponse h hr1 ?_
      intro l'; simp only [wp_pure]; exact hq _ _ h ha hso hest
    · simp only [wp_bind, wp_pure, wp_getE]
      split
      · simp only [wp_pure]; exact hq _ _ h ha hso hest
      · split
        · simp only [wp_pure]; exact hq _ _ h ha hso hest
        · simp only [wp_bind, wp_pure]
          refine wp_forIn A streams _ _ (fun _ s' => WFx B s'.1 ∧ Acc 0 s'.1.rwnd s'.1.inStreams ∧
            SidOk s'.1.inStreams ∧ s'.1.assoc = .established) _ ⟨h, ha, hso, hest⟩ ?_ ?_
          · intro sid rest ⟨e1, l1⟩ ⟨hw, hacc, hsok, hest1⟩
            simp only [wp_bind, wp_modE, wp_getE]
            have hw1 : WFx B { e1 with inStreams := dictDel e1.inStreams sid } := hw.setIns _
            split
            · rename_i i hsome
              have hi : i < e1.chans.length := by
                obtain ⟨U, _, hwu⟩ := hw
                exact hwu.ch.dcIdx _ (dictGet_mem hsome)
              simp only [wp_bind]
              refine wp_dcClose hw1 hi (Or.inr hest1) ?_
              intro e2 l2 hw2 hr2 hi2 has2 _ _
              simp only [wp_pure, true_and]
              refine ⟨hw2, ?_, ?_, has2.trans hest1⟩
              · rw [hr2, hi2]; exact hacc.del sid
              · rw [hi2]; exact hsok.del sid
            · simp only [wp_pure, true_and]
              exact ⟨hw1, hacc.del sid, hsok.del sid, hest1⟩
          · intro ⟨e1, l1⟩ ⟨hw, hacc, hsok, hest1⟩
            simp only [wp_modE, wp_bind]
            have hw1 : WFx B { e1 with reconfigResponseSeq := reqSeq } :=
              hw.map (fun _ hw => ⟨hw.net, hw.ch, hw.tx, hw.rx, hw.rcReq, inRange32_ofNat hr1, hw.sack, hw.ids, hw.cap,
                hw.tm1, hw.tm2, hw.tasks, hw.rcr⟩) rfl
            refine wpx_sendReconfigResponse hw1 hr1 ?_
            intro l'; exact hq _ _ hw1 hacc hsok hest1
  | addOut reqSeq cnt =>
    have hr1 : reqSeq < 4294967296 := hp
    unfold receiveReconfigParam
    simp only [wp_bind, wp_modE]
    have hw1 : WFx B { e with inboundCount := e.inboundCount + cnt, reconfigResponseSeq := reqSeq } :=
      h.map (fun _ h => ⟨h.net, h.ch, h.tx, h.rx, h.rcReq, inRange32_ofNat hr1, h.sack, h.ids, h.cap, h.tm1, h.tm2,
        h.tasks, h.rcr⟩) rfl
    refine wpx_sendReconfigResponse hw1 hr1 ?_
    intro l'; exact hq _ _ hw1 ha hso hest
  | resetResp respSeq result =>
    unfold receiveReconfigParam
    simp only [wp_bind, wp_getE]
    split
    · rename_i reqSeq x1 x2 streams hreq
      split
      · simp only [wp_bind]
        refine wp_forIn A streams _ _ (fun _ s' => WFx B s'.1 ∧ s'.1.rwnd = e.rwnd ∧ s'.1.inStreams = e.inStreams ∧
          s'.1.assoc = .established) _ ⟨h, rfl, rfl, hest⟩ ?_ ?_
        · intro sid rest ⟨e1, l1⟩ ⟨hw, hr1, hi1, hest1⟩
          simp only [wp_bind, wp_modE]
          have hw1 : WFx B { e1 with tx := { e1.tx with streamSeq := dictDel e1.tx.streamSeq sid } } :=
            hw.map (fun _ hw => hw.setTx ⟨hw.tx.sent, hw.tx.out, hw.tx.chain, hw.tx.lastE, hw.tx.fs, hw.tx.fwd,
              hw.tx.adv, fun p hp => hw.tx.seq p (List.mem_filter.mp hp).1, hw.tx.tsn⟩) rfl
          refine wp_dcClosed hw1 ?_
          intro e' l' hw' hf
          simp only [wp_pure, true_and]
          exact ⟨hw', hf.rwnd.trans hr1, hf.ins.trans hi1, hf.assoc.trans hest1⟩
        · intro ⟨e1, l1⟩ ⟨hw, hr1, hi1, hest1⟩
          simp only [wp_modE, wp_bind]
          refine wp_rcCancel ?_
          intro l2
          refine wpx_transmitReconfig (e := { e1 with reconfigRequest := none, rcTimer := false })
            (hw.map (fun _ hw => by wf_same2 hw.clearRcr) rfl) ?_
          intro e3 l3 hw3 hf3
          have hr3 := hf3.rwnd
          have hi3 := hf3.ins
          have has3 := hf3.assoc
          refine hq _ _ hw3 ?_ ?_ (has3.trans hest1)
          · rw [hr3, hi3]; simp only; rw [hr1, hi1]; exact ha
          · rw [hi3]; simp only; rw [hi1]; exact hso
      · simp only [wp_pure]; exact hq _ _ h ha hso hest
    · simp only [wp_pure]; exact hq _ _ h ha hso hest

end Aiortc.Sctp.V2
