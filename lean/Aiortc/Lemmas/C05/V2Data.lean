import Aiortc.Lemmas.C05.V2Chan
/-! # V2 (C05c): the data plane (DCEP, DATA, FORWARD-TSN, SACK) under the weaker invariant, with application handlers -/
namespace Aiortc.Sctp.V2
open Aiortc.Gen Aiortc.Sctp.Wire
set_option linter.unusedSimpArgs false
variable {U : List Nat} {B : Nat}

/-- A state change that keeps `WF` for every `U` and does not touch the armed handlers keeps `WFx`. -/
theorem WFx.map {e e' : Ep} (h : WFx B e) (f : ∀ U, WF U e → WF U e') (hr : e'.reactions = e.reactions) :
    WFx B e' := by
  obtain ⟨U, hb, hw⟩ := h
  exact ⟨U, by rw [hr]; exact hb, f U hw⟩

theorem ChansOk.delDc {chans dcs q rcq} (h : ChansOk U chans dcs q rcq) (sid : Nat) :
    ChansOk U chans (dictDel dcs sid) q rcq := by
  refine ⟨?_, ?_, h.qIdx, h.qPR, h.qPpid, h.sid, h.rcq, ?_, h.openId⟩
  · intro p hp; exact h.dcIdx p ((List.mem_filter.mp hp).1)
  · exact h.dcKeys.sublist ((List.filter_sublist).map _)
  · intro p hp; exact h.dcLink p ((List.mem_filter.mp hp).1)

theorem WF.delDc {e : Ep} (h : WF U e) (sid : Nat) : WF U { e with dataChannels := dictDel e.dataChannels sid } :=
  ⟨h.net, h.ch.delDc sid, h.tx, h.rx, h.rcReq, h.rcResp, h.sack, h.ids, h.cap, h.tm1, h.tm2, h.tasks, h.rcr⟩

/-- `_data_channel_closed(stream_id)`: the stream is unregistered, then the `close` handler may run. -/
theorem wp_dcClosed {A} {sid : Nat} {Q : Unit → St → Prop} {e : Ep} {l : List Out} (h : WFx B e)
    (hq : ∀ e' l', WFx B e' → RFrame { e with dataChannels := dictDel e.dataChannels sid } e' → Q () (e', l')) :
    wp A (dcClosed sid) Q (e, l) := by
  unfold dcClosed
  simp only [wp_bind, wp_getE]
  split
  · rename_i hnone
    simp only [wp_pure]
    have := hq e l h (by rw [dictDel_absent hnone]; exact RFrame.refl _)
    exact this
  · rename_i i hsome
    simp only [wp_bind, wp_modE]
    have hi : i < e.chans.length := by
      obtain ⟨U, _, hw⟩ := h
      exact hw.ch.dcIdx _ (dictGet_mem hsome)
    refine wp_setReady (h.map (fun U hw => hw.delDc sid) rfl) hi (by intro h3; cases h3) ?_
    intro e' l' hw hf
    exact hq e' l' hw hf

theorem ChansOk.open {chans dcs q rcq} (h : ChansOk U chans dcs q rcq) {sid : Nat} {c : Chan}
    (hnone : dictGet dcs sid = none) (hs : sid < 65536) (hc : c.id = some sid) (data : Bytes) :
    ChansOk U (chans ++ [c]) (dcs ++ [(sid, chans.length)]) (q ++ [(chans.length, WEBRTC_DCEP, data)]) rcq := by
  refine ⟨?_, ?_, ?_, ?_, ?_, ?_, h.rcq, ?_, ?_⟩
  · intro p hp
    rcases List.mem_append.mp hp with hp | hp
    · have := h.dcIdx p hp; simp; omega
    · simp at hp; subst hp; simp
  · rw [List.map_append, List.nodup_append]
    refine ⟨h.dcKeys, by simp, ?_⟩
    intro a ha b hb
    simp at hb; subst hb
    intro heq; subst heq
    exact dictGet_none hnone ha
  · intro x hx
    rcases List.mem_append.mp hx with hx | hx
    · have := h.qIdx x hx; simp; omega
    · simp at hx; subst hx; simp
  · intro x hx d hd
    rcases List.mem_append.mp hx with hx | hx
    · have hlt := h.qIdx x hx
      rw [List.getElem?_append_left hlt] at hd
      exact h.qPR x hx d hd
    · simp at hx; subst hx; exact Or.inl rfl
  · intro x hx
    rcases List.mem_append.mp hx with hx | hx
    · exact h.qPpid x hx
    · simp at hx; subst hx; simp [WEBRTC_DCEP]
  · intro d hd s hds
    rcases List.mem_append.mp hd with hd | hd
    · exact h.sid d hd s hds
    · simp at hd; subst hd; rw [hc] at hds; cases hds; exact hs
  · intro p hp
    rcases List.mem_append.mp hp with hp | hp
    · obtain ⟨d, hd, hid⟩ := h.dcLink p hp
      exact ⟨d, by rw [List.getElem?_append_left (h.dcIdx p hp)]; exact hd, hid⟩
    · simp at hp; subst hp
      exact ⟨c, by simp, hc⟩
  · intro d hd hr
    rcases List.mem_append.mp hd with hd | hd
    · exact h.openId d hd hr
    · simp at hd; subst hd; exact Or.inr (by rw [hc]; rfl)

/-- `_data_channel_receive`, with the `datachannel` / `open` / `message` handlers of the application. -/
theorem wp_dcReceive {A} {sid ppid : Nat} {data : Bytes} {Q : Unit → St → Prop} {e : Ep} {l : List Out}
    (h : WFx B e) (hs : sid < 65536)
    (hq : ∀ e' l', WFx B e' → DFrame e e' → Q () (e', l')) : wp A (dcReceive sid ppid data) Q (e, l) := by
  have hdone : ∀ l', Q () (e, l') := fun l' => hq e l' h (DFrame.refl _)
  unfold dcReceive
  simp only [wp_bind, wp_getE]
  split
  · split
    · rename_i hopen
      split
      · simpa using hdone l
      · rename_i hnone
        split
        · simpa using hdone l
        · simp only [wp_bind, wp_setE]
          have hnone' : dictGet e.dataChannels sid = none := by
            cases hd : dictGet e.dataChannels sid <;> simp_all
          refine wp_flush (h.map (fun U h => ⟨h.net, h.ch.open hnone' hs rfl _, h.tx, h.rx, h.rcReq, h.rcResp,
            h.sack, h.ids, h.cap, h.tm1, h.tm2, h.tasks, h.rcr⟩) rfl) ?_
          intro e1 l1 hw1 hf1
          have hf0 : DFrame e e1 := by
            obtain ⟨_, _, _, _, _, _, _, _, _, _, rfl, hlen⟩ := hf1
            exact ⟨_, _, _, _, _, _, _, _, _, _, rfl, by simp at hlen; omega⟩
          have hi : e.chans.length < e1.chans.length := by
            obtain ⟨_, _, _, _, _, _, _, _, _, _, rfl, hlen⟩ := hf1
            simp at hlen; exact hlen
          simp only [wp_getE]
          split
          · simp only [wp_bind]
            obtain ⟨c, hc⟩ := getElem?_of_lt hi
            rw [wp_chanGet (c := c) hc]
            obtain ⟨U, hb, hw1⟩ := hw1
            have hw2 := hw1.setChan (c := c) (c' := { c with silent := false }) hc ⟨rfl, rfl, rfl⟩ (fun h' => Or.inl h')
            simp only [wp_chanSet, wp_emit]
            refine wp_react hw2 hb (by simpa using hi) ?_
            intro e2 l2 hw3 hf3
            exact hq e2 l2 hw3 (hf0.trans ((RFrame.trans ⟨_, _, _, _, rfl, by simp⟩ hf3).toD))
          · simp only [wp_pure]
            exact hq _ _ hw1 hf0
    · split
      · split
        · simpa using hdone l
        · rename_i i hsome
          obtain ⟨U, hb, hw⟩ := id h
          have hi := hw.ch.dcIdx _ (dictGet_mem hsome)
          obtain ⟨c, hc⟩ := getElem?_of_lt hi
          obtain ⟨d, hd, hdid⟩ := hw.ch.dcLink _ (dictGet_mem hsome)
          simp only [wp_bind, wp_chanGet hc]
          split
          · refine wp_setReady h hi ?_ ?_
            · intro _ c' hc'
              rw [hd] at hc'; cases hc'
              exact Or.inr (by rw [hdid]; rfl)
            · intro e' l' hw' hf
              exact hq _ _ hw' hf.toD
          · simpa using hdone l
      · simpa using hdone l
  · split
    · simpa using hdone l
    · rename_i i hsome
      obtain ⟨U, hb, hw⟩ := id h
      have hi := hw.ch.dcIdx _ (dictGet_mem hsome)
      obtain ⟨c, hc⟩ := getElem?_of_lt hi
      have hre : ∀ l', wp A (react 3 i) Q (e, l') := fun l' =>
        wp_react hw hb hi (fun e' l'' hw' hf => hq e' l'' hw' hf.toD)
      simp only [wp_bind, wp_chanGet hc]
      repeat' split
      all_goals first | simpa using hdone _ | (simp only [wp_bind, wp_emit]; exact hre _)

/-! ## delivery of reassembled messages -/

/-- `WF` does not read the receive window and the inbound streams. -/
theorem WF.rxFields {e : Ep} (h : WF U e) (rwnd : Int) (ins : List (Nat × InStream)) :
    WF U { e with rwnd := rwnd, inStreams := ins } :=
  ⟨h.net, h.ch, h.tx, h.rx, h.rcReq, h.rcResp, h.sack, h.ids, h.cap, h.tm1, h.tm2, h.tasks, h.rcr⟩

theorem WF.setIns {e : Ep} (h : WF U e) (ins : List (Nat × InStream)) : WF U { e with inStreams := ins } :=
  ⟨h.net, h.ch, h.tx, h.rx, h.rcReq, h.rcResp, h.sack, h.ids, h.cap, h.tm1, h.tm2, h.tasks, h.rcr⟩

theorem WF.setRx {e : Ep} (h : WF U e) {r : Rx} (hr : RxR r) (b : Bool) :
    WF U { e with rx := some r, sackNeeded := b } :=
  ⟨h.net, h.ch, h.tx, ⟨by intro r' hr'; cases hr'; exact hr⟩, h.rcReq, h.rcResp, fun _ => rfl, h.ids, h.cap, h.tm1, h.tm2, h.tasks, h.rcr⟩

theorem WF.rxR {e : Ep} (h : WF U e) {r : Rx} (hr : e.rx = some r) : RxR r := h.rx.rng r hr


theorem WFx.rxFields {e : Ep} (h : WFx B e) (rwnd : Int) (ins : List (Nat × InStream)) :
    WFx B { e with rwnd := rwnd, inStreams := ins } := h.map (fun _ hw => hw.rxFields _ _) rfl

theorem WFx.setIns {e : Ep} (h : WFx B e) (ins : List (Nat × InStream)) : WFx B { e with inStreams := ins } :=
  h.map (fun _ hw => hw.setIns _) rfl

theorem WFx.setRx {e : Ep} (h : WFx B e) {r : Rx} (hr : RxR r) (b : Bool) :
    WFx B { e with rx := some r, sackNeeded := b } := h.map (fun _ hw => hw.setRx hr b) rfl

theorem WFx.rxR {e : Ep} (h : WFx B e) {r : Rx} (hr : e.rx = some r) : RxR r := by
  obtain ⟨U, _, hw⟩ := h; exact hw.rxR hr

theorem WFx.sack {e : Ep} (h : WFx B e) (hs : e.sackNeeded = true) : e.rx.isSome := by
  obtain ⟨U, _, hw⟩ := h; exact hw.sack hs

/-- `for message in …: self._advertised_rwnd += len(message[2]); await self._receive(*message)`. -/
theorem wp_deliver {A} {msgs : List Msg} {Q : Unit → St → Prop} {e : Ep} {l : List Out} (h : WFx B e)
    (ha : Acc (msgsBytes msgs) e.rwnd e.inStreams) (hs : ∀ m ∈ msgs, m.sid < 65536)
    (hq : ∀ e' l', WFx B e' → Acc 0 e'.rwnd e'.inStreams → e'.inStreams = e.inStreams → Q () (e', l')) :
    wp A (deliver msgs) Q (e, l) := by
  unfold deliver
  rw [wp_bind]
  refine wp_forIn A msgs _ _ (fun suf s' => WFx B s'.1 ∧ Acc (msgsBytes suf) s'.1.rwnd s'.1.inStreams ∧
    (∀ m ∈ suf, m.sid < 65536) ∧ s'.1.inStreams = e.inStreams) (e, l) ⟨h, ha, hs, rfl⟩ ?_ ?_
  · intro m rest s' ⟨hw, hacc, hsid, hins⟩
    obtain ⟨e1, l1⟩ := s'
    simp only [wp_bind, wp_modE]
    obtain ⟨h1, h2⟩ := hacc
    refine wp_dcReceive (hw.rxFields _ _) (hsid m (by simp)) ?_
    intro e2 l2 hw2 hf2
    simp only [wp_pure, true_and]
    have hr2 := hf2.rwnd
    have hi2 := hf2.ins
    refine ⟨hw2, ?_, fun x hx => hsid x (by simp [hx]), by rw [hi2]; exact hins⟩
    rw [hr2, hi2]
    refine ⟨?_, h2⟩
    simp only [msgsBytes, List.map_cons, List.sum_cons] at h1 ⊢
    try dsimp only at h1 ⊢
    omega
  · intro s' ⟨hw, hacc, _, hins⟩
    simp only [wp_pure]
    have : Acc 0 s'.1.rwnd s'.1.inStreams := by simpa [msgsBytes] using hacc
    exact hq s'.1 s'.2 hw this hins

/-- `_receive_data_chunk` (after the C05a fix no exception is left); consumes `c.data.length` bytes of slack. -/
theorem wp_receiveData {A} {c : RChunk} {Q : Unit → St → Prop} {e : Ep} {l : List Out}
    (h : WFx B e)
    (hrx : e.rx.isSome = true) (ha : Acc 0 e.rwnd e.inStreams) (hso : SidOk e.inStreams)
    (hc : InRange32 c.tsn) (hsid : c.sid < 65536)
    (hq : ∀ e' l', WFx B e' → Acc 0 e'.rwnd e'.inStreams → SidOk e'.inStreams → Q () (e', l')) :
    wp A (receiveData c) Q (e, l) := by
  obtain ⟨r, hr⟩ := Option.isSome_iff_exists.mp hrx
  unfold receiveData
  simp only [wp_bind, wp_modE, wp_getE, hr, wp_pure, wp_setE]
  have hw1 : WFx B { e with sackNeeded := true, rx := some (markReceived r c.tsn).2 } :=
    (h.setRx (markReceived_range (h.rxR hr) hc) true)
  have ha1 : Acc 0 e.rwnd e.inStreams := ha
  split
  · simp only [wp_pure]
    exact hq _ _ hw1 ha hso
  · simp only [wp_bind]
    refine wp_getInStream (k := 0) (e := { e with sackNeeded := true, rx := some (markReceived r c.tsn).2 }) ha hso ?_
    intro s ins hg hacc hsok
    split
    · simp only [wp_pure]
      exact hq _ _ (hw1.setIns _) hacc hsok
    rename_i hfresh
    rcases addChunk_outcome s c with ⟨s1, h1, hb1⟩ | hcrash
    · obtain ⟨msgs, s2, h2, hb2⟩ := popMessages_ok s1
      have hm1 := addChunk_mem h1
      obtain ⟨hm2, hm3⟩ := popMessages_mem h2
      have hs1 : ∀ x ∈ s1.reasm, x.sid < 65536 := by
        intro x hx
        rcases hm1 x hx with rfl | hx
        · exact hsid
        · exact hsok.get hg x hx
      simp only [h1, h2, wp_liftO_ok, wp_modE, wp_setInStream, wp_bind]
      refine wp_deliver (hw1.rxFields _ _) ?_ ?_ ?_
      · refine hacc.set hg ?_
        simp only [Int.add_zero]
        omega
      · intro m hm
        obtain ⟨x, hx, hxe⟩ := hm3 m hm
        rw [hxe]; exact hs1 x hx
      · intro e' l' hw' ha' hins
        refine hq e' l' hw' ha' ?_
        rw [hins]
        exact hsok.set (fun x hx => hs1 x (hm2 x hx))
    · obtain ⟨s', hs'⟩ := addChunk_ok_of_fresh (by simpa using hfresh)
      rw [hs'] at hcrash; cases hcrash

theorem WF.sackTrue {e : Ep} (h : WF U e) (hrx : e.rx.isSome = true) : WF U { e with sackNeeded := true } :=
  ⟨h.net, h.ch, h.tx, h.rx, h.rcReq, h.rcResp, fun _ => hrx, h.ids, h.cap, h.tm1, h.tm2, h.tasks, h.rcr⟩

/-- `_receive_forward_tsn_chunk`. -/
theorem wp_receiveForwardTsn {A} {cum : Int} {streams : List (Nat × Nat)} {Q : Unit → St → Prop} {e : Ep}
    {l : List Out} (h : WFx B e) (hrx : e.rx.isSome = true) (ha : Acc 0 e.rwnd e.inStreams)
    (hso : SidOk e.inStreams)
    (hc : InRange32 cum) (hsid : ∀ p ∈ streams, p.1 < 65536)
    (hq : ∀ e' l', WFx B e' → Acc 0 e'.rwnd e'.inStreams → SidOk e'.inStreams → Q () (e', l')) :
    wp A (receiveForwardTsn cum streams) Q (e, l) := by
  obtain ⟨r, hr⟩ := Option.isSome_iff_exists.mp hrx
  have hrr := h.rxR hr
  unfold receiveForwardTsn
  simp only [wp_bind, wp_modE, wp_getE, hr, wp_pure]
  split
  · simp only [wp_pure]
    exact hq _ _ (h.setRx hrr true) ha hso
  · simp only [wp_bind, wp_setE, wp_getE]
    have hmis0 : ∀ x ∈ r.mis.filter (fun x => uint32_gt x cum), InRange32 x :=
      fun x hx => hrr.2.1 x (List.mem_filter.mp hx).1
    have hr' : RxR { last := consolidate cum (sortByKey cum (r.mis.filter fun x => uint32_gt x cum))
                     dups := r.dups.filter fun x => uint32_gt x
                       (consolidate cum (sortByKey cum (r.mis.filter fun x => uint32_gt x cum)))
                     mis := (r.mis.filter fun x => uint32_gt x cum).filter fun x => uint32_gt x
                       (consolidate cum (sortByKey cum (r.mis.filter fun x => uint32_gt x cum))) } :=
      ⟨consolidate_sorted_range hc hmis0, fun x hx => hmis0 x (List.mem_filter.mp hx).1,
       fun x hx => hrr.2.2 x (List.mem_filter.mp hx).1⟩
    have hw1 := h.setRx hr' true
    -- first loop: prune
    refine wp_forIn A e.inStreams _ _ (fun suf s' => WFx B s'.1 ∧ Acc 0 s'.1.rwnd s'.1.inStreams ∧
      SidOk s'.1.inStreams ∧ (∀ p ∈ suf, dictGet s'.1.inStreams p.1 = some p.2) ∧ (suf.map (·.1)).Nodup) _
      ⟨hw1, ha, hso, fun p hp => dictGet_of_mem_nodup ha.keys hp, ha.keys⟩ ?_ ?_
    · intro ⟨sid, s⟩ rest ⟨e1, l1⟩ ⟨hw, hacc, hsok, hget, hnd⟩
      have hg : dictGet e1.inStreams sid = some s := hget (sid, s) (by simp)
      simp only [List.map_cons, List.nodup_cons] at hnd
      simp only [wp_bind, wp_setInStream, wp_modE, wp_pure, true_and]
      refine ⟨hw.rxFields _ _, ?_, ?_, ?_, hnd.2⟩
      · refine hacc.set hg ?_
        have := pruneChunks_bytes s cum
        dsimp only
        omega
      · exact hsok.set (fun x hx => hsok.get hg x (pruneChunks_mem s cum x hx))
      · intro p hp
        have hne : p.1 ≠ sid := by
          intro heq; apply hnd.1; rw [← heq]; exact List.mem_map.mpr ⟨p, hp, rfl⟩
        show dictGet (dictSet e1.inStreams sid _) p.1 = some p.2
        rw [dictGet_dictSet_ne _ _ hne]
        exact hget p (by simp [hp])
    · intro ⟨e1, l1⟩ ⟨hw, hacc, hsok, _, _⟩
      -- second loop: advance the streams and deliver
      refine wp_forIn A streams _ _ (fun suf s' => WFx B s'.1 ∧ Acc 0 s'.1.rwnd s'.1.inStreams ∧
        SidOk s'.1.inStreams ∧ (∀ p ∈ suf, p.1 < 65536)) _ ⟨hw, hacc, hsok, hsid⟩ ?_ ?_
      · intro ⟨sid, sseq⟩ rest ⟨e2, l2⟩ ⟨hw2, hacc2, hsok2, hsid2⟩
        simp only [wp_bind]
        refine wp_getInStream (k := 0) hacc2 hsok2 ?_
        intro s ins hg hacc3 hsok3
        obtain ⟨msgs, s2, h2, hb2⟩ := popMessages_ok
          (if uint16_gt (uint16_add sseq 1) s.seq = true then { s with seq := uint16_add sseq 1 } else s)
        obtain ⟨hm2, hm3⟩ := popMessages_mem h2
        have hreasm : (if uint16_gt (uint16_add sseq 1) s.seq = true then { s with seq := uint16_add sseq 1 } else s).reasm
            = s.reasm := by split <;> rfl
        rw [hreasm] at hb2 hm2 hm3
        simp only [h2, wp_liftO_ok, wp_setInStream, wp_bind]
        refine wp_deliver (hw2.setIns _) ?_ ?_ ?_
        · refine hacc3.set hg ?_
          simp only [Int.add_zero]
          omega
        · intro m hm
          obtain ⟨x, hx, hxe⟩ := hm3 m hm
          rw [hxe]; exact hsok3.get hg x hx
        · intro e' l' hw' ha' hins
          simp only [wp_pure, true_and]
          refine ⟨hw', ha', ?_, fun p hp => hsid2 p (by simp [hp])⟩
          rw [hins]
          exact hsok3.set (fun x hx => hsok3.get hg x (hm2 x hx))
      · intro ⟨e2, l2⟩ ⟨hw2, hacc2, hsok2, _⟩
        exact hq _ _ hw2 hacc2 hsok2

/-- `_receive_sack_chunk`. -/
theorem wp_receiveSack {A} {cum : Nat} {gaps : List (Nat × Nat)} {Q : Unit → St → Prop} {e : Ep} {l : List Out}
    (h : WFx B e) (hq : ∀ e' l', WFx B e' → DFrame e e' → Q () (e', l')) :
    wp A (receiveSack cum gaps) Q (e, l) := by
  unfold receiveSack
  simp only [wp_bind, wp_getE]
  split
  · simpa using hq e l h (DFrame.refl _)
  · obtain ⟨U, hb, hw⟩ := id h
    obtain ⟨r, hr, hok⟩ := Tx.receiveSack_ok e.tx hw.tx cum gaps (1000 * e.now)
    simp only [wp_bind, wp_pure, ite_self, hr, wp_liftO_ok]
    cases r with
    | none => simpa using hq e l h (DFrame.refl _)
    | some p =>
      obtain ⟨tx, evs⟩ := p
      obtain ⟨htx, hev⟩ := hok tx evs rfl
      simp only [wp_bind, wp_setE]
      have hw1 : WF U { e with tx := tx } := hw.setTx htx
      refine wp_playTx hw1 hev ?_
      intro l1
      refine wp_flush ⟨U, hb, hw1⟩ ?_
      intro e2 l2 hw2 hf2
      obtain ⟨U2, hb2, hw2⟩ := hw2
      refine wp_transmit hw2 ?_
      intro tx3 l3 hw3
      refine hq _ _ ⟨U2, hb2, hw3⟩ ?_
      exact (DFrame.trans ⟨_, _, _, tx, _, _, _, _, _, _, rfl, Nat.le_refl _⟩ hf2).trans
        ⟨_, _, _, tx3, _, _, _, _, _, _, rfl, Nat.le_refl _⟩

/-- `_send_sack()`. -/
theorem wp_sendSack {A} {Q : Unit → St → Prop} {e : Ep} {l : List Out} (h : WFx B e) (hrx : e.rx.isSome = true)
    (ha : Acc 0 e.rwnd e.inStreams)
    (hq : ∀ r l', WFx B { e with rx := some r, sackNeeded := false } →
      Q () ({ e with rx := some r, sackNeeded := false }, l')) : wp A sendSack Q (e, l) := by
  obtain ⟨r, hr⟩ := Option.isSome_iff_exists.mp hrx
  have hrr := h.rxR hr
  have hrw : e.rwnd ≤ 1048576 := by have := ha.acc; omega
  unfold sendSack
  simp only [wp_bind, wp_getE, hr, wp_pure]
  obtain ⟨U, hb, hw⟩ := id h
  refine wp_sendChunk hw (sack_inRange hrr hrw) ?_
  intro d
  simp only [wp_modE]
  exact hq _ _ (h.setRx (r := { r with dups := [] }) ⟨hrr.1, hrr.2.1, by simp⟩ false)

end Aiortc.Sctp.V2
