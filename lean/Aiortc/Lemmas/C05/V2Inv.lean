import Aiortc.Lemmas.SctpNoCrashInv
import Aiortc.Lemmas.C06.SctpAbandonWire
/-!
# The weaker invariant of the SCTP endpoint automaton (C05c): partial reliability and pending stream ids allowed

`Aiortc.Sctp.WF` (C05a) demands `NoPendingId` (every queued message's channel already has a stream id) and `NoPR`
(nothing partially reliable is queued for sending).  `Aiortc.Sctp.V2.WF U e` drops both and replaces them by

* a PR discipline relative to a fixed set `U` of stream ids (`U.length ≤ 16381`): a chunk / queued message that is
  subject to partial reliability belongs to a stream in `U`; the streams a FORWARD-TSN lists are distinct members
  of `U`, so the chunk fits its 16-bit length (`4 + 4·n + 4 < 65536 ⇔ n ≤ 16381`);
* the structural facts `_maybe_abandon` relies on: adjacent chunks of `sent_queue ++ outbound_queue` either belong
  to the same stream or are a message boundary (E then B), and the last queued chunk ends a message;
* no capacity clause for stream ids any more: since the fix "close a data channel that cannot get a stream id"
  `_data_channel_flush` closes the channel when every id of the local parity below 65536 is taken.

The names shadow the C05a ones inside the namespace `Aiortc.Sctp.V2`.
-/
namespace Aiortc.Sctp.V2
open Aiortc.Gen Aiortc.Sctp.Wire
set_option linter.unusedSimpArgs false

/-! ## send side -/

/-- An outbound chunk fits the wire, and if it is subject to partial reliability its stream is in `U`. -/
def Good (U : List Nat) (c : SChunk) : Prop := c.Wire ∧ (c.Rel ∨ c.sid ∈ U)

/-- Two neighbours of `sent_queue ++ outbound_queue`: a message boundary, or fragments on the same stream. -/
def Link (x y : RChunk) : Prop := (flagE x.flags = true ∧ flagB y.flags = true) ∨ x.sid = y.sid

def Chain : List RChunk → Prop
  | [] => True
  | [_] => True
  | x :: y :: r => Link x y ∧ Chain (y :: r)

/-- The last queued chunk (if any) ends its message. -/
def LastE (l : List RChunk) : Prop := ∀ x, l.getLast? = some x → flagE x.flags = true

/-- A `_forward_tsn_streams` dict: distinct streams of `U`, 16-bit ids and sequence numbers. -/
def FsOk (U : List Nat) (s : List (Nat × Int)) : Prop :=
  (s.map (·.1)).Nodup ∧ ∀ p ∈ s, p.1 ∈ U ∧ p.1 < 65536 ∧ 0 ≤ p.2 ∧ p.2 < 65536

/-- What `playTx` can serialise. -/
def TxEv.Ok (U : List Nat) : TxEv → Prop
  | .data c => c.Wire
  | .fwd cum streams => InRange32 cum ∧ FsOk U streams
  | .t3start => True
  | .t3cancel => True

structure TxOk (U : List Nat) (t : Tx) : Prop where
  sent : ∀ c ∈ t.sentQ, Good U c
  out : ∀ c ∈ t.outQ, Good U c
  chain : Chain (wire (t.sentQ ++ t.outQ))
  lastE : LastE (wire (t.sentQ ++ t.outQ))
  fs : FsOk U t.forwardStreams
  fwd : ∀ cum streams, t.forwardTsn = some (cum, streams) → InRange32 cum ∧ FsOk U streams
  adv : t.forwardNeeded = true → InRange32 t.advAck
  seq : ∀ p ∈ t.streamSeq, 0 ≤ p.2 ∧ p.2 < 65536
  tsn : 0 ≤ t.localTsn ∧ t.localTsn < 4294967296

/-- `TxOk` only reads these fields. -/
theorem TxOk.congr {U : List Nat} {t t' : Tx} (h : TxOk U t) (h1 : t'.sentQ = t.sentQ) (h2 : t'.outQ = t.outQ)
    (h3 : t'.forwardStreams = t.forwardStreams) (h4 : t'.forwardTsn = t.forwardTsn)
    (h5 : t'.forwardNeeded = t.forwardNeeded) (h6 : t'.advAck = t.advAck) (h7 : t'.streamSeq = t.streamSeq)
    (h8 : t'.localTsn = t.localTsn) : TxOk U t' := by
  refine ⟨?_, ?_, ?_, ?_, ?_, ?_, ?_, ?_, ?_⟩
  · rw [h1]; exact h.sent
  · rw [h2]; exact h.out
  · rw [h1, h2]; exact h.chain
  · rw [h1, h2]; exact h.lastE
  · rw [h3]; exact h.fs
  · rw [h4]; exact h.fwd
  · rw [h5, h6]; exact h.adv
  · rw [h7]; exact h.seq
  · rw [h8]; exact h.tsn

/-- A FORWARD-TSN stream list over `U` has at most `U.length` entries. -/
theorem FsOk.length_le {U : List Nat} {s : List (Nat × Int)} (h : FsOk U s) : s.length ≤ U.length := by
  have := List.Nodup.length_le_of_subset h.1 (l₂ := U) (by
    intro k hk
    obtain ⟨p, hp, rfl⟩ := List.mem_map.mp hk
    exact (h.2 p hp).1)
  simpa using this

/-! ## data channels -/

/-- Data channel bookkeeping (no `NoPendingId`; `NoPR` replaced by `qPR`). -/
structure ChansOk (U : List Nat) (chans : List Chan) (dcs : List (Nat × Nat)) (q : List (Nat × Nat × Bytes))
    (rcq : List Nat) : Prop where
  dcIdx : ∀ p ∈ dcs, p.2 < chans.length
  dcKeys : (dcs.map (·.1)).Nodup
  qIdx : ∀ x ∈ q, x.1 < chans.length
  /-- a queued user message of a partially reliable channel: the channel has its id, a stream of `U` -/
  qPR : ∀ x ∈ q, ∀ c, chans[x.1]? = some c → x.2.1 = WEBRTC_DCEP ∨ c.Reliable ∨ ∃ s, c.id = some s ∧ s ∈ U
  qPpid : ∀ x ∈ q, x.2.1 < 4294967296
  sid : ∀ c ∈ chans, ∀ s, c.id = some s → s < 65536
  rcq : ∀ s ∈ rcq, s < 65536
  /-- a registered stream id is the id of the channel object it points to -/
  dcLink : ∀ p ∈ dcs, ∃ c, chans[p.2]? = some c ∧ c.id = some p.1
  /-- an OPEN channel (the only kind an application handler can `send()` on) has its stream id, unless it is reliable
  (a channel opens on the DCEP ACK or at its announcement, both looked up by id; negotiated channels have one) -/
  openId : ∀ c ∈ chans, c.ready = 1 → c.Reliable ∨ c.id.isSome

/-- A stored stream reset request can be serialised again (`_reconfig_timer_expired`). -/
def RcOk (p : Int × Int × Int × List Nat) : Prop :=
  (RcParam.resetOut p.1.toNat p.2.1.toNat p.2.2.1.toNat p.2.2.2).inRange = true ∧ p.2.2.2.length ≤ 135

/-- What a queued task needs to run without raising: a retransmission re-sends something serialisable. -/
def TaskOk : Task → Prop
  | .resend c => c.inRange = true
  | .resendReconfig p => RcOk p
  | _ => True

structure WF (U : List Nat) (e : Ep) : Prop where
  net : NetOk e.localPort e.remotePort e.remoteTag e.localTag e.inboundMax e.outboundCount
  ch : ChansOk U e.chans e.dataChannels e.dcQueue e.reconfigQueue
  tx : TxOk U e.tx
  rx : RxOk e.rx
  rcReq : InRange32 e.reconfigRequestSeq
  rcResp : InRange32 e.reconfigResponseSeq
  sack : e.sackNeeded = true → e.rx.isSome
  /-- `_data_channel_id` was set by `start()` -/
  ids : ∃ s0, e.dcId = some s0 ∧ s0 ≤ 1
  cap : U.length ≤ 16381
  /-- an armed T1 / T2 timer holds the (serialisable) chunk it retransmits -/
  tm1 : e.t1 = true → ∃ c, e.t1Chunk = some c ∧ c.inRange = true
  tm2 : e.t2 = true → ∃ c, e.t2Chunk = some c ∧ c.inRange = true
  tasks : ∀ t ∈ e.tasks, TaskOk t
  rcr : ∀ p, e.reconfigRequest = some p → RcOk p

/-! ## elementary preservation -/

theorem ChansOk.set {U chans dcs q rcq} (h : ChansOk U chans dcs q rcq) {i : Nat} {c c' : Chan}
    (hi : chans[i]? = some c) (hs : Chan.Same c c')
    (ho : c'.ready = 1 → c.ready = 1 ∨ c.Reliable ∨ c.id.isSome) : ChansOk U (chans.set i c') dcs q rcq := by
  obtain ⟨h1, h2, h3⟩ := hs
  have hlt : i < chans.length := by
    rcases Nat.lt_or_ge i chans.length with h | h
    · exact h
    · rw [List.getElem?_eq_none h] at hi; cases hi
  refine ⟨?_, h.dcKeys, ?_, ?_, h.qPpid, ?_, h.rcq, ?_, ?_⟩
  · intro p hp; simpa using h.dcIdx p hp
  · intro x hx; simpa using h.qIdx x hx
  · intro x hx d hd
    rw [List.getElem?_set] at hd
    split at hd
    · rename_i heq
      simp only [hlt, if_true, Option.some.injEq] at hd
      subst hd
      rcases h.qPR x hx c (heq ▸ hi) with h' | h' | ⟨s, hs, hu⟩
      · exact Or.inl h'
      · exact Or.inr (Or.inl ⟨h2 ▸ h'.1, h3 ▸ h'.2⟩)
      · exact Or.inr (Or.inr ⟨s, h1 ▸ hs, hu⟩)
    · exact h.qPR x hx d hd
  · intro d hd s hs
    rcases List.mem_or_eq_of_mem_set hd with hd | rfl
    · exact h.sid d hd s hs
    · exact h.sid c (List.mem_of_getElem? hi) s (h1 ▸ hs)
  · intro p hp
    obtain ⟨d, hd, hid⟩ := h.dcLink p hp
    rw [List.getElem?_set]
    split
    · rename_i heq
      refine ⟨c', by simp [hlt], ?_⟩
      rw [← heq, hi] at hd; cases hd; rw [h1]; exact hid
    · exact ⟨d, hd, hid⟩
  · intro d hd hr
    rcases List.mem_or_eq_of_mem_set hd with hd | rfl
    · exact h.openId d hd hr
    · have hc := h.openId c (List.mem_of_getElem? hi)
      have : c.Reliable ∨ c.id.isSome := by
        rcases ho hr with h' | h'
        · exact hc h'
        · exact h'
      rcases this with h' | h'
      · exact Or.inl ⟨h2 ▸ h'.1, h3 ▸ h'.2⟩
      · exact Or.inr (h1 ▸ h')

theorem WF.setChan {U} {e : Ep} (h : WF U e) {i : Nat} {c c' : Chan} (hi : e.chans[i]? = some c)
    (hs : Chan.Same c c') (ho : c'.ready = 1 → c.ready = 1 ∨ c.Reliable ∨ c.id.isSome) :
    WF U { e with chans := e.chans.set i c' } :=
  ⟨h.net, h.ch.set hi hs ho, h.tx, h.rx, h.rcReq, h.rcResp, h.sack, h.ids, h.cap, h.tm1, h.tm2, h.tasks, h.rcr⟩

theorem WF.setTx {U} {e : Ep} (h : WF U e) {tx : Tx} (ht : TxOk U tx) : WF U { e with tx := tx } :=
  ⟨h.net, h.ch, ht, h.rx, h.rcReq, h.rcResp, h.sack, h.ids, h.cap, h.tm1, h.tm2, h.tasks, h.rcr⟩

theorem WF.pushTask {U} {e : Ep} (h : WF U e) {t : Task} (ht : TaskOk t) :
    WF U { e with tasks := e.tasks ++ [t] } :=
  ⟨h.net, h.ch, h.tx, h.rx, h.rcReq, h.rcResp, h.sack, h.ids, h.cap, h.tm1, h.tm2,
   fun x hx => by
     rcases List.mem_append.mp hx with hx | hx
     · exact h.tasks x hx
     · simp at hx; subst hx; exact ht, h.rcr⟩

theorem WF.t1Off {U} {e : Ep} (h : WF U e) (ch : Option Chunk) : WF U { e with t1 := false, t1Chunk := ch } :=
  ⟨h.net, h.ch, h.tx, h.rx, h.rcReq, h.rcResp, h.sack, h.ids, h.cap, (fun hf => by cases hf), h.tm2,
   h.tasks, h.rcr⟩

theorem WF.t2Off {U} {e : Ep} (h : WF U e) (ch : Option Chunk) : WF U { e with t2 := false, t2Chunk := ch } :=
  ⟨h.net, h.ch, h.tx, h.rx, h.rcReq, h.rcResp, h.sack, h.ids, h.cap, h.tm1, (fun hf => by cases hf),
   h.tasks, h.rcr⟩

theorem WF.t1On {U} {e : Ep} (h : WF U e) {c : Chunk} (hc : c.inRange = true) :
    WF U { e with t1Chunk := some c, t1Failures := 0, t1 := true } :=
  ⟨h.net, h.ch, h.tx, h.rx, h.rcReq, h.rcResp, h.sack, h.ids, h.cap, (fun _ => ⟨c, rfl, hc⟩), h.tm2,
   h.tasks, h.rcr⟩

theorem WF.t2On {U} {e : Ep} (h : WF U e) {c : Chunk} (hc : c.inRange = true) :
    WF U { e with t2Chunk := some c, t2Failures := 0, t2 := true } :=
  ⟨h.net, h.ch, h.tx, h.rx, h.rcReq, h.rcResp, h.sack, h.ids, h.cap, h.tm1, (fun _ => ⟨c, rfl, hc⟩),
   h.tasks, h.rcr⟩

/-- no stream reset request pending any more -/
theorem WF.clearRcr {U} {e : Ep} (h : WF U e) : WF U { e with reconfigRequest := none } :=
  ⟨h.net, h.ch, h.tx, h.rx, h.rcReq, h.rcResp, h.sack, h.ids, h.cap, h.tm1, h.tm2, h.tasks,
   fun p hp => by cases hp⟩

/-! ## the set `U` may grow; budget for it -/

theorem Good.monoU {U U' : List Nat} {c : SChunk} (h : Good U c) (hs : ∀ x ∈ U, x ∈ U') : Good U' c :=
  ⟨h.1, h.2.imp id (hs _)⟩

theorem FsOk.monoU {U U' : List Nat} {s : List (Nat × Int)} (h : FsOk U s) (hs : ∀ x ∈ U, x ∈ U') : FsOk U' s :=
  ⟨h.1, fun p hp => ⟨hs _ (h.2 p hp).1, (h.2 p hp).2⟩⟩

theorem TxOk.monoU {U U' : List Nat} {t : Tx} (h : TxOk U t) (hs : ∀ x ∈ U, x ∈ U') : TxOk U' t :=
  ⟨fun c hc => (h.sent c hc).monoU hs, fun c hc => (h.out c hc).monoU hs, h.chain, h.lastE, h.fs.monoU hs,
   fun cum st hf => ⟨(h.fwd cum st hf).1, (h.fwd cum st hf).2.monoU hs⟩, h.adv, h.seq, h.tsn⟩

theorem ChansOk.monoU {U U' chans dcs q rcq} (h : ChansOk U chans dcs q rcq) (hs : ∀ x ∈ U, x ∈ U') :
    ChansOk U' chans dcs q rcq :=
  ⟨h.dcIdx, h.dcKeys, h.qIdx,
   fun x hx c hc => (h.qPR x hx c hc).imp id (Or.imp id fun ⟨s, h1, h2⟩ => ⟨s, h1, hs s h2⟩),
   h.qPpid, h.sid, h.rcq, h.dcLink, h.openId⟩

theorem WF.monoU {U U' : List Nat} {e : Ep} (h : WF U e) (hs : ∀ x ∈ U, x ∈ U') (hc : U'.length ≤ 16381) : WF U' e :=
  ⟨h.net, h.ch.monoU hs, h.tx.monoU hs, h.rx, h.rcReq, h.rcResp, h.sack, h.ids, hc, h.tm1, h.tm2, h.tasks, h.rcr⟩

/-- The invariant with its capacity: there is a set `U` of streams for partially reliable user messages such that
`|U|` + the number of armed application handlers (each may send once, possibly on a new partially reliable stream)
+ `B` (what the application may still spend on `send()` / arming handlers) does not exceed 16381, the number of
streams a FORWARD-TSN chunk can list. -/
inductive WFx (B : Nat) (e : Ep) : Prop
  | mk (U : List Nat) (hb : U.length + e.reactions.length + B ≤ 16381) (hw : WF U e)

theorem WFx.mono {B B' : Nat} {e : Ep} (h : WFx B e) (hb : B' ≤ B) : WFx B' e := by
  obtain ⟨U, h1, h2⟩ := h
  exact ⟨U, by omega, h2⟩

/-- What an application handler (hence `_setReadyState`, `_addBufferedAmount`) may change: the channel objects (their
number stays), the channel queue, the task queue and the armed handlers. -/
def RFrame (e e' : Ep) : Prop :=
  ∃ cs q ts rs, e' = { e with chans := cs, dcQueue := q, tasks := ts, reactions := rs } ∧
    cs.length = e.chans.length

theorem RFrame.refl (e : Ep) : RFrame e e := ⟨e.chans, e.dcQueue, e.tasks, e.reactions, rfl, rfl⟩

theorem RFrame.trans {a b c : Ep} (h1 : RFrame a b) (h2 : RFrame b c) : RFrame a c := by
  obtain ⟨cs, q, ts, rs, rfl, hl⟩ := h1
  obtain ⟨cs', q', ts', rs', rfl, hl'⟩ := h2
  exact ⟨cs', q', ts', rs', rfl, hl'.trans hl⟩

theorem RFrame.rwnd {e e' : Ep} (h : RFrame e e') : e'.rwnd = e.rwnd := by
  obtain ⟨_, _, _, _, rfl, _⟩ := h; rfl
theorem RFrame.ins {e e' : Ep} (h : RFrame e e') : e'.inStreams = e.inStreams := by
  obtain ⟨_, _, _, _, rfl, _⟩ := h; rfl
theorem RFrame.assoc {e e' : Ep} (h : RFrame e e') : e'.assoc = e.assoc := by
  obtain ⟨_, _, _, _, rfl, _⟩ := h; rfl
theorem RFrame.rx {e e' : Ep} (h : RFrame e e') : e'.rx = e.rx := by
  obtain ⟨_, _, _, _, rfl, _⟩ := h; rfl
theorem RFrame.dcs {e e' : Ep} (h : RFrame e e') : e'.dataChannels = e.dataChannels := by
  obtain ⟨_, _, _, _, rfl, _⟩ := h; rfl
theorem RFrame.len {e e' : Ep} (h : RFrame e e') : e'.chans.length = e.chans.length := by
  obtain ⟨_, _, _, _, rfl, hl⟩ := h; exact hl

/-- `DataFrame` of C05a plus the task queue and the armed handlers. -/
def DFrame (e e' : Ep) : Prop :=
  ∃ cs dcs q tx rq rr rs rt ts re,
    e' = { e with chans := cs, dataChannels := dcs, dcQueue := q, tx := tx, reconfigQueue := rq,
                  reconfigRequest := rr, reconfigRequestSeq := rs, rcTimer := rt, tasks := ts, reactions := re } ∧
    e.chans.length ≤ cs.length

theorem DFrame.refl (e : Ep) : DFrame e e :=
  ⟨_, _, _, _, _, _, _, _, _, _, rfl, Nat.le_refl _⟩

theorem DFrame.trans {a b c : Ep} (h1 : DFrame a b) (h2 : DFrame b c) : DFrame a c := by
  obtain ⟨cs, dcs, q, tx, rq, rr, rs, rt, ts, re, rfl, hl⟩ := h1
  obtain ⟨cs', dcs', q', tx', rq', rr', rs', rt', ts', re', rfl, hl'⟩ := h2
  exact ⟨_, _, _, _, _, _, _, _, _, _, rfl, Nat.le_trans hl hl'⟩

theorem RFrame.toD {e e' : Ep} (h : RFrame e e') : DFrame e e' := by
  obtain ⟨cs, q, ts, rs, rfl, hl⟩ := h
  exact ⟨_, _, _, _, _, _, _, _, _, _, rfl, by omega⟩

theorem DataFrame.toD {e e' : Ep} (h : DataFrame e e') : DFrame e e' := by
  obtain ⟨cs, dcs, q, tx, rq, rr, rs, rt, rfl, hl⟩ := h
  exact ⟨_, _, _, _, _, _, _, _, _, _, rfl, hl⟩

theorem DFrame.rwnd {e e' : Ep} (h : DFrame e e') : e'.rwnd = e.rwnd := by
  obtain ⟨_, _, _, _, _, _, _, _, _, _, rfl, _⟩ := h; rfl
theorem DFrame.ins {e e' : Ep} (h : DFrame e e') : e'.inStreams = e.inStreams := by
  obtain ⟨_, _, _, _, _, _, _, _, _, _, rfl, _⟩ := h; rfl
theorem DFrame.assoc {e e' : Ep} (h : DFrame e e') : e'.assoc = e.assoc := by
  obtain ⟨_, _, _, _, _, _, _, _, _, _, rfl, _⟩ := h; rfl
theorem DFrame.rx {e e' : Ep} (h : DFrame e e') : e'.rx = e.rx := by
  obtain ⟨_, _, _, _, _, _, _, _, _, _, rfl, _⟩ := h; rfl
theorem DFrame.sackNeeded {e e' : Ep} (h : DFrame e e') : e'.sackNeeded = e.sackNeeded := by
  obtain ⟨_, _, _, _, _, _, _, _, _, _, rfl, _⟩ := h; rfl

end Aiortc.Sctp.V2
