import Aiortc.Lemmas.C05.V2Chunk
/-! # V2 (C05c): queued tasks, timers and the application inputs keep the weaker invariant -/
namespace Aiortc.Sctp.V2
open Aiortc.Gen Aiortc.Sctp.Wire
set_option linter.unusedSimpArgs false
variable {U : List Nat}

theorem WF.popTask {e : Ep} (h : WF U e) {t : Task} {rest : List Task} (ht : e.tasks = t :: rest) :
    WF U { e with tasks := rest } ∧ TaskOk t :=
  ⟨⟨h.net, h.ch, h.tx, h.rx, h.rcReq, h.rcResp, h.sack, h.ids, h.cap, h.tm1, h.tm2,
    fun x hx => h.tasks x (by rw [ht]; simp [hx]), h.rcr⟩, h.tasks t (by rw [ht]; simp)⟩

/-- A queued task never raises (what was queued is serialisable: clause `tasks` of the invariant). -/
theorem wp_runTask {A} {Q : Unit → St → Prop} {e : Ep} {l : List Out} (h : WF U e)
    (hq : ∀ e' l', WF U e' → e'.rwnd = e.rwnd → e'.inStreams = e.inStreams → Q () (e', l')) :
    wp A runTask Q (e, l) := by
  unfold runTask
  simp only [wp_bind, wp_getE]
  split
  · simpa using hq e l h rfl rfl
  · rename_i t rest hte
    obtain ⟨hw1, hok⟩ := h.popTask hte
    simp only [wp_bind, wp_setE]
    cases t with
    | flush =>
      refine wp_flush hw1 ?_
      intro e' l' hw' hf
      obtain ⟨cs, dcs, q, tx, _, _, _, _, rfl, _⟩ := hf
      exact hq _ _ hw' rfl rfl
    | transmit =>
      refine wp_transmit hw1 ?_
      intro tx l' hw'
      exact hq _ _ hw' rfl rfl
    | reconfig =>
      refine wp_transmitReconfig hw1 ?_
      intro e' l' hw' hf
      exact hq _ _ hw' hf.rwnd hf.ins
    | resend c =>
      refine wp_sendChunk hw1 hok ?_
      intro d
      exact hq _ _ hw1 rfl rfl
    | resendReconfig p =>
      obtain ⟨hin, hlen⟩ := hok
      simp only [wp_bind, RcParam.serialize, hin, if_true, wp_liftO_ok]
      refine wp_sendChunk hw1 (reconfigChunk_inRange (by decide) ?_) ?_
      · simp only [RcParam.bytes, List.length_append, length_u32be, length_u16sBytes]
        omega
      · intro d
        exact hq _ _ hw1 rfl rfl

/-- T1 expiry of an ARMED timer (`e.t1 = true`: asyncio only calls the handle of a timer that was started). -/
theorem wp_fire_t1 {A} {Q : Unit → St → Prop} {e : Ep} {l : List Out} (h : WF U e) (ht : e.t1 = true)
    (hq : ∀ e' l', WF U e' → e'.rwnd = e.rwnd → e'.inStreams = e.inStreams → Q () (e', l')) :
    wp A (handle (.fire "t1")) Q (e, l) := by
  obtain ⟨c, hcs, hcr⟩ := h.tm1 ht
  have hw0 : WF U { e with t1Failures := e.t1Failures + 1, t1 := false } := by
    have := h.t1Off e.t1Chunk
    wf_same2 this
  simp only [handle, wp_bind, wp_modE, wp_getE]
  split
  · refine wp_setState_closed hw0 ?_
    intro e' l' hw hr hi
    exact hq _ _ hw hr hi
  · simp only [hcs, wp_bind, wp_queueTask, wp_modE, wp_emit]
    refine hq _ _ ?_ rfl rfl
    have h1 := hw0.pushTask (t := .resend c) hcr
    exact ⟨h1.net, h1.ch, h1.tx, h1.rx, h1.rcReq, h1.rcResp, h1.sack, h1.ids, h1.cap,
      (fun _ => ⟨c, rfl, hcr⟩), h1.tm2, h1.tasks, h1.rcr⟩

theorem wp_fire_t2 {A} {Q : Unit → St → Prop} {e : Ep} {l : List Out} (h : WF U e) (ht : e.t2 = true)
    (hq : ∀ e' l', WF U e' → e'.rwnd = e.rwnd → e'.inStreams = e.inStreams → Q () (e', l')) :
    wp A (handle (.fire "t2")) Q (e, l) := by
  obtain ⟨c, hcs, hcr⟩ := h.tm2 ht
  have hw0 : WF U { e with t2Failures := e.t2Failures + 1, t2 := false } := by
    have := h.t2Off e.t2Chunk
    wf_same2 this
  simp only [handle, wp_bind, wp_modE, wp_getE]
  split
  · refine wp_setState_closed hw0 ?_
    intro e' l' hw hr hi
    exact hq _ _ hw hr hi
  · simp only [hcs, wp_bind, wp_queueTask, wp_modE, wp_emit]
    refine hq _ _ ?_ rfl rfl
    have h1 := hw0.pushTask (t := .resend c) hcr
    exact ⟨h1.net, h1.ch, h1.tx, h1.rx, h1.rcReq, h1.rcResp, h1.sack, h1.ids, h1.cap,
      h1.tm1, (fun _ => ⟨c, rfl, hcr⟩), h1.tasks, h1.rcr⟩

theorem wp_fire_reconfig {A} {Q : Unit → St → Prop} {e : Ep} {l : List Out} (h : WF U e)
    (hq : ∀ e' l', WF U e' → e'.rwnd = e.rwnd → e'.inStreams = e.inStreams → Q () (e', l')) :
    wp A (handle (.fire "reconfig")) Q (e, l) := by
  simp only [handle, wp_bind, wp_modE, wp_getE]
  have hw0 : WF U { e with rcTimer := false } := by wf_same2 h
  split
  · rename_i param hp
    split
    · simp only [wp_bind, wp_queueTask]
      refine wp_rcStart ?_
      intro l'
      have h1 := hw0.pushTask (t := .resendReconfig param) (h.rcr param hp)
      exact hq _ _ (by wf_same2 h1) rfl rfl
    · simp only [wp_pure]
      exact hq _ _ hw0 rfl rfl
  · simp only [wp_pure]
    exact hq _ _ hw0 rfl rfl

/-- T3 expiry (`_t3_expired`). -/
theorem wp_fire_t3 {A} {Q : Unit → St → Prop} {e : Ep} {l : List Out} (h : WF U e)
    (hq : ∀ e' l', WF U e' → e'.rwnd = e.rwnd → e'.inStreams = e.inStreams → Q () (e', l')) :
    wp A (handle (.fire "t3")) Q (e, l) := by
  simp only [handle, wp_bind, wp_setE, wp_getE, wp_queueTask]
  exact hq _ _ ((h.setTx (Tx.t3Expired_ok e.tx h.tx (1000 * e.now))).pushTask trivial) rfl rfl

/-! ## application inputs -/

/-- `transport.stop()`. -/
theorem wp_stop {A} {Q : Unit → St → Prop} {e : Ep} {l : List Out} (h : WF U e)
    (hq : ∀ e' l', WF U e' → e'.rwnd = e.rwnd → e'.inStreams = e.inStreams → Q () (e', l')) :
    wp A (handle .stop) Q (e, l) := by
  simp only [handle, wp_bind, wp_getE]
  have hfin : ∀ l1, wp A (setState .closed) Q ({ e with registered := false }, l1) := fun l1 =>
    wp_setState_closed (e := { e with registered := false }) (by wf_same2 h) (fun e' l' hw hr hi => hq _ _ hw hr hi)
  split
  · simp only [wp_bind]
    refine wp_sendChunk (c := .params .abort 0 []) h (by decide) ?_
    intro d
    first | exact hfin _ | (simp only [wp_modE]; exact hfin _)
  · simp only [wp_bind, wp_pure, wp_modE]
    exact hfin _

/-- `channel.bufferedAmountLowThreshold = v` on an existing channel object. -/
theorem wp_threshold {A} {i : Nat} {v : Int} {Q : Unit → St → Prop} {e : Ep} {l : List Out} (h : WF U e)
    (hi : i < e.chans.length)
    (hq : ∀ e' l', WF U e' → e'.rwnd = e.rwnd → e'.inStreams = e.inStreams → Q () (e', l')) :
    wp A (handle (.threshold i v)) Q (e, l) := by
  obtain ⟨c, hc⟩ := getElem?_of_lt hi
  simp only [handle]
  split
  · simp only [wp_emit]; exact hq _ _ h rfl rfl
  · simp only [wp_bind, wp_chanGet hc, wp_chanSet]
    exact hq _ _ (h.setChan hc (c' := { c with threshold := v.toNat }) ⟨rfl, rfl, rfl⟩) rfl rfl

/-- `channel.close()` on an existing channel object; the `KeyError` of `self._data_channels.pop(channel.id)` needs the
channel to be registered when the association is not established (`hreg`). -/
theorem wp_close {A} {i : Nat} {Q : Unit → St → Prop} {e : Ep} {l : List Out} (h : WF U e)
    (hi : i < e.chans.length) (hk : A "KeyError" ∨ e.assoc = .established)
    (hq : ∀ e' l', WF U e' → e'.rwnd = e.rwnd → e'.inStreams = e.inStreams → Q () (e', l')) :
    wp A (handle (.close i)) Q (e, l) := by
  simp only [handle]
  refine wp_dcClose h hi hk ?_
  intro e' l' hw hr hin _ _ _
  exact hq _ _ hw hr hin

theorem ChansOk.pushQ {chans dcs q rcq} (h : ChansOk U chans dcs q rcq) {i ppid : Nat} {data : Bytes}
    (hi : i < chans.length) (hp : ppid < 4294967296)
    (hpr : ∀ c, chans[i]? = some c → ppid = WEBRTC_DCEP ∨ c.Reliable ∨ ∃ s, c.id = some s ∧ s ∈ U) :
    ChansOk U chans dcs (q ++ [(i, ppid, data)]) rcq := by
  refine ⟨h.dcIdx, h.dcKeys, ?_, ?_, ?_, h.sid, h.rcq⟩
  · intro x hx
    rcases List.mem_append.mp hx with hx | hx
    · exact h.qIdx x hx
    · simp at hx; subst hx; exact hi
  · intro x hx c hc
    rcases List.mem_append.mp hx with hx | hx
    · exact h.qPR x hx c hc
    · simp at hx; subst hx; exact hpr c hc
  · intro x hx
    rcases List.mem_append.mp hx with hx | hx
    · exact h.qPpid x hx
    · simp at hx; subst hx; exact hp

theorem WF.pushQ {e : Ep} (h : WF U e) {i ppid : Nat} {data : Bytes}
    (hi : i < e.chans.length) (hp : ppid < 4294967296)
    (hpr : ∀ c, e.chans[i]? = some c → ppid = WEBRTC_DCEP ∨ c.Reliable ∨ ∃ s, c.id = some s ∧ s ∈ U) :
    WF U { e with dcQueue := e.dcQueue ++ [(i, ppid, data)] } :=
  ⟨h.net, h.ch.pushQ hi hp hpr, h.tx, h.rx, h.rcReq, h.rcResp, h.sack, h.ids, h.cap, h.tm1, h.tm2,
   h.tasks, h.rcr⟩

/-- The channel may carry user messages: it is reliable, or its stream is one of `U`. -/
def SendOk (U : List Nat) (e : Ep) (i : Nat) : Prop :=
  ∀ c, e.chans[i]? = some c → c.Reliable ∨ ∃ s, c.id = some s ∧ s ∈ U

/-- `channel.send(data)` on an existing channel object. -/
theorem wp_send {A} {i : Nat} {isStr : Bool} {data : Bytes} {Q : Unit → St → Prop} {e : Ep} {l : List Out}
    (h : WF U e) (hi : i < e.chans.length) (hs : SendOk U e i)
    (hq : ∀ e' l', WF U e' → e'.rwnd = e.rwnd → e'.inStreams = e.inStreams → Q () (e', l')) :
    wp A (handle (.send i isStr data)) Q (e, l) := by
  obtain ⟨c, hc⟩ := getElem?_of_lt hi
  simp only [handle, wp_bind, wp_chanGet hc]
  split
  · simp only [wp_bind, wp_emit, wp_pure]; exact hq _ _ h rfl rfl
  · -- `ud`, `ppid` as computed by `send`
    have key : ∀ (ppid : Nat) (ud : Bytes), ppid < 4294967296 →
        wp A (do addBuffered i ud.length
                 modE fun e => { e with dcQueue := e.dcQueue ++ [(i, ppid, ud)] }
                 queueTask .flush "data_channel_flush") Q (e, l) := by
      intro ppid ud hpp
      unfold addBuffered
      simp only [wp_bind, wp_chanGet hc, wp_chanSet]
      have hw := h.setChan hc (c' := { c with buffered := c.buffered + ud.length }) ⟨rfl, rfl, rfl⟩
      have hw2 := (hw.pushQ (i := i) (ppid := ppid) (data := ud) (by simpa using hi) hpp (by
        intro c' hc'
        have hlt : i < e.chans.length := hi
        simp only [List.getElem?_set, hlt, if_true] at hc'
        cases hc'
        rcases hs c hc with hr | ⟨s, hs1, hs2⟩
        · exact Or.inr (Or.inl hr)
        · exact Or.inr (Or.inr ⟨s, hs1, hs2⟩))).pushTask (t := .flush) trivial
      split
      · simp only [wp_emit, wp_modE, wp_queueTask]; exact hq _ _ hw2 rfl rfl
      · simp only [wp_pure, wp_modE, wp_queueTask]; exact hq _ _ hw2 rfl rfl
    refine key _ _ ?_
    rcases Bool.eq_false_or_eq_true data.isEmpty with h1 | h1 <;>
      rcases Bool.eq_false_or_eq_true isStr with h2 | h2 <;> simp [h1, h2] <;> decide

end Aiortc.Sctp.V2
