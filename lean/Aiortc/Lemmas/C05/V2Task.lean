import Aiortc.Lemmas.C05.V2Chunk
/-! # V2 (C05c): queued tasks, timers and the application inputs keep the weaker invariant -/
namespace Aiortc.Sctp.V2
open Aiortc.Gen Aiortc.Sctp.Wire
set_option linter.unusedSimpArgs false
variable {U : List Nat} {B : Nat}

theorem WF.popTask {e : Ep} (h : WF U e) {t : Task} {rest : List Task} (ht : e.tasks = t :: rest) :
    WF U { e with tasks := rest } ∧ TaskOk t :=
  ⟨⟨h.net, h.ch, h.tx, h.rx, h.rcReq, h.rcResp, h.sack, h.ids, h.cap, h.tm1, h.tm2,
    fun x hx => h.tasks x (by rw [ht]; simp [hx]), h.rcr⟩, h.tasks t (by rw [ht]; simp)⟩

/-- A queued task never raises (what was queued is serialisable: clause `tasks` of the invariant). -/
theorem wp_runTask {A} {Q : Unit → St → Prop} {e : Ep} {l : List Out} (h : WFx B e)
    (hq : ∀ e' l', WFx B e' → e'.rwnd = e.rwnd → e'.inStreams = e.inStreams → Q () (e', l')) :
    wp A runTask Q (e, l) := by
  unfold runTask
  simp only [wp_bind, wp_getE]
  split
  · simpa using hq e l h rfl rfl
  · rename_i t rest hte
    obtain ⟨U, hb, hw⟩ := h
    obtain ⟨hw1, hok⟩ := hw.popTask hte
    have hx1 : WFx B { e with tasks := rest } := ⟨U, hb, hw1⟩
    simp only [wp_bind, wp_setE]
    cases t with
    | flush =>
      refine wp_flush hx1 ?_
      intro e' l' hw' hf
      exact hq _ _ hw' hf.rwnd hf.ins
    | transmit =>
      refine wpx_transmit hx1 ?_
      intro tx l' hw'
      exact hq _ _ hw' rfl rfl
    | reconfig =>
      refine wpx_transmitReconfig hx1 ?_
      intro e' l' hw' hf
      exact hq _ _ hw' hf.rwnd hf.ins
    | resend c =>
      refine wp_sendChunk hw1 hok ?_
      intro d
      exact hq _ _ hx1 rfl rfl
    | resendReconfig p =>
      obtain ⟨hin, hlen⟩ := hok
      simp only [wp_bind, RcParam.serialize, hin, if_true, wp_liftO_ok]
      refine wp_sendChunk hw1 (reconfigChunk_inRange (by decide) ?_) ?_
      · simp only [RcParam.bytes, List.length_append, length_u32be, length_u16sBytes]
        omega
      · intro d
        exact hq _ _ hx1 rfl rfl

/-- T1 expiry of an ARMED timer (`e.t1 = true`: asyncio only calls the handle of a timer that was started). -/
theorem wp_fire_t1 {A} {Q : Unit → St → Prop} {e : Ep} {l : List Out} (h : WFx B e) (ht : e.t1 = true)
    (hq : ∀ e' l', WFx B e' → e'.rwnd = e.rwnd → e'.inStreams = e.inStreams → Q () (e', l')) :
    wp A (handle (.fire "t1")) Q (e, l) := by
  obtain ⟨c, hcs, hcr⟩ : ∃ c, e.t1Chunk = some c ∧ c.inRange = true := by
    obtain ⟨U, _, hw⟩ := h; exact hw.tm1 ht
  have hw0 : WFx B { e with t1Failures := e.t1Failures + 1, t1 := false } := by
    have := h.t1Off e.t1Chunk
    wfx_same this
  simp only [handle, wp_bind, wp_modE, wp_getE]
  split
  · refine wp_setState_closed hw0 ?_
    intro e' l' hw hr hi
    exact hq _ _ hw hr hi
  · simp only [hcs, wp_bind, wp_queueTask, wp_modE, wp_emit]
    refine hq _ _ ?_ rfl rfl
    exact (hw0.pushTask (t := .resend c) hcr).map (fun _ h1 =>
      ⟨h1.net, h1.ch, h1.tx, h1.rx, h1.rcReq, h1.rcResp, h1.sack, h1.ids, h1.cap,
        (fun _ => ⟨c, rfl, hcr⟩), h1.tm2, h1.tasks, h1.rcr⟩) rfl

theorem wp_fire_t2 {A} {Q : Unit → St → Prop} {e : Ep} {l : List Out} (h : WFx B e) (ht : e.t2 = true)
    (hq : ∀ e' l', WFx B e' → e'.rwnd = e.rwnd → e'.inStreams = e.inStreams → Q () (e', l')) :
    wp A (handle (.fire "t2")) Q (e, l) := by
  obtain ⟨c, hcs, hcr⟩ : ∃ c, e.t2Chunk = some c ∧ c.inRange = true := by
    obtain ⟨U, _, hw⟩ := h; exact hw.tm2 ht
  have hw0 : WFx B { e with t2Failures := e.t2Failures + 1, t2 := false } := by
    have := h.t2Off e.t2Chunk
    wfx_same this
  simp only [handle, wp_bind, wp_modE, wp_getE]
  split
  · refine wp_setState_closed hw0 ?_
    intro e' l' hw hr hi
    exact hq _ _ hw hr hi
  · simp only [hcs, wp_bind, wp_queueTask, wp_modE, wp_emit]
    refine hq _ _ ?_ rfl rfl
    exact (hw0.pushTask (t := .resend c) hcr).map (fun _ h1 =>
      ⟨h1.net, h1.ch, h1.tx, h1.rx, h1.rcReq, h1.rcResp, h1.sack, h1.ids, h1.cap,
        h1.tm1, (fun _ => ⟨c, rfl, hcr⟩), h1.tasks, h1.rcr⟩) rfl

theorem wp_fire_reconfig {A} {Q : Unit → St → Prop} {e : Ep} {l : List Out} (h : WFx B e)
    (hq : ∀ e' l', WFx B e' → e'.rwnd = e.rwnd → e'.inStreams = e.inStreams → Q () (e', l')) :
    wp A (handle (.fire "reconfig")) Q (e, l) := by
  simp only [handle, wp_bind, wp_modE, wp_getE]
  have hw0 : WFx B { e with rcTimer := false } := by wfx_same h
  split
  · rename_i param hp
    have hrc : RcOk param := by obtain ⟨U, _, hw⟩ := h; exact hw.rcr param hp
    split
    · simp only [wp_bind, wp_queueTask]
      refine wp_rcStart ?_
      intro l'
      have h1 := hw0.pushTask (t := .resendReconfig param) hrc
      exact hq _ _ (by wfx_same h1) rfl rfl
    · simp only [wp_pure]
      exact hq _ _ hw0 rfl rfl
  · simp only [wp_pure]
    exact hq _ _ hw0 rfl rfl

/-- T3 expiry (`_t3_expired`). -/
theorem wp_fire_t3 {A} {Q : Unit → St → Prop} {e : Ep} {l : List Out} (h : WFx B e)
    (hq : ∀ e' l', WFx B e' → e'.rwnd = e.rwnd → e'.inStreams = e.inStreams → Q () (e', l')) :
    wp A (handle (.fire "t3")) Q (e, l) := by
  simp only [handle, wp_bind, wp_setE, wp_getE, wp_queueTask]
  exact hq _ _ ((h.map (fun _ hw => hw.setTx (Tx.t3Expired_ok e.tx hw.tx (1000 * e.now))) rfl).pushTask trivial)
    rfl rfl

/-! ## application inputs -/

/-- `transport.stop()`. -/
theorem wp_stop {A} {Q : Unit → St → Prop} {e : Ep} {l : List Out} (h : WFx B e)
    (hq : ∀ e' l', WFx B e' → e'.rwnd = e.rwnd → e'.inStreams = e.inStreams → Q () (e', l')) :
    wp A (handle .stop) Q (e, l) := by
  simp only [handle, wp_bind, wp_getE]
  have hfin : ∀ l1, wp A (setState .closed) Q ({ e with registered := false }, l1) := fun l1 =>
    wp_setState_closed (e := { e with registered := false }) (by wfx_same h) (fun e' l' hw hr hi => hq _ _ hw hr hi)
  split
  · simp only [wp_bind]
    refine wpx_sendChunk (c := .params .abort 0 []) h (by decide) ?_
    intro d
    first | exact hfin _ | (simp only [wp_modE]; exact hfin _)
  · simp only [wp_bind, wp_pure, wp_modE]
    exact hfin _

/-- `channel.bufferedAmountLowThreshold = v` on an existing channel object. -/
theorem wp_threshold {A} {i : Nat} {v : Int} {Q : Unit → St → Prop} {e : Ep} {l : List Out} (h : WFx B e)
    (hi : i < e.chans.length)
    (hq : ∀ e' l', WFx B e' → e'.rwnd = e.rwnd → e'.inStreams = e.inStreams → Q () (e', l')) :
    wp A (handle (.threshold i v)) Q (e, l) := by
  obtain ⟨c, hc⟩ := getElem?_of_lt hi
  simp only [handle]
  split
  · simp only [wp_emit]; exact hq _ _ h rfl rfl
  · simp only [wp_bind, wp_chanGet hc, wp_chanSet]
    exact hq _ _ (h.map (fun _ hw => hw.setChan hc (c' := { c with threshold := v.toNat }) ⟨rfl, rfl, rfl⟩
      (fun h' => Or.inl h')) rfl) rfl rfl

/-- `channel.close()` on an existing channel object; the `KeyError` of `self._data_channels.pop(channel.id)` needs the
channel to be registered when the association is not established. -/
theorem wp_close {A} {i : Nat} {Q : Unit → St → Prop} {e : Ep} {l : List Out} (h : WFx B e)
    (hi : i < e.chans.length) (hk : A "KeyError" ∨ e.assoc = .established)
    (hq : ∀ e' l', WFx B e' → e'.rwnd = e.rwnd → e'.inStreams = e.inStreams → Q () (e', l')) :
    wp A (handle (.close i)) Q (e, l) := by
  simp only [handle]
  refine wp_dcClose h hi hk ?_
  intro e' l' hw hr hin _ _ _
  exact hq _ _ hw hr hin

/-- `channel.send(data)` on an existing channel object: `InvalidStateError` unless it is open; one unit of the budget. -/
theorem wp_send {A} {i : Nat} {isStr : Bool} {data : Bytes} {Q : Unit → St → Prop} {e : Ep} {l : List Out}
    (h : WFx (B + 1) e) (hi : i < e.chans.length)
    (hq : ∀ e' l', WFx B e' → e'.rwnd = e.rwnd → e'.inStreams = e.inStreams → Q () (e', l')) :
    wp A (handle (.send i isStr data)) Q (e, l) := by
  obtain ⟨c, hc⟩ := getElem?_of_lt hi
  simp only [handle, wp_bind, wp_chanGet hc]
  split
  · simp only [wp_bind, wp_emit, wp_pure]; exact hq _ _ (h.mono (by omega)) rfl rfl
  · rename_i hr
    have hr1 : c.ready = 1 := by
      rcases Nat.decEq c.ready 1 with h' | h'
      · exact absurd h' hr
      · exact h'
    obtain ⟨U, hb, hw⟩ := h
    try simp only [wp_pure]
    refine wp_dcSend (B := B) hw hb hc hr1 ?_
    intro e' l' hw' hf
    exact hq e' l' hw' hf.rwnd hf.ins

/-- The application arms a one-shot handler (any kind, any channel index): one unit of the budget. -/
theorem wp_arm {A} {k i : Nat} {isStr : Bool} {data : Bytes} {Q : Unit → St → Prop} {e : Ep} {l : List Out}
    (h : WFx (B + 1) e)
    (hq : ∀ e' l', WFx B e' → e'.rwnd = e.rwnd → e'.inStreams = e.inStreams → Q () (e', l')) :
    wp A (handle (.react k i isStr data)) Q (e, l) := by
  obtain ⟨U, hb, hw⟩ := h
  simp only [handle, wp_modE]
  refine hq _ _ ⟨U, ?_, hw.setReactions _⟩ rfl rfl
  simp only [List.length_append, List.length_singleton]; omega

end Aiortc.Sctp.V2
