import Aiortc.Lemmas.C05.V2TxSack
/-!
# Send side under the weaker invariant (C05c): `_transmit`, `_send`

Together with `V2TxSack` (`Tx.t3Expired_ok`, `Tx.receiveSack_ok`) the four preservation theorems of `V2.TxOk`.
-/
namespace Aiortc.Sctp.V2
open Aiortc.Gen
variable {U : List Nat}

/-! ## `_transmit` -/

private theorem rtxLoop_ok (cwnd : Nat) : ∀ (l : List SChunk) (st : RtxSt),
    (∀ c ∈ st.done, Good U c) → (∀ c ∈ l, Good U c) → (∀ ev ∈ st.evs, TxEv.Ok U ev) →
    (∀ c ∈ (rtxLoop cwnd st l).1.done, Good U c) ∧ (∀ c ∈ (rtxLoop cwnd st l).2, Good U c) ∧
      (∀ ev ∈ (rtxLoop cwnd st l).1.evs, TxEv.Ok U ev) ∧
      wire ((rtxLoop cwnd st l).1.done.reverse ++ (rtxLoop cwnd st l).2) = wire (st.done.reverse ++ l) := by
  intro l
  induction l with
  | nil => intro st hd hl he; exact ⟨hd, hl, he, rfl⟩
  | cons a l ih =>
    intro st hd hl he
    have hga : Good U a := hl a (by simp)
    have hl' : ∀ c ∈ l, Good U c := fun c hc => hl c (by simp [hc])
    unfold rtxLoop
    split
    · split
      · exact ⟨hd, hl, he, rfl⟩
      · have hb1 := v2_incFlight_bk st.flight a
        generalize incFlight st.flight a = p at hb1 ⊢
        obtain ⟨fl, c1⟩ := p
        dsimp only at hb1 ⊢
        have hb2 : Bk a { c1 with misses := 0, retransmit := false, sentCount := c1.sentCount + 1 } :=
          hb1.trans ⟨rfl, rfl, rfl, rfl⟩
        have hg2 := hga.bk hb2
        have hdone : ∀ c ∈ { c1 with misses := 0, retransmit := false, sentCount := c1.sentCount + 1 } :: st.done,
            Good U c := by
          intro c hc
          rcases List.mem_cons.1 hc with rfl | hc
          · exact hg2
          · exact hd c hc
        have hwire : wire (({ c1 with misses := 0, retransmit := false, sentCount := c1.sentCount + 1 }
            :: st.done).reverse ++ l) = wire (st.done.reverse ++ a :: l) := by
          simp only [List.reverse_cons, List.append_assoc, List.singleton_append, wire_append, v2_wire_cons, hb2.1]
        have key : ∀ st' : RtxSt, (∀ c ∈ st'.done, Good U c) → (∀ ev ∈ st'.evs, TxEv.Ok U ev) →
            wire (st'.done.reverse ++ l) = wire (st.done.reverse ++ a :: l) →
            (∀ c ∈ (rtxLoop cwnd st' l).1.done, Good U c) ∧ (∀ c ∈ (rtxLoop cwnd st' l).2, Good U c) ∧
            (∀ ev ∈ (rtxLoop cwnd st' l).1.evs, TxEv.Ok U ev) ∧
            wire ((rtxLoop cwnd st' l).1.done.reverse ++ (rtxLoop cwnd st' l).2) = wire (st.done.reverse ++ a :: l) :=
          fun st' h1 h2 h3 => ⟨(ih st' h1 hl' h2).1, (ih st' h1 hl' h2).2.1, (ih st' h1 hl' h2).2.2.1,
            (ih st' h1 hl' h2).2.2.2.trans h3⟩
        cases hE : st.earliest
        · simp only [Bool.false_eq_true, if_false]
          refine key _ hdone ?_ hwire
          intro ev hev
          rcases List.mem_cons.1 hev with rfl | hev
          · exact hg2.1
          · exact he ev hev
        · simp only [if_true]
          refine key _ hdone ?_ hwire
          intro ev hev
          simp only [List.mem_append, List.mem_reverse, List.mem_cons] at hev
          rcases hev with hev | rfl | hev
          · exact v2_t3Restart_ok _ ev hev
          · exact hg2.1
          · exact he ev hev
    · have := ih ⟨st.flight, st.frt, st.t3, false, a :: st.done, st.evs, st.ret⟩
        (by
          intro c hc
          rcases List.mem_cons.1 hc with rfl | hc
          · exact hga
          · exact hd c hc) hl' he
      refine ⟨this.1, this.2.1, this.2.2.1, this.2.2.2.trans ?_⟩
      simp only [List.reverse_cons, List.append_assoc, List.singleton_append]

private theorem newLoop_ok (cwnd : Nat) : ∀ (fuel fl : Nat) (t3 : Bool) (outQ sent : List SChunk) (evs : List TxEv),
    (∀ c ∈ outQ, Good U c) → (∀ c ∈ sent, Good U c) → (∀ ev ∈ evs, TxEv.Ok U ev) →
    (∀ c ∈ (newLoop cwnd fuel fl t3 outQ sent evs).2.2.1, Good U c) ∧
    (∀ c ∈ (newLoop cwnd fuel fl t3 outQ sent evs).2.2.2.1, Good U c) ∧
    (∀ ev ∈ (newLoop cwnd fuel fl t3 outQ sent evs).2.2.2.2, TxEv.Ok U ev) ∧
    wire ((newLoop cwnd fuel fl t3 outQ sent evs).2.2.2.1 ++ (newLoop cwnd fuel fl t3 outQ sent evs).2.2.1)
      = wire (sent ++ outQ) := by
  intro fuel
  induction fuel with
  | zero => intro fl t3 outQ sent evs ho hs he; exact ⟨ho, hs, he, rfl⟩
  | succ fuel ih =>
    intro fl t3 outQ sent evs ho hs he
    cases outQ with
    | nil => exact ⟨ho, hs, he, rfl⟩
    | cons a outQ =>
      have hga : Good U a := ho a (by simp)
      have ho' : ∀ c ∈ outQ, Good U c := fun c hc => ho c (by simp [hc])
      unfold newLoop
      split
      · have hb1 := v2_incFlight_bk fl a
        generalize incFlight fl a = p at hb1 ⊢
        obtain ⟨fl', c1⟩ := p
        dsimp only at hb1 ⊢
        have hb2 : Bk a { c1 with sentCount := c1.sentCount + 1 } := hb1.trans ⟨rfl, rfl, rfl, rfl⟩
        have hg2 := hga.bk hb2
        have := ih fl' true outQ (sent ++ [{ c1 with sentCount := c1.sentCount + 1 }])
          (evs ++ [TxEv.data (SChunk.toR { c1 with sentCount := c1.sentCount + 1 })] ++
            (if t3 = true then [] else [TxEv.t3start])) ho'
          (by
            intro c hc
            simp only [List.mem_append, List.mem_singleton] at hc
            rcases hc with hc | rfl
            · exact hs c hc
            · exact hg2)
          (by
            intro ev hev
            simp only [List.mem_append, List.mem_singleton] at hev
            rcases hev with (hev | rfl) | hev
            · exact he ev hev
            · exact hg2.1
            · cases t3
              · simp only [Bool.false_eq_true, if_false, List.mem_singleton] at hev; subst hev; trivial
              · simp at hev)
        refine ⟨this.1, this.2.1, this.2.2.1, this.2.2.2.trans ?_⟩
        simp only [List.append_assoc, List.singleton_append, wire_append, v2_wire_cons, hb2.1]
      · exact ⟨ho, hs, he, rfl⟩

/-- `_transmit` after the FORWARD-TSN part. -/
private def txCore (cwnd : Nat) (t : Tx) (evs0 : List TxEv) : Tx × List TxEv :=
  let (st, rest) := rtxLoop cwnd { flight := t.flight, frt := t.fastRecoveryTransmit, t3 := t.t3,
                                   earliest := true, done := [], evs := [] } t.sentQ
  let sent := st.done.reverse ++ rest
  let t := { t with flight := st.flight, fastRecoveryTransmit := st.frt, t3 := st.t3, sentQ := sent }
  let evs1 := evs0 ++ st.evs.reverse
  if st.ret then (t, evs1)
  else
    let (fl, t3, outQ, sent', evs2) := newLoop cwnd (t.outQ.length + 1) t.flight t.t3 t.outQ t.sentQ evs1
    ({ t with flight := fl, t3 := t3, outQ := outQ, sentQ := sent' }, evs2)

private theorem transmit_none (t : Tx) (hf : t.forwardTsn = none) :
    t.transmit =
      txCore (min (t.flight + if t.fastRecoveryExit.isSome then 2 * USERDATA_MAX else 4 * USERDATA_MAX) t.cwnd)
        t [] := by
  unfold Tx.transmit
  rw [hf]
  rfl

private theorem transmit_some (t : Tx) (cum : Int) (streams : List (Nat × Int))
    (hf : t.forwardTsn = some (cum, streams)) :
    t.transmit =
      txCore (min (t.flight + if t.fastRecoveryExit.isSome then 2 * USERDATA_MAX else 4 * USERDATA_MAX) t.cwnd)
        { t with forwardTsn := none, t3 := true }
        ([TxEv.fwd cum streams] ++ (if t.t3 then [] else [TxEv.t3start])) := by
  unfold Tx.transmit
  rw [hf]
  rfl

private theorem txCore_ok (cwnd : Nat) (t : Tx) (h : TxOk U t) (evs0 : List TxEv) (h0 : ∀ ev ∈ evs0, TxEv.Ok U ev) :
    TxOk U (txCore cwnd t evs0).1 ∧ ∀ ev ∈ (txCore cwnd t evs0).2, TxEv.Ok U ev := by
  unfold txCore
  have hr := rtxLoop_ok (U := U) cwnd t.sentQ
    { flight := t.flight, frt := t.fastRecoveryTransmit, t3 := t.t3, earliest := true, done := [], evs := [] }
    (by simp) h.sent (by simp)
  generalize rtxLoop cwnd
    { flight := t.flight, frt := t.fastRecoveryTransmit, t3 := t.t3, earliest := true, done := [], evs := [] }
    t.sentQ = r at hr ⊢
  obtain ⟨st, rest⟩ := r
  obtain ⟨hd, hrest, he, hw⟩ := hr
  simp only [List.reverse_nil, List.nil_append] at hd hrest he hw ⊢
  have hsent : ∀ c ∈ st.done.reverse ++ rest, Good U c := by
    intro c hc
    simp only [List.mem_append, List.mem_reverse] at hc
    rcases hc with hc | hc
    · exact hd c hc
    · exact hrest c hc
  have h1 : TxOk U { t with flight := st.flight, fastRecoveryTransmit := st.frt, t3 := st.t3,
                            sentQ := st.done.reverse ++ rest } :=
    h.v2_sent hsent hw rfl rfl rfl rfl rfl rfl rfl
  have he1 : ∀ ev ∈ evs0 ++ st.evs.reverse, TxEv.Ok U ev := by
    intro ev hev
    simp only [List.mem_append, List.mem_reverse] at hev
    rcases hev with hev | hev
    · exact h0 ev hev
    · exact he ev hev
  split
  · exact ⟨h1, he1⟩
  · have hn := newLoop_ok (U := U) cwnd (t.outQ.length + 1) st.flight st.t3 t.outQ (st.done.reverse ++ rest)
      (evs0 ++ st.evs.reverse) h.out hsent he1
    generalize newLoop cwnd (t.outQ.length + 1) st.flight st.t3 t.outQ (st.done.reverse ++ rest)
      (evs0 ++ st.evs.reverse) = r at hn ⊢
    obtain ⟨fl, t3, outQ, sent', evs2⟩ := r
    dsimp only at hn ⊢
    exact ⟨h1.v2_same hn.2.1 hn.1 hn.2.2.2 rfl rfl rfl rfl rfl rfl, hn.2.2.1⟩

theorem Tx.transmit_ok (t : Tx) (h : TxOk U t) : TxOk U t.transmit.1 ∧ ∀ ev ∈ t.transmit.2, TxEv.Ok U ev := by
  cases hf : t.forwardTsn with
  | none => rw [transmit_none t hf]; exact txCore_ok _ t h [] (by simp)
  | some p =>
    obtain ⟨cum, streams⟩ := p
    rw [transmit_some t cum streams hf]
    apply txCore_ok
    · exact ⟨h.sent, h.out, h.chain, h.lastE, h.fs, (by intro _ _ h'; cases h'), h.adv, h.seq, h.tsn⟩
    · intro ev hev
      simp only [List.mem_append, List.mem_singleton] at hev
      rcases hev with rfl | hev
      · exact h.fwd cum streams hf
      · cases ht : t.t3
        · simp only [ht, Bool.false_eq_true, if_false, List.mem_singleton] at hev; subst hev; trivial
        · simp [ht] at hev

/-! ## `_send` -/

private theorem txGet_mem {d : List (Nat × Int)} {k : Nat} {v : Int} (h : dictGet d k = some v) :
    ∃ p ∈ d, p.2 = v := by
  unfold dictGet at h
  cases hf : d.find? (·.1 == k) with
  | none => simp [hf] at h
  | some p =>
    simp only [hf, Option.map_some, Option.some.injEq] at h
    exact ⟨p, List.mem_of_find?_eq_some hf, h⟩

private theorem txSet_mem (d : List (Nat × Int)) (k : Nat) (v : Int) :
    ∀ p ∈ dictSet d k v, p ∈ d ∨ p = (k, v) := by
  intro p hp
  unfold dictSet at hp
  split at hp
  · simp only [List.mem_map] at hp
    obtain ⟨e, he, rfl⟩ := hp
    split
    · exact Or.inr rfl
    · exact Or.inl he
  · simp only [List.mem_append, List.mem_singleton] at hp
    exact hp

/-- flags of fragment `i` of `n`. -/
private def ffl (ordered : Bool) (n i : Nat) : Nat :=
  let f0 := if ordered then 0 else SCTP_DATA_UNORDERED
  let f1 := if i = 0 then f0 + SCTP_DATA_FIRST_FRAG else f0
  if i = n - 1 then f1 + SCTP_DATA_LAST_FRAG else f1

private def ff3 (o z l : Bool) : Nat := (if o then 0 else 4) + (if z then 2 else 0) + (if l then 1 else 0)

private theorem ffl_eq (ordered : Bool) (n i : Nat) :
    ffl ordered n i = ff3 ordered (decide (i = 0)) (decide (i = n - 1)) := by
  unfold ffl ff3
  simp only [SCTP_DATA_UNORDERED, SCTP_DATA_FIRST_FRAG, SCTP_DATA_LAST_FRAG, decide_eq_true_eq]
  split <;> split <;> split <;> rfl

private theorem ffl_lt (ordered : Bool) (n i : Nat) : ffl ordered n i < 256 := by
  rw [ffl_eq]
  cases ordered <;> cases decide (i = 0) <;> cases decide (i = n - 1) <;> decide

private theorem ffl_B (ordered : Bool) (n : Nat) : flagB (ffl ordered n 0) = true := by
  rw [ffl_eq, decide_eq_true (rfl : (0 : Nat) = 0)]
  cases ordered <;> cases decide (0 = n - 1) <;> rfl

private theorem ffl_E (ordered : Bool) (n i : Nat) (hi : i = n - 1) : flagE (ffl ordered n i) = true := by
  rw [ffl_eq, decide_eq_true hi]
  cases ordered <;> cases decide (i = 0) <;> rfl

section frag
variable (tsn : Int) (sid : Nat) (ssn : Int) (ppid : Nat) (ordered : Bool) (expiry maxRtx : Option Int) (n : Nat)
  (data : Bytes)

private theorem fragments_succ' (k : Nat) :
    fragments tsn sid ssn ppid ordered expiry maxRtx n data (k + 1) =
      { tsn := (tsn + ((n - (k + 1) : Nat) : Int)) % 4294967296, sid := sid, ssn := ssn, ppid := ppid,
        flags := ffl ordered n (n - (k + 1)),
        data := (data.drop ((n - (k + 1)) * USERDATA_MAX)).take USERDATA_MAX,
        bookSize := ((data.drop ((n - (k + 1)) * USERDATA_MAX)).take USERDATA_MAX).length,
        expiry := expiry, maxRetransmits := maxRtx }
      :: fragments tsn sid ssn ppid ordered expiry maxRtx n data k := by
  rw [fragments]; rfl

private theorem fragments_good (hs : sid < 65536) (hss : 0 ≤ ssn ∧ ssn < 65536) (hp : ppid < 4294967296)
    (hpr : (expiry = none ∧ maxRtx = none) ∨ sid ∈ U) :
    ∀ k, ∀ c ∈ fragments tsn sid ssn ppid ordered expiry maxRtx n data k, Good U c ∧ c.sid = sid := by
  intro k
  induction k with
  | zero => intro c hc; simp [fragments] at hc
  | succ k ih =>
    intro c hc
    rw [fragments_succ'] at hc
    rcases List.mem_cons.1 hc with rfl | hc
    · refine ⟨⟨⟨ffl_lt _ _ _, ?_, ?_, hs, hss.1, hss.2, hp, ?_⟩, ?_⟩, rfl⟩
      · exact Int.emod_nonneg _ (by decide)
      · exact Int.emod_lt_of_pos _ (by decide)
      · simp only [List.length_take, USERDATA_MAX, USERDATA_MAX_LENGTH]
        omega
      · rcases hpr with ⟨h1, h2⟩ | hu
        · exact Or.inl ⟨h1, h2, rfl⟩
        · exact Or.inr hu
    · exact ih c hc

private theorem fragments_headB :
    ∀ y, (fragments tsn sid ssn ppid ordered expiry maxRtx n data n).head? = some y → flagB y.flags = true := by
  intro y hy
  cases n with
  | zero => simp [fragments] at hy
  | succ m =>
    rw [fragments_succ'] at hy
    simp only [List.head?_cons, Option.some.injEq] at hy
    subst hy
    simp only [Nat.sub_self]
    exact ffl_B _ _

private theorem fragments_lastE : ∀ k, k ≤ n →
    ∀ x, (fragments tsn sid ssn ppid ordered expiry maxRtx n data k).getLast? = some x → flagE x.flags = true := by
  intro k
  induction k with
  | zero => intro _ x hx; simp [fragments] at hx
  | succ k ih =>
    intro hk x hx
    cases k with
    | zero =>
      rw [fragments_succ'] at hx
      simp only [fragments, List.getLast?_singleton, Option.some.injEq] at hx
      subst hx
      exact ffl_E _ _ _ rfl
    | succ k =>
      rw [fragments_succ', fragments_succ', List.getLast?_cons_cons, ← fragments_succ'] at hx
      exact ih (by omega) x hx

end frag

theorem Tx.enqueue_ok (t : Tx) (h : TxOk U t) (sid ppid : Nat) (data : Bytes) (expiry maxRtx : Option Int) (ordered : Bool)
    (hs : sid < 65536) (hp : ppid < 4294967296) (hpr : (expiry = none ∧ maxRtx = none) ∨ sid ∈ U) :
    TxOk U (t.enqueue sid ppid data expiry maxRtx ordered) := by
  have hss : 0 ≤ (if ordered = true then (dictGet t.streamSeq sid).getD 0 else (0 : Int)) ∧
      (if ordered = true then (dictGet t.streamSeq sid).getD 0 else (0 : Int)) < 65536 := by
    split
    · cases hg : dictGet t.streamSeq sid with
      | none => simp
      | some v =>
        obtain ⟨p, hp, rfl⟩ := txGet_mem hg
        exact h.seq p hp
    · simp
  unfold Tx.enqueue
  dsimp only
  generalize (if ordered = true then (dictGet t.streamSeq sid).getD 0 else (0 : Int)) = ssn at hss ⊢
  have hg := fragments_good (U := U) t.localTsn sid ssn ppid ordered expiry maxRtx (fragCount data.length) data
    hs hss hp hpr (fragCount data.length)
  have hB := fragments_headB t.localTsn sid ssn ppid ordered expiry maxRtx (fragCount data.length) data
  have hE := fragments_lastE t.localTsn sid ssn ppid ordered expiry maxRtx (fragCount data.length) data
    (fragCount data.length) (Nat.le_refl _)
  generalize fragments t.localTsn sid ssn ppid ordered expiry maxRtx (fragCount data.length) data
    (fragCount data.length) = chunks at hg hB hE ⊢
  have hwe : wire (t.sentQ ++ (t.outQ ++ chunks)) = wire (t.sentQ ++ t.outQ) ++ wire chunks := by
    rw [← List.append_assoc, wire_append]
  refine ⟨h.sent, ?_, ?_, ?_, h.fs, h.fwd, h.adv, ?_, ?_⟩
  · intro c hc
    rcases List.mem_append.1 hc with hc | hc
    · exact h.out c hc
    · exact (hg c hc).1
  · show Chain (wire (t.sentQ ++ (t.outQ ++ chunks)))
    rw [hwe]
    refine v2_chain_append _ _ h.chain (v2_chain_of_sid sid _ ?_) ?_
    · intro r hr
      obtain ⟨c, hc, rfl⟩ := List.mem_map.1 hr
      exact (hg c hc).2
    · intro x y hx hy
      refine Or.inl ⟨h.lastE x hx, ?_⟩
      simp only [wire, List.head?_map] at hy
      cases hc : chunks.head? with
      | none => rw [hc] at hy; cases hy
      | some c =>
        rw [hc] at hy
        simp only [Option.map_some, Option.some.injEq] at hy
        subst hy
        exact hB c hc
  · show LastE (wire (t.sentQ ++ (t.outQ ++ chunks)))
    rw [hwe]
    cases hch : chunks with
    | nil => rw [v2_wire_nil, List.append_nil]; exact h.lastE
    | cons c0 cs =>
      rw [← hch]
      refine v2_lastE_append _ _ (by rw [hch]; simp [wire]) ?_
      intro x hx
      simp only [wire, List.getLast?_map] at hx
      cases hc : chunks.getLast? with
      | none => rw [hc] at hx; cases hx
      | some c =>
        rw [hc] at hx
        simp only [Option.map_some, Option.some.injEq] at hx
        subst hx
        exact hE c hc
  · intro p hp
    split at hp
    · rcases txSet_mem _ _ _ p hp with hp | rfl
      · exact h.seq p hp
      · simp only [uint16_add]
        exact ⟨Int.emod_nonneg _ (by decide), Int.emod_lt_of_pos _ (by decide)⟩
    · exact h.seq p hp
  · exact ⟨Int.emod_nonneg _ (by decide), Int.emod_lt_of_pos _ (by decide)⟩

end Aiortc.Sctp.V2
