import Aiortc.Lemmas.C05.V2TxChain
/-!
# Send side under the weaker invariant (C05c): `_maybe_abandon`, `_update_advanced_peer_ack_point`
-/
namespace Aiortc.Sctp.V2
open Aiortc.Gen
variable {U : List Nat}

/-! ## runs: the fragments `_maybe_abandon` walks over are on one stream -/

/-- up to and including the first E fragment everything is on stream `s`. -/
def RunF (s : Nat) : List SChunk → Prop
  | [] => True
  | c :: cs => c.sid = s ∧ (flagE c.flags = false → RunF s cs)

/-- up to and including the first B fragment everything is on stream `s` (list = reversed prefix). -/
def RunB (s : Nat) : List SChunk → Prop
  | [] => True
  | c :: cs => c.sid = s ∧ (flagB c.flags = false → RunB s cs)

theorem v2_runF_of_chain : ∀ (l : List SChunk) (c : SChunk), Chain (wire (c :: l)) → RunF c.sid (c :: l)
  | [], _, _ => ⟨rfl, fun _ => trivial⟩
  | d :: r, c, h => by
    refine ⟨rfl, fun he => ?_⟩
    have hl : Link c.toR d.toR := h.1
    have hs : c.sid = d.sid := by
      rcases hl with ⟨h1, _⟩ | h1
      · have : flagE c.flags = true := h1
        rw [he] at this; cases this
      · exact h1
    rw [hs]; exact v2_runF_of_chain r d h.2

theorem v2_runB_of_chain : ∀ (r : List SChunk) (c : SChunk), Chain (wire (r.reverse ++ [c])) → RunB c.sid (c :: r)
  | [], _, _ => ⟨rfl, fun _ => trivial⟩
  | d :: r, c, h => by
    refine ⟨rfl, fun hb => ?_⟩
    have e : wire ((d :: r).reverse ++ [c]) = wire r.reverse ++ [d.toR, c.toR] := by simp [wire]
    rw [e] at h
    have hl : Link d.toR c.toR := (v2_chain_append_right _ _ h).1
    have hs : d.sid = c.sid := by
      rcases hl with ⟨_, h1⟩ | h1
      · have : flagB c.flags = true := h1
        rw [hb] at this; cases this
      · exact h1
    have e2 : wire r.reverse ++ [d.toR, c.toR] = wire (r.reverse ++ [d]) ++ [c.toR] := by simp [wire]
    rw [e2] at h
    rw [← hs]; exact v2_runB_of_chain r d (v2_chain_append_left _ _ h)

theorem v2_runF_left (s : Nat) : ∀ (a b : List SChunk), RunF s (a ++ b) → RunF s a
  | [], _, _ => trivial
  | _ :: a, b, h => ⟨h.1, fun he => v2_runF_left s a b (h.2 he)⟩

theorem v2_runF_right (s : Nat) : ∀ (a b : List SChunk), RunF s (a ++ b) → (∀ c ∈ a, flagE c.flags = false) → RunF s b
  | [], _, h, _ => h
  | c :: a, b, h, hn =>
    v2_runF_right s a b (h.2 (hn c (by simp))) (fun d hd => hn d (List.mem_cons_of_mem _ hd))

theorem v2_runF_head {s : Nat} {c c' : SChunk} {l : List SChunk} (h1 : c'.sid = c.sid) (h2 : c'.flags = c.flags)
    (h : RunF s (c :: l)) : RunF s (c' :: l) :=
  ⟨h1.trans h.1, fun he => h.2 (h2 ▸ he)⟩

/-! ## the three loops keep the chunks good -/

theorem v2_abandonBack_good {s : Nat} (hs : s ∈ U) : ∀ (l : List SChunk) (fl : Nat),
    (∀ c ∈ l, Good U c) → RunB s l → ∀ c ∈ (abandonBack fl l).2, Good U c := by
  intro l
  induction l with
  | nil => intro fl _ _ c hc; simp [abandonBack] at hc
  | cons a l ih =>
    intro fl hl hr c hc
    have hga : Good U (abSent a) := (hl a (by simp)).abSent (hr.1 ▸ hs)
    have hl' : ∀ c ∈ l, Good U c := fun c hc => hl c (List.mem_cons_of_mem _ hc)
    unfold abandonBack at hc
    simp only [markAb_eq] at hc
    split at hc
    · rcases List.mem_cons.1 hc with rfl | hc
      · exact hga
      · exact hl' c hc
    · rename_i hb
      rcases List.mem_cons.1 hc with rfl | hc
      · exact hga
      · exact ih _ hl' (hr.2 (by simpa using hb)) c hc

theorem v2_abandonBack_head (fl : Nat) (c : SChunk) (cs : List SChunk) :
    ∃ tl, (abandonBack fl (c :: cs)).2 = abSent c :: tl := by
  unfold abandonBack
  simp only [markAb_eq]
  split
  · exact ⟨_, rfl⟩
  · exact ⟨_, rfl⟩

theorem v2_abandonFwd_good {s : Nat} (hs : s ∈ U) : ∀ (l : List SChunk) (fl : Nat),
    (∀ c ∈ l, Good U c) → RunF s l →
    (∀ c ∈ (abandonFwd fl l).2.1, Good U c) ∧
      ((abandonFwd fl l).2.2 = false → ∀ c ∈ l, flagE c.flags = false) := by
  intro l
  induction l with
  | nil => intro fl _ _; exact ⟨by intro c hc; simp [abandonFwd] at hc, by intro _ c hc; simp at hc⟩
  | cons a l ih =>
    intro fl hl hr
    have hga : Good U (abSent a) := (hl a (by simp)).abSent (hr.1 ▸ hs)
    have hl' : ∀ c ∈ l, Good U c := fun c hc => hl c (List.mem_cons_of_mem _ hc)
    unfold abandonFwd
    simp only [markAb_eq]
    split
    · refine ⟨?_, by intro h; cases h⟩
      intro c hc
      rcases List.mem_cons.1 hc with rfl | hc
      · exact hga
      · exact hl' c hc
    · rename_i he
      have he' : flagE a.flags = false := by simpa using he
      have := ih (fl - if a.inFlight = true then a.bookSize else 0) hl' (hr.2 he')
      refine ⟨?_, ?_⟩
      · intro c hc
        rcases List.mem_cons.1 hc with rfl | hc
        · exact hga
        · exact this.1 c hc
      · intro h c hc
        rcases List.mem_cons.1 hc with rfl | hc
        · exact he'
        · exact this.2 h c hc

theorem v2_abandonUnsent_good {s : Nat} (hs : s ∈ U) : ∀ (l : List SChunk),
    (∀ c ∈ l, Good U c) → RunF s l →
    (∀ c ∈ (abandonUnsent l).1, Good U c) ∧ (∀ c ∈ (abandonUnsent l).2, Good U c) := by
  intro l
  induction l with
  | nil => intro _ _; exact ⟨by intro c hc; simp [abandonUnsent] at hc, by intro c hc; simp [abandonUnsent] at hc⟩
  | cons a l ih =>
    intro hl hr
    have hga : Good U (abUnsent a) := (hl a (by simp)).abUnsent (hr.1 ▸ hs)
    have hl' : ∀ c ∈ l, Good U c := fun c hc => hl c (List.mem_cons_of_mem _ hc)
    unfold abandonUnsent
    split
    · refine ⟨?_, hl'⟩
      intro c hc
      rw [List.mem_singleton] at hc
      subst hc; exact hga
    · rename_i he
      have := ih hl' (hr.2 (by simpa using he))
      refine ⟨?_, this.2⟩
      intro c hc
      rcases List.mem_cons.1 hc with rfl | hc
      · exact hga
      · exact this.1 c hc

/-! ## `_maybe_abandon` -/

theorem v2_getElem?_split {α} : ∀ (l : List α) (pos : Nat) (x : α), l[pos]? = some x →
    ∃ p q, l = p ++ x :: q ∧ p.length = pos
  | [], _, _, h => by simp at h
  | a :: l, 0, x, h => by
    simp only [List.getElem?_cons_zero, Option.some.injEq] at h
    exact ⟨[], l, by simp [h], rfl⟩
  | a :: l, pos + 1, x, h => by
    simp only [List.getElem?_cons_succ] at h
    obtain ⟨p, q, hl, hp⟩ := v2_getElem?_split l pos x h
    exact ⟨a :: p, q, by simp [hl], by simp [hp]⟩

/-- `_maybe_abandon` only writes `_flight_size` and the two queues. -/
theorem v2_maybeAbandon_frame (t : Tx) (pos : Nat) (now : Int) :
    ∃ fl s o, (t.maybeAbandon pos now).2 = { t with flight := fl, sentQ := s, outQ := o } := by
  unfold Tx.maybeAbandon
  split
  · exact ⟨_, _, _, rfl⟩
  · split
    · exact ⟨_, _, _, rfl⟩
    · split
      · exact ⟨_, _, _, rfl⟩
      · dsimp only
        split
        · exact ⟨_, _, _, rfl⟩
        · exact ⟨_, _, _, rfl⟩

theorem v2_maybeAbandon_good (t : Tx) (h : TxOk U t) (pos : Nat) (now : Int) :
    (∀ c ∈ (t.maybeAbandon pos now).2.sentQ, Good U c) ∧ (∀ c ∈ (t.maybeAbandon pos now).2.outQ, Good U c) := by
  cases hq : t.sentQ[pos]? with
  | none => simp only [Tx.maybeAbandon, hq]; exact ⟨h.sent, h.out⟩
  | some x =>
    by_cases hx : x.abandoned = true
    · simp only [Tx.maybeAbandon, hq, hx, if_true]; exact ⟨h.sent, h.out⟩
    · by_cases hs : shouldAbandon x now = true
      · have hx' : x.abandoned = false := by simpa using hx
        obtain ⟨p, q, hl, hp⟩ := v2_getElem?_split _ _ _ hq
        subst hp
        rw [maybeAbandon_unfold t p q x now hl hx' hs]
        -- the stream of `x` is in `U`
        have hgx : Good U x := h.sent x (List.mem_of_getElem? hq)
        have hu : x.sid ∈ U := by
          rcases hgx.2 with hr | hu
          · rw [shouldAbandon_reliable x now hr.2.1 hr.1] at hs; cases hs
          · exact hu
        have hgp : ∀ c ∈ p, Good U c := fun c hc => h.sent c (by rw [hl]; simp [hc])
        have hgq : ∀ c ∈ q, Good U c := fun c hc => h.sent c (by rw [hl]; simp [hc])
        -- the chain
        have hch : Chain (wire (p ++ [x]) ++ wire (q ++ t.outQ)) := by
          have := h.chain
          rw [hl] at this
          simpa [wire] using this
        have hrB : RunB x.sid (x :: p.reverse) := by
          apply v2_runB_of_chain
          rw [List.reverse_reverse]
          exact v2_chain_append_left _ _ hch
        have hrF : RunF x.sid (x :: (q ++ t.outQ)) := by
          apply v2_runF_of_chain
          have : Chain (wire p ++ wire (x :: (q ++ t.outQ))) := by
            have := h.chain
            rw [hl] at this
            simpa [wire] using this
          exact v2_chain_append_right _ _ this
        -- backward loop
        simp only [List.reverse_append, List.reverse_cons, List.reverse_nil, List.nil_append, List.singleton_append]
        have hb := v2_abandonBack_good hu (x :: p.reverse) t.flight (by
          intro c hc
          rcases List.mem_cons.1 hc with rfl | hc
          · exact hgx
          · exact hgp c (by simpa using hc)) hrB
        obtain ⟨tl, htl⟩ := v2_abandonBack_head t.flight x p.reverse
        generalize abandonBack t.flight (x :: p.reverse) = rb at hb htl ⊢
        obtain ⟨fl1, preRev⟩ := rb
        simp only at hb htl ⊢
        subst htl
        simp only [List.reverse_cons, List.getLast?_append, List.getLast?_singleton, Option.some_or,
          Option.getD_some, List.dropLast_concat]
        have hgtl : ∀ c ∈ tl.reverse, Good U c := fun c hc => hb c (by simp at hc; simp [hc])
        -- forward loop
        have hrF' : RunF x.sid (abSent x :: (q ++ t.outQ)) := v2_runF_head rfl rfl hrF
        have hf := v2_abandonFwd_good hu (abSent x :: q) fl1 (by
          intro c hc
          rcases List.mem_cons.1 hc with rfl | hc
          · exact hgx.abSent hu
          · exact hgq c hc) (v2_runF_left _ (abSent x :: q) t.outQ hrF')
        generalize abandonFwd fl1 (abSent x :: q) = rf at hf ⊢
        obtain ⟨fl2, fwd, sawLast⟩ := rf
        simp only at hf ⊢
        cases sawLast with
        | true =>
          simp only [if_true]
          refine ⟨?_, h.out⟩
          intro c hc
          rcases List.mem_append.1 hc with hc | hc
          · exact hgtl c hc
          · exact hf.1 c hc
        | false =>
          simp only [Bool.false_eq_true, if_false]
          have hro : RunF x.sid t.outQ := v2_runF_right _ (abSent x :: q) t.outQ hrF' (hf.2 rfl)
          have hun := v2_abandonUnsent_good hu t.outQ h.out hro
          generalize abandonUnsent t.outQ = ru at hun ⊢
          obtain ⟨moved, rest⟩ := ru
          simp only at hun ⊢
          refine ⟨?_, hun.2⟩
          intro c hc
          rcases List.mem_append.1 hc with hc | hc
          · rcases List.mem_append.1 hc with hc | hc
            · exact hgtl c hc
            · exact hf.1 c hc
          · exact hun.1 c hc
      · have hs' : shouldAbandon x now = false := by simpa using hs
        have hx' : x.abandoned = false := by simpa using hx
        simp only [Tx.maybeAbandon, hq, hx', hs', Bool.false_eq_true, if_false, Bool.not_false, if_true]
        exact ⟨h.sent, h.out⟩

/-- **`_maybe_abandon` keeps the invariant**, at any position. -/
theorem v2_maybeAbandon_ok (t : Tx) (h : TxOk U t) (pos : Nat) (now : Int) : TxOk U (t.maybeAbandon pos now).2 := by
  have hg := v2_maybeAbandon_good t h pos now
  have hw := (maybeAbandon_wire t pos now).1
  obtain ⟨fl, s, o, he⟩ := v2_maybeAbandon_frame t pos now
  refine h.v2_same hg.1 hg.2 (by rw [wire_append, wire_append, hw]) ?_ ?_ ?_ ?_ ?_ ?_ <;> rw [he]

theorem v2_maybeAbandon_length (t : Tx) (pos : Nat) (now : Int) :
    t.sentQ.length ≤ (t.maybeAbandon pos now).2.sentQ.length := (maybeAbandon_wire t pos now).2

/-! ## `_update_advanced_peer_ack_point` -/

theorem v2_popAbandoned_ok : ∀ (l : List SChunk) (adv : Int) (streams : List (Nat × Int)) (needed : Bool),
    (∀ c ∈ l, Good U c) → FsOk U streams → (needed = true → InRange32 adv) →
    FsOk U (popAbandoned adv streams needed l).2.1 ∧
    ((popAbandoned adv streams needed l).2.2.1 = true → InRange32 (popAbandoned adv streams needed l).1) ∧
    ∃ a, l = a ++ (popAbandoned adv streams needed l).2.2.2 := by
  intro l
  induction l with
  | nil => intro adv streams needed _ hf ha; exact ⟨hf, ha, [], rfl⟩
  | cons c cs ih =>
    intro adv streams needed hl hf ha
    have hgc : Good U c := hl c (by simp)
    unfold popAbandoned
    split
    · rename_i hab
      have hu := hgc.sid_of_abandoned hab
      obtain ⟨_, h0, h1, h2, h3, h4, _⟩ := hgc.1
      have := ih c.tsn (if (!flagU c.flags) = true then dictSet streams c.sid c.ssn else streams) true
        (fun d hd => hl d (List.mem_cons_of_mem _ hd))
        (by split
            · exact v2_fsOk_dictSet hf hu h2 ⟨h3, h4⟩
            · exact hf)
        (fun _ => ⟨h0, h1⟩)
      refine ⟨this.1, this.2.1, ?_⟩
      obtain ⟨a, ha⟩ := this.2.2
      exact ⟨c :: a, by rw [List.cons_append, ← ha]⟩
    · exact ⟨hf, ha, [], rfl⟩

theorem v2_updateAdvAck_ok (t : Tx) (h : TxOk U t) : TxOk U t.updateAdvAck := by
  unfold Tx.updateAdvAck
  dsimp only
  generalize ht1 : (if uint32_gte t.lastSacked t.advAck = true then
      { t with advAck := t.lastSacked, forwardNeeded := false, forwardStreams := [] } else t) = t1
  have h1 : TxOk U t1 ∧ t1.sentQ = t.sentQ ∧ t1.outQ = t.outQ := by
    subst ht1
    split
    · exact ⟨⟨h.sent, h.out, h.chain, h.lastE, v2_fsOk_nil, h.fwd, (by intro h'; cases h'), h.seq, h.tsn⟩, rfl, rfl⟩
    · exact ⟨h, rfl, rfl⟩
  clear ht1
  obtain ⟨h1, _, _⟩ := h1
  have hp := v2_popAbandoned_ok t1.sentQ t1.advAck t1.forwardStreams t1.forwardNeeded h1.sent h1.fs h1.adv
  generalize popAbandoned t1.advAck t1.forwardStreams t1.forwardNeeded t1.sentQ = r at hp ⊢
  obtain ⟨adv, streams, needed, sent⟩ := r
  obtain ⟨hfs, hadv, a, ha⟩ := hp
  simp only at hfs hadv ha ⊢
  have hsent : ∀ c ∈ sent, Good U c := fun c hc => h1.sent c (by rw [ha]; simp [hc])
  have hw : wire (t1.sentQ ++ t1.outQ) = wire a ++ wire (sent ++ t1.outQ) := by
    rw [ha, List.append_assoc, wire_append]
  have hch : Chain (wire (sent ++ t1.outQ)) := v2_chain_append_right _ _ (hw ▸ h1.chain)
  have hle : LastE (wire (sent ++ t1.outQ)) := v2_lastE_append_right _ _ (hw ▸ h1.lastE)
  split
  · rename_i hn
    have hn' : needed = true := hn
    exact ⟨hsent, h1.out, hch, hle, hfs, by
      intro cum st he
      simp only [Option.some.injEq, Prod.mk.injEq] at he
      obtain ⟨rfl, rfl⟩ := he
      exact ⟨hadv hn', hfs⟩, hadv, h1.seq, h1.tsn⟩
  · exact ⟨hsent, h1.out, hch, hle, hfs, h1.fwd, hadv, h1.seq, h1.tsn⟩

end Aiortc.Sctp.V2
