import Aiortc.Lemmas.C05.V2Inv
/-!
# Send side under the weaker invariant (C05c): list lemmas

`Chain` / `LastE` under append and suffix, bookkeeping updates of chunks (`Bk`), `List.modify`, the
`_forward_tsn_streams` dict, and the frame lemma `TxOk.v2_queues`.
-/
namespace Aiortc.Sctp.V2
open Aiortc.Gen
variable {U : List Nat}

/-! ## `Chain`, `LastE` -/

theorem v2_chain_tail {x : RChunk} {l : List RChunk} (h : Chain (x :: l)) : Chain l := by
  cases l with
  | nil => trivial
  | cons y r => exact h.2

theorem v2_chain_append_right : ∀ (a b : List RChunk), Chain (a ++ b) → Chain b
  | [], _, h => h
  | _ :: a, b, h => v2_chain_append_right a b (v2_chain_tail h)

theorem v2_chain_append_left : ∀ (a b : List RChunk), Chain (a ++ b) → Chain a
  | [], _, _ => trivial
  | [_], _, _ => trivial
  | _ :: y :: a, b, h => ⟨h.1, v2_chain_append_left (y :: a) b h.2⟩

theorem v2_chain_append : ∀ (a b : List RChunk), Chain a → Chain b →
    (∀ x y, a.getLast? = some x → b.head? = some y → Link x y) → Chain (a ++ b)
  | [], _, _, hb, _ => hb
  | [_], [], _, _, _ => trivial
  | [x], y :: _, _, hb, hl => ⟨hl x y rfl rfl, hb⟩
  | _ :: y :: a, b, ha, hb, hl =>
    ⟨ha.1, v2_chain_append (y :: a) b ha.2 hb
      (fun u v hu hv => hl u v (by rw [List.getLast?_cons_cons]; exact hu) hv)⟩

theorem v2_lastE_append_right (a b : List RChunk) (h : LastE (a ++ b)) : LastE b := by
  intro x hx
  apply h x
  rw [List.getLast?_append, hx]; rfl

theorem v2_lastE_append (a b : List RChunk) (hb : b ≠ []) (h : LastE b) : LastE (a ++ b) := by
  intro x hx
  apply h x
  rw [List.getLast?_append] at hx
  cases hl : b.getLast? with
  | none => exact absurd (List.getLast?_eq_none_iff.1 hl) hb
  | some z => rw [hl] at hx; exact hx

/-- all chunks on one stream: a chain. -/
theorem v2_chain_of_sid (s : Nat) : ∀ (l : List RChunk), (∀ c ∈ l, c.sid = s) → Chain l
  | [], _ => trivial
  | [_], _ => trivial
  | x :: y :: r, h =>
    ⟨Or.inr ((h x (by simp)).trans (h y (by simp)).symm),
     v2_chain_of_sid s (y :: r) (fun c hc => h c (List.mem_cons_of_mem _ hc))⟩

/-! ## bookkeeping updates -/

/-- `c'` differs from `c` in bookkeeping attributes only (`misses`, `acked`, `retransmit`, `inFlight`,
`sentCount`, `bookSize`). -/
def Bk (c c' : SChunk) : Prop :=
  c'.toR = c.toR ∧ c'.expiry = c.expiry ∧ c'.maxRetransmits = c.maxRetransmits ∧ c'.abandoned = c.abandoned

theorem Bk.rfl' (c : SChunk) : Bk c c := ⟨rfl, rfl, rfl, rfl⟩

theorem Bk.trans {a b c : SChunk} (h1 : Bk a b) (h2 : Bk b c) : Bk a c :=
  ⟨h2.1.trans h1.1, h2.2.1.trans h1.2.1, h2.2.2.1.trans h1.2.2.1, h2.2.2.2.trans h1.2.2.2⟩

theorem v2_decFlight_bk (fl : Nat) (c : SChunk) : Bk c (decFlight fl c).2 := by
  unfold decFlight; split
  · exact ⟨rfl, rfl, rfl, rfl⟩
  · exact Bk.rfl' c

theorem v2_incFlight_bk (fl : Nat) (c : SChunk) : Bk c (incFlight fl c).2 := by
  unfold incFlight; split
  · exact ⟨rfl, rfl, rfl, rfl⟩
  · exact Bk.rfl' c

theorem v2_wire_of_toR {c c' : SChunk} (h : c'.toR = c.toR) (hw : c.Wire) : c'.Wire := by
  have : RChunk.Wire c'.toR := by rw [h]; exact hw
  exact this

theorem Good.bk {c c' : SChunk} (h : Good U c) (hb : Bk c c') : Good U c' := by
  obtain ⟨h1, h2, h3, h4⟩ := hb
  refine ⟨v2_wire_of_toR h1 h.1, ?_⟩
  rcases h.2 with hr | hu
  · exact Or.inl ⟨h2.trans hr.1, h3.trans hr.2.1, h4.trans hr.2.2⟩
  · right
    have : c'.toR.sid = c.toR.sid := by rw [h1]
    exact (show c'.sid = c.sid from this) ▸ hu

/-- marking a chunk of a stream in `U` as abandoned. -/
theorem Good.abSent {c : SChunk} (h : Good U c) (hu : c.sid ∈ U) : Good U (abSent c) :=
  ⟨h.1, Or.inr hu⟩

theorem Good.abUnsent {c : SChunk} (h : Good U c) (hu : c.sid ∈ U) : Good U (abUnsent c) :=
  ⟨h.1, Or.inr hu⟩

/-- an abandoned chunk belongs to a stream in `U`. -/
theorem Good.sid_of_abandoned {c : SChunk} (h : Good U c) (ha : c.abandoned = true) : c.sid ∈ U := by
  rcases h.2 with hr | hu
  · rw [hr.2.2] at ha; cases ha
  · exact hu

/-! ## `wire` -/

theorem v2_wire_cons (c : SChunk) (l : List SChunk) : wire (c :: l) = c.toR :: wire l := rfl

theorem v2_wire_nil : wire [] = [] := rfl

theorem v2_mem_modify {α} {P : α → Prop} (f : α → α) :
    ∀ (l : List α) (i : Nat), (∀ c ∈ l, P c) → (∀ d, l[i]? = some d → P (f d)) → ∀ c ∈ l.modify i f, P c := by
  intro l
  induction l with
  | nil => intro i h _ c hc; simp at hc
  | cons a l ih =>
    intro i h hf c hc
    cases i with
    | zero =>
      simp only [List.modify_zero_cons, List.mem_cons] at hc
      rcases hc with rfl | hc
      · exact hf a (by simp)
      · exact h c (by simp [hc])
    | succ i =>
      simp only [List.modify_succ_cons, List.mem_cons] at hc
      rcases hc with rfl | hc
      · exact h _ (by simp)
      · exact ih i (fun c hc => h c (by simp [hc])) (fun d hd => hf d (by simpa using hd)) c hc

theorem v2_wire_modify (f : SChunk → SChunk) :
    ∀ (l : List SChunk) (i : Nat), (∀ d, l[i]? = some d → (f d).toR = d.toR) → wire (l.modify i f) = wire l := by
  intro l
  induction l with
  | nil => intro i _; simp
  | cons a l ih =>
    intro i hf
    cases i with
    | zero =>
      simp only [List.modify_zero_cons, v2_wire_cons]
      rw [hf a (by simp)]
    | succ i =>
      simp only [List.modify_succ_cons, v2_wire_cons]
      rw [ih i (fun d hd => hf d (by simpa using hd))]

/-- `Good` and `wire` through a bookkeeping `modify`. -/
theorem v2_modify_bk (f : SChunk → SChunk) (l : List SChunk) (i : Nat) (hl : ∀ c ∈ l, Good U c)
    (hf : ∀ d, l[i]? = some d → Bk d (f d)) :
    (∀ c ∈ l.modify i f, Good U c) ∧ wire (l.modify i f) = wire l :=
  ⟨v2_mem_modify f l i hl (fun d hd => (hl d (List.mem_of_getElem? hd)).bk (hf d hd)),
   v2_wire_modify f l i (fun d hd => (hf d hd).1)⟩

/-! ## the `_forward_tsn_streams` dict -/

theorem v2_fsOk_nil : FsOk U [] := ⟨by simp, by intro p hp; simp at hp⟩

theorem v2_fsOk_dictSet {s : List (Nat × Int)} (h : FsOk U s) {k : Nat} {v : Int} (hk : k ∈ U) (hk' : k < 65536)
    (hv : 0 ≤ v ∧ v < 65536) : FsOk U (dictSet s k v) := by
  unfold dictSet
  split
  · refine ⟨?_, ?_⟩
    · have : (s.map (fun e => if (e.1 == k) = true then (k, v) else e)).map (·.1) = s.map (·.1) := by
        rw [List.map_map]
        apply List.map_congr_left
        intro e _
        simp only [Function.comp]
        split
        · rename_i he; exact (eq_of_beq he).symm
        · rfl
      rw [this]; exact h.1
    · intro p hp
      simp only [List.mem_map] at hp
      obtain ⟨e, he, rfl⟩ := hp
      split
      · exact ⟨hk, hk', hv.1, hv.2⟩
      · exact h.2 e he
  · rename_i hany
    refine ⟨?_, ?_⟩
    · rw [List.map_append, List.nodup_append]
      refine ⟨h.1, by simp, ?_⟩
      intro a ha b hb hab
      simp only [List.map_cons, List.map_nil, List.mem_singleton] at hb
      subst hb; subst hab
      apply hany
      obtain ⟨e, he, rfl⟩ := List.mem_map.1 ha
      exact List.any_eq_true.2 ⟨e, he, by simp⟩
    · intro p hp
      simp only [List.mem_append, List.mem_singleton] at hp
      rcases hp with hp | rfl
      · exact h.2 p hp
      · exact ⟨hk, hk', hv.1, hv.2⟩

/-! ## frame lemma -/

/-- The queues were replaced by queues of good chunks whose wire image is a suffix of the old one; the other
fields `TxOk` reads are unchanged. -/
theorem TxOk.v2_queues {t t' : Tx} (h : TxOk U t) (hs : ∀ c ∈ t'.sentQ, Good U c) (ho : ∀ c ∈ t'.outQ, Good U c)
    (hw : ∃ a, wire (t.sentQ ++ t.outQ) = a ++ wire (t'.sentQ ++ t'.outQ))
    (h3 : t'.forwardStreams = t.forwardStreams) (h4 : t'.forwardTsn = t.forwardTsn)
    (h5 : t'.forwardNeeded = t.forwardNeeded) (h6 : t'.advAck = t.advAck) (h7 : t'.streamSeq = t.streamSeq)
    (h8 : t'.localTsn = t.localTsn) : TxOk U t' := by
  obtain ⟨a, ha⟩ := hw
  refine ⟨hs, ho, ?_, ?_, ?_, ?_, ?_, ?_, ?_⟩
  · exact v2_chain_append_right a _ (ha ▸ h.chain)
  · exact v2_lastE_append_right a _ (ha ▸ h.lastE)
  · rw [h3]; exact h.fs
  · rw [h4]; exact h.fwd
  · rw [h5, h6]; exact h.adv
  · rw [h7]; exact h.seq
  · rw [h8]; exact h.tsn

/-- same wire image. -/
theorem TxOk.v2_same {t t' : Tx} (h : TxOk U t) (hs : ∀ c ∈ t'.sentQ, Good U c) (ho : ∀ c ∈ t'.outQ, Good U c)
    (hw : wire (t'.sentQ ++ t'.outQ) = wire (t.sentQ ++ t.outQ))
    (h3 : t'.forwardStreams = t.forwardStreams) (h4 : t'.forwardTsn = t.forwardTsn)
    (h5 : t'.forwardNeeded = t.forwardNeeded) (h6 : t'.advAck = t.advAck) (h7 : t'.streamSeq = t.streamSeq)
    (h8 : t'.localTsn = t.localTsn) : TxOk U t' :=
  h.v2_queues hs ho ⟨[], by rw [hw]; rfl⟩ h3 h4 h5 h6 h7 h8

theorem v2_t3Restart_ok (b : Bool) : ∀ ev ∈ t3Restart b, TxEv.Ok U ev := by
  intro ev hev
  cases b <;> simp [t3Restart] at hev <;> rcases hev with rfl | rfl <;> trivial

end Aiortc.Sctp.V2
