import Aiortc.Lemmas.C05.V2TxAbandon
/-!
# Send side under the weaker invariant (C05c): `_t3_expired`, `_receive_sack_chunk`
-/
namespace Aiortc.Sctp.V2
open Aiortc.Gen
variable {U : List Nat}

/-- the sent queue was replaced by one with the same wire image. -/
theorem TxOk.v2_sent {t t' : Tx} (h : TxOk U t) (hs : ∀ c ∈ t'.sentQ, Good U c) (hw : wire t'.sentQ = wire t.sentQ)
    (h2 : t'.outQ = t.outQ)
    (h3 : t'.forwardStreams = t.forwardStreams) (h4 : t'.forwardTsn = t.forwardTsn)
    (h5 : t'.forwardNeeded = t.forwardNeeded) (h6 : t'.advAck = t.advAck) (h7 : t'.streamSeq = t.streamSeq)
    (h8 : t'.localTsn = t.localTsn) : TxOk U t' :=
  h.v2_same hs (h2 ▸ h.out) (by rw [wire_append, wire_append, hw, h2]) h3 h4 h5 h6 h7 h8

/-- a prefix of the sent queue was popped. -/
theorem TxOk.v2_sentDrop {t t' : Tx} (h : TxOk U t) (hd : ∃ a, t.sentQ = a ++ t'.sentQ)
    (h2 : t'.outQ = t.outQ)
    (h3 : t'.forwardStreams = t.forwardStreams) (h4 : t'.forwardTsn = t.forwardTsn)
    (h5 : t'.forwardNeeded = t.forwardNeeded) (h6 : t'.advAck = t.advAck) (h7 : t'.streamSeq = t.streamSeq)
    (h8 : t'.localTsn = t.localTsn) : TxOk U t' := by
  obtain ⟨a, ha⟩ := hd
  refine h.v2_queues (fun c hc => h.sent c (by rw [ha]; simp [hc])) (h2 ▸ h.out) ⟨wire a, ?_⟩ h3 h4 h5 h6 h7 h8
  rw [ha, h2, List.append_assoc, wire_append]

/-! ## `_t3_expired` -/

private theorem t3Mark_ok (now : Int) : ∀ (fuel pos : Nat) (t : Tx), TxOk U t → TxOk U (t3Mark now fuel pos t) := by
  intro fuel
  induction fuel with
  | zero => intro pos t h; exact h
  | succ fuel ih =>
    intro pos t h
    unfold t3Mark
    have h1 := v2_maybeAbandon_ok t h pos now
    generalize t.maybeAbandon pos now = r at h1 ⊢
    obtain ⟨ab, t1⟩ := r
    dsimp only at h1 ⊢
    apply ih
    have hm := v2_modify_bk (U := U) (fun c =>
      { (if (!ab) = true then { c with retransmit := true } else c) with acked := false, inFlight := false })
      t1.sentQ pos h1.sent (by
        intro d _
        cases ab
        · exact ⟨rfl, rfl, rfl, rfl⟩
        · exact ⟨rfl, rfl, rfl, rfl⟩)
    exact h1.v2_sent hm.1 hm.2 rfl rfl rfl rfl rfl rfl rfl

theorem Tx.t3Expired_ok (t : Tx) (h : TxOk U t) (now : Int) : TxOk U (t.t3Expired now) := by
  unfold Tx.t3Expired
  have h0 : TxOk U { t with t3 := false } := h.congr rfl rfl rfl rfl rfl rfl rfl rfl
  have h1 := v2_updateAdvAck_ok _ (t3Mark_ok now t.sentQ.length 0 _ h0)
  exact h1.congr rfl rfl rfl rfl rfl rfl rfl rfl

/-! ## the loops of `_receive_sack_chunk` -/

private theorem ackLoop_drop (ls : Int) : ∀ (l : List SChunk) (fl d db : Nat),
    ∃ a, l = a ++ (ackLoop ls fl d db l).2.2.2 := by
  intro l
  induction l with
  | nil => intro fl d db; exact ⟨[], rfl⟩
  | cons c l ih =>
    intro fl d db
    unfold ackLoop
    split
    · obtain ⟨a, ha⟩ := ih (decFlight fl c).1 (d + 1) (if (!c.acked) = true then db + c.bookSize else db)
      exact ⟨c :: a, by rw [List.cons_append, ← ha]⟩
    · exact ⟨[], rfl⟩

private theorem htnaLoop_ok (seen : List Int) (hs : Int) : ∀ (l acc : List SChunk) (fl db : Nat) (hna : Int),
    (∀ c ∈ acc, Good U c) → (∀ c ∈ l, Good U c) →
    (∀ c ∈ (htnaLoop seen hs fl db hna acc l).2.2.2, Good U c) ∧
      wire (htnaLoop seen hs fl db hna acc l).2.2.2 = wire (acc.reverse ++ l) := by
  intro l
  induction l with
  | nil =>
    intro acc fl db hna ha _
    simp only [htnaLoop, List.append_nil]
    exact ⟨fun c hc => ha c (List.mem_reverse.1 hc), trivial⟩
  | cons a l ih =>
    intro acc fl db hna ha hl
    have hga : Good U a := hl a (by simp)
    have hl' : ∀ c ∈ l, Good U c := fun c hc => hl c (by simp [hc])
    unfold htnaLoop
    split
    · refine ⟨?_, rfl⟩
      intro c hc
      simp only [List.mem_append, List.mem_reverse] at hc
      rcases hc with hc | hc
      · exact ha c hc
      · exact hl c hc
    · split
      · have hb : Bk a (decFlight fl { a with acked := true }).2 :=
          Bk.trans (b := { a with acked := true }) ⟨rfl, rfl, rfl, rfl⟩ (v2_decFlight_bk _ _)
        have := ih ((decFlight fl { a with acked := true }).2 :: acc) (decFlight fl { a with acked := true }).1
          (db + a.bookSize) a.tsn (by
            intro x hx
            rcases List.mem_cons.1 hx with rfl | hx
            · exact hga.bk hb
            · exact ha x hx) hl'
        refine ⟨this.1, ?_⟩
        rw [this.2]
        simp only [List.reverse_cons, List.append_assoc, List.singleton_append, wire_append, v2_wire_cons, hb.1]
      · have := ih (a :: acc) fl db hna (by
            intro x hx
            rcases List.mem_cons.1 hx with rfl | hx
            · exact hga
            · exact ha x hx) hl'
        refine ⟨this.1, ?_⟩
        rw [this.2]
        simp only [List.reverse_cons, List.append_assoc, List.singleton_append]

private theorem ne_nil_of_length {α} {l l' : List α} (h : l.length ≤ l'.length) (hne : l.length ≠ 0) : l' ≠ [] := by
  intro h0
  rw [h0] at h
  simp only [List.length_nil, Nat.le_zero_eq] at h
  exact hne h

private theorem strikeLoop_ok (seen : List Int) (hna now : Int) : ∀ (fuel pos : Nat) (t : Tx) (loss : Bool),
    TxOk U t → (loss = true → t.sentQ ≠ []) →
    TxOk U (strikeLoop seen hna now fuel pos t loss).1 ∧
      ((strikeLoop seen hna now fuel pos t loss).2 = true → (strikeLoop seen hna now fuel pos t loss).1.sentQ ≠ []) := by
  intro fuel
  induction fuel with
  | zero => intro pos t loss h hl; exact ⟨h, hl⟩
  | succ fuel ih =>
    intro pos t loss h hl
    unfold strikeLoop
    cases hq : t.sentQ[pos]? with
    | none => exact ⟨h, hl⟩
    | some c =>
      have hne : t.sentQ.length ≠ 0 := by
        intro h0
        have : t.sentQ = [] := List.eq_nil_of_length_eq_zero h0
        rw [this] at hq; simp at hq
      simp only []
      split
      · exact ⟨h, hl⟩
      · split
        · split
          · -- third miss
            have hm := v2_modify_bk (U := U) (fun c => { c with misses := 0 }) t.sentQ pos h.sent
              (fun d _ => ⟨rfl, rfl, rfl, rfl⟩)
            have h1 : TxOk U { t with sentQ := t.sentQ.modify pos fun c => { c with misses := 0 } } :=
              h.v2_sent hm.1 hm.2 rfl rfl rfl rfl rfl rfl rfl
            have h2 := v2_maybeAbandon_ok _ h1 pos now
            have hlen := v2_maybeAbandon_length
              { t with sentQ := t.sentQ.modify pos fun c => { c with misses := 0 } } pos now
            generalize Tx.maybeAbandon
              { t with sentQ := t.sentQ.modify pos fun c => { c with misses := 0 } } pos now = r at h2 hlen ⊢
            obtain ⟨ab, t2⟩ := r
            dsimp only at h2 hlen ⊢
            have hlen' : t.sentQ.length ≤ t2.sentQ.length := by simpa using hlen
            have hcur : ∀ d, t2.sentQ[pos]? = some d → t2.sentQ[pos]?.getD c = d := by
              intro d hd; rw [hd]; rfl
            generalize t2.sentQ[pos]?.getD c = cur0 at hcur ⊢
            have hb : Bk cur0 (decFlight t2.flight
                { (if (!ab) = true then { cur0 with retransmit := true } else cur0) with acked := false }).2 := by
              refine Bk.trans ?_ (v2_decFlight_bk _ _)
              cases ab
              · exact ⟨rfl, rfl, rfl, rfl⟩
              · exact ⟨rfl, rfl, rfl, rfl⟩
            generalize decFlight t2.flight
                { (if (!ab) = true then { cur0 with retransmit := true } else cur0) with acked := false } = p at hb ⊢
            obtain ⟨fl, cur⟩ := p
            dsimp only at hb ⊢
            have hm2 := v2_modify_bk (U := U) (fun _ => cur) t2.sentQ pos h2.sent
              (fun d hd => by rw [← hcur d hd]; exact hb)
            apply ih
            · exact h2.v2_sent hm2.1 hm2.2 rfl rfl rfl rfl rfl rfl rfl
            · intro _
              exact ne_nil_of_length (l := t.sentQ) (by simpa using hlen') hne
          · have hm := v2_modify_bk (U := U) (fun d => { d with misses := c.misses + 1 }) t.sentQ pos h.sent
              (fun d _ => ⟨rfl, rfl, rfl, rfl⟩)
            apply ih
            · exact h.v2_sent hm.1 hm.2 rfl rfl rfl rfl rfl rfl rfl
            · intro _
              exact ne_nil_of_length (l := t.sentQ) (by simp) hne
        · exact ih _ _ _ h hl

/-! ## `_receive_sack_chunk` -/

private theorem sackTail_ok (done : Nat) (t : Tx) (h : TxOk U t) :
    TxOk U (if t.sentQ.isEmpty then ({ t with t3 := false }, if t.t3 then [TxEv.t3cancel] else [])
          else if done > 0 then ({ t with t3 := true }, t3Restart t.t3) else (t, [])).1.updateAdvAck ∧
    ∀ ev ∈ (if t.sentQ.isEmpty then ({ t with t3 := false }, if t.t3 then [TxEv.t3cancel] else [])
          else if done > 0 then ({ t with t3 := true }, t3Restart t.t3) else (t, [])).2, TxEv.Ok U ev := by
  split
  · refine ⟨v2_updateAdvAck_ok _ (h.congr rfl rfl rfl rfl rfl rfl rfl rfl), ?_⟩
    intro ev hev
    dsimp only at hev
    split at hev
    · simp only [List.mem_singleton] at hev; subst hev; trivial
    · simp at hev
  · split
    · exact ⟨v2_updateAdvAck_ok _ (h.congr rfl rfl rfl rfl rfl rfl rfl rfl), v2_t3Restart_ok _⟩
    · exact ⟨v2_updateAdvAck_ok _ h, by simp⟩

private theorem sack_finish (done : Nat) (r2 : Outcome Tx) (h : ∃ t, r2 = .ok t ∧ TxOk U t) :
    ∃ r, (match r2 with
          | .ok t =>
            let (t, evs) :=
              if t.sentQ.isEmpty then ({ t with t3 := false }, if t.t3 then [TxEv.t3cancel] else [])
              else if done > 0 then ({ t with t3 := true }, t3Restart t.t3)
              else (t, [])
            Outcome.ok (some (t.updateAdvAck, evs))
          | .valueError => .valueError
          | .crash k => .crash k
          | .hang => .hang) = .ok r ∧
      ∀ t' evs, r = some (t', evs) → TxOk U t' ∧ ∀ ev ∈ evs, TxEv.Ok U ev := by
  obtain ⟨t, rfl, ht⟩ := h
  refine ⟨_, rfl, ?_⟩
  intro t' evs he
  cases he
  exact sackTail_ok done t ht

theorem Tx.receiveSack_ok (t : Tx) (h : TxOk U t) (cum : Int) (gaps : List (Nat × Nat)) (now : Int) :
    ∃ r, t.receiveSack cum gaps now = .ok r ∧
      ∀ t' evs, r = some (t', evs) → TxOk U t' ∧ ∀ ev ∈ evs, TxEv.Ok U ev := by
  unfold Tx.receiveSack
  split
  · exact ⟨none, rfl, by intro t' evs h; cases h⟩
  · dsimp only
    have hA := ackLoop_drop cum t.sentQ t.flight 0 0
    generalize ackLoop cum t.flight 0 0 t.sentQ = a at hA ⊢
    obtain ⟨fl, done, doneBytes, sent⟩ := a
    dsimp only at hA ⊢
    have h2 : TxOk U { t with lastSacked := cum, flight := fl, sentQ := sent } :=
      h.v2_sentDrop hA rfl rfl rfl rfl rfl rfl rfl
    generalize hr : (if gaps.isEmpty = true then _ else _ : Outcome (Tx × Nat × Bool)) = r
    have hR : ∃ t' db loss, r = .ok (t', db, loss) ∧ TxOk U t' ∧ (loss = true → t'.sentQ ≠ []) := by
      subst hr
      split
      · exact ⟨_, _, _, rfl, h2, by simp⟩
      · generalize gapSeen cum _ gaps = gs
        obtain ⟨seen, hs⟩ := gs
        dsimp only
        have hh := htnaLoop_ok (U := U) seen hs sent [] fl doneBytes cum (by simp) h2.sent
        generalize htnaLoop seen hs fl doneBytes cum [] sent = hl at hh ⊢
        obtain ⟨fl2, db, hna, sent2⟩ := hl
        dsimp only at hh ⊢
        have h3 : TxOk U { t with lastSacked := cum, flight := fl2, sentQ := sent2 } :=
          h2.v2_sent hh.1 (by rw [hh.2]; rfl) rfl rfl rfl rfl rfl rfl rfl
        have hS := strikeLoop_ok seen hna now sent2.length 0 _ false h3 (by simp)
        exact ⟨_, _, _, rfl, hS.1, hS.2⟩
    clear hr
    obtain ⟨t', db, loss, rfl, ht', hloss⟩ := hR
    dsimp only
    cases hfr : t'.fastRecoveryExit with
    | some ex =>
      dsimp only
      refine sack_finish done _ ?_
      split
      · exact ⟨_, rfl, ht'.congr rfl rfl rfl rfl rfl rfl rfl rfl⟩
      · exact ⟨_, rfl, ht'⟩
    | none =>
      dsimp only
      refine sack_finish done _ ?_
      generalize ht0 : (if (decide (done > 0) && _) = true then _ else t' : Tx) = t0
      have h0 : TxOk U t0 ∧ t0.sentQ = t'.sentQ := by
        subst ht0
        split
        · split
          · exact ⟨ht'.congr rfl rfl rfl rfl rfl rfl rfl rfl, rfl⟩
          · split
            · exact ⟨ht'.congr rfl rfl rfl rfl rfl rfl rfl rfl, rfl⟩
            · exact ⟨ht'.congr rfl rfl rfl rfl rfl rfl rfl rfl, rfl⟩
        · exact ⟨ht', rfl⟩
      clear ht0
      obtain ⟨h0, hq0⟩ := h0
      cases loss with
      | false => exact ⟨_, rfl, h0⟩
      | true =>
        simp only [if_true]
        cases hq : t0.sentQ.getLast? with
        | none =>
          rw [List.getLast?_eq_none_iff, hq0] at hq
          exact absurd hq (hloss rfl)
        | some l => exact ⟨_, rfl, h0.congr rfl rfl rfl rfl rfl rfl rfl rfl⟩

end Aiortc.Sctp.V2
