import Aiortc.Model.Sctp.Outbound
/-!
# `_maybe_abandon` abandons exactly one whole message (C06)
-/
namespace Aiortc.Sctp
open Aiortc.Gen

/-- what `_maybe_abandon` does to a fragment that is in the sent queue. -/
def abSent (c : SChunk) : SChunk := { c with abandoned := true, retransmit := false, inFlight := false }
/-- … and to a fragment it moves over from the outbound queue. -/
def abUnsent (c : SChunk) : SChunk := { c with abandoned := true }

/-- the bytes a queue contributes to `_flight_size`. -/
def inflightBytes (q : List SChunk) : Nat := (q.map fun c => if c.inFlight then c.bookSize else 0).sum

theorem inflightBytes_append (a b : List SChunk) : inflightBytes (a ++ b) = inflightBytes a + inflightBytes b := by
  simp [inflightBytes]
theorem inflightBytes_cons (c : SChunk) (b : List SChunk) :
    inflightBytes (c :: b) = (if c.inFlight then c.bookSize else 0) + inflightBytes b := by
  simp [inflightBytes]
theorem inflightBytes_nil : inflightBytes [] = 0 := rfl
theorem inflightBytes_map_abSent (q : List SChunk) : inflightBytes (q.map abSent) = 0 := by
  induction q with
  | nil => rfl
  | cons c q ih => simp [inflightBytes_cons, abSent, ih]

theorem abSent_flags (c : SChunk) : (abSent c).flags = c.flags := rfl
theorem abSent_idem (c : SChunk) : abSent (abSent c) = abSent c := rfl

theorem markAb_eq (fl : Nat) (c : SChunk) :
    markAb fl c = (fl - (if c.inFlight then c.bookSize else 0), abSent c) := by
  cases c
  simp only [markAb, decFlight, abSent]
  split <;> simp_all

/-- no fragment is a B fragment / an E fragment. -/
def NoB (l : List SChunk) : Prop := ∀ c ∈ l, flagB c.flags = false
def NoE (l : List SChunk) : Prop := ∀ c ∈ l, flagE c.flags = false

/-- the first fragment, and only it, has the B flag. -/
def FirstOnlyB : List SChunk → Prop
  | [] => False
  | h :: tl => flagB h.flags = true ∧ NoB tl

/-- the last fragment, and only it, has the E flag. -/
def LastOnlyE : List SChunk → Prop
  | [] => False
  | [e] => flagE e.flags = true
  | c :: d :: r => flagE c.flags = false ∧ LastOnlyE (d :: r)

/-- The fragments of one message, as `_send` produces them. -/
def IsMsg (m : List SChunk) : Prop := FirstOnlyB m ∧ LastOnlyE m

theorem abandonBack_eq (fl : Nat) (xs : List SChunk) (b : SChunk) (rest : List SChunk)
    (hx : NoB xs) (hb : flagB b.flags = true) :
    abandonBack fl (xs ++ b :: rest) =
      (fl - inflightBytes (xs ++ [b]), xs.map abSent ++ abSent b :: rest) := by
  induction xs generalizing fl with
  | nil => simp [abandonBack, markAb_eq, hb, inflightBytes_cons, inflightBytes_nil]
  | cons c xs ih =>
    have hc : flagB c.flags = false := hx c (by simp)
    have hx' : NoB xs := fun d hd => hx d (by simp [hd])
    simp only [List.cons_append, abandonBack, markAb_eq, hc, ih _ hx', inflightBytes_cons, List.map_cons]
    simp [Nat.sub_sub]

theorem abandonFwd_eq (fl : Nat) (l rest : List SChunk) (hl : LastOnlyE l) :
    abandonFwd fl (l ++ rest) = (fl - inflightBytes l, l.map abSent ++ rest, true) := by
  induction l generalizing fl with
  | nil => exact absurd hl (by simp [LastOnlyE])
  | cons c l ih =>
    cases l with
    | nil =>
      have hc : flagE c.flags = true := hl
      simp [abandonFwd, markAb_eq, hc, inflightBytes_cons, inflightBytes_nil]
    | cons d r =>
      have hc : flagE c.flags = false := hl.1
      have := ih (fl - (if c.inFlight then c.bookSize else 0)) hl.2
      show abandonFwd fl (c :: (d :: r ++ rest)) = _
      rw [abandonFwd]
      simp only [markAb_eq, hc, this, inflightBytes_cons, List.map_cons]
      simp [Nat.sub_sub]

theorem abandonFwd_noE (fl : Nat) (l : List SChunk) (hl : NoE l) :
    abandonFwd fl l = (fl - inflightBytes l, l.map abSent, false) := by
  induction l generalizing fl with
  | nil => simp [abandonFwd, inflightBytes_nil]
  | cons c l ih =>
    have hc : flagE c.flags = false := hl c (by simp)
    have hl' : NoE l := fun d hd => hl d (by simp [hd])
    simp only [abandonFwd, markAb_eq, hc, ih _ hl', inflightBytes_cons, List.map_cons]
    simp [Nat.sub_sub]

theorem abandonUnsent_eq (l rest : List SChunk) (hl : LastOnlyE l) :
    abandonUnsent (l ++ rest) = (l.map abUnsent, rest) := by
  induction l with
  | nil => exact absurd hl (by simp [LastOnlyE])
  | cons c l ih =>
    cases l with
    | nil =>
      have hc : flagE c.flags = true := hl
      simp [abandonUnsent, hc, abUnsent]
    | cons d r =>
      have hc : flagE c.flags = false := hl.1
      have := ih hl.2
      simp only [List.cons_append] at this
      show abandonUnsent (c :: d :: (r ++ rest)) = _
      rw [abandonUnsent]
      simp [hc, this, abUnsent]

theorem lastOnlyE_abSent_head (x : SChunk) (b : List SChunk) (h : LastOnlyE (x :: b)) :
    LastOnlyE (abSent x :: b) := by
  cases b with
  | nil => exact h
  | cons d r => exact h

theorem noE_abSent_head (x : SChunk) (b : List SChunk) (h : NoE (x :: b)) : NoE (abSent x :: b) := by
  intro c hc
  rcases List.mem_cons.1 hc with rfl | hc
  · exact h x (by simp)
  · exact h c (by simp [hc])

/-- splitting a first-only-B list `a ++ [x]`. -/
theorem firstOnlyB_snoc (a : List SChunk) (x : SChunk) (h : FirstOnlyB (a ++ [x])) :
    ∃ hd tl, a ++ [x] = hd :: tl ∧ flagB hd.flags = true ∧ NoB tl.reverse := by
  cases hax : a ++ [x] with
  | nil => simp at hax
  | cons hd tl =>
    rw [hax] at h
    exact ⟨hd, tl, rfl, h.1, fun c hc => h.2 c (by simpa using hc)⟩

/-- The common part of both cases: the state after the backward loop and the input of the forward loop. -/
theorem maybeAbandon_unfold (t : Tx) (p q : List SChunk) (x : SChunk) (now : Int)
    (hq : t.sentQ = p ++ x :: q) (hx : x.abandoned = false) (hs : shouldAbandon x now = true) :
    t.maybeAbandon p.length now =
      (let pre := p ++ [x]
       let (fl1, preRev) := abandonBack t.flight pre.reverse
       let pre' := preRev.reverse
       let cur := pre'.getLast?.getD x
       let (fl2, fwd, sawLast) := abandonFwd fl1 (cur :: q)
       let sent' := pre'.dropLast ++ fwd
       if sawLast then (true, { t with flight := fl2, sentQ := sent' })
       else
         let (moved, rest) := abandonUnsent t.outQ
         (true, { t with flight := fl2, sentQ := sent' ++ moved, outQ := rest })) := by
  have h1 : t.sentQ[p.length]? = some x := by simp [hq]
  have h2 : t.sentQ.take (p.length + 1) = p ++ [x] := by
    rw [hq, List.take_append]; simp [List.take_of_length_le]
  have h3 : t.sentQ.drop (p.length + 1) = q := by
    rw [hq, List.drop_append]; simp [List.drop_of_length_le]
  simp only [Tx.maybeAbandon, h1, hx, hs, h2, h3]
  simp

theorem inflightBytes_reverse (q : List SChunk) : inflightBytes q.reverse = inflightBytes q := by
  induction q with
  | nil => rfl
  | cons c q ih => simp [inflightBytes_append, inflightBytes_cons, inflightBytes_nil, ih, Nat.add_comm]

/-- state after the backward loop, when the message's B fragment is in the sent queue. -/
theorem back_part (fl : Nat) (pre a : List SChunk) (x : SChunk) (hB : FirstOnlyB (a ++ [x])) :
    abandonBack fl (pre ++ a ++ [x]).reverse =
      (fl - inflightBytes (a ++ [x]), (pre ++ a.map abSent ++ [abSent x]).reverse) := by
  obtain ⟨hd, tl, hax, hhd, htl⟩ := firstOnlyB_snoc a x hB
  have hrev : (pre ++ a ++ [x]).reverse = tl.reverse ++ hd :: pre.reverse := by
    rw [List.append_assoc, hax]; simp
  have hmap : a.map abSent ++ [abSent x] = abSent hd :: tl.map abSent := by
    have := congrArg (List.map abSent) hax
    simpa using this
  rw [hrev, abandonBack_eq _ _ _ _ htl hhd, List.append_assoc, hmap, hax]
  congr 1
  · congr 1
    rw [← inflightBytes_reverse (hd :: tl)]; simp
  · simp

theorem inflightBytes_abSent_cons (x : SChunk) (b : List SChunk) :
    inflightBytes (abSent x :: b) = inflightBytes b := by
  simp [inflightBytes_cons, abSent]

/-- Case 1: the E fragment of the message is in the sent queue. Exactly the fragments of the message
around `pos` are marked; everything before, behind, and the outbound queue are untouched. -/
theorem maybeAbandon_sent (t : Tx) (pre a b post : List SChunk) (x : SChunk) (now : Int)
    (hq : t.sentQ = pre ++ (a ++ x :: b) ++ post)
    (hx : x.abandoned = false) (hs : shouldAbandon x now = true)
    (hB : FirstOnlyB (a ++ [x])) (hE : LastOnlyE (x :: b)) :
    t.maybeAbandon (pre.length + a.length) now =
      (true, { t with flight := t.flight - inflightBytes (a ++ x :: b),
                      sentQ := pre ++ (a ++ x :: b).map abSent ++ post }) := by
  have hq' : t.sentQ = (pre ++ a) ++ x :: (b ++ post) := by simp [hq]
  have h := maybeAbandon_unfold t (pre ++ a) (b ++ post) x now hq' hx hs
  rw [List.length_append] at h
  rw [h]
  have hf := abandonFwd_eq (t.flight - inflightBytes (a ++ [x])) (abSent x :: b) post
    (lastOnlyE_abSent_head x b hE)
  simp only [List.cons_append] at hf
  simp only [back_part _ pre a x hB, List.reverse_reverse, List.getLast?_append, List.getLast?_singleton,
    Option.some_or, Option.getD_some, List.dropLast_concat, hf, ↓reduceIte]
  simp [inflightBytes_append, inflightBytes_cons, abSent, inflightBytes_nil, Nat.sub_sub, Nat.add_assoc]

/-- Case 2: only part of the message has been sent (no E fragment behind `pos` in the sent queue, so the
message is the tail of the sent queue): the unsent remainder `u` (the head of the outbound queue, up to
its E fragment) is moved to the sent queue, abandoned. -/
theorem maybeAbandon_unsent (t : Tx) (pre a b u rest : List SChunk) (x : SChunk) (now : Int)
    (hq : t.sentQ = pre ++ (a ++ x :: b)) (ho : t.outQ = u ++ rest)
    (hx : x.abandoned = false) (hs : shouldAbandon x now = true)
    (hB : FirstOnlyB (a ++ [x])) (hE : NoE (x :: b)) (hu : LastOnlyE u) :
    t.maybeAbandon (pre.length + a.length) now =
      (true, { t with flight := t.flight - inflightBytes (a ++ x :: b),
                      sentQ := pre ++ (a ++ x :: b).map abSent ++ u.map abUnsent,
                      outQ := rest }) := by
  have hq' : t.sentQ = (pre ++ a) ++ x :: b := by simp [hq]
  have h := maybeAbandon_unfold t (pre ++ a) b x now hq' hx hs
  rw [List.length_append] at h
  rw [h]
  have hf := abandonFwd_noE (t.flight - inflightBytes (a ++ [x])) (abSent x :: b) (noE_abSent_head x b hE)
  simp only [back_part _ pre a x hB, List.reverse_reverse, List.getLast?_append, List.getLast?_singleton,
    Option.some_or, Option.getD_some, List.dropLast_concat, hf, ho, abandonUnsent_eq u rest hu]
  simp [inflightBytes_append, inflightBytes_cons, abSent, inflightBytes_nil, Nat.sub_sub, Nat.add_assoc]

/-- `_flight_size` is the sum of the book sizes of the fragments in flight, and nothing in the outbound
queue is in flight. -/
def FlightOk (t : Tx) : Prop := t.flight = inflightBytes t.sentQ ∧ ∀ c ∈ t.outQ, c.inFlight = false

theorem inflightBytes_map_abUnsent (u : List SChunk) (h : ∀ c ∈ u, c.inFlight = false) :
    inflightBytes (u.map abUnsent) = 0 := by
  induction u with
  | nil => rfl
  | cons c u ih =>
    have hc := h c (by simp)
    simp [inflightBytes_cons, abUnsent, hc, ih (fun d hd => h d (by simp [hd]))]

/-! ## getting the loop preconditions from "the queue holds whole messages" -/

theorem firstOnlyB_prefix (l1 l2 : List SChunk) (h : FirstOnlyB (l1 ++ l2)) (hne : l1 ≠ []) : FirstOnlyB l1 := by
  cases l1 with
  | nil => exact absurd rfl hne
  | cons c l1 => exact ⟨h.1, fun d hd => h.2 d (by simp [hd])⟩

theorem lastOnlyE_split (l1 l2 : List SChunk) (h : LastOnlyE (l1 ++ l2)) (hne : l2 ≠ []) :
    NoE l1 ∧ LastOnlyE l2 := by
  induction l1 with
  | nil => exact ⟨fun _ hc => by simp at hc, h⟩
  | cons c l1 ih =>
    cases hl : l1 ++ l2 with
    | nil => simp at hl; exact absurd hl.2 hne
    | cons d r =>
      rw [List.cons_append, hl] at h
      have := ih (hl ▸ h.2)
      refine ⟨?_, this.2⟩
      intro x hx
      rcases List.mem_cons.1 hx with rfl | hx
      · exact h.1
      · exact this.1 x hx

theorem noE_suffix (l1 l2 : List SChunk) (h : NoE (l1 ++ l2)) : NoE l2 :=
  fun c hc => h c (by simp [hc])

/-- `_maybe_abandon` never touches what goes on the wire. -/
theorem abSent_toR (c : SChunk) : (abSent c).toR = c.toR := rfl
theorem abUnsent_toR (c : SChunk) : (abUnsent c).toR = c.toR := rfl

/-- a reliable chunk (no `maxRetransmits`, no `maxPacketLifeTime`) is never a reason to abandon. -/
theorem shouldAbandon_reliable (c : SChunk) (now : Int) (h1 : c.maxRetransmits = none) (h2 : c.expiry = none) :
    shouldAbandon c now = false := by
  simp [shouldAbandon, h1, h2]

end Aiortc.Sctp
