import Aiortc.Lemmas.C06.SctpAbandon
/-!
# `_maybe_abandon` never loses, reorders or alters a chunk, whatever the queues look like (C06)
-/
namespace Aiortc.Sctp
open Aiortc.Gen

/-- what the peer can see of a queue. -/
def wire (q : List SChunk) : List RChunk := q.map SChunk.toR

theorem wire_append (a b : List SChunk) : wire (a ++ b) = wire a ++ wire b := by simp [wire]

theorem markAb_toR (fl : Nat) (c : SChunk) : (markAb fl c).2.toR = c.toR := by rw [markAb_eq]; rfl

theorem abandonBack_wire (fl : Nat) (l : List SChunk) : wire (abandonBack fl l).2 = wire l := by
  induction l generalizing fl with
  | nil => rfl
  | cons c cs ih =>
    unfold abandonBack
    simp only [markAb_eq]
    split
    · simp [wire, abSent_toR]
    · simp only [wire, List.map_cons, abSent_toR, List.cons.injEq, true_and]
      exact ih _

theorem abandonFwd_wire (fl : Nat) (l : List SChunk) : wire (abandonFwd fl l).2.1 = wire l := by
  induction l generalizing fl with
  | nil => rfl
  | cons c cs ih =>
    unfold abandonFwd
    simp only [markAb_eq]
    split
    · simp [wire, abSent_toR]
    · simp only [wire, List.map_cons, abSent_toR, List.cons.injEq, true_and]
      exact ih _

theorem abandonUnsent_wire (l : List SChunk) :
    wire (abandonUnsent l).1 ++ wire (abandonUnsent l).2 = wire l := by
  induction l with
  | nil => rfl
  | cons c cs ih =>
    unfold abandonUnsent
    split
    · simp [wire, SChunk.toR]
    · simp only [wire, List.map_cons, List.cons_append] at ih ⊢
      rw [ih]
      simp [SChunk.toR]

theorem wire_reverse (q : List SChunk) : wire q.reverse = (wire q).reverse := by simp [wire]

theorem wire_dropLast (q : List SChunk) : wire q.dropLast = (wire q).dropLast := by
  simp [wire, List.map_dropLast]

/-- **For every state and every position**: `_maybe_abandon` leaves the sequence of chunks `sent queue ++
outbound queue`, as the peer sees them (tsn, stream, ssn, ppid, flags, payload), exactly as it was — nothing is
lost, duplicated, reordered or altered, on any channel; it only moves the boundary between the two queues
forward. -/
theorem maybeAbandon_wire (t : Tx) (pos : Nat) (now : Int) :
    wire (t.maybeAbandon pos now).2.sentQ ++ wire (t.maybeAbandon pos now).2.outQ = wire t.sentQ ++ wire t.outQ ∧
    t.sentQ.length ≤ (t.maybeAbandon pos now).2.sentQ.length := by
  unfold Tx.maybeAbandon
  cases hc : t.sentQ[pos]? with
  | none => simp
  | some chunk =>
    simp only
    by_cases hab : chunk.abandoned = true
    · simp [hab]
    · simp only [hab, Bool.false_eq_true, ↓reduceIte]
      by_cases hs : shouldAbandon chunk now = true
      · simp only [hs, Bool.not_true, Bool.false_eq_true, ↓reduceIte]
        have hpos : pos < t.sentQ.length := by
          rcases Nat.lt_or_ge pos t.sentQ.length with h | h
          · exact h
          · simp [List.getElem?_eq_none h] at hc
        -- backward loop
        have hb := abandonBack_wire t.flight (t.sentQ.take (pos + 1)).reverse
        generalize abandonBack t.flight (t.sentQ.take (pos + 1)).reverse = rb at hb ⊢
        obtain ⟨fl1, preRev⟩ := rb
        simp only at hb ⊢
        have hpre : wire preRev.reverse = wire (t.sentQ.take (pos + 1)) := by
          rw [wire_reverse, hb, wire_reverse, List.reverse_reverse]
        have hne : preRev.reverse ≠ [] := by
          intro h
          have := congrArg List.length hpre
          simp [wire, h] at this
          omega
        obtain ⟨cur, hcur⟩ : ∃ cur, preRev.reverse.getLast? = some cur := by
          cases h : preRev.reverse.getLast? with
          | none => exact absurd (List.getLast?_eq_none_iff.1 h) hne
          | some c => exact ⟨c, rfl⟩
        have hsplit : preRev.reverse.dropLast ++ [cur] = preRev.reverse := by
          obtain ⟨ys, hys⟩ := List.getLast?_eq_some_iff.1 hcur
          rw [hys, List.dropLast_concat]
        -- forward loop
        have hf := abandonFwd_wire fl1 (cur :: t.sentQ.drop (pos + 1))
        simp only [hcur, Option.getD_some]
        generalize abandonFwd fl1 (cur :: t.sentQ.drop (pos + 1)) = rf at hf ⊢
        obtain ⟨fl2, fwd, sawLast⟩ := rf
        simp only at hf ⊢
        have hsent : wire (preRev.reverse.dropLast ++ fwd) = wire t.sentQ := by
          rw [wire_append, hf]
          have : wire (cur :: t.sentQ.drop (pos + 1)) = wire [cur] ++ wire (t.sentQ.drop (pos + 1)) := by
            simp [wire]
          rw [this, ← List.append_assoc, ← wire_append, hsplit, hpre, ← wire_append, List.take_append_drop]
        have hlen : (preRev.reverse.dropLast ++ fwd).length = t.sentQ.length := by
          have := congrArg List.length hsent
          simpa [wire] using this
        by_cases hl : sawLast = true
        · simp only [hl, ↓reduceIte]
          exact ⟨by rw [hsent], by omega⟩
        · simp only [hl, Bool.false_eq_true, ↓reduceIte]
          have hu := abandonUnsent_wire t.outQ
          generalize abandonUnsent t.outQ = ru at hu ⊢
          obtain ⟨moved, rest⟩ := ru
          simp only at hu ⊢
          refine ⟨?_, by rw [List.length_append]; omega⟩
          rw [wire_append, hsent, List.append_assoc, hu]
      · simp [hs]

end Aiortc.Sctp
