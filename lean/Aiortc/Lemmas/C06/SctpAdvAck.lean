import Aiortc.Model.Sctp.Outbound
/-!
# `_update_advanced_peer_ack_point` only steps over abandoned chunks (C06)
-/
namespace Aiortc.Sctp
open Aiortc.Gen

/-! ## insertion-ordered dict -/

theorem dictGet_nil {β} (k : Nat) : dictGet ([] : List (Nat × β)) k = none := rfl

theorem dictGet_cons {β} (e : Nat × β) (d : List (Nat × β)) (k : Nat) :
    dictGet (e :: d) k = if e.1 = k then some e.2 else dictGet d k := by
  unfold dictGet
  by_cases h : e.1 = k <;> simp [h]

theorem dictGet_map_set {β} (d : List (Nat × β)) (k k' : Nat) (v : β) :
    dictGet (d.map (fun e => if e.1 == k then (k, v) else e)) k' =
      if k' = k then (if d.any (·.1 == k) then some v else none) else dictGet d k' := by
  induction d with
  | nil => simp [dictGet_nil]
  | cons e d ih =>
    rw [List.map_cons, dictGet_cons, dictGet_cons, ih, List.any_cons]
    by_cases he : e.1 = k <;> by_cases hk : k' = k
    · simp [he, hk]
    · have : ¬ k = k' := by omega
      simp [he, hk, this]
    · subst hk
      have : (e.1 == k') = false := by simpa using he
      simp only [↓reduceIte, this, Bool.false_or, Bool.false_eq_true, he]
    · simp [he, hk]

theorem dictGet_append_new {β} (d : List (Nat × β)) (k k' : Nat) (v : β) (h : d.any (·.1 == k) = false) :
    dictGet (d ++ [(k, v)]) k' = if k' = k then some v else dictGet d k' := by
  induction d with
  | nil =>
    rw [List.nil_append, dictGet_cons, dictGet_nil]
    by_cases hk : k' = k
    · simp [hk]
    · have : ¬ k = k' := by omega
      simp [hk, this]
  | cons e d ih =>
    simp only [List.any_cons, Bool.or_eq_false_iff] at h
    rw [List.cons_append, dictGet_cons, dictGet_cons, ih h.2]
    by_cases hk : k' = k
    · subst hk
      have : ¬ e.1 = k' := by simpa using h.1
      simp [this]
    · simp [hk]

theorem dictGet_dictSet {β} (d : List (Nat × β)) (k k' : Nat) (v : β) :
    dictGet (dictSet d k v) k' = if k' = k then some v else dictGet d k' := by
  unfold dictSet
  split
  · rename_i h
    rw [dictGet_map_set, h]; simp
  · rename_i h
    exact dictGet_append_new d k k' v (Bool.not_eq_true _ ▸ h)

/-! ## `popAbandoned` / `updateAdvAck` -/

/-- the `_forward_tsn_streams` update for one popped chunk. -/
def fwdNote (streams : List (Nat × Int)) (c : SChunk) : List (Nat × Int) :=
  if !flagU c.flags then dictSet streams c.sid c.ssn else streams

theorem popAbandoned_eq (adv : Int) (streams : List (Nat × Int)) (needed : Bool) (q : List SChunk) :
    popAbandoned adv streams needed q =
      (((q.takeWhile (·.abandoned)).getLast?.map (·.tsn)).getD adv,
       (q.takeWhile (·.abandoned)).foldl fwdNote streams,
       needed || !(q.takeWhile (·.abandoned)).isEmpty,
       q.dropWhile (·.abandoned)) := by
  induction q generalizing adv streams needed with
  | nil => simp [popAbandoned]
  | cons c q ih =>
    unfold popAbandoned
    by_cases hc : c.abandoned = true
    · simp only [hc, ↓reduceIte, ih, List.takeWhile_cons, List.dropWhile_cons, List.foldl_cons, fwdNote]
      refine Prod.ext ?_ (Prod.ext rfl (Prod.ext ?_ rfl))
      · simp only [List.getLast?_cons]
        cases (q.takeWhile (·.abandoned)).getLast? <;> simp
      · simp
    · simp [hc]

/-- last popped ordered chunk of stream `sid`, if any. -/
def lastOrdered (popped : List SChunk) (sid : Nat) : Option SChunk :=
  (popped.filter fun c => !flagU c.flags && c.sid == sid).getLast?

theorem foldl_fwdNote_get (popped : List SChunk) (streams : List (Nat × Int)) (sid : Nat) :
    dictGet (popped.foldl fwdNote streams) sid =
      match lastOrdered popped sid with
      | some c => some c.ssn
      | none => dictGet streams sid := by
  induction popped generalizing streams with
  | nil => simp [lastOrdered]
  | cons c cs ih =>
    rw [List.foldl_cons, ih]
    unfold lastOrdered at *
    rw [List.filter_cons]
    by_cases hp : (!flagU c.flags && c.sid == sid) = true
    · simp only [hp, ↓reduceIte, List.getLast?_cons]
      cases hl : (cs.filter fun c => !flagU c.flags && c.sid == sid).getLast? with
      | some x => simp
      | none =>
        simp only [Bool.and_eq_true, Bool.not_eq_true', beq_iff_eq] at hp
        simp [fwdNote, hp.1, dictGet_dictSet, hp.2]
    · simp only [hp, Bool.false_eq_true, ↓reduceIte]
      cases hl : (cs.filter fun c => !flagU c.flags && c.sid == sid).getLast? with
      | some x => simp
      | none =>
        simp only [Bool.and_eq_true, Bool.not_eq_true', beq_iff_eq, not_and] at hp
        simp only [fwdNote]
        split
        · rename_i hu
          have : ¬ sid = c.sid := fun h => hp (by simpa using hu) h.symm
          simp [dictGet_dictSet, this]
        · rfl

/-- `_update_advanced_peer_ack_point` in closed form. -/
theorem updateAdvAck_eq (t : Tx) :
    t.updateAdvAck =
      (let caught := uint32_gte t.lastSacked t.advAck
       let popped := t.sentQ.takeWhile (·.abandoned)
       let adv := (popped.getLast?.map (·.tsn)).getD (if caught then t.lastSacked else t.advAck)
       let streams := popped.foldl fwdNote (if caught then [] else t.forwardStreams)
       let needed := (if caught then false else t.forwardNeeded) || !popped.isEmpty
       { t with advAck := adv, forwardStreams := streams, forwardNeeded := needed,
                sentQ := t.sentQ.dropWhile (·.abandoned),
                forwardTsn := if needed then some (adv, streams) else t.forwardTsn }) := by
  unfold Tx.updateAdvAck
  by_cases hc : uint32_gte t.lastSacked t.advAck = true
  · simp only [hc, ↓reduceIte, popAbandoned_eq]
    split <;> simp_all
  · simp only [hc, Bool.false_eq_true, ↓reduceIte, popAbandoned_eq]
    split <;> simp_all

/-! ## `_transmit` sends a pending FORWARD TSN first, once -/

theorem newLoop_evs (cwnd fuel fl : Nat) (t3 : Bool) (outQ sent : List SChunk) (evs : List TxEv) :
    (newLoop cwnd fuel fl t3 outQ sent evs).2.2.2.2 =
      evs ++ (newLoop cwnd fuel fl t3 outQ sent []).2.2.2.2 := by
  induction fuel generalizing fl t3 outQ sent evs with
  | zero => simp [newLoop]
  | succ fuel ih =>
    cases outQ with
    | nil => simp [newLoop]
    | cons c outQ =>
      unfold newLoop
      split
      · cases incFlight fl c with
        | mk fl' c1 =>
          simp only []
          rw [ih]
          conv => rhs; rw [ih]
          simp [List.append_assoc]
      · simp

theorem transmit_fwd (t : Tx) :
    ∃ rest, (t.transmit).2 =
        (match t.forwardTsn with | some (cum, streams) => [TxEv.fwd cum streams] | none => []) ++ rest
      ∧ (t.transmit).1.forwardTsn = none := by
  unfold Tx.transmit
  cases hf : t.forwardTsn with
  | none =>
    simp only [List.nil_append]
    generalize rtxLoop _ _ _ = r
    obtain ⟨st, rest⟩ := r
    by_cases hret : st.ret = true
    · simp only [hret, ↓reduceIte]
      exact ⟨_, rfl, hf⟩
    · simp only [hret, Bool.false_eq_true, ↓reduceIte]
      exact ⟨_, rfl, hf⟩
  | some p =>
    obtain ⟨cum, streams⟩ := p
    simp only
    generalize rtxLoop _ _ _ = r
    obtain ⟨st, rest⟩ := r
    by_cases hret : st.ret = true
    · simp only [hret, ↓reduceIte]
      exact ⟨_, rfl, trivial⟩
    · simp only [hret, Bool.false_eq_true, ↓reduceIte]
      rw [newLoop_evs, List.append_assoc, List.append_assoc]
      exact ⟨_, rfl, trivial⟩

end Aiortc.Sctp
