import Aiortc.Model.Sctp.Forward
import Aiortc.Lemmas.C06.SctpRuns
import Aiortc.Lemmas.C06.SctpAdvAck
/-!
# FORWARD TSN handling does not disturb streams it does not list (C06)
-/
namespace Aiortc.Sctp
open Aiortc.Gen

/-- no run of the stream's reassembly queue is waiting for a fragment with TSN ≤ `cum`. -/
def NotWaiting (cum : Int) (s : InStream) : Prop := ∀ g ∈ runsOf s.reasm, runDead cum g = false

theorem pruneChunks_id (s : InStream) (cum : Int) (h : NotWaiting cum s) : s.pruneChunks cum = (s, 0) := by
  rw [pruneChunks_eq]
  have h1 : (runsOf s.reasm).filter (fun g => !runDead cum g) = runsOf s.reasm :=
    List.filter_eq_self.2 (fun g hg => by simp [h g hg])
  rw [h1, runsOf_flatten, filter_none_sum _ _ h]

theorem dictGet_map_val {β γ} (f : β → γ) (d : List (Nat × β)) (k : Nat) :
    dictGet (d.map fun p => (p.1, f p.2)) k = (dictGet d k).map f := by
  induction d with
  | nil => rfl
  | cons e d ih =>
    rw [List.map_cons, dictGet_cons, dictGet_cons, ih]
    split <;> simp

theorem dictGet_append_other {β} (d : List (Nat × β)) (k k' : Nat) (v : β) (h : k' ≠ k) :
    dictGet (d ++ [(k, v)]) k' = dictGet d k' := by
  induction d with
  | nil =>
    rw [List.nil_append, dictGet_cons, dictGet_nil]
    have : ¬ k = k' := fun h' => h h'.symm
    simp [this]
  | cons e d ih => rw [List.cons_append, dictGet_cons, dictGet_cons, ih]

theorem fwdPrune_get (cum : Int) (ins : List (Nat × InStream)) (sid : Nat) :
    dictGet (fwdPrune cum ins).1 sid = (dictGet ins sid).map fun s => (s.pruneChunks cum).1 := by
  simp only [fwdPrune]
  exact dictGet_map_val (fun s => (s.pruneChunks cum).1) ins sid

theorem fwdAdvanceOne_other (ins ins' : List (Nat × InStream)) (sid : Nat) (sseq : Int) (msgs : List Msg)
    (h : fwdAdvanceOne ins sid sseq = .ok (ins', msgs)) (sid' : Nat) (hne : sid' ≠ sid) :
    dictGet ins' sid' = dictGet ins sid' := by
  unfold fwdAdvanceOne at h
  simp only at h
  split at h
  · rename_i m s' hp
    simp only [Outcome.ok.injEq, Prod.mk.injEq] at h
    obtain ⟨rfl, _⟩ := h
    rw [dictGet_dictSet]
    simp only [hne, ↓reduceIte]
    split
    · rfl
    · exact dictGet_append_other ins sid sid' _ hne
  all_goals simp at h

theorem fwdAdvance_other (streams : List (Nat × Int)) (ins ins' : List (Nat × InStream)) (msgs : List Msg)
    (h : fwdAdvance ins streams = .ok (ins', msgs)) (sid' : Nat) (hne : ∀ p ∈ streams, p.1 ≠ sid') :
    dictGet ins' sid' = dictGet ins sid' := by
  induction streams generalizing ins msgs with
  | nil =>
    simp only [fwdAdvance, Outcome.ok.injEq, Prod.mk.injEq] at h
    rw [← h.1]
  | cons p rest ih =>
    obtain ⟨sid, sseq⟩ := p
    unfold fwdAdvance at h
    cases h1 : fwdAdvanceOne ins sid sseq with
    | ok r =>
      obtain ⟨ins1, m1⟩ := r
      simp only [h1] at h
      cases h2 : fwdAdvance ins1 rest with
      | ok r2 =>
        obtain ⟨ins2, m2⟩ := r2
        simp only [h2, Outcome.ok.injEq, Prod.mk.injEq] at h
        obtain ⟨rfl, _⟩ := h
        rw [ih ins1 m2 h2 (fun q hq => hne q (by simp [hq]))]
        exact fwdAdvanceOne_other ins ins1 sid sseq m1 h1 sid' (fun h' => hne (sid, sseq) (by simp) h'.symm)
      | valueError => simp [h2] at h
      | crash k => simp [h2] at h
      | hang => simp [h2] at h
    | valueError => simp [h1] at h
    | crash k => simp [h1] at h
    | hang => simp [h1] at h

/-- A stream the FORWARD TSN does not list only gets pruned. -/
theorem fwdStreams_unlisted (cum : Int) (streams : List (Nat × Int)) (ins ins' : List (Nat × InStream))
    (freed : Nat) (msgs : List Msg) (h : fwdStreams cum streams ins = .ok (ins', freed, msgs))
    (sid : Nat) (hne : ∀ p ∈ streams, p.1 ≠ sid) :
    dictGet ins' sid = (dictGet ins sid).map fun s => (s.pruneChunks cum).1 := by
  unfold fwdStreams at h
  simp only at h
  cases h1 : fwdAdvance (fwdPrune cum ins).1 streams with
  | ok r =>
    obtain ⟨ins2, m2⟩ := r
    simp only [h1, Outcome.ok.injEq, Prod.mk.injEq] at h
    obtain ⟨rfl, _, _⟩ := h
    rw [fwdAdvance_other streams _ _ m2 h1 sid hne, fwdPrune_get]
  | valueError => simp [h1] at h
  | crash k => simp [h1] at h
  | hang => simp [h1] at h

end Aiortc.Sctp
