import Aiortc.Lemmas.C06.SctpSend
import Aiortc.Lemmas.C06.SctpRuns
/-!
# Whatever a stream delivers is a sent message (C06)
-/
namespace Aiortc.Sctp
open Aiortc.Gen

/-- the non-empty fragment lists of a history of sends (an empty `user_data` makes no fragment at all). -/
def sentMsgs (t : Tx) (rs : List SendReq) : List (List RChunk) := (sentWire t rs).filter (fun m => !m.isEmpty)

theorem sentMsgs_flatten (t : Tx) (rs : List SendReq) : (sentMsgs t rs).flatten = (sentWire t rs).flatten :=
  List.flatten_filter_not_isEmpty

theorem sentMsgs_shape (t : Tx) (rs : List SendReq) :
    ∀ m ∈ sentMsgs t rs, ∃ t' r, r ∈ rs ∧ m = (reqFrags t' r).map SChunk.toR ∧ reqFrags t' r ≠ [] := by
  intro m hm
  simp only [sentMsgs, sentWire, List.mem_filter, List.mem_map] at hm
  obtain ⟨⟨fs, hfs, rfl⟩, hne⟩ := hm
  obtain ⟨t', r, hr, rfl⟩ := sentFrags_mem t rs fs hfs
  refine ⟨t', r, hr, rfl, ?_⟩
  intro h; simp [h] at hne

theorem flatMap_data_map (l : List SChunk) : (l.map SChunk.toR).flatMap (·.data) = l.flatMap (·.data) := by
  induction l with
  | nil => rfl
  | cons c l ih => simp [SChunk.toR, ih]

/-- A message joined from a complete run of fragments, all of which the sender produced, is one of the
sender's messages: same stream, same ppid, same bytes. -/
theorem goodMsg_is_sent (t : Tx) (rs : List SendReq)
    (hlen : (sentWire t rs).flatten.length < 4294967296)
    (R : List RChunk) (hR : ∀ c ∈ R, c ∈ (sentWire t rs).flatten) (m : Msg) (hm : GoodMsg R m) :
    ∃ r ∈ rs, m = { sid := r.sid, ppid := r.ppid, data := r.data } := by
  obtain ⟨run, hfull, hsub, hdata, e, he, hsid, hppid⟩ := hm
  have hmem : run ∈ sentMsgs t rs := by
    apply fullRun_is_message t.localTsn (sentMsgs t rs)
    · intro m' hm'
      obtain ⟨t', r, _, rfl, hne⟩ := sentMsgs_shape t rs m' hm'
      have := reqFrags_isMsg t' r hne
      exact ⟨firstOnlyB_map _ this.1, lastOnlyE_map _ this.2⟩
    · rw [sentMsgs_flatten]; exact sentWire_tsn t rs
    · rw [sentMsgs_flatten]; exact hlen
    · exact hfull
    · intro c hc; rw [sentMsgs_flatten]; exact hR c (hsub c hc)
  obtain ⟨t', r, hr, rfl, _⟩ := sentMsgs_shape t rs run hmem
  refine ⟨r, hr, ?_⟩
  have hemem : e ∈ (reqFrags t' r).map SChunk.toR := List.mem_of_getLast? he
  obtain ⟨x, hx, rfl⟩ := List.mem_map.1 hemem
  have hf := reqFrags_fields t' r x hx
  cases m
  simp only [flatMap_data_map, reqFrags_data] at hdata
  simp only [SChunk.toR] at hsid hppid
  simp_all

/-! ## the operations the transport performs on an `InboundStream` -/

inductive StreamOp where
  | add (c : RChunk)          -- `add_chunk` (from `_receive_data_chunk`)
  | prune (tsn : Int)         -- `prune_chunks` (from `_receive_forward_tsn_chunk`)
  | setSeq (n : Int)          -- `sequence_number = …` (FORWARD TSN, stream reset)
  | pop                       -- `pop_messages`
  deriving Repr

def StreamOp.run (s : InStream) : StreamOp → Outcome (InStream × List Msg)
  | .add c => match s.addChunk c with
    | .ok s' => .ok (s', [])
    | .valueError => .valueError
    | .crash k => .crash k
    | .hang => .hang
  | .prune tsn => .ok ((s.pruneChunks tsn).1, [])
  | .setSeq n => .ok ({ s with seq := n }, [])
  | .pop => match s.popMessages with
    | .ok (msgs, s') => .ok (s', msgs)
    | .valueError => .valueError
    | .crash k => .crash k
    | .hang => .hang

/-- run a sequence of operations, collecting what is delivered. -/
def runOps : InStream → List StreamOp → Outcome (InStream × List Msg)
  | s, [] => .ok (s, [])
  | s, op :: ops => match op.run s with
    | .ok (s', out) => match runOps s' ops with
      | .ok (s'', out') => .ok (s'', out ++ out')
      | .valueError => .valueError
      | .crash k => .crash k
      | .hang => .hang
    | .valueError => .valueError
    | .crash k => .crash k
    | .hang => .hang

theorem insertLoop_mem (c : RChunk) (l r : List RChunk) (h : insertLoop c l = some r) :
    ∀ x ∈ r, x = c ∨ x ∈ l := by
  induction l generalizing r with
  | nil => simp [insertLoop] at h; subst h; simp
  | cons a l ih =>
    unfold insertLoop at h
    split at h
    · simp at h
    · split at h
      · simp only [Option.some.injEq] at h; subst h
        intro x hx; simpa using hx
      · cases hi : insertLoop c l with
        | none => simp [hi] at h
        | some r' =>
          simp only [hi, Option.map_some, Option.some.injEq] at h
          subst h
          intro x hx
          rcases List.mem_cons.1 hx with rfl | hx
          · simp
          · rcases ih r' hi x hx with h | h
            · exact Or.inl h
            · exact Or.inr (List.mem_cons_of_mem _ h)

theorem addChunk_mem (s s' : InStream) (c : RChunk) (h : s.addChunk c = .ok s') :
    (∀ x ∈ s'.reasm, x = c ∨ x ∈ s.reasm) ∧ s'.seq = s.seq := by
  unfold InStream.addChunk at h
  split at h
  · simp only [Outcome.ok.injEq] at h; subst h; simp
  · split at h
    · simp only [Outcome.ok.injEq] at h; subst h
      refine ⟨?_, rfl⟩
      intro x hx
      rcases List.mem_append.1 hx with hx | hx
      · exact Or.inr hx
      · simp only [List.mem_singleton] at hx; exact Or.inl hx
    · split at h
      · simp at h
      · rename_i r hr
        simp only [Outcome.ok.injEq] at h; subst h
        exact ⟨insertLoop_mem c _ r hr, rfl⟩

theorem sublist_flatten {α} {L1 L2 : List (List α)} (h : L1.Sublist L2) : L1.flatten.Sublist L2.flatten := by
  induction h with
  | slnil => simp
  | cons a _ ih => simp only [List.flatten_cons]; exact ih.trans (List.sublist_append_right _ _)
  | cons_cons a _ ih => simp only [List.flatten_cons]; exact List.Sublist.append_left ih a

theorem pruneChunks_sublist (s : InStream) (tsn : Int) : (s.pruneChunks tsn).1.reasm.Sublist s.reasm := by
  rw [pruneChunks_eq]
  simp only
  conv => rhs; rw [← runsOf_flatten s.reasm]
  exact sublist_flatten List.filter_sublist

/-- Whatever the transport does to a stream — adding received fragments in any order, pruning for any
FORWARD TSN, setting the expected sequence number to anything, popping at any time — everything the stream
ever contains was received and every message it yields is the join of a complete run of received
fragments. -/
theorem runOps_sound (P : RChunk → Prop) (s : InStream) (ops : List StreamOp) (s' : InStream) (out : List Msg)
    (hs : ∀ c ∈ s.reasm, P c) (hops : ∀ c, StreamOp.add c ∈ ops → P c)
    (h : runOps s ops = .ok (s', out)) :
    (∀ c ∈ s'.reasm, P c) ∧ ∀ m ∈ out, ∃ R, (∀ c ∈ R, P c) ∧ GoodMsg R m := by
  induction ops generalizing s out with
  | nil =>
    simp only [runOps, Outcome.ok.injEq, Prod.mk.injEq] at h
    obtain ⟨rfl, rfl⟩ := h
    exact ⟨hs, by simp⟩
  | cons op ops ih =>
    unfold runOps at h
    cases h1 : op.run s with
    | ok p =>
      obtain ⟨s1, out1⟩ := p
      simp only [h1] at h
      cases h2 : runOps s1 ops with
      | ok q =>
        obtain ⟨s2, out2⟩ := q
        simp only [h2, Outcome.ok.injEq, Prod.mk.injEq] at h
        obtain ⟨rfl, rfl⟩ := h
        have hstep : (∀ c ∈ s1.reasm, P c) ∧ ∀ m ∈ out1, ∃ R, (∀ c ∈ R, P c) ∧ GoodMsg R m := by
          cases op with
          | add c =>
            simp only [StreamOp.run] at h1
            cases ha : s.addChunk c with
            | ok sa =>
              simp only [ha, Outcome.ok.injEq, Prod.mk.injEq] at h1
              obtain ⟨rfl, rfl⟩ := h1
              refine ⟨?_, by simp⟩
              intro x hx
              rcases (addChunk_mem s sa c ha).1 x hx with rfl | hx
              · exact hops x (by simp)
              · exact hs x hx
            | valueError => simp [ha] at h1
            | crash k => simp [ha] at h1
            | hang => simp [ha] at h1
          | prune tsn =>
            simp only [StreamOp.run, Outcome.ok.injEq, Prod.mk.injEq] at h1
            obtain ⟨rfl, rfl⟩ := h1
            exact ⟨fun c hc => hs c ((pruneChunks_sublist s tsn).subset hc), by simp⟩
          | setSeq n =>
            simp only [StreamOp.run, Outcome.ok.injEq, Prod.mk.injEq] at h1
            obtain ⟨rfl, rfl⟩ := h1
            exact ⟨hs, by simp⟩
          | pop =>
            simp only [StreamOp.run] at h1
            cases hp : s.popMessages with
            | ok r =>
              obtain ⟨msgs, sp⟩ := r
              simp only [hp, Outcome.ok.injEq, Prod.mk.injEq] at h1
              obtain ⟨rfl, rfl⟩ := h1
              have := popMessages_sound s sp msgs hp
              exact ⟨fun c hc => hs c (this.2.subset hc), fun m hm => ⟨s.reasm, hs, this.1 m hm⟩⟩
            | valueError => simp [hp] at h1
            | crash k => simp [hp] at h1
            | hang => simp [hp] at h1
        have := ih s1 out2 hstep.1 (fun c hc => hops c (by simp [hc])) h2
        refine ⟨this.1, ?_⟩
        intro m hm
        rcases List.mem_append.1 hm with hm | hm
        · exact hstep.2 m hm
        · exact this.2 m hm
      | valueError => simp [h2] at h
      | crash k => simp [h2] at h
      | hang => simp [h2] at h
    | valueError => simp [h1] at h
    | crash k => simp [h1] at h
    | hang => simp [h1] at h

end Aiortc.Sctp
